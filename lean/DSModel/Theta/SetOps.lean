/-
L1 model of the theta set operations (theta_union_base_impl.hpp, theta_intersection_base_impl.hpp,
theta_set_difference_base_impl.hpp, theta_jaccard_similarity_base.hpp), generic in the payload `σ`
and the combining policy (σ = Unit: Theta; σ = summary: Tuple).

Operands are `Compact σ` values (every physical form — update sketch, compact ordered/unordered,
wrapped, deserialized — abstracts to one).  `none` = the operation throws.
Core Lean only.
-/
import DSModel.Theta.Update
namespace DS.Theta

variable {σ : Type}

/-- abstraction of an update sketch as an operand (model order = ascending; `ordered` as `is_ordered()` reports) -/
def operandOfUpdate (s : St σ) (seedHash : Nat) : Compact σ :=
  { theta := theta64 s, ents := if s.isEmpty then [] else s.ents, isEmpty := s.isEmpty, ordered := isOrdered s, seedHash := seedHash }

/-- `compact_theta_sketch(const Other&, bool ordered)` applied to a compact sketch -/
def compactOfCompact (a : Compact σ) (ordered : Bool) : Compact σ :=
  { a with ents := if a.isEmpty then [] else a.ents, ordered := a.ordered || ordered }

/-! ### union -/

structure Union (σ : Type) where
  tbl : St σ
  unionTheta : Nat

def unionInit (c : Cfg) : Union σ := { tbl := init c, unionTheta := c.theta0 }

/-- one entry of an input offered to the union's table: `find` + `insert` / policy -/
def unionEntry (c : Cfg) (pol : σ → σ → σ) (u : Union σ) (e : Nat × σ) : Union σ :=
  let f : Option σ → σ := fun o => match o with | none => e.2 | some x => pol x e.2
  match lookup e.1 u.tbl.ents with
  | some _ => { u with tbl := { u.tbl with ents := upsert e.1 f u.tbl.ents } }
  | none   => { u with tbl := afterInsert c { u.tbl with ents := upsert e.1 f u.tbl.ents } }

/-- the entry loop of `update` with the early stop for ordered inputs -/
def unionLoop (c : Cfg) (pol : σ → σ → σ) (ord : Bool) : List (Nat × σ) → Union σ → Union σ
  | [], u => u
  | e :: t, u =>
    if e.1 < u.unionTheta ∧ e.1 < u.tbl.theta then unionLoop c pol ord t (unionEntry c pol u e)
    else if ord then u else unionLoop c pol ord t u

def unionUpdate (c : Cfg) (pol : σ → σ → σ) (seedHash : Nat) (u : Union σ) (sk : Compact σ) : Option (Union σ) :=
  if sk.isEmpty then some u
  else if sk.seedHash ≠ seedHash then none
  else
    let u1 : Union σ := { tbl := { u.tbl with isEmpty := false }, unionTheta := min u.unionTheta sk.theta }
    let u2 := unionLoop c pol sk.ordered sk.ents u1
    some { u2 with unionTheta := min u2.unionTheta u2.tbl.theta }

/-- the table entries `get_result` copies out: all of them, or those below `min(union_theta_, table_.theta_)` -/
def unionEnts (u : Union σ) : List (Nat × σ) :=
  if u.tbl.theta ≤ u.unionTheta then u.tbl.ents
  else u.tbl.ents.filter (fun e => decide (e.1 < min u.unionTheta u.tbl.theta))

def unionResult (c : Cfg) (u : Union σ) (ordered : Bool) (seedHash : Nat) : Compact σ :=
  if u.tbl.isEmpty then { theta := u.unionTheta, ents := [], isEmpty := true, ordered := true, seedHash := seedHash }
  else
    match (keys (unionEnts u))[2^c.lgNom]? with
    | some t => { theta := t, ents := (unionEnts u).take (2^c.lgNom), isEmpty := false,
                  ordered := ordered || decide (2^c.lgNom ≤ 1), seedHash := seedHash }
    | none => { theta := min u.unionTheta u.tbl.theta, ents := unionEnts u, isEmpty := false,
                ordered := ordered || decide ((unionEnts u).length ≤ 1), seedHash := seedHash }

def unionReset (c : Cfg) (_ : Union σ) : Union σ := unionInit c

/-! ### intersection -/

structure Inter (σ : Type) where
  valid : Bool
  theta : Nat
  isEmpty : Bool
  ents : List (Nat × σ)      -- key-sorted

def interInit : Inter σ := { valid := false, theta := MAX_THETA, isEmpty := false, ents := [] }

/-- insertion sort by key (inputs of the first update arrive in arbitrary order) -/
def insertKV (e : Nat × σ) : List (Nat × σ) → List (Nat × σ)
  | [] => [e]
  | a :: t => if e.1 ≤ a.1 then e :: a :: t else a :: insertKV e t
def sortKV (l : List (Nat × σ)) : List (Nat × σ) := l.foldr insertKV []

def hasDupKeys : List Nat → Bool
  | [] => false
  | a :: t => t.contains a || hasDupKeys t

/-- the match loop: entries of the incoming sketch below theta that are present in the table, combined by the policy
   (table entry first, incoming second); early stop for ordered inputs -/
def interLoop (pol : σ → σ → σ) (theta : Nat) (tbl : List (Nat × σ)) (ord : Bool) : List (Nat × σ) → List (Nat × σ)
  | [] => []
  | e :: t =>
    if e.1 < theta then
      match lookup e.1 tbl with
      | some x => (e.1, pol x e.2) :: interLoop pol theta tbl ord t
      | none => interLoop pol theta tbl ord t
    else if ord then [] else interLoop pol theta tbl ord t

def interUpdate (pol : σ → σ → σ) (seedHash : Nat) (i : Inter σ) (sk : Compact σ) : Option (Inter σ) :=
  if i.isEmpty then some i
  else if !sk.isEmpty && sk.seedHash ≠ seedHash then none
  else
    let isEmpty := sk.isEmpty
    let theta := if isEmpty then MAX_THETA else min i.theta sk.theta
    let i1 : Inter σ := { i with isEmpty := isEmpty, theta := theta }
    if i1.valid && i1.ents.isEmpty then some i1
    else if sk.ents.isEmpty then some { i1 with valid := true, ents := [] }
    else if !i1.valid then
      if hasDupKeys (keys sk.ents) then none
      else some { i1 with valid := true, ents := sortKV sk.ents }
    else
      let m := interLoop pol theta i1.ents sk.ordered sk.ents
      if m.isEmpty then some { i1 with ents := [], isEmpty := i1.isEmpty || theta == MAX_THETA }
      else some { i1 with ents := sortKV m }

def interResult (i : Inter σ) (ordered : Bool) (seedHash : Nat) : Option (Compact σ) :=
  if !i.valid then none
  else some { theta := i.theta, ents := i.ents, isEmpty := i.isEmpty, ordered := ordered || decide (i.ents.length ≤ 1), seedHash := seedHash }

/-! ### A-not-B -/

def aNotB (seedHash : Nat) (a b : Compact σ) (ordered : Bool) : Option (Compact σ) :=
  if a.isEmpty || (!a.ents.isEmpty && b.isEmpty) then some (compactOfCompact a ordered)
  else if a.seedHash ≠ seedHash || b.seedHash ≠ seedHash then none
  else
    let theta := min a.theta b.theta
    let bk := keys b.ents
    let ents := a.ents.filter (fun e => e.1 < theta && !(bk.contains e.1))
    let isEmpty := ents.isEmpty && theta == MAX_THETA
    some { theta := theta, ents := ents, isEmpty := isEmpty,
           ordered := a.ordered || ordered || decide (ents.length ≤ 1), seedHash := seedHash }


/-! ### filter (tuple sketches) -/

/-- `compact_tuple_sketch::filter(sketch, predicate)`: entries whose summary satisfies the predicate;
theta, seed hash and orderedness are kept; empty iff not in estimation mode and nothing is left -/
def filterSk (pred : σ → Bool) (a : Compact σ) : Compact σ :=
  { theta := a.theta, ents := a.ents.filter (fun e => pred e.2),
    isEmpty := !(decide (a.theta < MAX_THETA) && !a.isEmpty) && (a.ents.filter (fun e => pred e.2)).isEmpty,
    ordered := a.ordered || decide ((a.ents.filter (fun e => pred e.2)).length ≤ 1),
    seedHash := a.seedHash }

/-- a whole sequence of union updates (`none` as soon as one update throws) -/
def unionFold (c : Cfg) (pol : σ → σ → σ) (seedHash : Nat) : Union σ → List (Compact σ) → Option (Union σ)
  | u, [] => some u
  | u, sk :: rest => match unionUpdate c pol seedHash u sk with
    | none => none
    | some u' => unionFold c pol seedHash u' rest

/-- a whole sequence of intersection updates -/
def interFold (pol : σ → σ → σ) (seedHash : Nat) : Inter σ → List (Compact σ) → Option (Inter σ)
  | i, [] => some i
  | i, sk :: rest => match interUpdate pol seedHash i sk with
    | none => none
    | some i' => interFold pol seedHash i' rest

end DS.Theta

namespace DS.Theta

/-- the two set expressions `jaccard()` evaluates: the union of A and B and the intersection of A, B and that union -/
def jaccardParts (c : Cfg) (sh : Nat) (a b : Compact Unit) : Option (Compact Unit × Compact Unit) :=
  match unionFold c (fun _ _ => ()) sh (unionInit c) [a, b] with
  | none => none
  | some u =>
    let uab := unionResult c u false sh
    match interFold (fun _ _ => ()) sh interInit [a, b, uab] with
    | none => none
    | some i => match interResult i false sh with
      | none => none
      | some r => some (uab, r)

end DS.Theta

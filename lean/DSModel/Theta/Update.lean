/-
L1 model of `theta_update_sketch_base` (theta/include/theta_update_sketch_base_impl.hpp),
generic in the payload `σ` (σ = Unit: update_theta_sketch; σ = summary: update_tuple_sketch).

The open-addressing table is abstracted to a key-sorted association list (the probe order is
not observable after canonicalisation).  Hashes are `Nat` (< 2^63).
Core Lean only.
-/
namespace DS.Theta

def MAX_THETA : Nat := 2^63 - 1

structure Cfg where
  lgNom   : Nat
  lgRf    : Nat
  theta0  : Nat          -- starting theta (from p)
  lgStart : Nat          -- starting lg size of the table
  rszNum  : Nat := 1     -- RESIZE_THRESHOLD  = rszNum / rszDen
  rszDen  : Nat := 2
  rbdNum  : Nat := 15    -- REBUILD_THRESHOLD = rbdNum / rbdDen
  rbdDen  : Nat := 16
deriving Repr

structure St (σ : Type) where
  theta   : Nat
  ents    : List (Nat × σ)       -- sorted by key, keys distinct
  isEmpty : Bool
  lgCur   : Nat

def keys {σ} (l : List (Nat × σ)) : List Nat := l.map (·.1)

/-- `get_capacity(lg_cur_size, lg_nom_size)` -/
def capacity (c : Cfg) (lgCur : Nat) : Nat :=
  if lgCur ≤ c.lgNom then c.rszNum * 2^lgCur / c.rszDen else c.rbdNum * 2^lgCur / c.rbdDen

def init {σ} (c : Cfg) : St σ := { theta := c.theta0, ents := [], isEmpty := true, lgCur := c.lgStart }

/-- lookup in the key-sorted list -/
def lookup {σ} (h : Nat) : List (Nat × σ) → Option σ
  | [] => none
  | (k, v) :: t => if k = h then some v else lookup h t

/-- sorted insert-or-update: `f none` for a new key, `f (some v)` for a present one -/
def upsert {σ} (h : Nat) (f : Option σ → σ) : List (Nat × σ) → List (Nat × σ)
  | [] => [(h, f none)]
  | (k, v) :: t =>
    if h < k then (h, f none) :: (k, v) :: t
    else if h = k then (k, f (some v)) :: t
    else (k, v) :: upsert h f t

/-- `rebuild()`: theta := key of rank k (0-based) = the (k+1)-th smallest; keep the k smallest -/
def rebuild {σ} (c : Cfg) (s : St σ) : St σ :=
  match (keys s.ents)[2^c.lgNom]? with
  | some t => { s with theta := t, ents := s.ents.take (2^c.lgNom) }
  | none => s     -- unreachable: rebuild is only called with more than k entries

/-- after an insertion of a *new* key: `insert()`'s capacity test -/
def afterInsert {σ} (c : Cfg) (s : St σ) : St σ :=
  if s.ents.length > capacity c s.lgCur then
    if s.lgCur ≤ c.lgNom then { s with lgCur := min (s.lgCur + c.lgRf) (c.lgNom + 1) }
    else rebuild c s
  else s

/-- `hash_and_screen` + `find` + `insert` / policy update, for an already computed hash -/
def offer {σ} (c : Cfg) (s : St σ) (h : Nat) (f : Option σ → σ) : St σ :=
  let s := { s with isEmpty := false }
  if h = 0 ∨ s.theta ≤ h then s
  else match lookup h s.ents with
    | some _ => { s with ents := upsert h f s.ents }
    | none   => afterInsert c { s with ents := upsert h f s.ents }

def trim {σ} (c : Cfg) (s : St σ) : St σ :=
  if s.ents.length > 2^c.lgNom then rebuild c s else s

def reset {σ} (c : Cfg) (_ : St σ) : St σ := init c

/-- `get_theta64()` -/
def theta64 {σ} (s : St σ) : Nat := if s.isEmpty then MAX_THETA else s.theta

def isEstimationMode {σ} (s : St σ) : Bool := theta64 s < MAX_THETA && !s.isEmpty

def isOrdered {σ} (s : St σ) : Bool := s.ents.length ≤ 1

/-- `starting_sub_multiple(lg_tgt, lg_min, lg_rf)` -/
def startingSubMultiple (lgTgt lgMin lgRf : Nat) : Nat :=
  if lgTgt ≤ lgMin then lgMin else if lgRf = 0 then lgTgt else (lgTgt - lgMin) % lgRf + lgMin

inductive Op (σ : Type) where
  | upd (h : Nat) (f : Option σ → σ)
  | trim
  | reset

def step {σ} (c : Cfg) (s : St σ) : Op σ → St σ
  | .upd h f => offer c s h f
  | .trim => trim c s
  | .reset => reset c s

def run {σ} (c : Cfg) (ops : List (Op σ)) : St σ := ops.foldl (step c) (init c)

/-! ### compact form (shared by theta and tuple) -/

structure Compact (σ : Type) where
  theta   : Nat
  ents    : List (Nat × σ)     -- in stored order
  isEmpty : Bool
  ordered : Bool
  seedHash : Nat

/-- `compact_theta_sketch(const Other&, bool ordered)`: from an update sketch (model order = sorted,
   real order = table order; canonical comparison sorts unordered output) -/
def compact {σ} (s : St σ) (ordered : Bool) (seedHash : Nat) : Compact σ :=
  { theta := theta64 s, ents := if s.isEmpty then [] else s.ents, isEmpty := s.isEmpty,
    ordered := isOrdered s || ordered, seedHash := seedHash }

end DS.Theta

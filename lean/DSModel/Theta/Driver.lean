/- Line-protocol driver for the theta family (C01, C02). Core Lean only. -/
import DSModel.Canon
import DSModel.Theta.Update
import DSModel.Theta.SetOps
import DSModel.Theta.Table
namespace DS.Theta

inductive Obj where
  | upd (c : Cfg) (seed : UInt64) (s : St Unit)
  | cmp (c : Compact Unit)
  | uni (c : Cfg) (seedHash : Nat) (u : Union Unit)
  | int (seedHash : Nat) (i : Inter Unit)

abbrev Objs := Array (Option Obj)

def Objs.set' (o : Objs) (i : Nat) (v : Obj) : Objs :=
  let o := if i < o.size then o else o ++ Array.replicate (i + 1 - o.size) none
  o.set! i (some v)

def Objs.get' (o : Objs) (i : Nat) : Option Obj := (o[i]?).join

def thetaFrac (t : Nat) : Float := (UInt64.ofNat t).toFloat / (UInt64.ofNat MAX_THETA).toFloat

def obsLine (theta64 : Nat) (empty ordered : Bool) (seedHash : Nat) (ks : List Nat) : String :=
  let n := ks.length
  let est := n.toFloat / thetaFrac theta64
  let estMode := theta64 < MAX_THETA && !empty
  let ents := if n ≤ 4096 then joinSp (ks.map toString) else s!"fold {hex64 (fold64 ks)}"
  s!"T {theta64} {boolStr empty} {boolStr estMode} {boolStr ordered} {n} {hexF est} {seedHash} {ents}"

def observeCompact (c : Compact Unit) : String :=
  obsLine c.theta c.isEmpty c.ordered c.seedHash (sortNat (keys c.ents))

def observe : Obj → String
  | .upd _ seed s => obsLine (theta64 s) s.isEmpty (isOrdered s) (seedHash seed).toNat (keys s.ents)
  | .cmp c => observeCompact c
  | .uni _ _ _ => "ok"
  | .int _ _ => "ok"

/-- any sketch object as a set-operation operand -/
def operand : Obj → Option (Compact Unit)
  | .upd _ seed s => some (operandOfUpdate s (seedHash seed).toNat)
  | .cmp c => some c
  | _ => none

def nopPolicy : Unit → Unit → Unit := fun _ _ => ()

def ceilPow2 (n : Nat) : Nat := if n = 0 then 0 else
  let rec go (p fuel : Nat) : Nat := match fuel with
    | 0 => p
    | fuel + 1 => if n ≤ p then p else go (2 * p) fuel
  go 1 40

def jaccard (t : Nat × Nat × Nat × Nat × Nat) (a b : Compact Unit) (seed : UInt64) (same : Bool) : String :=
  let one := hexF 1.0
  let zero := hexF 0.0
  if same then s!"J {one} {one} {one}"
  else if a.isEmpty && b.isEmpty then s!"J {one} {one} {one}"
  else if a.isEmpty || b.isEmpty then s!"J {zero} {zero} {zero}"
  else
    let (rszNum, rszDen, rbdNum, rbdDen, minLgK) := t
    let lgK := min (max (Nat.log2 (ceilPow2 (a.ents.length + b.ents.length))) minLgK) 26
    let c : Cfg := { lgNom := lgK, lgRf := 3, theta0 := MAX_THETA, lgStart := startingSubMultiple (lgK + 1) minLgK 3,
                     rszNum := rszNum, rszDen := rszDen, rbdNum := rbdNum, rbdDen := rbdDen }
    let sh := (seedHash seed).toNat
    match jaccardParts c sh a b with
    | none => "throw"
    | some (uab, r) =>
      if uab.ents.length == a.ents.length && uab.ents.length == b.ents.length && uab.theta == a.theta && uab.theta == b.theta
      then s!"J {one} {one} {one}"
      else if r.theta > uab.theta then "throw" else
        let cb := r.ents.length
        let ca := if uab.theta == r.theta then uab.ents.length else (uab.ents.filter (fun e => e.1 < r.theta)).length
        let f := thetaFrac r.theta
        let est := if ca == 0 then 0.5 else cb.toFloat / ca.toFloat
        if ca == 0 then s!"J {hexF 0.0} {hexF est} {hexF 1.0}"
        else if f == 1.0 then s!"J {hexF est} {hexF est} {hexF est}"
        else s!"Jest {hexF est}"

/-- `exactly_equal`: same object, both empty, or the union of the two has the retained count and theta of both -/
def exactlyEqual (t : Nat × Nat × Nat × Nat × Nat) (a b : Compact Unit) (seed : UInt64) (same : Bool) : String :=
  if same then "E 1"
  else if a.isEmpty && b.isEmpty then "E 1"
  else if a.isEmpty || b.isEmpty then "E 0"
  else
    let (rszNum, rszDen, rbdNum, rbdDen, minLgK) := t
    let lgK := min (max (Nat.log2 (ceilPow2 (a.ents.length + b.ents.length))) minLgK) 26
    let c : Cfg := { lgNom := lgK, lgRf := 3, theta0 := MAX_THETA, lgStart := startingSubMultiple (lgK + 1) minLgK 3,
                     rszNum := rszNum, rszDen := rszDen, rbdNum := rbdNum, rbdDen := rbdDen }
    let sh := (seedHash seed).toNat
    match unionUpdate c nopPolicy sh (unionInit c) a with
    | none => "throw"
    | some u1 => match unionUpdate c nopPolicy sh u1 b with
      | none => "throw"
      | some u2 =>
        let uab := unionResult c u2 false sh
        if uab.ents.length == a.ents.length && uab.ents.length == b.ents.length && uab.theta == a.theta && uab.theta == b.theta
        then "E 1" else "E 0"

def theta0OfP (floor : Nat) (pbits : UInt32) : Nat :=
  let p := (Float32.ofBits pbits).toFloat
  if p < 1 then max floor ((UInt64.ofNat MAX_THETA).toFloat * p).toUInt64.toNat else MAX_THETA

structure Tunables where
  rszNum : Nat := 1
  rszDen : Nat := 2
  rbdNum : Nat := 15
  rbdDen : Nat := 16
  minLgK : Nat := 5
  theta0Floor : Nat := 0

def mkCfg (t : Tunables) (lgK lgRf : Nat) (pbits : UInt32) : Cfg :=
  { lgNom := lgK, lgRf := lgRf, theta0 := theta0OfP t.theta0Floor pbits,
    lgStart := startingSubMultiple (lgK + 1) t.minLgK lgRf,
    rszNum := t.rszNum, rszDen := t.rszDen, rbdNum := t.rbdNum, rbdDen := t.rbdDen }

def unitF : Option Unit → Unit := fun _ => ()

def stepLine (t : Tunables) (o : Objs) (w0 : List String) : Objs × String :=
  -- a trailing `mv` asks the harness to pass the operand as an rvalue; logically the same operation
  let w := if w0.getLast? == some "mv" then w0.dropLast else w0
  match w with
  | ["new", id, lgk, rf, p, seed] =>
    match id.toNat?, lgk.toNat?, rf.toNat?, parseHex p, seed.toNat? with
    | some id, some lgk, some rf, some p, some seed =>
      let c := mkCfg t lgk rf (UInt32.ofNat p)
      let ob := Obj.upd c (UInt64.ofNat seed) (init c)
      (o.set' id ob, observe ob)
    | _, _, _, _, _ => (o, "bad-op")
  | ["upd", id, ty, lit] =>
    match id.toNat?, parseInput ty lit with
    | some id, some inp =>
      match o.get' id with
      | some (.upd c seed s) =>
        let s' := match thetaHash inp seed with
          | some h => offer c s h unitF
          | none => s
        let ob := Obj.upd c seed s'
        (o.set' id ob, observe ob)
      | _ => (o, "bad-op")
    | _, _ => (o, "bad-op")
  | ["trim", id] =>
    match id.toNat? >>= o.get' with
    | some (.upd c seed s) => let ob := Obj.upd c seed (trim c s); (o.set' id.toNat?.get! ob, observe ob)
    | _ => (o, "bad-op")
  | ["reset", id] =>
    match id.toNat? >>= o.get' with
    | some (.upd c seed s) => let ob := Obj.upd c seed (reset c s); (o.set' id.toNat?.get! ob, observe ob)
    | _ => (o, "bad-op")
  | ["copy", id, nid] =>
    match id.toNat? >>= o.get', nid.toNat? with
    | some ob, some nid => (o.set' nid ob, observe ob)
    | _, _ => (o, "bad-op")
  | ["compact", id, nid, ord] =>
    match id.toNat? >>= o.get', nid.toNat? with
    | some (.upd _ seed s), some nid =>
      let ob := Obj.cmp (compact s (ord == "1") (seedHash seed).toNat)
      (o.set' nid ob, observe ob)
    | some (.cmp c), some nid =>
      let ob := Obj.cmp { c with ordered := c.ordered || ord == "1" }
      (o.set' nid ob, observe ob)
    | _, _ => (o, "bad-op")
  | ["ser", id, nid, _kind, _seed] =>
    -- serialize -> deserialize / wrap (compressed or not): the logical content of a compact sketch is unchanged
    match id.toNat? >>= o.get', nid.toNat?, _seed.toNat? with
    | some (.cmp c), some nid, some seed =>
      -- the reader checks the seed hash of a non-empty image against the caller's seed
      if !c.isEmpty && (seedHash (UInt64.ofNat seed)).toNat ≠ c.seedHash then (o, "throw")
      else let ob := Obj.cmp c; (o.set' nid ob, observe ob)
    | _, _, _ => (o, "bad-op")
  | ["unew", id, lgk, rf, p, seed] =>
    match id.toNat?, lgk.toNat?, rf.toNat?, parseHex p, seed.toNat? with
    | some id, some lgk, some rf, some p, some seed =>
      let c := mkCfg t lgk rf (UInt32.ofNat p)
      (o.set' id (Obj.uni c (seedHash (UInt64.ofNat seed)).toNat (unionInit c)), "ok")
    | _, _, _, _, _ => (o, "bad-op")
  | ["uupd", uid, sid] =>
    match uid.toNat? >>= o.get', (sid.toNat? >>= o.get') >>= operand with
    | some (.uni c sh u), some sk =>
      match unionUpdate c nopPolicy sh u sk with
      | some u' => (o.set' uid.toNat?.get! (Obj.uni c sh u'), "ok")
      | none => (o, "throw")
    | _, _ => (o, "bad-op")
  | ["ures", uid, nid, ord] =>
    match uid.toNat? >>= o.get', nid.toNat? with
    | some (.uni c sh u), some nid =>
      let ob := Obj.cmp (unionResult c u (ord == "1") sh)
      (o.set' nid ob, observe ob)
    | _, _ => (o, "bad-op")
  | ["ureset", uid] =>
    match uid.toNat? >>= o.get' with
    | some (.uni c sh u) => (o.set' uid.toNat?.get! (Obj.uni c sh (unionReset c u)), "ok")
    | _ => (o, "bad-op")
  | ["inew", id, seed] =>
    match id.toNat?, seed.toNat? with
    | some id, some seed => (o.set' id (Obj.int (seedHash (UInt64.ofNat seed)).toNat interInit), "ok")
    | _, _ => (o, "bad-op")
  | ["iupd", iid, sid] =>
    match iid.toNat? >>= o.get', (sid.toNat? >>= o.get') >>= operand with
    | some (.int sh i), some sk =>
      match interUpdate nopPolicy sh i sk with
      | some i' => (o.set' iid.toNat?.get! (Obj.int sh i'), "ok")
      | none => (o, "throw")
    | _, _ => (o, "bad-op")
  | ["ires", iid, nid, ord] =>
    match iid.toNat? >>= o.get', nid.toNat? with
    | some (.int sh i), some nid =>
      match interResult i (ord == "1") sh with
      | some r => let ob := Obj.cmp r; (o.set' nid ob, observe ob)
      | none => (o, "throw")
    | _, _ => (o, "bad-op")
  | ["ihas", iid] =>
    match iid.toNat? >>= o.get' with
    | some (.int _ i) => (o, s!"has {boolStr i.valid}")
    | _ => (o, "bad-op")
  | ["anotb", aid, bid, nid, ord, seed] =>
    match (aid.toNat? >>= o.get') >>= operand, (bid.toNat? >>= o.get') >>= operand, nid.toNat?, seed.toNat? with
    | some a, some b, some nid, some seed =>
      match aNotB (seedHash (UInt64.ofNat seed)).toNat a b (ord == "1") with
      | some r => let ob := Obj.cmp r; (o.set' nid ob, observe ob)
      | none => (o, "throw")
    | _, _, _, _ => (o, "bad-op")
  | ["jeq", aid, bid, seed] =>
    match (aid.toNat? >>= o.get') >>= operand, (bid.toNat? >>= o.get') >>= operand, seed.toNat? with
    | some a, some b, some seed =>
      (o, exactlyEqual (t.rszNum, t.rszDen, t.rbdNum, t.rbdDen, t.minLgK) a b (UInt64.ofNat seed) (aid == bid))
    | _, _, _ => (o, "bad-op")
  | ["jac", aid, bid, seed] =>
    match (aid.toNat? >>= o.get') >>= operand, (bid.toNat? >>= o.get') >>= operand, seed.toNat? with
    | some a, some b, some seed =>
      (o, jaccard (t.rszNum, t.rszDen, t.rbdNum, t.rbdDen, t.minLgK) a b (UInt64.ofNat seed) (aid == bid))
    | _, _, _ => (o, "bad-op")
  | _ => (o, "bad-op")

end DS.Theta

namespace DS.Theta.L2D
open DS.Theta DS.Theta.L2

/-- driver state for the concrete-table model: per sketch (cfg, seed, table state, "rebuilt since reset") -/
abbrev Objs := Array (Option (Cfg × UInt64 × Option (TSt Unit) × Bool))

def obs (x : Cfg × UInt64 × Option (TSt Unit) × Bool) : String :=
  match x with
  | (_, _, none, _) => "logic-error"
  | (_, _, some t, rebuilt) =>
    let ks := keys (entries t.slots)
    let th := if t.isEmpty then MAX_THETA else t.theta
    -- before the first rebuild the slot order is determined (R); afterwards only the set is (S)
    let body := if rebuilt then "S " ++ joinSp ((sortNat ks).map toString) else "R " ++ joinSp (ks.map toString)
    s!"W {th} {boolStr t.isEmpty} {ks.length} {body}"

def stepLine (tn : Tunables) (bits : Nat) (o : Objs) (w : List String) : Objs × String :=
  let set (i : Nat) (v : Cfg × UInt64 × Option (TSt Unit) × Bool) : Objs :=
    let a := if i < o.size then o else o ++ Array.replicate (i + 1 - o.size) none
    a.set! i (some v)
  match w with
  | ["new", id, lgk, rf, p, seed] =>
    match id.toNat?, lgk.toNat?, rf.toNat?, parseHex p, seed.toNat? with
    | some id, some lgk, some rf, some p, some seed =>
      let c := mkCfg tn lgk rf (UInt32.ofNat p)
      let v := (c, UInt64.ofNat seed, some (initT c), false)
      (set id v, obs v)
    | _, _, _, _, _ => (o, "bad-op")
  | ["upd", id, ty, lit] =>
    match id.toNat?, parseInput ty lit with
    | some id, some inp =>
      match (o[id]?).join with
      | some (c, seed, some t, rb) =>
        let (t', rb') := match thetaHash inp seed with
          | some h =>
            let t' := offerT bits c t h unitF
            -- a rebuild shows as a theta change
            (t', rb || (match t' with | some t2 => t2.theta != t.theta | none => false))
          | none => (some t, rb)
        let v := (c, seed, t', rb')
        (set id v, obs v)
      | _ => (o, "bad-op")
    | _, _ => (o, "bad-op")
  | ["trim", id] =>
    match id.toNat? >>= fun i => (o[i]?).join with
    | some (c, seed, some t, rb) =>
      let t' := trimT bits c t
      let v := (c, seed, t', rb || (match t' with | some t2 => t2.theta != t.theta | none => false))
      (set id.toNat?.get! v, obs v)
    | _ => (o, "bad-op")
  | ["reset", id] =>
    match id.toNat? >>= fun i => (o[i]?).join with
    | some (c, seed, _, _) => let v := (c, seed, some (initT c), false); (set id.toNat?.get! v, obs v)
    | _ => (o, "bad-op")
  | _ => (o, "bad-op")

end DS.Theta.L2D

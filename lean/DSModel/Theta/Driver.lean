/- Line-protocol driver for the theta family (C01, C02). Core Lean only. -/
import DSModel.Canon
import DSModel.Theta.Update
namespace DS.Theta

inductive Obj where
  | upd (c : Cfg) (seed : UInt64) (s : St Unit)
  | cmp (c : Compact Unit)

abbrev Objs := Array (Option Obj)

def Objs.set' (o : Objs) (i : Nat) (v : Obj) : Objs :=
  let o := if i < o.size then o else o ++ Array.replicate (i + 1 - o.size) none
  o.set! i (some v)

def Objs.get' (o : Objs) (i : Nat) : Option Obj := (o[i]?).join

def thetaFrac (t : Nat) : Float := (UInt64.ofNat t).toFloat / (UInt64.ofNat MAX_THETA).toFloat

def obsLine (theta64 : Nat) (empty ordered : Bool) (seedHash : Nat) (ks : List Nat) : String :=
  let n := ks.length
  let est := n.toFloat / thetaFrac theta64
  let estMode := theta64 < MAX_THETA && !empty
  let ents := if n ≤ 4096 then joinSp (ks.map toString) else s!"fold {hex64 (fold64 ks)}"
  s!"T {theta64} {boolStr empty} {boolStr estMode} {boolStr ordered} {n} {hexF est} {seedHash} {ents}"

def observe : Obj → String
  | .upd _ seed s => obsLine (theta64 s) s.isEmpty (isOrdered s) (seedHash seed).toNat (keys s.ents)
  | .cmp c => obsLine c.theta c.isEmpty c.ordered c.seedHash (sortNat (keys c.ents))

def theta0OfP (pbits : UInt32) : Nat :=
  let p := (Float32.ofBits pbits).toFloat
  if p < 1 then ((UInt64.ofNat MAX_THETA).toFloat * p).toUInt64.toNat else MAX_THETA

structure Tunables where
  rszNum : Nat := 1
  rszDen : Nat := 2
  rbdNum : Nat := 15
  rbdDen : Nat := 16
  minLgK : Nat := 5

def mkCfg (t : Tunables) (lgK lgRf : Nat) (pbits : UInt32) : Cfg :=
  { lgNom := lgK, lgRf := lgRf, theta0 := theta0OfP pbits,
    lgStart := startingSubMultiple (lgK + 1) t.minLgK lgRf,
    rszNum := t.rszNum, rszDen := t.rszDen, rbdNum := t.rbdNum, rbdDen := t.rbdDen }

def unitF : Option Unit → Unit := fun _ => ()

def stepLine (t : Tunables) (o : Objs) (w : List String) : Objs × String :=
  match w with
  | ["new", id, lgk, rf, p, seed] =>
    match id.toNat?, lgk.toNat?, rf.toNat?, parseHex p, seed.toNat? with
    | some id, some lgk, some rf, some p, some seed =>
      let c := mkCfg t lgk rf (UInt32.ofNat p)
      let ob := Obj.upd c (UInt64.ofNat seed) (init c)
      (o.set' id ob, observe ob)
    | _, _, _, _, _ => (o, "bad-op")
  | ["upd", id, ty, lit] =>
    match id.toNat?, parseInput ty lit with
    | some id, some inp =>
      match o.get' id with
      | some (.upd c seed s) =>
        let s' := match thetaHash inp seed with
          | some h => offer c s h unitF
          | none => s
        let ob := Obj.upd c seed s'
        (o.set' id ob, observe ob)
      | _ => (o, "bad-op")
    | _, _ => (o, "bad-op")
  | ["trim", id] =>
    match id.toNat? >>= o.get' with
    | some (.upd c seed s) => let ob := Obj.upd c seed (trim c s); (o.set' id.toNat?.get! ob, observe ob)
    | _ => (o, "bad-op")
  | ["reset", id] =>
    match id.toNat? >>= o.get' with
    | some (.upd c seed s) => let ob := Obj.upd c seed (reset c s); (o.set' id.toNat?.get! ob, observe ob)
    | _ => (o, "bad-op")
  | ["copy", id, nid] =>
    match id.toNat? >>= o.get', nid.toNat? with
    | some ob, some nid => (o.set' nid ob, observe ob)
    | _, _ => (o, "bad-op")
  | ["compact", id, nid, ord] =>
    match id.toNat? >>= o.get', nid.toNat? with
    | some (.upd _ seed s), some nid =>
      let ob := Obj.cmp (compact s (ord == "1") (seedHash seed).toNat)
      (o.set' nid ob, observe ob)
    | some (.cmp c), some nid =>
      let ob := Obj.cmp { c with ordered := c.ordered || ord == "1" }
      (o.set' nid ob, observe ob)
    | _, _ => (o, "bad-op")
  | _ => (o, "bad-op")

end DS.Theta

/-
L2 (concrete) model of the open-addressing table of `theta_update_sketch_base`
(theta/include/theta_update_sketch_base_impl.hpp: find / insert / resize / rebuild), generic in the payload.

Slots are `Option (Nat × σ)` (`none` = key 0 = empty).  `find` probes from `key & mask` with the odd stride
`2·((key >> lg) & (2^bits − 1)) + 1` for at most `size` steps (the do-while of the code returns to its start after
exactly `size` steps when the stride is odd).  `rebuild` re-inserts the k smallest entries in ascending key order;
the real order is whatever `std::nth_element` leaves — unobservable after canonicalisation, and the refinement
theorem (`abs` = key-sorted entries) does not depend on it.
Core Lean only.
-/
import DSModel.Theta.Update
import DSModel.Theta.SetOps
namespace DS.Theta.L2
open DS.Theta

variable {σ : Type}

abbrev Slots (σ : Type) := List (Option (Nat × σ))

def strideOf (bits key lg : Nat) : Nat := 2 * ((key >>> lg) % 2^bits) + 1

/-- the probe loop; `fuel` = probes left.  `none` = "key not found and no empty slots" (std::logic_error) -/
def probe (slots : Slots σ) (size stride key : Nat) : Nat → Nat → Option (Nat × Bool)
  | 0, _ => none
  | fuel + 1, idx =>
    match slots[idx]? with
    | some none => some (idx, false)
    | some (some (k, _)) => if k = key then some (idx, true) else probe slots size stride key fuel ((idx + stride) % size)
    | none => none

/-- `find(entries, lg_size, key)` -/
def find (bits lg : Nat) (slots : Slots σ) (key : Nat) : Option (Nat × Bool) :=
  probe slots (2^lg) (strideOf bits key lg) key (2^lg) (key % 2^lg)

def emptySlots (lg : Nat) : Slots σ := List.replicate (2^lg) none

/-- insert a (new) entry where `find` says; `none` if the table is full -/
def place (bits lg : Nat) (slots : Slots σ) (e : Nat × σ) : Option (Slots σ) :=
  match find bits lg slots e.1 with
  | some (idx, _) => some (slots.set idx (some e))
  | none => none

/-- re-insert a list of entries into a table -/
def placeAll (bits lg : Nat) : Slots σ → List (Nat × σ) → Option (Slots σ)
  | s, [] => some s
  | s, e :: r => match place bits lg s e with
    | some s' => placeAll bits lg s' r
    | none => none

/-- the non-empty slots in index order (this is the iteration order of the real sketch) -/
def entries (slots : Slots σ) : List (Nat × σ) := slots.filterMap id

structure TSt (σ : Type) where
  theta : Nat
  lg : Nat
  slots : Slots σ
  isEmpty : Bool

/-- abstraction to the L1 state: key-sorted entries -/
def abs (t : TSt σ) : St σ := { theta := t.theta, ents := sortKV (entries t.slots), isEmpty := t.isEmpty, lgCur := t.lg }

def initT (c : Cfg) : TSt σ := { theta := c.theta0, lg := c.lgStart, slots := emptySlots c.lgStart, isEmpty := true }

/-- `resize()`: move every entry, in slot order, into a larger table -/
def resizeT (bits : Nat) (c : Cfg) (t : TSt σ) : Option (TSt σ) :=
  let lgNew := min (t.lg + c.lgRf) (c.lgNom + 1)
  match placeAll bits lgNew (emptySlots lgNew) (entries t.slots) with
  | some s => some { t with lg := lgNew, slots := s }
  | none => none

/-- `rebuild()`: theta := key of rank k; the k smallest entries re-inserted into an empty table of the same size -/
def rebuildT (bits : Nat) (c : Cfg) (t : TSt σ) : Option (TSt σ) :=
  let sorted := sortKV (entries t.slots)
  match (keys sorted)[2^c.lgNom]? with
  | some th =>
    match placeAll bits t.lg (emptySlots t.lg) (sorted.take (2^c.lgNom)) with
    | some s => some { t with theta := th, slots := s }
    | none => none
  | none => some t

def afterInsertT (bits : Nat) (c : Cfg) (t : TSt σ) : Option (TSt σ) :=
  if (entries t.slots).length > capacity c t.lg then
    if t.lg ≤ c.lgNom then resizeT bits c t else rebuildT bits c t
  else some t

/-- `hash_and_screen` + `find` + `insert` / policy update on the concrete table -/
def offerT (bits : Nat) (c : Cfg) (t : TSt σ) (h : Nat) (f : Option σ → σ) : Option (TSt σ) :=
  let t := { t with isEmpty := false }
  if h = 0 ∨ t.theta ≤ h then some t
  else match find bits t.lg t.slots h with
    | some (idx, true) =>
      match t.slots[idx]? with
      | some (some (k, v)) => some { t with slots := t.slots.set idx (some (k, f (some v))) }
      | _ => none
    | some (idx, false) => afterInsertT bits c { t with slots := t.slots.set idx (some (h, f none)) }
    | none => none

def trimT (bits : Nat) (c : Cfg) (t : TSt σ) : Option (TSt σ) :=
  if (entries t.slots).length > 2^c.lgNom then rebuildT bits c t else some t

end DS.Theta.L2

/-
Histories of a t-digest (C17): the terms the theorems quantify over.  Core Lean only.

A `Hist` is a finite tree: a fresh digest, an update with any value (NaN included), a compress point, or the
merge of two histories (so every merge tree over every family of streams is a `Hist`).  `compress` nodes also
stand for the side effect of `get_rank` / `get_quantile` / `get_CDF` / `get_PMF` / `serialize`, whose only
effect on the state is "nothing" or "compress()" (`getRank_state`, `getQuantile_state` in the lemma files).
-/
import DSModel.TDigest.Model
namespace DS.TDigest
open Num

inductive Hist (α : Type) where
  | new (k : Nat)
  | update (h : Hist α) (v : α)
  | compress (h : Hist α)
  | merge (h other : Hist α)

variable {α δ : Type} [Num α] [Num δ] [Conv α δ]

/-- the digest a history produces -/
def Hist.eval (sc : Scale δ) (tun : Tun) : Hist α → St α
  | .new k => init k
  | .update h v => TDigest.update sc tun (h.eval sc tun) v
  | .compress h => TDigest.compress sc tun (h.eval sc tun)
  | .merge h o => TDigest.merge sc tun (h.eval sc tun) (o.eval sc tun)

/-- the values a history accepted (everything but NaN), merged operands included -/
def Hist.accepted : Hist α → List α
  | .new _ => []
  | .update h v => if isNaN v then h.accepted else h.accepted ++ [v]
  | .compress h => h.accepted
  | .merge h o => h.accepted ++ o.accepted

end DS.TDigest

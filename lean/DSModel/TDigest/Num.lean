/-
Ops-only numeric classes for the t-digest model (C17).  Core Lean only.

`Num α` carries exactly the operations the C++ performs on a `float`/`double` quantity; it has NO laws.
The model is written once against it and
  * executed with `Float` (tdigest<double>) and with `Float32` values + `Float` intermediates
    (tdigest<float>: the code mixes `T` arithmetic with `double` arithmetic; `Conv` models the implicit
    promotions `T -> double` and the narrowing `double -> T` at `return`), bit for bit as the code does;
  * reasoned about with `Rat` (an ordered field; `Conv Rat Rat` is the identity, `isNaN = false`).
Comparisons are Bool-valued (C++ `<`, `<=`, `==` on floating point: false on NaN).
-/
namespace DS.TDigest

class Num (α : Type) where
  add : α → α → α
  sub : α → α → α
  mul : α → α → α
  div : α → α → α
  lt : α → α → Bool
  le : α → α → Bool
  eq : α → α → Bool
  ofNat : Nat → α
  isNaN : α → Bool
  /-- `std::isfinite` -/
  isFinite : α → Bool
  /-- natural logarithm; only used by the concrete k2 scale function (never by a theorem) -/
  log : α → α

/-- implicit promotion `T -> double` (`up`) and narrowing conversion `double -> T` (`down`) -/
class Conv (α δ : Type) where
  up : α → δ
  down : δ → α

scoped infixl:65 " +. " => Num.add
scoped infixl:65 " -. " => Num.sub
scoped infixl:70 " *. " => Num.mul
scoped infixl:70 " /. " => Num.div
scoped infix:50 " <. " => Num.lt
scoped infix:50 " <=. " => Num.le
scoped infix:50 " ==. " => Num.eq

instance : Num Float where
  add := (· + ·)
  sub := (· - ·)
  mul := (· * ·)
  div := (· / ·)
  lt a b := decide (a < b)
  le a b := decide (a ≤ b)
  eq a b := a == b
  ofNat := Float.ofNat
  isNaN := Float.isNaN
  isFinite := Float.isFinite
  log := Float.log

instance : Num Float32 where
  add := (· + ·)
  sub := (· - ·)
  mul := (· * ·)
  div := (· / ·)
  lt a b := decide (a < b)
  le a b := decide (a ≤ b)
  eq a b := a == b
  ofNat := Float32.ofNat
  isNaN := Float32.isNaN
  isFinite := Float32.isFinite
  log := Float32.log

/-- exact arithmetic.  `log` is a dummy (the theorems take the scale function as an abstract parameter). -/
instance : Num Rat where
  add := (· + ·)
  sub := (· - ·)
  mul := (· * ·)
  div := (· / ·)
  lt a b := decide (a < b)
  le a b := decide (a ≤ b)
  eq a b := decide (a = b)
  ofNat n := (n : Rat)
  isNaN _ := false
  isFinite _ := true
  log _ := 0

instance : Conv Float Float := ⟨id, id⟩
instance : Conv Float32 Float := ⟨Float32.toFloat, Float.toFloat32⟩
instance : Conv Rat Rat := ⟨id, id⟩

/-- `std::min(a, b)` = `(b < a) ? b : a` -/
def stdMin {α} [Num α] (a b : α) : α := if b <. a then b else a
/-- `std::max(a, b)` = `(a < b) ? b : a` -/
def stdMax {α} [Num α] (a b : α) : α := if a <. b then b else a

end DS.TDigest

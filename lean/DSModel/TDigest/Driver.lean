/-
Line-protocol step function for the t-digest model (`dsmodel_tdigest tdigest`).  Core Lean only.
Mirrors harness/tdigest_h.cpp: same op lines, same canonical observation lines.

  consts
  new <id> d|f <k>          upd <id> <hexT>            updn <id> <hexT>...
  compress <id>             merge <id> <other>         ser <id>          dump <id>
  rank <id> <hexT>          quant <id> <hex64>         cdf|pmf <id> <hexT>...
  rgrid <id> <n>            qgrid <id> <n>             (query grids derived from the digest's own centroids)

Every observation ends with ` | <state>` where the state is
  S 0 <rev> E | S 1 <rev> V <value> | S <total> <rev> <#centroids> <#buffered> <min> <max> <fold of centroids+buffer>.
-/
import DSModel.TDigest.Model
import DSModel.Util
namespace DS.TDigest
open Num Conv

class Fmt (α : Type) where
  hex : α → String
  parse : String → Option α
  bits : α → Nat

instance : Fmt Float where
  hex := hexF
  parse s := if s.length == 16 then (parseHex s).map (fun n => Float.ofBits (UInt64.ofNat n)) else none
  bits x := x.toBits.toNat

instance : Fmt Float32 where
  hex := hexF32
  parse s := if s.length == 8 then (parseHex s).map (fun n => Float32.ofBits (UInt32.ofNat n)) else none
  bits x := x.toBits.toNat

inductive Obj where
  | d (s : St Float)
  | f (s : St Float32)

abbrev Objs := List (Nat × Obj)

def Objs.get? (o : Objs) (i : Nat) : Option Obj := (o.find? (·.1 == i)).map (·.2)
def Objs.set (o : Objs) (i : Nat) (v : Obj) : Objs := (i, v) :: o.filter (·.1 != i)

structure Cfg where
  tun : Tun
  zMul : Nat
  zAdd : Nat
  defaultK : Nat

variable {α : Type} [Num α] [Conv α Float] [Fmt α]

def stateStr (s : St α) : String :=
  let tw := s.totalWeight
  if s.isEmpty then s!"S 0 {boolStr s.rev} E"
  else if tw == 1 then s!"S 1 {boolStr s.rev} V {Fmt.hex s.min}"
  else
    let l := s.cs.foldr (fun c acc => Fmt.bits c.mean :: c.weight :: acc) (s.buf.map Fmt.bits)
    s!"S {tw} {boolStr s.rev} {s.cs.length} {s.buf.length} {Fmt.hex s.min} {Fmt.hex s.max} {hex64 (fold64 l)}"

def dumpStr (s : St α) : String :=
  if s.totalWeight ≤ 1 then "D B" else   -- the image of an empty / single-value digest has no centroid section
  "D" ++ String.join (s.cs.map (fun c => s!" {Fmt.hex c.mean}:{c.weight}")) ++ " B" ++ String.join (s.buf.map (fun v => " " ++ Fmt.hex v))

def parseAll (ws : List String) : Option (List α) := ws.mapM Fmt.parse

/-- ranks of a list of points, threading the state; `none` as soon as one call throws -/
def rankPairs (sc : Scale Float) (tun : Tun) : St α → List α → Option (List String) × St α
  | s, [] => (some [], s)
  | s, p :: ps =>
    match getRank sc tun s p with
    | (none, s') => (none, s')
    | (some r, s') =>
      match rankPairs sc tun s' ps with
      | (none, s'') => (none, s'')
      | (some l, s'') => (some (Fmt.hex p :: hexF r :: l), s'')

def quantPairs (sc : Scale Float) (tun : Tun) : St α → List Float → Option (List String) × St α
  | s, [] => (some [], s)
  | s, r :: rs =>
    match getQuantile sc tun s r with
    | (none, s') => (none, s')
    | (some q, s') =>
      match quantPairs sc tun s' rs with
      | (none, s'') => (none, s'')
      | (some l, s'') => (some (hexF r :: Fmt.hex q :: l), s'')

def midpoints : List α → List α
  | a :: b :: t => ((a +. b) /. ofNat 2) :: midpoints (b :: t)
  | _ => []

/-- query points of `rgrid`: derived from the (compressed) digest itself -/
def rgridPoints (s : St α) (n : Nat) : List α :=
  let means := if s.totalWeight == 1 then [s.min] else s.cs.map (·.mean)
  [s.min -. ofNat 1, s.min] ++ means ++ midpoints means ++ [s.max, s.max +. ofNat 1]
    ++ (List.range (n + 1)).map (fun j => s.min +. (s.max -. s.min) *. ofNat j /. ofNat n)

def centerRanks (W : Float) : Float → List (Centroid α) → List Float
  | _, [] => []
  | S, c :: t =>
    let P := S + Float.ofNat c.weight / 2.0
    [(P - 0.5) / W, P / W, (P + 0.5) / W].filter (fun r => 0.0 ≤ r && r ≤ 1.0) ++ centerRanks W (S + Float.ofNat c.weight) t

def qgridRanks (s : St α) (n : Nat) : List Float :=
  (List.range (n + 1)).map (fun j => Float.ofNat j / Float.ofNat n)
    ++ (if s.totalWeight == 1 then [] else centerRanks (Float.ofNat s.totalWeight) 0.0 s.cs)

def optStr (tag : String) (o : Option String) : String :=
  match o with
  | some s => tag ++ " " ++ s
  | none => "throw"

/-- one op on one digest; returns (result text, new state).  `other` = the operand of `merge`. -/
def stepOne (c : Cfg) (s : St α) (op : String) (args : List String) (other : Option (St α)) : Option (String × St α) :=
  let sc : Scale Float := k2 c.zMul c.zAdd
  let tun := c.tun
  match op, args with
  | "upd", [v] => (Fmt.parse v : Option α).map (fun x => ("U", update sc tun s x))
  | "updn", vs => (parseAll vs : Option (List α)).map (fun xs => ("U", xs.foldl (update sc tun) s))
  | "compress", [] => some ("C", compress sc tun s)
  | "ser", [] => some ("Z", compress sc tun s)
  | "dump", [] => some (dumpStr s, s)
  | "merge", [_] => other.map (fun o => ("M", merge sc tun s o))
  | "rank", [v] => (Fmt.parse v : Option α).map (fun x =>
      let (r, s') := getRank sc tun s x
      (optStr "R" (r.map hexF), s'))
  | "quant", [v] => (Fmt.parse v : Option Float).map (fun r =>
      let (q, s') := getQuantile sc tun s r
      (optStr "Q" (q.map Fmt.hex), s'))
  | "cdf", vs => (parseAll vs : Option (List α)).map (fun xs =>
      let (r, s') := getCDF sc tun s xs
      (optStr "F" (r.map (fun l => joinSp (l.map hexF))), s'))
  | "pmf", vs => (parseAll vs : Option (List α)).map (fun xs =>
      let (r, s') := getPMF sc tun s xs
      (optStr "P" (r.map (fun l => joinSp (l.map hexF))), s'))
  | "rgrid", [n] => n.toNat?.map (fun n =>
      match getRank sc tun s s.min with
      | (none, s') => ("throw", s')
      | (some _, s') =>
        let (r, s'') := rankPairs sc tun s' (rgridPoints s' n)
        (optStr "G" (r.map joinSp), s''))
  | "qgrid", [n] => n.toNat?.map (fun n =>
      match getQuantile sc tun s 0.0 with
      | (none, s') => ("throw", s')
      | (some _, s') =>
        let (r, s'') := quantPairs sc tun s' (qgridRanks s' n)
        (optStr "H" (r.map joinSp), s''))
  | _, _ => none

def finish (res : String) (s : St α) : String := res ++ " | " ++ stateStr s

/-- `consts`: the translated constants as the compiled headers see them (DEFAULT_K, two scale-function values) -/
def constsStr (c : Cfg) : String :=
  let sc : Scale Float := k2 c.zMul c.zAdd
  s!"K {c.defaultK} {hexF (sc.normalizer 20.0 7.0)} {hexF (sc.normalizer 400.0 1000000.0)} {hexF (sc.max 0.3 0.5)}"

def stepLine (c : Cfg) (objs : Objs) (w : List String) : Objs × String :=
  match w with
  | ["consts"] => (objs, constsStr c)
  | ["new", id, ty, k] =>
    match id.toNat?, k.toNat? with
    | some id, some k =>
      if k < c.tun.minK || k > 65535 then (objs, "throw")
      else if ty == "d" then let s : St Float := init k; (objs.set id (.d s), finish "N" s)
      else if ty == "f" then let s : St Float32 := init k; (objs.set id (.f s), finish "N" s)
      else (objs, "bad-op")
    | _, _ => (objs, "bad-op")
  | op :: id :: args =>
    match id.toNat? with
    | none => (objs, "bad-op")
    | some id =>
      let otherObj : Option Obj := if op == "merge" then (args.head?.bind String.toNat?).bind objs.get? else none
      match objs.get? id with
      | some (.d s) =>
        let other := match otherObj with | some (.d o) => some o | _ => none
        match stepOne c s op args other with
        | some (r, s') => (objs.set id (.d s'), finish r s')
        | none => (objs, "bad-op")
      | some (.f s) =>
        let other := match otherObj with | some (.f o) => some o | _ => none
        match stepOne c s op args other with
        | some (r, s') => (objs.set id (.f s'), finish r s')
        | none => (objs, "bad-op")
      | none => (objs, "bad-op")
  | _ => (objs, "bad-op")

end DS.TDigest

/-
Executable model of `datasketches::tdigest<T>` (tdigest.hpp / tdigest_impl.hpp), property C17.  Core Lean only.

Written once over the ops-only classes of `Num.lean`:
  α = the value type `T` (Float for tdigest<double>, Float32 for tdigest<float>, Rat in the theorems),
  δ = `double` (Float, Float, Rat).  `Conv.up/down` are the C++ promotions / the narrowing at `return`.
Every arithmetic expression is transcribed in the code's evaluation order and operand types, so the
Float/Float32 instances reproduce the implementation bit for bit.

Representation choices (all checked by the correspondence run, none observable):
  * weights `W` (uint32/uint64) and `centroids_weight_` (uint64) are `Nat` (no wrap-around: < 2^32 values);
  * `min_/max_` start as +inf and -inf in the code; the model stores any value while the digest is empty and
    takes the new value when the digest was empty (`std::min(+inf, v) = v` for every non-NaN `v`);
  * `std::stable_sort` is a stable insertion sort (the stable sort of a list is unique for a strict weak order);
  * `std::lower_bound/upper_bound` on the sorted centroid vector are the partition points (`takeWhile`).
The scale function is the parameter `sc : Scale δ`; `k2` is the code's `scale_function` (uses `log`).
All tunables come from `Tun` (filled from DSGen/TDigest.lean, i.e. from the current headers).
-/
import DSModel.TDigest.Num
namespace DS.TDigest
open Num Conv

/-- constants read from the headers by the translator -/
structure Tun where
  bufMul : Nat        -- BUFFER_MULTIPLIER
  fudgeThr : Nat      -- `fudge = k < 30 ? 30 : 10`
  fudgeSmall : Nat
  fudgeLarge : Nat
  capMul : Nat        -- `centroids_capacity_ = 2 * k_ + fudge`
  comprMul : Nat      -- `normalizer(2 * k_, centroids_weight_)`
  minK : Nat          -- `k < 10` throws
  caddSafe : Bool     -- centroid::add falls back to the weight-ratio blend when the delta is not finite (true) or is the plain `mean_ += …` (false)
  quantW1W2 : Bool    -- get_quantile calls `weighted_average(mean[i], w1, mean[i+1], w2)` (true) or `(…, w2, …, w1)` (false)

structure Scale (δ : Type) where
  /-- `normalizer(compression, n)` -/
  normalizer : δ → δ → δ
  /-- `max(q, normalizer)` -/
  max : δ → δ → δ

/-- the code's `scale_function` (K_2): `z = zMul * log(n / compression) + zAdd`,
`normalizer = compression / z`, `max(q, normalizer) = q * (1 - q) / normalizer`. -/
def k2 {δ : Type} [Num δ] (zMul zAdd : Nat) : Scale δ where
  normalizer := fun c n => c /. (ofNat zMul *. log (n /. c) +. ofNat zAdd)
  max := fun q nrm => q *. (ofNat 1 -. q) /. nrm

structure Centroid (α : Type) where
  mean : α
  weight : Nat
deriving Repr

structure St (α : Type) where
  rev : Bool                 -- reverse_merge_
  k : Nat
  min : α
  max : α
  cs : List (Centroid α)     -- centroids_
  cw : Nat                   -- centroids_weight_
  buf : List α               -- buffer_ (oldest first)

variable {α δ : Type} [Num α] [Num δ] [Conv α δ]

def capacity (tun : Tun) (k : Nat) : Nat :=
  tun.capMul * k + (if k < tun.fudgeThr then tun.fudgeSmall else tun.fudgeLarge)

def init (k : Nat) : St α :=
  { rev := false, k := k, min := ofNat 0, max := ofNat 0, cs := [], cw := 0, buf := [] }

def St.isEmpty (s : St α) : Bool := s.cs.isEmpty && s.buf.isEmpty

def St.totalWeight (s : St α) : Nat := s.cw + s.buf.length

/-- `is_single_value()` -/
def St.isSingleValue (s : St α) : Bool := s.totalWeight == 1

def single (v : α) : Centroid α := { mean := v, weight := 1 }

def sumWeights (l : List (Centroid α)) : Nat := (l.map (·.weight)).sum

/-! ### sort, centroid add, greedy clustering -/

/-- insert keeping `x` BEFORE the first element that is not smaller (so `foldr insertC []` is stable) -/
def insertC (x : Centroid α) : List (Centroid α) → List (Centroid α)
  | [] => [x]
  | y :: ys => if y.mean <. x.mean then y :: insertC x ys else x :: y :: ys

/-- `std::stable_sort(buffer.begin(), buffer.end(), centroid_cmp())` -/
def stableSort (l : List (Centroid α)) : List (Centroid α) := l.foldr insertC []

/-- the new mean of `centroid::add` (all in `T`; `weight_` is already `a.weight + b.weight`):
`delta = (other.mean_ - mean_) * other.weight_ / weight_`;
  * `safe = false` (pinned shape): `mean_ += delta`;
  * `safe = true` (overflow-safe shape): `if (std::isfinite(delta)) mean_ += delta; else { ratio = T(other.weight_) / T(weight_);
    mean_ = mean_ * (1 - ratio) + other.mean_ * ratio; }` — identical to the pinned shape whenever `delta` is finite
    (always, in exact arithmetic). -/
def caddMean (safe : Bool) (a b : Centroid α) : α :=
  let delta := (b.mean -. a.mean) *. ofNat b.weight /. ofNat (a.weight + b.weight)
  if (safe && !isFinite delta) = true then
    let ratio : α := ofNat b.weight /. ofNat (a.weight + b.weight)
    a.mean *. (ofNat 1 -. ratio) +. b.mean *. ratio
  else a.mean +. delta

/-- `centroid::add`: `weight_ += other.weight_;` then the mean update `caddMean` -/
def cadd (safe : Bool) (a b : Centroid α) : Centroid α :=
  { mean := caddMean safe a b, weight := a.weight + b.weight }

/-- the scale-function test of `merge(buffer, weight)`:
`proposed_weight <= centroids_weight_ * std::min(max(q0, normalizer), max(q2, normalizer))` -/
def addThis (sc : Scale δ) (kc cwD wsf : δ) (cur x : Centroid α) : Bool :=
  let proposed : δ := ofNat (cur.weight + x.weight)
  let q0 := wsf /. cwD
  let q2 := (wsf +. proposed) /. cwD
  let nrm := sc.normalizer kc cwD
  proposed <=. cwD *. stdMin (sc.max q0 nrm) (sc.max q2 nrm)

/-- the `while (it != buffer.end())` loop.  `first` = `std::distance(buffer.begin(), it) == 1` (the explicit
protection of the first element); the second test `std::distance(buffer.end(), it) != 1` is always true
(the distance is negative) and is therefore absent.  `cur` = `centroids_.back()`, `wsf` = `weight_so_far`. -/
def cluster (safe : Bool) (sc : Scale δ) (kc cwD : δ) : Bool → Centroid α → δ → List (Centroid α) → List (Centroid α)
  | _, cur, _, [] => [cur]
  | first, cur, wsf, x :: xs =>
    if (!first && addThis sc kc cwD wsf cur x) = true then cluster safe sc kc cwD false (cadd safe cur x) wsf xs
    else cur :: cluster safe sc kc cwD false x (wsf +. ofNat cur.weight) xs

def headMean (cs : List (Centroid α)) (dflt : α) : α :=
  match cs.head? with
  | some c => c.mean
  | none => dflt

def lastMean (cs : List (Centroid α)) (dflt : α) : α :=
  match cs.getLast? with
  | some c => c.mean
  | none => dflt

/-- private `merge(vector_centroid& buffer, W weight)`; `tmp` is the incoming `buffer`. -/
def mergeCore (sc : Scale δ) (tun : Tun) (s : St α) (tmp : List (Centroid α)) (weight : Nat) : St α :=
  let sorted := stableSort (tmp ++ s.cs)
  let seq := if s.rev then sorted.reverse else sorted
  let cw := s.cw + weight
  match seq with
  | [] => s   -- never: both callers pass at least one element (the code would dereference `begin()` of an empty vector)
  | x :: xs =>
    let out := cluster tun.caddSafe sc (ofNat (tun.comprMul * s.k) : δ) (ofNat cw) true x (ofNat 0) xs
    let cs := if s.rev then out.reverse else out
    let fm := headMean cs s.min
    let lm := lastMean cs s.max
    { rev := !s.rev, k := s.k,
      min := if s.isEmpty then fm else stdMin s.min fm,
      max := if s.isEmpty then lm else stdMax s.max lm,
      cs := cs, cw := cw, buf := [] }

/-- `compress()` -/
def compress (sc : Scale δ) (tun : Tun) (s : St α) : St α :=
  match s.buf with
  | [] => s
  | _ :: _ => mergeCore sc tun s (s.buf.map single) s.buf.length

/-- `update(T value)` -/
def update (sc : Scale δ) (tun : Tun) (s : St α) (v : α) : St α :=
  if isNaN v then s else
  let s1 := if s.buf.length = capacity tun s.k * tun.bufMul then compress sc tun s else s
  { s1 with buf := s1.buf ++ [v],
            min := if s1.isEmpty then v else stdMin s1.min v,
            max := if s1.isEmpty then v else stdMax s1.max v }

/-- `merge(const tdigest& other)` -/
def merge (sc : Scale δ) (tun : Tun) (s other : St α) : St α :=
  if other.isEmpty then s else
  mergeCore sc tun s (s.buf.map single ++ other.buf.map single ++ other.cs)
    (s.buf.length + other.totalWeight)

/-! ### get_rank -/

def half : δ := ofNat 1 /. ofNat 2

/-- `acc + Σ weights` accumulated left to right in `double` -/
def sumW (l : List (Centroid α)) (acc : δ) : δ := l.foldl (fun a c => a +. ofNat c.weight) acc

/-- the centre part of `get_rank` (from `std::lower_bound` on) for a value inside `[first mean, last mean]`. -/
def rankMid (cs : List (Centroid α)) (cwD : δ) (x : α) : Option δ :=
  let lt := cs.takeWhile (fun c => c.mean <. x)          -- [begin, lower)
  let rest := cs.dropWhile (fun c => c.mean <. x)
  match rest with
  | [] => none                                            -- logic_error "lower == end"
  | r0 :: _ =>
    let eq := rest.takeWhile (fun c => !(x <. c.mean))    -- [lower, upper)
    let gt := rest.dropWhile (fun c => !(x <. c.mean))
    if x <. r0.mean then
      -- `--lower`; `upper` stays (its predecessor is `lower`, whose mean is < value)
      match lt.getLast? with
      | none => none                                      -- logic_error "upper == begin"
      | some lo =>
        let wb : δ := sumW lt.dropLast (ofNat 0) +. ofNat lo.weight /. ofNat 2
        let wd : δ := (ofNat 0 +. ofNat lo.weight) -. ofNat lo.weight /. ofNat 2 +. ofNat r0.weight /. ofNat 2
        if (ofNat 0 : α) <. (r0.mean -. lo.mean) then
          some ((wb +. wd *. up (x -. lo.mean) /. up (r0.mean -. lo.mean)) /. cwD)
        else some ((wb +. wd /. ofNat 2) /. cwD)
    else
      -- lower = r0 (= eq.head); upper is decremented when it is `end` or its predecessor is not < value
      match eq.getLast? with
      | none => none                                      -- cannot happen (r0 ∈ eq)
      | some e =>
        let stepBack : Bool := gt.isEmpty || !(e.mean <. x)
        let hi := if stepBack then some e else gt.head?
        let range := if stepBack then eq.dropLast else eq
        match hi with
        | none => none
        | some hi =>
          let wb : δ := sumW lt (ofNat 0) +. ofNat r0.weight /. ofNat 2
          let wd : δ := sumW range (ofNat 0) -. ofNat r0.weight /. ofNat 2 +. ofNat hi.weight /. ofNat 2
          if (ofNat 0 : α) <. (hi.mean -. r0.mean) then
            some ((wb +. wd *. up (x -. r0.mean) /. up (hi.mean -. r0.mean)) /. cwD)
          else some ((wb +. wd /. ofNat 2) /. cwD)

/-- `get_rank` after its `compress()` (both tails as coded, then `rankMid`). -/
def rankC (s : St α) (x : α) : Option δ :=
  match s.cs.head?, s.cs.getLast? with
  | some f, some l =>
    let cwD : δ := ofNat s.cw
    let one : δ := ofNat 1
    if x <. f.mean then
      if (ofNat 0 : α) <. (f.mean -. s.min) then
        if x ==. s.min then some (half /. cwD)
        else some (one +. up ((x -. s.min) /. (f.mean -. s.min)) *. (ofNat f.weight /. ofNat 2 -. one))
      else some (ofNat 0)
    else if l.mean <. x then
      if (ofNat 0 : α) <. (s.max -. l.mean) then
        if x ==. s.max then some (one -. half /. cwD)
        else some (one -. (one +. up ((s.max -. x) /. (s.max -. l.mean)) *. (ofNat l.weight /. ofNat 2 -. one)) /. cwD)
      else some one
    else rankMid s.cs cwD x
  | _, _ => none

/-- `get_rank(T value)`: result (`none` = exception) and the state after the call (compress side effect). -/
def getRank (sc : Scale δ) (tun : Tun) (s : St α) (x : α) : Option δ × St α :=
  if s.isEmpty then (none, s)
  else if isNaN x then (none, s)
  else if x <. s.min then (some (ofNat 0), s)
  else if s.max <. x then (some (ofNat 1), s)
  else if s.cs.length + s.buf.length = 1 then (some half, s)
  else
    let s' := compress sc tun s
    (rankC s' x, s')

/-! ### get_quantile -/

/-- `weighted_average(x1, w1, x2, w2)` -/
def wavg (x1 w1 x2 w2 : δ) : δ := (x1 *. w1 +. x2 *. w2) /. (w1 +. w2)

/-- the `for` loop of `get_quantile` ("interpolate between extremes") and the code after it.
`wsf` = `weight_so_far`; the list is `centroids_[i..]`. -/
def quantLoop (tun : Tun) (cwD : δ) (mx : α) (weight : δ) : δ → List (Centroid α) → Option α
  | wsf, a :: b :: rest =>
    let dw : δ := ofNat (a.weight + b.weight) /. ofNat 2
    if weight <. (wsf +. dw) then
      if a.weight = 1 ∧ ((weight -. wsf) <. half) = true then some a.mean
      else if b.weight = 1 ∧ ((wsf +. dw -. weight) <=. half) = true then some b.mean
      else
        let left : δ := if a.weight = 1 then half else ofNat 0
        let right : δ := if b.weight = 1 then half else ofNat 0
        let w1 := weight -. wsf -. left
        let w2 := wsf +. dw -. weight -. right
        if tun.quantW1W2 then some (down (wavg (up a.mean) w1 (up b.mean) w2))
        else some (down (wavg (up a.mean) w2 (up b.mean) w1))
    else quantLoop tun cwD mx weight (wsf +. dw) (b :: rest)
  | _, [l] =>
    -- fell out of the loop (as coded: the first argument is the WEIGHT of the last centroid)
    let w1 := weight -. cwD -. ofNat l.weight /. ofNat 2
    let w2 := ofNat l.weight /. ofNat 2 -. w1
    some (down (wavg (ofNat l.weight) w1 (up mx) w2))
  | _, [] => none

/-- `get_quantile` after its `compress()`. -/
def quantC (tun : Tun) (s : St α) (rank : δ) : Option α :=
  match s.cs with
  | [] => none
  | [c] => some c.mean
  | f :: c2 :: rest =>
    let cwD : δ := ofNat s.cw
    let one : δ := ofNat 1
    let weight := rank *. cwD
    if weight <. one then some s.min
    else if (cwD -. one) <. weight then some s.max
    else
      let fw : δ := ofNat f.weight
      if (one <. fw && weight <. fw /. ofNat 2) = true then
        some (down (up s.min +. (weight -. one) /. (fw /. ofNat 2 -. one) *. up (f.mean -. s.min)))
      else
        match (c2 :: rest).getLast? with
        | none => none
        | some l =>
          let lw : δ := ofNat l.weight
          if (one <. lw && (cwD -. weight) <=. lw /. ofNat 2) = true then
            some (down (up s.max +. (cwD -. weight -. one) /. (lw /. ofNat 2 -. one) *. up (s.max -. l.mean)))
          else quantLoop tun cwD s.max weight (fw /. ofNat 2) (f :: c2 :: rest)

/-- `get_quantile(double rank)` -/
def getQuantile (sc : Scale δ) (tun : Tun) (s : St α) (rank : δ) : Option α × St α :=
  if s.isEmpty then (none, s)
  else if (rank <. (ofNat 0 : δ) || (ofNat 1 : δ) <. rank) = true then (none, s)
  else
    let s' := compress sc tun s
    (quantC tun s' rank, s')

/-! ### get_CDF / get_PMF -/

/-- `check_split_points`: no NaN, strictly increasing -/
def checkSplit : List α → Bool
  | [] => true
  | [a] => !isNaN a
  | a :: b :: t => !isNaN a && (a <. b) && checkSplit (b :: t)

/-- ranks of the split points, threading the state through the `get_rank` calls -/
def ranksOf (sc : Scale δ) (tun : Tun) : St α → List α → Option (List δ) × St α
  | s, [] => (some [], s)
  | s, x :: xs =>
    match getRank sc tun s x with
    | (none, s') => (none, s')
    | (some r, s') =>
      match ranksOf sc tun s' xs with
      | (none, s'') => (none, s'')
      | (some rs, s'') => (some (r :: rs), s'')

/-- `get_CDF(split_points, size)` -/
def getCDF (sc : Scale δ) (tun : Tun) (s : St α) (pts : List α) : Option (List δ) × St α :=
  if checkSplit pts then
    match ranksOf sc tun s pts with
    | (some rs, s') => (some (rs ++ [ofNat 1]), s')
    | (none, s') => (none, s')
  else (none, s)

/-- `buckets[i] -= buckets[i-1]` for i = size … 1 -/
def diffs (prev : δ) : List δ → List δ
  | [] => []
  | c :: cs => (c -. prev) :: diffs c cs

def pmfOfCdf : List δ → List δ
  | [] => []
  | c :: cs => c :: diffs c cs

/-- `get_PMF(split_points, size)` -/
def getPMF (sc : Scale δ) (tun : Tun) (s : St α) (pts : List α) : Option (List δ) × St α :=
  match getCDF sc tun s pts with
  | (some c, s') => (some (pmfOfCdf c), s')
  | (none, s') => (none, s')

end DS.TDigest

/-
Canonicalisation of update inputs (the twelve `update` overloads of theta / tuple / hll / cpc
all reduce to "hash these bytes"):  integers narrower than 64 bits are reinterpreted as signed of
the same width and sign-extended to int64; doubles map -0.0 to +0.0 and every NaN to
0x7ff8000000000000; float is widened to double first; strings hash their bytes and the empty
string is ignored.
Core Lean only.
-/
import DSModel.Murmur3
import DSModel.Util
namespace DS

inductive Input where
  | u64 (v : Nat) | i64 (v : Int)
  | u32 (v : Nat) | i32 (v : Int)
  | u16 (v : Nat) | i16 (v : Int)
  | u8 (v : Nat)  | i8 (v : Int)
  | f64 (bits : UInt64) | f32 (bits : UInt32)
  | str (b : ByteArray) | raw (b : ByteArray)

/-- two's complement of an `Int` in 64 bits -/
def int64Bits (v : Int) : UInt64 := UInt64.ofNat (v % (2^64 : Int)).toNat

/-- value of the low `w` bits of `v` read as signed -/
def signedOfWidth (w : Nat) (v : Int) : Int :=
  let m := v % (2^w : Int)
  if m ≥ (2^(w-1) : Int) then m - (2^w : Int) else m

def canonicalDouble (d : Float) : UInt64 :=
  if d == 0.0 then 0
  else if d.isNaN then 0x7ff8000000000000
  else d.toBits

/-- `none` = the update is ignored (empty string) -/
def canonBytes : Input → Option ByteArray
  | .u64 v => some (le64 (UInt64.ofNat v))
  | .i64 v => some (le64 (int64Bits v))
  | .u32 v => some (le64 (int64Bits (signedOfWidth 32 v)))
  | .i32 v => some (le64 (int64Bits (signedOfWidth 32 v)))
  | .u16 v => some (le64 (int64Bits (signedOfWidth 16 v)))
  | .i16 v => some (le64 (int64Bits (signedOfWidth 16 v)))
  | .u8 v  => some (le64 (int64Bits (signedOfWidth 8 v)))
  | .i8 v  => some (le64 (int64Bits (signedOfWidth 8 v)))
  | .f64 b => some (le64 (canonicalDouble (Float.ofBits b)))
  | .f32 b => some (le64 (canonicalDouble (Float32.ofBits b).toFloat))
  | .str b => if b.size == 0 then none else some b
  | .raw b => some b

def parseInput (ty lit : String) : Option Input :=
  match ty with
  | "u64" => .u64 <$> lit.toNat?
  | "i64" => .i64 <$> lit.toInt?
  | "u32" => .u32 <$> lit.toNat?
  | "i32" => .i32 <$> lit.toInt?
  | "u16" => .u16 <$> lit.toNat?
  | "i16" => .i16 <$> lit.toInt?
  | "u8"  => .u8 <$> lit.toNat?
  | "i8"  => .i8 <$> lit.toInt?
  | "f64" => (fun n => .f64 (UInt64.ofNat n)) <$> parseHex lit
  | "f32" => (fun n => .f32 (UInt32.ofNat n)) <$> parseHex lit
  | "str" => .str <$> parseHexBytes lit
  | "raw" => .raw <$> parseHexBytes lit
  | _ => none

/-- the two 64-bit Murmur words of an input under `seed` -/
def hashInput (i : Input) (seed : UInt64) : Option (UInt64 × UInt64) :=
  (fun b => murmur3 b seed) <$> canonBytes i

/-- theta/tuple `compute_hash`: h1 >> 1 -/
def thetaHash (i : Input) (seed : UInt64) : Option Nat :=
  (fun (h : UInt64 × UInt64) => (h.1 >>> (1 : UInt64)).toNat) <$> hashInput i seed

end DS

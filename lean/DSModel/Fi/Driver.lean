/- Line-protocol driver for the frequent-items family (C12). Core Lean only.

   Every object carries the L1 state (the model the theorems are about; items are the op-line tokens) and, for
   integer items hashed with the harness' identity functor, the L2 table.  The OBSERVATIONS ARE PRINTED FROM L1;
   L2 only resolves L1's free choices (purge amount of every purge = median of the code's sample, replay order of
   a merge = iterator order of the other table) the way the code does.  If L1 and L2 ever disagree on an
   observable the line carries a `L1!=L2` marker (and so differs from the implementation's line).

   Purge amounts are a free choice of the implementation: an optional trailing hint on `upd` (the offset delta
   observed on the real code) is accepted when `0 < hint ≤ median(sample)` – that is the hypothesis of
   `fi_epsilon`; anything else is replaced by the model's own median, which then shows as a mismatch. -/
import DSModel.Murmur3
import DSModel.Fi.Table
namespace DS.Fi

inductive WTy where
  | u64 | i64 | f64
deriving DecidableEq

inductive ITy where
  | int | str
deriving DecidableEq

structure Obj where
  wty : WTy
  ity : ITy
  l1 : St String
  l2 : Option St2

abbrev Objs := Array (Option Obj)

def Objs.set' (o : Objs) (i : Nat) (v : Obj) : Objs :=
  let o := if i < o.size then o else o ++ Array.replicate (i + 1 - o.size) none
  o.set! i (some v)

def Objs.get' (o : Objs) (i : Nat) : Option Obj := (o[i]?).join

def idHash (k : Nat) : Nat := (fmix64 (UInt64.ofNat k)).toNat

/-- weights of the f64 sketch are multiples of 0.5; the model counts in units of 0.25 -/
def f64Units : Float := 4.0

inductive PW where
  | bad            -- malformed token
  | throws         -- the code rejects the weight (negative, NaN, infinite)
  | ok (n : Nat)

def parseW (ty : WTy) (s : String) : PW :=
  match ty with
  | .u64 => match s.toNat? with
    | some n => if n < 2 ^ 64 then .ok n else .bad
    | none => .bad
  | .i64 => match s.toInt? with
    | some (Int.ofNat n) => if n < 2 ^ 63 then .ok n else .bad
    | some _ => .throws
    | none => .bad
  | .f64 =>
    if s.length != 16 then .bad else
    match parseHex s with
    | none => .bad
    | some b =>
      let x := Float.ofBits (UInt64.ofNat b)
      if x.isNaN || x.isInf || x < 0 then .throws
      else
        let n := (x * f64Units).toUInt64.toNat
        if Float.ofNat n == x * f64Units && n < 2 ^ 50 then .ok n else .bad

def fmtW (ty : WTy) (n : Nat) : String :=
  match ty with
  | .f64 => hexF (Float.ofNat n / f64Units)
  | _ => toString n

def epsHex (T : Tun) (lgMax : Nat) : String :=
  hexF ((Float.ofNat T.epsNum / Float.ofNat T.epsDen) / Float.ofNat (2 ^ lgMax))

def obsS (T : Tun) (ob : Obj) (mark : String := "") : String :=
  let s := ob.l1
  let bad := match ob.l2 with
    | some s2 => s2.offset != s.offset || s2.total != s.total || s2.tab.numActive != s.map.length || s2.tab.lgCur != s.lgCur
    | none => false
  let m := (if bad then " L1!=L2" else "") ++ mark
  s!"S {fmtW ob.wty s.total} {fmtW ob.wty s.offset} {s.map.length} {boolStr (isEmptyF T s)} {epsHex T s.lgMax}{m}"

def chooseWith (hint : Option Nat) (sample : List Nat) : Nat :=
  let med := medianOf sample
  match hint with
  | some h => if 0 < h && h ≤ med then h else med
  | none => med

/-- L1-only replay with the model's own median rule (whole-table sample); second component: some update purged -/
def replayMed (T : Tun) : St String → List (String × Nat) → List (Ent String) → Bool → St String × List (Ent String) × Bool
  | s, [], log, p => (s, log.reverse, p)
  | s, (x, w) :: t, log, p =>
    let pg := purges T s x w
    let a := if pg then purgeAmountAll (adjust s.map x w) else 0
    replayMed T (update T s x w a) t ((x, w, a) :: log) (p || pg)

def rowLe (ity : ITy) (a b : Row String) : Bool :=
  if a.est != b.est then a.est > b.est
  else match ity with
    | .int => a.item.toNat?.getD 0 ≤ b.item.toNat?.getD 0
    | .str => a.item ≤ b.item

def parseHint (ty : WTy) (rest : List String) : Option Nat :=
  match rest with
  | [h] => match parseW ty h with
    | .ok n => some n
    | _ => none
  | _ => none

def doUpd (T : Tun) (ob : Obj) (item : String) (w : Nat) (hint : Option Nat) : Option (Obj × Bool) :=
  match ob.l2, ob.ity with
  | some s2, .int =>
    match item.toNat? with
    | none => none
    | some k =>
      if throws2 T idHash s2 k w then
        -- DRIFT_LIMIT exception: outside the L1 model (known finding); both layers only see the total weight grow
        some ({ ob with l1 := { ob.l1 with total := ob.l1.total + w }, l2 := some (afterThrow2 s2 w) }, true)
      else
      let (s2', a) := update2 T idHash (chooseWith hint) s2 k w
      some ({ ob with l1 := update T ob.l1 item w a, l2 := some s2' }, false)
  | _, _ =>
    let a :=
      if purges T ob.l1 item w then
        let m' := adjust ob.l1.map item w
        if m'.length ≤ T.maxSample then chooseWith hint (vals m') else hint.getD 0
      else 0
    some ({ ob with l1 := update T ob.l1 item w a, l2 := none }, false)

/-- purge amount = element of rank `min r (n/2)` of the sample (r ≥ n/2: the code's median) -/
def chooseRank (r : Nat) (sample : List Nat) : Nat :=
  (sortNat sample).getD (min r (sample.length / 2)) 0

/-- Angelic resolution of the purge amounts INSIDE a merge (they are not observable one by one): the implementation
    may use any fixed order statistic at or below the median (hypothesis of `fi_epsilon`). Try the median first, then
    lower ranks, until the replay explains the observed offset delta. -/
def explains (m : St2) (target : Nat) (nact sumLb : Option Nat) : Bool :=
  m.offset = target && (nact.isNone || nact == some m.tab.numActive) &&
  (sumLb.isNone || sumLb == some (sumVals m.tab.entries))

def mergeByRank (T : Tun) (d2 s2 : St2) (target : Nat) (nact sumLb : Option Nat) : Nat → Option (St2 × List (Ent Nat))
  | 0 => none
  | r + 1 =>
    let (m, log, _) := merge2F T idHash (chooseRank r) d2 s2
    if explains m target nact sumLb then some (m, log)
    else mergeByRank T d2 s2 target nact sumLb r

def doMerge (T : Tun) (d s : Obj) (hint : Option Nat) (nact sumLb : Option Nat) : Obj × String :=
  match d.l2, s.l2 with
  | some d2, some s2 =>
    let (r2, log, threw) := merge2F T idHash medianOf d2 s2
    if threw then
      -- DRIFT_LIMIT exception in the middle of the replay: the L1 state follows the L2 replay up to that point
      let ents : List (Ent String) := log.map (fun e => (toString e.1, e.2.1, e.2.2))
      ({ d with l1 := { (replay T d.l1 ents) with total := r2.total }, l2 := some r2 }, "throw")
    else
    let (r2, log) :=
      match hint with
      | some dl =>
        if (if T.emptyByTotal then s2.total = 0 else s2.tab.numActive = 0) || explains r2 (d2.offset + dl) nact sumLb then (r2, log) else
        match mergeByRank T d2 s2 (d2.offset + dl) nact sumLb (min 64 ((capacity T d2.tab.lgMax + 1) / 2)) with
        | some r => r
        | none => (r2, log)
      | none => (r2, log)
    let ents : List (Ent String) := log.map (fun e => (toString e.1, e.2.1, e.2.2))
    ({ d with l1 := mergeF T d.l1 s.l1 ents, l2 := some r2 }, "")
  | _, _ =>
    if isEmptyF T s.l1 then (d, "") else
    let (_, ents, purged) := replayMed T d.l1 s.l1.map [] false
    ({ d with l1 := mergeF T d.l1 s.l1 ents, l2 := none }, if purged then " L1-merge-with-purge" else "")

def thrOf (ob : Obj) (spec : String) : Option Nat :=
  let off := ob.l1.offset
  match spec with
  | "t0" => some 0
  | "thalf" => some (off / 2)
  | "toff" => some off
  | "t2off" => some (2 * off)
  | "tdef" => some off
  | lit => match parseW ob.wty lit with
    | .ok n => some n
    | _ => none

def stepLine (T : Tun) (o : Objs) (w : List String) : Objs × String :=
  -- the rvalue overloads behave like the lvalue ones
  let w := match w with
    | "updmv" :: t => "upd" :: t
    | "mergemv" :: t => "merge" :: t
    | _ => w
  match w with
  | ["new", id, wty, ity, lgmax, lgstart] =>
    let wt := match wty with | "u64" => some WTy.u64 | "i64" => some WTy.i64 | "f64" => some WTy.f64 | _ => none
    let it := match ity with | "int" => some ITy.int | "str" => some ITy.str | _ => none
    match id.toNat?, wt, it, lgmax.toNat?, lgstart.toNat? with
    | some id, some wt, some it, some lgmax, some lgstart =>
      if lgstart > lgmax then (o, "throw") else
      let ob : Obj := { wty := wt, ity := it, l1 := init T lgmax lgstart,
                        l2 := if it == ITy.int then some (init2 T lgmax lgstart) else none }
      (o.set' id ob, obsS T ob)
    | _, _, _, _, _ => (o, "bad-op")
  | "upd" :: id :: item :: wt :: rest =>
    match id.toNat? with
    | none => (o, "bad-op")
    | some id =>
      match o.get' id with
      | none => (o, "throw")
      | some ob =>
        match parseW ob.wty wt with
        | .bad => (o, "bad-op")
        | .throws => (o, "throw")
        | .ok n =>
          match doUpd T ob item n (parseHint ob.wty rest) with
          | some (ob', threw) => (o.set' id ob', if threw then "throw" else obsS T ob')
          | none => (o, "bad-op")
  | "merge" :: d :: s :: rest =>
    match d.toNat?, s.toNat? with
    | some d, some s =>
      match o.get' d, o.get' s with
      | some dob, some sob =>
        if dob.wty != sob.wty || dob.ity != sob.ity then (o, "bad-op") else
        let (ob', mark) := doMerge T dob sob (parseHint dob.wty (rest.take 1)) ((rest.drop 1).head? >>= String.toNat?)
          (parseHint dob.wty (rest.drop 2))
        (o.set' d ob', if mark == "throw" then "throw" else obsS T ob' mark)
      | _, _ => (o, "throw")
    | _, _ => (o, "bad-op")
  | ["copy", id, nid] =>
    match id.toNat?, nid.toNat? with
    | some id, some nid =>
      match o.get' id with
      | some ob => (o.set' nid ob, obsS T ob)
      | none => (o, "throw")
    | _, _ => (o, "bad-op")
  | ["ser", id, nid, _mode] =>
    match id.toNat?, nid.toNat? with
    | some id, some nid =>
      match o.get' id with
      | some ob =>
        match ob.l2 with
        | some s2 =>
          match roundtrip2F T idHash s2 with
          | some r2 => let ob' := { ob with l1 := roundtripF T ob.l1, l2 := some r2 }; (o.set' nid ob', obsS T ob')
          | none => (o, "throw")
        | none => let ob' := { ob with l1 := roundtripF T ob.l1 }; (o.set' nid ob', obsS T ob')
      | none => (o, "throw")
    | _, _ => (o, "bad-op")
  | "q" :: id :: items =>
    match id.toNat? >>= o.get' with
    | none => (o, "throw")
    | some ob =>
      let s := ob.l1
      let cells := items.map (fun x => s!"{fmtW ob.wty (estimate s x)}:{fmtW ob.wty (lowerBound s x)}:{fmtW ob.wty (upperBound s x)}")
      let bad := match ob.l2 with
        | some s2 => items.any (fun x => match x.toNat? with
            | some k => s2.tab.get idHash k != lowerBound s x
            | none => true)
        | none => false
      (o, s!"Q {fmtW ob.wty s.total} {fmtW ob.wty s.offset} {s.map.length} | {joinSp cells}" ++ (if bad then " L1!=L2" else ""))
  | ["fi", id, et, spec] =>
    match id.toNat? >>= o.get' with
    | none => (o, "throw")
    | some ob =>
      let e := match et with | "nfn" => some ErrType.noFalseNegatives | "nfp" => some ErrType.noFalsePositives | _ => none
      match e, thrOf ob spec with
      | some e, some thr =>
        let rows := frequentItems ob.l1 e thr
        let seq := rows.map (fun r => fmtW ob.wty r.est)
        let canon := (rows.mergeSort (rowLe ob.ity)).map (fun r => s!"{r.item}:{fmtW ob.wty r.est}:{fmtW ob.wty r.lb}:{fmtW ob.wty r.ub}")
        (o, s!"F {fmtW ob.wty thr} {rows.length} | {joinSp seq} | {joinSp canon}")
      | _, _ => (o, "bad-op")
  | ["apriori", lg, wt] =>
    match lg.toNat?, wt.toNat? with
    | some lg, some n =>
      (o, s!"A {hexF (((Float.ofNat T.epsNum / Float.ofNat T.epsDen) / Float.ofNat (2 ^ lg)) * Float.ofNat n)}")
    | _, _ => (o, "bad-op")
  | _ => (o, "bad-op")

end DS.Fi

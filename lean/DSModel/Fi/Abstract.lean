/- L1 abstract executable model of `frequent_items_sketch` (fi/include/frequent_items_sketch_impl.hpp on top of
   reverse_purge_hash_map_impl.hpp).  Core Lean only.

   State: a finite map item -> counter (association list, keys distinct, values positive), `offset`
   (= get_maximum_error), `total` (= get_total_weight), `lgCur`, `lgMax`.

   Free choices of the implementation are PARAMETERS of the model:
   * the purge amount `a` of every update (the code uses the median of the first min(MAX_SAMPLE_SIZE, numActive)
     active counters in table order, `purge()`); the bracketing theorems hold for every `a`;
   * the order in which `merge` replays the other sketch's counters (the code walks the other table with a
     golden-ratio stride) and the purge amounts used during that replay: `merge` takes the replay list.
   The L2 model (DSModel/Fi/Table.lean) resolves these choices the way the code does.

   Every tunable (LOAD_FACTOR, MAX_SAMPLE_SIZE, EPSILON_FACTOR, LG_MIN_MAP_SIZE) comes from the headers via DSGen. -/
import DSModel.Util
namespace DS.Fi

/-- tunables taken from the headers (DSGen/Fi.lean) -/
structure Tun where
  lfNum : Nat := 3          -- LOAD_FACTOR = lfNum / lfDen
  lfDen : Nat := 4
  maxSample : Nat := 1024   -- MAX_SAMPLE_SIZE
  epsNum : Nat := 7         -- EPSILON_FACTOR = epsNum / epsDen
  epsDen : Nat := 2
  lgMin : Nat := 3          -- LG_MIN_MAP_SIZE
  goldNum : Nat := 6180339887498949     -- GOLDEN_RATIO_RECIPROCAL (iterator stride, L2 only)
  goldDen : Nat := 10000000000000000
  driftLimit : Nat := 1024  -- DRIFT_LIMIT (L2 only: insertion throws when the probe distance reaches it)
  emptyByTotal : Bool := false  -- is_empty(): false = `num_active == 0` (pinned code), true = `total_weight == 0` (repaired code)

abbrev Map (ι : Type) := List (ι × Nat)

variable {ι : Type} [DecidableEq ι]

/-- counter of `x` (0 when not tracked) = `reverse_purge_hash_map::get` -/
def cnt : Map ι → ι → Nat
  | [], _ => 0
  | (k, v) :: t, x => (if k = x then v else 0) + cnt t x

def hasKey : Map ι → ι → Bool
  | [], _ => false
  | (k, _) :: t, x => decide (k = x) || hasKey t x

def keys (m : Map ι) : List ι := m.map (·.1)
def vals (m : Map ι) : List Nat := m.map (·.2)

/-- add `w` to the counter of the (existing) key `x` -/
def bump : Map ι → ι → Nat → Map ι
  | [], _, _ => []
  | (k, v) :: t, x, w => (if k = x then (k, v + w) else (k, v)) :: bump t x w

/-- `internal_adjust_or_insert` -/
def adjust (m : Map ι) (x : ι) (w : Nat) : Map ι :=
  if hasKey m x then bump m x w else m ++ [(x, w)]

/-- `subtract_and_keep_positive_only(a)`: counters `≤ a` are deleted, the others lose `a` -/
def purgeMap : Map ι → Nat → Map ι
  | [], _ => []
  | (k, v) :: t, a => if a < v then (k, v - a) :: purgeMap t a else purgeMap t a

/-- `get_capacity()` = `static_cast<uint32_t>((1 << lg) * LOAD_FACTOR)` -/
def capacity (T : Tun) (lg : Nat) : Nat := (2 ^ lg * T.lfNum) / T.lfDen

structure St (ι : Type) where
  map : Map ι
  offset : Nat
  total : Nat
  lgCur : Nat
  lgMax : Nat

/-- constructor (`lgStart ≤ lgMax` is checked by the caller: the C++ constructor throws otherwise) -/
def init (T : Tun) (lgMax lgStart : Nat) : St ι :=
  { map := [], offset := 0, total := 0, lgCur := max lgStart T.lgMin, lgMax := max lgMax T.lgMin }

/-- does `update x w` reach `purge()` in state `s`? -/
def purges (T : Tun) (s : St ι) (x : ι) (w : Nat) : Bool :=
  w != 0 && !hasKey s.map x && decide ((adjust s.map x w).length > capacity T s.lgCur) && !decide (s.lgCur < s.lgMax)

/-- `update(item, weight)` with purge amount `a` (used only when a purge happens) -/
def update (T : Tun) (s : St ι) (x : ι) (w a : Nat) : St ι :=
  if w = 0 then s else
  let m' := adjust s.map x w
  if hasKey s.map x then { s with map := m', total := s.total + w }
  else if m'.length > capacity T s.lgCur then
    if s.lgCur < s.lgMax then { s with map := m', total := s.total + w, lgCur := s.lgCur + 1 }
    else { s with map := purgeMap m' a, total := s.total + w, offset := s.offset + a }
  else { s with map := m', total := s.total + w }

/-- a replay entry: item, weight, purge amount to use should this update purge -/
abbrev Ent (ι : Type) := ι × Nat × Nat

def replay (T : Tun) (s : St ι) : List (Ent ι) → St ι
  | [] => s
  | (x, w, a) :: t => replay T (update T s x w a) t

def entPairs (ents : List (Ent ι)) : Map ι := ents.map (fun e => (e.1, e.2.1))

/-- `merge(other)`: `ents` is the other sketch's counters in the order the code visits them, each with the purge
    amount to use. NOTE the early return: an operand with no active item is ignored even when its total weight and
    offset are not zero (a fully purged sketch). -/
def merge (T : Tun) (s o : St ι) (ents : List (Ent ι)) : St ι :=
  if o.map.isEmpty then s else
  let r := replay T s ents
  { r with offset := r.offset + o.offset, total := s.total + o.total }

/-- serialize → deserialize. A sketch without active items is written as the 8-byte EMPTY image (total weight and
    offset are not stored); otherwise the items are re-inserted into a fresh table of the same lgCur (never grows or
    purges: at most capacity(lgCur) items) and total/offset are restored from the image. -/
def roundtrip (_T : Tun) (s : St ι) : St ι :=
  if s.map.isEmpty then { map := [], offset := 0, total := 0, lgCur := s.lgCur, lgMax := s.lgMax } else s

def isEmpty (s : St ι) : Bool := s.map.isEmpty

/-- the operations that depend on `is_empty()`, as the source has them NOW (`T.emptyByTotal` is read from the header):
with `is_empty() = (total_weight == 0)` only a sketch that never saw a positive weight is skipped by merge and written as
the empty image, so a fully purged sketch keeps its total weight and offset through merges and round trips -/
def isEmptyF (T : Tun) (s : St ι) : Bool := if T.emptyByTotal then s.total == 0 else s.map.isEmpty
def mergeF (T : Tun) (s o : St ι) (ents : List (Ent ι)) : St ι :=
  if T.emptyByTotal then
    if o.total = 0 then s else
    let r := replay T s ents
    { r with offset := r.offset + o.offset, total := s.total + o.total }
  else merge T s o ents
def roundtripF (T : Tun) (s : St ι) : St ι :=
  if T.emptyByTotal then
    (if s.total = 0 then { map := [], offset := 0, total := 0, lgCur := s.lgCur, lgMax := s.lgMax } else s)
  else roundtrip T s
def numActive (s : St ι) : Nat := s.map.length
def lowerBound (s : St ι) (x : ι) : Nat := cnt s.map x
def upperBound (s : St ι) (x : ι) : Nat := cnt s.map x + s.offset
def estimate (s : St ι) (x : ι) : Nat := if cnt s.map x > 0 then cnt s.map x + s.offset else 0
def maximumError (s : St ι) : Nat := s.offset

inductive ErrType where
  | noFalsePositives
  | noFalseNegatives
deriving DecidableEq, Repr

structure Row (ι : Type) where
  item : ι
  est : Nat
  lb : Nat
  ub : Nat

def rowOf (s : St ι) (p : ι × Nat) : Row ι := { item := p.1, est := p.2 + s.offset, lb := p.2, ub := p.2 + s.offset }

/-- insertion into a list sorted by estimate, descending (comparator of the code: `a.est > b.est`) -/
def insertRow (r : Row ι) : List (Row ι) → List (Row ι)
  | [] => [r]
  | h :: t => if h.est < r.est then r :: h :: t else h :: insertRow r t

def sortRows (l : List (Row ι)) : List (Row ι) := l.foldr insertRow []

def selects (s : St ι) (et : ErrType) (thr : Nat) (p : ι × Nat) : Bool :=
  match et with
  | .noFalseNegatives => decide (p.2 + s.offset > thr)
  | .noFalsePositives => decide (p.2 > thr)

/-- `get_frequent_items(err_type, threshold)` -/
def frequentItems (s : St ι) (et : ErrType) (thr : Nat) : List (Row ι) :=
  sortRows ((s.map.filter (selects s et thr)).map (rowOf s))

/-- median as `purge()` computes it: element of rank `n/2` of the sample (`nth_element`) -/
def medianOf (l : List Nat) : Nat := (sortNat l).getD (l.length / 2) 0

/-- purge amount of the code when the whole table is sampled (`numActive ≤ MAX_SAMPLE_SIZE`): order independent -/
def purgeAmountAll (m : Map ι) : Nat := medianOf (vals m)

/-- the update the code performs when the sample is the whole table -/
def updateMed (T : Tun) (s : St ι) (x : ι) (w : Nat) : St ι :=
  update T s x w (purgeAmountAll (adjust s.map x w))

/-- number of counters `≥ a` -/
def countGE : List Nat → Nat → Nat
  | [], _ => 0
  | v :: t, a => (if a ≤ v then 1 else 0) + countGE t a

def sumVals : Map ι → Nat
  | [] => 0
  | (_, v) :: t => v + sumVals t

/-- number of sample elements at sorted positions `≥ n/2` -/
def upperHalf (n : Nat) : Nat := n - n / 2

end DS.Fi

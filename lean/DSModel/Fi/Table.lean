/- L2 concrete executable model of `reverse_purge_hash_map` (fi/include/reverse_purge_hash_map_impl.hpp) and of the
   frequent-items sketch on top of it.  Core Lean only.

   Layout as in the code: three parallel arrays `keys_ / values_ / states_` of size 2^lgCur; `states_[i] = 0` means
   empty, otherwise it is the drift (1 + distance from the hashed position); linear probing from
   `hash(key) & mask`; `hash_delete` back-shifts later members of the cluster; `subtract_and_keep_positive_only`
   scans from the back, lowest cluster last; `purge` samples the first min(MAX_SAMPLE_SIZE, numActive) active
   values in index order and takes the element of rank n/2; the iterator (merge, serialisation) walks with the
   golden-ratio stride starting at the first active slot.

   Keys are natural numbers (64-bit items); `hash : Nat → Nat` is the full 64-bit value `fmix64(H()(key))` – the
   harness instantiates `H` with an explicit identity functor so that the driver can use `fmix64`.

   DRIFT_LIMIT: `internal_adjust_or_insert` throws `logic_error` when the probe distance reaches DRIFT_LIMIT (1024;
   possible only in tables of ≥ 2048 slots with ≥ 1023 colliding keys). `update` has then already added the weight to
   `total_weight`; the map is untouched. Modelled by `throws2`/`replay2` (a merge or a deserialisation stops there).
   Not modelled: the same limit inside `hash_delete` and inside `resize`, and the nested
   `resize_or_purge_if_needed` inside `resize` (it cannot fire: capacity(lg)+1 ≤ capacity(lg+1)). -/
import DSModel.Fi.Abstract
namespace DS.Fi

structure Tab where
  lgCur : Nat
  lgMax : Nat
  numActive : Nat
  keys : Array Nat
  vals : Array Nat
  states : Array Nat

namespace Tab

def size (t : Tab) : Nat := 2 ^ t.lgCur

def mk' (lgCur lgMax : Nat) : Tab :=
  { lgCur := lgCur, lgMax := lgMax, numActive := 0,
    keys := Array.replicate (2 ^ lgCur) 0, vals := Array.replicate (2 ^ lgCur) 0, states := Array.replicate (2 ^ lgCur) 0 }

def active (t : Tab) (i : Nat) : Bool := t.states.getD i 0 > 0
def key (t : Tab) (i : Nat) : Nat := t.keys.getD i 0
def val (t : Tab) (i : Nat) : Nat := t.vals.getD i 0
def state (t : Tab) (i : Nat) : Nat := t.states.getD i 0

/-- linear probe for `k` starting at `idx` with drift `drift`; result (index, drift, found) -/
def probe (t : Tab) (k : Nat) : Nat → Nat → Nat → Nat × Nat × Bool
  | idx, drift, 0 => (idx, drift, false)
  | idx, drift, fuel + 1 =>
    if t.active idx then
      if t.key idx = k then (idx, drift, true)
      else probe t k ((idx + 1) % t.size) (drift + 1) fuel
    else (idx, drift, false)

/-- `get(key)` -/
def get (hash : Nat → Nat) (t : Tab) (k : Nat) : Nat :=
  let (idx, _, found) := t.probe k (hash k % t.size) 1 t.size
  if found then t.val idx else 0

/-- does `internal_adjust_or_insert` hit the drift limit for key `k`? (the check follows every `drift++`) -/
def hitsDriftLimit (T : Tun) (hash : Nat → Nat) (t : Tab) (k : Nat) : Bool :=
  decide ((t.probe k (hash k % t.size) 1 t.size).2.1 ≥ T.driftLimit)

/-- `internal_adjust_or_insert`; second component: a new key was inserted -/
def internalAdjustOrInsert (hash : Nat → Nat) (t : Tab) (k v : Nat) : Tab × Bool :=
  let (idx, drift, found) := t.probe k (hash k % t.size) 1 t.size
  if found then ({ t with vals := t.vals.setIfInBounds idx (t.val idx + v) }, false)
  else ({ t with keys := t.keys.setIfInBounds idx k, vals := t.vals.setIfInBounds idx v,
                 states := t.states.setIfInBounds idx drift, numActive := t.numActive + 1 }, true)

/-- loop of `hash_delete` after the slot `del` has been marked empty -/
def hashDeleteLoop (t : Tab) : Nat → Nat → Nat → Nat → Tab
  | _, _, _, 0 => t
  | del, pr, drift, fuel + 1 =>
    if t.active pr then
      if t.state pr > drift then
        let t' := { t with keys := t.keys.setIfInBounds del (t.key pr), vals := t.vals.setIfInBounds del (t.val pr),
                           states := (t.states.setIfInBounds del (t.state pr - drift)).setIfInBounds pr 0 }
        hashDeleteLoop t' pr ((pr + 1) % t.size) 1 fuel
      else hashDeleteLoop t del ((pr + 1) % t.size) (drift + 1) fuel
    else t

/-- `hash_delete(delete_index)` -/
def hashDelete (t : Tab) (del : Nat) : Tab :=
  let t0 := { t with states := t.states.setIfInBounds del 0 }
  hashDeleteLoop t0 del ((del + 1) % t.size) 1 t.size

/-- first empty slot searching from the back -/
def firstEmptyFromBack (t : Tab) : Nat → Nat
  | 0 => 0
  | i + 1 => if t.active i then firstEmptyFromBack t i else i

/-- one visit of the subtract scan -/
def subtractAt (amount : Nat) (t : Tab) (pr : Nat) : Tab :=
  if t.active pr then
    if t.val pr ≤ amount then
      let t' := t.hashDelete pr
      { t' with numActive := t'.numActive - 1 }
    else { t with vals := t.vals.setIfInBounds pr (t.val pr - amount) }
  else t

/-- the order in which `subtract_and_keep_positive_only` visits the slots -/
def scanOrder (t : Tab) : List Nat :=
  let fp := t.firstEmptyFromBack t.size
  (List.range fp).reverse ++ ((List.range t.size).reverse.takeWhile (fun i => decide (fp ≤ i)))

/-- `subtract_and_keep_positive_only(amount)` -/
def subtractAndKeepPositiveOnly (t : Tab) (amount : Nat) : Tab :=
  t.scanOrder.foldl (subtractAt amount) t

def activeIdx (t : Tab) : List Nat := (List.range t.size).filter t.active

/-- the values `purge()` copies into `samples` -/
def sample (T : Tun) (t : Tab) : List Nat :=
  (t.activeIdx.take (min T.maxSample t.numActive)).map t.val

/-- the amount `purge()` computes: `nth_element(…, n/2)` -/
def sampleMedian (T : Tun) (t : Tab) : Nat := medianOf (t.sample T)

/-- `resize(lgCur + 1)` -/
def resize (hash : Nat → Nat) (t : Tab) : Tab :=
  t.activeIdx.foldl (fun n i => (n.internalAdjustOrInsert hash (t.key i) (t.val i)).1) (mk' (t.lgCur + 1) t.lgMax)

/-- `adjust_or_insert` + `resize_or_purge_if_needed`; `choose sample` is the purge amount actually used
    (the code: `choose = medianOf`). Returns the new table and the amount added to the offset. -/
def adjustOrInsert (T : Tun) (hash : Nat → Nat) (choose : List Nat → Nat) (t : Tab) (k v : Nat) : Tab × Nat :=
  let (t1, isNew) := t.internalAdjustOrInsert hash k v
  if isNew && decide (t1.numActive > capacity T t1.lgCur) then
    if t1.lgCur < t1.lgMax then (t1.resize hash, 0)
    else
      let a := choose (t1.sample T)
      (t1.subtractAndKeepPositiveOnly a, a)
  else (t1, 0)

/-- iterator order: first active slot, then steps of the golden-ratio stride -/
def iterOrder (T : Tun) (t : Tab) : List (Nat × Nat) :=
  match t.activeIdx with
  | [] => []
  | i0 :: _ =>
    let stride := ((t.size * T.goldNum) / T.goldDen) ||| 1
    (((List.range t.size).map (fun j => (i0 + j * stride) % t.size)).filter t.active).map (fun i => (t.key i, t.val i))

/-- all (key, value) pairs in index order -/
def entries (t : Tab) : List (Nat × Nat) := t.activeIdx.map (fun i => (t.key i, t.val i))

end Tab

/-- L2 sketch -/
structure St2 where
  tab : Tab
  offset : Nat
  total : Nat

def init2 (T : Tun) (lgMax lgStart : Nat) : St2 :=
  { tab := Tab.mk' (max lgStart T.lgMin) (max lgMax T.lgMin), offset := 0, total := 0 }

/-- `update`; returns the new state and the purge amount used (0 = no purge) -/
def update2 (T : Tun) (hash : Nat → Nat) (choose : List Nat → Nat) (s : St2) (k w : Nat) : St2 × Nat :=
  if w = 0 then (s, 0) else
  let (t', a) := s.tab.adjustOrInsert T hash choose k w
  ({ tab := t', offset := s.offset + a, total := s.total + w }, a)

/-- `update` throws at the drift limit (after `total_weight += weight`) -/
def throws2 (T : Tun) (hash : Nat → Nat) (s : St2) (k w : Nat) : Bool :=
  w != 0 && s.tab.hitsDriftLimit T hash k

/-- state after the exception: only the total weight has changed -/
def afterThrow2 (s : St2) (w : Nat) : St2 := { s with total := s.total + w }

/-- replay of a list of counters; returns the L1 replay entries (with the purge amounts used) in reverse order and
    whether an update threw (the replay stops there) -/
def replay2 (T : Tun) (hash : Nat → Nat) (choose : List Nat → Nat) :
    St2 → List (Nat × Nat) → List (Ent Nat) → St2 × List (Ent Nat) × Bool
  | s, [], log => (s, log, false)
  | s, (k, w) :: t, log =>
    if throws2 T hash s k w then (afterThrow2 s w, log, true) else
    let (s', a) := update2 T hash choose s k w
    replay2 T hash choose s' t ((k, w, a) :: log)

/-- `merge(other)`; also returns the replay list handed to the L1 model and whether the merge threw half way
    (then offset and total weight are NOT fixed up) -/
def merge2 (T : Tun) (hash : Nat → Nat) (choose : List Nat → Nat) (s o : St2) : St2 × List (Ent Nat) × Bool :=
  if o.tab.numActive = 0 then (s, [], false) else
  let (r, log, threw) := replay2 T hash choose s (o.tab.iterOrder T) []
  if threw then (r, log.reverse, true) else
  ({ r with offset := r.offset + o.offset, total := s.total + o.total }, log.reverse, false)

/-- serialize → deserialize: items in iterator order re-inserted into a fresh table (lgMax, lgCur);
    `none` = the deserialisation threw -/
def roundtrip2 (T : Tun) (hash : Nat → Nat) (s : St2) : Option St2 :=
  if s.tab.numActive = 0 then some { tab := Tab.mk' s.tab.lgCur s.tab.lgMax, offset := 0, total := 0 } else
  let fresh : St2 := { tab := Tab.mk' s.tab.lgCur s.tab.lgMax, offset := 0, total := 0 }
  let (r, _, threw) := replay2 T hash medianOf fresh (s.tab.iterOrder T) []
  if threw then none else some { r with offset := s.offset, total := s.total }

/-- `merge` / round trip with `is_empty()` as the source has it now (see `mergeF`) -/
def merge2F (T : Tun) (hash : Nat → Nat) (choose : List Nat → Nat) (s o : St2) : St2 × List (Ent Nat) × Bool :=
  if T.emptyByTotal then
    if o.total = 0 then (s, [], false) else
    let (r, log, threw) := replay2 T hash choose s (o.tab.iterOrder T) []
    if threw then (r, log.reverse, true) else
    ({ r with offset := r.offset + o.offset, total := s.total + o.total }, log.reverse, false)
  else merge2 T hash choose s o

def roundtrip2F (T : Tun) (hash : Nat → Nat) (s : St2) : Option St2 :=
  if T.emptyByTotal then
    if s.total = 0 then some { tab := Tab.mk' s.tab.lgCur s.tab.lgMax, offset := 0, total := 0 } else
    let fresh : St2 := { tab := Tab.mk' s.tab.lgCur s.tab.lgMax, offset := 0, total := 0 }
    let (r, _, threw) := replay2 T hash medianOf fresh (s.tab.iterOrder T) []
    if threw then none else some { r with offset := s.offset, total := s.total }
  else roundtrip2 T hash s

/-- abstraction function L2 → L1 -/
def abs2 (s : St2) : St Nat :=
  { map := s.tab.entries, offset := s.offset, total := s.total, lgCur := s.tab.lgCur, lgMax := s.tab.lgMax }

end DS.Fi

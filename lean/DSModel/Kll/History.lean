/-
Histories over any number of KLL sketches: arbitrary interleavings of constructions, updates, merges
(any tree, equal/unequal k, any operand state) and copies.  Sketches are named by their position in the
state list (`new`/`copy` append).  `truth` is the coin-independent ground truth: for every sketch the list
of items it has accepted, directly or through merges.  Core Lean only.
-/
import DSModel.Kll.Sketch
namespace DS.Kll
open DS

variable {α : Type}

inductive Op (α : Type) where
  | new (k : Nat)
  | upd (i : Nat) (x : α)
  | merge (i j : Nat)        -- sketch i absorbs sketch j (i ≠ j); j is unchanged
  | copy (i : Nat)
  | view (i : Nat)           -- get_sorted_view(): sorts level 0 as a side effect

/-- one operation; ill-formed operations (bad index, self-merge, invalid k: the constructor throws) leave the state as it is -/
def stepT (P : Params) (c : Cmp α) (st : List (Sketch α)) : Op α → CT (List (Sketch α))
  | .new k => CT.ret (if validK P k then st ++ [init k] else st)
  | .upd i x =>
    match st[i]? with
    | some s => CT.map (fun s' => st.set i s') (updateT P c s x)
    | none => CT.ret st
  | .merge i j =>
    if i == j then CT.ret st else
    match st[i]?, st[j]? with
    | some a, some b => CT.map (fun s' => st.set i s') (mergeT P c a b)
    | _, _ => CT.ret st
  | .copy i =>
    match st[i]? with
    | some s => CT.ret (st ++ [s])
    | none => CT.ret st
  | .view i =>
    match st[i]? with
    | some s => CT.ret (st.set i (sortLevelZero c s))
    | none => CT.ret st

def runT (P : Params) (c : Cmp α) : List (Op α) → List (Sketch α) → CT (List (Sketch α))
  | [], st => CT.ret st
  | op :: ops, st => CT.bind (stepT P c st op) (runT P c ops)

/-- accepted items per sketch (newest first) -/
def truthStep (P : Params) (c : Cmp α) (tr : List (List α)) : Op α → List (List α)
  | .new k => if validK P k then tr ++ [[]] else tr
  | .upd i x =>
    match tr[i]? with
    | some l => if c.isNaN x then tr else tr.set i (x :: l)
    | none => tr
  | .merge i j =>
    if i == j then tr else
    match tr[i]?, tr[j]? with
    | some a, some b => tr.set i (b ++ a)
    | _, _ => tr
  | .copy i =>
    match tr[i]? with
    | some l => tr ++ [l]
    | none => tr
  | .view _ => tr

def truth (P : Params) (c : Cmp α) : List (Op α) → List (List α) → List (List α)
  | [], tr => tr
  | op :: ops, tr => truth P c ops (truthStep P c tr op)

end DS.Kll

/-
Coin trees: a computation that may ask for fair coin flips (`random_utils::random_bit`) is a tree whose
inner nodes are flips.  `run` executes it against a supplied coin sequence (what the harness does through
the DATASKETCHES_VERIF hook); `All`, `sum`, `leaves`, `Uniform` talk about ALL coin outcomes at once.
Core Lean only.
-/
namespace DS

/-- supplied coin sequence + number of coins consumed so far (an exhausted sequence yields `false`) -/
structure Coins where
  bits : List Bool
  used : Nat := 0
deriving Repr

def Coins.next (c : Coins) : Bool × Coins :=
  (c.bits.headD false, { bits := c.bits.tail, used := c.used + 1 })

inductive CT (σ : Type) where
  | ret : σ → CT σ
  | flip : (Bool → CT σ) → CT σ

namespace CT
variable {σ τ : Type}

def bind : CT σ → (σ → CT τ) → CT τ
  | ret s, k => k s
  | flip f, k => flip (fun b => bind (f b) k)

def map (g : σ → τ) (t : CT σ) : CT τ := bind t (fun s => ret (g s))

/-- execute against a coin sequence -/
def run : CT σ → Coins → σ × Coins
  | ret s, c => (s, c)
  | flip f, c => run (f c.next.1) c.next.2

/-- the predicate holds at every leaf (= for every coin outcome) -/
def All (P : σ → Prop) : CT σ → Prop
  | ret s => P s
  | flip f => ∀ b, All P (f b)

/-- sum of `g` over all leaves -/
def sum (g : σ → Nat) : CT σ → Nat
  | ret s => g s
  | flip f => sum g (f false) + sum g (f true)

def leaves : CT σ → Nat
  | ret _ => 1
  | flip f => leaves (f false) + leaves (f true)

/-- every leaf is at depth `d` (the number of flips does not depend on their outcomes) -/
def Uniform : Nat → CT σ → Prop
  | 0, ret _ => True
  | _ + 1, ret _ => False
  | 0, flip _ => False
  | d + 1, flip f => ∀ b, Uniform d (f b)

/-- number of flips along the all-`false` branch -/
def depthLeft : CT σ → Nat
  | ret _ => 0
  | flip f => depthLeft (f false) + 1

/-- all leaves in left-to-right order (false before true), with the flips taken -/
def leafList : CT σ → List (List Bool × σ)
  | ret s => [([], s)]
  | flip f => (leafList (f false)).map (fun p => (false :: p.1, p.2)) ++ (leafList (f true)).map (fun p => (true :: p.1, p.2))

end CT

/-- all coin vectors of a given length -/
def allVecs : Nat → List (List Bool)
  | 0 => [[]]
  | n + 1 => (allVecs n).map (false :: ·) ++ (allVecs n).map (true :: ·)

end DS

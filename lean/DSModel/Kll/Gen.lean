/- The KLL model instantiated with the constants the translator took from the current headers. -/
import DSModel.Kll.Sketch
import DSGen.Kll
namespace DS.Kll

def genParams : Params :=
  { m := DSGen.kll_DEFAULT_M, pow3 := DSGen.kll_powers_of_three, splitDepth := DSGen.kll_INT_CAP_SPLIT_DEPTH,
    minK := DSGen.kll_MIN_K, maxK := DSGen.kll_MAX_K }

def genErr : ErrConsts :=
  { pmfA := Float.ofBits DSGen.kll_ERR_PMF_A_bits, pmfB := Float.ofBits DSGen.kll_ERR_PMF_B_bits,
    cdfA := Float.ofBits DSGen.kll_ERR_CDF_A_bits, cdfB := Float.ofBits DSGen.kll_ERR_CDF_B_bits }

/-- the source shapes of the current headers -/
def genFlags : Flags := { iterSkipsEmpty := DSGen.kll_ITER_SKIPS_EMPTY_LEVELS, nanRankRejected := DSGen.kll_NAN_RANK_REJECTED }

end DS.Kll

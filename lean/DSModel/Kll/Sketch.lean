/-
L1 model of `kll_sketch<T, C, A>` (kll/include/kll_sketch_impl.hpp, kll_helper_impl.hpp).

Items are of an arbitrary type with a Boolean comparator `lt` (the C++ `C`), `isNaN` is the
`check_update_item` filter (constant false for non floating point items).
The packed array `items_[levels_[0] .. levels_[num_levels_])` is represented as `levels : List (List α)`:
index = height, each level in array order, so level 0 is NEWEST-FIRST (new items go to `--levels_[0]`).
`itemsSize` = `items_size_` (= `levels_[num_levels_]`), so `levels_[0] == 0` is `retained = itemsSize`.
Every coin (`random_utils::random_bit`, hook H1) is an explicit `Bool` argument of `halveUp/halveDown`;
operations that may flip are coin trees (`CT`), executed with `CT.run` against a supplied sequence.
Machine-integer widths (uint8/16/32/64) are not modelled (Nat).
Core Lean only.
-/
import DSModel.SortedView
import DSModel.Kll.CoinTree
namespace DS.Kll
open DS

variable {α : Type}

/-- constants taken from the headers by the translator (DSGen/Kll.lean) -/
structure Params where
  m : Nat                 -- kll_constants::DEFAULT_M
  pow3 : List Nat         -- kll_helper.hpp powers_of_three[]
  splitDepth : Nat        -- int_cap_aux: table used directly up to this depth (30)
  minK : Nat
  maxK : Nat
deriving Repr

/-- comparator + update filter -/
structure Cmp (α : Type) where
  lt : α → α → Bool
  isNaN : α → Bool

/-! ### capacities (kll_helper) -/

/-- `int_cap_aux_aux`: round(k * (2/3)^depth), with the table of powers of three -/
def intCapAuxAux (P : Params) (k depth : Nat) : Nat :=
  ((2 * k * 2 ^ depth) / P.pow3.getD depth 1 + 1) / 2

/-- `int_cap_aux` (depth ≤ 60; the code throws above) -/
def intCapAux (P : Params) (k depth : Nat) : Nat :=
  if depth ≤ P.splitDepth then intCapAuxAux P k depth
  else intCapAuxAux P (intCapAuxAux P k (depth / 2)) (depth - depth / 2)

def capAtDepth (P : Params) (k depth : Nat) : Nat := max P.m (intCapAux P k depth)

/-- `level_capacity(k, numLevels, height, m)` (height < numLevels) -/
def levelCapacity (P : Params) (k numLevels height : Nat) : Nat := capAtDepth P k (numLevels - height - 1)

def sumCaps (P : Params) (k numLevels : Nat) : Nat → Nat
  | 0 => 0
  | h + 1 => sumCaps P k numLevels h + levelCapacity P k numLevels h

/-- `compute_total_capacity(k, m, num_levels)` -/
def computeTotalCapacity (P : Params) (k numLevels : Nat) : Nat := sumCaps P k numLevels numLevels

/-- `ub_on_num_levels(n)` = 1 + floor(log2 n) (1 for n = 0) -/
def ubOnNumLevels (n : Nat) : Nat := Nat.log2 n + 1

/-! ### the compaction mechanism (shared by `compress_while_updating` and `general_compress`) -/

/-- elements at even positions 0, 2, 4, … -/
def evens : List α → List α
  | [] => []
  | [a] => [a]
  | a :: _ :: t => a :: evens t

/-- elements at odd positions 1, 3, 5, … -/
def odds : List α → List α
  | [] => []
  | [_] => []
  | _ :: b :: t => b :: odds t

/-- `randomly_halve_down` on an even-length run: keeps positions ≡ offset (mod 2); coin = offset bit -/
def halveDown (l : List α) (coin : Bool) : List α := if coin then odds l else evens l

/-- `randomly_halve_up`: keeps positions ≡ len-1-offset (mod 2), len even -/
def halveUp (l : List α) (coin : Bool) : List α := if coin then evens l else odds l

/-- stable insertion: before the first element that is not smaller -/
def insertBy (lt : α → α → Bool) (x : α) : List α → List α
  | [] => [x]
  | y :: t => if lt y x then y :: insertBy lt x t else x :: y :: t

/-- `std::sort` of level 0 (order of equivalent items is unspecified in C++; the model is the stable sort;
written as an insertion sort so that it is structurally recursive and evaluates in the kernel) -/
def sortBy (lt : α → α → Bool) : List α → List α
  | [] => []
  | x :: t => insertBy lt x (sortBy lt t)

/-- `merge_sorted_arrays(a, b)` with explicit fuel (structural recursion, so that it evaluates in the kernel) -/
def mergeUpF (lt : α → α → Bool) : Nat → List α → List α → List α
  | _, [], b => b
  | _, x :: a, [] => x :: a
  | 0, x :: a, y :: b => x :: a ++ y :: b      -- unreachable with fuel = a.length + b.length
  | f + 1, x :: a, y :: b => if lt x y then x :: mergeUpF lt f a (y :: b) else y :: mergeUpF lt f (x :: a) b

/-- `merge_sorted_arrays(a, b)`: takes from `a` when `C(a, b)`, else from `b` -/
def mergeUp (lt : α → α → Bool) (a b : List α) : List α := mergeUpF lt (a.length + b.length) a b

/-- the odd leftover `items[raw_beg]` -/
def leftoverOf (cur : List α) : List α := if cur.length % 2 == 1 then cur.take 1 else []

/-- `items[adj_beg .. adj_beg + adj_pop)`, sorted when it is an unsorted level 0 -/
def adjOf (lt : α → α → Bool) (srt : Bool) (cur : List α) : List α :=
  let adj := if cur.length % 2 == 1 then cur.drop 1 else cur
  if srt then sortBy lt adj else adj

/-- halve up if the level above is empty, else halve down -/
def halfOf (adj above : List α) (coin : Bool) : List α :=
  if above.isEmpty then halveUp adj coin else halveDown adj coin

/-- new content of the level above -/
def newAbove (lt : α → α → Bool) (srt : Bool) (coin : Bool) (cur above : List α) : List α :=
  mergeUp lt (halfOf (adjOf lt srt cur) above coin) above

/-! ### the sketch -/

structure Sketch (α : Type) where
  k : Nat
  minK : Nat
  n : Nat
  levels : List (List α)
  itemsSize : Nat
  sorted0 : Bool
  minItem : Option α
  maxItem : Option α

def Sketch.numLevels (s : Sketch α) : Nat := s.levels.length

def sizeSum : List (List α) → Nat
  | [] => 0
  | l :: t => l.length + sizeSum t

/-- `get_num_retained` -/
def Sketch.retained (s : Sketch α) : Nat := sizeSum s.levels

/-- `sum_the_sample_weights` from height `h` upwards -/
def weightSum : Nat → List (List α) → Nat
  | _, [] => 0
  | h, l :: t => 2 ^ h * l.length + weightSum (h + 1) t

def Sketch.isEstimationMode (s : Sketch α) : Bool := s.numLevels > 1

def init (k : Nat) : Sketch α :=
  { k := k, minK := k, n := 0, levels := [[]], itemsSize := k, sorted0 := false, minItem := none, maxItem := none }

/-- constructor argument check -/
def validK (P : Params) (k : Nat) : Bool := P.minK ≤ k && k ≤ P.maxK

/-- `find_level_to_compact`; returns `numLevels` where the code throws "capacity calculation error" -/
def findLevel (P : Params) (k numLevels : Nat) : List (List α) → Nat → Nat
  | [], lvl => lvl
  | l :: t, lvl => if l.length ≥ levelCapacity P k numLevels lvl then lvl else findLevel P k numLevels t (lvl + 1)

/-- `add_empty_top_level_to_completely_full_sketch` -/
def addTop (P : Params) (s : Sketch α) : Sketch α :=
  { s with levels := s.levels ++ [[]], itemsSize := s.itemsSize + levelCapacity P s.k (s.numLevels + 1) 0 }

/-- compaction of level `lvl` (which has a level above it) with the given coin -/
def compactAt (lt : α → α → Bool) (srt : Bool) (coin : Bool) (lvl : Nat) (levels : List (List α)) : List (List α) :=
  (levels.set lvl (leftoverOf (levels.getD lvl []))).set (lvl + 1)
    (newAbove lt srt coin (levels.getD lvl []) (levels.getD (lvl + 1) []))

/-- `compress_while_updating` -/
def compress (P : Params) (c : Cmp α) (s : Sketch α) (coin : Bool) : Sketch α :=
  let lvl := findLevel P s.k s.numLevels s.levels 0
  if lvl ≥ s.numLevels then s else
  let s1 := if lvl + 1 == s.numLevels then addTop P s else s
  { s1 with levels := compactAt c.lt (lvl == 0 && !s.sorted0) coin lvl s1.levels }

/-- store the item at `--levels_[0]` -/
def push (s : Sketch α) (x : α) : Sketch α :=
  { s with n := s.n + 1, sorted0 := false, levels := (x :: s.levels.headD []) :: s.levels.tail }

/-- `levels_[0] == 0` -/
def Sketch.full (s : Sketch α) : Bool := s.retained == s.itemsSize

/-- `internal_update` + construction of the item -/
def internalUpdateT (P : Params) (c : Cmp α) (s : Sketch α) (x : α) : CT (Sketch α) :=
  if s.full then CT.flip (fun coin => CT.ret (push (compress P c s coin) x)) else CT.ret (push s x)

def updMin (c : Cmp α) (cur : Option α) (x : α) : Option α :=
  match cur with
  | none => some x
  | some m => if c.lt x m then some x else some m

def updMax (c : Cmp α) (cur : Option α) (x : α) : Option α :=
  match cur with
  | none => some x
  | some m => if c.lt m x then some x else some m

/-- `update_min_max` (is_empty() is n == 0) -/
def updateMinMax (c : Cmp α) (s : Sketch α) (x : α) : Sketch α :=
  if s.n == 0 then { s with minItem := some x, maxItem := some x }
  else { s with minItem := updMin c s.minItem x, maxItem := updMax c s.maxItem x }

/-- `update(item)` -/
def updateT (P : Params) (c : Cmp α) (s : Sketch α) (x : α) : CT (Sketch α) :=
  if c.isNaN x then CT.ret s else internalUpdateT P c (updateMinMax c s x) x

/-! ### merge -/

/-- level-0 replay: `for i in other.levels_[0] .. other.levels_[1]` -/
def replayT (P : Params) (c : Cmp α) : Sketch α → List α → CT (Sketch α)
  | s, [] => CT.ret s
  | s, x :: t => CT.bind (internalUpdateT P c s x) (fun s' => replayT P c s' t)

/-- `populate_work_arrays` for the levels above 0 -/
def zipLevels (lt : α → α → Bool) : List (List α) → List (List α) → List (List α)
  | [], bs => bs
  | a :: as, [] => a :: as
  | a :: as, b :: bs => mergeUp lt a b :: zipLevels lt as bs

/-- the `while (!done_yet)` loop of `general_compress`.  `below` = levels already moved to the output
(reversed), `cur` = the level being processed, `rest` = levels above it; the current number of levels is
`below.length + 1 + rest.length`.  Result: levels and `final_capacity`.  `fuel` only makes the recursion
structural (see `gcFuel`). -/
def gcLoop (P : Params) (lt : α → α → Bool) (k : Nat) (sorted0 : Bool) :
    Nat → List (List α) → List α → List (List α) → Nat → Nat → CT (List (List α) × Nat)
  | 0, below, cur, rest, _, tgt => CT.ret (below.reverse ++ cur :: rest, tgt)
  | fuel + 1, below, cur, rest, cnt, tgt =>
    if cnt < tgt || cur.length < levelCapacity P k (below.length + 1 + rest.length) below.length then
      match rest with
      | [] => CT.ret (below.reverse ++ [cur], tgt)
      | r :: rs => gcLoop P lt k sorted0 fuel (cur :: below) r rs cnt tgt
    else
      CT.flip fun coin =>
        match rest with
        | [] => gcLoop P lt k sorted0 fuel (leftoverOf cur :: below)
                  (newAbove lt (below.length == 0 && !sorted0) coin cur []) [] (cnt - cur.length / 2)
                  (tgt + levelCapacity P k (below.length + 2) 0)
        | r :: rs => gcLoop P lt k sorted0 fuel (leftoverOf cur :: below)
                  (newAbove lt (below.length == 0 && !sorted0) coin cur r) rs (cnt - cur.length / 2) tgt

def gcFuel (work : List (List α)) : Nat := sizeSum work + work.length + 1

/-- `merge_higher_levels` -/
def mergeHigherT (P : Params) (c : Cmp α) (s o : Sketch α) : CT (Sketch α) :=
  let work := s.levels.headD [] :: zipLevels c.lt s.levels.tail o.levels.tail
  CT.bind (gcLoop P c.lt s.k s.sorted0 (gcFuel work) [] (work.headD []) work.tail (sizeSum work)
            (computeTotalCapacity P s.k work.length))
    (fun r => CT.ret { s with levels := r.1, itemsSize := r.2 })

def mergeMinMax (c : Cmp α) (s o : Sketch α) : Sketch α :=
  if s.n == 0 then { s with minItem := o.minItem, maxItem := o.maxItem }
  else { s with minItem := match o.minItem with | some x => updMin c s.minItem x | none => s.minItem,
                maxItem := match o.maxItem with | some x => updMax c s.maxItem x | none => s.maxItem }

/-- `merge(other)` (lvalue and rvalue overloads behave identically on values) -/
def mergeT (P : Params) (c : Cmp α) (s o : Sketch α) : CT (Sketch α) :=
  if o.n == 0 then CT.ret s else
  CT.bind (replayT P c (mergeMinMax c s o) (o.levels.headD [])) fun s2 =>
  CT.bind (if o.numLevels ≥ 2 then mergeHigherT P c s2 o else CT.ret s2) fun s3 =>
  CT.ret { s3 with n := s.n + o.n, minK := if o.isEstimationMode then min s3.minK o.minK else s3.minK }

/-- `assert_correct_total_weight` -/
def Sketch.weightOk (s : Sketch α) : Bool := weightSum 0 s.levels == s.n

/-! ### iterator, exactly as coded -/

/-- the `do { ++level; weight *= 2; } while (level < num_levels && levels[level] == levels[level + 1])`
of `operator++`; `hs` = sizes of the levels above the current one, `e` = `levels[level + 1]` -/
def iterAdvance : List Nat → Nat → Nat → List Nat × Nat × Nat
  | [], w, e => ([], 2 * w, e)
  | sz :: hs, w, e => if sz == 0 then iterAdvance hs (2 * w) e else (hs, 2 * w, e + sz)

/-- iteration from `index` (position relative to `levels_[0]`); `rem` = items from `index` on;
`e` = `levels[level + 1]`; stops when `index == levels[num_levels]`, i.e. when `rem` is exhausted -/
def iterGo : List α → Nat → Nat → List Nat → Nat → List (α × Nat)
  | [], _, _, _, _ => []
  | x :: rem, index, e, hs, w =>
    (x, w) ::
      (if index + 1 == e then
        iterGo rem (index + 1) (iterAdvance hs w e).2.2 (iterAdvance hs w e).1 (iterAdvance hs w e).2.1
       else iterGo rem (index + 1) e hs w)

/-- `for (auto pair : sketch)`: begin() has index = levels[0], level = 0, weight = 1 -/
def Sketch.iter (s : Sketch α) : List (α × Nat) :=
  iterGo s.levels.flatten 0 (s.levels.headD []).length (s.levels.tail.map List.length) 1

/-- source shapes that the two repairs change; regenerated from the current headers (DSGen.kll_ITER_SKIPS_EMPTY_LEVELS,
DSGen.kll_NAN_RANK_REJECTED).  `false` = the pinned shapes (`Sketch.iter`, `getQuantile` above/below). -/
structure Flags where
  iterSkipsEmpty : Bool
  nanRankRejected : Bool
deriving DecidableEq, Repr

/-- the repaired constructor: `while (level < num_levels && levels[level] == levels[level + 1]) { ++level; weight *= 2; }`
on the sizes of the levels from `level` on -/
def iterSkip : List Nat → Nat → List Nat × Nat
  | [], w => ([], w)
  | sz :: hs, w => if sz == 0 then iterSkip hs (2 * w) else (sz :: hs, w)

/-- `for (auto pair : sketch)` following the shape of the constructor in the current headers -/
def Sketch.iterF (fl : Flags) (s : Sketch α) : List (α × Nat) :=
  if fl.iterSkipsEmpty then
    iterGo s.levels.flatten 0 ((iterSkip (s.levels.map List.length) 1).1.headD 0)
      (iterSkip (s.levels.map List.length) 1).1.tail (iterSkip (s.levels.map List.length) 1).2
  else s.iter

/-! ### sorted view and queries -/

/-- sort the first list (level 0) -/
def sortHead (lt : α → α → Bool) : List (List α) → List (List α)
  | [] => []
  | l :: t => sortBy lt l :: t

/-- `sort_level_zero` -/
def sortLevelZero (c : Cmp α) (s : Sketch α) : Sketch α :=
  if s.sorted0 then s else { s with sorted0 := true, levels := sortHead c.lt s.levels }

def viewRaw (lt : α → α → Bool) : List (List α) → Nat → List (α × Nat) → List (α × Nat)
  | [], _, acc => acc
  | l :: t, h, acc => viewRaw lt t (h + 1) (SortedView.add lt acc l (2 ^ h))

/-- `get_sorted_view` on a sketch whose level 0 has been sorted -/
def viewOf (c : Cmp α) (s : Sketch α) : SortedView.View α := SortedView.build (viewRaw c.lt s.levels 0 [])

/-- `get_sorted_view()`: returns the sketch with level 0 sorted (the side effect) and the view -/
def getSortedView (c : Cmp α) (s : Sketch α) : Sketch α × SortedView.View α :=
  (sortLevelZero c s, viewOf c (sortLevelZero c s))

/-- `get_rank`; `none` = throws (empty sketch) -/
def getRank (c : Cmp α) (s : Sketch α) (x : α) (incl : Bool) : Option Float :=
  if s.n == 0 then none else some (SortedView.getRank c.lt (getSortedView c s).2 x incl)

/-- `get_quantile`; `none` = throws (empty sketch, rank outside [0, 1]).  As coded a NaN rank passes the test. -/
def getQuantile (c : Cmp α) (s : Sketch α) (r : Float) (incl : Bool) : Option α :=
  if s.n == 0 then none
  else if r < 0.0 || r > 1.0 then none
  else SortedView.getQuantile (getSortedView c s).2 r incl

/-- the range check of `get_quantile`: pinned `!(rank < 0 || rank > 1)` (NaN passes), repaired `rank >= 0 && rank <= 1` -/
def rankAccepted (fl : Flags) (r : Float) : Bool :=
  if fl.nanRankRejected then (r ≥ 0.0 && r ≤ 1.0) else !(r < 0.0 || r > 1.0)

/-- `get_quantile` following the range check in the current headers -/
def getQuantileF (fl : Flags) (c : Cmp α) (s : Sketch α) (r : Float) (incl : Bool) : Option α :=
  if s.n == 0 then none
  else if !rankAccepted fl r then none
  else SortedView.getQuantile (getSortedView c s).2 r incl

/-- `get_CDF`; `none` = throws (empty sketch, invalid split points) -/
def getCDF (c : Cmp α) (s : Sketch α) (sps : List α) (incl : Bool) : Option (List Float) :=
  if s.n == 0 then none
  else if !SortedView.checkSplitPoints c.lt c.isNaN sps then none
  else some (SortedView.getCDF SortedView.floatOps c.lt (getSortedView c s).2 sps incl)

def getPMF (c : Cmp α) (s : Sketch α) (sps : List α) (incl : Bool) : Option (List Float) :=
  if s.n == 0 then none
  else if !SortedView.checkSplitPoints c.lt c.isNaN sps then none
  else some (SortedView.getPMF SortedView.floatOps c.lt (getSortedView c s).2 sps incl)

/-- constants of `get_normalized_rank_error` (translator: DSGen/Kll.lean) -/
structure ErrConsts where
  pmfA : Float
  pmfB : Float
  cdfA : Float
  cdfB : Float

/-- `get_normalized_rank_error(min_k_, pmf)` -/
def normalizedRankError (e : ErrConsts) (minK : Nat) (pmf : Bool) : Float :=
  if pmf then e.pmfA / Float.pow minK.toFloat e.pmfB else e.cdfA / Float.pow minK.toFloat e.cdfB

end DS.Kll

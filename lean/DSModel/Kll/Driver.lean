/-
Line-protocol driver for the KLL model (see harness/kll_h.cpp for the same protocol on the real headers).
Objects are named by small integers; item types: `i` = int64 (decimal), `d` = double (16 hex digits of the
bits; ordered as doubles), `s` = string (lower-case letters; comparator: shorter first, then lexicographic).
Core Lean only.
-/
import DSModel.Kll.Sketch
import DSModel.Util
namespace DS.Kll
open DS

/-- item type with parser/printer -/
structure ItemIO (α : Type) where
  cmp : Cmp α
  parse : String → Option α
  render : α → String

def intIO : ItemIO Int :=
  { cmp := { lt := fun a b => decide (a < b), isNaN := fun _ => false }, parse := String.toInt?, render := toString }

def f64lt (a b : UInt64) : Bool := Float.ofBits a < Float.ofBits b
def f64IO : ItemIO UInt64 :=
  { cmp := { lt := f64lt, isNaN := fun a => (Float.ofBits a).isNaN },
    parse := fun s => if s.length == 16 then (parseHex s).map UInt64.ofNat else none, render := hex64 }

/-- the custom comparator of the harness: shorter strings first, then lexicographic -/
def strLt (a b : String) : Bool := a.length < b.length || (a.length == b.length && decide (a < b))
def strIO : ItemIO String :=
  { cmp := { lt := strLt, isNaN := fun _ => false }, parse := fun s => if s.isEmpty then none else some s, render := id }

inductive Obj where
  | i (s : Sketch Int)
  | d (s : Sketch UInt64)
  | s (s : Sketch String)

structure St where
  objs : List (Nat × Obj) := []
  coins : Coins := { bits := [] }
  recording : Option (List (List String)) := none    -- tree mode: recorded op lines (reversed)

def St.get (st : St) (id : Nat) : Option Obj := (st.objs.find? (·.1 == id)).map (·.2)
def putObj (objs : List (Nat × Obj)) (id : Nat) (o : Obj) : List (Nat × Obj) :=
  (id, o) :: objs.filter (·.1 != id)

def optStr {α} (io : ItemIO α) : Option α → String
  | none => "-"
  | some x => io.render x

/-- `S n min max retained est I item:weight ...` -/
def obsSketch {α} (fl : Flags) (io : ItemIO α) (s : Sketch α) : String :=
  s!"S {s.n} {optStr io s.minItem} {optStr io s.maxItem} {s.retained} {boolStr s.isEstimationMode} I" ++
    String.join ((s.iterF fl).map (fun p => s!" {io.render p.1}:{p.2}"))

def obsView {α} (io : ItemIO α) (v : SortedView.View α) : String :=
  s!"V {v.total}" ++ String.join (v.ents.map (fun p => s!" {io.render p.1}:{p.2}"))

def obsObj (fl : Flags) : Obj → String
  | .i s => obsSketch fl intIO s
  | .d s => obsSketch fl f64IO s
  | .s s => obsSketch fl strIO s

def floatsStr (tag : String) (l : List Float) : String := tag ++ String.join (l.map (fun x => " " ++ hexF x))

def parseItems {α} (io : ItemIO α) : List String → Option (List α)
  | [] => some []
  | w :: t => match io.parse w, parseItems io t with
    | some x, some r => some (x :: r)
    | _, _ => none

/-- queries on one sketch; returns the (possibly level-0-sorted) sketch and the observation -/
def queryG {α} (E : ErrConsts) (fl : Flags) (io : ItemIO α) (s : Sketch α) (q : List String) : Sketch α × String :=
  let sorted := if s.n == 0 then s else sortLevelZero io.cmp s    -- queries throw on an empty sketch before touching it
  match q with
  | ["view"] => ((getSortedView io.cmp s).1, obsView io (getSortedView io.cmp s).2)
  | ["rank", lit, incl] =>
    match io.parse lit with
    | some x => match getRank io.cmp s x (incl == "1") with
      | some r => (sorted, "R " ++ hexF r)
      | none => (s, "throw")
    | none => (s, "bad-op")
  | ["quant", hx, incl] =>
    match parseHex hx with
    | some b => match getQuantileF fl io.cmp s (Float.ofBits (UInt64.ofNat b)) (incl == "1") with
      | some x => (sorted, "Q " ++ io.render x)
      | none => (s, "throw")          -- both checks throw before setup_sorted_view
    | none => (s, "bad-op")
  | "cdf" :: incl :: sps =>
    match parseItems io sps with
    | some xs => match getCDF io.cmp s xs (incl == "1") with
      | some r => (sorted, floatsStr "C" r)
      | none => (sorted, "throw")          -- setup_sorted_view runs before check_split_points
    | none => (s, "bad-op")
  | "pmf" :: incl :: sps =>
    match parseItems io sps with
    | some xs => match getPMF io.cmp s xs (incl == "1") with
      | some r => (sorted, floatsStr "P" r)
      | none => (sorted, "throw")
    | none => (s, "bad-op")
  | ["err", pmf] => (s, "E " ++ hexF (normalizedRankError E s.minK (pmf == "1")))
  | _ => (s, "bad-op")

def queryObj (E : ErrConsts) (fl : Flags) (o : Obj) (q : List String) : Obj × String :=
  match o with
  | .i s => let r := queryG E fl intIO s q; (.i r.1, r.2)
  | .d s => let r := queryG E fl f64IO s q; (.d r.1, r.2)
  | .s s => let r := queryG E fl strIO s q; (.s r.1, r.2)

def updG {α} (P : Params) (io : ItemIO α) (s : Sketch α) (lit : String) : Option (CT (Sketch α)) :=
  (io.parse lit).map (fun x => updateT P io.cmp s x)

/-- a run of updates -/
def updManyT {α} (P : Params) (c : Cmp α) : Sketch α → List α → CT (Sketch α)
  | s, [] => CT.ret s
  | s, x :: t => CT.bind (updateT P c s x) (fun s' => updManyT P c s' t)

/-- `assert_correct_total_weight` at the end of merge: a failing assertion is the observation `throw` -/
def mergeObs {α} (fl : Flags) (io : ItemIO α) (s : Sketch α) : String := if s.weightOk then obsSketch fl io s else "throw"

/-- state-changing operations as coin trees over the object table -/
def opT (P : Params) (fl : Flags) (objs : List (Nat × Obj)) (w : List String) : CT (List (Nat × Obj) × String) :=
  let get := fun (id : Nat) => (objs.find? (·.1 == id)).map (·.2)
  match w with
  | ["new", id, ty, k] =>
    match id.toNat?, k.toNat? with
    | some id, some k =>
      if !validK P k then CT.ret (objs, "throw") else
      match ty with
      | "i" => let o := Obj.i (init k); CT.ret (putObj objs id o, obsObj fl o)
      | "d" => let o := Obj.d (init k); CT.ret (putObj objs id o, obsObj fl o)
      | "s" => let o := Obj.s (init k); CT.ret (putObj objs id o, obsObj fl o)
      | _ => CT.ret (objs, "bad-op")
    | _, _ => CT.ret (objs, "bad-op")
  | ["upd", id, lit] =>
    match id.toNat? with
    | some id =>
      match get id with
      | some (.i s) => match updG P intIO s lit with
        | some t => CT.map (fun s' => (putObj objs id (.i s'), obsSketch fl intIO s')) t
        | none => CT.ret (objs, "bad-op")
      | some (.d s) => match updG P f64IO s lit with
        | some t => CT.map (fun s' => (putObj objs id (.d s'), obsSketch fl f64IO s')) t
        | none => CT.ret (objs, "bad-op")
      | some (.s s) => match updG P strIO s lit with
        | some t => CT.map (fun s' => (putObj objs id (.s s'), obsSketch fl strIO s')) t
        | none => CT.ret (objs, "bad-op")
      | none => CT.ret (objs, "bad-op")
    | none => CT.ret (objs, "bad-op")
  | ["updn", id, cnt, st, sd, md] =>
    match id.toNat?, cnt.toNat?, st.toNat?, sd.toNat?, md.toNat? with
    | some id, some cnt, some st, some sd, some md =>
      if md == 0 then CT.ret (objs, "bad-op") else
      match get id with
      | some (.i s) => CT.map (fun s' => (putObj objs id (.i s'), obsSketch fl intIO s'))
          (updManyT P intIO.cmp s ((List.range cnt).map (fun j => (((st + j * sd) % md : Nat) : Int))))
      | some (.d s) => CT.map (fun s' => (putObj objs id (.d s'), obsSketch fl f64IO s'))
          (updManyT P f64IO.cmp s ((List.range cnt).map (fun j => ((st + j * sd) % md).toFloat.toBits)))
      | _ => CT.ret (objs, "bad-op")
    | _, _, _, _, _ => CT.ret (objs, "bad-op")
  | "merge" :: i :: j :: _ =>
    match i.toNat?, j.toNat? with
    | some i, some j =>
      match get i, get j with
      | some (.i a), some (.i b) => CT.map (fun s' => (putObj objs i (.i s'), mergeObs fl intIO s')) (mergeT P intIO.cmp a b)
      | some (.d a), some (.d b) => CT.map (fun s' => (putObj objs i (.d s'), mergeObs fl f64IO s')) (mergeT P f64IO.cmp a b)
      | some (.s a), some (.s b) => CT.map (fun s' => (putObj objs i (.s s'), mergeObs fl strIO s')) (mergeT P strIO.cmp a b)
      | _, _ => CT.ret (objs, "bad-op")
    | _, _ => CT.ret (objs, "bad-op")
  | ["copy", i, j] =>
    match i.toNat?, j.toNat? with
    | some i, some j =>
      match get i with
      | some o => CT.ret (putObj objs j o, obsObj fl o)
      | none => CT.ret (objs, "bad-op")
    | _, _ => CT.ret (objs, "bad-op")
  | _ => CT.ret (objs, "bad-op")

def parseBits (s : String) : List Bool := s.toList.filterMap (fun c => if c == '1' then some true else if c == '0' then some false else none)

def insertStr (x : String) : List String → List String
  | [] => [x]
  | y :: t => if x ≤ y then x :: y :: t else y :: insertStr x t

/-- the whole recorded history as one coin tree -/
def histT (P : Params) (fl : Flags) : List (List String) → List (Nat × Obj) → CT (List (Nat × Obj))
  | [], objs => CT.ret objs
  | w :: t, objs => CT.bind (opT P fl objs w) (fun r => histT P fl t r.1)

def leafViews (objs : List (Nat × Obj)) : String :=
  let ids := sortNat (objs.map (·.1))
  String.join (ids.map (fun id => match ((objs.find? (·.1 == id)).map (·.2) : Option Obj) with
    | some (.i s) => s!" | {id} {s.n} " ++ obsView intIO (getSortedView intIO.cmp s).2
    | some (.d s) => s!" | {id} {s.n} " ++ obsView f64IO (getSortedView f64IO.cmp s).2
    | some (.s s) => s!" | {id} {s.n} " ++ obsView strIO (getSortedView strIO.cmp s).2
    | none => ""))

/-- `tend`: every coin vector; leaves as a sorted multiset (coin labels are not printed) -/
def treeObs (P : Params) (fl : Flags) (ops : List (List String)) (maxLeaves : Nat) : String :=
  let t := histT P fl ops []
  if CT.leaves t > maxLeaves then s!"T overflow" else
  let ls := (CT.leafList t).map (fun p => s!"L {p.1.length}" ++ leafViews p.2)
  let sorted := (ls.toArray.qsort (· < ·)).toList
  s!"T {ls.length}" ++ String.join (sorted.map (fun l => " ; " ++ l))

def capsLine (P : Params) (k L : Nat) : String :=
  s!"K {computeTotalCapacity P k L}" ++ String.join ((List.range L).map (fun h => s!" {levelCapacity P k L h}"))

def stepLine (P : Params) (E : ErrConsts) (fl : Flags) (dflt : String) (st : St) (w : List String) : St × String :=
  match st.recording, w with
  | some r, "tend" :: rest =>
    let maxLeaves := (rest.head?.bind String.toNat?).getD 4096
    ({ st with recording := none }, treeObs P fl r.reverse maxLeaves)
  | some r, _ => ({ st with recording := some (w :: r) }, "rec")
  | none, ["tbegin"] => ({ st with recording := some [] }, "rec")
  | none, ["coins", bits] => ({ st with coins := { bits := parseBits bits, used := st.coins.used } }, "ok")
  | none, ["consts"] => (st, dflt)
  | none, ["cap", k, L] =>
    match k.toNat?, L.toNat? with
    | some k, some L => (st, capsLine P k L)
    | _, _ => (st, "bad-op")
  | none, "q" :: id :: q =>
    match id.toNat? with
    | some id => match st.get id with
      | some o => let r := queryObj E fl o q; ({ st with objs := putObj st.objs id r.1 }, r.2)
      | none => (st, "bad-op")
    | none => (st, "bad-op")
  | none, _ =>
    let r := (opT P fl st.objs w).run st.coins
    ({ st with objs := r.1.1, coins := r.2 }, if r.1.2.startsWith "S " then r.1.2 ++ s!" F {r.2.used}" else r.1.2)

end DS.Kll

/-
The compaction MECHANISM shared by the coin-driven quantile sketches, as micro-operations on a list of
levels (index = height, weight of level h is 2^h):  `add x` puts an item into level 0;
`compact i srt up` compacts level `i` with a fresh coin: odd leftover stays (first item), the rest is
optionally sorted, halved (`up`: randomly_halve_up, else randomly_halve_down) and merged into level i+1
(created when `i` is the top level).  `sumAll` sums the weight of the items satisfying `p` over ALL coin
vectors.  Generic in the item type; `p` is "below y" (inclusive or exclusive) in the applications.
Core Lean only.
-/
import DSModel.Kll.Sketch
namespace DS.Mech
open DS DS.Kll

variable {α : Type}

inductive MOp (α : Type) where
  | add (x : α)
  | compact (i : Nat) (srt : Bool) (up : Bool)

/-- number of items satisfying `p` -/
def cnt (p : α → Bool) (l : List α) : Nat := (l.filter p).length

/-- weight of the items satisfying `p`, levels from height `h` upwards -/
def wb (p : α → Bool) : Nat → List (List α) → Nat
  | _, [] => 0
  | h, l :: t => 2 ^ h * cnt p l + wb p (h + 1) t

/-- the half that moves up -/
def halfUpDown (adj : List α) (up coin : Bool) : List α := if up then halveUp adj coin else halveDown adj coin

/-- compaction of level `i` (i < L.length) -/
def compactCore (lt : α → α → Bool) (L : List (List α)) (i : Nat) (srt up coin : Bool) : List (List α) :=
  let L' := if i + 1 == L.length then L ++ [[]] else L
  (L'.set i (leftoverOf (L'.getD i []))).set (i + 1)
    (mergeUp lt (halfUpDown (adjOf lt srt (L'.getD i [])) up coin) (L'.getD (i + 1) []))

/-- one micro-step; the coin is used only by `compact` -/
def mstep (lt : α → α → Bool) (L : List (List α)) : MOp α → Bool → List (List α)
  | .add x, _ => (x :: L.headD []) :: L.tail
  | .compact i srt up, coin => compactCore lt L i srt up coin

def valid (len : Nat) : MOp α → Bool
  | .add _ => len > 0
  | .compact i _ _ => i < len

/-- number of levels after a micro-step (coin independent) -/
def lenAfter (len : Nat) : MOp α → Nat
  | .add _ => len
  | .compact i _ _ => if i + 1 == len then len + 1 else len

def validAll : Nat → List (MOp α) → Bool
  | _, [] => true
  | len, op :: ops => valid len op && validAll (lenAfter len op) ops

def flips : List (MOp α) → Nat
  | [] => 0
  | .add _ :: ops => flips ops
  | .compact _ _ _ :: ops => flips ops + 1

def addedBelow (p : α → Bool) : List (MOp α) → Nat
  | [] => 0
  | .add x :: ops => (if p x then 1 else 0) + addedBelow p ops
  | .compact _ _ _ :: ops => addedBelow p ops

/-- (Σ over all coin vectors of `wb p 0`, number of coin vectors) -/
def sumAll (lt : α → α → Bool) (p : α → Bool) : List (List α) → List (MOp α) → Nat × Nat
  | L, [] => (wb p 0 L, 1)
  | L, .add x :: ops => sumAll lt p (mstep lt L (.add x) false) ops
  | L, .compact i srt up :: ops =>
    let a := sumAll lt p (mstep lt L (.compact i srt up) false) ops
    let b := sumAll lt p (mstep lt L (.compact i srt up) true) ops
    (a.1 + b.1, a.2 + b.2)

/-- run a schedule against an explicit coin sequence (one coin per `compact`) -/
def mrun (lt : α → α → Bool) : List (List α) → List (MOp α) → List Bool → List (List α)
  | L, [], _ => L
  | L, .add x :: ops, cs => mrun lt (mstep lt L (.add x) false) ops cs
  | L, .compact i srt up :: ops, cs => mrun lt (mstep lt L (.compact i srt up) (cs.headD false)) ops cs.tail

end DS.Mech

/- C19: several live objects of the hand-managed classes over ONE heap, and the lifecycle operations on them
   (construct / update / merge by reference and by move / copy / move / copy-assign / move-assign / query /
   serialize / reset / destroy).  `step` returns
     `Err.pre`  when some primitive was applied outside its precondition (what the theorems exclude),
     `Err.exc`  when the modelled C++ code throws,
     `Err.bad`  when the history itself is ill-formed (unknown object, use of a moved-from object other than
                destroying it or assigning to it, id already in use). -/
import DSModel.Life.Theta
import DSModel.Life.Kll
import DSModel.Life.Fi
namespace DS.Life

inductive Obj where
  | table (t : Theta.Table)
  | kll (s : Kll.Sketch)
  | fi (s : Fi.Sketch)
deriving Inhabited

structure Entry where
  id : Nat
  usable : Bool       -- false: moved-from (may only be destroyed or assigned to)
  obj : Obj
deriving Inhabited

structure Cfg where
  theta : Theta.Params
  kll : Kll.Params
  fi : Fi.Params
  thetaMaxLgK : Nat
  comb : Nat → Nat → Nat     -- tuple policy: update of an existing summary

structure World where
  heap : Heap
  objs : List Entry
deriving Inhabited

def World.init : World := { heap := Heap.empty, objs := [] }

inductive Op where
  | newTable (id lgK rf theta0 : Nat)
  | newKll (id k : Nat)
  | newFi (id lgMax lgStart : Nat)
  | update (id a b : Nat) (coins : List Bool)
  | copy (src dst : Nat)
  | move (src dst : Nat)
  | copyAssign (dst src : Nat)
  | moveAssign (dst src : Nat)
  | merge (dst src : Nat) (byMove : Bool) (coins : List Bool)
  | query (id arg : Nat)
  | serialize (id : Nat)
  | roundTrip (src dst : Nat)
  | trim (id : Nat)
  | reset (id : Nat)
  | destroy (id : Nat)
deriving Repr

def World.lookup (w : World) (id : Nat) : Option Entry := w.objs.find? (fun e => e.id == id)
def World.remove (w : World) (id : Nat) : List Entry := w.objs.filter (fun e => e.id != id)
def World.put (objs : List Entry) (e : Entry) : List Entry := e :: objs.filter (fun x => x.id != e.id)

/-- run a heap program on the world's heap -/
def runM {α} (w : World) (m : M α) : Except Err (α × Heap) := m w.heap

def getUsable (w : World) (id : Nat) : Except Err Entry :=
  match w.lookup id with
  | none => .error (.bad "no such object")
  | some e => if e.usable then .ok e else .error (.bad "operation on a moved-from object")

def getAny (w : World) (id : Nat) : Except Err Entry :=
  match w.lookup id with
  | none => .error (.bad "no such object")
  | some e => .ok e

def fresh (w : World) (id : Nat) : Except Err Unit :=
  match w.lookup id with
  | none => .ok ()
  | some _ => .error (.bad "object id already in use")

def Obj.dtor : Obj → M Unit
  | .table t => Theta.dtor t
  | .kll s => Kll.dtor s
  | .fi s => Fi.dtor s.map

def Obj.copyCtor : Obj → M Obj
  | .table t => do let t' ← Theta.copyCtor t; pure (.table t')
  | .kll s => do let s' ← Kll.copyCtor s; pure (.kll s')
  | .fi s => do let m ← Fi.copyCtor s.map; pure (.fi { s with map := m })

/-- move constructor: (new, moved-from source) -/
def Obj.moveCtor : Obj → M (Obj × Obj)
  | .table t => let r := Theta.moveCtor t; pure (.table r.1, .table r.2)
  | .kll s => do let r ← Kll.moveCtor s; pure (.kll r.1, .kll r.2)
  | .fi s => let r := Fi.moveCtor s.map; pure (.fi { s with map := r.1 }, .fi { s with map := r.2 })

/-- `dst = src` for two different objects of the same class -/
def Obj.copyAssign : Obj → Obj → M Obj
  | .table t, .table o => do let t' ← Theta.copyAssign t o; pure (.table t')
  | .kll t, .kll o => do let t' ← Kll.copyAssign t o; pure (.kll t')
  | .fi t, .fi o => do let m ← Fi.copyAssign t.map o.map; pure (.fi { o with map := m })
  | _, _ => fail (.bad "assignment between different classes")

/-- `dst = std::move(src)` for two different objects: (dst, src) -/
def Obj.moveAssign (kllResetsSource : Bool) : Obj → Obj → M (Obj × Obj)
  | .table t, .table o => let r := Theta.moveAssign t o; pure (.table r.1, .table r.2)
  | .kll t, .kll o => do let r ← Kll.moveAssign kllResetsSource t o; pure (.kll r.1, .kll r.2)
  | .fi t, .fi o => let r := Fi.moveAssign t.map o.map; pure (.fi { o with map := r.1 }, .fi { o with map := r.2 })
  | _, _ => fail (.bad "assignment between different classes")

/-- `a = std::move(a)` -/
def Obj.selfMoveAssign : Obj → M Obj
  | .kll s => do let s' ← Kll.selfMoveAssign s; pure (.kll s')
  | o => pure o

def okW (w : World) (h : Heap) (objs : List Entry) : Except Err World := .ok { w with heap := h, objs := objs }

def step (C : Cfg) (w : World) : Op → Except Err World
  | .newTable id lgK rf theta0 => do
    fresh w id
    if lgK < C.theta.minLgK ∨ lgK > C.thetaMaxLgK ∨ rf > 3 then .error (.bad "lg_k / rf out of range") else
    let lgCur := Theta.startingSubMultiple (lgK + 1) C.theta.minLgK rf
    let (t, h) ← runM w (Theta.ctor lgCur lgK rf theta0)
    okW w h (World.put w.objs { id, usable := true, obj := .table t })
  | .newKll id k => do
    fresh w id
    let (s, h) ← runM w (Kll.ctor C.kll k)
    okW w h (World.put w.objs { id, usable := true, obj := .kll s })
  | .newFi id lgMax lgStart => do
    fresh w id
    let (s, h) ← runM w (Fi.Sketch.ctor C.fi lgMax lgStart)
    okW w h (World.put w.objs { id, usable := true, obj := .fi s })
  | .update id a b coins => do
    let e ← getUsable w id
    match e.obj with
    | .table t =>
      let (t', h) ← runM w (Theta.update C.theta t a b C.comb)
      okW w h (World.put w.objs { e with obj := .table t' })
    | .kll s =>
      let (r, h) ← runM w (Kll.update s a coins)
      okW w h (World.put w.objs { e with obj := .kll r.1 })
    | .fi s =>
      let (s', h) ← runM w (Fi.Sketch.update C.fi s (.ext a) b)
      okW w h (World.put w.objs { e with obj := .fi s' })
  | .copy src dst => do
    let e ← getUsable w src
    fresh w dst
    let (o, h) ← runM w e.obj.copyCtor
    okW w h (World.put w.objs { id := dst, usable := true, obj := o })
  | .move src dst => do
    let e ← getUsable w src
    fresh w dst
    let (r, h) ← runM w e.obj.moveCtor
    okW w h (World.put (World.put w.objs { e with usable := false, obj := r.2 }) { id := dst, usable := true, obj := r.1 })
  | .copyAssign dst src => do
    let d ← getAny w dst
    let s ← getUsable w src
    -- `a = a` goes through the same code: copy, swap, destroy the temporary
    let (o, h) ← runM w (d.obj.copyAssign s.obj)
    okW w h (World.put w.objs { d with usable := true, obj := o })
  | .moveAssign dst src => do
    let d ← getAny w dst
    let s ← getUsable w src
    if dst = src then
      let (o, h) ← runM w d.obj.selfMoveAssign
      okW w h (World.put w.objs { d with obj := o })
    else
      let (r, h) ← runM w (d.obj.moveAssign C.kll.moveAssignResetsSource s.obj)
      okW w h (World.put (World.put w.objs { s with usable := false, obj := r.2 }) { d with usable := true, obj := r.1 })
  | .merge dst src byMove coins => do
    let d ← getUsable w dst
    let s ← getUsable w src
    if dst = src then .error (.bad "self merge") else
    match d.obj, s.obj with
    | .kll a, .kll b =>
      let (r, h) ← runM w (Kll.mergeChecked a b byMove coins)
      okW w h (World.put (World.put w.objs { s with usable := !byMove }) { d with obj := .kll r.1 })
    | .fi a, .fi b =>
      let (r, h) ← runM w (Fi.Sketch.merge C.fi a b byMove)
      okW w h (World.put (World.put w.objs { s with usable := !byMove }) { d with obj := .fi r })
    | _, _ => .error (.bad "merge: unsupported class")
  | .query id arg => do
    let e ← getUsable w id
    match e.obj with
    | .table _ => .ok w
    | .kll s =>
      let (s', h) ← runM w (Kll.query s)
      okW w h (World.put w.objs { e with obj := .kll s' })
    | .fi s =>
      let (_, h) ← runM w (Fi.get C.fi s.map arg)
      okW w h w.objs
  | .serialize id => do
    let e ← getUsable w id
    match e.obj with
    | .table t =>
      let (_, h) ← runM w (Theta.serializeCompact t)
      okW w h w.objs
    | .kll s =>
      let (_, h) ← runM w (Kll.serialize s)
      okW w h w.objs
    | .fi s =>
      let (_, h) ← runM w (Fi.Sketch.serialize C.fi s)
      okW w h w.objs
  | .roundTrip src dst => do
    let e ← getUsable w src
    fresh w dst
    match e.obj with
    | .table _ => .error (.bad "round trip: unsupported class")
    | .kll s =>
      let (s', h) ← runM w (Kll.roundTrip C.kll s)
      okW w h (World.put w.objs { id := dst, usable := true, obj := .kll s' })
    | .fi s =>
      let (s', h) ← runM w (Fi.Sketch.roundTrip C.fi s)
      okW w h (World.put w.objs { id := dst, usable := true, obj := .fi s' })
  | .trim id => do
    let e ← getUsable w id
    match e.obj with
    | .table t =>
      let (t', h) ← runM w (Theta.trim C.theta t)
      okW w h (World.put w.objs { e with obj := .table t' })
    | _ => .error (.bad "trim: unsupported class")
  | .reset id => do
    let e ← getUsable w id
    match e.obj with
    | .table t =>
      let (t', h) ← runM w (Theta.reset C.theta t)
      okW w h (World.put w.objs { e with obj := .table t' })
    | _ => .error (.bad "reset: unsupported class")
  | .destroy id => do
    let e ← getAny w id
    let (_, h) ← runM w e.obj.dtor
    okW w h (w.remove id)

/-- a whole history -/
def run (C : Cfg) : World → List Op → Except Err World
  | w, [] => .ok w
  | w, op :: ops => do let w' ← step C w op; run C w' ops

end DS.Life

/- C19: `reverse_purge_hash_map<K, V, H, E, A>` (+ the thin `frequent_items_sketch` around it) as programs over
   the heap calculus, mirroring fi/include/reverse_purge_hash_map_impl.hpp line by line.
   `keys_` is a block of kind `item` (non-trivial K: lifetime managed by hand), `values_` (u64) and `states_`
   (u16) are blocks of trivial element type: only their `word`s are used. -/
import DSModel.Life.Heap
namespace DS.Life.Fi

structure Params where
  loadNum : Nat          -- LOAD_FACTOR = loadNum / loadDen
  loadDen : Nat
  driftLimit : Nat
  maxSample : Nat
  lgMinMap : Nat
  hashOf : Nat → Nat     -- fmix64(H()(key))
  strideOf : Nat → Nat   -- iterator stride for a table of lg size: (2^lg * golden ratio reciprocal) | 1

structure Map where
  lgCur : Nat
  lgMax : Nat
  numActive : Nat
  keys : Option Nat
  values : Option Nat
  states : Option Nat
deriving Repr, Inhabited

/-- where the key of an `adjust_or_insert` comes from: a temporary of the caller, or a slot of another
    block by const reference / by rvalue reference -/
inductive KeySrc where
  | ext (v : Nat)
  | copyOf (b i : Nat)
  | moveOf (b i : Nat)
deriving Repr

def getCapacity (P : Params) (lgCur : Nat) : Nat := 2 ^ lgCur * P.loadNum / P.loadDen

def fill0 (b size : Nat) : M Unit := loopUp (fun i => writeWord b i 0) size 0

/-- constructor -/
def ctor (lgCur lgMax : Nat) : M Map := do
  let size := 2 ^ lgCur
  let k ← alloc .item size
  let v ← alloc .u64 size
  let s ← alloc .u16 size
  fill0 s size
  pure { lgCur, lgMax, numActive := 0, keys := some k, values := some v, states := some s }

/-- the copy loop of the copy constructor: `if (--num == 0) break;` -/
def copyLoop (ok ov os k v : Nat) : (fuel : Nat) → (i : Nat) → (num : Nat) → M Unit
  | 0, _, _ => pure ()
  | f + 1, i, num => do
    let st ← readWord os i
    if st > 0 then
      copyConstruct ok i k i
      let w ← readWord ov i
      writeWord v i w
      if num - 1 = 0 then pure () else copyLoop ok ov os k v f (i + 1) (num - 1)
    else copyLoop ok ov os k v f (i + 1) num

/-- copy constructor -/
def copyCtor (o : Map) : M Map := do
  let size := 2 ^ o.lgCur
  let k ← alloc .item size
  let v ← alloc .u64 size
  let s ← alloc .u16 size
  if o.numActive > 0 then
    let ok ← deref o.keys
    let ov ← deref o.values
    let os ← deref o.states
    copyLoop ok ov os k v size 0 o.numActive
  -- std::copy(other.states_, other.states_ + size, states_)
  let os ← deref o.states
  loopUp (fun i => do let w ← readWord os i; writeWord s i w) size 0
  pure { o with keys := some k, values := some v, states := some s }

/-- move constructor: (new object, moved-from source) -/
def moveCtor (o : Map) : Map × Map :=
  (o, { o with keys := none, values := none, states := none, numActive := 0 })

/-- destructor loop: `if (is_active(i)) { keys_[i].~K(); if (--num_active_ == 0) break; }` -/
def dtorLoop (k s : Nat) : (fuel : Nat) → (i : Nat) → (num : Nat) → M Unit
  | 0, _, _ => pure ()
  | f + 1, i, num => do
    let st ← readWord s i
    if st > 0 then
      destroy k i
      if num - 1 = 0 then pure () else dtorLoop k s f (i + 1) (num - 1)
    else dtorLoop k s f (i + 1) num

/-- destructor -/
def dtor (m : Map) : M Unit := do
  let size := 2 ^ m.lgCur
  if m.numActive > 0 then
    let k ← deref m.keys
    let s ← deref m.states
    dtorLoop k s size 0 m.numActive
  match m.keys with
  | some k => dealloc k size
  | none => pure ()
  match m.values with
  | some v => dealloc v size
  | none => pure ()
  match m.states with
  | some s => dealloc s size
  | none => pure ()

/-- copy assignment (copy and swap; the temporary dies with the old state) -/
def copyAssign (t o : Map) : M Map := do
  let copy ← copyCtor o
  dtor t
  pure copy

/-- move assignment (member-wise swap): (this, other) -/
def moveAssign (t o : Map) : Map × Map := (o, t)

/-- `internal_adjust_or_insert(key, value)`: (index, inserted-a-new-key?) ; `kv` is the key's value -/
def probeLoop (P : Params) (k v s size kv value : Nat) : (fuel : Nat) → (index drift : Nat) → M (Nat × Bool × Nat)
  | 0, _, _ => throwExc "probe loop bound"
  | f + 1, index, drift => do
    let st ← readWord s index
    if st > 0 then
      let kk ← read k index
      if kk = kv then
        let w ← readWord v index
        writeWord v index (w + value)
        pure (index, false, drift)
      else if drift + 1 ≥ P.driftLimit then throwExc "drift limit reached"
      else probeLoop P k v s size kv value f ((index + 1) % size) (drift + 1)
    else pure (index, true, drift)

/-- `hash_delete(delete_index)` inner loop -/
def deleteLoop (P : Params) (k v s size : Nat) : (fuel : Nat) → (deleteIndex probe drift : Nat) → M Unit
  | 0, _, _, _ => throwExc "probe loop bound"
  | f + 1, deleteIndex, probe, drift => do
    let st ← readWord s probe
    if st > 0 then
      if st > drift then
        moveConstruct k probe k deleteIndex
        let w ← readWord v probe
        writeWord v deleteIndex w
        writeWord s deleteIndex (st - drift)
        writeWord s probe 0
        destroy k probe
        if 1 ≥ P.driftLimit then throwExc "drift limit" else
        deleteLoop P k v s size f probe ((probe + 1) % size) 1
      else
        if drift + 1 ≥ P.driftLimit then throwExc "drift limit" else
        deleteLoop P k v s size f deleteIndex ((probe + 1) % size) (drift + 1)
    else pure ()

def hashDelete (P : Params) (k v s size deleteIndex : Nat) : M Unit := do
  writeWord s deleteIndex 0
  destroy k deleteIndex
  deleteLoop P k v s size size deleteIndex ((deleteIndex + 1) % size) 1

/-- one step of `subtract_and_keep_positive_only`; returns the new num_active -/
def subtractStep (P : Params) (k v s size amount : Nat) (probe : Nat) (numActive : Nat) : M Nat := do
  let st ← readWord s probe
  if st > 0 then
    let w ← readWord v probe
    if w ≤ amount then
      hashDelete P k v s size probe
      pure (numActive - 1)
    else
      writeWord v probe (w - amount)
      pure numActive
  else pure numActive

/-- `while (is_active(first_probe)) first_probe--;` -/
def firstProbeLoop (s : Nat) : (fuel : Nat) → (p : Nat) → M Nat
  | 0, _ => throwExc "probe loop bound"
  | f + 1, p => do
    let st ← readWord s p
    if st > 0 then
      if p = 0 then fail (.pre "first_probe underflow: no empty cell in the table") else firstProbeLoop s f (p - 1)
    else pure p

/-- downward fold: `for (probe = start + cnt; probe-- > start;) acc = body(probe, acc)` -/
def foldDown {σ : Type} (body : Nat → σ → M σ) : (cnt : Nat) → (start : Nat) → σ → M σ
  | 0, _, a => pure a
  | c + 1, st, a => do let a' ← body (st + c) a; foldDown body c st a'

def subtractAndKeepPositiveOnly (P : Params) (k v s size amount numActive : Nat) : M Nat := do
  let firstProbe ← firstProbeLoop s size (size - 1)
  let na ← foldDown (subtractStep P k v s size amount) firstProbe 0 numActive
  foldDown (subtractStep P k v s size amount) (size - firstProbe) firstProbe na

/-- sampling loop of `purge()`: `while (num_samples < limit) { if (is_active(i)) samples[num_samples++] = values_[i]; i++; }` -/
def sampleLoop (v s sm limit : Nat) : (fuel : Nat) → (i num : Nat) → M Unit
  | 0, _, _ => pure ()
  | f + 1, i, num =>
    if num < limit then do
      let st ← readWord s i
      if st > 0 then
        let w ← readWord v i
        writeWord sm num w
        sampleLoop v s sm limit f (i + 1) (num + 1)
      else sampleLoop v s sm limit f (i + 1) num
    else pure ()

def insertNat (x : Nat) : List Nat → List Nat
  | [] => [x]
  | y :: ys => if x ≤ y then x :: y :: ys else y :: insertNat x ys

def sortNat (l : List Nat) : List Nat := l.foldr insertNat []

/-- read the words of a whole block (for the median) -/
def readWords (b n : Nat) : M (List Nat) :=
  foldUp (fun i acc => do let w ← readWord b i; pure (acc ++ [w])) n 0 []

/-- `purge()`: returns (median, new num_active) -/
def purge (P : Params) (m : Map) (k v s : Nat) : M (Nat × Nat) := do
  let size := 2 ^ m.lgCur
  let limit := min P.maxSample m.numActive
  let sm ← alloc .u64 limit
  sampleLoop v s sm limit (size + 1) 0 0
  let ws ← readWords sm limit
  -- std::nth_element(samples, samples + num/2, samples + num); median = samples[num/2]
  let median := (sortNat ws).getD (limit / 2) 0
  dealloc sm limit
  let na ← subtractAndKeepPositiveOnly P k v s size median m.numActive
  pure (median, na)

/-- place the key into `keys_[index]`: `new (&keys_[index]) K(std::forward<FwdK>(key))` -/
def placeKey (k index : Nat) : KeySrc → M Unit
  | .ext kv => construct k index kv
  | .copyOf b i => copyConstruct b i k index
  | .moveOf b i => moveConstruct b i k index

def keyValue : KeySrc → M Nat
  | .ext kv => pure kv
  | .copyOf b i => read b i
  | .moveOf b i => read b i

/-- `adjust_or_insert` on a table that cannot need a resize (used by `resize` for re-insertion, and the first
    half of the general one): returns (map, inserted?) -/
def adjustOrInsertNoGrow (P : Params) (m : Map) (src : KeySrc) (value : Nat) : M (Map × Bool) := do
  let k ← deref m.keys
  let v ← deref m.values
  let s ← deref m.states
  let size := 2 ^ m.lgCur
  let kv ← keyValue src
  let r ← probeLoop P k v s size kv value size (P.hashOf kv % size) 1
  if r.2.1 then
    -- adding the key and value to the table
    if m.numActive > getCapacity P m.lgCur then throwExc "num_active > capacity" else
    writeWord v r.1 value
    writeWord s r.1 r.2.2
    placeKey k r.1 src
    pure ({ m with numActive := m.numActive + 1 }, true)
  else pure (m, false)

/-- `resize(lg_new_size)`; the re-insertions go through `adjust_or_insert` (which would recurse into
    `resize_or_purge_if_needed`; that call cannot fire in a table twice as large, the model throws if it would). -/
def resize (P : Params) (m : Map) (lgNew : Nat) : M Map := do
  let oldSize := 2 ^ m.lgCur
  let ok ← deref m.keys
  let ov ← deref m.values
  let os ← deref m.states
  let newSize := 2 ^ lgNew
  let k ← alloc .item newSize
  let v ← alloc .u64 newSize
  let s ← alloc .u16 newSize
  fill0 s newSize
  let m0 : Map := { m with keys := some k, values := some v, states := some s, numActive := 0, lgCur := lgNew }
  let m1 ← foldUp (fun i (mm : Map) => do
      let st ← readWord os i
      if st > 0 then
        let w ← readWord ov i
        let r ← adjustOrInsertNoGrow P mm (.moveOf ok i) w
        if r.1.numActive > getCapacity P r.1.lgCur then throwExc "nested resize/purge during resize" else
        destroy ok i
        pure r.1
      else pure mm) oldSize 0 m0
  dealloc ok oldSize
  dealloc ov oldSize
  dealloc os oldSize
  pure m1

/-- `resize_or_purge_if_needed()`: (map, offset) -/
def resizeOrPurgeIfNeeded (P : Params) (m : Map) : M (Map × Nat) := do
  if m.numActive > getCapacity P m.lgCur then
    if m.lgCur < m.lgMax then
      let m' ← resize P m (m.lgCur + 1)
      pure (m', 0)
    else
      let k ← deref m.keys
      let v ← deref m.values
      let s ← deref m.states
      let r ← purge P m k v s
      if r.2 > getCapacity P m.lgCur then throwExc "purge did not reduce number of active items" else
      pure ({ m with numActive := r.2 }, r.1)
  else pure (m, 0)

/-- `adjust_or_insert(key, value)`: (map, offset) -/
def adjustOrInsert (P : Params) (m : Map) (src : KeySrc) (value : Nat) : M (Map × Nat) := do
  let r ← adjustOrInsertNoGrow P m src value
  if r.2 then resizeOrPurgeIfNeeded P r.1 else pure (r.1, 0)

/-- `get(key)` -/
def getLoop (k v s size kv : Nat) : (fuel : Nat) → (probe : Nat) → M Nat
  | 0, _ => throwExc "probe loop bound"
  | f + 1, probe => do
    let st ← readWord s probe
    if st > 0 then
      let kk ← read k probe
      if kk = kv then readWord v probe else getLoop k v s size kv f ((probe + 1) % size)
    else pure 0

def get (P : Params) (m : Map) (kv : Nat) : M Nat := do
  let k ← deref m.keys
  let v ← deref m.values
  let s ← deref m.states
  let size := 2 ^ m.lgCur
  getLoop k v s size kv (size + 1) (P.hashOf kv % size)

/-! ### iteration (`begin()`, `operator++`): the list of active indices in iterator order -/
def firstActive (s size : Nat) : (fuel : Nat) → (i : Nat) → M Nat
  | 0, i => pure i
  | f + 1, i =>
    if i < size then do
      let st ← readWord s i
      if st > 0 then pure i else firstActive s size f (i + 1)
    else pure i

def nextActive (s size str : Nat) : (fuel : Nat) → (index : Nat) → M Nat
  | 0, _ => throwExc "iterator loop bound"
  | f + 1, index => do
    let ix := (index + str) % size
    let st ← readWord s ix
    if st > 0 then pure ix else nextActive s size str f ix

/-- `for (auto it : map) body(index)`; the body may not change the iterated map's states -/
def iterLoop {σ : Type} (s size str numActive : Nat) (body : Nat → σ → M σ) : (fuel : Nat) → (index count : Nat) → σ → M σ
  | 0, _, _, a => pure a
  | f + 1, index, count, a =>
    if count < numActive then do
      let a' ← body index a
      if count + 1 < numActive then
        let ix ← nextActive s size str size index
        iterLoop s size str numActive body f ix (count + 1) a'
      else pure a'
    else pure a

def forEachActive {σ : Type} (P : Params) (m : Map) (body : Nat → σ → M σ) (a : σ) : M σ := do
  if m.numActive = 0 then pure a else
  let s ← deref m.states
  let size := 2 ^ m.lgCur
  let i0 ← firstActive s size size 0
  iterLoop s size (P.strideOf m.lgCur) m.numActive body m.numActive i0 0 a

/-! ### the sketch around the map -/
structure Sketch where
  map : Map
  totalWeight : Nat
  offset : Nat
deriving Repr, Inhabited

def Sketch.ctor (P : Params) (lgMax lgStart : Nat) : M Sketch := do
  let m ← Fi.ctor (max lgStart P.lgMinMap) (max lgMax P.lgMinMap)
  if lgStart > lgMax then
    -- the constructor body throws after the member `map` was built: stack unwinding destroys it
    Fi.dtor m
    throwExc "starting size must not be greater than maximum size"
  else pure { map := m, totalWeight := 0, offset := 0 }

def Sketch.update (P : Params) (s : Sketch) (src : KeySrc) (w : Nat) : M Sketch := do
  if w = 0 then pure s else
  let r ← adjustOrInsert P s.map src w
  pure { map := r.1, totalWeight := s.totalWeight + w, offset := s.offset + r.2 }

/-- `merge(const&)` / `merge(&&)` -/
def Sketch.merge (P : Params) (s o : Sketch) (byMove : Bool) : M Sketch := do
  if o.map.numActive = 0 then pure s else
  let ok ← deref o.map.keys
  let ov ← deref o.map.values
  let mergedTotal := s.totalWeight + o.totalWeight
  let s' ← forEachActive P o.map (fun i (acc : Sketch) => do
      let w ← readWord ov i
      Sketch.update P acc (if byMove then .moveOf ok i else .copyOf ok i) w) s
  pure { s' with offset := s'.offset + o.offset, totalWeight := mergedTotal }

/-- `serialize(header_size, sd)`: temporary `weights` and `items` arrays -/
def Sketch.serialize (P : Params) (s : Sketch) : M Unit := do
  let n := s.map.numActive
  if n = 0 then pure () else
  let k ← deref s.map.keys
  let v ← deref s.map.values
  let weights ← alloc .u64 n
  let items ← alloc .item n
  let _ ← forEachActive P s.map (fun i (j : Nat) => do
      copyConstruct k i items j
      let w ← readWord v i
      writeWord weights j w
      pure (j + 1)) 0
  dealloc weights n
  loopUp (fun i => do let _ ← read items i; pure ()) n 0   -- sd.serialize reads every item
  loopUp (fun i => destroy items i) n 0
  dealloc items n

/-- `deserialize(serialize(s))`: builds a new sketch from the image of `s` -/
def Sketch.roundTrip (P : Params) (s : Sketch) : M Sketch := do
  let n := s.map.numActive
  let d ← Sketch.ctor P s.map.lgMax s.map.lgCur
  if n = 0 then pure d else
  let k ← deref s.map.keys
  let v ← deref s.map.values
  -- the image holds items and weights in iteration order
  let img ← forEachActive P s.map (fun i (acc : List (Nat × Nat)) => do
      let kv ← read k i
      let w ← readWord v i
      pure (acc ++ [(kv, w)])) []
  let weights ← alloc .u64 n      -- std::vector<W, AllocW> weights(num_items, 0, allocator)
  let items ← alloc .item n
  loopUp (fun i => construct items i ((img.getD i (0, 0)).1)) n 0   -- sd.deserialize
  let d' ← foldUp (fun i (acc : Sketch) => Sketch.update P acc (.moveOf items i) ((img.getD i (0, 0)).2)) n 0 d
  -- items_deleter(num, destroy = true)
  loopUp (fun i => destroy items i) n 0
  dealloc items n
  dealloc weights n
  pure { d' with totalWeight := s.totalWeight, offset := s.offset }

end DS.Life.Fi

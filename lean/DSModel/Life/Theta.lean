/- C19: `theta_update_sketch_base<Entry, ExtractKey, Allocator>` (the hash table of update theta / tuple
   sketches) as programs over the heap calculus, mirroring theta_update_sketch_base_impl.hpp line by line.
   The key field of an entry is the cell's `word` (the code reads and writes it through `EK()(entries_[i])`
   whatever the lifetime state of the entry is, and uses key = 0 as "slot is raw"); the lifetime state of the
   whole entry (key + summary) is the cell's `Slot`, the summary the value `v`. -/
import DSModel.Life.Heap
namespace DS.Life.Theta

/-- tunables, from the current headers through DSGen -/
structure Params where
  rszNum : Nat
  rszDen : Nat
  rbdNum : Nat
  rbdDen : Nat
  strideBits : Nat
  minLgK : Nat
deriving Repr

/-- the data members of `theta_update_sketch_base` (allocator_, p_, seed_ play no role in the bookkeeping;
    `theta0` is `starting_theta_from_p(p_)`) -/
structure Table where
  entries : Option Nat
  lgCur : Nat
  lgNom : Nat
  rf : Nat
  num : Nat
  theta : Nat
  theta0 : Nat
  isEmpty : Bool
deriving Repr, Inhabited

/-- `get_capacity(lg_cur_size, lg_nom_size)` -/
def capacity (P : Params) (lgCur lgNom : Nat) : Nat :=
  if lgCur ≤ lgNom then P.rszNum * 2 ^ lgCur / P.rszDen else P.rbdNum * 2 ^ lgCur / P.rbdDen

/-- `get_stride(key, lg_size)` -/
def stride (P : Params) (key lg : Nat) : Nat := 2 * ((key / 2 ^ lg) % 2 ^ P.strideBits) + 1

/-- `starting_sub_multiple(lg_tgt, lg_min, lg_rf)` -/
def startingSubMultiple (lgTgt lgMin lgRf : Nat) : Nat :=
  if lgTgt ≤ lgMin then lgMin else if lgRf = 0 then lgTgt else (lgTgt - lgMin) % lgRf + lgMin

/-! entry-level helpers: `new (dst) EN(src)` copies/moves the summary and the key -/
def constructEntry (b i key v : Nat) : M Unit := do
  construct b i v
  writeWord b i key

def copyConstructEntry (sb si db di : Nat) : M Unit := do
  let v ← read sb si
  let k ← readWord sb si
  construct db di v
  writeWord db di k

def moveConstructEntry (sb si db di : Nat) : M Unit := do
  let v ← moveFrom sb si
  let k ← readWord sb si
  construct db di v
  writeWord db di k

/-- `for (i = 0; i < size; ++i) EK()(entries[i]) = 0;` -/
def zeroKeys (b size : Nat) : M Unit := loopUp (fun i => writeWord b i 0) size 0

/-- constructor -/
def ctor (lgCur lgNom rf theta0 : Nat) : M Table := do
  if lgCur > 0 then
    let size := 2 ^ lgCur
    let b ← alloc .entry size
    zeroKeys b size
    pure { entries := some b, lgCur, lgNom, rf, num := 0, theta := theta0, theta0, isEmpty := true }
  else
    pure { entries := none, lgCur, lgNom, rf, num := 0, theta := theta0, theta0, isEmpty := true }

/-- copy constructor -/
def copyCtor (o : Table) : M Table :=
  match o.entries with
  | none => pure { o with entries := none }
  | some ob => do
    let size := 2 ^ o.lgCur
    let b ← alloc .entry size
    loopUp (fun i => do
      let k ← readWord ob i
      if k ≠ 0 then copyConstructEntry ob i b i
      else writeWord b i 0) size 0
    pure { o with entries := some b }

/-- move constructor: returns (new object, moved-from source) -/
def moveCtor (o : Table) : Table × Table := (o, { o with entries := none })

/-- destructor -/
def dtor (t : Table) : M Unit :=
  match t.entries with
  | none => pure ()
  | some b => do
    let size := 2 ^ t.lgCur
    loopUp (fun i => do
      let k ← readWord b i
      if k ≠ 0 then destroy b i) size 0
    dealloc b size

/-- copy assignment: copy-and-swap; the temporary (holding the old state) is destroyed at scope exit -/
def copyAssign (t o : Table) : M Table := do
  let copy ← copyCtor o
  dtor t
  pure copy

/-- move assignment: member-wise swap; returns (this, other) -/
def moveAssign (t o : Table) : Table × Table := (o, t)

/-- `find(entries, lg_size, key)`: (index, found) -/
def findLoop (b size str key : Nat) : (fuel : Nat) → (index : Nat) → M (Nat × Bool)
  | 0, _ => throwExc "key not found and no empty slots!"
  | f + 1, index => do
    let probe ← readWord b index
    if probe = 0 then pure (index, false)
    else if probe = key then pure (index, true)
    else findLoop b size str key f ((index + str) % size)

def find (P : Params) (b lg key : Nat) : M (Nat × Bool) :=
  findLoop b (2 ^ lg) (stride P key lg) key (2 ^ lg) (key % 2 ^ lg)

/-- `consolidate_non_empty(entries, size, num)`: first loop finds the first empty slot … -/
def firstEmpty (b : Nat) : (fuel : Nat) → (i : Nat) → M Nat
  | 0, i => pure i
  | f + 1, i => do
    let k ← readWord b i
    if k = 0 then pure i else firstEmpty b f (i + 1)

/-- … second loop moves non-empty entries to the front (`i` is the fill position; `break` when `i == num`). -/
def consolidateLoop (b num : Nat) : (fuel : Nat) → (j : Nat) → (i : Nat) → M Unit
  | 0, _, _ => pure ()
  | f + 1, j, i => do
    let k ← readWord b j
    if k ≠ 0 then
      moveConstructEntry b j b i
      destroy b j
      writeWord b j 0
      if i + 1 = num then pure () else consolidateLoop b num f (j + 1) (i + 1)
    else consolidateLoop b num f (j + 1) i

def consolidate (b size num : Nat) : M Unit := do
  let i ← firstEmpty b size 0
  consolidateLoop b num (size - (i + 1)) (i + 1) i

/-- `std::nth_element(entries, entries + nth, entries + num, comparator())`: needs every element of the range
    alive; leaves a permutation of the range (here: the sorted one – any other admissible outcome has the same
    lifetime states and the same multiset of entries). -/
def nthElement (b num : Nat) : M Unit := fun h =>
  match h.find? b with
  | none => .error (.pre "nth_element: no such block")
  | some B =>
    if num ≤ B.cells.length ∧ (B.cells.take num).all (fun c => match c.st with | .live _ => true | _ => false) then
      .ok ((), h.setCells b ((B.cells.take num).mergeSort (fun x y => x.word ≤ y.word) ++ B.cells.drop num))
    else .error (.pre "nth_element over a range holding a raw or moved-from slot")

/-- `resize()` -/
def resize (P : Params) (t : Table) : M Table := do
  let b ← deref t.entries
  let oldSize := 2 ^ t.lgCur
  let lgNew := min (t.lgCur + t.rf) (t.lgNom + 1)
  let newSize := 2 ^ lgNew
  let nb ← alloc .entry newSize
  zeroKeys nb newSize
  loopUp (fun i => do
    let key ← readWord b i
    if key ≠ 0 then
      let r ← find P nb lgNew key
      moveConstructEntry b i nb r.1
      destroy b i
      writeWord b i 0) oldSize 0
  dealloc b oldSize
  pure { t with entries := some nb, lgCur := lgNew }

/-- `rebuild()` -/
def rebuild (P : Params) (t : Table) : M Table := do
  let b ← deref t.entries
  let size := 2 ^ t.lgCur
  let nominal := 2 ^ t.lgNom
  consolidate b size t.num
  nthElement b t.num
  let theta ← readWord b nominal
  let nb ← alloc .entry size
  zeroKeys nb size
  loopUp (fun i => do
    let key ← readWord b i
    let r ← find P nb t.lgCur key
    moveConstructEntry b i nb r.1
    destroy b i) nominal 0
  loopUp (fun i => destroy b i) (t.num - nominal) nominal
  dealloc b size
  pure { t with entries := some nb, num := nominal, theta := theta }

/-- `insert(it, entry)` -/
def insert (P : Params) (t : Table) (idx key v : Nat) : M Table := do
  let b ← deref t.entries
  constructEntry b idx key v
  let t := { t with num := t.num + 1 }
  if t.num > capacity P t.lgCur t.lgNom then
    if t.lgCur ≤ t.lgNom then resize P t else rebuild P t
  else pure t

/-- `trim()` -/
def trim (P : Params) (t : Table) : M Table :=
  if t.num > 2 ^ t.lgNom then rebuild P t else pure t

/-- `reset()` -/
def reset (P : Params) (t : Table) : M Table := do
  let b ← deref t.entries
  let curSize := 2 ^ t.lgCur
  loopUp (fun i => do
    let k ← readWord b i
    if k ≠ 0 then
      destroy b i
      writeWord b i 0) curSize 0
  let startLg := startingSubMultiple (t.lgNom + 1) P.minLgK t.rf
  if startLg ≠ t.lgCur then
    dealloc b curSize
    let newSize := 2 ^ startLg
    let nb ← alloc .entry newSize
    zeroKeys nb newSize
    pure { t with entries := some nb, lgCur := startLg, num := 0, theta := t.theta0, isEmpty := true }
  else
    pure { t with num := 0, theta := t.theta0, isEmpty := true }

/-- `update_tuple_sketch::update(key, value)` after hashing: `hash_and_screen`, `find`, then either
    `insert(Entry(hash, summary))` or `policy.update(existing summary, value)` (an assignment in place).
    `comb old v` is what the policy makes of an existing summary. -/
def update (P : Params) (t : Table) (hash v : Nat) (comb : Nat → Nat → Nat) : M Table := do
  let t := { t with isEmpty := false }
  if hash ≥ t.theta ∨ hash = 0 then pure t
  else
    let b ← deref t.entries
    let r ← find P b t.lgCur hash
    if r.2 then
      let old ← read b r.1
      assign b r.1 (comb old v)
      pure t
    else insert P t r.1 hash v

/-- `compact(ordered).serialize(…)`: the temporary compact sketch holds a `std::vector<Entry>` with
    `reserve(num_entries)` (one block of exactly that many entries, none when 0), copies of the entries in slot
    order, reads them, and dies. -/
def serializeCompact (t : Table) : M Unit := do
  if t.num = 0 then pure () else
  let b ← deref t.entries
  let vb ← alloc .entry t.num
  let _ ← foldUp (fun i (j : Nat) => do
      let k ← readWord b i
      if k ≠ 0 then
        copyConstructEntry b i vb j
        pure (j + 1)
      else pure j) (2 ^ t.lgCur) 0 0
  loopUp (fun i => do let _ ← read vb i; pure ()) t.num 0
  loopUp (fun i => destroy vb i) t.num 0
  dealloc vb t.num

end DS.Life.Theta

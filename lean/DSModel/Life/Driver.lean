/- C19 model driver: op lines -> `Life.Op`, one observation line per op (what the tracking allocator and the
   instrumented item type of harness/life_h.cpp log for the same op). Core Lean only. -/
import DSModel.Life.World
import DSModel.Canon
import DSModel.Util
namespace DS.Life

def Slot.ch : Slot → Char
  | .raw => 'r' | .live _ => 'L' | .moved => 'm'

/-- run-length encoding of the slot states of a block, e.g. `3r5L` -/
def rle (cs : List Cell) : String :=
  let rec go : List Cell → Option (Char × Nat) → String → String
    | [], none, acc => acc
    | [], some (c, n), acc => acc ++ toString n ++ c.toString
    | x :: xs, none, acc => go xs (some (x.st.ch, 1)) acc
    | x :: xs, some (c, n), acc =>
      if x.st.ch = c then go xs (some (c, n + 1)) acc else go xs (some (x.st.ch, 1)) (acc ++ toString n ++ c.toString)
  let s := go cs none ""
  if s.isEmpty then "0r" else s

def insertStr (x : String) : List String → List String
  | [] => [x]
  | y :: ys => if x ≤ y then x :: y :: ys else y :: insertStr x ys

def sortStr (l : List String) : List String := l.foldr insertStr []

def joinOrDash (l : List String) : String := if l.isEmpty then "-" else ",".intercalate (sortStr l)

def nonRaw (cs : List Cell) : Nat := (cs.filter (fun c => c.st != .raw)).length

/-- the compared part of an observation line.  Theta tables (kind `entry`): slot positions depend on the order
    `std::nth_element` leaves (implementation defined), so only the number of live slots is printed. -/
def observe (h : Heap) : String :=
  let evs := h.log
  let allocs := evs.filterMap fun e => match e with | .alloc k n => if k != .inl then some s!"{k.name}*{n}" else none | _ => none
  let frees := evs.filterMap fun e => match e with | .free k n => if k != .inl then some s!"{k.name}*{n}" else none | _ => none
  let c := (evs.filter fun e => match e with | .ctor _ k => k != .inl | _ => false).length
  let d := (evs.filter fun e => match e with | .dtor _ k => k != .inl | _ => false).length
  let live := (h.blocks.filter (fun B => B.kind != .inl)).map fun B =>
    s!"{B.kind.name}*{B.cells.length}:{nonRaw B.cells}:{if B.kind != .entry then rle B.cells else "*"}"
  let out := ((h.blocks.filter (fun B => B.kind == .inl)).map (fun B => nonRaw B.cells)).foldl (· + ·) 0
  s!"A={joinOrDash allocs} F={joinOrDash frees} C={c} D={d} L={joinOrDash live} O={out}"

def parseCoins (s : String) : List Bool := s.toList.filterMap fun c => if c = '1' then some true else if c = '0' then some false else none

def natOf (s : String) : Nat := s.toNat?.getD 0

/-- op line -> Op (needs the world to know the class of the target for `upd`) -/
def parseOp (w : World) (ws : List String) : Option Op :=
  match ws with
  | ["new", "tup", id, lgk, rf, _p, theta0] => some (.newTable (natOf id) (natOf lgk) (natOf rf) (natOf theta0))
  | ["new", "kll", id, k] => some (.newKll (natOf id) (natOf k))
  | ["new", "fi", id, lgmax, lgstart] => some (.newFi (natOf id) (natOf lgmax) (natOf lgstart))
  | "upd" :: id :: a :: b :: rest =>
    let coins := match rest with | c :: _ => parseCoins c | [] => []
    match w.lookup (natOf id) with
    | some { obj := .table _, .. } =>
      -- update(uint64_t key, value): the table sees compute_hash(key, seed) = murmur h1 >> 1
      match DS.thetaHash (.u64 (natOf a)) DS.DEFAULT_SEED with
      | some hsh => some (.update (natOf id) hsh (natOf b) coins)
      | none => none
    | _ => some (.update (natOf id) (natOf a) (natOf b) coins)
  | ["copy", s, d] => some (.copy (natOf s) (natOf d))
  | ["move", s, d] => some (.move (natOf s) (natOf d))
  | ["cassign", d, s] => some (.copyAssign (natOf d) (natOf s))
  | ["massign", d, s] => some (.moveAssign (natOf d) (natOf s))
  | "merge" :: d :: s :: rest => some (.merge (natOf d) (natOf s) false (match rest with | c :: _ => parseCoins c | [] => []))
  | "mergemv" :: d :: s :: rest => some (.merge (natOf d) (natOf s) true (match rest with | c :: _ => parseCoins c | [] => []))
  | ["query", id, arg] => some (.query (natOf id) (natOf arg))
  | ["ser", id] => some (.serialize (natOf id))
  | ["serde", s, d] => some (.roundTrip (natOf s) (natOf d))
  | ["trim", id] => some (.trim (natOf id))
  | ["reset", id] => some (.reset (natOf id))
  | ["destroy", id] => some (.destroy (natOf id))
  | _ => none

def stepLine (C : Cfg) (w : World) (ws : List String) : World × String :=
  match ws with
  | "alloc" :: _ => (w, "cfg")     -- allocator instances are not modelled (one heap)
  | "serdecut" :: _ => (w, "throw")  -- a truncated image is rejected; the error paths leave the heap as it was
  | ["end"] =>
    -- end of history: everything must have been returned
    (w, s!"end blocks={w.heap.blocks.length} objs={w.objs.length}")
  | _ =>
  match parseOp w ws with
  | none => (w, "bad-op")
  | some op =>
    let w0 : World := { w with heap := w.heap.clearLog }
    match step C w0 op with
    | .ok w' => (w', "ok " ++ observe w'.heap)
    | .error (.exc _) => (w0, "throw")
    | .error (.pre m) => (w0, "PRE " ++ m)
    | .error (.bad m) => (w0, "bad " ++ m)

end DS.Life

/- C19: `kll_sketch<T, C, A>` + `kll_helper` as programs over the heap calculus, mirroring
   kll/include/kll_sketch_impl.hpp and kll_helper_impl.hpp line by line.
   `items_` is a block of kind `item`; `levels_` (a std::vector<uint32_t>) is a plain list with checked
   indexing; `min_item_`/`max_item_` (optional<T> members) are cells 0/1 of the object's own storage block
   `self` (kind `inl`: not allocator memory – raw = disengaged); `sorted_view_` is a block of kind `view`. -/
import DSModel.Life.Heap
namespace DS.Life.Kll

structure Params where
  defaultM : Nat
  minK : Nat
  maxK : Nat
  /-- shape of `operator=(kll_sketch&&)` in the current header (DSGen `life_kll_MOVE_ASSIGN_SHAPE = 2`): the source's cached
      sorted view is released too -/
  moveAssignResetsSource : Bool := false

structure Sketch where
  self : Nat
  k : Nat
  m : Nat
  minK : Nat
  numLevels : Nat
  lvl0Sorted : Bool
  n : Nat
  levels : List Nat
  items : Option Nat
  itemsSize : Nat
  view : Option Nat
deriving Repr, Inhabited

/-! ### kll_helper: capacities -/
def intCapAuxAux (k depth : Nat) : Nat := ((2 * k * 2 ^ depth) / 3 ^ depth + 1) / 2

def intCapAux (k depth : Nat) : Nat :=
  if depth ≤ 30 then intCapAuxAux k depth
  else
    let half := depth / 2
    let rest := depth - half
    intCapAuxAux (intCapAuxAux k half) rest

/-- `level_capacity(k, numLevels, height, min_wid)` (height < numLevels) -/
def levelCapacity (k numLevels height minWid : Nat) : Nat :=
  max minWid (intCapAux k (numLevels - height - 1))

/-- `compute_total_capacity(k, m, num_levels)` -/
def computeTotalCapacity (k m numLevels : Nat) : Nat :=
  ((List.range numLevels).map (fun h => levelCapacity k numLevels h m)).foldl (· + ·) 0

def floorLog2Loop (numer : Nat) : (fuel : Nat) → (denom count : Nat) → Nat
  | 0, _, c => c
  | f + 1, denom, c => if 2 * denom > numer then c else floorLog2Loop numer f (2 * denom) (c + 1)

/-- `ub_on_num_levels(n)` -/
def ubOnNumLevels (n : Nat) : Nat :=
  if n = 0 then 1 else 1 + (if 1 > n then 0 else floorLog2Loop n 64 1 0)

/-! ### checked access to `levels_` -/
def lv (ls : List Nat) (i : Nat) : M Nat :=
  match ls[i]? with
  | some x => pure x
  | none => fail (.pre "levels index out of range")

def setLv (ls : List Nat) (i x : Nat) : M (List Nat) :=
  if i < ls.length then pure (ls.set i x) else fail (.pre "levels index out of range")

/-- `levels_.resize(n)` when `levels_.size() < n` -/
def growLevels (ls : List Nat) (n : Nat) : List Nat :=
  if ls.length < n then ls ++ List.replicate (n - ls.length) 0 else ls

/-! ### coins (`random_bit()`), supplied by the history -/
def nextCoin : List Bool → Nat × List Bool
  | [] => (0, [])
  | c :: cs => ((if c then 1 else 0), cs)

/-! ### in-place primitives on one block -/

/-- `if (i != j) buf[i] = std::move(buf[j]);` -/
def moveAssignNe (b j i : Nat) : M Unit := if i = j then pure () else moveAssignSlot b j b i

/-- `std::sort(buf + lo, buf + lo + n, comparator)`: every element of the range must be live; leaves the
    sorted permutation. -/
def sortRange (b lo n : Nat) : M Unit := fun h =>
  match h.find? b with
  | none => .error (.pre "sort: no such block")
  | some B =>
    let seg := (B.cells.drop lo).take n
    if lo + n ≤ B.cells.length ∧ seg.all (fun c => match c.st with | .live _ => true | _ => false) then
      let key := fun (c : Cell) => match c.st with | .live v => v | _ => 0
      .ok ((), h.setCells b (B.cells.take lo ++ seg.mergeSort (fun x y => key x ≤ key y) ++ B.cells.drop (lo + n)))
    else .error (.pre "sort over a range holding a raw or moved-from slot")

/-- `randomly_halve_down(buf, start, length)` with the given offset -/
def halveDown (b start length offset : Nat) : M Unit :=
  if length % 2 ≠ 0 then throwExc "length must be even" else
  loopUp (fun i => moveAssignNe b (start + offset + 2 * (i - start)) i) (length / 2) start

/-- `randomly_halve_up(buf, start, length)` with the given offset -/
def halveUp (b start length offset : Nat) : M Unit :=
  if length % 2 ≠ 0 then throwExc "length must be even" else
  -- i runs from start+length-1 down to start+half; j = start+length-1-offset - 2*(start+length-1-i)
  loopDown (fun i => moveAssignNe b ((start + length - 1 - offset) - 2 * ((start + length - 1) - i)) i) (length / 2) (start + length / 2)

/-- in-place `merge_sorted_arrays(buf, start_a, len_a, start_b, len_b, start_c)` -/
def mergeInPlaceLoop (bf limA limB : Nat) : (fuel : Nat) → (a b c : Nat) → M (Nat × Nat)
  | 0, a, b, _ => pure (a, b)
  | f + 1, a, b, c => do
    if a = limA then
      moveAssignNe bf b c
      mergeInPlaceLoop bf limA limB f a (b + 1) (c + 1)
    else if b = limB then
      moveAssignNe bf a c
      mergeInPlaceLoop bf limA limB f (a + 1) b (c + 1)
    else
      let va ← read bf a
      let vb ← read bf b
      if va < vb then
        moveAssignNe bf a c
        mergeInPlaceLoop bf limA limB f (a + 1) b (c + 1)
      else
        moveAssignNe bf b c
        mergeInPlaceLoop bf limA limB f a (b + 1) (c + 1)

def mergeInPlace (bf startA lenA startB lenB startC : Nat) : M Unit := do
  let r ← mergeInPlaceLoop bf (startA + lenA) (startB + lenB) (lenA + lenB) startA startB startC
  if r.1 ≠ startA + lenA ∨ r.2 ≠ startB + lenB then throwExc "inconsistent state" else pure ()

/-- three-buffer `merge_sorted_arrays(buf_a, …, buf_b, …, buf_c, start_c)`: items of `a` are transferred and
    destroyed (`std::move` of a `const T&`: a copy), items of `b` are copied -/
def mergeIntoLoop (ba limA bb limB bc : Nat) : (fuel : Nat) → (a b c : Nat) → M (Nat × Nat)
  | 0, a, b, _ => pure (a, b)
  | f + 1, a, b, c => do
    if a = limA then
      copyConstruct bb b bc c
      mergeIntoLoop ba limA bb limB bc f a (b + 1) (c + 1)
    else if b = limB then
      copyConstruct ba a bc c
      destroy ba a
      mergeIntoLoop ba limA bb limB bc f (a + 1) b (c + 1)
    else
      let va ← read ba a
      let vb ← read bb b
      if va < vb then
        copyConstruct ba a bc c
        destroy ba a
        mergeIntoLoop ba limA bb limB bc f (a + 1) b (c + 1)
      else
        copyConstruct bb b bc c
        mergeIntoLoop ba limA bb limB bc f a (b + 1) (c + 1)

def mergeInto (ba startA lenA bb startB lenB bc startC : Nat) : M Unit := do
  let r ← mergeIntoLoop ba (startA + lenA) bb (startB + lenB) bc (lenA + lenB) startA startB startC
  if r.1 ≠ startA + lenA ∨ r.2 ≠ startB + lenB then throwExc "inconsistent state" else pure ()

/-- `move_construct(src, first, last, dst, dst_first, destroy = true)` -/
def moveConstructRange (sb first last db dstFirst : Nat) : M Unit :=
  loopUp (fun i => do
    moveConstruct sb i db (dstFirst + (i - first))
    destroy sb i) (last - first) first

/-! ### optional<T> members (cells of the object's own storage) -/
def engaged (b i : Nat) : M Bool := fun h =>
  match h.cell? b i with
  | none => .error (.pre "optional: object storage is gone")
  | some c => .ok ((match c.st with | .raw => false | _ => true), h)

/-- optional copy constructor -/
def optCopyCtor (sb si db di : Nat) : M Unit := do
  if (← engaged sb si) then copyConstruct sb si db di else pure ()

/-- optional move constructor (the source stays engaged, holding a moved-from value) -/
def optMoveCtor (sb si db di : Nat) : M Unit := do
  if (← engaged sb si) then moveConstruct sb si db di else pure ()

/-- `~optional()` / `reset()` -/
def optReset (b i : Nat) : M Unit := do
  if (← engaged b i) then destroy b i else pure ()

/-- `std::swap(a, b)` on optionals (same final states for std::optional::swap and for the generic
    move-construct / move-assign / move-assign sequence on datasketches::optional) -/
def optSwap (ab ai bb bi : Nat) : M Unit := do
  let ea ← engaged ab ai
  let eb ← engaged bb bi
  if ea ∧ eb then
    -- both engaged: the values are exchanged through a temporary
    fun h => match h.cell? ab ai, h.cell? bb bi with
      | some ca, some cb => .ok ((), (h.setCell ab ai { ca with st := cb.st }).setCell bb bi { cb with st := ca.st })
      | _, _ => .error (.pre "optional: object storage is gone")
  else if ea then do
    let st ← moveFromAny ab ai
    constructSt bb bi st
    destroy ab ai
  else if eb then do
    let st ← moveFromAny bb bi
    constructSt ab ai st
    destroy bb bi
  else pure ()

/-! ### sorted view -/
def resetSortedView (s : Sketch) : M Sketch :=
  match s.view with
  | some v => do dealloc v 1; pure { s with view := none }
  | none => pure s

/-! ### special members -/

/-- `kll_sketch(k, comparator, allocator)` -/
def ctor (P : Params) (k : Nat) : M Sketch := do
  if k < P.minK ∨ k > P.maxK then throwExc "K must be >= MIN_K and <= MAX_K" else
  let self ← alloc .inl 2
  let items ← alloc .item k
  pure { self, k, m := P.defaultM, minK := k, numLevels := 1, lvl0Sorted := false, n := 0, levels := [k, k],
         items := some items, itemsSize := k, view := none }

/-- copy constructor -/
def copyCtor (o : Sketch) : M Sketch := do
  let self ← alloc .inl 2
  optCopyCtor o.self 0 self 0
  optCopyCtor o.self 1 self 1
  let items ← alloc .item o.itemsSize
  let l0 ← lv o.levels 0
  let lN ← lv o.levels o.numLevels
  let ob ← deref o.items
  loopUp (fun i => copyConstruct ob i items i) (lN - l0) l0
  pure { o with self, items := some items, view := none }

/-- move constructor: (new object, moved-from source) -/
def moveCtor (o : Sketch) : M (Sketch × Sketch) := do
  let self ← alloc .inl 2
  optMoveCtor o.self 0 self 0
  optMoveCtor o.self 1 self 1
  pure ({ o with self, view := none }, { o with levels := [], items := none })

/-- destructor -/
def dtor (s : Sketch) : M Unit := do
  match s.items with
  | some b =>
    let l0 ← lv s.levels 0
    let lN ← lv s.levels s.numLevels
    loopUp (fun i => destroy b i) (lN - l0) l0
    dealloc b s.itemsSize
  | none => pure ()
  let _ ← resetSortedView s
  optReset s.self 1
  optReset s.self 0
  dealloc s.self 2

/-- copy assignment: copy, member-wise swap (not `sorted_view_`), reset own view, temporary dies -/
def copyAssign (t o : Sketch) : M Sketch := do
  let copy ← copyCtor o
  optSwap t.self 0 copy.self 0
  optSwap t.self 1 copy.self 1
  let t' ← resetSortedView { copy with self := t.self, view := t.view }
  dtor { t with self := copy.self, view := none }
  pure t'

/-- move assignment, the part common to all shapes: member-wise swap (not `sorted_view_`), reset own view: (this, other).
    (Whether the own view is released before or after the swaps makes no difference in a model with one heap.) -/
def moveAssignCore (t o : Sketch) : M (Sketch × Sketch) := do
  optSwap t.self 0 o.self 0
  optSwap t.self 1 o.self 1
  let t' ← resetSortedView { o with self := t.self, view := t.view }
  pure (t', { t with self := o.self, view := o.view })

/-- move assignment `t = std::move(o)`; `resetSrc`: `other.reset_sorted_view()` is part of it (the repaired shape: the
    source receives this object's state and allocator, its cached view would be stale and foreign) -/
def moveAssign (resetSrc : Bool) (t o : Sketch) : M (Sketch × Sketch) := do
  let o ← if resetSrc then resetSortedView o else pure o
  moveAssignCore t o

/-- `a = std::move(a)`: every member swapped with itself -/
def selfMoveAssign (t : Sketch) : M Sketch := resetSortedView t

/-! ### update path -/

/-- `find_level_to_compact()` -/
def findLevelToCompact (s : Sketch) : (fuel : Nat) → (level : Nat) → M Nat
  | 0, _ => throwExc "capacity calculation error"
  | f + 1, level => do
    if level ≥ s.numLevels then throwExc "capacity calculation error" else
    let a ← lv s.levels level
    let b ← lv s.levels (level + 1)
    if b - a ≥ levelCapacity s.k s.numLevels level s.m then pure level
    else findLevelToCompact s f (level + 1)

/-- `add_empty_top_level_to_completely_full_sketch()` -/
def addEmptyTopLevel (s : Sketch) : M Sketch := do
  let curTotalCap ← lv s.levels s.numLevels
  let l0 ← lv s.levels 0
  if l0 ≠ 0 then throwExc "full sketch expected" else
  if s.itemsSize ≠ curTotalCap then throwExc "current capacity mismatch" else
  let levels := growLevels s.levels (s.numLevels + 2)
  let deltaCap := levelCapacity s.k (s.numLevels + 1) 0 s.m
  let newTotalCap := curTotalCap + deltaCap
  let newBuf ← alloc .item newTotalCap
  let items ← deref s.items
  moveConstructRange items 0 curTotalCap newBuf deltaCap
  dealloc items s.itemsSize
  let levels ← foldUp (fun i (ls : List Nat) => do let x ← lv ls i; setLv ls i (x + deltaCap)) (s.numLevels + 1) 0 levels
  let top ← lv levels s.numLevels
  if top ≠ newTotalCap then throwExc "new capacity mismatch" else
  let levels ← setLv levels (s.numLevels + 1) newTotalCap
  pure { s with items := some newBuf, itemsSize := newTotalCap, levels, numLevels := s.numLevels + 1 }

/-- `compress_while_updating()` -/
def compressWhileUpdating (s : Sketch) (coins : List Bool) : M (Sketch × List Bool) := do
  let level ← findLevelToCompact s (s.numLevels + 1) 0
  let s ← if level = s.numLevels - 1 then addEmptyTopLevel s else pure s
  let items ← deref s.items
  let rawBeg ← lv s.levels level
  let rawLim ← lv s.levels (level + 1)
  let top ← lv s.levels (level + 2)
  let popAbove := top - rawLim
  let rawPop := rawLim - rawBeg
  let oddPop := rawPop % 2 = 1
  let adjBeg := if oddPop then rawBeg + 1 else rawBeg
  let adjPop := if oddPop then rawPop - 1 else rawPop
  let halfAdjPop := adjPop / 2
  let destroyBeg ← lv s.levels 0
  if level = 0 ∧ !s.lvl0Sorted then sortRange items adjBeg adjPop
  let (coin, coins) := nextCoin coins
  if popAbove = 0 then
    halveUp items adjBeg adjPop coin
  else
    halveDown items adjBeg adjPop coin
    mergeInPlace items adjBeg halfAdjPop rawLim popAbove (adjBeg + halfAdjPop)
  let above ← lv s.levels (level + 1)
  let levels ← setLv s.levels (level + 1) (above - halfAdjPop)
  let levels ← if oddPop then do
      let l1 ← lv levels (level + 1)
      let levels ← setLv levels level (l1 - 1)
      if l1 - 1 ≠ rawBeg then moveAssignSlot items rawBeg items (l1 - 1)
      pure levels
    else do
      let l1 ← lv levels (level + 1)
      setLv levels level l1
  let cur ← lv levels level
  if cur ≠ rawBeg + halfAdjPop then throwExc "compaction error" else
  let levels ← if level > 0 then do
      let l0 ← lv levels 0
      let amount := rawBeg - l0
      -- std::move_backward(items_ + l0, items_ + l0 + amount, items_ + l0 + halfAdjPop + amount)
      loopDown (fun i => moveAssignSlot items i items (i + halfAdjPop)) amount l0
      foldUp (fun lvl (ls : List Nat) => do let x ← lv ls lvl; setLv ls lvl (x + halfAdjPop)) level 0 levels
    else pure levels
  loopUp (fun i => destroy items i) halfAdjPop destroyBeg
  pure ({ s with levels }, coins)

/-- `internal_update()`: (sketch, index) -/
def internalUpdate (s : Sketch) (coins : List Bool) : M (Sketch × Nat × List Bool) := do
  let l0 ← lv s.levels 0
  let (s, coins) ← if l0 = 0 then compressWhileUpdating s coins else pure (s, coins)
  let l0 ← lv s.levels 0
  if l0 = 0 then fail (.pre "--levels_[0] underflow") else
  let levels ← setLv s.levels 0 (l0 - 1)
  pure ({ s with levels, n := s.n + 1, lvl0Sorted := false }, l0 - 1, coins)

/-- `update(item)` -/
def update (s : Sketch) (v : Nat) (coins : List Bool) : M (Sketch × List Bool) := do
  -- update_min_max
  if s.n = 0 then
    construct s.self 0 v
    construct s.self 1 v
  else
    let mn ← read s.self 0
    if v < mn then assign s.self 0 v
    let mx ← read s.self 1
    if mx < v then assign s.self 1 v
  let (s, index, coins) ← internalUpdate s coins
  let items ← deref s.items
  construct items index v
  let s ← resetSortedView s
  pure (s, coins)

/-! ### merge -/

def safeLevelSize (s : Sketch) (level : Nat) : M Nat :=
  if level ≥ s.numLevels then pure 0 else do
    let a ← lv s.levels level
    let b ← lv s.levels (level + 1)
    pure (b - a)

def numRetained (s : Sketch) : M Nat := do
  let a ← lv s.levels 0
  let b ← lv s.levels s.numLevels
  pure (b - a)

/-- construct `dst[di]` from `other.items_[i]` by copy or by move (`conditional_forward`) -/
def fwdConstruct (byMove : Bool) (sb si db di : Nat) : M Unit :=
  if byMove then moveConstruct sb si db di else copyConstruct sb si db di

/-- `populate_work_arrays(other, workbuf, worklevels, provisional_num_levels)` -/
def populateWorkArrays (s o : Sketch) (byMove : Bool) (workbuf : Nat) (worklevels : List Nat) (provisional : Nat) : M (List Nat) := do
  let items ← deref s.items
  let worklevels ← setLv worklevels 0 0
  let l0 ← lv s.levels 0
  let l1 ← lv s.levels 1
  moveConstructRange items l0 l1 workbuf 0
  let sz0 ← safeLevelSize s 0
  let worklevels ← setLv worklevels 1 sz0
  foldUp (fun lvl (wl : List Nat) => do
    let selfPop ← safeLevelSize s lvl
    let otherPop ← safeLevelSize o lvl
    let base ← lv wl lvl
    let wl ← setLv wl (lvl + 1) (base + selfPop + otherPop)
    if selfPop > 0 ∧ otherPop = 0 then
      let a ← lv s.levels lvl
      moveConstructRange items a (a + selfPop) workbuf base
    else if selfPop = 0 ∧ otherPop > 0 then
      let oi ← deref o.items
      let a ← lv o.levels lvl
      loopUp (fun i => fwdConstruct byMove oi i workbuf (base + (i - a))) otherPop a
    else if selfPop > 0 ∧ otherPop > 0 then
      let oi ← deref o.items
      let a ← lv s.levels lvl
      let b ← lv o.levels lvl
      mergeInto items a selfPop oi b otherPop workbuf base
    pure wl) (provisional - 1) 1 worklevels

structure CompressResult where
  finalNumLevels : Nat
  finalCapacity : Nat
  finalNumItems : Nat

structure GcState where
  inLevels : List Nat
  outLevels : List Nat
  curNumLevels : Nat
  curItemCount : Nat
  target : Nat
  coins : List Bool

/-- the `while (!done_yet)` loop of `general_compress` -/
def generalCompressLoop (k m : Nat) (items : Nat) (lvl0Sorted : Bool) : (fuel : Nat) → (cl : Nat) → GcState → M GcState
  | 0, _, _ => throwExc "general_compress loop bound"
  | f + 1, cl, g => do
    let inL ← if cl = g.curNumLevels - 1 then do
        let x ← lv g.inLevels (cl + 1)
        setLv g.inLevels (cl + 2) x
      else pure g.inLevels
    let rawBeg ← lv inL cl
    let rawLim ← lv inL (cl + 1)
    let rawPop := rawLim - rawBeg
    let outCl ← lv g.outLevels cl
    let g ← if g.curItemCount < g.target ∨ rawPop < levelCapacity k g.curNumLevels cl m then do
        if rawBeg < outCl then throwExc "wrong move" else
        -- std::move(items + raw_beg, items + raw_lim, items + out_levels[cl])
        if rawBeg ≠ outCl then loopUp (fun i => moveAssignSlot items i items (outCl + (i - rawBeg))) rawPop rawBeg
        let outL ← setLv g.outLevels (cl + 1) (outCl + rawPop)
        pure { g with inLevels := inL, outLevels := outL }
      else do
        let top ← lv inL (cl + 2)
        let popAbove := top - rawLim
        let oddPop := rawPop % 2 = 1
        let adjBeg := if oddPop then rawBeg + 1 else rawBeg
        let adjPop := if oddPop then rawPop - 1 else rawPop
        let halfAdjPop := adjPop / 2
        let outL ← if oddPop then do
            if outCl ≠ rawBeg then moveAssignSlot items rawBeg items outCl
            setLv g.outLevels (cl + 1) (outCl + 1)
          else setLv g.outLevels (cl + 1) outCl
        if cl = 0 ∧ !lvl0Sorted then sortRange items adjBeg adjPop
        let (coin, coins) := nextCoin g.coins
        if popAbove = 0 then
          halveUp items adjBeg adjPop coin
        else
          halveDown items adjBeg adjPop coin
          mergeInPlace items adjBeg halfAdjPop rawLim popAbove (adjBeg + halfAdjPop)
        let x ← lv inL (cl + 1)
        let inL ← setLv inL (cl + 1) (x - halfAdjPop)
        let g := { g with inLevels := inL, outLevels := outL, curItemCount := g.curItemCount - halfAdjPop, coins }
        if cl = g.curNumLevels - 1 then
          pure { g with curNumLevels := g.curNumLevels + 1, target := g.target + levelCapacity k (g.curNumLevels + 1) 0 m }
        else pure g
    if cl = g.curNumLevels - 1 then pure g else generalCompressLoop k m items lvl0Sorted f (cl + 1) g

/-- `general_compress(k, m, num_levels_in, items, in_levels, out_levels, is_level_zero_sorted)` -/
def generalCompress (k m numLevelsIn items : Nat) (inLevels outLevels : List Nat) (lvl0Sorted : Bool) (coins : List Bool) :
    M (CompressResult × List Nat × List Bool) := do
  if numLevelsIn = 0 then throwExc "num_levels_in == 0" else
  let top ← lv inLevels numLevelsIn
  let bot ← lv inLevels 0
  let starting := top - bot
  let outLevels ← setLv outLevels 0 0
  let g ← generalCompressLoop k m items lvl0Sorted (inLevels.length + 1) 0
    { inLevels, outLevels, curNumLevels := numLevelsIn, curItemCount := starting,
      target := computeTotalCapacity k m numLevelsIn, coins }
  let oTop ← lv g.outLevels g.curNumLevels
  let oBot ← lv g.outLevels 0
  if oTop - oBot ≠ g.curItemCount then throwExc "inconsistent state" else
  loopUp (fun i => destroy items i) (starting - g.curItemCount) g.curItemCount
  pure ({ finalNumLevels := g.curNumLevels, finalCapacity := g.target, finalNumItems := g.curItemCount }, g.outLevels, g.coins)

/-- `merge_higher_levels(other, final_n)` -/
def mergeHigherLevels (s o : Sketch) (byMove : Bool) (finalN : Nat) (coins : List Bool) : M (Sketch × List Bool) := do
  let nr ← numRetained s
  let oAbove ← if o.numLevels = 1 then pure 0 else do
      let a ← lv o.levels 1
      let b ← lv o.levels o.numLevels
      pure (b - a)
  let tmpNumItems := nr + oAbove
  let workbuf ← alloc .item tmpNumItems
  let ub := ubOnNumLevels finalN
  let workLevelsSize := ub + 2
  let worklevels := List.replicate workLevelsSize 0
  let outlevels := List.replicate workLevelsSize 0
  let provisional := max s.numLevels o.numLevels
  let worklevels ← populateWorkArrays s o byMove workbuf worklevels provisional
  let (result, outlevels, coins) ← generalCompress s.k s.m provisional workbuf worklevels outlevels s.lvl0Sorted coins
  if result.finalNumLevels > ub then throwExc "merge error" else
  let items ← deref s.items
  let (items, itemsSize) ← if result.finalCapacity ≠ s.itemsSize then do
      dealloc items s.itemsSize
      let nb ← alloc .item result.finalCapacity
      pure (nb, result.finalCapacity)
    else pure (items, s.itemsSize)
  let freeSpaceAtBottom := result.finalCapacity - result.finalNumItems
  let o0 ← lv outlevels 0
  moveConstructRange workbuf o0 (o0 + result.finalNumItems) items freeSpaceAtBottom
  let levels := growLevels s.levels (result.finalNumLevels + 1)
  let offset := freeSpaceAtBottom - o0
  let levels ← foldUp (fun lvl (ls : List Nat) => do let x ← lv outlevels lvl; setLv ls lvl (x + offset)) levels.length 0 levels
  dealloc workbuf tmpNumItems
  pure ({ s with items := some items, itemsSize, levels, numLevels := result.finalNumLevels }, coins)

/-- `sum_the_sample_weights(num_levels, levels)` -/
def sumSampleWeights (numLevels : Nat) (levels : List Nat) : Nat :=
  ((List.range numLevels).map (fun l => 2 ^ l * (levels.getD (l + 1) 0 - levels.getD l 0))).foldl (· + ·) 0

/-- `merge(other)` by const reference (`byMove = false`) or rvalue reference -/
def merge (s o : Sketch) (byMove : Bool) (coins : List Bool) : M (Sketch × List Bool) := do
  if o.n = 0 then pure (s, coins) else
  if s.m ≠ o.m then throwExc "incompatible M" else
  if s.n = 0 then
    fwdConstruct byMove o.self 0 s.self 0
    fwdConstruct byMove o.self 1 s.self 1
  else
    let omn ← read o.self 0
    let mn ← read s.self 0
    if omn < mn then (if byMove then moveAssignSlot o.self 0 s.self 0 else copyAssignSlot o.self 0 s.self 0)
    let mx ← read s.self 1
    let omx ← read o.self 1
    if mx < omx then (if byMove then moveAssignSlot o.self 1 s.self 1 else copyAssignSlot o.self 1 s.self 1)
  let finalN := s.n + o.n
  let ol0 ← lv o.levels 0
  let ol1 ← lv o.levels 1
  let oi ← deref o.items
  let (s, coins) ← foldUp (fun i (acc : Sketch × List Bool) => do
      let (s', index, coins') ← internalUpdate acc.1 acc.2
      let items ← deref s'.items
      fwdConstruct byMove oi i items index
      pure (s', coins')) (ol1 - ol0) ol0 (s, coins)
  -- `merge_higher_levels(other, final_n)` is called with the lvalue `other`: the higher levels of an rvalue
  -- operand are copied, not moved (only min/max and level zero are forwarded)
  let (s, coins) ← if o.numLevels ≥ 2 then mergeHigherLevels s o false finalN coins else pure (s, coins)
  let s := { s with n := finalN, minK := if o.numLevels > 1 then min s.minK o.minK else s.minK }
  if sumSampleWeights s.numLevels s.levels ≠ s.n then throwExc "Total weight does not match N" else
  let s ← resetSortedView s
  pure (s, coins)

/-- `merge` as run in a history: `n_` is a `uint64_t`; a merge whose total weight would not fit is outside the model
    (it ends the story like an exception; no history the harness can afford comes near it) -/
def mergeChecked (s o : Sketch) (byMove : Bool) (coins : List Bool) : M (Sketch × List Bool) :=
  if o.numLevels ≥ 2 ∧ s.n + o.n ≥ 2 ^ 64 then throwExc "n_ would overflow uint64_t" else merge s o byMove coins

/-! ### queries and serialization -/

/-- `get_rank`/`get_quantile`: `setup_sorted_view()` (sorts level zero, reads every retained item) -/
def query (s : Sketch) : M Sketch := do
  if s.n = 0 then pure s else   -- the harness does not query empty sketches (they throw by contract)
  match s.view with
  | some _ => pure s
  | none =>
    let items ← deref s.items
    let l0 ← lv s.levels 0
    let l1 ← lv s.levels 1
    if !s.lvl0Sorted then sortRange items l0 (l1 - l0)
    let lN ← lv s.levels s.numLevels
    loopUp (fun i => do let _ ← read items i; pure ()) (lN - l0) l0
    let v ← alloc .view 1
    pure { s with lvl0Sorted := true, view := some v }

/-- `serialize`: reads min, max and every retained item -/
def serialize (s : Sketch) : M Unit := do
  if s.n = 0 then pure () else
  let items ← deref s.items
  if s.n ≠ 1 then
    let _ ← read s.self 0
    let _ ← read s.self 1
  let l0 ← lv s.levels 0
  let lN ← lv s.levels s.numLevels
  loopUp (fun i => do let _ ← read items i; pure ()) (lN - l0) l0

/-- `deserialize(serialize(s))` (no-throw path): the image holds k, n, min_k, num_levels, levels_[0..num_levels),
    min, max and the retained items -/
def roundTrip (P : Params) (s : Sketch) : M Sketch := do
  if s.n = 0 then ctor P s.k else
  let single := s.n = 1
  let sItems ← deref s.items
  let numLevels := if single then 1 else s.numLevels
  let minK := if single then s.k else s.minK
  let capacity := computeTotalCapacity s.k s.m numLevels
  let levels := List.replicate (numLevels + 1) 0
  let levels ← if single then setLv levels 0 (capacity - 1)
    else foldUp (fun i (ls : List Nat) => do let x ← lv s.levels i; setLv ls i x) numLevels 0 levels
  let levels ← setLv levels numLevels capacity
  let sl0 ← lv s.levels 0
  let self ← alloc .inl 2
  if !single then
    copyConstruct s.self 0 self 0
    copyConstruct s.self 1 self 1
  let buf ← alloc .item capacity
  let l0 ← lv levels 0
  let numItems := capacity - l0
  loopUp (fun i => copyConstruct sItems (sl0 + (i - l0)) buf i) numItems l0    -- sd.deserialize
  if single then
    copyConstruct buf l0 self 0
    copyConstruct buf l0 self 1
  pure { self, k := s.k, m := P.defaultM, minK, numLevels, lvl0Sorted := s.lvl0Sorted, n := s.n, levels,
         items := some buf, itemsSize := capacity, view := none }

end DS.Life.Kll

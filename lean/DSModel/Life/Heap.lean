/- C19 heap / slot-state calculus (DESIGN.md §3 C19).  Core Lean only.

   A `Heap` is a list of allocated blocks.  A block has an id (what a C++ pointer to its first element
   denotes), an element kind, and one `Cell` per element.  A cell has
     * a lifetime state `Slot` (raw storage | a live object holding `v` | a moved-from object), and
     * one plain machine `word` that the code reads and writes regardless of the lifetime state
       (theta tables keep the hash key there and use key = 0 as "this slot is raw"; arrays of trivial
       element types – FI `values_`/`states_` – only use the word and never leave the raw state).
   Every primitive checks its PRECONDITION and returns `Err.pre …` when it does not hold; `Err.exc …`
   is a C++ exception thrown by the modelled code itself (logic_error …), `Err.bad` an ill-formed history.
   The `log` records what the tracking allocator / instrumented item type of the harness would log. -/
namespace DS.Life

inductive Slot where
  | raw
  | live (v : Nat)
  | moved
deriving DecidableEq, Repr, Inhabited

inductive Kind where
  | item | entry | u64 | u32 | u16 | u8 | view | inl
deriving DecidableEq, Repr, Inhabited

def Kind.name : Kind → String
  | .item => "item" | .entry => "entry" | .u64 => "u64" | .u32 => "u32" | .u16 => "u16" | .u8 => "u8" | .view => "view" | .inl => "inl"

structure Cell where
  st : Slot
  word : Nat
deriving DecidableEq, Repr, Inhabited

structure Block where
  id : Nat
  kind : Kind
  cells : List Cell
deriving Repr, Inhabited

def Block.count (B : Block) : Nat := B.cells.length

inductive Ev where
  | alloc (k : Kind) (n : Nat)
  | free (k : Kind) (n : Nat)
  | ctor (b : Nat) (k : Kind)
  | dtor (b : Nat) (k : Kind)
deriving Repr, DecidableEq

inductive Err where
  | pre (msg : String)
  | exc (msg : String)
  | bad (msg : String)
deriving Repr, DecidableEq

structure Heap where
  next : Nat
  blocks : List Block
  log : List Ev
deriving Repr, Inhabited

def Heap.empty : Heap := { next := 0, blocks := [], log := [] }

/-- what uninitialised memory reads as (non-zero on purpose) -/
def poison : Nat := 0xBAADF00D

/-! ### observers -/
def Heap.find? (h : Heap) (b : Nat) : Option Block := h.blocks.find? (fun B => B.id == b)
def Heap.count? (h : Heap) (b : Nat) : Option Nat := (h.find? b).map (·.cells.length)
def Heap.kind? (h : Heap) (b : Nat) : Option Kind := (h.find? b).map (·.kind)
def Heap.cell? (h : Heap) (b i : Nat) : Option Cell := (h.find? b).bind (·.cells[i]?)
def Heap.ids (h : Heap) : List Nat := h.blocks.map (·.id)

/-! ### pure updates -/
def Heap.setCell (h : Heap) (b i : Nat) (c : Cell) : Heap :=
  { h with blocks := h.blocks.map fun B => if B.id = b then { B with cells := B.cells.set i c } else B }

def Heap.setCells (h : Heap) (b : Nat) (cs : List Cell) : Heap :=
  { h with blocks := h.blocks.map fun B => if B.id = b then { B with cells := cs } else B }

def Heap.addLog (h : Heap) (e : Ev) : Heap := { h with log := e :: h.log }

/-! ### the monad of heap programs -/
def M (α : Type) : Type := Heap → Except Err (α × Heap)

@[inline] def M.pure {α} (a : α) : M α := fun h => .ok (a, h)
@[inline] def M.bind {α β} (m : M α) (f : α → M β) : M β := fun h =>
  match m h with
  | .ok (a, h') => f a h'
  | .error e => .error e

instance : Monad M where
  pure := M.pure
  bind := M.bind

def fail {α} (e : Err) : M α := fun _ => .error e
def throwExc {α} (msg : String) : M α := fail (.exc msg)

/-! ### primitives with preconditions -/

/-- `allocator.allocate(n)` for element kind `k`: a fresh block of `n` raw cells. -/
def alloc (k : Kind) (n : Nat) : M Nat := fun h =>
  .ok (h.next, { next := h.next + 1,
                 blocks := { id := h.next, kind := k, cells := List.replicate n ⟨.raw, poison⟩ } :: h.blocks,
                 log := .alloc k n :: h.log })

/-- `allocator.deallocate(p, n)`: the block must exist, `n` must be the allocated count, every cell raw. -/
def dealloc (b n : Nat) : M Unit := fun h =>
  match h.find? b with
  | none => .error (.pre "dealloc: no such block (double free or foreign pointer)")
  | some B =>
    if B.cells.length ≠ n then .error (.pre "dealloc: size mismatch")
    else if B.cells.all (fun c => c.st == .raw) then
      .ok ((), { h with blocks := h.blocks.filter (fun B => B.id != b), log := .free B.kind n :: h.log })
    else .error (.pre "dealloc: block still holds constructed objects (leak)")

/-- placement-new of a value into a raw cell. -/
def construct (b i v : Nat) : M Unit := fun h =>
  match h.cell? b i with
  | none => .error (.pre "construct: no such cell")
  | some c =>
    match c.st with
    | .raw => .ok ((), (h.setCell b i { c with st := .live v }).addLog (.ctor b ((h.kind? b).getD .item)))
    | _ => .error (.pre "construct over a non-raw slot")

/-- explicit destructor call: the cell must hold an object (live or moved-from). -/
def destroy (b i : Nat) : M Unit := fun h =>
  match h.cell? b i with
  | none => .error (.pre "destroy: no such cell")
  | some c =>
    match c.st with
    | .raw => .error (.pre "destroy of a raw slot (double destroy)")
    | _ => .ok ((), (h.setCell b i { c with st := .raw }).addLog (.dtor b ((h.kind? b).getD .item)))

/-- read the value of a live object. -/
def read (b i : Nat) : M Nat := fun h =>
  match h.cell? b i with
  | none => .error (.pre "read: no such cell")
  | some c =>
    match c.st with
    | .live v => .ok (v, h)
    | .raw => .error (.pre "read of a raw slot")
    | .moved => .error (.pre "read of a moved-from slot")

/-- `std::move(x)` consumed by a constructor/assignment: the source must be live and becomes moved-from. -/
def moveFrom (b i : Nat) : M Nat := fun h =>
  match h.cell? b i with
  | none => .error (.pre "move: no such cell")
  | some c =>
    match c.st with
    | .live v => .ok (v, h.setCell b i { c with st := .moved })
    | .raw => .error (.pre "move from a raw slot")
    | .moved => .error (.pre "move from a moved-from slot")

/-- `std::move(x)` of an object that may itself be moved-from (legal C++: the result is again an object with an
    unspecified value, which must never be `read`): returns the state that the destination receives. -/
def moveFromAny (b i : Nat) : M Slot := fun h =>
  match h.cell? b i with
  | none => .error (.pre "move: no such cell")
  | some c =>
    match c.st with
    | .raw => .error (.pre "move from a raw slot")
    | s => .ok (s, h.setCell b i { c with st := .moved })

/-- placement-new from a transferred state (`live v` or `moved`) into a raw cell. -/
def constructSt (b i : Nat) (s : Slot) : M Unit := fun h =>
  match h.cell? b i with
  | none => .error (.pre "construct: no such cell")
  | some c =>
    match c.st with
    | .raw => if s = .raw then .error (.pre "construct from nothing") else
              .ok ((), (h.setCell b i { c with st := s }).addLog (.ctor b ((h.kind? b).getD .item)))
    | _ => .error (.pre "construct over a non-raw slot")

/-- assignment to an existing object (live or moved-from). -/
def assign (b i v : Nat) : M Unit := fun h =>
  match h.cell? b i with
  | none => .error (.pre "assign: no such cell")
  | some c =>
    match c.st with
    | .raw => .error (.pre "assignment to a raw slot")
    | _ => .ok ((), h.setCell b i { c with st := .live v })

/-- plain-memory read of the cell's word (the block must be alive, the index in range). -/
def readWord (b i : Nat) : M Nat := fun h =>
  match h.cell? b i with
  | none => .error (.pre "word read: no such cell (use after free or out of bounds)")
  | some c => .ok (c.word, h)

def writeWord (b i w : Nat) : M Unit := fun h =>
  match h.cell? b i with
  | none => .error (.pre "word write: no such cell (use after free or out of bounds)")
  | some c => .ok ((), h.setCell b i { c with word := w })

/-- dereference of a pointer member. -/
def deref (p : Option Nat) : M Nat :=
  match p with
  | some b => pure b
  | none => fail (.pre "null pointer dereference")

/-! ### derived primitives -/
def copyConstruct (sb si db di : Nat) : M Unit := do
  let v ← read sb si
  construct db di v

def moveConstruct (sb si db di : Nat) : M Unit := do
  let v ← moveFrom sb si
  construct db di v

def moveAssignSlot (sb si db di : Nat) : M Unit := do
  let v ← moveFrom sb si
  assign db di v

def copyAssignSlot (sb si db di : Nat) : M Unit := do
  let v ← read sb si
  assign db di v

/-! ### loops (structural, so that they can be reasoned about) -/

/-- `for (i = start; i < start + cnt; ++i) body(i)` -/
def loopUp (body : Nat → M Unit) : (cnt : Nat) → (start : Nat) → M Unit
  | 0, _ => pure ()
  | c + 1, i => do body i; loopUp body c (i + 1)

/-- `for (i = start + cnt; i-- > start;) body(i)` -/
def loopDown (body : Nat → M Unit) : (cnt : Nat) → (start : Nat) → M Unit
  | 0, _ => pure ()
  | c + 1, s => do body (s + c); loopDown body c s

/-- fold over a range with an accumulator: `for (i = start; i < start + cnt; ++i) acc = body(i, acc)` -/
def foldUp {σ : Type} (body : Nat → σ → M σ) : (cnt : Nat) → (start : Nat) → σ → M σ
  | 0, _, s => pure s
  | c + 1, i, s => do let s' ← body i s; foldUp body c (i + 1) s'

/-! ### log summary (what the harness prints per operation) -/
def Heap.clearLog (h : Heap) : Heap := { h with log := [] }

end DS.Life

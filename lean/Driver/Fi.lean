/- dsmodel_fi: `fi` = frequent-items histories (L1 model, free choices resolved by the L2 table model). -/
import DSModel.Fi.Driver
import DSModel.DriverLoop
import DSGen.Fi
open DS

def fiTun : Fi.Tun :=
  { lfNum := DSGen.fi_LOAD_FACTOR_num, lfDen := DSGen.fi_LOAD_FACTOR_den,
    maxSample := DSGen.fi_MAX_SAMPLE_SIZE,
    epsNum := DSGen.fi_EPSILON_FACTOR_num, epsDen := DSGen.fi_EPSILON_FACTOR_den,
    lgMin := DSGen.fi_LG_MIN_MAP_SIZE,
    goldNum := DSGen.fi_GOLDEN_RATIO_RECIPROCAL_num, goldDen := DSGen.fi_GOLDEN_RATIO_RECIPROCAL_den,
    driftLimit := DSGen.fi_DRIFT_LIMIT, emptyByTotal := DSGen.fi_EMPTY_BY_TOTAL }

def main (args : List String) : IO UInt32 := do
  match args with
  | ["fi"] => runDriver (#[] : Fi.Objs) (Fi.stepLine fiTun)
  | _ => IO.eprintln "usage: dsmodel_fi fi"; return 2

/- dsmodel_life: the C19 heap-calculus model of the hand-managed classes, driven by lifecycle histories. -/
import DSModel.Life.Driver
import DSModel.DriverLoop
import DSGen.Life
open DS DS.Life

def lifeCfg : Cfg :=
  { theta := { rszNum := DSGen.life_theta_RESIZE_THRESHOLD_num, rszDen := DSGen.life_theta_RESIZE_THRESHOLD_den,
               rbdNum := DSGen.life_theta_REBUILD_THRESHOLD_num, rbdDen := DSGen.life_theta_REBUILD_THRESHOLD_den,
               strideBits := DSGen.life_theta_STRIDE_HASH_BITS, minLgK := DSGen.life_theta_MIN_LG_K },
    thetaMaxLgK := DSGen.life_theta_MAX_LG_K,
    kll := { defaultM := DSGen.life_kll_DEFAULT_M, minK := DSGen.life_kll_MIN_K, maxK := DSGen.life_kll_MAX_K,
             moveAssignResetsSource := DSGen.life_kll_MOVE_ASSIGN_SHAPE == 2 },
    fi := { loadNum := DSGen.life_fi_LOAD_FACTOR_num, loadDen := DSGen.life_fi_LOAD_FACTOR_den,
            driftLimit := DSGen.life_fi_DRIFT_LIMIT, maxSample := DSGen.life_fi_MAX_SAMPLE_SIZE,
            lgMinMap := DSGen.life_fi_LG_MIN_MAP_SIZE,
            hashOf := fun v => (fmix64 (UInt64.ofNat v)).toNat,
            strideOf := fun lg => ((Float.ofNat (2 ^ lg) * 0.6180339887498949).toUInt32.toNat) ||| 1 },
    comb := fun old v => old + v }

def main (args : List String) : IO UInt32 := do
  match args with
  | ["life"] | [] => runDriver World.init (stepLine lifeCfg)
  | _ => IO.eprintln "usage: dsmodel_life life"; return 2

/- dsmodel_hll: `hll` = sketch / union histories (C03, C04), `coupon` = hash + canonicalisation + coupon tie and input pool. -/
import DSModel.Hll.Driver
import DSModel.Hll.GenParams
import DSModel.DriverLoop
open DS DS.Hll

def main (args : List String) : IO UInt32 := do
  match args with
  | ["hll"] => runDriver (#[] : Objs) (stepLine { p := hllParams, t := hllTables })
  | ["coupon"] => runDriver () (fun _ w => ((), couponLine hllParams w))
  | _ => IO.eprintln "usage: dsmodel_hll hll|coupon"; return 2

/- dsmodel_varopt: `varopt` = VarOpt sketch / union histories (C16). -/
import DSModel.VarOpt.Driver
import DSModel.DriverLoop
import DSGen.VarOpt
open DS

def varoptTunables : VarOpt.Tunables :=
  { maxK := DSGen.varopt_MAX_K, minLgArrItems := DSGen.varopt_MIN_LG_ARR_ITEMS,
    defaultRf := DSGen.varopt_DEFAULT_RESIZE_FACTOR,
    kappaNum := DSGen.varopt_DEFAULT_KAPPA_num, kappaDen := DSGen.varopt_DEFAULT_KAPPA_den,
    tolNum := DSGen.varopt_COERCER_TOL_num, tolDen := DSGen.varopt_COERCER_TOL_den,
    erfA := [(DSGen.bbp_ERF_A1_num, DSGen.bbp_ERF_A1_den), (DSGen.bbp_ERF_A2_num, DSGen.bbp_ERF_A2_den),
             (DSGen.bbp_ERF_A3_num, DSGen.bbp_ERF_A3_den), (DSGen.bbp_ERF_A4_num, DSGen.bbp_ERF_A4_den),
             (DSGen.bbp_ERF_A5_num, DSGen.bbp_ERF_A5_den), (DSGen.bbp_ERF_A6_num, DSGen.bbp_ERF_A6_den)],
    deserializeM0 := DSGen.varopt_deserializeM0,
    validModeSlack := DSGen.varopt_validModeSlack,
    slackNum := DSGen.varopt_VALID_MODE_SLACK_num, slackDen := DSGen.varopt_VALID_MODE_SLACK_den,
    coercerOuterTau := DSGen.varopt_coercerOuterTau, coercerHeapify := DSGen.varopt_coercerHeapify,
    coercerRelTol := DSGen.varopt_coercerRelTol }

def main (args : List String) : IO UInt32 := do
  match args with
  | ["varopt"] => runDriver ([] : VarOpt.Objs) (VarOpt.stepLine varoptTunables)
  | _ => IO.eprintln "usage: dsmodel_varopt varopt"; return 2

/- dsmodel_wire_hll: HLL wire-format model driver (C09/C10/C11): decodes the images written by the implementation
with the specification reader instantiated with the constants of the CURRENT headers. -/
import DSModel.Wire.HllDriver
import DSModel.DriverLoop
open DS

def main (args : List String) : IO UInt32 := do
  match args with
  | ["hll"] => runDriver () (fun _ w => ((), DS.Wire.Hll.step DS.Wire.Hll.genConsts w))
  | _ => do
    IO.eprintln "usage: dsmodel_wire_hll hll"
    return 2

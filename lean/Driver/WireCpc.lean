/- dsmodel_wire_cpc: the documented CPC reader applied to images written by the real code.
   IMG <kind> <hex> <seed>        -> `D <API content> | re=<0/1> rc=<0/1> size=<n> len=<n> minpfx=<n> layout=<name:off,...>` or `D REJECT`
   PFX <kind> <hex> <seed>        -> one letter per strict prefix length 0..n-1: R reject / A accept
   CORR <kind> <hex> <seed> <np>  -> one letter per (preamble byte position < np, replacement 0..7): R / A / `=` (same byte) -/
import DSModel.Cpc.GenTabs
import DSModel.Wire.CpcGen
import DSModel.Wire.CpcContent
import DSModel.DriverLoop
open DS DS.Wire

def hexToBytes (s : String) : Option Bytes := (parseHexBytes s).map (fun b => b.toList)

def ofBitsF (b : Nat) : Float := Float.ofBits (UInt64.ofNat b)

/-- full decode: layout + exact consumption + seed hash + the payload must expand -/
def decodeFull (b : Bytes) (seed : Nat) : Option Cpc.Image :=
  match Reader.runExact (Cpc.decode Cpc.generated) b with
  | some img => if img.seedHash == (seedHash (UInt64.ofNat seed)).toNat then some img else none
  | none => none

def contentOf (img : Cpc.Image) : String :=
  let (s, _) := Cpc.expand DS.Cpc.cpcTabs.comp DSGen.cpc_DESER_EMPTY_KXP_IS_K img ofBitsF
  DS.Cpc.observe DS.Cpc.cpcTabs s

def replacements (b : UInt8) : List UInt8 := [0x00, 0x01, 0x7F, 0x80, 0xFF, b ^^^ 1, b ^^^ 0x80, b + 1]

def step (w : List String) : String :=
  match w with
  | ["IMG", _, hex, seed] =>
    match hexToBytes hex, seed.toNat? with
    | some b, some seed =>
      match decodeFull b seed with
      | none => "D REJECT"
      | some img =>
        let re := Cpc.encode Cpc.generated img == b
        let (s, hb) := Cpc.expand DS.Cpc.cpcTabs.comp DSGen.cpc_DESER_EMPTY_KXP_IS_K img ofBitsF
        -- canonical re-encoding through the compression model: the sketch the image stands for compresses to the same words
        let img2 := Cpc.imageOf DS.Cpc.cpcTabs.comp img.seedHash s ⟨img.kxp, img.hip⟩
        let rc := img2 == img || (img.coupons == 0 && hb.hip == 0)
        let minpfx := ((List.range (b.length + 1)).find? (fun n => (decodeFull (b.take n) seed).isSome)).getD 0
        let lay := ",".intercalate ((Cpc.layout img).map (fun p => s!"{p.1}:{p.2}"))
        s!"D {contentOf img} | re={boolStr re} rc={boolStr rc} size={Cpc.serializedSize Cpc.generated img} len={b.length} minpfx={minpfx} layout={lay}"
    | _, _ => "bad-op"
  | ["PFX", _, hex, seed] =>
    match hexToBytes hex, seed.toNat? with
    | some b, some seed =>
      let v := (List.range b.length).map (fun n => if (decodeFull (b.take n) seed).isSome then 'A' else 'R')
      if v.isEmpty then "-" else String.ofList v
    | _, _ => "bad-op"
  | ["CORR", _, hex, seed, np] =>
    match hexToBytes hex, seed.toNat?, np.toNat? with
    | some b, some seed, some np =>
      let v := (List.range (min np b.length)).flatMap (fun pos =>
        let x := b.getD pos 0
        (replacements x).map (fun y =>
          if y == x then '=' else if (decodeFull (b.set pos y) seed).isSome then 'A' else 'R'))
      if v.isEmpty then "-" else String.ofList v
    | _, _, _ => "bad-op"
  | _ => "bad-op"

def main (_args : List String) : IO UInt32 := runDriver () (fun _ w => ((), step w))

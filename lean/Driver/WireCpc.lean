/- dsmodel_wire_cpc: wire-format model driver stub (filled in when the family group is built). -/
def main (_args : List String) : IO UInt32 := do
  IO.eprintln "dsmodel_wire_cpc: not built yet"
  return 2

/- dsmodel_quantiles: `quantiles` = histories over classic quantiles sketches (C07 / C08 parts "quantiles"). -/
import DSModel.Quantiles.Driver
import DSModel.DriverLoop
import DSGen.Quantiles
open DS

def quantilesTunables : Quantiles.Tunables :=
  { lim := { minK := DSGen.quantiles_MIN_K, maxK := DSGen.quantiles_MAX_K },
    errPmfNum := DSGen.quantiles_RANK_ERR_PMF_NUM, errPmfPow := DSGen.quantiles_RANK_ERR_PMF_POW,
    errCdfNum := DSGen.quantiles_RANK_ERR_CDF_NUM, errCdfPow := DSGen.quantiles_RANK_ERR_CDF_POW }

def main (args : List String) : IO UInt32 := do
  match args with
  | ["quantiles"] => runDriver Quantiles.Top.unset (Quantiles.topStep quantilesTunables)
  | _ => IO.eprintln "usage: dsmodel_quantiles quantiles"; return 2

/- dsmodel_bloom: `bloom` = filter/memory-block histories, `hash` = XXHash64 + canonicalisation tie,
   `sugg` = builder arithmetic tie.  `bloomfixed` runs the model with the three proposed repairs on. -/
import DSModel.Bloom.Driver
import DSModel.Bloom.GhostDriver
import DSModel.DriverLoop
import DSGen.Bloom
open DS DS.Bloom

def genParams : Params :=
  { dirty := DSGen.bloom_DIRTY_BITS_VALUE, preEmpty := DSGen.bloom_PREAMBLE_LONGS_EMPTY,
    preStd := DSGen.bloom_PREAMBLE_LONGS_STANDARD, family := DSGen.bloom_FAMILY_ID, serVer := DSGen.bloom_SER_VER,
    emptyMask := DSGen.bloom_EMPTY_FLAG_MASK, nbsOff := DSGen.bloom_NUM_BITS_SET_OFFSET_BYTES,
    bitsOff := DSGen.bloom_BIT_ARRAY_OFFSET_BYTES, maxBits := DSGen.bloom_MAX_FILTER_SIZE_BITS,
    strict := DSGen.bloom_READER_STRICT }

def genPrimes : XXH.Primes :=
  { p1 := UInt64.ofNat DSGen.xxh_Prime1, p2 := UInt64.ofNat DSGen.xxh_Prime2, p3 := UInt64.ofNat DSGen.xxh_Prime3,
    p4 := UInt64.ofNat DSGen.xxh_Prime4, p5 := UInt64.ofNat DSGen.xxh_Prime5 }

def hashStep (w : List String) : String :=
  match w with
  | ["xx", b, seed] =>
    match parseHexBytes b, seed.toNat? with
    | some b, some s => s!"X {hex64 (XXH.hash genPrimes b (UInt64.ofNat s))}"
    | _, _ => "bad-op"
  | ["hash", ty, lit, seed] =>
    match parseInput ty lit, seed.toNat? with
    | some i, some s => match hashPair genPrimes i s with
      | some (h0, h1) => "H" ++ (sortNat (indices h0 h1 65536 4)).eraseDups.foldl (fun a i => a ++ s!" {i}") ""
      | none => "H ignored"
    | _, _ => "bad-op"
  | _ => "bad-op"

def main (args : List String) : IO UInt32 := do
  match args with
  | ["hash"] => runDriver () (fun _ w => ((), hashStep w))
  | ["sugg"] => runDriver () (fun _ w => ((), suggStep genParams w))
  | ["bloom"] => runDriver ({} : DState) (stepLine genParams genPrimes Fix.asCoded)
  | ["bloomghost"] => runDriver ({} : GState) (gStep genParams genPrimes Fix.asCoded)
  | ["bloomghostfixed"] => runDriver ({} : GState) (gStep genParams genPrimes Fix.fixed)
  | ["bloomfixed"] => runDriver ({} : DState) (stepLine genParams genPrimes Fix.fixed)
  | _ => IO.eprintln "usage: dsmodel_bloom bloom|bloomfixed|bloomghost|bloomghostfixed|hash|sugg"; return 2

/- dsmodel_wire_misc: wire-format model driver stub (filled in when the family group is built). -/
def main (_args : List String) : IO UInt32 := do
  IO.eprintln "dsmodel_wire_misc: not built yet"
  return 2

/- dsmodel_wire_misc: specification readers of the t-digest / Bloom filter / density sketch images.
   `IMG <kind> <hex>`  -> `DEC <project> | reenc=<0|1> size=<n> minpfx=<n> fmt=<main|leg1|leg2>`  or `DEC reject`
   `ENCLEG big|small <hex fields…>` -> `HEX <image>` (the Lean encoders of the two big-endian t-digest reference formats) -/
import DSModel.Wire.BloomGen
import DSModel.Wire.DensityGen
import DSModel.Wire.TDigestGen
import DSModel.Wire.TDigestApi
import DSModel.DriverLoop
import DSModel.Util
open DS DS.Wire

/-- smallest prefix length the reader accepts (none if even the whole input is rejected).
Images up to 2048 bytes: every prefix length is tried.  Larger images: bisection (acceptance is monotone in the
prefix length by `PS`), then the answer is re-checked against its predecessor and 64 evenly spaced shorter prefixes. -/
def minPrefix {α : Type} (rd : Reader α) (b : Bytes) : Option Nat :=
  let acc := fun n => (rd (b.take n)).isSome
  if b.length ≤ 2048 then (List.range (b.length + 1)).find? acc
  else if !acc b.length then none
  else Id.run do
    let mut lo := 0            -- invariant: every probed length < lo was rejected, hi is accepted
    let mut hi := b.length
    for _ in [0:64] do
      if lo < hi then
        let mid := (lo + hi) / 2
        if acc mid then hi := mid else lo := mid + 1
    let ok := (hi == 0 || !acc (hi - 1)) && (List.range 64).all fun i => !acc (i * hi / 64) || i * hi / 64 == hi
    return if ok then some hi else some 0

def report {α : Type} (rd : Reader α) (enc : α → Bytes) (proj : α → String) (size : α → Nat) (fmt : String) (b : Bytes) : String :=
  match rd b with
  | none => "DEC reject"
  | some (s, _) =>
    let mp := match minPrefix rd b with | some n => toString n | none => "none"
    s!"DEC {proj s} | reenc={boolStr (enc s == b)} size={size s} minpfx={mp} fmt={fmt}"

def tdReport (o : TDigest.TOps) (wsz : Nat) (b : Bytes) : String :=
  let c := TDigest.genConsts
  match TDigest.decodeLegacy c b with
  | some (l, _) =>
    let fmt := match l with | .big .. => "leg1" | .small .. => "leg2"
    report (TDigest.decodeLegacy c) (TDigest.encodeLegacy c) (TDigest.projectLegacy o) TDigest.legacySize fmt b
  | none =>
    report (TDigest.decode c o.tsz wsz) (TDigest.encode c o.tsz wsz) (TDigest.project o) (TDigest.serializedSize o.tsz wsz) "main" b

def pairs : List Nat → Option (List (Nat × Nat))
  | [] => some []
  | a :: b :: t => (pairs t).map fun r => (a, b) :: r
  | _ => none

def step (_ : Unit) (w : List String) : Unit × String :=
  ((), match w with
  | ["IMG", kind, hex] =>
    match parseHexBytes hex with
    | none => "bad-hex"
    | some ba =>
      let b := ba.toList
      match kind with
      | "bloom" => report (Bloom.decode Bloom.genConsts) (Bloom.encode Bloom.genConsts) (Bloom.project Bloom.genConsts) Bloom.serializedSize "main" b
      | "td.d" => tdReport TDigest.opsD TDigest.genWszDouble b
      | "td.f" => tdReport TDigest.opsF TDigest.genWszFloat b
      | "den.d" => report (Density.decode Density.genConsts 8) (Density.encode Density.genConsts 8) (Density.project 8) (Density.serializedSize 8) "main" b
      | "den.f" => report (Density.decode Density.genConsts 4) (Density.encode Density.genConsts 4) (Density.project 4) (Density.serializedSize 4) "main" b
      | _ => "bad-kind"
  | "ENCLEG" :: "big" :: mn :: mx :: comp :: rest =>
    match parseHex mn, parseHex mx, parseHex comp, (rest.mapM parseHex).bind pairs with
    | some mn, some mx, some comp, some cs =>
      let l := TDigest.Legacy.big mn mx comp cs
      if decide (TDigest.WFLegacy l) then "HEX " ++ listBytesHex (TDigest.encodeLegacy TDigest.genConsts l) else "bad-range"
    | _, _, _, _ => "bad-op"
  | "ENCLEG" :: "small" :: mn :: mx :: comp :: c1 :: c2 :: rest =>
    match parseHex mn, parseHex mx, parseHex comp, parseHex c1, parseHex c2, (rest.mapM parseHex).bind pairs with
    | some mn, some mx, some comp, some c1, some c2, some cs =>
      let l := TDigest.Legacy.small mn mx comp c1 c2 cs
      if decide (TDigest.WFLegacy l) then "HEX " ++ listBytesHex (TDigest.encodeLegacy TDigest.genConsts l) else "bad-range"
    | _, _, _, _, _, _ => "bad-op"
  | _ => "bad-op")

def main (_args : List String) : IO UInt32 := runDriver () step

/- dsmodel_kll: `kll` = update/merge/query histories and exhaustive coin trees of the KLL model. -/
import DSModel.Kll.Driver
import DSModel.DriverLoop
import DSGen.Kll
open DS

def kllParams : Kll.Params :=
  { m := DSGen.kll_DEFAULT_M, pow3 := DSGen.kll_powers_of_three, splitDepth := DSGen.kll_INT_CAP_SPLIT_DEPTH,
    minK := DSGen.kll_MIN_K, maxK := DSGen.kll_MAX_K }

def kllErr : Kll.ErrConsts :=
  { pmfA := Float.ofBits DSGen.kll_ERR_PMF_A_bits, pmfB := Float.ofBits DSGen.kll_ERR_PMF_B_bits,
    cdfA := Float.ofBits DSGen.kll_ERR_CDF_A_bits, cdfB := Float.ofBits DSGen.kll_ERR_CDF_B_bits }

def constsLine : String :=
  s!"CONSTS {DSGen.kll_DEFAULT_K} {DSGen.kll_DEFAULT_M} {DSGen.kll_MIN_K} {DSGen.kll_MAX_K} P3" ++
    String.join (DSGen.kll_powers_of_three.map (fun x => s!" {x}"))

def main (args : List String) : IO UInt32 := do
  match args with
  | ["kll"] => runDriver ({} : Kll.St) (Kll.stepLine kllParams kllErr constsLine)
  | _ => IO.eprintln "usage: dsmodel_kll kll"; return 2

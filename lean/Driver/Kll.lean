/- dsmodel_kll: model driver stub (filled in when the family is built). -/
def main (_args : List String) : IO UInt32 := do
  IO.eprintln "dsmodel_kll: not built yet"
  return 2

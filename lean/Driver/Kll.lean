/- dsmodel_kll: `kll` = update/merge/query histories and exhaustive coin trees of the KLL model. -/
import DSModel.Kll.Driver
import DSModel.DriverLoop
import DSGen.Kll
import DSModel.Kll.Gen
open DS

def kllParams : Kll.Params := Kll.genParams
def kllErr : Kll.ErrConsts := Kll.genErr

def constsLine : String :=
  s!"CONSTS {DSGen.kll_DEFAULT_K} {DSGen.kll_DEFAULT_M} {DSGen.kll_MIN_K} {DSGen.kll_MAX_K} P3" ++
    String.join (DSGen.kll_powers_of_three.map (fun x => s!" {x}"))

def main (args : List String) : IO UInt32 := do
  match args with
  | ["kll"] => runDriver ({} : Kll.St) (Kll.stepLine kllParams kllErr Kll.genFlags constsLine)
  | _ => IO.eprintln "usage: dsmodel_kll kll"; return 2

/- dsmodel_ebpps: `ebpps` = EBPPS sketch histories (C18), Float instance of the generic model. -/
import DSModel.Ebpps.Driver
import DSModel.DriverLoop
import DSGen.Ebpps
open DS

def ebppsVariant : Ebpps.Variant :=
  { geDraw := DSGen.ebpps_geDraw, mergeSetsWtMax := DSGen.ebpps_mergeSetsWtMax,
    mergeEmptyShrinks := DSGen.ebpps_mergeEmptyShrinks,
    clampTheta := DSGen.ebpps_clampTheta, vanishFix := DSGen.ebpps_vanishFix, maxK := DSGen.ebpps_MAX_K }

def main (args : List String) : IO UInt32 := do
  match args with
  | ["ebpps"] => runDriver ([] : Ebpps.Objs) (Ebpps.stepLine ebppsVariant)
  | _ => IO.eprintln "usage: dsmodel_ebpps ebpps"; return 2

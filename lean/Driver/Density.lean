/- dsmodel_density: `density` = update/merge/query histories of density sketches (C20). -/
import DSModel.Density.Driver
import DSModel.DriverLoop
import DSGen.Density
open DS

def main (args : List String) : IO UInt32 := do
  match args with
  | ["density"] => runDriver ({ minK := DSGen.density_MIN_K } : Density.DState) Density.stepLine
  | _ => IO.eprintln "usage: dsmodel_density density"; return 2

/- dsmodel_density: `density` = update/merge/query histories of density sketches (C20). -/
import DSModel.Density.Driver
import DSModel.DriverLoop
import DSGen.Density
open DS

def main (args : List String) : IO UInt32 := do
  match args with
  | ["density"] =>
    let cfg : Density.Cfg := { mergeSkipOnN := DSGen.density_MERGE_SKIPS_ON_N, queryChecksDim := DSGen.density_QUERY_CHECKS_DIM,
                               weight64 := DSGen.density_EST_WEIGHT_64, popsEmptyTop := DSGen.density_COMPACT_POPS_EMPTY_TOP }
    runDriver ({ minK := DSGen.density_MIN_K, cfg := cfg } : Density.DState) Density.stepLine
  | _ => IO.eprintln "usage: dsmodel_density density"; return 2

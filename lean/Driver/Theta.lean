/- dsmodel_theta: `theta` = update/compact/set-operation histories, `hash` = Murmur/canonicalisation tie. -/
import DSModel.Theta.Driver
import DSModel.Tuple.Driver
import DSModel.DriverLoop
import DSGen.Theta
open DS

def hashStep (w : List String) : String :=
  match w with
  | ["hash", ty, lit, seed] =>
    match parseInput ty lit, seed.toNat? with
    | some i, some s => match hashInput i (UInt64.ofNat s) with
      | some (h1, _) => s!"H1 {hex64 (h1 >>> (1 : UInt64))}"
      | none => "H ignored"
    | _, _ => "bad-op"
  | ["mm", b, seed] =>
    match parseHexBytes b, seed.toNat? with
    | some b, some s => let (h1, h2) := murmur3 b (UInt64.ofNat s); s!"M {hex64 h1} {hex64 h2}"
    | _, _ => "bad-op"
  | ["seedhash", seed] => match seed.toNat? with
    | some s => s!"S {(seedHash (UInt64.ofNat s)).toNat}"
    | none => "bad-op"
  | _ => "bad-op"

def thetaTunables : Theta.Tunables :=
  { rszNum := DSGen.theta_RESIZE_THRESHOLD_num, rszDen := DSGen.theta_RESIZE_THRESHOLD_den,
    rbdNum := DSGen.theta_REBUILD_THRESHOLD_num, rbdDen := DSGen.theta_REBUILD_THRESHOLD_den,
    minLgK := DSGen.theta_MIN_LG_K, theta0Floor := DSGen.theta_STARTING_THETA_FLOOR }

def main (args : List String) : IO UInt32 := do
  match args with
  | ["hash"] => runDriver () (fun _ w => ((), hashStep w))
  | ["theta"] => runDriver (#[] : Theta.Objs) (Theta.stepLine thetaTunables)
  | ["thetaL2"] => runDriver (#[] : Theta.L2D.Objs) (Theta.L2D.stepLine thetaTunables DSGen.theta_STRIDE_HASH_BITS)
  | ["tuple"] => runDriver ({} : Tuple.DState) (Tuple.stepLine thetaTunables)
  | _ => IO.eprintln "usage: dsmodel_theta hash|theta|tuple"; return 2

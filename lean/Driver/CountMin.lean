/- dsmodel_countmin: `countmin` = histories (row locations supplied on the op lines), `loc` = row locations computed
in Lean (minstd_rand0 + uniform_int_distribution + MurmurHash3) for the hash-scheme tie. -/
import DSModel.CountMin.Driver
import DSModel.DriverLoop
import DSGen.CountMin
open DS

def cmParams : CountMin.CtorParams :=
  CountMin.ctorParams DSGen.countmin_MIN_BUCKETS DSGen.countmin_MAX_CELLS DSGen.countmin_SIZE_ARITH_BITS

def main (args : List String) : IO UInt32 := do
  match args with
  | ["countmin"] => runDriver ({} : CountMin.DSt) (CountMin.stepLine cmParams)
  | ["loc"] => runDriver () (fun _ w => ((), CountMin.locStep w))
  | _ => IO.eprintln "usage: dsmodel_countmin countmin|loc"; return 2

/- dsmodel_req: `req` = line protocol (one observation per op), `enum` = whole coin tree of a short history,
   `selftest` = the section-size schedule of the float code satisfies `SecOK` for every k the constructor can produce. -/
import DSModel.Req.Driver
import DSModel.DriverLoop
import DSGen.Req
open DS DS.Req

def reqTun : Tun :=
  { minK := DSGen.req_MIN_K, initSections := DSGen.req_INIT_NUM_SECTIONS, multiplier := DSGen.req_MULTIPLIER,
    lazy := DSGen.req_LAZY_COMPRESSION, initCoinRandom := DSGen.req_INITIAL_COIN_RANDOM }

def reqFlags : Flags := { iterSkipsEmpty := DSGen.req_ITER_SKIPS_EMPTY, nanRankRejected := DSGen.req_NAN_RANK_REJECTED }

def reqRse : RseConsts :=
  { fixedNum := DSGen.req_FIXED_RSE_FACTOR_num, fixedDen := DSGen.req_FIXED_RSE_FACTOR_den,
    relNum := DSGen.req_REL_RSE_num, relDen := DSGen.req_REL_RSE_den }

partial def readAll (h : IO.FS.Stream) (acc : Array (List String)) : IO (Array (List String)) := do
  let line ← h.getLine
  if line.isEmpty then return acc
  let w := (line.trimAscii.toString.splitOn " ").filter (· ≠ "")
  if w.isEmpty || (w.head!.startsWith "#") then readAll h acc else readAll h (acc.push w)

def insertStr (x : String) : List String → List String
  | [] => [x]
  | y :: t => if x ≤ y then x :: y :: t else y :: insertStr x t

def enumMain : IO UInt32 := do
  let stdin ← IO.getStdin
  let lines ← readAll stdin #[]
  let mut maxFlips := 12
  let mut ops : Array Op := #[]
  for w in lines do
    match w with
    | ["maxflips", n] => maxFlips := n.toNat?.getD 12
    | _ => match parseOp w with
      | some (some op) => ops := ops.push op
      | _ => pure ()
  let used := truncateOps reqTun secF32 ops.toList maxFlips
  let f0 := (run reqTun secF32 used []).2.used
  IO.println s!"H ops={used.length} flips0={f0}"
  let leaves := enumLeaves reqTun secF32 used [] #[] (2 ^ (maxFlips + 1))
  let sorted := leaves.qsort (· < ·)
  for l in sorted do IO.println l
  return 0

/-- ghost classification of a short history (names a bias finding; never decides pass/fail) -/
def classifyMain : IO UInt32 := do
  let stdin ← IO.getStdin
  let lines ← readAll stdin #[]
  let mut maxFlips := 12
  let mut ops : Array Op := #[]
  for w in lines do
    match w with
    | ["maxflips", n] => maxFlips := n.toNat?.getD 12
    | _ => match parseOp w with
      | some (some op) => ops := ops.push op
      | _ => pure ()
  let used := truncateOps reqTun secF32 ops.toList maxFlips
  let r := run reqTun secF32 used []
  IO.println s!"oddconst={boolStr r.2.oddConst} ops={used.length} flips={r.2.used}"
  return 0

/-- `SecOK reqTun secF32` by execution: for every k the constructor can produce (`effectiveK`, all k0 < 65536 give the even values
in [max(MIN_K,…), 254]) `ne (float k) = k`, and along the WHOLE schedule r_{j+1} = r_j / sqrtf(2) (followed until it reaches its
fixed point 0): if `ne r_{j+1} ≥ MIN_K` then `ne r_j ≤ 2 · ne r_{j+1}` -/
def selftest : IO UInt32 := do
  let mut bad := 0
  let mut steps := 0
  let mut ks : Array Nat := #[]
  for k0 in [0:65536] do
    let k := effectiveK reqTun k0
    if !ks.contains k then ks := ks.push k
  for k in ks do
    let mut r := secF32.ofNat k
    if secF32.ne r != k then bad := bad + 1
    for _ in [0:600] do
      let r' := secF32.next r
      steps := steps + 1
      if secF32.ne r' ≥ reqTun.minK then
        if 2 * secF32.ne r' < secF32.ne r then bad := bad + 1
      r := r'
    -- fixed point reached: the remaining (infinitely many) points of the schedule are this one
    if !(secF32.next r == r) then bad := bad + 1
  IO.println s!"selftest ks={ks.size} steps={steps} bad={bad}"
  return (if bad == 0 then 0 else 1)

def main (args : List String) : IO UInt32 := do
  match args with
  | ["req"] => runDriver ({} : DState Float32) (stepLine reqTun secF32 reqRse reqFlags)
  | ["enum"] => enumMain
  | ["selftest"] => selftest
  | ["classify"] => classifyMain
  | _ => IO.eprintln "usage: dsmodel_req req|enum|selftest"; return 2

/- dsmodel_tdigest: `tdigest` = update/merge/compress/query histories over double and float digests (C17). -/
import DSModel.TDigest.Driver
import DSModel.DriverLoop
import DSGen.TDigest
open DS

def tdCfg : TDigest.Cfg :=
  { tun := { bufMul := DSGen.tdigest_BUFFER_MULTIPLIER, fudgeThr := DSGen.tdigest_FUDGE_THRESHOLD,
             fudgeSmall := DSGen.tdigest_FUDGE_SMALL_K, fudgeLarge := DSGen.tdigest_FUDGE_LARGE_K,
             capMul := DSGen.tdigest_CAPACITY_K_MULT, comprMul := DSGen.tdigest_COMPRESSION_K_MULT,
             minK := DSGen.tdigest_MIN_K, caddSafe := DSGen.tdigest_CENTROID_ADD_OVERFLOW_SAFE,
             quantW1W2 := DSGen.tdigest_QUANTILE_WEIGHTS_AS_W1_W2 },
    zMul := DSGen.tdigest_SCALE_Z_MULT, zAdd := DSGen.tdigest_SCALE_Z_ADD,
    defaultK := DSGen.tdigest_DEFAULT_K }

def main (args : List String) : IO UInt32 := do
  match args with
  | ["tdigest"] => runDriver ([] : TDigest.Objs) (TDigest.stepLine tdCfg)
  | _ => IO.eprintln "usage: dsmodel_tdigest tdigest"; return 2

/- dsmodel_cpc: `cpc` = sketch/union/serialization histories, `hash` = Murmur words + row_col of an input. -/
import DSModel.Cpc.Driver
import DSModel.DriverLoop
import DSModel.Cpc.GenTabs
open DS

def main (args : List String) : IO UInt32 := do
  match args with
  | ["hash"] => runDriver () (fun _ w => ((), Cpc.hashStep w))
  | ["cpc"] => runDriver (#[] : Cpc.Objs) (Cpc.stepLine Cpc.cpcTabs)
  | _ => IO.eprintln "usage: dsmodel_cpc hash|cpc"; return 2

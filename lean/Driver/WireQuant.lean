/-
dsmodel_wire_quant: the specification readers/writers of the KLL / REQ / classic-quantiles images as a line driver.

  IMG <fam>.<ty> <hex>      -> OK <api content> | reenc=<0|1> size=<serializedSize> minpref=<smallest accepted prefix> rest=<unread bytes>
                               | REJECT
  FIELDS <fam>.<ty> <hex>   -> FIELDS name@offset+len ...   (field map of the image; REJECT if it does not decode)
  PFX <fam>.<ty> <hex>      -> PFX size=<n> accepts=none | <len>:<content>;...   (verdict of the reader on EVERY strict prefix)
  LEGACY <fam>.<ty> ...     -> IMG <fam>.<ty> <hex> | <api content>   (legacy encoders; see each family)

fam in kll | req | quant ; ty in f32 | f64 | i64 | str.  Constants come from DSGen (the CURRENT headers).
-/
import DSModel.Wire.KllCode
import DSModel.Wire.QuantilesCode
import DSModel.Wire.ReqCode
import DSModel.DriverLoop
import DSModel.Util
open DS DS.Wire

structure Decoded where
  content : String
  reenc : Bytes
  size : Nat
  rest : Nat
  fields : String

def decodeKll (ty : ItemType) (b : Bytes) : Option Decoded :=
  let sd := ty.serde
  match Kll.decode sd Kll.codeCfg b with
  | none => none
  | some (img, r) =>
    some { content := ((Kll.project Kll.codeCfg img).canon ty).line, reenc := Kll.encode sd Kll.codeCfg img,
           size := Kll.serializedSize sd Kll.codeCfg img, rest := r.length,
           fields := fieldsLine (Kll.fields sd (ty == .str) img) }

def decodeQuant (ty : ItemType) (b : Bytes) : Option Decoded :=
  let sd := ty.serde
  let c := Quantiles.codeCfg
  match Quantiles.decode sd c b with
  | none => none
  | some (img, r) =>
    some { content := ((Quantiles.project img).canon ty).line, reenc := Quantiles.encode sd c img,
           size := Quantiles.serializedSize sd c img, rest := r.length,
           fields := fieldsLine (Quantiles.fields sd (ty == .str) c img) }

def decodeReq (ty : ItemType) (b : Bytes) : Option Decoded :=
  let sd := ty.serde
  let c := Req.codeCfg
  match Req.decode sd c b with
  | none => none
  | some (img, r) =>
    some { content := ((Req.project ty img).canon ty).line, reenc := Req.encode sd c img,
           size := Req.serializedSize sd c img, rest := r.length,
           fields := fieldsLine (Req.fields sd (ty == .str) img) }

def decodeKind (fam : String) (ty : ItemType) (b : Bytes) : Option Decoded :=
  match fam with
  | "kll" => decodeKll ty b
  | "quant" => decodeQuant ty b
  | "req" => decodeReq ty b
  | _ => none

def tyName : ItemType → String
  | .f32 => "f32" | .f64 => "f64" | .i64 => "i64" | .str => "str"

def parseItems (l : List String) : Option (List Item) :=
  l.mapM (fun s => (parseHexBytes s).map (·.toList))

def chunks (k : Nat) : Nat → List Item → List (List Item)
  | 0, _ => []
  | m + 1, l => l.take k :: chunks k m (l.drop k)

/-- LEGACY quant.<ty> <ver 1|2> <k> <unused> <pad> <n> <min> <max> <items...>: items = base buffer (n mod 2k), then for
serial version 1 with levels the surplus slots (2k - n mod 2k), then k per valid level -/
def quantLegacy (ty : ItemType) (w : List String) : String :=
  match w with
  | ver :: k :: unused :: pad :: n :: mn :: mx :: items =>
    match ver.toNat?, k.toNat?, unused.toNat?, pad.toNat?, n.toNat?, parseHexBytes mn, parseHexBytes mx, parseItems items with
    | some ver, some k, some unused, some pad, some n, some mn, some mx, some items =>
      let c := Quantiles.codeCfg
      let sd := ty.serde
      let bbN := n % (2 * k)
      let exN := if ver == c.ver1 && n / (2 * k) != 0 then 2 * k - bbN else 0
      let body : Quantiles.Body :=
        { n := n, min := mn.toList, max := mx.toList, v1pad := pad, bb := items.take bbN, extra := (items.drop bbN).take exN,
          levels := chunks k (Quantiles.popCount (n / (2 * k))) (items.drop (bbN + exN)) }
      let img := if ver == c.ver1 then Quantiles.legacyV1 c k unused body else Quantiles.legacyV2 c k unused body
      if Quantiles.WF sd c img then
        "IMG quant." ++ tyName ty ++ " " ++ listBytesHex (Quantiles.encodeLegacy sd c img) ++ " | " ++ ((Quantiles.project img).canon ty).line
      else "BAD not-wf"
    | _, _, _, _, _, _, _, _ => "BAD args"
  | _ => "BAD args"

def parseKind (s : String) : Option (String × ItemType) :=
  match s.splitOn "." with
  | [fam, t] => (ItemType.ofString t).map (fun ty => (fam, ty))
  | _ => none

/-- smallest prefix length the reader accepts (by prefix safety = the number of bytes consumed; computed by trial as a run-time cross-check) -/
def minPrefix (fam : String) (ty : ItemType) (b : Bytes) : Nat := Id.run do
  for n in [0:b.length + 1] do
    if (decodeKind fam ty (b.take n)).isSome then return n
  return b.length + 1

def prefixVerdicts (fam : String) (ty : ItemType) (b : Bytes) : String := Id.run do
  let mut acc : List String := []
  for n in [0:b.length] do
    match decodeKind fam ty (b.take n) with
    | some d => acc := acc ++ [toString n ++ ":" ++ d.content.replace " " "_"]
    | none => pure ()
  return if acc.isEmpty then "none" else ";".intercalate acc

def kllLegacy (ty : ItemType) (w : List String) : String :=
  match w with
  | [k, lz, item] =>
    match k.toNat?, parseHexBytes item with
    | some k, some it =>
      let sd := ty.serde
      let img := Kll.legacySingle Kll.codeCfg k (lz == "1") it.toList
      if Kll.WF sd Kll.codeCfg img then
        "IMG kll." ++ (match ty with | .f32 => "f32" | .f64 => "f64" | .i64 => "i64" | .str => "str") ++ " " ++
          listBytesHex (Kll.encode sd Kll.codeCfg img) ++ " | " ++ ((Kll.project Kll.codeCfg img).canon ty).line
      else "BAD not-wf"
    | _, _ => "BAD args"
  | _ => "BAD args"

def step (_ : Unit) (w : List String) : Unit × String :=
  match w with
  | cmd :: kind :: rest =>
    match parseKind kind with
    | none => ((), "BAD kind")
    | some (fam, ty) =>
      if cmd == "LEGACY" then
        ((), match fam with
             | "kll" => kllLegacy ty rest
             | "quant" => quantLegacy ty rest
             | _ => "BAD family")
      else
      match rest with
      | [hex] =>
        match parseHexBytes hex with
        | none => ((), "BAD hex")
        | some ba =>
          let b := ba.toList
          match cmd with
          | "IMG" =>
            match decodeKind fam ty b with
            | none => ((), "REJECT")
            | some d =>
              ((), "OK " ++ d.content ++ " | reenc=" ++ boolStr (d.reenc == b.take (b.length - d.rest)) ++
                " size=" ++ toString d.size ++ " minpref=" ++ toString (minPrefix fam ty b) ++ " rest=" ++ toString d.rest)
          | "FIELDS" =>
            match decodeKind fam ty b with
            | none => ((), "REJECT")
            | some d => ((), "FIELDS " ++ d.fields)
          | "PFX" => ((), "PFX size=" ++ toString b.length ++ " accepts=" ++ prefixVerdicts fam ty b)
          | _ => ((), "BAD command")
      | _ => ((), "BAD args")
  | _ => ((), "BAD line")

def main (_args : List String) : IO UInt32 := DS.runDriver () step

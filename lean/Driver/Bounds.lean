/- dsmodel_bounds: model driver for the estimator / confidence-bound functions (C06).
   Every op line is a pure function evaluation (`Float` instance of the generic model, tables from DSGen);
   sketch observations carry the register state read from the implementation as explicit arguments. -/
import DSModel.Bounds.Binomial
import DSModel.Bounds.HllEst
import DSModel.Bounds.CpcEst
import DSModel.DriverLoop
import DSModel.Util
import DSModel.Bounds.GenTables
open DS DS.Bounds

def pf (o : Option Float) : String := match o with
  | some x => hexF x
  | none => "throw"

def fOfHex (s : String) : Option Float := (parseHex s).map fun n => Float.ofBits (UInt64.ofNat n)

def k123 : List Nat := [1, 2, 3]

def thetaLine (tag : String) (s : ThetaState) : String :=
  let est : Float := thetaEstimate maxTheta s
  let lbs := k123.map fun k => pf (thetaLowerBound binomT maxTheta s k)
  let ubs := k123.map fun k => pf (thetaUpperBound binomT maxTheta s k)
  joinSp ([tag, hexF est] ++ lbs ++ ubs)

def tupleLine (s : ThetaState) (subset : Nat) : String :=
  let slbs := k123.map fun k => pf (tupleLowerBound (α := Float) binomT maxTheta s k subset)
  let subs := k123.map fun k => pf (tupleUpperBound (α := Float) binomT maxTheta s k subset)
  joinSp ([thetaLine "U" s] ++ slbs ++ subs)

def hllLine (s : HllReg Float) : String :=
  let lbs := k123.map fun k => pf (hllLowerBound hllT s k)
  let ubs := k123.map fun k => pf (hllUpperBound hllT s k)
  joinSp (["H", pf (hllEstimate hllT s), pf (hllCompositeEstimate hllT s)] ++ lbs ++ ubs)

def couponLine (count : Nat) : String :=
  let e := pf (couponEstimate (α := Float) hllT count)
  let lbs := k123.map fun k => pf (couponLowerBound (α := Float) hllT count k)
  let ubs := k123.map fun k => pf (couponUpperBound (α := Float) hllT count k)
  joinSp (["H", e, e] ++ lbs ++ ubs)

def cpcLine (s : CpcState Float) : String :=
  let lbs := k123.map fun k => pf (cpcLowerBound cpcT s k)
  let ubs := k123.map fun k => pf (cpcUpperBound cpcT s k)
  joinSp (["P", pf (cpcEstimate cpcT s)] ++ lbs ++ ubs)

def parseReg (lgk curmin nacm kxq0 kxq1 hip ooo : String) : Option (HllReg Float) :=
  match lgk.toNat?, curmin.toNat?, nacm.toNat?, fOfHex kxq0, fOfHex kxq1, fOfHex hip, ooo.toNat? with
  | some lgk, some cm, some na, some q0, some q1, some h, some o =>
    some { lgK := lgk, curMin := cm, numAtCurMin := na, kxq0 := q0, kxq1 := q1, hip := h, ooo := o != 0 }
  | _, _, _, _, _, _, _ => none

def step (w : List String) : String :=
  match w with
  | ["bb", n, th, k] =>
    match n.toNat?, fOfHex th, k.toNat? with
    | some n, some th, some k => joinSp ["B", pf (getLowerBound binomT n th k), pf (getUpperBound binomT n th k)]
    | _, _, _ => "bad-op"
  | ["tobs", _, th64, n, empty] =>
    match th64.toNat?, n.toNat?, empty.toNat? with
    | some t, some n, some e => thetaLine "T" { theta64 := t, retained := n, empty := e != 0 }
    | _, _, _ => "bad-op"
  | ["uobs", _, th64, n, empty, subset] =>
    match th64.toNat?, n.toNat?, empty.toNat?, subset.toNat? with
    | some t, some n, some e, some sub => tupleLine { theta64 := t, retained := n, empty := e != 0 } sub
    | _, _, _, _ => "bad-op"
  | ["relerr", ub, ooo, lgk, sd] =>
    match ub.toNat?, ooo.toNat?, lgk.toNat?, sd.toNat? with
    | some ub, some ooo, some lgk, some sd => joinSp ["R", pf (hllRelErr (α := Float) hllT (ub != 0) (ooo != 0) lgk sd)]
    | _, _, _, _ => "bad-op"
  | ["hreg", lgk, curmin, nacm, kxq0, kxq1, hip, ooo] =>
    match parseReg lgk curmin nacm kxq0 kxq1 hip ooo with
    | some s => hllLine s
    | none => "bad-op"
  | ["hobs", _, "HLL", lgk, curmin, nacm, kxq0, kxq1, hip, ooo] =>
    match parseReg lgk curmin nacm kxq0 kxq1 hip ooo with
    | some s => hllLine s
    | none => "bad-op"
  | ["hobs", _, _, _, count] =>          -- LIST / SET mode: only the coupon count matters
    match count.toNat? with
    | some c => couponLine c
    | none => "bad-op"
  | ["cubic", x] =>
    match fOfHex x with
    | some x => joinSp ["C", pf (usingXAndYTables hllT.cubicX hllT.cubicY x)]
    | none => "bad-op"
  | ["bitmap", k, hit] =>
    match k.toNat?, hit.toNat? with
    | some k, some hit => joinSp ["M", hexF (bitMapEstimate hllT k hit)]
    | _, _ => "bad-op"
  | ["icon", lgk, c] =>
    match lgk.toNat?, c.toNat? with
    | some lgk, some c => joinSp ["I", pf (iconEstimate (α := Float) cpcT lgk c)]
    | _, _ => "bad-op"
  | ["cobs", _, lgk, c, hip, merged] =>
    match lgk.toNat?, c.toNat?, fOfHex hip, merged.toNat? with
    | some lgk, some c, some h, some m => cpcLine { lgK := lgk, numCoupons := c, hip := h, merged := m != 0 }
    | _, _, _, _ => "bad-op"
  | _ => "ok"      -- construction / update ops of real sketches: no model state

def main (args : List String) : IO UInt32 := do
  match args with
  | ["bounds"] => runDriver () (fun _ w => ((), step w))
  | _ => IO.eprintln "usage: dsmodel_bounds bounds"; return 2

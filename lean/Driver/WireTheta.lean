/- dsmodel_wire_theta <gen|doc>: wire-format model driver of the Theta / Tuple / array-of-doubles group.
   `gen`: wire constants as translated from the current headers (DSGen.WireTheta); `doc`: the documented constants. -/
import DSModel.DriverLoop
import DSModel.Wire.ThetaDriver
import DSModel.Wire.TupleDriver
import DSModel.Wire.BitPackDriver
import DSGen.WireTheta
open DS DS.Wire

def genThetaConsts : Theta.Consts :=
  { serVer3 := DSGen.wth_UNCOMPRESSED_SERIAL_VERSION, serVer4 := DSGen.wth_COMPRESSED_SERIAL_VERSION,
    sketchType := DSGen.wth_SKETCH_TYPE, fReadOnly := DSGen.wth_flag_IS_READ_ONLY, fEmpty := DSGen.wth_flag_IS_EMPTY,
    fCompact := DSGen.wth_flag_IS_COMPACT, fOrdered := DSGen.wth_flag_IS_ORDERED }

def genTupleConsts : Tuple.Consts :=
  { serVer := DSGen.wtu_SERIAL_VERSION, serVerLegacy := DSGen.wtu_SERIAL_VERSION_LEGACY, family := DSGen.wtu_SKETCH_FAMILY,
    sketchType := DSGen.wtu_SKETCH_TYPE, sketchTypeLegacy := DSGen.wtu_SKETCH_TYPE_LEGACY,
    fReadOnly := DSGen.wtu_flag_IS_READ_ONLY, fEmpty := DSGen.wtu_flag_IS_EMPTY, fCompact := DSGen.wtu_flag_IS_COMPACT,
    fOrdered := DSGen.wtu_flag_IS_ORDERED }

def genAodConsts : Aod.Consts :=
  { serVer := DSGen.wao_SERIAL_VERSION, family := DSGen.wao_SKETCH_FAMILY, sketchType := DSGen.wao_SKETCH_TYPE,
    fEmpty := DSGen.wao_flag_IS_EMPTY, fHasEntries := DSGen.wao_flag_HAS_ENTRIES, fOrdered := DSGen.wao_flag_IS_ORDERED }

structure Cfg where
  theta : Theta.Consts
  tuple : Tuple.Consts
  aod : Aod.Consts

def step (cfg : Cfg) (_ : Unit) (w : List String) : Unit × String :=
  match w with
  | ["IMG", kind, seed, hex] =>
    match seed.toNat?, parseHexBytes hex with
    | some seed, some b =>
      if kind.startsWith "theta" then ((), Theta.imgLine cfg.theta kind seed b.toList)
      else if kind.startsWith "tuple" then ((), Tuple.imgLine cfg.tuple kind seed b.toList)
      else if kind == "aod" then ((), Aod.imgLine cfg.aod seed b.toList)
      else ((), "bad-kind")
    | _, _ => ((), "bad-op")
  | "ENC" :: kind :: "T" :: rest =>
    if kind.startsWith "theta" then ((), Theta.encLine cfg.theta kind rest) else ((), "bad-kind")
  | "ENC" :: kind :: "U" :: rest =>
    if kind.startsWith "tuple" then ((), Tuple.encLine cfg.tuple kind rest) else ((), "bad-kind")
  | "BP" :: _ => ((), BitPack.bpLine w)
  | "BPT" :: _ => ((), BitPack.bpLine w)
  | _ => ((), "bad-op")

def main (args : List String) : IO UInt32 := do
  let cfg : Cfg := if args.head? == some "doc" then { theta := Theta.documented, tuple := Tuple.documented, aod := Aod.documented }
    else { theta := genThetaConsts, tuple := genTupleConsts, aod := genAodConsts }
  DS.runDriver () (step cfg)

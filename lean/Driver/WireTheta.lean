/- dsmodel_wire_theta <gen|doc>: wire-format model driver of the Theta / Tuple / array-of-doubles group.
   `gen`: wire constants as translated from the current headers (DSGen.WireTheta); `doc`: the documented constants. -/
import DSModel.DriverLoop
import DSModel.Wire.ThetaDriver
import DSModel.Wire.TupleDriver
import DSModel.Wire.BitPackDriver
import DSModel.Wire.GenConsts
open DS DS.Wire

structure Cfg where
  theta : Theta.Consts
  tuple : Tuple.Consts
  aod : Aod.Consts

def step (cfg : Cfg) (_ : Unit) (w : List String) : Unit × String :=
  match w with
  | ["IMG", kind, seed, hex] =>
    match seed.toNat?, parseHexBytes hex with
    | some seed, some b =>
      if kind.startsWith "theta" then ((), Theta.imgLine cfg.theta kind seed b.toList)
      else if kind.startsWith "tuple" then ((), Tuple.imgLine cfg.tuple kind seed b.toList)
      else if kind == "aod" then ((), Aod.imgLine cfg.aod seed b.toList)
      else ((), "bad-kind")
    | _, _ => ((), "bad-op")
  | ["VRD", kind, seed, hex] =>   -- verdict only (corrupted images)
    match seed.toNat?, parseHexBytes hex with
    | some seed, some b =>
      let exp := Theta.expSeedHash seed
      let acc :=
        if kind.startsWith "theta" then (Theta.decode cfg.theta exp b.toList).isSome
        else if kind == "tuple_f64" || kind == "tuple_i64" then (Tuple.decode cfg.tuple Tuple.u64Codec exp b.toList).isSome
        else if kind == "tuple_str" then (Tuple.decode cfg.tuple (Tuple.strCodec 4) exp b.toList).isSome
        else if kind == "tuple_cst" then (Tuple.decode cfg.tuple (Tuple.strCodec 1) exp b.toList).isSome
        else if kind == "aod" then (Aod.decode cfg.aod exp b.toList).isSome
        else false
      ((), if acc then "accept" else "reject")
    | _, _ => ((), "bad-op")
  | "ENC" :: kind :: _seed :: "T" :: rest =>
    if kind.startsWith "theta" then ((), Theta.encLine cfg.theta kind rest) else ((), "bad-kind")
  | "ENC" :: kind :: _seed :: "U" :: rest =>
    if kind.startsWith "tuple" then ((), Tuple.encLine cfg.tuple kind rest) else ((), "bad-kind")
  | "BP" :: _ => ((), BitPack.bpLine w)
  | "BPT" :: _ => ((), BitPack.bpLine w)
  | _ => ((), "bad-op")

def main (args : List String) : IO UInt32 := do
  let cfg : Cfg := if args.head? == some "doc" then { theta := Theta.documented, tuple := Tuple.documented, aod := Aod.documented }
    else { theta := genThetaConsts, tuple := genTupleConsts, aod := genAodConsts }
  DS.runDriver () (step cfg)

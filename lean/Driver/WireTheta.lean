/- dsmodel_wire_theta: wire-format model driver stub (filled in when the family group is built). -/
def main (_args : List String) : IO UInt32 := do
  IO.eprintln "dsmodel_wire_theta: not built yet"
  return 2

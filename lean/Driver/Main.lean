/- dsmodel: line-protocol driver; one sub-command per family. -/
import DSModel.Theta.Driver
import DSGen
open DS

def hashStep (w : List String) : String :=
  match w with
  | ["hash", ty, lit, seed] =>
    match parseInput ty lit, seed.toNat? with
    | some i, some s => match hashInput i (UInt64.ofNat s) with
      | some (h1, _) => s!"H1 {hex64 (h1 >>> (1 : UInt64))}"
      | none => "H ignored"
    | _, _ => "bad-op"
  | ["mm", b, seed] =>
    match parseHexBytes b, seed.toNat? with
    | some b, some s => let (h1, h2) := murmur3 b (UInt64.ofNat s); s!"M {hex64 h1} {hex64 h2}"
    | _, _ => "bad-op"
  | ["seedhash", seed] => match seed.toNat? with
    | some s => s!"S {(seedHash (UInt64.ofNat s)).toNat}"
    | none => "bad-op"
  | _ => "bad-op"

def thetaTunables : Theta.Tunables :=
  { rszNum := DSGen.theta_RESIZE_THRESHOLD_num, rszDen := DSGen.theta_RESIZE_THRESHOLD_den,
    rbdNum := DSGen.theta_REBUILD_THRESHOLD_num, rbdDen := DSGen.theta_REBUILD_THRESHOLD_den,
    minLgK := DSGen.theta_MIN_LG_K }

partial def loop {σ} (h : IO.FS.Stream) (out : IO.FS.Stream) (st : σ) (step : σ → List String → σ × String) : IO Unit := do
  let line ← h.getLine
  if line.isEmpty then return ()
  let w := (line.trimAscii.toString.splitOn " ").filter (· ≠ "")
  if w.isEmpty || (w.head!.startsWith "#") then
    loop h out st step
  else
    let (st', o) := step st w
    out.putStrLn o
    loop h out st' step

def main (args : List String) : IO UInt32 := do
  let stdin ← IO.getStdin
  let stdout ← IO.getStdout
  match args with
  | ["hash"] => loop stdin stdout () (fun _ w => ((), hashStep w)); return 0
  | ["theta"] => loop stdin stdout (#[] : Theta.Objs) (Theta.stepLine thetaTunables); return 0
  | _ => IO.eprintln "usage: dsmodel <family>"; return 2

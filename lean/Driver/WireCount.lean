/-
dsmodel_wire_count: line-protocol driver of the wire models of group `count`
(count-min, frequent items, VarOpt sketch, VarOpt union, EBPPS).  Core Lean only.

  IMG  <kind> <hex>          -> D <project> | re=<0/1> size=<serializedSize> len=<bytes> minpfx=<n> layout=<name:off,...>
                                (or `REJECT` when the documented reader rejects the image or leaves bytes unread)
  PFX  <kind> <hex>          -> one char per strict prefix length 0..len-1: R rejected, A accepted
  CORR <kind> <hex> <npre>   -> one char per (preamble byte, replacement): R, A, or = (replacement equals the original byte)
kinds: cm:<w>:<seed>  fi:{i|s}:<w>  vo:{i|s}  vu:{i|s}  eb:{i|s}   (i = 8-byte arithmetic items, s = std::string items)
-/
import DSModel.Wire.CountMinGen
import DSModel.Wire.FiGen
import DSModel.Wire.VarOptGen
import DSModel.Wire.EbppsGen
import DSModel.Murmur3
import DSModel.DriverLoop
open DS DS.Wire

/-- what the driver needs from a family: full decode -> (content, re-encoded bytes, advertised size, layout); acceptance -/
structure Fam where
  full : Bytes → Option (String × Bytes × Nat × List (String × Nat))
  accepts : Bytes → Bool

def mkFam {σ : Type} (dec : Reader σ) (enc : σ → Bytes) (size : σ → Nat) (proj : σ → String) (lay : σ → List (String × Nat)) : Fam where
  full := fun b => match dec b with
    | some (s, []) => some (proj s, enc s, size s, lay s)
    | _ => none
  accepts := fun b => (dec b).isSome

def cmFam (seed : Nat) : Fam :=
  let c := CountMin.generated
  let want := (DS.seedHash (UInt64.ofNat seed)).toNat
  mkFam (CountMin.decode c) (CountMin.encode c) (CountMin.serializedSize c)
    (fun s => CountMin.project s ++ (if s.seedHash == want then s!" seed={seed}" else s!" seed=MISMATCH({s.seedHash})"))
    CountMin.layout

def fiFam {ι : Type} (sd : Serde ι) : Fam :=
  let c := Fi.generated
  mkFam (Fi.decode c sd) (Fi.encode c sd) (Fi.serializedSize c sd) (Fi.project c sd) Fi.layout

def voFam {ι : Type} (sd : Serde ι) : Fam :=
  let c := VarOpt.generated
  mkFam (VarOpt.decode c sd) (VarOpt.encode c sd) (VarOpt.serializedSize c sd) (VarOpt.project sd) (VarOpt.layout sd)

def vuFam {ι : Type} (sd : Serde ι) : Fam :=
  let c := VarOpt.generated
  let cu := VarOpt.generatedU
  mkFam (VarOpt.uDecode cu c sd) (VarOpt.uEncode cu c sd) (VarOpt.uSerializedSize cu c sd) (VarOpt.uProject sd) (VarOpt.uLayout sd)

def ebFam {ι : Type} (sd : Serde ι) : Fam :=
  let c := Ebpps.generated
  mkFam (Ebpps.decode c sd) (Ebpps.encode c sd) (Ebpps.serializedSize c sd) (Ebpps.project sd) (Ebpps.layout sd)

def famOf (kind : String) : Option Fam :=
  match kind.splitOn ":" with
  | ["cm", _, seed] => seed.toNat?.map cmFam
  | ["fi", "i", _] => some (fiFam serdeU64)
  | ["fi", "s", _] => some (fiFam serdeStr)
  | ["vo", "i"] => some (voFam serdeU64)
  | ["vo", "s"] => some (voFam serdeStr)
  | ["vu", "i"] => some (vuFam serdeU64)
  | ["vu", "s"] => some (vuFam serdeStr)
  | ["eb", "i"] => some (ebFam serdeU64)
  | ["eb", "s"] => some (ebFam serdeStr)
  | _ => none

def minPrefix (f : Fam) (b : Bytes) : Nat := Id.run do
  for n in [0:b.length + 1] do
    if f.accepts (b.take n) then return n
  return b.length + 1

def prefixVerdicts (f : Fam) (b : Bytes) : String := Id.run do
  let mut s := ""
  for n in [0:b.length] do
    s := s.push (if f.accepts (b.take n) then 'A' else 'R')
  return if s.isEmpty then "-" else s

def replacement (b : UInt8) (j : Nat) : UInt8 :=
  match j with
  | 0 => 0x00 | 1 => 0x01 | 2 => 0x7F | 3 => 0x80 | 4 => 0xFF
  | 5 => b ^^^ 1 | 6 => b ^^^ 0x80 | _ => b + 1

def corruptVerdicts (f : Fam) (b : Bytes) (npre : Nat) : String := Id.run do
  let mut s := ""
  let arr := b.toArray
  for pos in [0:npre] do
    for j in [0:8] do
      let o := arr[pos]!
      let v := replacement o j
      if v == o then s := s.push '='
      else s := s.push (if f.accepts (arr.set! pos v).toList then 'A' else 'R')
  return if s.isEmpty then "-" else s

def showLayout (l : List (String × Nat)) : String := ",".intercalate (l.map (fun p => s!"{p.1}:{p.2}"))

def step (_ : Unit) (w : List String) : Unit × String :=
  match w with
  | ["IMG", kind, hex] =>
    match famOf kind, parseHexBytes hex with
    | some f, some ba =>
      let b := ba.toList
      match f.full b with
      | some (content, re, size, lay) =>
        ((), s!"D {content} | re={boolStr (re == b)} size={size} len={b.length} minpfx={minPrefix f b} layout={showLayout lay}")
      | none => ((), "REJECT")
    | _, _ => ((), "ERR bad IMG line")
  | ["PFX", kind, hex] =>
    match famOf kind, parseHexBytes hex with
    | some f, some ba => ((), prefixVerdicts f ba.toList)
    | _, _ => ((), "ERR bad PFX line")
  | ["CORR", kind, hex, npre] =>
    match famOf kind, parseHexBytes hex, npre.toNat? with
    | some f, some ba, some n => ((), corruptVerdicts f ba.toList n)
    | _, _, _ => ((), "ERR bad CORR line")
  | _ => ((), "ERR unknown op")

def main (_args : List String) : IO UInt32 := DS.runDriver () step

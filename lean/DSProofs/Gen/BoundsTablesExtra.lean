/- C06, obligations over the GENERATED tables (3): further per-table SEMANTIC facts that no theorem consumes but that
   structural damage of a table breaks (swapped / shifted rows, a dropped or duplicated entry, a sign, a wrong power of two,
   a wrong harmonic number, …).  Re-proved by `decide +kernel` whenever the headers change. -/
import DSProofs.Gen.BoundsTables
namespace DS.Bounds.Gen
open DSGen.Bounds

theorem all_denPos :
    ((deltaOfNumStdDevs ++ lbEquivTable ++ ubEquivTable ++ cubicXArr ++ cubicYArr ++ harmonicTable ++ relErrHipLb ++ relErrHipUb
      ++ relErrNonHipLb ++ relErrNonHipUb ++ iconCoefficients ++ invPow2 ++ kxpByteTable
      ++ [eulerMascheroni, hllHipRseFactor, hllNonHipRseFactor, couponRseFactor, couponRse, iconErrorConstant, hipErrorConstant]
      ++ DS.Bounds.bodyLits).all denPos
     && compositeXArr.all (fun r => r.all denPos)) = true := by decide +kernel

/-! ### binomial_bounds.hpp -/

/-- delta_of_num_std_devs: 1/2 ≥ δ0 > δ1 > δ2 > δ3 > 0 (tail probabilities of 0,1,2,3 standard deviations) -/
theorem delta_decreasing :
    (decide (deltaOfNumStdDevs.length = 4) && adj (fun a b => qlt b a) deltaOfNumStdDevs
      && qpos (at' deltaOfNumStdDevs 3) && qle (at' deltaOfNumStdDevs 0) DS.Bounds.c0_5) = true := by decide +kernel

/-- … and each column is monotone in the sample count n (lb: 1-sigma column increasing towards 1, 2- and 3-sigma columns
    decreasing; ub: all three increasing): a swapped / duplicated / shifted row breaks this -/
theorem lbEquiv_columns :
    (adj qlt (column lbEquivTable 0 1 121) && adj (fun a b => qlt b a) (column lbEquivTable 1 1 121)
      && adj (fun a b => qlt b a) (column lbEquivTable 2 1 121)) = true := by decide +kernel

theorem ubEquiv_columns :
    (adj qlt (column ubEquivTable 0 1 121) && adj qlt (column ubEquivTable 1 1 121) && adj qlt (column ubEquivTable 2 1 121)) = true := by
  decide +kernel

/-! ### HLL -/

/-- coupon-mode interpolation tables: x strictly increasing from 0, y strictly increasing, y ≥ x (estimate ≥ coupon count) -/
theorem cubic_tables :
    (decide (cubicXArr.length = cubicNumEntries) && decide (cubicYArr.length = cubicNumEntries) && decide (4 ≤ cubicNumEntries)
      && adj qlt cubicXArr && adj qlt cubicYArr && (List.zipWith qle cubicXArr cubicYArr).all id
      && decide (num (at' cubicXArr 0) = 0) && decide (num (at' cubicYArr 0) = 0)) = true := by decide +kernel

/-- composite-estimator x tables: one row per lgK, each strictly increasing and positive -/
theorem composite_rows :
    (decide (compositeXArr.length = hllMaxLgK - hllMinLgK + 1) && decide (compositeYStrides.length = compositeXArr.length)
      && compositeXArr.all (fun r => decide (r.length = compositeNumXArrValues) && adj qlt r && qpos (at' r 0))
      && compositeYStrides.all (fun s => decide (0 < s)) && adj (fun a b => decide (a ≤ b)) compositeYStrides) = true := by decide +kernel

/-- the last x of each row is the raw estimate at which the interpolated value is yStride·(len−1): they agree within 0.1 % -/
theorem composite_endpoints :
    (List.zipWith (fun (r : List Lit) (s : Nat) =>
        let last := at' r (r.length - 1)
        let y : Int := (s * (r.length - 1) : Nat)
        decide ((y * den last - num last).natAbs * 1000 < (num last).natAbs)) compositeXArr compositeYStrides).all id = true := by
  decide +kernel

theorem composite_first_is_empty_raw_estimate :
    ((List.range compositeXArr.length).all fun i =>
        let r := compositeXArr.getD i []
        let x0 := at' r 0
        let cf := correctionFactor (i + hllMinLgK)
        let k : Int := 2 ^ (i + hllMinLgK)
        -- | x0 − cf·k | · 10⁶ < cf·k
        decide ((num x0 * cf.2 - cf.1 * k * den x0).natAbs * 1000000 < (cf.1 * k * den x0).natAbs)) = true := by decide +kernel

theorem harmonic_exact :
    (decide (harmonicTable.length = numExactHarmonic) &&
      (List.range harmonicTable.length).all fun i =>
        let t := at' harmonicTable i
        let h := harmonicFrac i
        decide ((num t * h.2 - h.1 * den t).natAbs * 2 ^ 50 ≤ (h.1 * den t).natAbs)) = true := by decide +kernel

theorem relErr_shrinks_with_lgK :
    ((List.range 3).all fun c =>
      adj (fun a b => qlt b a) (column relErrHipLb c 0 9) && adj (fun a b => qlt b a) (column relErrNonHipLb c 0 9)
      && adj qlt (column relErrHipUb c 0 9) && adj qlt (column relErrNonHipUb c 0 9)) = true := by decide +kernel

/-- HIP is never less accurate than the composite estimator: |HIP rel err| < |non-HIP rel err| entry by entry -/
theorem relErr_hip_tighter :
    ((List.zipWith qlt relErrHipLb relErrNonHipLb).all id && (List.zipWith qlt relErrNonHipUb relErrHipUb).all id) = true := by
  decide +kernel

/-- INVERSE_POWERS_OF_2[i] rounds to the double 2^-i -/
theorem invPow2_is_pow2 :
    (decide (invPow2.length = 256) && (List.range 256).all fun i => decide ((at' invPow2 i).1 = (1023 - i) * 2 ^ 52)) = true := by
  decide +kernel

/-! ### CPC -/

/-- KXP_BYTE_TABLE[b] = Σ_{j<8, bit j of b clear} 2^-(j+1), exactly -/
theorem kxpByte_exact :
    (decide (kxpByteTable.length = 256) &&
      (List.range 256).all fun b =>
        let t := at' kxpByteTable b
        let s : Nat := ((List.range 8).filter (fun j => (b >>> j) % 2 == 0)).foldl (fun acc j => acc + 2 ^ (7 - j)) 0
        decide (num t * 256 = (s : Int) * den t)) = true := by decide +kernel

theorem icon_shape :
    (decide (iconCoefficients.length = (iconPolyDegree + 1) * iconRows) && decide (iconMinLgK = 4) && decide (14 < iconMaxLgK) &&
      (List.range iconRows).all fun i =>
        let r := iconRow i
        decide (signs r = signs (iconRow 0)) && qlt (0, 98, 100) (at' r 0) && qlt (at' r 0) DS.Bounds.c1
        && qlt (0, 33, 100) (at' r 1) && qlt (at' r 1) (0, 334, 1000)) = true := by decide +kernel

/-- on the grid c = j·k/8 up to the exponential threshold the polynomial estimate
    c·P(c/2k)·(1 + (c/k)³/66.774757) is ≥ c (the clamp is inactive) and strictly increasing in c.
    With r = j/8: est/k = (j/8)·T_j/(L·16^deg)·(66774757·512 + 10⁶·j³)/(66774757·512), T_j = iconScaledPoly row j. -/
theorem icon_polynomial_monotone_on_grid :
    ((List.range iconRows).all fun i =>
      let row := iconRow i
      let top := if i + iconMinLgK < 14 then 45 else 44          -- 45/8 ≤ 5.7, 44/8 ≤ 5.6
      let term : Nat → Int := fun j => (66774757 * 512 + 1000000 * j ^ 3 : Nat)
      let w := (List.range top).map fun j => ((j + 1 : Nat) : Int) * iconScaledPoly row (j + 1) * term (j + 1)
      let one : Int := (rowLcm row * 16 ^ iconPolyDegree * (66774757 * 512) : Nat)
      adj (fun a b => decide (a < b)) w
      && ((List.range top).all fun j => decide (one ≤ iconScaledPoly row (j + 1) * term (j + 1)))) = true := by decide +kernel

theorem icon_continuous_at_threshold :
    ((List.range iconRows).all fun i =>
      let small := decide (i + iconMinLgK < 14)
      let thr : Int × Int := if small then (57, 10) else (56, 10)
      let p := iconPolyOverK (iconRow i) thr
      let g := fr DS.Bounds.cIconExp
      let two : Int × Int := ((2 : Int) ^ (if small then 57 else 56), 1)
      let a := fmul p (g.2, g.1)                       -- P/γ
      let b := fmul a (1000, 999)                      -- P/(0.999γ)
      fle (ipow a 10) two && fle two (ipow b 10)) = true := by decide +kernel

end DS.Bounds.Gen

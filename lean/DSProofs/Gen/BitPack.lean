/-
Obligation over GENERATED code (DSGen/BitPackIR.lean = bit_packing.hpp as translated on this run):
every `pack_bits_N` / `unpack_bits_N`, N = 1..63, evaluated symbolically under C integer-promotion rules, has
exactly the documented MSB-first layout, never touches a byte outside its N-byte block, never shifts an `int`
into or beyond its sign bit, and the two `switch` dispatchers call routine N for `case N` (and have no other case).
Checked by kernel evaluation (`decide +kernel`, no axioms).  `DSProofs/Lemmas/BitPackSound.lean` lifts the
symbolic statement to all concrete inputs.

Known deviation of the pinned tree (found by this obligation): `pack_bits_19` ORs into byte 10 before assigning it
(`*ptr++ |= static_cast<uint8_t>(values[4] >> 7);`, bit_packing.hpp line 564), so its layout is the documented one
only on a zero-filled output block.  The byte-vector writer passes a zero-filled vector, the STREAM writer re-uses one
block buffer: `serialize_compressed(std::ostream&)` writes a wrong image for entry width 19 and >= 16 entries
(known finding C09 `theta_v4/eb19/stream-ne-bytes`, proposed_fixes/C09-pack-bits-19.patch).  The statement below holds on
the pinned tree and on the repaired tree, and on no tree with any other deviation; `Gen/BitPackFinding.lean` holds
`bitpack_layouts_full_false` for the pinned tree.
-/
import DSModel.Wire.BitPack
import DSGen.BitPackIR
namespace DS.Wire.BitPack

def currentDeviations : List (Bool × Nat × Nat) := deviations DSGen.BitPackIR.packRoutines DSGen.BitPackIR.unpackRoutines

/-- the full statement: no deviation at all -/
def bitpack_layouts_full : Prop := currentDeviations = []

/-- all 126 layouts are the documented ones — except possibly `pack_bits_19`, which then still has the documented
layout on zero-filled output (status 1) — and the dispatchers are right. -/
theorem bitpack_layouts_ok :
    (currentDeviations = [] ∨ currentDeviations = [(true, 19, 1)]) ∧
    dispatchOk DSGen.BitPackIR.packDispatch DSGen.BitPackIR.unpackDispatch = true := by decide +kernel

end DS.Wire.BitPack

/-
Witness of the known finding C09 `theta_v4/eb19/stream-ne-bytes` on the pinned tree: the full layout statement is false
(`pack_bits_19` ORs into an unassigned byte).  NOT part of the obligations of the check: on a repaired tree this file
stops compiling and `bitpack_layouts_ok` holds by its first disjunct; the check reports which case it found.
-/
import DSProofs.Gen.BitPack
namespace DS.Wire.BitPack

theorem bitpack_layouts_full_false : ¬ bitpack_layouts_full := by
  unfold bitpack_layouts_full; decide +kernel

end DS.Wire.BitPack

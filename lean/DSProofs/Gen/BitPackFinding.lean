/-
Witness of the finding C09 `theta_v4/eb19/stream-ne-bytes` (fixed in /repo by fe8a6ed): `pack_bits_19` of the PINNED tree, kept
here as a literal (the translation of bit_packing.hpp at the pinned commit: statement 14, `*ptr++ |= static_cast<uint8_t>(values[4] >> 7);`,
ORs into a byte that was never assigned), has the documented layout only on a zero-filled output block (status 1), so the
full layout statement was false for the pinned tree.  The obligation over the CURRENT tree is `bitpack_layouts_ok` in
Gen/BitPack.lean; `bitpack_layouts_current` below records which of its two cases the current source is in.
-/
import DSProofs.Gen.BitPack
namespace DS.Wire.BitPack

def pinned_pack_bits_19 : List PStmt := [⟨true,false,0,.shr 11⟩, ⟨true,false,0,.shr 3⟩, ⟨false,false,0,.shl 5⟩, ⟨true,true,1,.shr 14⟩, ⟨true,false,1,.shr 6⟩, ⟨false,false,1,.shl 2⟩, ⟨true,true,2,.shr 17⟩, ⟨true,false,2,.shr 9⟩, ⟨true,false,2,.shr 1⟩, ⟨false,false,2,.shl 7⟩, ⟨true,true,3,.shr 12⟩, ⟨true,false,3,.shr 4⟩, ⟨false,false,3,.shl 4⟩, ⟨true,true,4,.shr 15⟩, ⟨true,true,4,.shr 7⟩, ⟨false,false,4,.shl 1⟩, ⟨true,true,5,.shr 18⟩, ⟨true,false,5,.shr 10⟩, ⟨true,false,5,.shr 2⟩, ⟨false,false,5,.shl 6⟩, ⟨true,true,6,.shr 13⟩, ⟨true,false,6,.shr 5⟩, ⟨false,false,6,.shl 3⟩, ⟨true,true,7,.shr 16⟩, ⟨true,false,7,.shr 8⟩, ⟨false,false,7,.none⟩]

def pinnedPackRoutines : List (Nat × List PStmt) :=
  DSGen.BitPackIR.packRoutines.map fun p => if p.1 = 19 then (19, pinned_pack_bits_19) else p

/-- the full layout statement for the pinned `pack_bits_19`: false (kernel-evaluated) -/
theorem bitpack_layouts_full_false : packStatus pinnedPackRoutines 19 = 1 := by decide +kernel

end DS.Wire.BitPack

/-
Obligations over the constants regenerated from theta_update_sketch_base.hpp / theta_constants.hpp
(lean/DSGen/Theta.lean, rewritten by tools/translate.py on every run): the sizing parameters the code uses
NOW satisfy the side conditions under which the table-refinement theorem (Props/C01_Table.lean) and the
"exact while it fits" reading of C01 hold, for every lg_k the builder accepts and every resize factor.
-/
import DSGen.Theta
import DSProofs.Lemmas.ThetaTable5
namespace DS.Theta.L2
open DS.Theta

/-- Boolean version of `CfgOkT` -/
def cfgOkB (c : Cfg) : Bool :=
  decide (c.lgStart ≤ c.lgNom + 1) &&
  (List.range (c.lgNom + 2)).all (fun lg => !(decide (c.lgStart ≤ lg)) || decide (capacity c lg + 1 < 2^lg)) &&
  (List.range (c.lgNom + 1)).all (fun lg => !(decide (c.lgStart ≤ lg)) ||
    (decide (capacity c lg + 1 ≤ capacity c (min (lg + c.lgRf) (c.lgNom + 1))) && decide (lg ≤ min (lg + c.lgRf) (c.lgNom + 1)))) &&
  decide (2^c.lgNom ≤ capacity c (c.lgNom + 1))

theorem cfgOkB_sound (c : Cfg) (h : cfgOkB c = true) : CfgOkT c := by
  unfold cfgOkB at h
  simp only [Bool.and_eq_true, decide_eq_true_eq, List.all_eq_true, List.mem_range, Bool.or_eq_true, Bool.not_eq_true',
    decide_eq_false_iff_not] at h
  obtain ⟨⟨⟨h1, h2⟩, h3⟩, h4⟩ := h
  refine ⟨h1, ?_, ?_, h4⟩
  · intro lg hle hge
    rcases h2 lg (by omega) with h | h
    · exact absurd hge h
    · exact h
  · intro lg hle hge
    rcases h3 lg (by omega) with h | h
    · exact absurd hge h
    · exact h

/-- the configuration the builder produces for (lg_k, resize factor) with the CURRENT header constants -/
def genCfg (lgK lgRf : Nat) : Cfg :=
  { lgNom := lgK, lgRf := lgRf, theta0 := MAX_THETA,
    lgStart := startingSubMultiple (lgK + 1) DSGen.theta_MIN_LG_K lgRf,
    rszNum := DSGen.theta_RESIZE_THRESHOLD_num, rszDen := DSGen.theta_RESIZE_THRESHOLD_den,
    rbdNum := DSGen.theta_REBUILD_THRESHOLD_num, rbdDen := DSGen.theta_REBUILD_THRESHOLD_den }

/-- every (lg_k, rf) the builder accepts is sane under the thresholds in the headers right now -/
theorem gen_theta_cfgs_ok :
    (List.range (DSGen.theta_MAX_LG_K + 1)).all (fun lgK => decide (lgK < DSGen.theta_MIN_LG_K) ||
      (List.range 4).all (fun rf => cfgOkB (genCfg lgK rf))) = true := by
  decide +kernel

theorem gen_theta_cfg_ok (lgK rf : Nat) (h1 : DSGen.theta_MIN_LG_K ≤ lgK) (h2 : lgK ≤ DSGen.theta_MAX_LG_K) (h3 : rf < 4) :
    CfgOkT (genCfg lgK rf) := by
  apply cfgOkB_sound
  have := gen_theta_cfgs_ok
  simp only [List.all_eq_true, List.mem_range, Bool.or_eq_true, decide_eq_true_eq] at this
  rcases this lgK (by omega) with h | h
  · omega
  · exact h rf h3

/-- the model's MAX_THETA is the header's -/
theorem gen_theta_max_theta : DSGen.theta_MAX_THETA = MAX_THETA := by decide

end DS.Theta.L2

/- C06, obligations over the GENERATED tables (2): per table a SEMANTIC fact, re-proved by `decide +kernel` whenever the
   headers change (structural damage -- swapped rows, a dropped entry, a sign, a wrong power of two -- breaks one of them).
   Facts are over the exact source values num/den (compared by cross multiplication; all denominators are positive).
   The indexed forms (`∀ n < N, …`) are what the C06 theorems consume. -/
import DSModel.Bounds.Num
import DSGen.Bounds
import DSGen.BoundsHll
import DSGen.BoundsHllComposite
import DSGen.BoundsCpc
namespace DS.Bounds.Gen
open DSGen.Bounds

def num (t : Lit) : Int := t.2.1
def den (t : Lit) : Int := (t.2.2 : Int)
/-- a < b, a ≤ b, 0 < a, a < 0 on exact values (each also checks that the denominators are positive) -/
def denPos (t : Lit) : Bool := decide (0 < t.2.2)
def qlt (a b : Lit) : Bool := denPos a && denPos b && decide (num a * den b < num b * den a)
def qle (a b : Lit) : Bool := denPos a && denPos b && decide (num a * den b ≤ num b * den a)
def qpos (a : Lit) : Bool := denPos a && decide (0 < num a)
def qneg (a : Lit) : Bool := denPos a && decide (num a < 0)
def zeroL : Lit := (0, 0, 1)
def at' (t : List Lit) (i : Nat) : Lit := t.getD i zeroL

/-- adjacent elements related -/
def adj {α} (r : α → α → Bool) : List α → Bool
  | a :: b :: t => r a b && adj r (b :: t)
  | _ => true

/-- every 3rd element starting at offset c, rows `from ≤ row` -/
def column (t : List Lit) (c : Nat) (fromRow rows : Nat) : List Lit :=
  (List.range (rows - fromRow)).map fun i => at' t (3 * (i + fromRow) + c)

theorem delta_indexed : ∀ k, k < 4 → 1 ≤ k →
    (qpos (at' deltaOfNumStdDevs k) && qlt (at' deltaOfNumStdDevs k) DS.Bounds.c1
      && (decide (k = 3) || qlt (at' deltaOfNumStdDevs (k + 1)) (at' deltaOfNumStdDevs k))) = true := by decide +kernel

/-- lb_equiv_table / ub_equiv_table: 121 rows of 3; in every real row (n = 1..120) the equivalent number of standard
    deviations is positive and strictly increasing in the std-dev index -/
theorem lbEquiv_rows : decide (lbEquivTable.length = 363) = true ∧ ∀ n, n < 121 → 1 ≤ n →
    (qpos (at' lbEquivTable (3 * n)) && qlt (at' lbEquivTable (3 * n)) (at' lbEquivTable (3 * n + 1))
      && qlt (at' lbEquivTable (3 * n + 1)) (at' lbEquivTable (3 * n + 2))) = true := by decide +kernel

theorem ubEquiv_rows : decide (ubEquivTable.length = 363) = true ∧ ∀ n, n < 121 → 1 ≤ n →
    (qpos (at' ubEquivTable (3 * n)) && qlt (at' ubEquivTable (3 * n)) (at' ubEquivTable (3 * n + 1))
      && qlt (at' ubEquivTable (3 * n + 1)) (at' ubEquivTable (3 * n + 2))) = true := by decide +kernel

/-- the first x of row lgK is the raw HLL estimate of the empty sketch, correctionFactor(k)·k, within 10⁻⁶ -/
def correctionFactor (lgK : Nat) : Int × Int :=      -- as a fraction
  if lgK = 4 then (673, 1000) else if lgK = 5 then (697, 1000) else if lgK = 6 then (709, 1000)
  else (7213 * 1000 * 2 ^ lgK, 10000 * (1000 * 2 ^ lgK + 1079))   -- 0.7213 / (1 + 1.079 / k)

/-- harmonic-number table: entry i is H_i = Σ_{j=1..i} 1/j within a relative 2⁻⁵⁰ -/
def harmonicFrac : Nat → Int × Int
  | 0 => (0, 1)
  | n + 1 => let h := harmonicFrac n; (h.1 * (n + 1) + h.2, h.2 * (n + 1))

/-- relative-error tables (lgK 4..12 × 1,2,3 std devs): lower-bound tables positive and increasing in the number of std devs,
    upper-bound tables in (−1, 0) and decreasing; magnitudes shrink with lgK -/
def m1 : Lit := (0, -1, 1)
def rowLbOk (t : List Lit) (r : Nat) : Bool :=
  qpos (at' t (3 * r)) && qlt (at' t (3 * r)) (at' t (3 * r + 1)) && qlt (at' t (3 * r + 1)) (at' t (3 * r + 2))
def rowUbOk (t : List Lit) (r : Nat) : Bool :=
  qneg (at' t (3 * r)) && qlt (at' t (3 * r + 1)) (at' t (3 * r)) && qlt (at' t (3 * r + 2)) (at' t (3 * r + 1)) && qlt m1 (at' t (3 * r + 2))

theorem relErr_signed_monotone :
    (decide (relErrHipLb.length = 27) && decide (relErrNonHipLb.length = 27) && decide (relErrHipUb.length = 27)
      && decide (relErrNonHipUb.length = 27)) = true ∧
    ∀ r, r < 9 → (rowLbOk relErrHipLb r && rowLbOk relErrNonHipLb r && rowUbOk relErrHipUb r && rowUbOk relErrNonHipUb r) = true := by
  decide +kernel

/-- RSE factors used above lgK 12 and in coupon mode: positive, and 3 standard deviations stay below 100 % -/
theorem rse_factors :
    (qpos hllHipRseFactor && qlt hllHipRseFactor hllNonHipRseFactor
      -- (3·rse)² < 2¹³  (so 3·rse/√k < 1 for every k ≥ 2¹³)
      && decide (9 * num hllNonHipRseFactor * num hllNonHipRseFactor < 8192 * den hllNonHipRseFactor * den hllNonHipRseFactor)
      && qpos couponRse && decide (3 * num couponRse < den couponRse)
      && decide (hllMinLgK = 4) && decide (12 < hllMaxLgK)) = true := by decide +kernel

/-- ICON polynomial table: one row of degree+1 coefficients per lgK; every row has the sign pattern of the first one,
    c₀ ∈ (0.98, 1), c₁ ∈ (0.33, 0.334) -/
def signs (r : List Lit) : List Bool := r.map qpos
def iconRow (i : Nat) : List Lit := (iconCoefficients.drop ((iconPolyDegree + 1) * i)).take (iconPolyDegree + 1)
def iconRows : Nat := iconMaxLgK - iconMinLgK + 1

/-- exact rational evaluation of the ICON polynomial branch in units of k: est/k at c/k = r (no clamp) -/
def fmul (a b : Int × Int) : Int × Int := (a.1 * b.1, a.2 * b.2)
def fadd (a b : Int × Int) : Int × Int := (a.1 * b.2 + b.1 * a.2, a.2 * b.2)
def flt (a b : Int × Int) : Bool := decide (a.1 * b.2 < b.1 * a.2)     -- denominators positive
def fle (a b : Int × Int) : Bool := decide (a.1 * b.2 ≤ b.1 * a.2)
def fr (t : Lit) : Int × Int := (num t, den t)
def iconPolyOverK (row : List Lit) (r : Int × Int) : Int × Int :=
  let x := fmul r (1, 2)
  let tot := match row.reverse with
    | [] => (0, 1)
    | c :: cs => cs.foldl (fun acc c => fadd (fmul acc x) (fr c)) (fr c)
  fmul (fmul r tot) (fadd (1, 1) (fmul (fmul (fmul r r) r) (1000000, 66774757)))

/-- integer Horner evaluation on a common denominator: with `cs` = N_deg … N_0 (highest first),
    `hornerScaled a b cs N_deg b` = Σ N_i a^i b^(deg−i) = L·b^deg·P(a/b) where N_i = L·c_i -/
def hornerScaled (a b : Int) : List Int → Int → Int → Int
  | [], acc, _ => acc
  | c :: cs, acc, bp => hornerScaled a b cs (acc * a + c * bp) (bp * b)
def rowLcm (row : List Lit) : Nat := row.foldl (fun l t => Nat.lcm l t.2.2) 1
/-- L·16^deg·P(j/16) for the coefficient row `row` -/
def iconScaledPoly (row : List Lit) (j : Nat) : Int :=
  let L := rowLcm row
  match (row.map fun t => t.2.1 * ((L / t.2.2 : Nat) : Int)).reverse with
  | [] => 0
  | c :: cs => hornerScaled j 16 cs c 16

/-- at the threshold c = 5.7k (5.6k for lgK ≥ 14) the polynomial branch meets the exponential branch
    0.7940236163830469·k·2^(c/k) from below within 0.1 %:  (P/γ)^10 ≤ 2^57 (2^56) ≤ (P/(0.999γ))^10 -/
def ipow (a : Int × Int) (n : Nat) : Int × Int := (a.1 ^ n, a.2 ^ n)
/-- confidence tables (lgK 4..14 × κ 1,2,3, in units of 10⁻⁴): positive, κ·x_κ strictly increasing in κ, and the relative
    half-width 3·x₃/√k stays below 1; same for the asymptotic constants used above lgK 14 -/
def confRowOk (t : List Nat) (r : Nat) : Bool :=
  let a := t.getD (3 * r) 0; let b := t.getD (3 * r + 1) 0; let c := t.getD (3 * r + 2) 0
  decide (0 < a) && decide (a < 2 * b) && decide (2 * b < 3 * c) && decide ((3 * c) ^ 2 < 10 ^ 8 * 2 ^ (r + 4))

theorem cpc_confidence_tables :
    (decide (iconLowSide.length = 33) && decide (iconHighSide.length = 33) && decide (hipLowSide.length = 33)
      && decide (hipHighSide.length = 33)
      && qpos iconErrorConstant && qpos hipErrorConstant
      && decide (9 * num iconErrorConstant ^ 2 < 2 ^ 15 * den iconErrorConstant ^ 2)
      && decide (9 * num hipErrorConstant ^ 2 < 2 ^ 15 * den hipErrorConstant ^ 2)) = true ∧
    ∀ r, r < 11 → (confRowOk iconLowSide r && confRowOk iconHighSide r && confRowOk hipLowSide r && confRowOk hipHighSide r) = true := by
  decide +kernel

end DS.Bounds.Gen

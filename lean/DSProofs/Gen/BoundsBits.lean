/- C06, obligations over the GENERATED tables (1): for every floating-point element `(bits, num, den)` emitted by the
   translator, `bits` IS the IEEE-754 binary64 round-to-nearest-even image of the exact source value num/den.
   `rn64` is computed by the kernel (`decide +kernel`, no axioms), so the Float side of every table (and of every
   literal written in the hand model, `bodyLits`) is tied to its exact rational side without trusting Python. -/
import DSModel.Bounds.Num
import DSGen.Bounds
import DSGen.BoundsHll
import DSGen.BoundsHllComposite
import DSGen.BoundsCpc
namespace DS.Bounds.Gen

/-- round-to-nearest-even of num/den to binary64 (normal range; 2^64 = "not representable as a normal double") -/
def rn64 (num : Int) (den : Nat) : Nat :=
  if num = 0 then 0 else
  if den = 0 then 2 ^ 64 else
  let a := num.natAbs
  let s := if num < 0 then 2 ^ 63 else 0
  let la := Nat.log2 a
  let ld := Nat.log2 den
  let ge : Bool := if la ≥ ld then decide (a ≥ den <<< (la - ld)) else decide (a <<< (ld - la) ≥ den)
  -- E = e + 1100 where 2^e ≤ a/den < 2^(e+1)
  let E := la + 1100 - ld - (if ge then 0 else 1)
  -- scale so that the quotient has 53 bits: m = round (a / den / 2^(e-52))
  let p := if E ≥ 1152 then a else a <<< (1152 - E)
  let q := if E ≥ 1152 then den <<< (E - 1152) else den
  let m := p / q
  let r := p % q
  let up : Bool := decide (2 * r > q) || (decide (2 * r = q) && m % 2 == 1)
  let m1 := if up then m + 1 else m
  let m2 := if m1 = 2 ^ 53 then 2 ^ 52 else m1
  let E2 := if m1 = 2 ^ 53 then E + 1 else E
  -- biased exponent = e + 1023 = E2 - 77
  if E2 ≤ 77 ∨ E2 ≥ 77 + 2047 then 2 ^ 64
  else s + (E2 - 77) * 2 ^ 52 + (m2 - 2 ^ 52)

def bitsOk (t : Lit) : Bool := rn64 t.2.1 t.2.2 == t.1

-- sanity: known patterns
example : rn64 1 1 = 0x3ff0000000000000 := by decide +kernel
example : rn64 1 10 = 0x3fb999999999999a := by decide +kernel
example : rn64 (-1) 3 = 0xbfd5555555555555 := by decide +kernel
example : rn64 1 (2 ^ 255) = (1023 - 255) * 2 ^ 52 := by decide +kernel

theorem bodyLits_bits : DS.Bounds.bodyLits.all bitsOk = true := by decide +kernel

open DSGen.Bounds
theorem deltaOfNumStdDevs_bits : deltaOfNumStdDevs.all bitsOk = true := by decide +kernel
theorem lbEquivTable_bits : lbEquivTable.all bitsOk = true := by decide +kernel
theorem ubEquivTable_bits : ubEquivTable.all bitsOk = true := by decide +kernel
theorem cubicXArr_bits : cubicXArr.all bitsOk = true := by decide +kernel
theorem cubicYArr_bits : cubicYArr.all bitsOk = true := by decide +kernel
theorem harmonicTable_bits : harmonicTable.all bitsOk = true := by decide +kernel
theorem relErr_bits : (relErrHipLb ++ relErrHipUb ++ relErrNonHipLb ++ relErrNonHipUb).all bitsOk = true := by decide +kernel
theorem hllConsts_bits : [eulerMascheroni, hllHipRseFactor, hllNonHipRseFactor, couponRseFactor, couponRse].all bitsOk = true := by
  decide +kernel
theorem compositeXArr_bits : compositeXArr.all (fun row => row.all bitsOk) = true := by decide +kernel
theorem iconCoefficients_bits : iconCoefficients.all bitsOk = true := by decide +kernel
theorem cpcConsts_bits : [iconErrorConstant, hipErrorConstant].all bitsOk = true := by decide +kernel
theorem invPow2_bits : invPow2.all bitsOk = true := by decide +kernel
theorem kxpByteTable_bits : kxpByteTable.all bitsOk = true := by decide +kernel

end DS.Bounds.Gen

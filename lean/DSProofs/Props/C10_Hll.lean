/-
C10 (HLL group) — the bytes follow the documented HLL layout.  The documented contract is written here BY HAND
(`docConsts`, the literal offsets/ids below, transcribed from the layout comments of hll/include/HllUtil.hpp and
HllSketchImpl-internal.hpp, cf. DESIGN.md Appendix A); the code side is lean/DSGen/WireHll.lean, regenerated from the
CURRENT headers by tools/trules/wire_hll.py on every run.  A consistent writer+reader change of any of them passes
every round trip but breaks a theorem here (and the committed baseline corpus no longer decodes).
HLL has a single serial version (1); the only older-writer tolerance of the readers is an absent lg_arr byte
(`legacy_set_decode_encode`).
-/
import DSProofs.Lemmas.WireHllSize
import DSModel.Wire.HllGen
import DSProofs.Props.C09_Hll

namespace DS.Wire.Hll
open DS.Wire

/-- the documented value constants -/
def docConsts : Consts where
  serVer := 1
  familyId := 7
  listPreInts := 2
  setPreInts := 3
  hllPreInts := 10
  emptyMask := 4
  compactMask := 8
  oooMask := 16
  fullSizeMask := 32
  lgInitListSize := 3
  lgInitSetSize := 5
  resizeNumer := 3
  resizeDenom := 4
  lgAuxArrInts := [0, 2, 2, 2, 2, 2, 2, 3, 3, 3, 4, 4, 5, 5, 6, 7, 8, 9, 10, 11, 12, 13, 14, 15, 16, 17, 18]
  keyBits := 26

/-- Every wire constant extracted from the current headers equals its documented value. -/
theorem wire_consts_documented :
    DSGen.whll_SER_VER = 1 ∧ DSGen.whll_FAMILY_ID = 7 ∧
    DSGen.whll_EMPTY_FLAG_MASK = 4 ∧ DSGen.whll_COMPACT_FLAG_MASK = 8 ∧ DSGen.whll_OUT_OF_ORDER_FLAG_MASK = 16 ∧
    DSGen.whll_FULL_SIZE_FLAG_MASK = 32 ∧
    DSGen.whll_PREAMBLE_INTS_BYTE = 0 ∧ DSGen.whll_SER_VER_BYTE = 1 ∧ DSGen.whll_FAMILY_BYTE = 2 ∧ DSGen.whll_LG_K_BYTE = 3 ∧
    DSGen.whll_LG_ARR_BYTE = 4 ∧ DSGen.whll_FLAGS_BYTE = 5 ∧ DSGen.whll_LIST_COUNT_BYTE = 6 ∧ DSGen.whll_HLL_CUR_MIN_BYTE = 6 ∧
    DSGen.whll_MODE_BYTE = 7 ∧
    DSGen.whll_LIST_INT_ARR_START = 8 ∧ DSGen.whll_LIST_PREINTS = 2 ∧
    DSGen.whll_HASH_SET_COUNT_INT = 8 ∧ DSGen.whll_HASH_SET_INT_ARR_START = 12 ∧ DSGen.whll_HASH_SET_PREINTS = 3 ∧
    DSGen.whll_HLL_PREINTS = 10 ∧ DSGen.whll_HLL_BYTE_ARR_START = 40 ∧ DSGen.whll_HIP_ACCUM_DOUBLE = 8 ∧
    DSGen.whll_KXQ0_DOUBLE = 16 ∧ DSGen.whll_KXQ1_DOUBLE = 24 ∧ DSGen.whll_CUR_MIN_COUNT_INT = 32 ∧ DSGen.whll_AUX_COUNT_INT = 36 ∧
    DSGen.whll_EMPTY_SKETCH_SIZE_BYTES = 8 ∧
    DSGen.whll_KEY_BITS_26 = 26 ∧ DSGen.whll_VAL_BITS_6 = 6 ∧ DSGen.whll_MIN_LOG_K = 4 ∧ DSGen.whll_MAX_LOG_K = 21 ∧
    DSGen.whll_LG_INIT_LIST_SIZE = 3 ∧ DSGen.whll_LG_INIT_SET_SIZE = 5 ∧ DSGen.whll_RESIZE_NUMER = 3 ∧ DSGen.whll_RESIZE_DENOM = 4 ∧
    DSGen.whll_AUX_TOKEN = 15 ∧
    DSGen.whll_LG_AUX_ARR_INTS = [0, 2, 2, 2, 2, 2, 2, 3, 3, 3, 4, 4, 5, 5, 6, 7, 8, 9, 10, 11, 12, 13, 14, 15, 16, 17, 18] ∧
    -- mode byte: cur_mode in the low 2 bits (LIST 0, SET 1, HLL 2), tgt_type in the next 2 (HLL_4 0, HLL_6 1, HLL_8 2)
    DSGen.whll_CUR_MODE_MASK = 3 ∧ DSGen.whll_TGT_SHIFT = 2 ∧ DSGen.whll_TGT_MASK = 3 ∧
    DSGen.whll_MODE_LIST = 0 ∧ DSGen.whll_MODE_SET = 1 ∧ DSGen.whll_MODE_HLL = 2 ∧
    DSGen.whll_TGT_HLL_4 = 0 ∧ DSGen.whll_TGT_HLL_6 = 1 ∧ DSGen.whll_TGT_HLL_8 = 2 ∧
    DSGen.whll_TGT_HLL_4_SHIFT = 2 ∧ DSGen.whll_TGT_HLL_6_SHIFT = 2 ∧ DSGen.whll_TGT_HLL_8_SHIFT = 2 ∧
    -- register array sizes: 4-bit 2^(lg_k-1), 6-bit (3·2^lg_k >> 2) + 1, 8-bit 2^lg_k
    DSGen.whll_ARR4_SHIFT_SUB = 1 ∧ DSGen.whll_ARR6_MUL = 3 ∧ DSGen.whll_ARR6_SHR = 2 ∧ DSGen.whll_ARR6_ADD = 1 ∧
    DSGen.whll_ARR8_SHIFT_SUB = 0 := by
  decide

/-- hence the model runs with exactly the documented constants -/
theorem genConsts_documented : genConsts = docConsts := rfl

/-- preamble-ints code of an image kind -/
def preInts (c : Consts) : Img → Nat
  | .list _ => c.listPreInts
  | .set _ => c.setPreInts
  | .hll _ => c.hllPreInts

/-- The model's sequential layout puts every header byte at the offset the CURRENT headers name for it. -/
theorem header_at_generated_offsets (c : Consts) (s : Img) :
    (encode c s)[DSGen.whll_PREAMBLE_INTS_BYTE]? = some (UInt8.ofNat (preInts c s % 256)) ∧
    (encode c s)[DSGen.whll_SER_VER_BYTE]? = some (UInt8.ofNat (c.serVer % 256)) ∧
    (encode c s)[DSGen.whll_FAMILY_BYTE]? = some (UInt8.ofNat (c.familyId % 256)) ∧
    (encode c s)[DSGen.whll_LG_K_BYTE]? = some (UInt8.ofNat (s.hdr.lgK % 256)) ∧
    (encode c s)[DSGen.whll_LG_ARR_BYTE]? = some (UInt8.ofNat (s.hdr.lgArr % 256)) ∧
    (encode c s)[DSGen.whll_FLAGS_BYTE]? = some (UInt8.ofNat (s.hdr.flags % 256)) ∧
    (encode c s)[DSGen.whll_LIST_COUNT_BYTE]? = some (UInt8.ofNat (s.hdr.b6 % 256)) ∧
    (encode c s)[DSGen.whll_HLL_CUR_MIN_BYTE]? = some (UInt8.ofNat (s.hdr.b6 % 256)) ∧
    (encode c s)[DSGen.whll_MODE_BYTE]? = some (UInt8.ofNat (s.hdr.mode % 256)) := by
  cases s <;> exact ⟨rfl, rfl, rfl, rfl, rfl, rfl, rfl, rfl, rfl⟩

/-- … the coupon arrays start at LIST_INT_ARR_START / HASH_SET_INT_ARR_START, the set count sits at HASH_SET_COUNT_INT … -/
theorem list_set_at_generated_offsets (c : Consts) (l : ListImg) (s : SetImg) :
    (encode c (.list l)).drop DSGen.whll_LIST_INT_ARR_START = wU32s l.coupons ∧
    (encode c (.set s)).drop DSGen.whll_HASH_SET_COUNT_INT = w32 s.count ++ (encode c (.set s)).drop DSGen.whll_HASH_SET_INT_ARR_START ∧
    (encode c (.set s)).drop DSGen.whll_HASH_SET_INT_ARR_START = wU32s s.slots := by
  have d8 : (encode c (.set s)).drop 8 = w32 s.count ++ wU32s s.slots := by
    simp only [encode, encodeSet]; exact drop_append_of_length (length_encodeHdr _ _ _)
  have d12 : (encode c (.set s)).drop 12 = wU32s s.slots := by
    rw [show (12 : Nat) = 8 + 4 from rfl, ← List.drop_drop, d8]
    exact drop_append_of_length (by simp [w32, length_wLe])
  refine ⟨?_, ?_, ?_⟩
  · simp only [encode, encodeList]; exact drop_append_of_length (length_encodeHdr _ _ _)
  · rw [show DSGen.whll_HASH_SET_COUNT_INT = 8 from rfl, show DSGen.whll_HASH_SET_INT_ARR_START = 12 from rfl, d8, d12]
  · exact d12

/-- … and the HLL estimator fields, counters, registers and aux area at HIP_ACCUM_DOUBLE, KXQ0_DOUBLE, KXQ1_DOUBLE,
CUR_MIN_COUNT_INT, AUX_COUNT_INT, HLL_BYTE_ARR_START. -/
theorem hll_at_generated_offsets (c : Consts) (s : HllImg) :
    let b := encode c (.hll s)
    b.drop DSGen.whll_HIP_ACCUM_DOUBLE = w64 s.hip ++ b.drop DSGen.whll_KXQ0_DOUBLE ∧
    b.drop DSGen.whll_KXQ0_DOUBLE = w64 s.kxq0 ++ b.drop DSGen.whll_KXQ1_DOUBLE ∧
    b.drop DSGen.whll_KXQ1_DOUBLE = w64 s.kxq1 ++ b.drop DSGen.whll_CUR_MIN_COUNT_INT ∧
    b.drop DSGen.whll_CUR_MIN_COUNT_INT = w32 s.numAtCurMin ++ b.drop DSGen.whll_AUX_COUNT_INT ∧
    b.drop DSGen.whll_AUX_COUNT_INT = w32 s.auxCount ++ b.drop DSGen.whll_HLL_BYTE_ARR_START ∧
    b.drop DSGen.whll_HLL_BYTE_ARR_START = s.regs ++ wU32s s.aux := by
  intro b
  have d8 : b.drop 8 = w64 s.hip ++ (w64 s.kxq0 ++ (w64 s.kxq1 ++ (w32 s.numAtCurMin ++ (w32 s.auxCount ++ (s.regs ++ wU32s s.aux))))) := by
    simp only [b, encode, encodeHll]; exact drop_append_of_length (length_encodeHdr _ _ _)
  have d16 : b.drop 16 = w64 s.kxq0 ++ (w64 s.kxq1 ++ (w32 s.numAtCurMin ++ (w32 s.auxCount ++ (s.regs ++ wU32s s.aux)))) := by
    rw [show (16 : Nat) = 8 + 8 from rfl, ← List.drop_drop, d8]; exact drop_append_of_length (by simp [w64, length_wLe])
  have d24 : b.drop 24 = w64 s.kxq1 ++ (w32 s.numAtCurMin ++ (w32 s.auxCount ++ (s.regs ++ wU32s s.aux))) := by
    rw [show (24 : Nat) = 16 + 8 from rfl, ← List.drop_drop, d16]; exact drop_append_of_length (by simp [w64, length_wLe])
  have d32 : b.drop 32 = w32 s.numAtCurMin ++ (w32 s.auxCount ++ (s.regs ++ wU32s s.aux)) := by
    rw [show (32 : Nat) = 24 + 8 from rfl, ← List.drop_drop, d24]; exact drop_append_of_length (by simp [w64, length_wLe])
  have d36 : b.drop 36 = w32 s.auxCount ++ (s.regs ++ wU32s s.aux) := by
    rw [show (36 : Nat) = 32 + 4 from rfl, ← List.drop_drop, d32]; exact drop_append_of_length (by simp [w32, length_wLe])
  have d40 : b.drop 40 = s.regs ++ wU32s s.aux := by
    rw [show (40 : Nat) = 36 + 4 from rfl, ← List.drop_drop, d36]; exact drop_append_of_length (by simp [w32, length_wLe])
  rw [show DSGen.whll_HIP_ACCUM_DOUBLE = 8 from rfl, show DSGen.whll_KXQ0_DOUBLE = 16 from rfl,
      show DSGen.whll_KXQ1_DOUBLE = 24 from rfl, show DSGen.whll_CUR_MIN_COUNT_INT = 32 from rfl,
      show DSGen.whll_AUX_COUNT_INT = 36 from rfl, show DSGen.whll_HLL_BYTE_ARR_START = 40 from rfl]
  rw [d8, d16, d24, d32, d36, d40]
  exact ⟨rfl, rfl, rfl, rfl, rfl, rfl⟩

/-- The model's mode-byte accessors and register-array sizes are the ones the current code computes
(`modeByte & CUR_MODE_MASK`, `(modeByte >> TGT_SHIFT) & TGT_MASK`, `hll4/6/8ArrBytes`). -/
theorem mode_byte_and_array_sizes_as_coded (h : Hdr) (lgK : Nat) :
    h.curMode = h.mode &&& DSGen.whll_CUR_MODE_MASK ∧
    h.tgt = (h.mode >>> DSGen.whll_TGT_SHIFT) &&& DSGen.whll_TGT_MASK ∧
    arrBytes DSGen.whll_TGT_HLL_4 lgK = 2 ^ (lgK - DSGen.whll_ARR4_SHIFT_SUB) ∧
    arrBytes DSGen.whll_TGT_HLL_6 lgK = ((2 ^ lgK * DSGen.whll_ARR6_MUL) >>> DSGen.whll_ARR6_SHR) + DSGen.whll_ARR6_ADD ∧
    arrBytes DSGen.whll_TGT_HLL_8 lgK = 2 ^ (lgK - DSGen.whll_ARR8_SHIFT_SUB) := by
  refine ⟨?_, ?_, rfl, ?_, rfl⟩
  · show h.mode % 4 = h.mode &&& (2 ^ 2 - 1)
    rw [Nat.and_two_pow_sub_one_eq_mod]
  · show (h.mode / 4) % 4 = (h.mode >>> 2) &&& (2 ^ 2 - 1)
    rw [Nat.and_two_pow_sub_one_eq_mod, Nat.shiftRight_eq_div_pow]
  · show 3 * 2 ^ lgK / 4 + 1 = ((2 ^ lgK * 3) >>> 2) + 1
    rw [Nat.shiftRight_eq_div_pow, Nat.mul_comm]

/-- Older writers left byte 4 (lg_arr) zero; the readers then recompute the table size from the count.  Such set
images (only `Valid`, not writer-consistent) round-trip as well. -/
theorem legacy_set_decode_encode (c : Consts) (hc : c.ok = true) (s : SetImg) (hv : s.Valid c) (tail : Bytes) :
    decode c (encodeSet c s ++ tail) = some (Img.set s, tail) :=
  set_decode_encode_valid c hc false s hv tail

/-! ### non-vacuity -/

/-- compact set image of an older writer: lg_arr byte 0, 3 coupons -/
def exSetLegacy : SetImg := {
  h := { lgK := 11, lgArr := 0, flags := 8, b6 := 0, mode := 9 }, count := 3,
  slots := [0x04000021, 0x08000004, 0x0c000109] }
/-- updatable set image with lg_arr byte 0 and 30 coupons: the table size 2^6 is recomputed from the count -/
def exSetLegacyUpd : SetImg := {
  h := { lgK := 11, lgArr := 0, flags := 0, b6 := 0, mode := 9 }, count := 30,
  slots := (List.range 30).map (fun i => 0x04000000 + i) ++ List.replicate 34 0 }

example : exSetLegacy.Valid genConsts ∧ exSetLegacyUpd.Valid genConsts ∧ setLgArr genConsts exSetLegacyUpd.h 30 = 6 := by
  decide
example : genConsts.ok = true ∧ docConsts.ok = true := by decide

end DS.Wire.Hll

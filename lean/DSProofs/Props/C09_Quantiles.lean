/-
C09 (classic quantiles) — serialization round trip of the quantiles image.

ONLY property theorems and their non-vacuity examples (helper lemmas: Lemmas/WireQuant*.lean).
Model: DSModel/Wire/Quantiles.lean, tied to quantiles_sketch_impl.hpp by `./check c09_quant`.
All statements: every lawful item serde, every constant set with `CfgOK`, every well-formed image
(any serial version the reader accepts), every tail.
-/
import DSModel.Wire.QuantilesCode
import DSProofs.Lemmas.WireQuantQuantiles
namespace DS.Wire.Quantiles
open Reader

/-- the reader recovers exactly the image state and consumes exactly the image -/
theorem decode_encode (sd : Serde) (hs : sd.Lawful) (c : Cfg) (hc : CfgOK c) (s : Image) (tail : Bytes)
    (hw : WF sd c s = true) : decode sd c (encode sd c s ++ tail) = some (s, tail) := by
  obtain ⟨hfam, _, _⟩ := hc
  simp only [WF, Bool.and_eq_true, decide_eq_true_eq] at hw
  obtain ⟨⟨⟨⟨⟨⟨⟨hpre, hver⟩, hfl⟩, hk⟩, hun⟩, hvk⟩, hhv⟩, hb⟩ := hw
  simp only [decode, encode, header, List.append_assoc]
  rw [bind_step (u8_w8 s.pre (by omega) _), bind_step (u8_w8 s.ver (by omega) _), bind_step (u8_w8 c.family (by omega) _),
    bind_step (u8_w8 s.flags (by omega) _), bind_step (u16_w16 s.k hk _), bind_step (u16_w16 s.unused hun _)]
  rw [guard_true_step (by simp [hvk, hhv])]
  obtain ⟨pre, ver, flags, k, unused, body⟩ := s
  cases body with
  | none =>
    simp only at hb
    simp [hb, Reader.pure]
  | some b =>
    simp only [Bool.and_eq_true, Bool.not_eq_true'] at hb
    obtain ⟨he, hbw⟩ := hb
    simp only [he, Bool.false_eq_true, if_false]
    exact decodeBody_encode sd hs c pre ver flags k unused b tail hbw

/-- the image has exactly `serializedSize` bytes -/
theorem size_eq (sd : Serde) (c : Cfg) (hc : CfgOK c) (s : Image) :
    (encode sd c s).length = serializedSize sd c s := by
  obtain ⟨_, he, hd⟩ := hc
  obtain ⟨pre, ver, flags, k, unused, body⟩ := s
  cases body with
  | none => simp [encode, serializedSize, length_header, he]
  | some b =>
    simp only [encode, serializedSize, encodeBody, List.length_append, length_header, length_w64, sizeItems, hd]
    by_cases hv : (ver == c.ver1) = true
    · simp only [hv, if_true, length_w64]; omega
    · simp only [hv]; simp only [Bool.false_eq_true, if_false, List.length_nil]; omega

/-- a compact image (what the current writer emits: serial version 3 with the compact flag) stores no surplus base-buffer slots -/
theorem extraCount_compact (c : Cfg) (ver flags k n : Nat) (h : isCompact c ver flags = true) :
    extraCount c ver flags k n = 0 := by
  simp [extraCount, h]

/-- ... and then `serializedSize` is the advertised `get_serialized_size_bytes`: DATA_START + min + max + the retained items -/
theorem size_current (sd : Serde) (c : Cfg) (s : Image) (b : Body) (hb : s.body = some b) (hv : s.ver ≠ c.ver1)
    (hex : b.extra = []) :
    serializedSize sd c s = c.dataStart + (sd.enc b.min).length + (sd.enc b.max).length + sizeItems sd b.bb +
      (encList (encItems sd) b.levels).length := by
  have hne : (s.ver == c.ver1) = false := by simpa using hv
  simp [serializedSize, hb, hne, hex, sizeItems, encItems, encList]

/-- the documented constant set -/
def docCfg : Cfg :=
  { family := 8, ver1 := 1, ver2 := 2, ver3 := 3, preShort := 1, preFull := 2, bitEmpty := 2, bitCompact := 3, bitSorted := 4,
    emptySize := 8, dataStart := 16, minK := 2, maxK := 32768,
    validHeaders := [38, 164, 42, 72, 47, 46, 79, 78, 77, 76] }

example : CfgOK docCfg := by decide

/-- non-vacuity: k = 2, n = 5 (base buffer 1 item, level 0 valid) as the current writer emits it, 8-byte items -/
def exImage : Image :=
  { pre := 2, ver := 3, flags := 24, k := 2, unused := 0,
    body := some { n := 5, min := [1,0,0,0,0,0,0,0], max := [5,0,0,0,0,0,0,0], v1pad := 0, bb := [[5,0,0,0,0,0,0,0]], extra := [],
                   levels := [[[2,0,0,0,0,0,0,0], [4,0,0,0,0,0,0,0]]] } }

example : WF (Serde.fixed 8) docCfg exImage = true := by decide
example : Current docCfg exImage = true := by decide
example : WF Serde.lpString docCfg { pre := 1, ver := 3, flags := 28, k := 128, unused := 0, body := none } = true := by decide

/-- the constants the CURRENT headers define satisfy the side conditions, so the theorems above apply to the model the
correspondence check runs (`codeCfg` = DSGen values; a changed flag position / size constant breaks this obligation) -/
theorem codeCfg_ok : CfgOK codeCfg := by decide

/-- round trip at the constants of the current headers -/
theorem decode_encode_code (sd : Serde) (hs : sd.Lawful) (s : Image) (tail : Bytes) (hw : WF sd codeCfg s = true) :
    decode sd codeCfg (encode sd codeCfg s ++ tail) = some (s, tail) :=
  decode_encode sd hs codeCfg codeCfg_ok s tail hw

end DS.Wire.Quantiles

import DSModel.Req.Driver
namespace DS.Req
theorem placeholder : True := trivial
end DS.Req

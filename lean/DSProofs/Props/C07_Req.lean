/-
C07 (REQ part) — the REQ sketch conserves weight, keeps exact extremes and answers coherently.

Every theorem is about the executable model `DS.Req` (DSModel/Req/*.lean) of `req_compactor` + `req_sketch` and is quantified
over: every admissible tunable set `T` (`TunOK`, discharged for the values regenerated from the headers: `genTun_ok`), every
type ρ and functions `F` implementing the float section-size schedule (the driver uses Float32), every history `ops` of
new / update / merge / copy / query operations over any number of live sketches (any k, both accuracy modes, arbitrary merge
trees, empty operands, unequal k), every coin supply `coins`, and every object `id` live at the end.
`inputOf ops id` is the specification: the items fed to that object through updates, merges and copies.
Only property statements live here; helper lemmas are in DSProofs/Lemmas/Req*.lean.
-/
import DSProofs.Lemmas.ReqExact
import DSProofs.Lemmas.ReqBound
import DSGen.Req
namespace DS.Req

variable {ρ : Type}

/-- the tunables as regenerated from the CURRENT headers by tools/trules/req.py -/
def genTun : Tun :=
  { minK := DSGen.req_MIN_K, initSections := DSGen.req_INIT_NUM_SECTIONS, multiplier := DSGen.req_MULTIPLIER,
    lazy := DSGen.req_LAZY_COMPRESSION, initCoinRandom := DSGen.req_INITIAL_COIN_RANDOM }

/-- the same constants with the PINNED shape of the compactor constructor (`coin_(false)`): used by the witnesses and examples, which
are statements about that shape whatever the headers have now -/
def pinTun : Tun := { genTun with initCoinRandom := false }

/-- the decidable side conditions hold for the current header values (re-checked whenever DSGen/Req.lean changes) -/
theorem req_genTun_ok : TunOK genTun := by constructor <;> decide
theorem req_pinTun_ok : TunOK pinTun := by constructor <;> decide

/-- the model refines the specification: the ghost record of everything fed to a sketch is exactly `inputOf` -/
theorem req_input_refines {T : Tun} (hT : TunOK T) (F : SecFns ρ) (ops : List Op) (coins : List Bool) (id : Nat) (s : Sketch ρ)
    (h : (run T F ops coins).1.get id = some s) :
    inputOf ops id = some (entered0 s) ∧ SInv T s := by
  obtain ⟨sp, h1, h2⟩ := run_rel hT F ops coins id s h
  exact ⟨by simp [inputOf, h1, h2.2.2], h2.1⟩

/-- n_exact: `get_n()` is the number of accepted items, merged ones included -/
theorem req_n_exact {T : Tun} (hT : TunOK T) (F : SecFns ρ) (ops : List Op) (coins : List Bool) (id : Nat) (s : Sketch ρ)
    (h : (run T F ops coins).1.get id = some s) :
    ∃ items, inputOf ops id = some items ∧ s.n = items.length := by
  obtain ⟨h1, h2⟩ := req_input_refines hT F ops coins id s h
  exact ⟨_, h1, h2.ent⟩

/-- minmax_exact: min/max item are absent exactly for the empty input, and otherwise are members of the input bounding all of it -/
theorem req_minmax_exact {T : Tun} (hT : TunOK T) (F : SecFns ρ) (ops : List Op) (coins : List Bool) (id : Nat) (s : Sketch ρ)
    (h : (run T F ops coins).1.get id = some s) :
    ∃ items, inputOf ops id = some items ∧
      ((items = [] ∧ s.minItem = none ∧ s.maxItem = none) ∨
       (∃ lo hi, s.minItem = some lo ∧ s.maxItem = some hi ∧ lo ∈ items ∧ hi ∈ items ∧ ∀ y ∈ items, lo ≤ y ∧ y ≤ hi)) := by
  obtain ⟨h1, h2⟩ := req_input_refines hT F ops coins id s h
  refine ⟨_, h1, ?_⟩
  rcases h2.mn with ⟨e, m⟩ | ⟨lo, m1, m2, m3⟩
  · rcases h2.mx with ⟨_, m'⟩ | ⟨hi, _, m2', _⟩
    · exact Or.inl ⟨e, m, m'⟩
    · rw [e] at m2'; simp at m2'
  · rcases h2.mx with ⟨e, _⟩ | ⟨hi, n1, n2, n3⟩
    · rw [e] at m2; simp at m2
    · exact Or.inr ⟨lo, hi, m1, n1, m2, n2, fun y hy => ⟨m3 y hy, n3 y hy⟩⟩

example : ∃ s : Sketch Unit, (run pinTun ⟨fun _ => (), id, fun _ => 0⟩ [.new 0 4 true, .upd 0 5, .upd 0 (-3), .new 1 4 true, .upd 1 9, .merge 0 1] []).1.get 0 = some s
    ∧ s.n = 3 ∧ s.minItem = some (-3) ∧ s.maxItem = some 9 := ⟨_, rfl, by decide +kernel⟩

/-- the code never throws "compaction range error": in every reachable state a nominally full compactor has a
compaction range of even length ≥ 2 inside its buffer -/
theorem req_compaction_range_ok {T : Tun} (hT : TunOK T) (F : SecFns ρ) (ops : List Op) (coins : List Bool) :
    (run T F ops coins).2.throws = false :=
  (runOps_rel hT F ops ([] : Store ρ) [] (Acc.init coins) trivial).2

/-- weight_conserved, the full statement: iterating `begin() … end()` yields exactly `num_retained` pairs whose weights sum to n -/
def req_weight_conserved_full : Prop :=
  ∀ (T : Tun), TunOK T → ∀ (F : SecFns Unit) (ops : List Op) (coins : List Bool) (id : Nat) (s : Sketch Unit),
    (run T F ops coins).1.get id = some s →
    ∃ l, s.iterate = some l ∧ l.length = s.numRetained ∧ (l.map (·.2)).sum = s.n

/-- FALSE for the current code: on an empty sketch `begin() ≠ end()` (the iterator starts inside compactor 0 without
checking that it holds anything), so the loop `for (it = begin(); it != end(); ++it)` reads outside the buffer (D3).
Witness: the history `new 0 4 lra`. Replayed on the real code by `./check c07req` (oracle key `iter-begin-ne-end-on-empty`). -/
theorem req_weight_conserved_full_false : ¬ req_weight_conserved_full := by
  intro h
  have := h pinTun req_pinTun_ok ⟨fun _ => (), id, fun _ => 0⟩ [.new 0 4 false] [] 0 _ rfl
  obtain ⟨l, hl, _⟩ := this
  have hnone : (Sketch.new pinTun (⟨fun _ => (), id, fun _ => 0⟩ : SecFns Unit) 4 false false).iterate = none := by decide +kernel
  have e : (Acc.init []).peek = false := rfl
  rw [e, hnone] at hl; exact absurd hl (by simp)

/-- the proved part: for every NON-EMPTY sketch the iterator reaches `end()` after exactly `num_retained` valid reads and the
weights `2^lg_weight` sum to n (all histories, all coins).  Missing for the full statement: the empty sketch (see above). -/
theorem req_weight_conserved_partial {T : Tun} (hT : TunOK T) (F : SecFns ρ) (ops : List Op) (coins : List Bool) (id : Nat) (s : Sketch ρ)
    (h : (run T F ops coins).1.get id = some s) (hn : s.n ≠ 0) :
    ∃ l, s.iterate = some l ∧ l.length = s.numRetained ∧ (l.map (·.2)).sum = s.n ∧
      l = s.compactors.flatMap (fun c => c.items.map (fun x => (x, 2 ^ c.lgWeight))) := by
  obtain ⟨_, h2⟩ := req_input_refines hT F ops coins id s h
  refine ⟨allPairs s.compactors, iterate_of_AllNE s h2.nonnil (h2.ne hn) h2.ret, ?_, ?_, rfl⟩
  · rw [length_allPairs, h2.ret]
  · rw [sum_weights_allPairs, h2.tw]

example : ∃ s : Sketch Unit, (run pinTun ⟨fun _ => (), id, fun _ => 0⟩ ([.new 0 4 false] ++ (List.range 30).map (fun i => Op.upd 0 (Int.ofNat i))) [true]).1.get 0 = some s
    ∧ s.n = 30 ∧ s.compactors.length = 2 ∧ s.numRetained = 28 := ⟨_, rfl, by decide +kernel⟩

/-- and exactly the empty sketches are the ones whose iteration fails -/
theorem req_iterator_fails_iff_empty {T : Tun} (hT : TunOK T) (F : SecFns ρ) (ops : List Op) (coins : List Bool) (id : Nat) (s : Sketch ρ)
    (h : (run T F ops coins).1.get id = some s) : s.iterate = none ↔ s.n = 0 := by
  obtain ⟨_, h2⟩ := req_input_refines hT F ops coins id s h
  constructor
  · intro hi
    by_cases hn : s.n = 0
    · exact hn
    · rw [iterate_of_AllNE s h2.nonnil (h2.ne hn) h2.ret] at hi; simp at hi
  · intro hn
    obtain ⟨c, hc⟩ := List.length_eq_one_iff.1 (h2.one hn)
    have hr : s.numRetained = 0 := by
      have h3 := h2.tw; rw [hn, hc] at h3
      simp only [totalW_cons, totalW_nil, Nat.add_zero] at h3
      have : c.items.length = 0 := by
        rcases Nat.mul_eq_zero.1 h3.symm with h4 | h4
        · exact h4
        · exact absurd h4 (Nat.ne_of_gt (Nat.pow_pos (by decide)))
      rw [h2.ret, hc]; simp [this]
    simp [Sketch.iterate, hr, itWalk, itEq, itBegin, itEnd, hc]

/-- retained bookkeeping: `num_retained_` and `max_nom_size_` (updated incrementally inside `compress`) are exactly the sums
over the compactors; every compactor of a non-empty sketch holds at least one item; an empty sketch has exactly one level -/
theorem req_bookkeeping_exact {T : Tun} (hT : TunOK T) (F : SecFns ρ) (ops : List Op) (coins : List Bool) (id : Nat) (s : Sketch ρ)
    (h : (run T F ops coins).1.get id = some s) :
    s.numRetained = (s.compactors.map (fun c => c.items.length)).sum ∧
    s.maxNomSize = (s.compactors.map (Compactor.nomCap T)).sum ∧
    (s.n ≠ 0 → ∀ c ∈ s.compactors, c.items ≠ []) ∧ (s.n = 0 → s.compactors.length = 1) ∧
    s.n = (s.compactors.map (fun c => c.items.length * 2 ^ c.lgWeight)).sum := by
  obtain ⟨_, h2⟩ := req_input_refines hT F ops coins id s h
  refine ⟨h2.ret, h2.cap, h2.ne, h2.one, ?_⟩
  rw [h2.tw]; simp [totalW, weightP, cntP_true]

/-- compression is not lazy in the current headers (`LAZY_COMPRESSION = false`), as `req_retained_bound` needs -/
theorem req_genTun_nonlazy : genTun.lazy = false := by decide
theorem req_pinTun_nonlazy : pinTun.lazy = false := by decide

/-- retained_bound: after EVERY public operation `num_retained < max_nom_size` (the sum of the nominal capacities
`MULTIPLIER · num_sections · section_size` of the compactors), and every compactor's section parameters are a point of the
section-size schedule of the sketch's k.  Hypotheses: compression not lazy, and `SecOK`: the float schedule raw ↦ raw/√2 never
shrinks the nominal capacity when the sections double (for the float code: checked by execution for every k the constructor can
produce and the whole schedule, `dsmodel_req selftest`; the kernel cannot evaluate Float32). -/
theorem req_retained_bound {T : Tun} (hT : TunOK T) (hlazy : T.lazy = false) (F : SecFns ρ) (hF : SecOK T F) (ops : List Op)
    (coins : List Bool) (id : Nat) (s : Sketch ρ) (h : (run T F ops coins).1.get id = some s) :
    s.numRetained < s.maxNomSize ∧ (∃ k0, s.k = effectiveK T k0) ∧
    ∀ c ∈ s.compactors, ∃ j, c.ssRaw = iterN F.next j (F.ofNat s.k) ∧ c.sectionSize = F.ne c.ssRaw := by
  have hb := runOps_BInv hT hlazy hF ops ([] : Store ρ) [] (Acc.init coins) trivial (fun _ _ hg => by simp [Store.get, AL.get] at hg)
  have := hb id s h
  exact ⟨this.lt, this.keff, this.sec⟩

/-- non-vacuity of `SecOK`: an exact schedule that keeps the section size -/
example : SecOK pinTun (⟨id, id, id⟩ : SecFns Nat) := by
  have hi : ∀ j (x : Nat), iterN (id : Nat → Nat) j x = x := by
    intro j x; induction j with
    | zero => rfl
    | succ n ih => simp [iterN, ih]
  constructor
  · intro k0; rfl
  · intro k0 j _; simp only [hi, id]; omega

/-- levels_sorted: every compactor above level 0 is ascending (what `compact`'s `inplace_merge`, `compute_weight`'s binary search
and the sorted view rely on), level 0 is ascending whenever its `sorted_` flag says so, and compactor `i` has `lg_weight = i` -/
theorem req_levels_sorted {T : Tun} (hT : TunOK T) (F : SecFns ρ) (ops : List Op) (coins : List Bool) (id : Nat) (s : Sketch ρ)
    (h : (run T F ops coins).1.get id = some s) (i : Nat) (c : Compactor ρ) (hc : s.compactors[i]? = some c) :
    c.lgWeight = i ∧ c.hra = s.hra ∧ ((i ≠ 0 ∨ c.sorted = true) → c.items.Pairwise (· ≤ ·)) := by
  obtain ⟨_, h2⟩ := req_input_refines hT F ops coins id s h
  have : ∀ (h0 : Nat) (cs : List (Compactor ρ)), CsInv T s.hra h0 cs → ∀ i c, cs[i]? = some c → CInv T s.hra (h0 + i) c := by
    intro h0 cs
    induction cs generalizing h0 with
    | nil => intro _ i c hc; simp at hc
    | cons x t ih =>
      intro hinv i c hc
      cases i with
      | zero => simp at hc; subst hc; exact hinv.1
      | succ j =>
        simp at hc
        have := ih (h0 + 1) hinv.2 j c hc
        have e : h0 + 1 + j = h0 + (j + 1) := by omega
        rwa [e] at this
  have hci := this 0 s.compactors h2.cs i c hc
  rw [Nat.zero_add] at hci
  exact ⟨hci.lg, hci.hraEq, hci.srt⟩

/-- REQ's direct `get_rank` (Σ per-compactor weights) is the sorted view's `get_rank`, bit for bit, and both numerators are the
weight of the retained items below the query point; the view's total weight is n -/
theorem req_rank_eq_view_rank {T : Tun} (hT : TunOK T) (F : SecFns ρ) (ops : List Op) (coins : List Bool) (id : Nat) (s : Sketch ρ)
    (h : (run T F ops coins).1.get id = some s) (x : Int) (inclusive : Bool) :
    s.getRank x inclusive = SortedView.getRank ltInt s.sortedView x inclusive ∧
    s.rankNum x inclusive = s.weightBelow x inclusive ∧ s.sortedView.total = s.n := by
  obtain ⟨_, h2⟩ := req_input_refines hT F ops coins id s h
  obtain ⟨a, b, c⟩ := rank_agree s h2 x inclusive
  exact ⟨by simp only [Sketch.getRank, SortedView.getRank, a, b, c], a, c⟩

/-- exact_mode_exact: while the sketch has a single level (nothing was ever compacted) its sorted view is the ascending input with
unit weights — so every rank, quantile, CDF and PMF computed from it is the true one of the input multiset — and the direct rank
numerator is the true count, for both criteria -/
theorem req_exact_mode_exact {T : Tun} (hT : TunOK T) (F : SecFns ρ) (ops : List Op) (coins : List Bool) (id : Nat) (s : Sketch ρ)
    (h : (run T F ops coins).1.get id = some s) (h1 : s.isEstimationMode = false) :
    ∃ items, inputOf ops id = some items ∧
      s.sortedView = SortedView.build ((sortInts items).map (fun x => (x, 1))) ∧
      ∀ x inclusive, s.rankNum x inclusive = (items.filter (fun y => if inclusive then decide (y ≤ x) else decide (y < x))).length := by
  obtain ⟨hin, h2⟩ := req_input_refines hT F ops coins id s h
  have hl : s.compactors.length = 1 := by
    have : ¬ s.compactors.length > 1 := by simpa [Sketch.isEstimationMode] using h1
    have : s.compactors.length ≠ 0 := fun e => h2.nonnil (List.length_eq_zero_iff.1 e)
    omega
  refine ⟨_, hin, by rw [Sketch.sortedView, exact_view s h2 hl], ?_⟩
  intro x inc
  obtain ⟨c, hc⟩ := List.length_eq_one_iff.1 hl
  rw [(rank_agree s h2 x inc).1]
  have hlg : c.lgWeight = 0 := by have := h2.cs; rw [hc] at this; exact this.1.lg
  simp only [Sketch.weightBelow, hc, weightP_cons, weightP_nil, hlg, Nat.pow_zero, Nat.mul_one, Nat.add_zero]
  rw [h2.ex c hc]
  simp [entered0, entered0L, hc, cntP]

example : ∃ s : Sketch Unit, (run pinTun ⟨fun _ => (), id, fun _ => 0⟩ [.new 0 4 false, .upd 0 5, .upd 0 1, .upd 0 5] []).1.get 0 = some s
    ∧ s.isEstimationMode = false ∧ s.rankNum 5 false = 1 ∧ s.rankNum 5 true = 3 := ⟨_, rfl, by decide +kernel⟩

end DS.Req

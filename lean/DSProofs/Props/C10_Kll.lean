/-
C10 (KLL) — the image follows the documented layout; the old single-item image (serial version 1) stays readable.

ONLY property theorems and their non-vacuity examples.  `docCfg` (Props/C09_Kll.lean) is the documented contract
transcribed by hand from the layout comment of kll_sketch.hpp and the Java-compatible preamble
(family 15; preamble ints 2 / 5; serial version 1, 2 for the single-item format; flags bit 0 empty, bit 1
level-zero-sorted, bit 2 single-item; m = 8; data at byte 8 / 20).  `codeCfg` is what the translator extracted
from the CURRENT headers in this run.
-/
import DSModel.Wire.KllCode
import DSProofs.Props.C09_Kll
namespace DS.Wire.Kll
open Reader

/-- every wire constant in the current headers equals its documented value: a consistent writer+reader change
(moved flag bit, other family id or version, other preamble size) is caught here although round trips still pass -/
theorem wire_consts_documented : codeCfg = docCfg := by decide


/-- the serial-version-1 image of a one-item sketch decodes (with the current reader) to the state it was built from -/
theorem legacy_decode_encode (sd : Serde) (hs : sd.Lawful) (c : Cfg) (hc : CfgOK c) (k : Nat) (lz : Bool) (it : Item)
    (tail : Bytes) (hk : k < 2 ^ 16) (hit : sd.wf it = true) (hm : 0 < c.m) :
    decodeLegacy sd c (encodeLegacy sd c k lz it ++ tail) = some (legacySingle c k lz it, tail) := by
  have hcap : totalCapacity k c.m 1 = max c.m k := by
    simp [totalCapacity, depthCapacity, intCapAux, intCapAuxAux]
    omega
  have hm' : c.m < 256 := hc.2.2.2.2.2.2.2.2.1
  apply decode_encode sd hs c hc
  simp only [legacySingle, WF, allWf, List.all_cons, List.all_nil, List.length_cons, List.length_nil, hit,
    List.headD_cons, levelsOk, Bool.and_true, Bool.and_eq_true, decide_eq_true_eq, beq_iff_eq, Nat.zero_add, hcap]
  refine ⟨⟨⟨⟨⟨⟨⟨hk, by omega⟩, hk⟩, by omega⟩, by omega⟩, by omega⟩, by omega⟩, by omega⟩

/-- ... and that state presents the same API content as the current single-item image -/
theorem legacy_same_content (c : Cfg) (k : Nat) (lz : Bool) (it : Item) (hm : 0 < c.m) :
    project c (legacySingle c k lz it) = project c (.single k lz it) := by
  have hcap : 1 ≤ totalCapacity k c.m 1 := by
    simp only [totalCapacity, depthCapacity]; omega
  have h1 : totalCapacity k c.m 1 - (totalCapacity k c.m 1 - 1) = 1 := by omega
  simp [legacySingle, project, weigh, h1]

/-- non-vacuity: the shipped file kll_sketch_float_one_item_v1.sk (k = 200, item 1.0f) is exactly this legacy image -/
example : encodeLegacy (Serde.fixed 4) docCfg 200 false [0x00, 0x00, 0x80, 0x3f] =
    [0x05, 0x01, 0x0f, 0x00, 0xc8, 0x00, 0x08, 0x00, 0x01, 0, 0, 0, 0, 0, 0, 0, 0xc8, 0x00, 0x01, 0x00,
     0xc7, 0, 0, 0, 0x00, 0x00, 0x80, 0x3f, 0x00, 0x00, 0x80, 0x3f, 0x00, 0x00, 0x80, 0x3f] := by decide

end DS.Wire.Kll

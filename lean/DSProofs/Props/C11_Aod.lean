/-
C11 (array-of-doubles compact sketch images) — truncated images are rejected, counts cannot outrun the input.
ONLY property theorems and their non-vacuity examples.
-/
import DSProofs.Lemmas.WireAod
namespace DS.Wire.Aod
open DS.Wire

theorem decode_PS (c : Consts) (exp : Nat) : PS (decode c exp) := PS_decode c exp

theorem prefix_rejected (c : Consts) (hc : c.ok = true) (s : Image) (hwf : WF s) (exp : Nat)
    (hseed : s.entries = [] ∨ s.seedHash = exp) (n : Nat) (hn : n < (encode c s).length) :
    decode c exp ((encode c s).take n) = none := by
  have h := decode_encode' (COk.of_ok hc) s hwf exp hseed []
  rw [List.append_nil] at h
  exact DS.Wire.prefix_rejected _ (PS_decode c exp) _ s h n hn

theorem decode_bounded (c : Consts) (exp : Nat) (b : Bytes) (s : Image) (r : Bytes) (h : decode c exp b = some (s, r)) :
    s.entries.length + 8 * r.length ≤ 8 * b.length :=
  bounded_decode c exp b s r h

example : decode documented 37836 [1, 1, 9, 3, 0x18, 2, 0xcc, 0x93, 0, 0, 0, 0, 0, 0, 0, 0, 0xff, 0xff, 0xff, 0xff, 0, 0, 0, 0] = none := by decide

end DS.Wire.Aod

/-
C11 (Bloom filter part) — truncated images are rejected; the specification reader is bounded.

ONLY property theorems and non-vacuity examples.  The theorems are about the specification reader
`DS.Wire.Bloom.decode` (built only from the bounded combinators, so it cannot read out of bounds by
construction); the exhaustive-prefix / corruption runs of `./check c11_misc` hold
`bloom_filter::deserialize(bytes)`, `deserialize(istream)`, `wrap` and `writable_wrap` to it under sanitizers.
-/
import DSProofs.Lemmas.WireMiscBloom
import DSModel.Wire.BloomGen
namespace DS.Wire.Bloom
open DS.Wire

/-- the reader is prefix-safe: a success consumed exactly k bytes, every shorter prefix fails, every
longer prefix gives the same value -/
theorem decode_PS (c : Consts) : PS (decode c) := decode_PS_lem c

/-- every strict prefix of a valid image is rejected (a Bloom image has no information-free padding) -/
theorem prefix_rejected (c : Consts) (hc : c.Valid) (s : Img) (hs : WF s) (n : Nat)
    (hn : n < (encode c s).length) : decode c ((encode c s).take n) = none := by
  have h := decode_encode_lem c hc s hs []
  simp only [List.append_nil] at h
  exact DS.Wire.prefix_rejected (decode c) (decode_PS c) (encode c s) s h n hn

/-- no count field can make the specification reader produce more than the input holds: a successful
decode of ANY byte string consumed exactly `serializedSize` bytes, so the decoded bit array
(8·num_longs bytes) is no longer than the input, and every decoded field is in range. -/
theorem decode_bounded (c : Consts) (b r : Bytes) (s : Img) (h : decode c b = some (s, r)) :
    b.length = serializedSize s + r.length ∧ WF s ∧
    (∀ nbs bits, s.body = some (nbs, bits) → bits.length + 32 ≤ b.length) := by
  obtain ⟨h1, h2⟩ := decode_consumes_lem c b r s h
  refine ⟨h1, h2, ?_⟩
  intro nbs bits hb
  obtain ⟨_, _, _, h4⟩ := h2
  simp only [hb] at h4
  simp only [serializedSize, hb] at h1
  omega

/-- a 48-byte image: the full image decodes, the 47-byte prefix does not -/
def exImgT : Img := { numHashes := 2, seed := 9001, numLongs := 2,
                      body := some (3, [1, 0, 0, 0x80, 0, 0, 0, 0, 0, 0, 0, 0, 0, 0, 0, 2]) }
example : WF exImgT ∧ decode genConsts ((encode genConsts exImgT).take 47) = none ∧
          (decode genConsts (encode genConsts exImgT)).isSome := by decide

end DS.Wire.Bloom

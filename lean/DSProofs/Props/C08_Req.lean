import DSModel.Req.Driver
namespace DS.Req
theorem placeholder8 : True := trivial
end DS.Req

/-
C08 (REQ part) — REQ rank estimates are unbiased over the coin flips; the flips depend on shapes only.

Everything is about the executable model `DS.Req` (DSModel/Req/*.lean); quantified over every admissible tunable set, every
section-size schedule `F`, every history of new / update / merge / copy / query operations over any number of live sketches (any k,
both modes), and every coin vector.  `run T F ops v` executes the history with the coin vector `v` (the i-th call of `random_bit()`
returns `v[i]`, `false` beyond the vector); its second component records how many coins were drawn (`used`), the level of the
compactor that drew each of them (`lv`, ghost) and the ghost flag `oddConst` (some compaction at an odd `state_` flipped a coin that
derives from no draw: the constructor's `coin_(false)`).  Only property statements live here; lemmas are in DSProofs/Lemmas/Req*.lean.
-/
import DSProofs.Lemmas.ReqUnbiased
import DSProofs.Lemmas.ReqOdd
import DSProofs.Props.C07_Req
namespace DS.Req

variable {ρ : Type}

/-- coin-independent part of a compactor -/
def shapeOf (c : Compactor ρ) : Nat × Nat × Nat × Nat × Nat × Bool × Bool :=
  (c.lgWeight, c.items.length, c.sectionSize, c.numSections, c.state, c.sorted, c.hra)

/-- flips_shape_only: for ANY two coin vectors the history draws the same number of coins, at the same levels in the same order,
and every object ends with the same shape (levels, level sizes, section parameters, state counters, flags, n, num_retained,
max_nom_size, min, max) -/
theorem req_flips_shape_only {T : Tun} (hT : TunOK T) (F : SecFns ρ) (ops : List Op) (v v' : List Bool) :
    (run T F ops v').2.used = (run T F ops v).2.used ∧ (run T F ops v').2.lv = (run T F ops v).2.lv ∧
    (run T F ops v').2.oddConst = (run T F ops v).2.oddConst ∧
    ∀ id, ((run T F ops v).1.get id = none ∧ (run T F ops v').1.get id = none) ∨
      ∃ s s', (run T F ops v).1.get id = some s ∧ (run T F ops v').1.get id = some s' ∧
        s'.compactors.map shapeOf = s.compactors.map shapeOf ∧ s'.n = s.n ∧ s'.numRetained = s.numRetained ∧
        s'.maxNomSize = s.maxNomSize ∧ s'.minItem = s.minItem ∧ s'.maxItem = s.maxItem ∧ s'.k = s.k := by
  obtain ⟨r1, r2⟩ := run_shape hT F ops v v'
  refine ⟨r2.used, r2.lv, r2.oddConst, ?_⟩
  intro id
  rcases ALRel_get r1 id with ⟨h1, h2⟩ | ⟨s, s', h1, h2, hr⟩
  · left; exact ⟨h1, h2⟩
  · right
    refine ⟨s, s', h1, h2, ?_, hr.1.n, hr.1.ret, hr.1.maxNom, hr.1.mn, hr.1.mx, hr.1.k⟩
    have : ∀ (a b : List (Compactor ρ)), CsRel none a b → b.map shapeOf = a.map shapeOf := by
      intro a
      induction a with
      | nil => intro b h; cases b with
        | nil => rfl
        | cons _ _ => exact absurd h (by simp [CsRel])
      | cons x t ih => intro b h; cases b with
        | nil => exact absurd h (by simp [CsRel])
        | cons y t' =>
          simp only [List.map_cons, ih t' h.2]
          congr 1
          simp only [shapeOf, h.1.lg, h.1.len, h.1.ss, h.1.ns, h.1.state, h.1.sorted, h.1.hra]
    exact this _ _ hr.1.cs

example : (run pinTun (⟨fun _ => (), id, fun _ => 0⟩ : SecFns Unit) ([.new 0 4 false] ++ (List.range 60).map (fun i => Op.upd 0 (Int.ofNat (i * 7 % 31)))) [true, false, true]).2.used = 1 := by
  decide +kernel

/-- compaction_balanced: the two halves a compaction can promote together are the compacted run, for every predicate on items
(so doubling the weight of a fair-coin half preserves every weighted count on average) -/
theorem req_compaction_balanced (p : Int → Bool) (run : List Int) (coin : Bool) :
    ((promote run coin).filter p).length + ((promote run (!coin)).filter p).length = (run.filter p).length :=
  cntP_promote_both p run coin

/-- Σ over all coin vectors of the weight of the retained items satisfying `p` in object `id` -/
def sumOverCoins (T : Tun) (F : SecFns ρ) (ops : List Op) (id : Nat) (p : Int → Bool) : Nat :=
  ((allVecs (run T F ops []).2.used).map (fun v =>
    match (run T F ops v).1.get id with
    | some s => weightP p s.compactors
    | none => 0)).sum

/-- req_unbiased, the full statement for the PINNED shape of the compactor constructor (`coin_(false)`): for every history and every object, the weight below any point `y` (both criteria), summed
over ALL 2^F coin vectors, is 2^F times the true count -/
def req_unbiased_full : Prop :=
  ∀ (T : Tun), TunOK T → T.initCoinRandom = false → ∀ (F : SecFns Unit) (ops : List Op) (id : Nat) (items : List Int), inputOf ops id = some items →
    ∀ (y : Int) (inclusive : Bool),
      sumOverCoins T F ops id (fun x => if inclusive then decide (x ≤ y) else decide (x < y))
        = 2 ^ (run T F ops []).2.used * (items.filter (fun x => if inclusive then decide (x ≤ y) else decide (x < y))).length

/-- the D9 witness: sketch 1 (k = 4, LRA) compacts once (24 updates); the empty sketch 0 merges it and gets 26 more updates -/
def d9Ops : List Op :=
  [.new 0 4 false, .new 1 4 false] ++ (List.range 24).map (fun i => Op.upd 1 (Int.ofNat i)) ++ [.merge 0 1]
    ++ (List.range 26).map (fun i => Op.upd 0 (Int.ofNat (100 + i)))

/-- FALSE for the pinned shape (D9; the repaired shape is `req_unbiased_repaired` in C08_Req_Repaired.lean): `req_compactor::merge` ORs `state_` but keeps the constant initial `coin_(false)`; the next
compaction of the adopting compactor flips it to the constant `true`.  On the witness one coin is drawn in total, and over both of
its values the weight of the items ≤ 16 in sketch 0 sums to 32, not 2 · 17.  Replayed on the real code by whole-coin-tree
enumeration (`./check c08req`, corpus/regress/C08/req-merge-adopts-odd-state.txt). -/
theorem req_unbiased_full_false : ¬ req_unbiased_full := by
  intro h
  have h1 := h pinTun req_pinTun_ok rfl ⟨fun _ => (), id, fun _ => 0⟩ d9Ops 0
    ((List.range 26).reverse.map (fun i => Int.ofNat (100 + i)) ++ (List.range 24).reverse.map (fun i => Int.ofNat i))
    (by decide +kernel) 16 true
  revert h1
  decide +kernel

/-- the witness is exactly a history in which the ghost flag fires -/
example : (run pinTun (⟨fun _ => (), id, fun _ => 0⟩ : SecFns Unit) d9Ops []).2.oddConst = true := by decide +kernel

/-- req_unbiased, the proved part: the identity holds for EVERY predicate on items (in particular `≤ y` and `< y`), every history and
every object, under the explicit decidable, coin-independent (`req_flips_shape_only`) hypothesis that no odd-state compaction flips a
coin that derives from no draw.  Proof: shapes are coin independent; the content of level ≤ h never depends on coins drawn at level
≥ h; complementing all coins drawn at level h is an involution on the coin vectors under which (entered level h+1 in the two runs)
= (left level h), so the level-h errors cancel in pairs; the level errors telescope to (weight below) − (true count).
Missing for the full statement: exactly the histories with `oddConst` (merge into a never-compacted compactor whose partner has an
odd state) — where it is false (`req_unbiased_full_false`). -/
theorem req_unbiased_partial {T : Tun} (hT : TunOK T) (F : SecFns ρ) (ops : List Op) (id : Nat) (items : List Int)
    (hin : inputOf ops id = some items) (hno : (run T F ops []).2.oddConst = false) (p : Int → Bool) :
    sumOverCoins T F ops id p = 2 ^ (run T F ops []).2.used * (items.filter p).length := by
  have := unbiased_main hT F ops id items hin hno p
  have e : ∀ v, (match (run T F ops v).1.get id with | some s => weightP p s.compactors | none => 0) = weightP p (csOf T F ops id v) := by
    intro v; unfold csOf; split <;> simp_all
  unfold sumOverCoins
  have e2 : (fun v => match (run T F ops v).1.get id with | some s => weightP p s.compactors | none => 0) = fun v => weightP p (csOf T F ops id v) := funext e
  rw [e2]
  have cast : ∀ (l : List (List Bool)) (f : List Bool → Nat), ((l.map f).sum : Int) = (l.map (fun v => (f v : Int))).sum := by
    intro l f; induction l with
    | nil => rfl
    | cons a t ih => simp only [List.map_cons, List.sum_cons]; push_cast; rw [ih]
  have h2 := cast (allVecs (run T F ops []).2.used) (fun v => weightP p (csOf T F ops id v))
  rw [this] at h2
  have : (items.filter p).length = cntP p items := rfl
  rw [this]
  exact_mod_cast h2

/-- req_unbiased for streams: a history WITHOUT merge operations (any number of sketches, updates, copies, queries) always
satisfies the hypothesis, so for every stream the identity holds unconditionally; only merge trees can break it -/
theorem req_unbiased_streams {T : Tun} (hT : TunOK T) (F : SecFns ρ) (ops : List Op) (hnm : ∀ op ∈ ops, isMerge op = false)
    (id : Nat) (items : List Int) (hin : inputOf ops id = some items) (p : Int → Bool) :
    sumOverCoins T F ops id p = 2 ^ (run T F ops []).2.used * (items.filter p).length :=
  req_unbiased_partial hT F ops id items hin
    (runOps_odd T F ops hnm ([] : Store ρ) (Acc.init []) (fun _ _ hg => by simp [Store.get, AL.get] at hg) rfl) p

/-- in particular: the rank numerator REQ reports (`req_rank_eq_view_rank`: direct rank = view rank = weight below), summed over all
coin vectors, is 2^F times the true count — i.e. the estimated rank averaged over the coin flips is the true rank -/
theorem req_unbiased_rank {T : Tun} (hT : TunOK T) (F : SecFns ρ) (ops : List Op) (id : Nat) (items : List Int)
    (hin : inputOf ops id = some items) (hno : (run T F ops []).2.oddConst = false) (y : Int) (inclusive : Bool) :
    ((allVecs (run T F ops []).2.used).map (fun v =>
        match (run T F ops v).1.get id with
        | some s => s.weightBelow y inclusive
        | none => 0)).sum
      = 2 ^ (run T F ops []).2.used * (items.filter (fun x => if inclusive then decide (x ≤ y) else decide (x < y))).length :=
  req_unbiased_partial hT F ops id items hin hno _

/-- non-vacuity: a two-sketch history with a merge and four coins satisfies the hypothesis -/
example : (run pinTun (⟨fun _ => (), id, fun _ => 0⟩ : SecFns Unit)
    ([.new 0 4 true, .new 1 4 true] ++ (List.range 40).map (fun i => Op.upd 0 (Int.ofNat (i * 5 % 17))) ++
     (List.range 40).map (fun i => Op.upd 1 (Int.ofNat (i * 3 % 23))) ++ [.merge 0 1] ++ (List.range 30).map (fun i => Op.upd 0 (Int.ofNat i))) []).2.oddConst = false
    ∧ (run pinTun (⟨fun _ => (), id, fun _ => 0⟩ : SecFns Unit)
    ([.new 0 4 true, .new 1 4 true] ++ (List.range 40).map (fun i => Op.upd 0 (Int.ofNat (i * 5 % 17))) ++
     (List.range 40).map (fun i => Op.upd 1 (Int.ofNat (i * 3 % 23))) ++ [.merge 0 1] ++ (List.range 30).map (fun i => Op.upd 0 (Int.ofNat i))) []).2.used = 4 := by
  decide +kernel

end DS.Req

/-
C11 (classic quantiles) — truncated images are rejected by the specification reader; counts derived from n and k
cannot make it read or allocate beyond the input.

ONLY property theorems and their non-vacuity examples.  `./check c11_quant` holds the real
`quantiles_sketch::deserialize` (bytes and stream) to the verdict of `Quantiles.decode` on EVERY strict prefix
of every generated image under ASan/UBSan.
-/
import DSProofs.Props.C09_Quantiles
namespace DS.Wire.Quantiles
open Reader

theorem decodeBody_PS (sd : Serde) (hs : sd.Lawful) (c : Cfg) (pre ver flags k unused : Nat) :
    PS (decodeBody sd c pre ver flags k unused) := by
  unfold decodeBody
  refine PS_bind _ _ PS_u64 fun _ => PS_bind _ _ (PS_guard _) fun _ => PS_bind _ _ hs.ps fun _ => PS_bind _ _ hs.ps fun _ =>
    PS_bind _ _ ?_ fun _ => PS_bind _ _ (PS_repeatN _ hs.ps _) fun _ => PS_bind _ _ (PS_repeatN _ hs.ps _) fun _ =>
    PS_bind _ _ (PS_repeatN _ (PS_repeatN _ hs.ps _) _) fun _ => PS_pure _
  split
  · exact PS_u64
  · exact PS_pure _

/-- the specification reader is prefix-safe -/
theorem decode_PS (sd : Serde) (hs : sd.Lawful) (c : Cfg) : PS (decode sd c) := by
  unfold decode
  refine PS_bind _ _ PS_u8 fun _ => PS_bind _ _ PS_u8 fun _ => PS_bind _ _ PS_u8 fun _ => PS_bind _ _ PS_u8 fun _ =>
    PS_bind _ _ PS_u16 fun _ => PS_bind _ _ PS_u16 fun _ => PS_bind _ _ (PS_guard _) fun _ => ?_
  split
  · exact PS_pure _
  · exact decodeBody_PS sd hs c _ _ _ _ _

/-- EVERY strict prefix of a well-formed image (any accepted serial version) is rejected -/
theorem prefix_rejected (sd : Serde) (hs : sd.Lawful) (c : Cfg) (hc : CfgOK c) (s : Image) (hw : WF sd c s = true)
    (n : Nat) (hn : n < (encode sd c s).length) : decode sd c ((encode sd c s).take n) = none := by
  have hd := decode_encode sd hs c hc s [] hw
  rw [List.append_nil] at hd
  exact DS.Wire.prefix_rejected (decode sd c) (decode_PS sd hs c) _ s hd n hn

theorem decodeBody_bounded (sd : Serde) (hs : sd.Lawful) (c : Cfg) (pre ver flags k unused : Nat) (b r : Bytes) (s : Image)
    (h : decodeBody sd c pre ver flags k unused b = some (s, r)) : s.count ≤ b.length := by
  simp only [decodeBody] at h
  obtain ⟨n, r1, h1, h⟩ := bind_inv h
  obtain ⟨u2, r2, h2, h⟩ := bind_inv h
  obtain ⟨mn, r3, h3, h⟩ := bind_inv h
  obtain ⟨mx, r4, h4, h⟩ := bind_inv h
  obtain ⟨pad, r5, h5, h⟩ := bind_inv h
  obtain ⟨bb, r6, h6, h⟩ := bind_inv h
  obtain ⟨ex, r7, h7, h⟩ := bind_inv h
  obtain ⟨lv, r8, h8, h⟩ := bind_inv h
  obtain ⟨hs1, _⟩ := pure_inv h
  subst hs1
  have l1 := PS_len PS_u64 h1
  have l2 := congrArg List.length (guard_inv h2).2
  have l3 := PS_len hs.ps h3
  have l4 := PS_len hs.ps h4
  have l5 : r5.length ≤ r4.length := by
    split at h5
    · exact PS_len PS_u64 h5
    · exact PS_len (PS_pure _) h5
  obtain ⟨hl6, hb6⟩ := repeatN_bound sd.dec hs.progress _ _ _ _ h6
  obtain ⟨hl7, hb7⟩ := repeatN_bound sd.dec hs.progress _ _ _ _ h7
  have hb8 := repeatN_repeatN_bound sd.dec hs.progress k _ _ _ _ h8
  simp only [Image.count]
  omega

/-- a successful decode of `b` yields an image holding at most `|b|` items: the counts derived from n and k
(base buffer n mod 2k, k per set bit of n / 2k) cannot exceed what the input holds -/
theorem decode_bounded (sd : Serde) (hs : sd.Lawful) (c : Cfg) (b r : Bytes) (s : Image)
    (h : decode sd c b = some (s, r)) : s.count ≤ b.length := by
  simp only [decode] at h
  obtain ⟨pre, r1, h1, h⟩ := bind_inv h
  obtain ⟨ver, r2, h2, h⟩ := bind_inv h
  obtain ⟨fam, r3, h3, h⟩ := bind_inv h
  obtain ⟨fl, r4, h4, h⟩ := bind_inv h
  obtain ⟨k, r5, h5, h⟩ := bind_inv h
  obtain ⟨un, r6, h6, h⟩ := bind_inv h
  obtain ⟨u7, r7, h7, h⟩ := bind_inv h
  have l1 := PS_len PS_u8 h1
  have l2 := PS_len PS_u8 h2
  have l3 := PS_len PS_u8 h3
  have l4 := PS_len PS_u8 h4
  have l5 := PS_len PS_u16 h5
  have l6 := PS_len PS_u16 h6
  have l7 := congrArg List.length (guard_inv h7).2
  split at h
  · obtain ⟨hs1, _⟩ := pure_inv h
    subst hs1; simp [Image.count]
  · have := decodeBody_bounded sd hs c _ _ _ _ _ _ _ _ h
    omega

/-- non-vacuity: the example image truncated after 40 of its 56 bytes is rejected -/
example : decode (Serde.fixed 8) docCfg ((encode (Serde.fixed 8) docCfg exImage).take 40) = none := by decide

/-- prefix rejection at the constants of the current headers (what `./check c11_quant` compares the real readers with) -/
theorem prefix_rejected_code (sd : Serde) (hs : sd.Lawful) (s : Image) (hw : WF sd codeCfg s = true)
    (n : Nat) (hn : n < (encode sd codeCfg s).length) : decode sd codeCfg ((encode sd codeCfg s).take n) = none :=
  prefix_rejected sd hs codeCfg codeCfg_ok s hw n hn

end DS.Wire.Quantiles

/- C16 — VarOpt: total weight conserved, heavy items exact (DESIGN.md §3 C16).

   All theorems are about the `Rat` instance of the executable model `DSModel/VarOpt/{Heap,Sketch,Union}.lean`
   (the `Float` instance of the same definitions is what the correspondence check compares with the real headers).
   They quantify over every configuration, every stream of positive weights, and every draw sequence `ds`
   (the random-choice oracle), with no bound on lengths.  `feed false items s0 ds` = `update` applied to the items in
   order, starting from the empty sketch `s0`; `none` would be a C++ exception.

   NOT formalised (said in the CLAIM note as well): "subset-sum estimates are unbiased over the sampling randomness"
   as a statement about whole histories.  `vo_one_step_unbiased` is the one-step identity it follows from. -/
import DSProofs.Lemmas.VarOptStep
namespace DS.VarOpt
open DS

/-- sample tunables for the non-vacuity examples (the theorems hold for every value) -/
def exT : Tunables := ⟨2147483646, 3, 3, 2, 1, 1, 10000000000, []⟩
def exItems : List (Int × Rat) := [(1, 10), (2, 10), (3, 10), (4, 7)]
def exDraws : Draws Rat := ⟨[1/2, 1/4], [1, 5]⟩

/-- **vo_size.** After any stream of positive weights (any k, any draws) the sketch has counted every item, holds
    `h + r = min(n, k)` samples (`get_num_samples`), every H entry is an input with its weight, and every R item is
    an input item.  `update` never throws. -/
theorem vo_size (T : Tunables) (k rf : Nat) (s0 : Sk Rat) (h0 : Sk.new T k rf false = some s0)
    (items : List (Int × Rat)) (hpos : ∀ p ∈ items, 0 < p.2) (ds : Draws Rat) :
    ∃ s ds', feed false items s0 ds = some (s, ds') ∧ s.n = items.length ∧ s.k = k ∧
      s.H.length + s.R.length = min items.length k ∧ s.numSamples = min items.length k ∧
      (∀ e ∈ s.H, (e.item, e.wt) ∈ items) ∧ (∀ x ∈ s.R, ∃ q ∈ items, q.1 = x) := by
  obtain ⟨hinv0, hk0, hg0, _⟩ := new_inv T k rf false s0 h0
  obtain ⟨s, ds', L, hf, hinv, hk, hg, _, _⟩ := feed_spec false items s0 [] [] ds hinv0 hpos (by simp)
  have hlen : (entriesOf s0.gadget false items ++ []).length = items.length := by simp [length_entriesOf]
  have hmem : ∀ e ∈ entriesOf s0.gadget false items ++ [], (e.item, e.wt) ∈ items := by
    intro e he
    simp only [List.append_nil] at he
    exact (mem_entriesOf.mp he).1
  have hsz : s.H.length + s.R.length = min items.length k := by
    have hl := hinv.perm.length_eq
    rw [hlen, List.length_append] at hl
    by_cases hr : s.R = []
    · obtain ⟨hL, hh, _⟩ := hinv.warm hr
      rw [hL] at hl; rw [hr]; simp at hl ⊢; rw [hk, hk0] at hh; omega
    · have he := hinv.est hr
      have h1 := he.cnt; have h2 := he.rLen
      rw [hk, hk0] at h1; omega
  refine ⟨s, ds', hf, by rw [hinv.n_eq, hlen], by rw [hk, hk0], hsz, ?_, ?_, ?_⟩
  · unfold Sk.numSamples; rw [hsz, hk, hk0]; omega
  · intro e he
    exact hmem e (hinv.perm.symm.subset (List.mem_append_left _ he))
  · intro x hx
    have hr : s.R ≠ [] := fun h => by rw [h] at hx; simp at hx
    obtain ⟨e, heL, hex⟩ := (hinv.est hr).rItems x hx
    exact ⟨(e.item, e.wt), hmem e (hinv.perm.symm.subset (List.mem_append_right _ heL)), hex⟩

example : ∃ s0, Sk.new (α := Rat) exT 2 0 false = some s0 ∧ (∀ p ∈ exItems, 0 < p.2) :=
  ⟨_, rfl, by decide⟩

/-- **vo_weight_conserved.** `Σ_H w + total_wt_r = Σ inputs w` (no R part while in warm-up); hence the adjusted weights
    handed out by the iterator sum to the total, and `estimate_subset_sum(always true).estimate` is the total
    (for whatever bound functions `B`). -/
theorem vo_weight_conserved (T : Tunables) (k rf : Nat) (s0 : Sk Rat) (h0 : Sk.new T k rf false = some s0)
    (items : List (Int × Rat)) (hpos : ∀ p ∈ items, 0 < p.2) (ds : Draws Rat) :
    ∃ s ds', feed false items s0 ds = some (s, ds') ∧
      sumW s.H + (if s.R = [] then 0 else s.totalWtR) = totalW items ∧
      sumR (s.samples.map (·.2)) = totalW items ∧
      (∀ B : FracBounds Rat, ∃ r, estimateSubsetSum B s (fun _ => true) = some r ∧ r.estimate = totalW items) := by
  obtain ⟨hinv0, _, _, _⟩ := new_inv T k rf false s0 h0
  obtain ⟨s, ds', L, hf, hinv, _, _, _, _⟩ := feed_spec false items s0 [] [] ds hinv0 hpos (by simp)
  have htot : sumW (entriesOf s0.gadget false items ++ []) = totalW items := by
    rw [List.append_nil, sumW_entriesOf]
  refine ⟨s, ds', hf, ?_, by rw [hinv.samples_sum, htot], fun B => ?_⟩
  · by_cases hr : s.R = []
    · rw [if_pos hr, add_zero, hinv.weight.1 hr, htot]
    · rw [if_neg hr, hinv.weight.2 hr, htot]
  · obtain ⟨r, h1, h2⟩ := hinv.estimate_all B
    exact ⟨r, h1, by rw [h2, htot]⟩

example : totalW exItems = 37 := by norm_num [totalW, exItems, sumR]

/-- **vo_heavy_exact.** (a) tau = total_wt_r / r never decreases as the stream continues; (b) in estimation mode every
    H entry carries its input weight and is at least tau (in particular `peek_min`), and every input heavier than tau
    is in H with its exact weight. -/
theorem vo_heavy_exact (T : Tunables) (k rf : Nat) (s0 : Sk Rat) (h0 : Sk.new T k rf false = some s0)
    (items more : List (Int × Rat)) (hpos : ∀ p ∈ items, 0 < p.2) (hpos2 : ∀ p ∈ more, 0 < p.2) (ds : Draws Rat) :
    ∃ s ds' s2 ds2, feed false items s0 ds = some (s, ds') ∧ feed false more s ds' = some (s2, ds2) ∧
      (s.R ≠ [] → s2.R ≠ [] ∧ s.totalWtR / (s.R.length : Rat) ≤ s2.totalWtR / (s2.R.length : Rat)) ∧
      (s.R ≠ [] →
        (∀ e ∈ s.H, (e.item, e.wt) ∈ items ∧ s.totalWtR / (s.R.length : Rat) ≤ e.wt) ∧
        (s.H ≠ [] → s.totalWtR / (s.R.length : Rat) ≤ wtAt s.H 0) ∧
        (∀ q ∈ items, s.totalWtR / (s.R.length : Rat) < q.2 → ∃ e ∈ s.H, e.item = q.1 ∧ e.wt = q.2)) := by
  obtain ⟨hinv0, _, _, _⟩ := new_inv T k rf false s0 h0
  obtain ⟨s, ds', L, hf, hinv, _, hg, _, _⟩ := feed_spec false items s0 [] [] ds hinv0 hpos (by simp)
  obtain ⟨s2, ds2, L2, hf2, _, _, _, _, htau⟩ := feed_spec false more s _ L ds' hinv hpos2 (by simp)
  refine ⟨s, ds', s2, ds2, hf, hf2, ?_, ?_⟩
  · intro hr
    obtain ⟨hr2, hle⟩ := htau hr
    have h1 : (0 : Rat) < (s.R.length : Rat) := by exact_mod_cast length_pos_of_ne_nil hr
    have h2 : (0 : Rat) < (s2.R.length : Rat) := by exact_mod_cast length_pos_of_ne_nil hr2
    exact ⟨hr2, by rw [div_le_div_iff₀ h1 h2]; exact hle⟩
  · intro hr
    have he := hinv.est hr
    have hr0 : (0 : Rat) < (s.R.length : Rat) := by exact_mod_cast length_pos_of_ne_nil hr
    have hmem : ∀ e ∈ entriesOf s0.gadget false items ++ [], (e.item, e.wt) ∈ items := by
      intro e he'
      simp only [List.append_nil] at he'
      exact (mem_entriesOf.mp he').1
    refine ⟨fun e heH => ⟨hmem e (hinv.perm.symm.subset (List.mem_append_left _ heH)), he.tau_le hr heH⟩, ?_, ?_⟩
    · intro hne
      obtain ⟨r, t, hH⟩ := exists_cons_of_length_pos (length_pos_of_ne_nil hne)
      rw [hH, wtAt_zero_cons]
      exact he.tau_le hr (by rw [hH]; simp)
    · intro q hq hlt
      have hmem' : ({ item := q.1, wt := q.2, mark := false } : E) ∈ entriesOf s0.gadget false items ++ [] := by
        rw [List.append_nil, mem_entriesOf]; exact ⟨hq, by simp⟩
      rcases List.mem_append.mp (hinv.perm.subset hmem') with h | h
      · exact ⟨_, h, rfl, rfl⟩
      · -- an absorbed input is at most tau
        have := he.lLight _ h
        rw [div_lt_iff₀ hr0] at hlt
        simp only at this
        exact absurd hlt (not_lt.mpr this)

example : (∀ p ∈ exItems, 0 < p.2) ∧ (∀ p ∈ [((5 : Int), (100 : Rat))], 0 < p.2) := by decide

/-- the two fraction bounds bracket the sample fraction `r_true / r` (the analytic fact about
    `pseudo_hypergeometric_{lb,ub}_on_p` that is NOT proved here: those functions need sqrt/exp/pow) -/
def BracketsFraction (B : FracBounds Rat) : Prop :=
  ∀ (r c : Nat) (rate : Rat), 0 < r → c ≤ r → B.lb r c rate ≤ (c : Rat) / (r : Rat) ∧ (c : Rat) / (r : Rat) ≤ B.ub r c rate

/-- full statement: for the bound functions `B`, after every stream and for every predicate `estimate_subset_sum`
    returns (does not throw) and `lower_bound ≤ estimate ≤ upper_bound` -/
def vo_subset_bounds_full (B : FracBounds Rat) : Prop :=
  ∀ (T : Tunables) (k rf : Nat) (s0 : Sk Rat), Sk.new T k rf false = some s0 →
    ∀ (items : List (Int × Rat)), (∀ p ∈ items, 0 < p.2) → ∀ (ds : Draws Rat) (p : Int → Bool),
      ∃ s ds' res, feed false items s0 ds = some (s, ds') ∧ estimateSubsetSum B s p = some res ∧
        res.lowerBound ≤ res.estimate ∧ res.estimate ≤ res.upperBound

/-- **vo_subset_bounds_partial.** The full statement holds for every pair of bound functions that brackets the
    sample fraction.  Missing for the literal statement: a proof that the code's Abramowitz–Stegun / exact-binomial
    formulas satisfy `BracketsFraction` (checked on every trace by the oracle instead). -/
theorem vo_subset_bounds_partial (B : FracBounds Rat) (hB : BracketsFraction B) : vo_subset_bounds_full B := by
  intro T k rf s0 h0 items hpos ds p
  obtain ⟨hinv0, _, _, _⟩ := new_inv T k rf false s0 h0
  obtain ⟨s, ds', L, hf, hinv, _, _, _, _⟩ := feed_spec false items s0 [] [] ds hinv0 hpos (by simp)
  obtain ⟨res, hres⟩ := hinv.estimate_some B p
  have hW : s.R.length ≠ 0 → 0 ≤ s.totalWtR := by
    intro hr0
    have hr : s.R ≠ [] := fun h => hr0 (by rw [h]; rfl)
    rw [(hinv.est hr).wtR]
    exact sumW_nonneg (fun e heL => hinv.pos e (hinv.perm.symm.subset (List.mem_append_right _ heL)))
  obtain ⟨h1, h2⟩ := estimate_bounds B s p hW hB res hres
  exact ⟨s, ds', res, hf, hres, h1, h2⟩

example : BracketsFraction ⟨fun r c _ => (c : Rat) / (r : Rat), fun r c _ => (c : Rat) / (r : Rat)⟩ :=
  fun _ _ _ _ _ => ⟨le_refl _, le_refl _⟩

/-- **vo_one_step_unbiased.** One down-sampling step (`choose_delete_slot`, general case of ≥ 2 explicit-weight
    candidates `M` plus `r ≥ 1` reservoir items, `c = |M| + r` candidates of total weight `W`, new threshold
    `τ' = W/(c−1)`, every M weight below τ' as `grow_candidate_set` guarantees).  With `u` the uniform draw:
    M-candidate `i` is the one deleted exactly for `u ∈ [thr i, thr (i+1))`, an interval of length `1 − w_i/τ'`, so
    `P[keep i]·τ' = w_i`; the deletion falls into R exactly for `u ≥ thr |M|`, a set of measure `r·(1 − τ/τ')` in
    `[0,1]` where `τ = (W − ΣM)/r` is the old per-item weight of R (the slot inside R is then the uniform integer draw),
    so each R item is kept with probability `τ/τ'`. -/
theorem vo_one_step_unbiased (M : List E) (r : Nat) (W : Rat) (c : Nat) (ds : Draws Rat)
    (hM : 2 ≤ M.length) (hc : c = M.length + r) (hr : 1 ≤ r) (hW : 0 < W)
    (hlight : ∀ e ∈ M, e.wt * ((c : Rat) - 1) < W) (hu : 0 ≤ (nextDouble ds).1) :
    (∀ i, i < M.length → ((chooseDeleteSlot M r W c ds).1 = i ↔
        thr (W / ((c : Rat) - 1)) M i ≤ (nextDouble ds).1 ∧ (nextDouble ds).1 < thr (W / ((c : Rat) - 1)) M (i + 1))) ∧
    (M.length ≤ (chooseDeleteSlot M r W c ds).1 ↔ thr (W / ((c : Rat) - 1)) M M.length ≤ (nextDouble ds).1) ∧
    (∀ i (hi : i < M.length),
        thr (W / ((c : Rat) - 1)) M (i + 1) - thr (W / ((c : Rat) - 1)) M i = 1 - M[i].wt / (W / ((c : Rat) - 1)) ∧
        (1 - (thr (W / ((c : Rat) - 1)) M (i + 1) - thr (W / ((c : Rat) - 1)) M i)) * (W / ((c : Rat) - 1)) = M[i].wt) ∧
    (1 - thr (W / ((c : Rat) - 1)) M M.length = (r : Rat) * (1 - ((W - sumW M) / (r : Rat)) / (W / ((c : Rat) - 1)))) := by
  have hc2 : 2 ≤ c := by omega
  have hn : 0 < c - 1 := by omega
  have hcast : ((c - 1 : Nat) : Rat) = (c : Rat) - 1 := by rw [Nat.cast_sub (by omega)]; simp
  have hc1 : (0 : Rat) < (c : Rat) - 1 := by rw [← hcast]; exact_mod_cast hn
  generalize hτ : W / ((c : Rat) - 1) = τ
  have hτpos : 0 < τ := by rw [← hτ]; positivity
  have hWτ : W = τ * ((c - 1 : Nat) : Rat) := by rw [← hτ, hcast]; field_simp
  have hlt : ∀ e ∈ M, e.wt < τ := by
    intro e he
    rw [← hτ, lt_div_iff₀ hc1]; exact hlight e he
  -- the code on a candidate list with at least two explicit weights
  obtain ⟨a, b, t, hMabt⟩ : ∃ a b t, M = a :: b :: t := by
    match M, hM with
    | a :: b :: t, _ => exact ⟨a, b, t, rfl⟩
  have hloop0 : (0 : Rat) = ((c - 1 : Nat) : Rat) * 0 := by simp
  have hright : Num.mul (Num.mul (Num.neg (Num.one : Rat)) W) (nextDouble ds).1
      = τ * ((c - 1 : Nat) : Rat) * (((0 : Nat) : Rat) - (nextDouble ds).1) := by
    simp only [Num.mul_rat, Num.neg_rat, Num.one_rat]; rw [hWτ]; push_cast; ring
  obtain ⟨hchar1, hchar2⟩ := weightedLoop_char τ (c - 1) hτpos hn (nextDouble ds).1 M 0 0 hlt (by simpa using hu)
  have hb := weightedLoop_bounds (τ * ((c - 1 : Nat) : Rat)) (c - 1) M (((c - 1 : Nat) : Rat) * 0)
    (τ * ((c - 1 : Nat) : Rat) * (((0 : Nat) : Rat) - (nextDouble ds).1)) 0
  have hcds : (chooseDeleteSlot M r W c ds).1 =
      if weightedLoop (τ * ((c - 1 : Nat) : Rat)) (c - 1) M (((c - 1 : Nat) : Rat) * 0)
          (τ * ((c - 1 : Nat) : Rat) * (((0 : Nat) : Rat) - (nextDouble ds).1)) 0 = M.length
      then M.length + (pickR r (nextDouble ds).2).1
      else weightedLoop (τ * ((c - 1 : Nat) : Rat)) (c - 1) M (((c - 1 : Nat) : Rat) * 0)
          (τ * ((c - 1 : Nat) : Rat) * (((0 : Nat) : Rat) - (nextDouble ds).1)) 0 := by
    rw [← hright, ← hloop0, ← hWτ, hMabt]
    simp only [chooseDeleteSlot, Num.zero_rat, beq_iff_eq]
    split <;> rfl
  refine ⟨?_, ?_, ?_, ?_⟩
  · intro i hi
    rw [hcds]
    have := hchar1 i hi
    simp only [Nat.zero_add, zero_add] at this
    unfold thr
    rw [← this]
    split
    · rename_i heq; omega
    · rfl
  · rw [hcds]
    simp only [Nat.zero_add, zero_add] at hchar2
    unfold thr
    rw [List.take_length, ← hchar2]
    split
    · rename_i heq; constructor <;> intro _ <;> [exact heq; omega]
    · rename_i hne; constructor
      · intro h; omega
      · intro h; exact absurd h hne
  · intro i hi
    have htake : sumW (M.take (i + 1)) = sumW (M.take i) + M[i].wt := by
      rw [List.take_succ_eq_append_getElem hi, sumW_append]; simp [sumW]
    have hτne : τ ≠ 0 := ne_of_gt hτpos
    unfold thr
    rw [htake]
    constructor
    · push_cast; field_simp; ring
    · push_cast; field_simp; ring
  · unfold thr
    rw [List.take_length]
    have hr0 : (r : Rat) ≠ 0 := by exact_mod_cast (by omega : r ≠ 0)
    have hτne : τ ≠ 0 := ne_of_gt hτpos
    have hWeq : W = τ * ((c : Rat) - 1) := by rw [hWτ, hcast]
    have hcr : (c : Rat) = (M.length : Rat) + (r : Rat) := by rw [hc]; push_cast; ring
    rw [hWeq, hcr]
    field_simp
    ring

example : ∃ (M : List E) (W : Rat) (c : Nat), 2 ≤ M.length ∧ c = M.length + 2 ∧ 0 < W ∧
    (∀ e ∈ M, e.wt * ((c : Rat) - 1) < W) ∧ 0 ≤ (nextDouble exDraws).1 :=
  ⟨[⟨1, 3, false⟩, ⟨2, 4, false⟩], 27, 4, by decide, rfl, by norm_num, by
    intro e he; simp at he; rcases he with rfl | rfl <;> norm_num, by norm_num [nextDouble, exDraws, Num.ofFrac]⟩

end DS.VarOpt

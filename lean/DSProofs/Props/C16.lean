/- C16 — VarOpt: total weight conserved, heavy items exact (DESIGN.md §3 C16).

   All theorems are about the `Rat` instance of the executable model `DSModel/VarOpt/{Heap,Sketch,Union}.lean`
   (the `Float` instance of the same definitions is what the correspondence check compares with the real headers).
   They quantify over every configuration, every stream of positive weights, and every draw sequence `ds`
   (the random-choice oracle), with no bound on lengths.  `feed T false items s0 ds` = `update` applied to the items in
   order, starting from the empty sketch `s0`; `none` would be a C++ exception.

   NOT formalised (said in the CLAIM note as well): "subset-sum estimates are unbiased over the sampling randomness"
   as a statement about whole histories.  `vo_one_step_unbiased` is the one-step identity it follows from.

   Where the CURRENT code violates a statement the file has `…_full` (the statement), `…_full_false` (concrete witness,
   replayed on the real headers by corpus/regress/C16/*.txt on every run) and `…_partial` (what does hold):
   `vo_union_wellformed_*` and `vo_serde_update_*`.  Two further open findings exist only in floating point
   (get_result() throwing on an absolute 1e-10 tolerance, update() throwing because total_wt_r_/r_ rounds above an
   H weight) and therefore have no counterpart over `Rat`; they are demonstrated by the Float instance + oracle. -/
import DSProofs.Lemmas.VarOptWitness
namespace DS.VarOpt
open DS

def exItems : List (Int × Rat) := [(1, 10), (2, 10), (3, 10), (4, 7)]
def exDraws : Draws Rat := ⟨[1/2, 1/4], [1, 5]⟩

/-- **vo_size.** After any stream of positive weights (any k, any draws) the sketch has counted every item, holds
    `h + r = min(n, k)` samples (`get_num_samples`), every H entry is an input with its weight, and every R item is
    an input item.  `update` never throws. -/
theorem vo_size (T : Tunables) (k rf : Nat) (s0 : Sk Rat) (h0 : Sk.new T k rf false = some s0)
    (items : List (Int × Rat)) (hpos : ∀ p ∈ items, 0 < p.2) (ds : Draws Rat) :
    ∃ s ds', feed T false items s0 ds = some (s, ds') ∧ s.n = items.length ∧ s.k = k ∧
      s.H.length + s.R.length = min items.length k ∧ s.numSamples = min items.length k ∧
      (∀ e ∈ s.H, (e.item, e.wt) ∈ items) ∧ (∀ x ∈ s.R, ∃ q ∈ items, q.1 = x) := by
  obtain ⟨hinv0, hk0, hg0, _⟩ := new_inv T k rf false s0 h0
  obtain ⟨s, ds', L, hf, hinv, hk, hg, _, _⟩ := feed_spec T false items s0 [] [] ds hinv0 hpos (by simp)
  have hlen : (entriesOf s0.gadget false items ++ []).length = items.length := by simp [length_entriesOf]
  have hmem : ∀ e ∈ entriesOf s0.gadget false items ++ [], (e.item, e.wt) ∈ items := by
    intro e he
    simp only [List.append_nil] at he
    exact (mem_entriesOf.mp he).1
  have hsz : s.H.length + s.R.length = min items.length k := by
    have hl := hinv.perm.length_eq
    rw [hlen, List.length_append] at hl
    by_cases hr : s.R = []
    · obtain ⟨hL, hh, _⟩ := hinv.warm hr
      rw [hL] at hl; rw [hr]; simp at hl ⊢; rw [hk, hk0] at hh; omega
    · have he := hinv.est hr
      have h1 := he.cnt; have h2 := he.rLen
      rw [hk, hk0] at h1; omega
  refine ⟨s, ds', hf, by rw [hinv.n_eq, hlen], by rw [hk, hk0], hsz, ?_, ?_, ?_⟩
  · unfold Sk.numSamples; rw [hsz, hk, hk0]; omega
  · intro e he
    exact hmem e (hinv.perm.symm.subset (List.mem_append_left _ he))
  · intro x hx
    have hr : s.R ≠ [] := fun h => by rw [h] at hx; simp at hx
    obtain ⟨e, heL, hex⟩ := (hinv.est hr).rItems x hx
    exact ⟨(e.item, e.wt), hmem e (hinv.perm.symm.subset (List.mem_append_right _ heL)), hex⟩

example : ∃ s0, Sk.new (α := Rat) exT 2 0 false = some s0 ∧ (∀ p ∈ exItems, 0 < p.2) :=
  ⟨_, rfl, by decide⟩

/-- **vo_weight_conserved.** `Σ_H w + total_wt_r = Σ inputs w` (no R part while in warm-up); hence the adjusted weights
    handed out by the iterator sum to the total, and `estimate_subset_sum(always true).estimate` is the total
    (for whatever bound functions `B`). -/
theorem vo_weight_conserved (T : Tunables) (k rf : Nat) (s0 : Sk Rat) (h0 : Sk.new T k rf false = some s0)
    (items : List (Int × Rat)) (hpos : ∀ p ∈ items, 0 < p.2) (ds : Draws Rat) :
    ∃ s ds', feed T false items s0 ds = some (s, ds') ∧
      sumW s.H + (if s.R = [] then 0 else s.totalWtR) = totalW items ∧
      sumR (s.samples.map (·.2)) = totalW items ∧
      (∀ B : FracBounds Rat, ∃ r, estimateSubsetSum B s (fun _ => true) = some r ∧ r.estimate = totalW items) := by
  obtain ⟨hinv0, _, _, _⟩ := new_inv T k rf false s0 h0
  obtain ⟨s, ds', L, hf, hinv, _, _, _, _⟩ := feed_spec T false items s0 [] [] ds hinv0 hpos (by simp)
  have htot : sumW (entriesOf s0.gadget false items ++ []) = totalW items := by
    rw [List.append_nil, sumW_entriesOf]
  refine ⟨s, ds', hf, ?_, by rw [hinv.samples_sum, htot], fun B => ?_⟩
  · by_cases hr : s.R = []
    · rw [if_pos hr, add_zero, hinv.weight.1 hr, htot]
    · rw [if_neg hr, hinv.weight.2 hr, htot]
  · obtain ⟨r, h1, h2⟩ := hinv.estimate_all B
    exact ⟨r, h1, by rw [h2, htot]⟩

example : totalW exItems = 37 := by norm_num [totalW, exItems, sumR]

/-- **vo_heavy_exact.** (a) tau = total_wt_r / r never decreases as the stream continues; (b) in estimation mode every
    H entry carries its input weight and is at least tau (in particular `peek_min`), and every input heavier than tau
    is in H with its exact weight. -/
theorem vo_heavy_exact (T : Tunables) (k rf : Nat) (s0 : Sk Rat) (h0 : Sk.new T k rf false = some s0)
    (items more : List (Int × Rat)) (hpos : ∀ p ∈ items, 0 < p.2) (hpos2 : ∀ p ∈ more, 0 < p.2) (ds : Draws Rat) :
    ∃ s ds' s2 ds2, feed T false items s0 ds = some (s, ds') ∧ feed T false more s ds' = some (s2, ds2) ∧
      (s.R ≠ [] → s2.R ≠ [] ∧ s.totalWtR / (s.R.length : Rat) ≤ s2.totalWtR / (s2.R.length : Rat)) ∧
      (s.R ≠ [] →
        (∀ e ∈ s.H, (e.item, e.wt) ∈ items ∧ s.totalWtR / (s.R.length : Rat) ≤ e.wt) ∧
        (s.H ≠ [] → s.totalWtR / (s.R.length : Rat) ≤ wtAt s.H 0) ∧
        (∀ q ∈ items, s.totalWtR / (s.R.length : Rat) < q.2 → ∃ e ∈ s.H, e.item = q.1 ∧ e.wt = q.2)) := by
  obtain ⟨hinv0, _, _, _⟩ := new_inv T k rf false s0 h0
  obtain ⟨s, ds', L, hf, hinv, _, hg, _, _⟩ := feed_spec T false items s0 [] [] ds hinv0 hpos (by simp)
  obtain ⟨s2, ds2, L2, hf2, _, _, _, _, htau⟩ := feed_spec T false more s _ L ds' hinv hpos2 (by simp)
  refine ⟨s, ds', s2, ds2, hf, hf2, ?_, ?_⟩
  · intro hr
    obtain ⟨hr2, hle⟩ := htau hr
    have h1 : (0 : Rat) < (s.R.length : Rat) := by exact_mod_cast length_pos_of_ne_nil hr
    have h2 : (0 : Rat) < (s2.R.length : Rat) := by exact_mod_cast length_pos_of_ne_nil hr2
    exact ⟨hr2, by rw [div_le_div_iff₀ h1 h2]; exact hle⟩
  · intro hr
    have he := hinv.est hr
    have hr0 : (0 : Rat) < (s.R.length : Rat) := by exact_mod_cast length_pos_of_ne_nil hr
    have hmem : ∀ e ∈ entriesOf s0.gadget false items ++ [], (e.item, e.wt) ∈ items := by
      intro e he'
      simp only [List.append_nil] at he'
      exact (mem_entriesOf.mp he').1
    refine ⟨fun e heH => ⟨hmem e (hinv.perm.symm.subset (List.mem_append_left _ heH)), he.tau_le hr heH⟩, ?_, ?_⟩
    · intro hne
      obtain ⟨r, t, hH⟩ := exists_cons_of_length_pos (length_pos_of_ne_nil hne)
      rw [hH, wtAt_zero_cons]
      exact he.tau_le hr (by rw [hH]; simp)
    · intro q hq hlt
      have hmem' : ({ item := q.1, wt := q.2, mark := false } : E) ∈ entriesOf s0.gadget false items ++ [] := by
        rw [List.append_nil, mem_entriesOf]; exact ⟨hq, by simp⟩
      rcases List.mem_append.mp (hinv.perm.subset hmem') with h | h
      · exact ⟨_, h, rfl, rfl⟩
      · -- an absorbed input is at most tau
        have := he.lLight _ h
        rw [div_lt_iff₀ hr0] at hlt
        simp only at this
        exact absurd hlt (not_lt.mpr this)

example : (∀ p ∈ exItems, 0 < p.2) ∧ (∀ p ∈ [((5 : Int), (100 : Rat))], 0 < p.2) := by decide

/-- the two fraction bounds bracket the sample fraction `r_true / r` (the analytic fact about
    `pseudo_hypergeometric_{lb,ub}_on_p` that is NOT proved here: those functions need sqrt/exp/pow) -/
def BracketsFraction (B : FracBounds Rat) : Prop :=
  ∀ (r c : Nat) (rate : Rat), 0 < r → c ≤ r → B.lb r c rate ≤ (c : Rat) / (r : Rat) ∧ (c : Rat) / (r : Rat) ≤ B.ub r c rate

/-- full statement: for the bound functions `B`, after every stream and for every predicate `estimate_subset_sum`
    returns (does not throw) and `lower_bound ≤ estimate ≤ upper_bound` -/
def vo_subset_bounds_full (B : FracBounds Rat) : Prop :=
  ∀ (T : Tunables) (k rf : Nat) (s0 : Sk Rat), Sk.new T k rf false = some s0 →
    ∀ (items : List (Int × Rat)), (∀ p ∈ items, 0 < p.2) → ∀ (ds : Draws Rat) (p : Int → Bool),
      ∃ s ds' res, feed T false items s0 ds = some (s, ds') ∧ estimateSubsetSum B s p = some res ∧
        res.lowerBound ≤ res.estimate ∧ res.estimate ≤ res.upperBound

/-- **vo_subset_bounds_partial.** The full statement holds for every pair of bound functions that brackets the
    sample fraction.  Missing for the literal statement: a proof that the code's Abramowitz–Stegun / exact-binomial
    formulas satisfy `BracketsFraction` (checked on every trace by the oracle instead). -/
theorem vo_subset_bounds_partial (B : FracBounds Rat) (hB : BracketsFraction B) : vo_subset_bounds_full B := by
  intro T k rf s0 h0 items hpos ds p
  obtain ⟨hinv0, _, _, _⟩ := new_inv T k rf false s0 h0
  obtain ⟨s, ds', L, hf, hinv, _, _, _, _⟩ := feed_spec T false items s0 [] [] ds hinv0 hpos (by simp)
  obtain ⟨res, hres⟩ := hinv.estimate_some B p
  have hW : s.R.length ≠ 0 → 0 ≤ s.totalWtR := by
    intro hr0
    have hr : s.R ≠ [] := fun h => hr0 (by rw [h]; rfl)
    rw [(hinv.est hr).wtR]
    exact sumW_nonneg (fun e heL => hinv.pos e (hinv.perm.symm.subset (List.mem_append_right _ heL)))
  obtain ⟨h1, h2⟩ := estimate_bounds B s p hW hB res hres
  exact ⟨s, ds', res, hf, hres, h1, h2⟩

example : BracketsFraction ⟨fun r c _ => (c : Rat) / (r : Rat), fun r c _ => (c : Rat) / (r : Rat)⟩ :=
  fun _ _ _ _ _ => ⟨le_refl _, le_refl _⟩

/-- **vo_one_step_unbiased.** One down-sampling step (`choose_delete_slot`, general case of ≥ 2 explicit-weight
    candidates `M` plus `r ≥ 1` reservoir items, `c = |M| + r` candidates of total weight `W`, new threshold
    `τ' = W/(c−1)`, every M weight below τ' as `grow_candidate_set` guarantees).  With `u` the uniform draw:
    M-candidate `i` is the one deleted exactly for `u ∈ [thr i, thr (i+1))`, an interval of length `1 − w_i/τ'`, so
    `P[keep i]·τ' = w_i`; the deletion falls into R exactly for `u ≥ thr |M|`, a set of measure `r·(1 − τ/τ')` in
    `[0,1]` where `τ = (W − ΣM)/r` is the old per-item weight of R (the slot inside R is then the uniform integer draw),
    so each R item is kept with probability `τ/τ'`. -/
theorem vo_one_step_unbiased (M : List E) (r : Nat) (W : Rat) (c : Nat) (ds : Draws Rat)
    (hM : 2 ≤ M.length) (hc : c = M.length + r) (hr : 1 ≤ r) (hW : 0 < W)
    (hlight : ∀ e ∈ M, e.wt * ((c : Rat) - 1) < W) (hu : 0 ≤ (nextDouble ds).1) :
    (∀ i, i < M.length → ((chooseDeleteSlot M r W c ds).1 = i ↔
        thr (W / ((c : Rat) - 1)) M i ≤ (nextDouble ds).1 ∧ (nextDouble ds).1 < thr (W / ((c : Rat) - 1)) M (i + 1))) ∧
    (M.length ≤ (chooseDeleteSlot M r W c ds).1 ↔ thr (W / ((c : Rat) - 1)) M M.length ≤ (nextDouble ds).1) ∧
    (∀ i (hi : i < M.length),
        thr (W / ((c : Rat) - 1)) M (i + 1) - thr (W / ((c : Rat) - 1)) M i = 1 - M[i].wt / (W / ((c : Rat) - 1)) ∧
        (1 - (thr (W / ((c : Rat) - 1)) M (i + 1) - thr (W / ((c : Rat) - 1)) M i)) * (W / ((c : Rat) - 1)) = M[i].wt) ∧
    (1 - thr (W / ((c : Rat) - 1)) M M.length = (r : Rat) * (1 - ((W - sumW M) / (r : Rat)) / (W / ((c : Rat) - 1)))) := by
  have hc2 : 2 ≤ c := by omega
  have hn : 0 < c - 1 := by omega
  have hcast : ((c - 1 : Nat) : Rat) = (c : Rat) - 1 := by rw [Nat.cast_sub (by omega)]; simp
  have hc1 : (0 : Rat) < (c : Rat) - 1 := by rw [← hcast]; exact_mod_cast hn
  generalize hτ : W / ((c : Rat) - 1) = τ
  have hτpos : 0 < τ := by rw [← hτ]; positivity
  have hWτ : W = τ * ((c - 1 : Nat) : Rat) := by rw [← hτ, hcast]; field_simp
  have hlt : ∀ e ∈ M, e.wt < τ := by
    intro e he
    rw [← hτ, lt_div_iff₀ hc1]; exact hlight e he
  -- the code on a candidate list with at least two explicit weights
  obtain ⟨a, b, t, hMabt⟩ : ∃ a b t, M = a :: b :: t := by
    match M, hM with
    | a :: b :: t, _ => exact ⟨a, b, t, rfl⟩
  have hloop0 : (0 : Rat) = ((c - 1 : Nat) : Rat) * 0 := by simp
  have hright : Num.mul (Num.mul (Num.neg (Num.one : Rat)) W) (nextDouble ds).1
      = τ * ((c - 1 : Nat) : Rat) * (((0 : Nat) : Rat) - (nextDouble ds).1) := by
    simp only [Num.mul_rat, Num.neg_rat, Num.one_rat]; rw [hWτ]; push_cast; ring
  obtain ⟨hchar1, hchar2⟩ := weightedLoop_char τ (c - 1) hτpos hn (nextDouble ds).1 M 0 0 hlt (by simpa using hu)
  have hb := weightedLoop_bounds (τ * ((c - 1 : Nat) : Rat)) (c - 1) M (((c - 1 : Nat) : Rat) * 0)
    (τ * ((c - 1 : Nat) : Rat) * (((0 : Nat) : Rat) - (nextDouble ds).1)) 0
  have hcds : (chooseDeleteSlot M r W c ds).1 =
      if weightedLoop (τ * ((c - 1 : Nat) : Rat)) (c - 1) M (((c - 1 : Nat) : Rat) * 0)
          (τ * ((c - 1 : Nat) : Rat) * (((0 : Nat) : Rat) - (nextDouble ds).1)) 0 = M.length
      then M.length + (pickR r (nextDouble ds).2).1
      else weightedLoop (τ * ((c - 1 : Nat) : Rat)) (c - 1) M (((c - 1 : Nat) : Rat) * 0)
          (τ * ((c - 1 : Nat) : Rat) * (((0 : Nat) : Rat) - (nextDouble ds).1)) 0 := by
    rw [← hright, ← hloop0, ← hWτ, hMabt]
    simp only [chooseDeleteSlot, Num.zero_rat, beq_iff_eq]
    split <;> rfl
  refine ⟨?_, ?_, ?_, ?_⟩
  · intro i hi
    rw [hcds]
    have := hchar1 i hi
    simp only [Nat.zero_add, zero_add] at this
    unfold thr
    rw [← this]
    split
    · rename_i heq; omega
    · rfl
  · rw [hcds]
    simp only [Nat.zero_add, zero_add] at hchar2
    unfold thr
    rw [List.take_length, ← hchar2]
    split
    · rename_i heq; constructor <;> intro _ <;> [exact heq; omega]
    · rename_i hne; constructor
      · intro h; omega
      · intro h; exact absurd h hne
  · intro i hi
    have htake : sumW (M.take (i + 1)) = sumW (M.take i) + M[i].wt := by
      rw [List.take_succ_eq_append_getElem hi, sumW_append]; simp [sumW]
    have hτne : τ ≠ 0 := ne_of_gt hτpos
    unfold thr
    rw [htake]
    constructor
    · push_cast; field_simp; ring
    · push_cast; field_simp; ring
  · unfold thr
    rw [List.take_length]
    have hr0 : (r : Rat) ≠ 0 := by exact_mod_cast (by omega : r ≠ 0)
    have hτne : τ ≠ 0 := ne_of_gt hτpos
    have hWeq : W = τ * ((c : Rat) - 1) := by rw [hWτ, hcast]
    have hcr : (c : Rat) = (M.length : Rat) + (r : Rat) := by rw [hc]; push_cast; ring
    rw [hWeq, hcr]
    field_simp
    ring

example : ∃ (M : List E) (W : Rat) (c : Nat), 2 ≤ M.length ∧ c = M.length + 2 ∧ 0 < W ∧
    (∀ e ∈ M, e.wt * ((c : Rat) - 1) < W) ∧ 0 ≤ (nextDouble exDraws).1 :=
  ⟨[⟨1, 3, false⟩, ⟨2, 4, false⟩], 27, 4, by decide, rfl, by norm_num, by
    intro e he; simp at he; rcases he with rfl | rfl <;> norm_num, by norm_num [nextDouble, exDraws, Num.ofFrac]⟩

-- ====================================================================================== union
-- `FromStream sk items` (DSProofs/Lemmas/VarOptWitness.lean): `sk` is what some stream `items` of positive weights
-- (any tunables, any k, any resize factor, any draws) leaves behind, starting from the empty sketch.
-- `unionAll u sks ds` (Lemmas/VarOptUnion.lean): `update` with each sketch of the list, in order.

/-- **vo_union.** Merging any list of sketches (each the result of any stream with any k) into a union of any
    `max_k`, with any draws: no `update` throws; the union's `n` is the sum of the inputs' `n`; and whenever
    `get_result` returns (does not throw), the result has that `n`, represents exactly the combined total weight
    (`Σ_H w + total_wt_r`), holds `h + r ≤ k_result ≤ max_k` samples, and carries no marks.
    ("smallest effective k" is read as the k of the returned sketch; an exact-mode input contributes all its items, so
    `min k_i` over the inputs is not a bound of the algorithm.)  Partial in two respects, see
    `vo_union_wellformed_full_false`: `get_result` can return a state that is not a valid estimation-mode state, and
    "returns" is a hypothesis. -/
theorem vo_union (T : Tunables) (maxK : Nat) (u0 : Un Rat) (hu0 : Un.new T maxK = some u0)
    (inputs : List (Sk Rat × List (Int × Rat))) (hin : ∀ p ∈ inputs, FromStream p.1 p.2) (ds : Draws Rat) :
    ∃ u ds', unionAll T u0 (inputs.map (·.1)) ds = some (u, ds') ∧
      u.n = (inputs.map (fun p => p.2.length)).sum ∧
      ∀ (ds2 : Draws Rat) (res : Sk Rat) (ds3 : Draws Rat), u.getResult T ds2 = some (res, ds3) →
        res.n = u.n ∧ skWeight res = sumR (inputs.map (fun p => totalW p.2)) ∧
        res.H.length + res.R.length ≤ res.k ∧ res.k ≤ maxK ∧ res.numSamples ≤ maxK ∧
        res.gadget = false ∧ res.numMarksInH = 0 ∧ (∀ e ∈ res.H, e.mark = false) := by
  obtain ⟨hinv0, hk0⟩ := newUnion_inv T maxK u0 hu0
  obtain ⟨u, ds', insG, LG, hall, hu, hk, _⟩ := unionAll_spec T inputs hin u0 [] [] 0 0 ds hinv0 (newUnion_book T maxK u0 hu0)
  simp only [zero_add, Nat.zero_add] at hu
  refine ⟨u, ds', hall, hu.n_eq, ?_⟩
  intro ds2 res ds3 hres
  obtain ⟨hok, _⟩ := getResult_spec T u insG LG _ _ hu ds2 res ds3 hres
  refine ⟨by rw [hok.n_eq, hu.n_eq], hok.weight, hok.size, by rw [← hk0, ← hk]; exact hok.kLe, ?_, hok.notGadget,
    hok.noMarkCount, hok.noMarks⟩
  unfold Sk.numSamples
  have := hok.kLe; rw [hk, hk0] at this
  omega

example : ∃ u0, Un.new (α := Rat) exT 10 = some u0 ∧ (∀ p ∈ [(wA, wItemsA), (wB, wItemsB)], FromStream p.1 p.2) :=
  ⟨_, rfl, by
    intro p hp
    simp at hp
    rcases hp with rfl | rfl
    · exact wA_fromStream
    · exact wB_fromStream⟩

/-- full statement: whatever `get_result` returns is a valid VarOpt state (in estimation mode H is a min-heap and no
    H item is lighter than tau) — what later `update`s of the result rely on -/
def vo_union_wellformed_full : Prop :=
  ∀ (T : Tunables) (maxK : Nat) (u0 : Un Rat), Un.new T maxK = some u0 →
    ∀ (inputs : List (Sk Rat × List (Int × Rat))), (∀ p ∈ inputs, FromStream p.1 p.2) →
      ∀ (ds : Draws Rat) (u : Un Rat) (ds' : Draws Rat), unionAll T u0 (inputs.map (·.1)) ds = some (u, ds') →
        ∀ (ds2 : Draws Rat) (res : Sk Rat) (ds3 : Draws Rat), u.getResult T ds2 = some (res, ds3) → WellFormed res

/-- **The current code violates it** (open finding `union-result-sample-lighter-than-tau`; the same coercer also
    skips re-heapifying, finding `union-result-not-heap-ordered`).  Witness: k = 2 sketch after three items of weight
    10 (tau 15) and a k = 10 sketch holding one item of weight 1, united with max_k = 10: the pseudo-exact coercer
    (whose guard compares against NaN) returns H = {(4, 1)}, R = two items of total weight 30: 1 < tau = 15.
    Replayed on the real code by corpus/regress/C16/w3-*.txt (and w4-*.txt). -/
theorem vo_union_wellformed_full_false : ¬ vo_union_wellformed_full := by
  intro h
  have hin : ∀ p ∈ [(wA, wItemsA), (wB, wItemsB)], FromStream p.1 p.2 := by
    intro p hp
    simp at hp
    rcases hp with rfl | rfl
    · exact wA_fromStream
    · exact wB_fromStream
  have hsome0 : (unionAll exT wU0 [wA, wB] wDs).isSome = true := by decide +kernel
  cases hall : unionAll exT wU0 [wA, wB] wDs with
  | none => rw [hall] at hsome0; exact absurd hsome0 (by simp)
  | some q =>
    obtain ⟨u, ds'⟩ := q
    have hu : wU = u := by simp [wU, hall]
    have hsome : (wU.getResult exT wDs).isSome = true := by decide +kernel
    cases hres : wU.getResult exT wDs with
    | none => rw [hres] at hsome; exact absurd hsome (by simp)
    | some p =>
      obtain ⟨res, ds3⟩ := p
      have hwf := h exT 10 wU0 rfl [(wA, wItemsA), (wB, wItemsB)] hin wDs u ds' hall wDs res ds3 (by rw [← hu]; exact hres)
      have hres' : wRes = res := by simp [wRes, hres]
      rw [← hres'] at hwf
      have hR : wRes.R ≠ [] := by decide +kernel
      have hall' : wRes.H.all (fun e => decide (wRes.totalWtR / (wRes.R.length : Rat) ≤ e.wt)) = true := by
        rw [List.all_eq_true]
        intro e he
        simpa using (hwf hR).2 e he
      revert hall'
      decide +kernel

/-- **vo_union_wellformed_partial.** The result IS a valid state whenever the pseudo-exact mark-moving coercer is not
    the path taken (no marked items in the gadget's H, or the general `migrate_marked_items_by_decreasing_k` path). -/
theorem vo_union_wellformed_partial (T : Tunables) (maxK : Nat) (u0 : Un Rat) (hu0 : Un.new T maxK = some u0)
    (inputs : List (Sk Rat × List (Int × Rat))) (hin : ∀ p ∈ inputs, FromStream p.1 p.2) (ds : Draws Rat)
    (u : Un Rat) (ds' : Draws Rat) (hall : unionAll T u0 (inputs.map (·.1)) ds = some (u, ds'))
    (ds2 : Draws Rat) (res : Sk Rat) (ds3 : Draws Rat) (hres : u.getResult T ds2 = some (res, ds3))
    (hpath : pseudoExact T u { u.gadget with n := u.n } = none) : WellFormed res := by
  obtain ⟨hinv0, _⟩ := newUnion_inv T maxK u0 hu0
  obtain ⟨u', ds'', insG, LG, hall', hu, _, _⟩ := unionAll_spec T inputs hin u0 [] [] 0 0 ds hinv0 (newUnion_book T maxK u0 hu0)
  rw [hall] at hall'
  injection hall' with hall'; injection hall' with h1 h2
  subst h1
  exact (getResult_spec T u insG LG _ _ hu ds2 res ds3 hres).2 hpath

example : (pseudoExact (α := Rat) exT wU0 { wU0.gadget with n := wU0.n }).isNone = true := by decide +kernel

-- ====================================================================================== serialize -> deserialize

/-- full statement: a sketch that went through serialize → deserialize keeps accepting the stream -/
def vo_serde_update_full : Prop :=
  ∀ (sk : Sk Rat) (items : List (Int × Rat)), FromStream sk items →
    ∀ (T : Tunables) (sk2 : Sk Rat), serdeRoundTrip T sk = some sk2 →
      ∀ (x : Int) (w : Rat) (ds : Draws Rat), 0 < w → (update T sk2 x w false ds).isSome = true

/-- **The current code violates it** (open finding `update-throws-after-deserialize`): `deserialize` constructs an
    estimation-mode sketch with `m_ = 1`, and every update path then fails an entry check.  Witness: the k = 2 sketch
    after three items of weight 10, through bytes, then `update(4, 3)`.  Replayed by corpus/regress/C16/w1-*.txt. -/
theorem vo_serde_update_full_false : ¬ vo_serde_update_full := by
  intro h
  have hsome : (serdeRoundTrip exT wA).isSome = true := by decide +kernel
  cases hs : serdeRoundTrip exT wA with
  | none => rw [hs] at hsome; exact absurd hsome (by simp)
  | some sk2 =>
    have := h wA wItemsA wA_fromStream exT sk2 hs 4 3 wDs (by norm_num)
    have h2 : wA2 = sk2 := by simp [wA2, hs]
    rw [← h2] at this
    revert this
    decide +kernel

/-- **vo_serde_update_partial.** What does hold: serialize → deserialize of a (non-gadget) sketch succeeds and the
    copy answers every query identically (n, k, number of samples, iterator output, subset sums); and a sketch that is
    still in warm-up keeps accepting updates. -/
theorem vo_serde_update_partial (sk : Sk Rat) (items : List (Int × Rat)) (hfs : FromStream sk items) (T : Tunables)
    (hk : sk.k ≤ T.maxK) (hne : sk.isEmpty = false) :
    ∃ sk2, serdeRoundTrip T sk = some sk2 ∧ sk2.n = sk.n ∧ sk2.k = sk.k ∧ sk2.numSamples = sk.numSamples ∧
      sk2.samples = sk.samples ∧ (∀ B p, estimateSubsetSum B sk2 p = estimateSubsetSum B sk p) ∧
      (sk.R = [] → ∀ (x : Int) (w : Rat) (ds : Draws Rat), 0 < w → (update T sk2 x w false ds).isSome = true) := by
  obtain ⟨T0, k, rf, s0, ds, ds', h0, hpos, hf⟩ := hfs
  obtain ⟨hinv0, _, hg0, _⟩ := new_inv T0 k rf false s0 h0
  obtain ⟨s, ds2, L, hf', hinv, _, hg, _, _⟩ := feed_spec T0 false items s0 [] [] ds hinv0 hpos (by simp)
  rw [hf] at hf'
  injection hf' with hf'; injection hf' with h1 h2
  subst h1
  have hgad : sk.gadget = false := by rw [hg, hg0]
  obtain ⟨a, hform⟩ := serde_formula T sk _ L hinv hgad hk hne
  refine ⟨_, hform, rfl, rfl, rfl, ?_, ?_, ?_⟩
  · by_cases hR : sk.R = []
    · simp [Sk.samples, hR]
    · have : sk.R.length > 0 := length_pos_of_ne_nil hR
      simp [Sk.samples, this]
  · intro B p
    by_cases hR : sk.R = []
    · simp [estimateSubsetSum, hR]
    · have : sk.R.length > 0 := length_pos_of_ne_nil hR
      simp [estimateSubsetSum, this]
  · intro hR x w ds3 hw
    obtain ⟨sk2, hs2, hi, _⟩ := serde_inv T sk _ L hinv hgad hk hne (Or.inl hR)
    rw [hform] at hs2
    injection hs2 with hs2
    rw [hs2]
    obtain ⟨s', ds4, L', hu, _⟩ := update_spec T sk2 _ L hi x w false ds3 hw (by simp)
    rw [hu]; rfl

example : FromStream wA wItemsA ∧ wA.k ≤ exT.maxK ∧ wA.isEmpty = false := ⟨wA_fromStream, by decide +kernel, by decide +kernel⟩

end DS.VarOpt

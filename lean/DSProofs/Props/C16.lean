/- C16 — placeholder while the model is being tied to the code; theorems follow. -/
import DSModel.VarOpt.Union
namespace DS.VarOpt

theorem vo_placeholder : (Sk.new (α := Rat) ⟨10, 3, 3, 2, 1, 1, 10, []⟩ 0 0 false).isNone = true := by decide

end DS.VarOpt

/-
C09 (Bloom filter part) — serialization round trip of the Bloom filter image.

ONLY property theorems and non-vacuity examples (helper lemmas: Lemmas/WireMisc*.lean).
Model: DSModel/Wire/Bloom.lean = the documented layout (3 preamble longs when empty, else 4 with
num_bits_set at byte 24 and the bit array from byte 32).  `c : Consts` are the wire constants; all
statements hold for every `c` satisfying the decidable side conditions `c.Valid`, in particular for the
values generated from the current headers (`genConsts_valid`).  Owned and wrapped-in-caller-memory
filters use the same bytes (`wrap`/`writable_wrap` interpret the caller's copy of this image), which the
correspondence check exercises on the real code (`./check c09_misc`).
-/
import DSProofs.Lemmas.WireMiscBloom
import DSModel.Wire.BloomGen
namespace DS.Wire.Bloom
open DS.Wire

/-- the constants extracted from the current headers satisfy the side conditions of the theorems below -/
theorem genConsts_valid : genConsts.Valid := by decide

/-- decoding an encoded well-formed image gives back the image and leaves exactly the bytes that
followed it: the reader consumes the image and nothing after it. -/
theorem decode_encode (c : Consts) (hc : c.Valid) (s : Img) (hs : WF s) (tail : Bytes) :
    decode c (encode c s ++ tail) = some (s, tail) := decode_encode_lem c hc s hs tail

/-- the image has exactly the advertised size: 24 bytes when empty, else 32 + 8·num_longs
(= `get_serialized_size_bytes()`; the static `get_serialized_size_bytes(num_bits)` is the non-empty value). -/
theorem size_eq (c : Consts) (s : Img) (hs : WF s) : (encode c s).length = serializedSize s :=
  size_eq_lem c s hs

/-- the published bound: never more than the non-empty size for that capacity -/
theorem size_le_max (s : Img) : serializedSize s ≤ 8 * (4 + s.numLongs) := by
  unfold serializedSize; split <;> omega

/-- re-serialisation is byte-identical for canonical images: whatever decodes to `s` and is itself an
encoding re-encodes to the same bytes (encode ∘ decode ∘ encode = encode). -/
theorem encode_decode_encode (c : Consts) (hc : c.Valid) (s : Img) (hs : WF s) :
    (decode c (encode c s)).map (fun p => encode c p.1) = some (encode c s) := by
  have := decode_encode c hc s hs []
  simp only [List.append_nil] at this
  simp [this]

/-- a non-empty filter with 2 hash functions, 128 bits, 3 bits set, and an image carrying the dirty marker -/
def exImg : Img := { numHashes := 2, seed := 9001, numLongs := 2,
                     body := some (3, [1, 0, 0, 0x80, 0, 0, 0, 0, 0, 0, 0, 0, 0, 0, 0, 2]) }
def exDirty : Img := { exImg with body := some (2^64 - 1, [1, 0, 0, 0x80, 0, 0, 0, 0, 0, 0, 0, 0, 0, 0, 0, 2]) }
def exEmpty : Img := { numHashes := 7, seed := 0, numLongs := 1, body := none }

example : WF exImg ∧ WF exDirty ∧ WF exEmpty := by decide
example : decode genConsts (encode genConsts exImg ++ [0xAA]) = some (exImg, [0xAA]) := by decide
example : (encode genConsts exImg).length = 48 ∧ (encode genConsts exEmpty).length = 24 := by decide

end DS.Wire.Bloom

/-
C20 — Density sketch keeps exact counts; exact before the first compaction.

ONLY property theorems and their non-vacuity examples live here (helper lemmas: Lemmas/Density*.lean).
Model: DSModel/Density/Sketch.lean (tied to density/include/density_sketch_impl.hpp by `./check C20`:
the Float / Float32 instance with the concrete picker is compared with the real class on generated histories).

Quantifiers.  `α` = coordinate type, `Hist α` = every finite tree of `new / upd / merge` (every point stream,
every merge tree, every k, every dimension), `P : Picker ρ α`, `r : ρ` = every way of choosing, at every
compaction, a permutation of the level and a subset to keep (`ρ` arbitrary, so choices may depend on the whole
history).  `compact_level`'s own random-bit / shuffle / discrepancy-sign choice is the instance
`concretePicker K src`.  `minK` = the bound enforced by `check_k` (DSGen.density_MIN_K, regenerated from the
header every run); the theorems need `1 ≤ minK`.  `c : Cfg` = the three statements of the header in which the
findings below live (regenerated from the header every run: `curCfg`); every theorem not concerned by a switch holds
for all its values.

Findings on the PINNED code (kept as `…_full_false` + witness, replayed on the implementation every run), each with the
theorem `…_fixed` that the full statement holds once the proposed one-line fix is in, and `…_current`, which states the
full statement or its negation for the header as it is NOW (all three fixes are in /repo since d82c76a / 2bb7081 / 802a452):
* `ds_n_exact`          — `merge` tests `other.is_empty()`, which is `num_retained_ == 0`, not `n_ == 0`; a sketch whose
  compaction kept no point (kernel value exactly 0, e.g. Gaussian underflow for points ≥ 39 apart, first bit 0) has
  n > 0 and is skipped: its n is lost.
* `ds_dim_refused`      — `get_estimate` does not check the dimension of the query point (update and merge do).
* `ds_estimate_nonneg`  — `get_estimate` computes the level weight as `1 << height` in 32-bit `int` (the iterator uses
  `1ULL << height_`): a point on level 31 gets weight −2^31 (negative estimates), level ≥ 32 is undefined behaviour.

Shape switch `popsEmptyTop` (repair of the C09 finding "a trailing empty level is written but never read back"): after
`compact_level`, `compact()` drops empty levels from the top.  EVERY theorem here holds for both shapes; the level count can now
shrink, and the termination proof is unchanged because the measure Σ_h |level_h|·(B − h) does not see empty levels
(`mu_popTop`) and its side condition `levels ≤ B` is re-derived from the loop guard at every iteration, not from monotonicity.
`ds_top_level_nonempty` (repaired shape; false of the pinned shape, `…_current` selects) is the `WF` hypothesis "last level
non-empty" of the wire round trip (C09).  One statement had to be sharpened: with the repaired shape a sketch can be back at ONE
level after a compaction that kept nothing, so "before the first compaction" is characterised by
`levels = 1 ∧ num_retained = n` (for the pinned shape one level alone implies it: `ds_exact_before_compaction_pinned`).
-/
import DSProofs.Lemmas.DensityWitness
import DSModel.Density.Kernels
import DSGen.Density
namespace DS.Density

variable {α ρ : Type}

/-- the behaviour switches of the header as it is now -/
def curCfg : Cfg :=
  { mergeSkipOnN := DSGen.density_MERGE_SKIPS_ON_N, queryChecksDim := DSGen.density_QUERY_CHECKS_DIM,
    weight64 := DSGen.density_EST_WEIGHT_64, popsEmptyTop := DSGen.density_COMPACT_POPS_EMPTY_TOP }

/-! ## ds_compact_terminates -/

/-- The `while (num_retained_ >= k_ * levels_.size()) compact();` loop ends for EVERY choice of kept subsets
(even "keep everything"), from every state in which `num_retained_` is the number of stored points, there is at
least one level and k ≥ 1: within `fuelOf s = num_retained² + 1` iterations the guard is false, and a larger budget
changes nothing.  Measure: Σ_h |level_h|·(B − h) with B = num_retained at loop entry (every height stays < B while
the guard holds; a compaction removes the level's points from height h and re-inserts at most as many at h+1; dropping
empty levels from the top – repaired shape – leaves the measure unchanged).  Both shapes of `compact()`. -/
theorem ds_compact_terminates (c : Cfg) (P : Picker ρ α) (r : ρ) (s : Sketch α)
    (hcnt : s.numRetained = sumLen s.levels) (hne : s.levels ≠ []) (hk : 1 ≤ s.k) :
    loopCond (compactLoop c P r s).1 = false ∧ ∀ f, fuelOf s ≤ f → drain c P f r s = compactLoop c P r s :=
  ⟨compactLoop_exits c P r ⟨hcnt, hne⟩ hk,
   fun f hf => drain_stable c P (fuelOf s) f r s (compactLoop_exits c P r ⟨hcnt, hne⟩ hk) hf⟩

/-- every state the public API can reach satisfies the hypotheses of `ds_compact_terminates` -/
theorem ds_compact_terminates_reachable (c : Cfg) (P : Picker ρ α) (minK : Nat) (hm : 1 ≤ minK) (hist : Hist α)
    (hv : hist.valid minK) (r : ρ) :
    let s := (run c P hist r).1
    s.numRetained = sumLen s.levels ∧ s.levels ≠ [] ∧ 1 ≤ s.k :=
  let h := run_rinv c P minK hm hist hv r
  ⟨h.inv.cnt, h.inv.ne, h.kpos⟩

/-- the side condition on the constant taken from the current header -/
theorem ds_minK_side_condition : 1 ≤ DSGen.density_MIN_K := by decide

/-- non-vacuity: keep-everything picker, k = 2, four points on one level: two compactions, then the guard is false -/
example : (compactLoop {} (fun (_ : Unit) (l : Level Nat) => (([], l.map (fun _ => true)), ()))
    () { k := 2, dim := 1, n := 4, numRetained := 4, levels := [[[1], [2], [3], [4]]] }).1.levels
      = [[], [], [[1], [2], [3], [4]]] := by decide
/-- the counting hypothesis is necessary: with `num_retained_` too large `compact()` is a no-op while the guard
stays true – the real loop would spin (this is what dropping `--num_retained_` in compact_level causes). -/
def stuck : Sketch Nat := { k := 2, dim := 1, n := 5, numRetained := 5, levels := [[[1]], [[2]]] }
example : compact {} dropAll () stuck = (stuck, ()) ∧ loopCond stuck = true := by decide
/-- repaired shape: the level count shrinks inside the loop (k = 2, [[p],[a,b,c]], nothing kept: back to one level) and the loop
still exits by its guard -/
example : (compactLoop { popsEmptyTop := true } dropAll ()
    { k := 2, dim := 1, n := 9, numRetained := 4, levels := [[[1]], [[2], [3], [4]]] }) =
      ({ k := 2, dim := 1, n := 9, numRetained := 1, levels := [[[1]]] }, ()) := by decide

/-! ## ds_retained_eq_iter, ds_retained_bound -/

/-- `get_num_retained()` = number of points visible through `begin()..end()` = Σ level sizes, and every iterated
pair is (a point stored at some level h, weight 2^h). -/
theorem ds_retained_eq_iter (c : Cfg) (P : Picker ρ α) (minK : Nat) (hm : 1 ≤ minK) (hist : Hist α) (hv : hist.valid minK) (r : ρ) :
    let s := (run c P hist r).1
    s.numRetained = (iter s).length ∧ s.numRetained = sumLen s.levels ∧
    ∀ x ∈ iter s, ∃ h lvl, s.levels[h]? = some lvl ∧ x.1 ∈ lvl ∧ x.2 = 2 ^ h := by
  have h := run_rinv c P minK hm hist hv r
  refine ⟨by rw [iter, iterFrom_length]; exact h.inv.cnt, h.inv.cnt, ?_⟩
  intro x hx
  obtain ⟨i, lvl, h1, h2, h3⟩ := (iterFrom_mem 0 _ x).1 hx
  exact ⟨i, lvl, h1, h2, by simpa using h3⟩

/-- after every public operation `num_retained_ ≤ k_ · levels_.size()` (and retained ≤ n). -/
theorem ds_retained_bound (c : Cfg) (P : Picker ρ α) (minK : Nat) (hm : 1 ≤ minK) (hist : Hist α) (hv : hist.valid minK) (r : ρ) :
    let s := (run c P hist r).1
    s.numRetained ≤ s.k * s.levels.length ∧ s.numRetained ≤ s.n :=
  let h := run_rinv c P minK hm hist hv r
  ⟨h.bound, h.nge⟩

/-- what the code guarantees exactly: the bound is strict right after an accepted merge (and an accepted update
leaves at most `k·levels`: it pushes one point after the loop made it strict). -/
theorem ds_retained_bound_strict_after_merge (c : Cfg) (P : Picker ρ α) (r : ρ) (s o : Sketch α)
    (hs : s.numRetained = sumLen s.levels) (hne : s.levels ≠ []) (ho : o.numRetained = sumLen o.levels) (hk : 1 ≤ s.k)
    (h0 : mergeSkips c o = false) (hd : o.dim = s.dim) :
    (merge c P r s o).1.numRetained < (merge c P r s o).1.k * (merge c P r s o).1.levels.length := by
  rw [merge_accepted c P r s o h0 hd]
  refine compactLoop_lt c P r ⟨?_, mergeLevels_ne _ _ hne⟩ hk
  simp only [merged, sumLen_mergeLevels]; omega

/-- non-vacuity: k = 2, nine updates, "keep the first point only" picker: compactions on levels 0 and 1 -/
def exHist : Hist Nat := .upd (.upd (.upd (.upd (.upd (.upd (.upd (.upd (.upd (.new 2 1) [1]) [2]) [3]) [4]) [5]) [6]) [7]) [8]) [9]
def exPick : Picker Unit Nat := fun _ _ => (([], [true]), ())
example : exHist.valid 2 ∧ (run {} exPick exHist ()).1.levels = [[[8], [9]], [], [[1]]]
    ∧ (run {} exPick exHist ()).1.numRetained = 3 ∧ (run {} exPick exHist ()).1.n = 9
    ∧ iter (run {} exPick exHist ()).1 = [([8], 1), ([9], 1), ([1], 4)] := by decide

/-! ## ds_top_level_nonempty (what makes the wire round trip total: C09's `WF` hypothesis "last level non-empty") -/

/-- FULL statement: the top level of a reachable sketch with more than one level is never empty. -/
def ds_top_level_nonempty_full (c : Cfg) : Prop :=
  ∀ (α ρ : Type) (P : Picker ρ α) (r : ρ) (hist : Hist α), hist.valid 2 →
    ∀ top, 1 < (run c P hist r).1.levels.length → (run c P hist r).1.levels.getLast? = some top → top ≠ []

/-- repaired shape (`compact()` drops empty levels from the top): the full statement holds, for every history and every choice. -/
theorem ds_top_level_nonempty_fixed (c : Cfg) (hc : c.popsEmptyTop = true) : ds_top_level_nonempty_full c := by
  intro α ρ P r hist hv top hL hlast
  have ht := (run_rinv c P 2 (by decide) hist hv r).top hc
  exact top_ne_of_topNonempty _ ht top hL hlast

/-- pinned shape: false – {0} merged with {100} (k = 2), the compaction keeps nothing and the freshly pushed level stays empty
(C09 key `density/trailing-empty-level-not-restored`). -/
theorem ds_top_level_nonempty_full_false (c : Cfg) (hc : c.popsEmptyTop = false) : ¬ ds_top_level_nonempty_full c := by
  intro h
  obtain ⟨hv, hl⟩ := emptyTopHist_levels c hc
  have := h Nat Unit dropAll () emptyTopHist hv [] (by rw [hl]; decide) (by rw [hl]; rfl)
  exact this rfl

/-- the header as it is now -/
theorem ds_top_level_nonempty_current :
    if curCfg.popsEmptyTop = true then ds_top_level_nonempty_full curCfg else ¬ ds_top_level_nonempty_full curCfg := by
  by_cases h : curCfg.popsEmptyTop = true
  · rw [if_pos h]; exact ds_top_level_nonempty_fixed _ h
  · rw [if_neg h]; exact ds_top_level_nonempty_full_false _ (by simpa using h)

/-- non-vacuity (repaired shape): same history, the empty top is gone; and a history whose top level holds a point -/
example : (run { popsEmptyTop := true } dropAll emptyTopHist ()).1.levels = [[]] ∧
    (run { popsEmptyTop := true } exPick exHist ()).1.levels = [[[8], [9]], [], [[1]]] := by decide

/-! ## ds_n_exact -/

/-- FULL statement: n is the number of accepted input points over the whole merge tree. -/
def ds_n_exact_full (c : Cfg) : Prop :=
  ∀ (α ρ : Type) (P : Picker ρ α) (r : ρ) (hist : Hist α), hist.valid 2 →
    (run c P hist r).1.n = hist.inputs.length

/-- The pinned code (`merge` returns early on `is_empty()`) violates the full statement: witness `lossHist` with the picker that
keeps nothing (replayed on the implementation every run: with the Gaussian kernel, points 0 and 100 and first bit 0 the
real `compact_level` keeps nothing; key `merge-loses-n-of-emptied-operand`). -/
theorem ds_n_exact_full_false (c : Cfg) (hc : c.mergeSkipOnN = false) : ¬ ds_n_exact_full c := by
  intro h
  obtain ⟨hv, h1, h2⟩ := lossHist_n c hc
  have := h Nat Unit dropAll () lossHist hv
  omega

/-- With the proposed fix (`if (other.n_ == 0) return;`) the full statement holds. -/
theorem ds_n_exact_fixed (c : Cfg) (hc : c.mergeSkipOnN = true) : ds_n_exact_full c :=
  fun _ _ P r hist hv => run_n c P 2 hist hv r (noEmptiedOperand_of_skipOnN c hc P hist r)

/-- the header as it is now: the full statement, or its negation, whichever the current early return implies -/
theorem ds_n_exact_current : if curCfg.mergeSkipOnN = true then ds_n_exact_full curCfg else ¬ ds_n_exact_full curCfg := by
  by_cases h : curCfg.mergeSkipOnN = true
  · rw [if_pos h]; exact ds_n_exact_fixed _ h
  · rw [if_neg h]; exact ds_n_exact_full_false _ (by simpa using h)

/-- the same loss with the code's OWN choice (concrete picker, exact arithmetic, indicator kernel, first bit 0):
all discrepancies are 0, `delta < 0` is false for every point, nothing is kept. -/
def lossHistRat : Hist Rat := .merge (.upd (.new 2 1) [5]) (.merge (.upd (.new 2 1) [0]) (.upd (.new 2 1) [100]))
example : (run {} (concretePicker indicatorK) lossHistRat { bits := [false] }).1.n = 1 ∧ lossHistRat.inputs.length = 3 := by
  decide +kernel

/-- PROVED PART (any early-return test): n is exact for every history in which no merge skips an operand that has seen points
(pinned code: no operand is an emptied sketch, `num_retained_ = 0` although `n_ > 0`).  What is missing for the full
statement is exactly the skipped case. -/
theorem ds_n_exact_partial (c : Cfg) (P : Picker ρ α) (minK : Nat) (hist : Hist α) (hv : hist.valid minK) (r : ρ)
    (hne : hist.noEmptiedOperand c P r) : (run c P hist r).1.n = hist.inputs.length :=
  run_n c P minK hist hv r hne

/-- step form, unconditional: an accepted update adds 1; a merge adds `other.n` iff the early return does not fire and the
dimensions agree, and otherwise changes nothing (pinned code: an operand with `num_retained_ = 0 < n_` is dropped). -/
theorem ds_n_step (c : Cfg) (P : Picker ρ α) (r : ρ) (s o : Sketch α) (p : Point α) :
    (p.length = s.dim → (update c P r s p).1.n = s.n + 1) ∧
    (mergeSkips c o = false → o.dim = s.dim → (merge c P r s o).1.n = s.n + o.n) ∧
    (mergeSkips c o = true → (merge c P r s o).1.n = s.n) := by
  refine ⟨update_n c P r s p, ?_, ?_⟩
  · intro h0 hd; rw [merge_accepted c P r s o h0 hd, compactLoop_n]; rfl
  · intro h0; rw [merge_skipped c P r s o h0]

/-- non-vacuity of the partial statement: a three-sketch merge tree with compactions and a refused point -/
def exTree : Hist Nat :=
  .merge (.upd (.upd (.upd (.new 2 1) [1]) [2, 2]) [3]) (.merge (.upd (.new 3 1) [4]) (.upd (.upd (.new 2 1) [5]) [6]))
example : exTree.valid 2 ∧ exTree.noEmptiedOperand {} exPick () ∧ (run {} exPick exTree ()).1.n = 5
    ∧ exTree.inputs = [[1], [3], [4], [5], [6]] ∧ (run {} exPick exTree ()).1.levels = [[[1], [3]], [[4]]] := by decide

/-! ## ds_dim_refused -/

/-- FULL statement: a point of the wrong dimension is refused by `update`, a sketch of another dimension that would be
merged by `merge`, and a query point of the wrong dimension by `get_estimate`. -/
def ds_dim_refused_full (c : Cfg) : Prop :=
  ∀ (α ρ : Type) (P : Picker ρ α) (r : ρ) (s o : Sketch α) (p : Point α),
    (p.length ≠ s.dim → updateThrows s p = true ∧ update c P r s p = (s, r)) ∧
    (mergeSkips c o = false → o.dim ≠ s.dim → mergeThrows c s o = true ∧ merge c P r s o = (s, r)) ∧
    (p.length ≠ s.dim → estimateThrows c s p = true)

/-- PROVED PART (all switches): update and merge refuse (throw, state untouched); an operand on which the early return fires is
accepted silently whatever its dimension and changes nothing. -/
theorem ds_dim_refused_partial (c : Cfg) (P : Picker ρ α) (r : ρ) (s o : Sketch α) (p : Point α) :
    (p.length ≠ s.dim → updateThrows s p = true ∧ update c P r s p = (s, r)) ∧
    (mergeSkips c o = false → o.dim ≠ s.dim → mergeThrows c s o = true ∧ merge c P r s o = (s, r)) ∧
    (mergeSkips c o = true → mergeThrows c s o = false ∧ merge c P r s o = (s, r)) := by
  refine ⟨fun h => ⟨by simp [updateThrows, h], update_refused c P r s p h⟩,
          fun h0 hd => ⟨by simp [mergeThrows, h0, hd], merge_refused c P r s o hd⟩,
          fun h0 => ⟨by simp [mergeThrows, h0], merge_skipped c P r s o h0⟩⟩

/-- The pinned code violates the third conjunct: `get_estimate` throws only for an empty sketch (key
`query-wrong-dim-not-refused`; with a query SHORTER than `dim` the Gaussian kernel reads past the end of the vector). -/
theorem ds_dim_refused_full_false (c : Cfg) (hc : c.queryChecksDim = false) : ¬ ds_dim_refused_full c := by
  intro h
  have := (h Nat Unit dropAll () { k := 2, dim := 2, n := 1, numRetained := 1, levels := [[[1, 2]]] }
            { k := 2, dim := 2, n := 0, numRetained := 0, levels := [[]] } [7]).2.2 (by decide)
  simp [estimateThrows, hc] at this

/-- With the proposed fix (`if (point.size() != dim_) throw` in `get_estimate`) the full statement holds. -/
theorem ds_dim_refused_fixed (c : Cfg) (hc : c.queryChecksDim = true) : ds_dim_refused_full c := by
  intro α ρ P r s o p
  obtain ⟨h1, h2, _⟩ := ds_dim_refused_partial c P r s o p
  exact ⟨h1, h2, fun hp => by simp [estimateThrows, hc, hp]⟩

theorem ds_dim_refused_current :
    if curCfg.queryChecksDim = true then ds_dim_refused_full curCfg else ¬ ds_dim_refused_full curCfg := by
  by_cases h : curCfg.queryChecksDim = true
  · rw [if_pos h]; exact ds_dim_refused_fixed _ h
  · rw [if_neg h]; exact ds_dim_refused_full_false _ (by simpa using h)

example : updateThrows (init 4 3 : Sketch Nat) [1, 2] = true ∧ updateThrows (init 4 3 : Sketch Nat) [1, 2, 3] = false := by decide

/-! ## ds_exact_before_compaction, ds_estimate_nonneg (exact arithmetic: `Rat` instance of the same definitions) -/

/-- Until the first compaction that drops a point anywhere in the merge tree – observable as: this sketch and every merged operand
have a single level and `num_retained = n` – `get_estimate(q)` is the exact kernel mean over all inputs: (Σ_p K(p,q)) / n, with
n = number of inputs.  Both shapes of `compact()`. -/
theorem ds_exact_before_compaction (c : Cfg) (P : Picker ρ Rat) (minK : Nat) (hm : 1 ≤ minK) (hist : Hist Rat)
    (hv : hist.valid minK) (r : ρ) (hop : hist.operandsExact c P r) (h1 : (run c P hist r).1.levels.length = 1)
    (hn : (run c P hist r).1.numRetained = (run c P hist r).1.n)
    (K : Point Rat → Point Rat → Rat) (q : Point Rat) :
    estimate c K (run c P hist r).1 q = kernelSum K q hist.inputs / (hist.inputs.length : Rat)
    ∧ (run c P hist r).1.n = hist.inputs.length := by
  obtain ⟨e1, e2⟩ := run_exact c P minK hm hist hv r hop h1 hn
  refine ⟨?_, e2⟩
  simp only [estimate, e1, e2, estFrom]
  rw [estLevel_rat, estWeight_rat]
  simp [Scalar.zero]

/-- pinned shape of `compact()`: `!is_estimation_mode()` (one level) alone certifies that nothing was lost. -/
theorem ds_exact_before_compaction_pinned (c : Cfg) (hp : c.popsEmptyTop = false) (P : Picker ρ Rat) (minK : Nat) (hm : 1 ≤ minK)
    (hist : Hist Rat) (hv : hist.valid minK) (r : ρ) (hop : hist.operandsExact c P r)
    (h1 : (run c P hist r).1.levels.length = 1) (K : Point Rat → Point Rat → Rat) (q : Point Rat) :
    estimate c K (run c P hist r).1 q = kernelSum K q hist.inputs / (hist.inputs.length : Rat)
    ∧ (run c P hist r).1.n = hist.inputs.length :=
  ds_exact_before_compaction c P minK hm hist hv r hop h1 (run_one_level_pinned c hp P minK hm hist hv r h1) K q

/-- repaired shape: one level alone does NOT certify it – two far-apart points, the compaction keeps nothing and the emptied level
vector is cut back to one level, then a third point arrives: one level, n = 3, one point retained. -/
example : (run { popsEmptyTop := true } dropAll (.upd (.upd (.upd (.new 2 1) [0]) [100]) [7] : Hist Nat) ()).1
    = { k := 2, dim := 1, n := 3, numRetained := 1, levels := [[[7]]] } := by decide

/-- FULL statement: for a non-negative kernel every estimate of every reachable sketch is non-negative. -/
def ds_estimate_nonneg_full (c : Cfg) : Prop :=
  ∀ (ρ : Type) (P : Picker ρ Rat) (r : ρ) (hist : Hist Rat), hist.valid 2 →
    ∀ (K : Point Rat → Point Rat → Rat), (∀ p q, 0 ≤ K p q) → ∀ q, 0 ≤ estimate c K (run c P hist r).1 q

/-- The pinned code violates it: the balanced merge tree over 2^36 one-point sketches (k = 2, every compaction keeps every
second point) has 32 points on level 31; `(1 << 31)` is `INT_MIN`, the estimate for the constant kernel 1 is −1 instead of 1.
(n = 2^36 fits `uint64_t`; on the implementation the same state is reached by 36 `copy`+`merge` steps – corpus replay
`w4-estimate-negative-level31.txt`, key `estimate-negative-level31-weight-overflow`.) -/
theorem ds_estimate_nonneg_full_false (c : Cfg) (hc : c.weight64 = false) : ¬ ds_estimate_nonneg_full c := by
  intro h
  have h1 : 0 ≤ estimate c oneK (run c keepHalf (dblHist 36) ()).1 [0] :=
    h Unit keepHalf () (dblHist 36) (dblHist_valid 36) oneK (fun _ _ => by simp [oneK]) [0]
  rw [run_dblHist_fst c 36, dblChain36_est c hc] at h1
  exact absurd h1 (by decide)

/-- PROVED PART, and the full statement after the proposed fix: in EVERY state (any levels, any n – in `Rat` x/0 = 0) the estimate
of a non-negative kernel is non-negative if the weight is computed as `1ULL << height`, or (pinned code) if there are at most
31 levels (all weights `1 << h`, h ≤ 30, are positive ints). -/
theorem ds_estimate_nonneg_partial (c : Cfg) (K : Point Rat → Point Rat → Rat) (hK : ∀ p q, 0 ≤ K p q) (s : Sketch Rat)
    (q : Point Rat) (hL : c.weight64 = true ∨ s.levels.length ≤ 31) : 0 ≤ estimate c K s q :=
  estFrom_nonneg c K hK q s.n 0 _ (le_refl _) s.levels (by rcases hL with h | h; exact Or.inl h; exact Or.inr (by omega))

theorem ds_estimate_nonneg_fixed (c : Cfg) (hc : c.weight64 = true) : ds_estimate_nonneg_full c :=
  fun _ _ _ _ _ K hK q => ds_estimate_nonneg_partial c K hK _ q (Or.inl hc)

theorem ds_estimate_nonneg_current :
    if curCfg.weight64 = true then ds_estimate_nonneg_full curCfg else ¬ ds_estimate_nonneg_full curCfg := by
  by_cases h : curCfg.weight64 = true
  · rw [if_pos h]; exact ds_estimate_nonneg_fixed _ h
  · rw [if_neg h]; exact ds_estimate_nonneg_full_false _ (by simpa using h)

example : (dblChain {} 30).levels.length = 26 ∧ (dblChain {} 30).numRetained = 32 ∧ 0 ≤ estimate {} oneK (dblChain {} 30) [0] := by
  decide +kernel

/-- whenever a query is allowed (`get_estimate` does not throw) the sketch retains a point and n > 0, so the division in
`get_estimate` is by a positive number. -/
theorem ds_query_n_pos (c : Cfg) (P : Picker ρ α) (minK : Nat) (hm : 1 ≤ minK) (hist : Hist α) (hv : hist.valid minK) (r : ρ)
    (q : Point α) (hq : estimateThrows c (run c P hist r).1 q = false) : 0 < (run c P hist r).1.n := by
  have h := run_rinv c P minK hm hist hv r
  have : (run c P hist r).1.numRetained ≠ 0 := by
    intro h0; simp [estimateThrows, h0] at hq
  have := h.nge
  omega

/-- non-vacuity: the concrete picker (the code's own choice) over `Rat` with the kernel 1/(1+‖p−q‖²), k = 3:
three points are still exact, estimate at 0 is (1 + 1/2 + 1/5)/3. -/
def exRat : Hist Rat := .upd (.upd (.upd (.new 3 1) [0]) [1]) [2]
example : exRat.operandsExact {} (concretePicker cauchyK) {} ∧ (run {} (concretePicker cauchyK) exRat {}).1.levels.length = 1 := by
  decide
example : kernelSum cauchyK [0] exRat.inputs / (exRat.inputs.length : Rat) = 17 / 30 := by
  decide +kernel

end DS.Density

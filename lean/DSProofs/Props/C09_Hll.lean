/-
C09 (HLL group) — serialization round trip of every HLL image kind: list and set mode, HLL_4 / HLL_6 / HLL_8, each
compact and updatable, incl. the HLL_4 aux area.  Model: DSModel/Wire/Hll.lean (`Img`, `encode`, `decode`,
`serializedSize`, `maxSerializedSize`, `project`).  All statements are for every constants record `c` satisfying the
decidable side condition `c.ok` (distinct preamble-int codes, byte-sized ids) — discharged for the constants generated
from the current headers in the examples — every image state, every tail.
Helper lemmas: DSProofs/Lemmas/WireHll*.lean.
-/
import DSProofs.Lemmas.WireHllSize
import DSProofs.Lemmas.WireHllPerm
import DSModel.Wire.HllGen

namespace DS.Wire.Hll
open DS.Wire

/-- Reading what was written gives back the image state and consumes exactly the image (nothing of `tail`). -/
theorem decode_encode (c : Consts) (hc : c.ok = true) (s : Img) (hw : s.WF c) (tail : Bytes) :
    decode c (encode c s ++ tail) = some (s, tail) := by
  have := decodeG_encodeG c hc false s hw tail
  rwa [encodeG_false] at this

/-- Re-serialising whatever the specification reader accepted gives the same bytes (no well-formedness needed: the
image state stores every byte of the image). The C++ re-serialisation is byte-identical except in the unordered
tables named by `permRange` (checked on the implementation by the harness). -/
theorem encode_decode (c : Consts) (b : Bytes) (s : Img) (r : Bytes) (hd : decode c b = some (s, r)) :
    encode c s ++ r = b :=
  (decode_inv c b s r hd).symm

/-- The image has exactly the advertised size (`get_compact_serialization_bytes` / `get_updatable_serialization_bytes`). -/
theorem size_eq (c : Consts) (s : Img) (hw : s.WF c) : (encode c s).length = serializedSize c s :=
  size_eq_of_WF c s hw

/-- The published bound `get_max_updatable_serialization_bytes(lg_k, tgt_type)` — full statement. -/
def size_le_max_full (c : Consts) : Prop :=
  ∀ s : Img, s.WF c → s.hdr.compact c = false → serializedSize c s ≤ maxSerializedSize c s.hdr.lgK s.hdr.tgt

/-- … holds for every updatable image whose HLL_4 aux table still has its initial size.  What is missing from
`size_le_max_full`: HLL_4 images whose exception table has grown (hll.hpp documents exactly this exception: "for the
HLL_4 sketch type, this value can be exceeded in extremely rare cases"). -/
theorem size_le_max_partial (c : Consts) (hL : c.lgInitListSize ≤ 3) (s : Img) (hw : s.WF c)
    (hu : s.hdr.compact c = false) (hg : auxNotGrown c s) :
    serializedSize c s ≤ maxSerializedSize c s.hdr.lgK s.hdr.tgt :=
  size_le_max_of_WF c hL s hw hu hg

/-- The documented table-order freedom, set mode: two set images that differ only in the ORDER of the stored coupon
slots (what deserialize + re-serialize of a compact set image may change, `permRange`) report the same API content. -/
theorem project_set_perm (c : Consts) (s : SetImg) (slots' : List Nat) (hp : slots'.Perm s.slots) :
    project c (.set { s with slots := slots' }) = project c (.set s) := by
  simp only [project, SetImg.nonzero]
  rw [couponsStr_perm (hp.filter _)]

/-- … and HLL_4: permuting the aux table (compact: the pairs; updatable: the slots of the open-addressing table) does
not change the reported registers, provided no register slot has two entries (which `AuxHashMap::mustAdd` enforces). -/
theorem project_hll_aux_perm (c : Consts) (s : HllImg) (aux' : List Nat) (hp : aux'.Perm s.aux)
    (hu : ∀ i, ∀ a ∈ s.aux, ∀ b ∈ s.aux,
      (a != 0 && (a % 2 ^ c.keyBits) % 2 ^ s.h.lgK == i) = true → (b != 0 && (b % 2 ^ c.keyBits) % 2 ^ s.h.lgK == i) = true → a = b) :
    project c (.hll { s with aux := aux' }) = project c (.hll s) := by
  have hf : ∀ i, auxFind c.keyBits s.h.lgK aux' i = auxFind c.keyBits s.h.lgK s.aux i := by
    intro i
    unfold auxFind
    rw [find?_perm_of_unique _ hp.symm (hu i)]
  have hr : ∀ i, regAt c { s with aux := aux' } i = regAt c s i := by
    intro i
    simp only [regAt, reg4, reg6, reg8, hf]
  have hm : (List.range (2 ^ s.h.lgK)).map (regAt c { s with aux := aux' }) = (List.range (2 ^ s.h.lgK)).map (regAt c s) :=
    List.map_congr_left (fun i _ => hr i)
  simp only [project, regsStr]
  rw [hm]

/-! ### non-vacuity: concrete well-formed images of every kind (constants of the current headers) -/

/-- compact list image, 3 coupons, lg_k 10, HLL_6 -/
def exList : Img := .list {
  h := { lgK := 10, lgArr := 3, flags := 8, b6 := 3, mode := 4 },
  coupons := [0x04000123, 0x08000456, 0x1c03ffff] }
/-- empty updatable list image (8 zero slots, empty flag) -/
def exListEmptyUpd : Img := .list {
  h := { lgK := 12, lgArr := 3, flags := 4, b6 := 0, mode := 8 },
  coupons := List.replicate 8 0 }
/-- updatable set image: raw 32-slot table with 4 coupons, lg_k 8, HLL_4 -/
def exSet : Img := .set {
  h := { lgK := 8, lgArr := 5, flags := 0, b6 := 0, mode := 1 }, count := 4,
  slots := [0, 0x04000021, 0, 0, 0x08000004, 0, 0, 0, 0, 0x0c000109, 0, 0, 0, 0, 0, 0,
            0, 0, 0, 0, 0, 0, 0, 0, 0, 0, 0, 0, 0, 0, 0x040000fe, 0] }
/-- compact HLL_4 image, lg_k 4, cur_min 1, two exceptions (slots 3 and 12), out-of-order -/
def exHll4 : Img := .hll {
  h := { lgK := 4, lgArr := 2, flags := 24, b6 := 1, mode := 2 },
  hip := 0x4041800000000000, kxq0 := 0x4010000000000000, kxq1 := 0x3df0000000000000, numAtCurMin := 2, auxCount := 2,
  regs := [0x10, 0xf2, 0x33, 0x01, 0x45, 0x22, 0x1f, 0x21], aux := [0x44000003, 0x5000000c] }
/-- updatable HLL_4 image without exceptions: 16 zero bytes of reserved aux area -/
def exHll4Upd : Img := .hll {
  h := { lgK := 4, lgArr := 0, flags := 0, b6 := 0, mode := 2 },
  hip := 0x4008000000000000, kxq0 := 0x402b000000000000, kxq1 := 0, numAtCurMin := 13, auxCount := 0,
  regs := [0x10, 0x02, 0x00, 0x00, 0x05, 0x00, 0x00, 0x00], aux := List.replicate 4 0 }
/-- updatable HLL_4 image whose aux table has grown to 8 slots (4 exceptions): larger than the published maximum -/
def exHll4Grown : Img := .hll {
  h := { lgK := 4, lgArr := 3, flags := 0, b6 := 0, mode := 2 },
  hip := 0x4010000000000000, kxq0 := 0x4028000000000000, kxq1 := 0, numAtCurMin := 12, auxCount := 4,
  regs := [0x0f, 0xf0, 0x00, 0x00, 0x0f, 0x00, 0xf0, 0x00],
  aux := [0x40000000, 0, 0, 0x44000003, 0x4c000008, 0x4800000d, 0, 0] }
/-- updatable HLL_6 image, lg_k 4 (13 register bytes), start_full_size flag -/
def exHll6 : Img := .hll {
  h := { lgK := 4, lgArr := 0, flags := 32, b6 := 0, mode := 6 },
  hip := 0x3ff0000000000000, kxq0 := 0x402f000000000000, kxq1 := 0, numAtCurMin := 15, auxCount := 0,
  regs := [0x01, 0, 0, 0, 0, 0, 0, 0, 0, 0, 0, 0, 0], aux := [] }
/-- compact HLL_8 image, lg_k 5 -/
def exHll8 : Img := .hll {
  h := { lgK := 5, lgArr := 0, flags := 8, b6 := 0, mode := 10 },
  hip := 0x4000000000000000, kxq0 := 0x403e800000000000, kxq1 := 0, numAtCurMin := 30, auxCount := 0,
  regs := [1, 0, 0, 0, 0, 0, 0, 0, 0, 0, 0, 0, 0, 0, 0, 0, 0, 0, 0, 0, 0, 0, 0, 0, 0, 0, 0, 0, 0, 0, 0, 2], aux := [] }

example : genConsts.ok = true := by decide
example : exList.WF genConsts ∧ exListEmptyUpd.WF genConsts ∧ exSet.WF genConsts ∧ exHll4.WF genConsts ∧
    exHll4Upd.WF genConsts ∧ exHll4Grown.WF genConsts ∧ exHll6.WF genConsts ∧ exHll8.WF genConsts := by decide
example : decode genConsts (encode genConsts exHll4 ++ [0xAA]) = some (exHll4, [0xAA]) :=
  decode_encode genConsts (by decide) exHll4 (by decide) _
example : (encode genConsts exSet).length = 140 ∧ (encode genConsts exHll4Upd).length = 64 := by
  rw [size_eq _ _ (by decide), size_eq _ _ (by decide)]; decide
example : genConsts.lgInitListSize ≤ 3 ∧ exSet.hdr.compact genConsts = false ∧ auxNotGrown genConsts exSet ∧
    exHll4Upd.hdr.compact genConsts = false ∧ auxNotGrown genConsts exHll4Upd := by decide

/-- the set image of `exSet` with its table reversed: same API content -/
def exSetImg : SetImg := { h := { lgK := 8, lgArr := 5, flags := 8, b6 := 0, mode := 1 }, count := 3,
                           slots := [0x04000021, 0x08000004, 0x0c000109] }
example : project genConsts (.set { exSetImg with slots := exSetImg.slots.reverse }) = project genConsts (.set exSetImg) :=
  project_set_perm genConsts exSetImg _ (List.reverse_perm _)

/-- The full bound is false for the current layout: an updatable HLL_4 image (lg_k 4) with 4 exceptions has 80 bytes,
the published maximum is 64 (documented exception; the harness replays such a state on the real sketch). -/
theorem size_le_max_full_false : ¬ size_le_max_full genConsts := by
  intro h
  have := h exHll4Grown (by decide) (by decide)
  revert this
  decide

end DS.Wire.Hll

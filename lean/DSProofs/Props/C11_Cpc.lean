/-
C11 (CPC part) — truncated images are rejected; no count field can make the specification reader allocate beyond
the input length.

ONLY property theorems + non-vacuity examples.  Model: DSModel/Wire/Cpc.lean.  `decode` is built only from the bounded
combinators, which cannot read out of bounds by construction; `decode_PS` (one line per combinator) gives prefix safety,
and with C09's round trip every strict prefix of every valid image is rejected (CPC images have no information-free
padding, so there is no `isPadding` disjunct).  The real readers are held to this verdict by the exhaustive-prefix runs
of `./check c11_cpc`.
-/
import DSProofs.Props.C09_Cpc
namespace DS.Wire.Cpc
open DS.Wire

theorem decHip_PS (p : Bool) : PS (decHip p) := by
  unfold decHip; split
  · exact PS_bind _ _ (PS_leNat 8) (fun _ => PS_bind _ _ (PS_leNat 8) (fun _ => PS_pure _))
  · exact PS_pure _

theorem decOpt32_PS (p : Bool) : PS (decOpt32 p) := by
  unfold decOpt32; split
  · exact PS_leNat 4
  · exact PS_pure _

theorem decBody_PS (h t w : Bool) : PS (decBody h t w) := by
  unfold decBody; split
  · exact PS_bind _ _ (PS_leNat 4) (fun _ => PS_bind _ _ (decOpt32_PS _) (fun _ => PS_bind _ _ (decHip_PS _) (fun _ =>
      PS_bind _ _ (decOpt32_PS _) (fun _ => PS_bind _ _ (decOpt32_PS _) (fun _ => PS_bind _ _ (decHip_PS _) (fun _ =>
      PS_bind _ _ (PS_repeatN _ (PS_leNat 4) _) (fun _ => PS_bind _ _ (PS_repeatN _ (PS_leNat 4) _) (fun _ => PS_pure _))))))))
  · exact PS_pure _

/-- the documented reader is prefix-safe (for every constant set) -/
theorem decode_PS (c : Consts) : PS (decode c) :=
  PS_bind _ _ (PS_leNat 1) (fun _ =>
  PS_bind _ _ (PS_leNat 1) (fun _ => PS_bind _ _ (PS_guard _) (fun _ =>
  PS_bind _ _ (PS_leNat 1) (fun _ => PS_bind _ _ (PS_guard _) (fun _ =>
  PS_bind _ _ (PS_leNat 1) (fun _ =>
  PS_bind _ _ (PS_leNat 1) (fun _ =>
  PS_bind _ _ (PS_leNat 1) (fun _ =>
  PS_bind _ _ (PS_guard _) (fun _ =>
  PS_bind _ _ (PS_leNat 2) (fun _ =>
  PS_bind _ _ (decBody_PS _ _ _) (fun _ =>
  PS_bind _ _ (PS_guard _) (fun _ => PS_pure _))))))))))))

/-- **every strict prefix of every valid image is rejected** -/
theorem prefix_rejected (c : Consts) (hc : c.ok) (s : Image) (hs : WF s) (n : Nat) (hn : n < (encode c s).length) :
    decode c ((encode c s).take n) = none := by
  have h := decode_encode c hc s hs []
  rw [List.append_nil] at h
  exact DS.Wire.prefix_rejected (decode c) (decode_PS c) (encode c s) s h n hn

/-- **bounded**: whatever bytes are accepted, the image state holds at most `|b| / 4` words: neither word count read
from the image can make the specification reader materialise more than it was given -/
theorem decode_bounded (c : Consts) (b r : Bytes) (s : Image) (h : decode c b = some (s, r)) :
    4 * count s ≤ b.length := by
  simp only [decode] at h
  obtain ⟨pre, r1, h1, h⟩ := bind_some h
  obtain ⟨sv, r2, h2, h⟩ := bind_some h
  obtain ⟨_, r3, g1, h⟩ := bind_some h
  obtain ⟨fam, r4, h4, h⟩ := bind_some h
  obtain ⟨_, r5, g2, h⟩ := bind_some h
  obtain ⟨lgK, r6, h6, h⟩ := bind_some h
  obtain ⟨fic, r7, h7, h⟩ := bind_some h
  obtain ⟨flags, r8, h8, h⟩ := bind_some h
  obtain ⟨_, r9, g3, h⟩ := bind_some h
  obtain ⟨sh, r10, h10, h⟩ := bind_some h
  obtain ⟨body, r11, hbody, h⟩ := bind_some h
  obtain ⟨_, r12, g4, h⟩ := bind_some h
  obtain ⟨hs, _⟩ := pure_some h
  have l1 := PS.rem_le (PS_leNat 1) h1
  have l2 := PS.rem_le (PS_leNat 1) h2
  have l3 : r3 = r2 := (guard_some g1).2
  have l4 := PS.rem_le (PS_leNat 1) h4
  have l5 : r5 = r4 := (guard_some g2).2
  have l6 := PS.rem_le (PS_leNat 1) h6
  have l7 := PS.rem_le (PS_leNat 1) h7
  have l8 := PS.rem_le (PS_leNat 1) h8
  have l9 : r9 = r8 := (guard_some g3).2
  have l10 := PS.rem_le (PS_leNat 2) h10
  subst l3 l5 l9
  have hle : r10.length ≤ b.length := by omega
  subst hs
  simp only [count]
  unfold decBody at hbody
  split at hbody
  · obtain ⟨cp, q1, e1, hbody⟩ := bind_some hbody
    obtain ⟨ne, q2, e2, hbody⟩ := bind_some hbody
    obtain ⟨kh1, q3, e3, hbody⟩ := bind_some hbody
    obtain ⟨tw, q4, e4, hbody⟩ := bind_some hbody
    obtain ⟨ww, q5, e5, hbody⟩ := bind_some hbody
    obtain ⟨kh2, q6, e6, hbody⟩ := bind_some hbody
    obtain ⟨wwords, q7, e7, hbody⟩ := bind_some hbody
    obtain ⟨twords, q8, e8, hbody⟩ := bind_some hbody
    obtain ⟨hb, _⟩ := pure_some hbody
    have m1 := PS.rem_le (PS_leNat 4) e1
    have m2 := PS.rem_le (decOpt32_PS _) e2
    have m3 := PS.rem_le (decHip_PS _) e3
    have m4 := PS.rem_le (decOpt32_PS _) e4
    have m5 := PS.rem_le (decOpt32_PS _) e5
    have m6 := PS.rem_le (decHip_PS _) e6
    have n7 := repeatN_u32_len _ _ _ _ e7
    have n8 := repeatN_u32_len _ _ _ _ e8
    subst hb
    simp only
    omega
  · obtain ⟨hb, _⟩ := pure_some hbody
    subst hb; simp

/-- non-vacuity: the 60-byte example image of C09; its 59-byte prefix and its 8-byte header alone are rejected by the
executable reader, and an image that announces 2^32-1 window words in 16 bytes is rejected, not allocated -/
example : decode generated ((encode generated exImage).take 59) = none ∧ decode generated ((encode generated exImage).take 8) = none := by
  decide
example : decode generated [4, 1, 16, 10, 0, 0x12, 0xcc, 0x93, 5, 0, 0, 0, 0xff, 0xff, 0xff, 0xff] = none := by decide

end DS.Wire.Cpc

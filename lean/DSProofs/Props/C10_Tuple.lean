/-
C10 (compact tuple sketch images) — documented layout; legacy images (serial version 1 / sketch type 5).
ONLY property theorems and their non-vacuity examples.
-/
import DSProofs.Lemmas.WireTuple
import DSModel.Wire.GenConsts
namespace DS.Wire.Tuple
open DS.Wire

variable {σ : Type}

/-- every wire constant of the compact tuple sketch in the current headers has its documented value: serial version 3
(legacy 1), family 9, sketch type 1 (legacy 5), flag bits as theta, preamble-longs literals of both writers. -/
theorem wire_consts_documented :
    genTupleConsts = documented ∧ DSGen.wtu_flag_IS_BIG_ENDIAN = 0 ∧
    DSGen.wtu_pre_stream = [3, 1, 2] ∧ DSGen.wtu_pre_bytes = [3, 1, 2] := by decide

theorem documented_ok : documented.ok = true := by decide

/-- legacy images: same layout with serial version 1 and sketch type 5; the reader accepts them (and the two mixed
combinations) and returns the same image. -/
theorem legacy_decode_encode (c : Consts) (hc : c.ok = true) (cd : Codec σ) (hl : Laws cd) (s : Image σ) (hwf : WF cd s) (exp : Nat)
    (hseed : s.isEmpty = true ∨ s.seedHash = exp) (tail : Bytes) :
    decode c cd exp (encodeLegacy c cd s ++ tail) = some (s, tail) :=
  decode_encodeWith (COk.of_ok hc) cd hl _ _ (Or.inr rfl) (Or.inr rfl) s hwf exp hseed tail

example : (encodeLegacy documented u64Codec ⟨false, true, 37836, maxTheta, [(7, 1)]⟩).take 4 = [1, 1, 9, 5] := by decide

end DS.Wire.Tuple

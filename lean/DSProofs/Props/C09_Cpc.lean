/-
C09 (CPC part) — the CPC image round-trips.

ONLY property theorems + non-vacuity examples (helpers: Lemmas/WireCpc.lean).  Model: DSModel/Wire/Cpc.lean
(`Image` = exactly what the image stores: raw fields and the two compressed word arrays).  What the words mean is
the compression model of C05; `image_restores_sketch` joins the two: for every valid sketch state, the image
state built from `compress`, written by `encode`, read by the documented reader `decode` and expanded by
`uncompress` gives back the sketch (table, window, and through the stored fields lg_k, C, fic, merged, HIP).
The API publishes no guaranteed size bound for CPC (`get_max_serialized_size_bytes` is an empirical 99.9 % figure),
so there is no `≤ max` theorem; the harness reports exceedances as statistics.
-/
import DSProofs.Lemmas.WireCpc
import DSProofs.Lemmas.CpcImage
import DSModel.Wire.CpcGen
import DSModel.Wire.CpcContent
namespace DS.Wire.Cpc
open DS.Wire

/-- **round trip**: the documented reader recovers the image state and leaves exactly the tail -/
theorem decode_encode (c : Consts) (hc : c.ok) (s : Image) (hs : WF s) (tail : Bytes) :
    decode c (encode c s ++ tail) = some (s, tail) := by
  obtain ⟨hf, fH, fT, fW⟩ := flags_rt c hc s.hasHip s.hasTable s.hasWindow
  have hpre := preInts_lt c hc s.coupons s.hasHip s.hasTable s.hasWindow
  have hbody := decBody_encBody s hs tail
  obtain ⟨hlg, hfic, hsh, _⟩ := hs
  unfold decode encode
  simp only [List.append_assoc, Reader.bind, u8_w8 _ hpre, u8_w8 _ (show c.serVer < 2 ^ 8 from hc.2.1),
    u8_w8 _ (show c.familyId < 2 ^ 8 from hc.1), u8_w8 _ hlg, u8_w8 _ hfic, u8_w8 _ hf, u16_w16 _ hsh,
    beq_self_eq_true, guard_true, fH, fT, fW, hbody, Reader.pure]

/-- **size**: the image has `4 · (preamble ints + table words + window words)` bytes, as `serialize` allocates -/
theorem size_eq (c : Consts) (hz : c.sizeOk) (s : Image) (hs : WF s) : (encode c s).length = serializedSize c s := by
  obtain ⟨a1, a2, a3, a4, a5, a6, a7, a8, a9, a10, a11, ht0, hw0, a12, hc0, hc1, a13⟩ := hs
  clear a1 a2 a3 a4 a5 a6 a7 a8 a9 a10 a11 a12 a13
  obtain ⟨z1, z2, z3, z4, z5, z6⟩ := hz
  have L8 : ∀ x, (w8 x).length = 1 := fun x => length_wLe 1 x
  have L16 : ∀ x, (w16 x).length = 2 := fun x => length_wLe 2 x
  have L32 : ∀ x, (w32 x).length = 4 := fun x => length_wLe 4 x
  have L64 : ∀ x, (w64 x).length = 8 := fun x => length_wLe 8 x
  unfold encode encBody serializedSize preInts encHip
  rw [z1, z2, z3, z4, z5, z6]
  cases hH : s.hasHip <;> cases hT : s.hasTable <;> cases hW : s.hasWindow <;>
    simp only [hT, hW, Bool.or_false, Bool.or_true, Bool.or_self, Bool.and_false, Bool.and_true, Bool.and_self,
      Bool.not_false, Bool.not_true, Bool.false_eq_true, if_true, if_false, forall_const,
      List.length_append, List.length_nil, L8, L16, L32, L64, length_encWords] at ht0 hw0 hc0 hc1 ⊢
  all_goals (split <;> rename_i hcz)
  all_goals (first | (simp +arith only [ht0, hw0, List.length_nil]; done) | (simp +arith only [hw0, List.length_nil]; done) | (simp +arith only [ht0, List.length_nil]; done) | (simp +arith only; done) | exact absurd hcz hc1)

/-! ### from the sketch to the image and back -/

open DS.Cpc in
/-- **the image restores the sketch**: for every valid sketch state `s` (C05's invariant; every state reachable by
updates, unions or deserialization) whose sizes fit the 32/64-bit fields, the image state `imageOf s` is well formed,
and reading its bytes back with the documented reader and expanding the words gives a sketch with the same lg_k, C,
surprising-value table, window, offset, first interesting column and merged flag, and — if the sketch is not merged —
the same two HIP registers (for an EMPTY sketch: the registers of a new sketch, in the repaired shape of `deserialize`). -/
theorem image_restores_sketch (c : Consts) (hc : c.ok) (C : CompTables) (hC : TablesOK C) (sh : Nat) (s : Sketch)
    (xs : List Nat) (hb : HipBits) (ofBits : Nat → Float) (tail : Bytes)
    (hsh : sh < 2 ^ 16) (h : Inv s xs) (hv : ∀ x ∈ xs, x < 64 * 2 ^ s.lgK)
    (hoff : s.offset = determineCorrectOffset s.lgK s.numCoupons)
    (hlg : s.lgK < 2 ^ 8) (hcn : s.numCoupons < 2 ^ 32) (hk : hb.kxp < 2 ^ 64) (hh : hb.hip < 2 ^ 64)
    (htl : s.table.length < 2 ^ 32)
    (hwl : (compress C s).tableWords.length < 2 ^ 32) (hwl' : (compress C s).windowWords.length < 2 ^ 32)
    (hregs : s.numCoupons = 0 → hb = ⟨pow2Bits s.lgK, 0⟩) :
    WF (imageOf C sh s hb) ∧
    ∃ s' hb', (decode c (encode c (imageOf C sh s hb) ++ tail)).map (fun p => (expand C true p.1 ofBits, p.2)) = some ((s', hb'), tail) ∧
      sameContent s' s ∧ (s.merged = false → hb' = hb) := by
  have hfic : s.fic < 2 ^ 8 := by have := h.ficLe; have := h.rep.offLe; omega
  by_cases hc0 : s.numCoupons = 0
  · -- empty sketch
    obtain ⟨ht, hw⟩ := table_nil_of_empty s xs h hv hc0
    have hz := compress_empty C s hc0
    have himg : imageOf C sh s hb =
        { lgK := s.lgK, fic := s.fic, seedHash := sh, hasHip := !s.merged, hasTable := false,
          hasWindow := false, coupons := 0, numEntries := 0, kxp := 0, hip := 0, windowWords := [], tableWords := [] } := by
      unfold imageOf; simp [hz]
    have hwf : WF (imageOf C sh s hb) := by
      rw [himg]; unfold WF; simp; exact ⟨hlg, hfic, hsh⟩
    refine ⟨hwf, ?_⟩
    rw [decode_encode c hc _ hwf tail, himg]
    have hunc : uncompress C { tableWords := [], tableNumEntries := 0, windowWords := [] } s.lgK 0 = ([], []) := by
      unfold uncompress; simp only [(flavor_empty_iff s.lgK 0).2 rfl]
    refine ⟨_, _, rfl, ⟨rfl, ?_, ?_, ?_, ?_, rfl, ?_⟩, ?_⟩
    · simp [expand, hc0]
    · simp [expand, hunc, ht]
    · simp [expand, hunc, hw]
    · simp [expand, hoff, hc0]
    · simp [expand]
    · intro _; simp [expand, hregs hc0, pow2Bits]
  · -- non-empty sketch
    obtain ⟨hor, hnw, hnt, hnl, htw, hww⟩ := compress_shape C s xs h hv hc0
    have hless := compress_lossless C hC s xs h hv hoff
    generalize hz : compress C s = z at *
    have hany : (!z.tableWords.isEmpty || !z.windowWords.isEmpty) = true := by
      rcases hor with h1 | h1
      · cases hq : z.tableWords <;> simp_all
      · cases hq : z.windowWords <;> simp_all
    have hne : z.tableNumEntries < 2 ^ 32 := by
      rcases hnl with h1 | h1
      · omega
      · rw [hnw h1]; exact hcn
    have himg : imageOf C sh s hb =
        { lgK := s.lgK, fic := s.fic, seedHash := sh, hasHip := !s.merged,
          hasTable := !z.tableWords.isEmpty, hasWindow := !z.windowWords.isEmpty, coupons := s.numCoupons,
          numEntries := if (!z.tableWords.isEmpty && !z.windowWords.isEmpty) = true then z.tableNumEntries else 0,
          kxp := if (!s.merged) = true then hb.kxp else 0, hip := if (!s.merged) = true then hb.hip else 0,
          windowWords := z.windowWords, tableWords := z.tableWords } := by
      unfold imageOf; simp only [hz, hany, if_true, Bool.and_true]
    have hwf : WF (imageOf C sh s hb) := by
      rw [himg]; unfold WF
      refine ⟨hlg, hfic, hsh, hcn, by simp only; split <;> omega, by simp only; split <;> omega, by simp only; split <;> omega,
        hwl', hwl, hww, htw, ?_, ?_, ?_, ?_, ?_, ?_⟩
      · intro e; cases hq : z.tableWords <;> simp_all
      · intro e; cases hq : z.windowWords <;> simp_all
      · intro e; simp only [e]; simp
      · intro e; simp only at e; rw [hany] at e; exact absurd e (by simp)
      · intro _; exact hc0
      · intro e; simp only at e; rw [hany, Bool.and_true] at e; simp [e]
    refine ⟨hwf, ?_⟩
    rw [decode_encode c hc _ hwf tail, himg]
    have hzz : Compressed.mk z.tableWords (if (!z.windowWords.isEmpty) = true then
            (if (!z.tableWords.isEmpty && !z.windowWords.isEmpty) = true then z.tableNumEntries else 0) else s.numCoupons)
          z.windowWords = z := by
      have : (if (!z.windowWords.isEmpty) = true then
            (if (!z.tableWords.isEmpty && !z.windowWords.isEmpty) = true then z.tableNumEntries else 0) else s.numCoupons) = z.tableNumEntries := by
        cases hqw : z.windowWords with
        | nil => simp; exact (hnw hqw).symm
        | cons a t =>
          cases hqt : z.tableWords with
          | nil => simp; exact (hnt hqt).symm
          | cons b u => simp
      rw [this]
    refine ⟨_, _, rfl, ⟨rfl, rfl, ?_, ?_, ?_, rfl, ?_⟩, ?_⟩
    · simp only [expand, hzz, hless]
    · simp only [expand, hzz, hless]
    · simp only [expand]; exact hoff.symm
    · simp [expand]
    · intro hm; simp [expand, hc0, hm]

/-! Non-vacuity: the constants generated from the current headers satisfy the side conditions; a well-formed image with
a table, a window and HIP registers (the layout with every optional field) round-trips through the executable functions. -/
example : generated.ok ∧ generated.sizeOk := by decide
def exImage : Image :=
  { lgK := 5, fic := 0, seedHash := 37836, hasHip := true, hasTable := true, hasWindow := true, coupons := 40, numEntries := 3,
    kxp := 0x4030000000000000, hip := 0x4044000000000000, windowWords := [1, 2, 0xffffffff], tableWords := [7, 9] }
example : WF exImage := by decide
example : (encode generated exImage).length = 60 ∧ serializedSize generated exImage = 60 ∧
    decode generated (encode generated exImage ++ [1, 2, 3]) = some (exImage, [1, 2, 3]) := by decide

end DS.Wire.Cpc

/-
C09 (count-min part) — the serialized image round-trips.

ONLY property theorems + non-vacuity examples (helper lemmas: Lemmas/WireCount.lean).
Model: DSModel/Wire/CountMin.lean (`Image` = exactly what the image stores; `encode` = the documented writer,
`decode` = the reader written from the documentation, built only from the bounded combinators).  Statements are for
EVERY constant set `c` satisfying the decidable side condition `c.ok` (the constants of the current headers satisfy it:
`generated_ok`), every well-formed image state `s` (any number of hashes/buckets, any cell values) and every `tail`.
The tie to count_min_impl.hpp is the two-phase check `./check c09_count` (the model decodes what the code wrote).
-/
import DSProofs.Lemmas.WireCount
import DSModel.Wire.CountMinGen
namespace DS.Wire.CountMin
open DS.Wire

/-- the constants extracted from the current headers satisfy the side conditions of the theorems below -/
theorem generated_ok : generated.ok := by decide

/-- the flag byte written for `empty` is read back as `empty` -/
theorem flags_roundtrip (c : CmConsts) (hc : c.ok) (e : Bool) :
    flagsOf c e < 256 ∧ isEmptyFlags c (flagsOf c e) = e := by
  obtain ⟨_, _, _, hb⟩ := hc
  have h8 : c.emptyBit = 0 ∨ c.emptyBit = 1 ∨ c.emptyBit = 2 ∨ c.emptyBit = 3 ∨ c.emptyBit = 4 ∨ c.emptyBit = 5 ∨
      c.emptyBit = 6 ∨ c.emptyBit = 7 := by omega
  cases e <;> rcases h8 with h | h | h | h | h | h | h | h <;> simp [flagsOf, isEmptyFlags, h]

/-- **round trip**: the documented reader recovers exactly the image state and consumes exactly the image -/
theorem decode_encode (c : CmConsts) (hc : c.ok) (s : Image) (hs : WF c s) (tail : Bytes) :
    decode c (encode c s ++ tail) = some (s, tail) := by
  obtain ⟨hnb, hnh, hsh, hmin, hmax, hbody⟩ := hs
  have hfl := flags_roundtrip c hc s.body.isNone
  obtain ⟨hf, hv, hp, _⟩ := hc
  simp only [decode, encode, List.append_assoc]
  rw [bind_u8 _ hp, bind_guard _ (by simp), bind_u8 _ hv, bind_guard _ (by simp), bind_u8 _ hf, bind_guard _ (by simp),
    bind_u8 _ hfl.1, bind_skip, bind_u32 _ hnb, bind_u8 _ hnh, bind_u16 _ hsh, bind_skip,
    bind_guard _ (by simp [hmin, hmax]), hfl.2]
  cases hb : s.body with
  | none =>
    cases s; simp_all [decodeBody, encodeBody, Reader.bind, Reader.pure]
  | some p =>
    obtain ⟨w, cells⟩ := p
    rw [hb] at hbody
    obtain ⟨hw, hlen, hcells⟩ := hbody
    simp only [decodeBody, encodeBody, Option.isNone_some, Bool.false_eq_true, if_false, List.append_assoc]
    rw [bind_assoc, bind_u64 _ hw, bind_assoc, bind_decU64s cells _ hlen.symm hcells]
    cases s; simp_all [Reader.bind, Reader.pure]

/-- the image has exactly the advertised size (`get_serialized_size_bytes`) -/
theorem size_eq (c : CmConsts) (h2 : c.preLongs = 2) (s : Image) (hs : WF c s) :
    (encode c s).length = serializedSize c s := by
  obtain ⟨_, _, _, _, _, hbody⟩ := hs
  simp only [encode, serializedSize, List.length_append, length_w8, length_w16, length_w32, length_wZeros, h2]
  cases hb : s.body with
  | none => simp [encodeBody]
  | some p =>
    obtain ⟨w, cells⟩ := p
    rw [hb] at hbody
    simp only [encodeBody, List.length_append, length_w64, length_encU64s, hbody.2.1]
    omega

/-- non-vacuity: a non-empty 2×3 sketch image and an empty one are well formed under the current constants -/
example : WF generated { numBuckets := 3, numHashes := 2, seedHash := 37836, body := some (5, [1, 0, 4, 0, 5, 0]) } := by decide
example : WF generated { numBuckets := 1000, numHashes := 7, seedHash := 0, body := none } := by decide
example : generated.preLongs = 2 := by decide

end DS.Wire.CountMin

/-
C12 (repaired source shape) — with `is_empty() = (total_weight == 0)`, which /repo carries since the commit
"fix: frequent_items_sketch treated a fully purged sketch as empty …" and which the translator reads from the
header on every run (`DSGen.fi_EMPTY_BY_TOTAL`), the bracketing and exact-total statements hold for EVERY history —
the exclusion `strict` of Props/C12.lean (merging / round-tripping a fully purged sketch) is no longer needed.
`ReachF T s f N` ranges over all constructor arguments, weighted streams (zero weights included), merge trees with any
replay order, round trips and every purge amount; `f` is the true per-item weight, `N` the true total.
-/
import DSProofs.Lemmas.FiRepaired
import DSGen.Fi
namespace DS.Fi
set_option linter.unusedSectionVars false

variable {ι : Type} [DecidableEq ι]

/-- every item (tracked or not): lb ≤ true weight ≤ ub, lb ≤ estimate ≤ ub, ub − lb = maximum error; total exact -/
theorem fi_bracket_all_histories (T : Tun) (hT : T.emptyByTotal = true) {s : St ι} {f : ι → Nat} {N : Nat}
    (h : ReachF T s f N) (x : ι) :
    lowerBound s x ≤ f x ∧ f x ≤ upperBound s x ∧
    lowerBound s x ≤ estimate s x + (if cnt s.map x > 0 then 0 else s.offset) ∧ estimate s x ≤ upperBound s x ∧
    upperBound s x - lowerBound s x = s.offset ∧ s.total = N := by
  obtain ⟨hb, ht, _⟩ := reachF_inv T hT h
  have := hb.2 x
  unfold lowerBound upperBound estimate
  refine ⟨this.1, this.2, ?_, ?_, by omega, ht⟩
  · split <;> omega
  · split <;> omega

/-- the source shape in the headers NOW is the repaired one -/
theorem fi_empty_by_total_current : DSGen.fi_EMPTY_BY_TOTAL = true := by decide

/-- non-vacuity: a sketch whose seven unit-weight counters were all purged (lg_max 3: capacity 6, the 7th insert
purges with median 1) merged into another one keeps total weight and offset -/
def tRep : Tun := { emptyByTotal := true }
def purgedB : St Nat := replay tRep (init tRep 3 3) [(1, 1, 1), (2, 1, 1), (3, 1, 1), (4, 1, 1), (5, 1, 1), (6, 1, 1), (7, 1, 1)]
def otherA : St Nat := update tRep (init tRep 3 3) 100 5 0
example : (purgedB.map, purgedB.total, purgedB.offset) = ([], 7, 1) := by decide
example : ((mergeF tRep otherA purgedB []).total, (mergeF tRep otherA purgedB []).offset, upperBound (mergeF tRep otherA purgedB []) 1) = (12, 1, 1) := by decide
example : ((merge tRep otherA purgedB []).total, upperBound (merge tRep otherA purgedB []) 1) = (5, 0) := by decide  -- the pinned early return
example : (roundtripF tRep purgedB).total = 7 ∧ (roundtrip tRep purgedB).total = 0 := by decide

end DS.Fi

/-
C11 (VarOpt sketch and union part) — truncated images are rejected; the counts h, r (and the k they are validated
against) cannot make the specification reader materialise more than the input holds.

ONLY property theorems + non-vacuity examples.  Model: DSModel/Wire/VarOpt.lean; every constant set, every lawful
serde, every well-formed image, EVERY prefix length; no padding disjunct (no information-free tail in these images).
-/
import DSProofs.Props.C09_VarOpt
namespace DS.Wire.VarOpt
open DS.Wire

variable {ι : Type}

theorem decodeBody_PS (c : VoConsts) (sd : Serde ι) (hsd : sd.Lawful) (pre k : Nat) (g : Bool) : PS (decodeBody c sd pre k g) := by
  unfold decodeBody
  refine PS_bind _ _ (PS_leNat 8) (fun n => PS_bind _ _ (PS_leNat 4) (fun h => PS_bind _ _ (PS_leNat 4) (fun r =>
    PS_bind _ _ (PS_guard _) (fun _ => PS_bind _ _ ?_ (fun _ => PS_bind _ _ (PS_decU64s h) (fun _ => PS_bind _ _ (PS_guard _) (fun _ =>
    PS_bind _ _ ?_ (fun _ => PS_bind _ _ (PS_decItems sd hsd h) (fun _ => PS_bind _ _ (PS_decItems sd hsd r) (fun _ => PS_pure _))))))))))
  · split
    · exact PS_bind _ _ (PS_leNat 8) (fun _ => PS_bind _ _ (PS_guard _) (fun _ => PS_pure _))
    · exact PS_pure _
  · split
    · exact PS_marksRd _ _
    · exact PS_pure _

/-- the documented sketch reader is prefix-safe -/
theorem decode_PS (c : VoConsts) (sd : Serde ι) (hsd : sd.Lawful) : PS (decode c sd) := by
  unfold decode
  refine PS_bind _ _ (PS_leNat 1) (fun _ => PS_bind _ _ (PS_leNat 1) (fun _ => PS_bind _ _ (PS_leNat 1) (fun _ =>
    PS_bind _ _ (PS_leNat 1) (fun _ => PS_bind _ _ (PS_leNat 4) (fun _ => PS_bind _ _ (PS_guard _) (fun _ =>
    PS_bind _ _ (PS_guard _) (fun _ => PS_bind _ _ (PS_guard _) (fun _ => PS_bind _ _ ?_ (fun _ => PS_pure _)))))))))
  split
  · exact PS_pure _
  · exact decodeBody_PS c sd hsd _ _ _

theorem uDecodeBody_PS (c : VoConsts) (sd : Serde ι) (hsd : sd.Lawful) (e : Bool) : PS (uDecodeBody c sd e) := by
  unfold uDecodeBody
  split
  · exact PS_pure _
  · exact PS_bind _ _ (PS_leNat 8) (fun _ => PS_bind _ _ (PS_leNat 8) (fun _ => PS_bind _ _ (PS_leNat 8) (fun _ =>
      PS_bind _ _ (decode_PS c sd hsd) (fun _ => PS_pure _))))

/-- the documented union reader is prefix-safe -/
theorem union_decode_PS (cu : VuConsts) (c : VoConsts) (sd : Serde ι) (hsd : sd.Lawful) : PS (uDecode cu c sd) :=
  PS_bind _ _ (PS_leNat 1) (fun _ => PS_bind _ _ (PS_leNat 1) (fun _ => PS_bind _ _ (PS_leNat 1) (fun _ =>
  PS_bind _ _ (PS_leNat 1) (fun _ => PS_bind _ _ (PS_leNat 4) (fun _ => PS_bind _ _ (PS_guard _) (fun _ =>
  PS_bind _ _ (PS_guard _) (fun _ => PS_bind _ _ (PS_guard _) (fun _ => PS_bind _ _ (uDecodeBody_PS c sd hsd _) (fun _ => PS_pure _)))))))))

/-- **every strict prefix of every valid sketch image is rejected** -/
theorem prefix_rejected (c : VoConsts) (hc : c.ok) (sd : Serde ι) (hsd : sd.Lawful) (s : Image ι) (hs : WF c sd s)
    (n : Nat) (hn : n < (encode c sd s).length) : decode c sd ((encode c sd s).take n) = none :=
  prefix_rejected' (decode c sd) (decode_PS c sd hsd) (encode c sd s) s (decode_encode c hc sd hsd s hs) n hn

/-- **every strict prefix of every valid union image is rejected** -/
theorem union_prefix_rejected (cu : VuConsts) (hcu : cu.ok) (c : VoConsts) (hc : c.ok) (sd : Serde ι) (hsd : sd.Lawful)
    (s : UImage ι) (hs : UWF cu c sd s) (n : Nat) (hn : n < (uEncode cu c sd s).length) :
    uDecode cu c sd ((uEncode cu c sd s).take n) = none :=
  prefix_rejected' (uDecode cu c sd) (union_decode_PS cu c sd hsd) (uEncode cu c sd s) s
    (union_decode_encode cu hcu c hc sd hsd s hs) n hn

theorem decodeBody_bounded (c : VoConsts) (sd : Serde ι) (hsd : sd.Lawful) (pre k : Nat) (g : Bool) (b r : Bytes)
    (body : Option (Body ι)) (h : decodeBody c sd pre k g b = some (body, r)) :
    (match body with | none => 0 | some x => x.weights.length + x.hItems.length + x.rItems.length) ≤ b.length := by
  unfold decodeBody at h
  obtain ⟨n, r1, h1, h⟩ := bind_some h
  obtain ⟨hh, r2, h2, h⟩ := bind_some h
  obtain ⟨rr, r3, h3, h⟩ := bind_some h
  obtain ⟨_, r4, g1, h⟩ := bind_some h
  obtain ⟨twr, r5, h5, h⟩ := bind_some h
  obtain ⟨ws, r6, h6, h⟩ := bind_some h
  obtain ⟨_, r7, g2, h⟩ := bind_some h
  obtain ⟨marks, r8, h8, h⟩ := bind_some h
  obtain ⟨hIt, r9, h9, h⟩ := bind_some h
  obtain ⟨rIt, r10, h10, h⟩ := bind_some h
  obtain ⟨hb, _⟩ := pure_some h
  subst hb
  have l1 := (PS_leNat 8).rem_le h1
  have l2 := (PS_leNat 4).rem_le h2
  have l3 := (PS_leNat 4).rem_le h3
  have l4 : r4.length ≤ r3.length := by rw [(guard_some g1).2]; exact Nat.le_refl _
  have l5 : r5.length ≤ r4.length := by
    split at h5
    · exact (PS_bind _ _ (PS_leNat 8) (fun _ => PS_bind _ _ (PS_guard _) (fun _ => PS_pure _))).rem_le h5
    · exact (PS_pure _).rem_le h5
  have l6 := decU64s_count _ _ _ _ h6
  have l7 : r7.length ≤ r6.length := by rw [(guard_some g2).2]; exact Nat.le_refl _
  have l8 : r8.length ≤ r7.length := by
    split at h8
    · exact (PS_marksRd _ _).rem_le h8
    · exact (PS_pure _).rem_le h8
  have l9 := decItems_count sd hsd _ _ _ _ h9
  have l10 := decItems_count sd hsd _ _ _ _ h10
  simp only
  omega

/-- **bounded (sketch)**: the number of weights plus H items plus R items of an accepted image is at most the input length -/
theorem decode_bounded (c : VoConsts) (sd : Serde ι) (hsd : sd.Lawful) (b r : Bytes) (s : Image ι)
    (h : decode c sd b = some (s, r)) : count s ≤ b.length := by
  simp only [decode] at h
  obtain ⟨first, r1, h1, h⟩ := bind_some h
  obtain ⟨sv, r2, h2, h⟩ := bind_some h
  obtain ⟨fam, r3, h3, h⟩ := bind_some h
  obtain ⟨flags, r4, h4, h⟩ := bind_some h
  obtain ⟨k, r5, h5, h⟩ := bind_some h
  obtain ⟨_, r6, g1, h⟩ := bind_some h
  obtain ⟨_, r7, g2, h⟩ := bind_some h
  obtain ⟨_, r8, g3, h⟩ := bind_some h
  obtain ⟨body, r9, hbody, h⟩ := bind_some h
  obtain ⟨hs, _⟩ := pure_some h
  have l1 := (PS_leNat 1).rem_le h1
  have l2 := (PS_leNat 1).rem_le h2
  have l3 := (PS_leNat 1).rem_le h3
  have l4 := (PS_leNat 1).rem_le h4
  have l5 := (PS_leNat 4).rem_le h5
  have l6 : r6.length ≤ r5.length := by rw [(guard_some g1).2]; exact Nat.le_refl _
  have l7 : r7.length ≤ r6.length := by rw [(guard_some g2).2]; exact Nat.le_refl _
  have l8 : r8.length ≤ r7.length := by rw [(guard_some g3).2]; exact Nat.le_refl _
  subst hs
  simp only [count]
  split at hbody
  · obtain ⟨hb, _⟩ := pure_some hbody; subst hb; simp
  · have := decodeBody_bounded c sd hsd _ _ _ _ _ _ hbody
    cases body with
    | none => simp
    | some x => simp only at this ⊢; omega

/-- **bounded (union)** -/
theorem union_decode_bounded (cu : VuConsts) (c : VoConsts) (sd : Serde ι) (hsd : sd.Lawful) (b r : Bytes) (s : UImage ι)
    (h : uDecode cu c sd b = some (s, r)) : uCount s ≤ b.length := by
  simp only [uDecode] at h
  obtain ⟨pre, r1, h1, h⟩ := bind_some h
  obtain ⟨sv, r2, h2, h⟩ := bind_some h
  obtain ⟨fam, r3, h3, h⟩ := bind_some h
  obtain ⟨flags, r4, h4, h⟩ := bind_some h
  obtain ⟨k, r5, h5, h⟩ := bind_some h
  obtain ⟨_, r6, g1, h⟩ := bind_some h
  obtain ⟨_, r7, g2, h⟩ := bind_some h
  obtain ⟨_, r8, g3, h⟩ := bind_some h
  obtain ⟨body, r9, hbody, h⟩ := bind_some h
  obtain ⟨hs, _⟩ := pure_some h
  have l1 := (PS_leNat 1).rem_le h1
  have l2 := (PS_leNat 1).rem_le h2
  have l3 := (PS_leNat 1).rem_le h3
  have l4 := (PS_leNat 1).rem_le h4
  have l5 := (PS_leNat 4).rem_le h5
  have l6 : r6.length ≤ r5.length := by rw [(guard_some g1).2]; exact Nat.le_refl _
  have l7 : r7.length ≤ r6.length := by rw [(guard_some g2).2]; exact Nat.le_refl _
  have l8 : r8.length ≤ r7.length := by rw [(guard_some g3).2]; exact Nat.le_refl _
  subst hs
  simp only [uCount]
  unfold uDecodeBody at hbody
  split at hbody
  · obtain ⟨hb, _⟩ := pure_some hbody; subst hb; simp
  · obtain ⟨n, q1, k1, hbody⟩ := bind_some hbody
    obtain ⟨num, q2, k2, hbody⟩ := bind_some hbody
    obtain ⟨den, q3, k3, hbody⟩ := bind_some hbody
    obtain ⟨g, q4, k4, hbody⟩ := bind_some hbody
    obtain ⟨hb, _⟩ := pure_some hbody
    subst hb
    have m1 := (PS_leNat 8).rem_le k1
    have m2 := (PS_leNat 8).rem_le k2
    have m3 := (PS_leNat 8).rem_le k3
    have m4 := decode_bounded c sd hsd _ _ _ k4
    simp only
    omega

/-- non-vacuity: the executable readers reject the one-byte-short prefixes of the example images of C09 -/
example : (encode generated serdeU64 exGadget).length = 65 := by decide
example : (decode generated serdeU64 ((encode generated serdeU64 exGadget).take 64)).isNone = true := by decide
example : (uDecode generatedU generated serdeU64 ((uEncode generatedU generated serdeU64 exUnion).take 96)).isNone = true := by decide
example : (uDecode generatedU generated serdeU64 (uEncode generatedU generated serdeU64 exUnion)).isSome = true := by decide

end DS.Wire.VarOpt

/-
C11 (REQ) — truncated images are rejected by the specification reader; the per-level item counts cannot make it
read or allocate beyond the input.

ONLY property theorems and their non-vacuity examples.  `./check c11_quant` holds the real `req_sketch::deserialize`
(bytes and stream) to the verdict of `Req.decode` on EVERY strict prefix of every generated image under ASan/UBSan.
-/
import DSProofs.Props.C09_Req
namespace DS.Wire.Req
open Reader

theorem decodeBody_PS (sd : Serde) (hs : sd.Lawful) (c : Cfg) (k : Nat) (hra raw lz : Bool) (nl nr : Nat) :
    PS (decodeBody sd c k hra raw lz nl nr) := by
  unfold decodeBody
  refine PS_bind _ _ (PS_guard _) fun _ => PS_bind _ _ (decEst_PS sd hs nl) fun _ => ?_
  split
  · exact PS_bind _ _ (PS_repeatN _ hs.ps _) fun _ => PS_pure _
  · exact PS_bind _ _ (PS_repeatN _ (decCompactor_PS sd hs) _) fun _ => PS_bind _ _ (PS_guard _) fun _ => PS_pure _

/-- the specification reader is prefix-safe -/
theorem decode_PS (sd : Serde) (hs : sd.Lawful) (c : Cfg) : PS (decode sd c) := by
  unfold decode
  refine PS_bind _ _ PS_u8 fun _ => PS_bind _ _ PS_u8 fun _ => PS_bind _ _ PS_u8 fun _ => PS_bind _ _ PS_u8 fun _ =>
    PS_bind _ _ PS_u16 fun _ => PS_bind _ _ PS_u8 fun _ => PS_bind _ _ PS_u8 fun _ => PS_bind _ _ (PS_guard _) fun _ => ?_
  split
  · exact PS_pure _
  · exact decodeBody_PS sd hs c _ _ _ _ _ _

/-- EVERY strict prefix of a well-formed image is rejected -/
theorem prefix_rejected (sd : Serde) (hs : sd.Lawful) (c : Cfg) (hc : CfgOK c) (s : Image) (hw : WF sd c s = true)
    (n : Nat) (hn : n < (encode sd c s).length) : decode sd c ((encode sd c s).take n) = none := by
  have hd := decode_encode sd hs c hc s [] hw
  rw [List.append_nil] at hd
  exact DS.Wire.prefix_rejected (decode sd c) (decode_PS sd hs c) _ s hd n hn

theorem decodeBody_bounded (sd : Serde) (hs : sd.Lawful) (c : Cfg) (k : Nat) (hra raw lz : Bool) (nl nr : Nat)
    (b r : Bytes) (s : Image) (h : decodeBody sd c k hra raw lz nl nr b = some (s, r)) : s.count ≤ b.length := by
  simp only [decodeBody] at h
  obtain ⟨u1, r1, h1, h⟩ := bind_inv h
  obtain ⟨est, r2, h2, h⟩ := bind_inv h
  have l1 := congrArg List.length (guard_inv h1).2
  have l2 := PS_len (decEst_PS sd hs nl) h2
  split at h
  · obtain ⟨its, r3, h3, h⟩ := bind_inv h
    obtain ⟨hs1, _⟩ := pure_inv h
    subst hs1
    obtain ⟨hl, hb⟩ := repeatN_bound sd.dec hs.progress _ _ _ _ h3
    simp only [Image.count, List.map_nil, List.sum_nil]
    omega
  · obtain ⟨cs, r3, h3, h⟩ := bind_inv h
    obtain ⟨u4, r4, h4, h⟩ := bind_inv h
    obtain ⟨hs1, _⟩ := pure_inv h
    subst hs1
    have hb := repeatN_sum_bound (decCompactor sd) (fun x => x.items.length) (fun b x r hx => decCompactor_bound sd hs b r x hx) _ _ _ _ h3
    simp only [Image.count, List.length_nil]
    omega

/-- a successful decode of `b` yields an image holding at most `|b|` items: neither `num_raw_items` nor any
per-level `num_items` can make the specification reader produce more than the input holds -/
theorem decode_bounded (sd : Serde) (hs : sd.Lawful) (c : Cfg) (b r : Bytes) (s : Image)
    (h : decode sd c b = some (s, r)) : s.count ≤ b.length := by
  simp only [decode] at h
  obtain ⟨pre, r1, h1, h⟩ := bind_inv h
  obtain ⟨ver, r2, h2, h⟩ := bind_inv h
  obtain ⟨fam, r3, h3, h⟩ := bind_inv h
  obtain ⟨fl, r4, h4, h⟩ := bind_inv h
  obtain ⟨k, r5, h5, h⟩ := bind_inv h
  obtain ⟨nl, r6, h6, h⟩ := bind_inv h
  obtain ⟨nr, r7, h7, h⟩ := bind_inv h
  obtain ⟨u8', r8, h8, h⟩ := bind_inv h
  have l1 := PS_len PS_u8 h1
  have l2 := PS_len PS_u8 h2
  have l3 := PS_len PS_u8 h3
  have l4 := PS_len PS_u8 h4
  have l5 := PS_len PS_u16 h5
  have l6 := PS_len PS_u8 h6
  have l7 := PS_len PS_u8 h7
  have l8 := congrArg List.length (guard_inv h8).2
  split at h
  · obtain ⟨hs1, _⟩ := pure_inv h
    subst hs1; simp [Image.count]
  · have := decodeBody_bounded sd hs c _ _ _ _ _ _ _ _ _ h
    omega

/-- non-vacuity: the two-level example image truncated in the middle of the second level header is rejected -/
example : decode (Serde.fixed 8) docCfg ((encode (Serde.fixed 8) docCfg exImage).take 90) = none := by decide

/-- prefix rejection at the constants of the current headers (what `./check c11_quant` compares the real readers with) -/
theorem prefix_rejected_code (sd : Serde) (hs : sd.Lawful) (s : Image) (hw : WF sd codeCfg s = true)
    (n : Nat) (hn : n < (encode sd codeCfg s).length) : decode sd codeCfg ((encode sd codeCfg s).take n) = none :=
  prefix_rejected sd hs codeCfg codeCfg_ok s hw n hn

end DS.Wire.Req

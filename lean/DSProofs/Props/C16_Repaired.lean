/- C16 (repaired source shapes) — /repo carries six `fix:` commits for the defects this check found in
   var_opt_sketch / var_opt_union (dbbe534 deserialize m, cb4d600 marks init, 9b12d7b reset realloc, 74c906d pseudo-exact
   coercer, dc2ac23 coercer tolerance, ff5b1bd valid-mode check slack).  The translator reads the shapes from the
   CURRENT headers on every run (`DSGen.varopt_*` flags, tools/trules/varopt.py); the model takes them as fields of
   `Tunables` and the executed driver follows them.

   Every theorem of Props/C16.lean is stated for an arbitrary `T : Tunables`, so it holds for the repaired variant as
   well (update never throws from a reachable state also with the slack check; weight conservation; heavy items exact;
   union n / weight / size / no marks).  This file adds the two statements that were FALSE on the tree the check was
   first built on (`vo_serde_update_full_false`, `vo_union_wellformed_full_false` in Props/C16.lean, witnesses at the
   all-flags-off tunables `exT`) and are TRUE for the repaired shapes, plus the facts that the generated flags are the
   repaired ones.  Two repaired defects live in floating point only (absolute tolerance, rounded tau) and, as before,
   have no counterpart over `Rat`; the marks-initialisation and reset-reallocation fixes are memory-safety repairs
   below the level of the model (their flags only select what the witnesses of vlib/props/c16.py expect). -/
import DSProofs.Lemmas.VarOptWitness
import DSGen.VarOpt
namespace DS.VarOpt
open DS

/-- **vo_serde_update_current.** With the repaired reader (`deserialize` passes m = 0) the full statement holds: a
    sketch left behind by ANY stream (any mode), sent through serialize → deserialize, keeps accepting every update. -/
theorem vo_serde_update_current (T : Tunables) (hfix : T.deserializeM0 = true)
    (sk : Sk Rat) (items : List (Int × Rat)) (hfs : FromStream sk items) (hk : sk.k ≤ T.maxK) :
    ∃ sk2, serdeRoundTrip T sk = some sk2 ∧
      ∀ (x : Int) (w : Rat) (ds : Draws Rat), 0 < w → (update T sk2 x w false ds).isSome = true := by
  obtain ⟨ins, L, hinv, _, _, hgad⟩ := hfs.inv
  by_cases hne : sk.isEmpty = true
  · -- an empty sketch comes back as a fresh one
    have hk1 := hinv.kpos
    have hc0 : (sk.k == 0 || decide (sk.k > T.maxK)) = false := by simp; omega
    have hs : serdeRoundTrip T sk = Sk.new T sk.k sk.rf sk.gadget := by
      unfold serdeRoundTrip
      rw [if_neg (by rw [hc0]; simp), if_pos hne]
    have hnew : ∃ s1, (Sk.new T sk.k sk.rf sk.gadget : Option (Sk Rat)) = some s1 := by
      unfold Sk.new
      rw [if_neg (by rw [hc0]; simp)]
      exact ⟨_, rfl⟩
    obtain ⟨s1, hs1⟩ := hnew
    obtain ⟨hi, _, hg1, _⟩ := new_inv T sk.k sk.rf sk.gadget s1 hs1
    refine ⟨s1, by rw [hs, hs1], ?_⟩
    intro x w ds hw
    obtain ⟨s', ds', L', hu, _⟩ := update_spec T s1 [] [] hi x w false ds hw (by simp)
    rw [hu]; rfl
  · obtain ⟨sk2, hs2, hi, _⟩ := serde_inv T sk ins L hinv hgad hk (by simpa using hne) (Or.inr hfix)
    refine ⟨sk2, hs2, ?_⟩
    intro x w ds hw
    obtain ⟨s', ds', L', hu, _⟩ := update_spec T sk2 ins L hi x w false ds hw (by simp)
    rw [hu]; rfl

/-- the estimation-mode witness of `vo_serde_update_full_false`, now with the repaired reader: the update succeeds -/
example : ((serdeRoundTrip exTR wA).bind (fun s => update exTR s 4 3 false wDs)).isSome = true := by decide +kernel
example : FromStream wA wItemsA ∧ exTR.deserializeM0 = true ∧ wA.k ≤ exTR.maxK := ⟨wA_fromStream, rfl, by decide +kernel⟩

/-- **vo_union_wellformed_current.** With the repaired coercer (guard against the OUTER tau, result re-heapified) the
    full statement `vo_union_wellformed_full` of Props/C16.lean holds: whatever `get_result` returns — through any of
    the three coercers, for any inputs, any max_k, any draws — is a valid estimation-mode state (H is a min-heap and
    no H item is lighter than tau), so later updates of the result are covered by `vo_size`/`vo_heavy_exact`-style
    reasoning.  (Uses the `resolve_tau` bookkeeping invariant: when the number of marked items equals
    `outer_tau_denom`, `outer_tau_numer` is exactly their total weight, so the new tau IS the outer tau.) -/
theorem vo_union_wellformed_current (T : Tunables) (h1 : T.coercerOuterTau = true) (h2 : T.coercerHeapify = true)
    (maxK : Nat) (u0 : Un Rat) (hu0 : Un.new T maxK = some u0)
    (inputs : List (Sk Rat × List (Int × Rat))) (hin : ∀ p ∈ inputs, FromStream p.1 p.2) (ds : Draws Rat)
    (u : Un Rat) (ds' : Draws Rat) (hall : unionAll T u0 (inputs.map (·.1)) ds = some (u, ds'))
    (ds2 : Draws Rat) (res : Sk Rat) (ds3 : Draws Rat) (hres : u.getResult T ds2 = some (res, ds3)) :
    WellFormed res := by
  obtain ⟨hinv0, _⟩ := newUnion_inv T maxK u0 hu0
  obtain ⟨u', ds'', insG, LG, hall', hu, _, hb⟩ :=
    unionAll_spec T inputs hin u0 [] [] 0 0 ds hinv0 (newUnion_book T maxK u0 hu0)
  rw [hall] at hall'
  injection hall' with hall'; injection hall' with e1 e2
  subst e1
  exact getResult_wf_current T h1 h2 u insG LG _ _ hu hb ds2 res ds3 hres

/-- the witness of `vo_union_wellformed_full_false` under the repaired coercer: the light item is absorbed
    (k_result = 2, both samples in R, tau = 31/2) instead of staying in H below tau -/
def wResR : Sk Rat :=
  (((unionAll exTR ((Un.new exTR 10 : Option (Un Rat)).getD wU0) [wA, wB] wDs).bind
      (fun p => p.1.getResult exTR wDs)).getD (wNew 1, wDs)).1
example : (wResR.k, wResR.H.length, wResR.R.length, wResR.totalWtR) = (2, 0, 2, 31) := by decide +kernel

/-- the source shapes in the headers NOW are the repaired ones (regenerated by the translator on every run; if a fix
    is reverted the flag flips, this obligation breaks, and the flag-following model goes back to the old behaviour) -/
theorem vo_source_shapes_current :
    DSGen.varopt_deserializeM0 = true ∧ DSGen.varopt_coercerOuterTau = true ∧ DSGen.varopt_coercerHeapify = true ∧
    DSGen.varopt_coercerRelTol = true ∧ DSGen.varopt_validModeSlack = true ∧ DSGen.varopt_marksInit = true ∧
    DSGen.varopt_resetRealloc = true := by decide

end DS.VarOpt

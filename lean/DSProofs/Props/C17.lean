/-
C17 — t-digest conserves weight, keeps exact extremes, is monotone.

ONLY property theorems and their non-vacuity examples live here (helper lemmas: Lemmas/TDigest*.lean).
Model: DSModel/TDigest/Model.lean — one definition over the ops-only numeric classes of DSModel/TDigest/Num.lean,
executed with Float / Float32 and compared bit for bit with tdigest_impl.hpp by `./check C17`, and instantiated
here with `Rat` (exact arithmetic of an ordered field).  Floating-point rounding is NOT modelled.

Quantifiers.  `h : Hist α` ranges over ALL finite histories: a fresh digest (any k), updates with any values,
compress points anywhere (explicit `compress()`, or the side effect of get_rank / get_quantile / get_CDF /
get_PMF / serialize — `td_query_state`), and merges of two arbitrary histories (hence every merge tree).
`tun : Tun` ranges over ALL values of the header constants (buffer multiplier, capacity fudge, …; the values in
force are regenerated into DSGen/TDigest.lean on every run), including BOTH shapes of `centroid::add`
(`Tun.caddSafe`: plain `mean_ += delta`, or the overflow-safe shape that blends with the weight ratio when `delta`
is not finite).  Over `Rat` every value is finite, so the two shapes coincide (`cadd_mean`): the fallback exists
only in the executed Float / Float32 instances, where it is tied to the code bit for bit, not proved.  `sc : Scale Rat` is an ARBITRARY scale function
subject only to `ScaleOK sc` (`max 1 normalizer = 0`: the cluster-size limit vanishes at q = 1), discharged for
the code's k2 shape `q·(1−q)/normalizer` with any normalizer (`scaleOK_k2`).  That hypothesis is what protects
the LAST centroid (the code's `std::distance(buffer.end(), it) != 1` is vacuously true) and, through the first /
last centroid being input singletons, what makes min/max exact across `merge(other)` (which never reads
`other.min_/max_`).  Only `limit 1 = 0` is needed; DESIGN's stronger triple hypothesis implies it (`ScaleHyp.ok`).

Full strength: td_weight (every numeric instance, NaN included), td_minmax_exact, td_centroids_sorted,
td_means_within, td_extremes_singleton, td_rank_range_mono, td_cdf_pmf.
Quantile: range, q(0) = min, q(1) = max proved for both argument orders of the interpolation call
(`td_quantile_mono_partial`); monotonicity in the rank was FALSE of the pinned code
(`td_quantile_mono_full_false`: the interpolation call had its two weights swapped — repaired in /repo by the
commit "fix: tdigest get_quantile interpolated between centroids with swapped weights", known_findings.json entry
`quantile-not-monotone` = fixed) and is PROVED at full strength for the reference argument order
(`td_quantile_mono_fixed`).  The translator reads the argument order from the header on every run
(`DSGen.tdigest_QUANTILE_WEIGHTS_AS_W1_W2`); `td_quantile_mono_current` is the full statement for the constants
and argument order in the header NOW — if the swap ever returns, that obligation no longer checks.
-/
import DSProofs.Lemmas.TDigestQuantMono
import DSGen.TDigest
namespace DS.TDigest
open Num Conv

/-! ## the scale-function hypothesis -/

/-- DESIGN's hypothesis on the scale limit: 0 at both ends, non-negative inside (for a positive normalizer). -/
def ScaleHyp (sc : Scale Rat) : Prop :=
  (∀ nrm, sc.max 0 nrm = 0) ∧ (∀ nrm, sc.max 1 nrm = 0) ∧ (∀ q nrm, 0 ≤ q → q ≤ 1 → 0 < nrm → 0 ≤ sc.max q nrm)

/-- only the middle conjunct is used by the theorems -/
theorem ScaleHyp.ok {sc : Scale Rat} (h : ScaleHyp sc) : ScaleOK sc := h.2.1

/-- the code's K_2 shape `q * (1 - q) / normalizer` satisfies the hypothesis, whatever the normalizer function is
(the real one is `compression / (4·log(n/compression) + 24)`; `log` never enters). -/
theorem scaleHyp_k2_shape (nz : Rat → Rat → Rat) : ScaleHyp { normalizer := nz, max := fun q nrm => q * (1 - q) / nrm } := by
  refine ⟨fun nrm => by simp, fun nrm => by simp, fun q nrm h0 h1 hn => ?_⟩
  exact div_nonneg (mul_nonneg h0 (by linarith)) hn.le

/-- `k2` (the model's transcription of `scale_function`) instantiated at `Rat` -/
theorem scaleOK_k2 (zMul zAdd : Nat) : ScaleOK (k2 zMul zAdd : Scale Rat) := by
  intro nrm; simp [k2]

/-! ## weight -/

/-- total weight = number of accepted (non-NaN) values, across merges — for EVERY instance of the numeric classes
(no arithmetic law is used), in particular for the executed Float / Float32 instances with real NaN and infinities,
every scale function and all tunables; and `centroids_weight_` is the sum of the centroid weights. -/
theorem td_weight {α δ : Type} [Num α] [Num δ] [Conv α δ] (sc : Scale δ) (tun : Tun) (h : Hist α) :
    (h.eval sc tun).totalWeight = h.accepted.length ∧ (h.eval sc tun).cw = sumWeights (h.eval sc tun).cs :=
  ⟨(eval_weight sc tun h).2, (eval_weight sc tun h).1⟩

/-! ## extremes, order, means -/

/-- the digest is empty exactly when nothing was accepted; otherwise min_ / max_ are accepted values and bound
all accepted values (merged operands included). -/
theorem td_minmax_exact (sc : Scale Rat) (hsc : ScaleOK sc) (tun : Tun) (h : Hist Rat) :
    ((h.eval sc tun).isEmpty = true ↔ h.accepted = []) ∧
    (h.accepted ≠ [] →
      ((h.eval sc tun).min ∈ h.accepted ∧ ∀ v ∈ h.accepted, (h.eval sc tun).min ≤ v) ∧
      ((h.eval sc tun).max ∈ h.accepted ∧ ∀ v ∈ h.accepted, v ≤ (h.eval sc tun).max)) := by
  have hext := ext_eval sc hsc tun h
  have hw := eval_weight sc tun h
  have hiff : (h.eval sc tun).isEmpty = true ↔ h.accepted = [] := by
    constructor
    · exact hext.1
    · intro hA
      have := totalWeight_of_isEmpty (s := h.eval sc tun)
      by_contra hne
      have hne' : (h.eval sc tun).isEmpty = false := by simpa using hne
      have hinv := inv_eval sc hsc tun h
      have h0 : (h.eval sc tun).totalWeight = 0 := by rw [hw.2, hA]; rfl
      unfold St.totalWeight at h0
      rcases (isEmpty_false_iff _).1 hne' with hc | hb
      · obtain ⟨c, t, hct⟩ := List.exists_cons_of_ne_nil hc
        have hp := hinv.pos c (by rw [hct]; exact List.mem_cons_self ..)
        have := hinv.cw
        rw [hct] at this; simp at this; omega
      · have : 0 < (h.eval sc tun).buf.length := List.length_pos_iff.2 hb
        omega
  refine ⟨hiff, fun hA => hext.2 ?_⟩
  cases he : (h.eval sc tun).isEmpty
  · rfl
  · exact absurd (hiff.1 he) hA

/-- the centroid list is sorted by mean -/
theorem td_centroids_sorted (sc : Scale Rat) (hsc : ScaleOK sc) (tun : Tun) (h : Hist Rat) :
    (h.eval sc tun).cs.Pairwise (fun a b => a.mean ≤ b.mean) :=
  (inv_eval sc hsc tun h).sorted

/-- every centroid mean (and every buffered value) lies in [min, max]; every centroid weight is ≥ 1 -/
theorem td_means_within (sc : Scale Rat) (hsc : ScaleOK sc) (tun : Tun) (h : Hist Rat) :
    (∀ c ∈ (h.eval sc tun).cs, (h.eval sc tun).min ≤ c.mean ∧ c.mean ≤ (h.eval sc tun).max ∧ 1 ≤ c.weight) ∧
    (∀ v ∈ (h.eval sc tun).buf, (h.eval sc tun).min ≤ v ∧ v ≤ (h.eval sc tun).max) :=
  have i := inv_eval sc hsc tun h
  ⟨fun c hc => ⟨i.csLo c hc, i.csHi c hc, i.pos c hc⟩, fun v hv => ⟨i.bufLo v hv, i.bufHi v hv⟩⟩

/-- KEY INVARIANT.  In every reachable state the first and the last centroid have weight 1; once the buffer is
empty (after every compress()/merge, hence inside every query) the first centroid is exactly (min, 1) and the last
exactly (max, 1), and a digest holding ≥ 2 values has ≥ 2 centroids.  Consequences (see Lemmas/TDigestRankState,
TDigestQuant): the weight > 1 tail branches of get_rank / get_quantile and the code after get_quantile's loop are
unreachable from updates and merges (they are reachable only from foreign images, which C17 does not quantify over). -/
theorem td_extremes_singleton (sc : Scale Rat) (hsc : ScaleOK sc) (tun : Tun) (h : Hist Rat) :
    (∀ c, (h.eval sc tun).cs.head? = some c → c.weight = 1) ∧
    (∀ c, (h.eval sc tun).cs.getLast? = some c → c.weight = 1) ∧
    ((h.eval sc tun).buf = [] → (h.eval sc tun).isEmpty = false →
      (h.eval sc tun).cs.head? = some ⟨(h.eval sc tun).min, 1⟩ ∧
      (h.eval sc tun).cs.getLast? = some ⟨(h.eval sc tun).max, 1⟩ ∧
      (2 ≤ (h.eval sc tun).totalWeight → 2 ≤ (h.eval sc tun).cs.length)) := by
  have i := inv_eval sc hsc tun h
  refine ⟨i.headW, i.lastW, fun hb hne => ?_⟩
  have hcs : (h.eval sc tun).cs ≠ [] := by
    rcases (isEmpty_false_iff _).1 hne with hc | hc
    · exact hc
    · exact absurd hb hc
  have hc : Compressed (h.eval sc tun) := ⟨i, hb, hcs⟩
  obtain ⟨f, hf, hfm, hfw⟩ := hc.head
  obtain ⟨l, hl, hlm, hlw⟩ := hc.last
  refine ⟨?_, ?_, fun h2 => ?_⟩
  · rw [hf]; cases f; simp_all
  · rw [hl]; cases l; simp_all
  · unfold St.totalWeight at h2
    rw [hb, i.cw] at h2
    cases hcc : (h.eval sc tun).cs with
    | nil => exact absurd hcc hcs
    | cons a t =>
      cases t with
      | nil =>
        rw [hcc] at hf h2
        simp at hf; subst hf
        simp at h2; omega
      | cons b t' => simp

/-- the compress-after-merge form of the invariant: after `compress()` of any non-empty history, and after merging
any non-empty history into any history, the centroid list starts with (min, 1) and ends with (max, 1). -/
theorem td_extremes_singleton_compress (sc : Scale Rat) (hsc : ScaleOK sc) (tun : Tun) (h : Hist Rat)
    (hne : h.accepted ≠ []) :
    ((Hist.compress h).eval sc tun).cs.head? = some ⟨((Hist.compress h).eval sc tun).min, 1⟩ ∧
    ((Hist.compress h).eval sc tun).cs.getLast? = some ⟨((Hist.compress h).eval sc tun).max, 1⟩ := by
  have hb : ((Hist.compress h).eval sc tun).buf = [] := (compress_inv sc hsc tun _ (inv_eval sc hsc tun h)).2.1
  have hA : (Hist.compress h).accepted ≠ [] := hne
  have he : ((Hist.compress h).eval sc tun).isEmpty = false := by
    cases hh : ((Hist.compress h).eval sc tun).isEmpty
    · rfl
    · exact absurd ((td_minmax_exact sc hsc tun (Hist.compress h)).1.1 hh) hA
  have := (td_extremes_singleton sc hsc tun (Hist.compress h)).2.2 hb he
  exact ⟨this.1, this.2.1⟩

/-! ## queries -/

/-- the only effect of a query on the digest is "nothing" or "compress()": the state after get_rank / get_quantile
is again the state of a history (for every numeric instance). -/
theorem td_query_state {α δ : Type} [Num α] [Num δ] [Conv α δ] (sc : Scale δ) (tun : Tun) (h : Hist α) (x : α) (r : δ) :
    ((getRank sc tun (h.eval sc tun) x).2 = h.eval sc tun ∨
     (getRank sc tun (h.eval sc tun) x).2 = (Hist.compress h).eval sc tun) ∧
    ((getQuantile sc tun (h.eval sc tun) r).2 = h.eval sc tun ∨
     (getQuantile sc tun (h.eval sc tun) r).2 = (Hist.compress h).eval sc tun) :=
  ⟨getRank_state sc tun _ x, getQuantile_state sc tun _ r⟩

/-- get_rank on a non-empty digest never throws, is 0 below min, 1 above max, lies in [0,1] and is non-decreasing
in the value (on an empty digest it throws: `none`). -/
theorem td_rank_range_mono (sc : Scale Rat) (hsc : ScaleOK sc) (tun : Tun) (h : Hist Rat) (hne : h.accepted ≠ []) :
    (∀ x, ∃ r, (getRank sc tun (h.eval sc tun) x).1 = some r ∧ 0 ≤ r ∧ r ≤ 1 ∧
        (x < (h.eval sc tun).min → r = 0) ∧ ((h.eval sc tun).max < x → r = 1)) ∧
    (∀ x y rx ry, x ≤ y → (getRank sc tun (h.eval sc tun) x).1 = some rx →
        (getRank sc tun (h.eval sc tun) y).1 = some ry → rx ≤ ry) := by
  have i := inv_eval sc hsc tun h
  have he : (h.eval sc tun).isEmpty = false := by
    cases hh : (h.eval sc tun).isEmpty
    · rfl
    · exact absurd ((td_minmax_exact sc hsc tun h).1.1 hh) hne
  exact ⟨fun x => getRank_range sc hsc tun _ i he x,
         fun x y rx ry hxy hx hy => getRank_mono sc hsc tun _ i he x y hxy rx ry hx hy⟩

/-- the full statement about get_quantile: total on [0,1], inside [min,max], min at 0, max at 1, and
non-decreasing in the rank. -/
def td_quantile_mono_full (tun : Tun) : Prop :=
  ∀ (sc : Scale Rat), ScaleOK sc → ∀ (h : Hist Rat), h.accepted ≠ [] →
    (∀ r, 0 ≤ r → r ≤ 1 → ∃ q, (getQuantile sc tun (h.eval sc tun) r).1 = some q ∧
        (h.eval sc tun).min ≤ q ∧ q ≤ (h.eval sc tun).max ∧
        (r = 0 → q = (h.eval sc tun).min) ∧ (r = 1 → q = (h.eval sc tun).max)) ∧
    (∀ r1 r2 q1 q2, 0 ≤ r1 → r1 ≤ r2 → r2 ≤ 1 → (getQuantile sc tun (h.eval sc tun) r1).1 = some q1 →
        (getQuantile sc tun (h.eval sc tun) r2).1 = some q2 → q1 ≤ q2)

/-- PROVED PART (every `tun`, i.e. both argument orders of the `weighted_average` call): get_quantile never
throws for a rank in [0,1] on a non-empty digest, its value lies in [min, max], q(0) = min, q(1) = max.
MISSING w.r.t. `td_quantile_mono_full`: monotonicity in the rank — false for the argument order of the current
code (`td_quantile_mono_full_false`), true for the reference order (`td_quantile_mono_fixed`). -/
theorem td_quantile_mono_partial (sc : Scale Rat) (hsc : ScaleOK sc) (tun : Tun) (h : Hist Rat) (hne : h.accepted ≠ []) :
    ∀ r, 0 ≤ r → r ≤ 1 → ∃ q, (getQuantile sc tun (h.eval sc tun) r).1 = some q ∧
        (h.eval sc tun).min ≤ q ∧ q ≤ (h.eval sc tun).max ∧
        (r = 0 → q = (h.eval sc tun).min) ∧ (r = 1 → q = (h.eval sc tun).max) := by
  have i := inv_eval sc hsc tun h
  have he : (h.eval sc tun).isEmpty = false := by
    cases hh : (h.eval sc tun).isEmpty
    · rfl
    · exact absurd ((td_minmax_exact sc hsc tun h).1.1 hh) hne
  exact fun r h0 h1 => getQuantile_within sc hsc tun _ i he r h0 h1

/-- FULL STATEMENT for the reference argument order `weighted_average(mean[i], w2, mean[i+1], w1)` (every other
tunable arbitrary): this is the code with proposed_fixes/C17-quantile-interpolation-weights-swapped.patch applied. -/
theorem td_quantile_mono_fixed (tun : Tun) (hq : tun.quantW1W2 = false) : td_quantile_mono_full tun := by
  intro sc hsc h hne
  have i := inv_eval sc hsc tun h
  have he : (h.eval sc tun).isEmpty = false := by
    cases hh : (h.eval sc tun).isEmpty
    · rfl
    · exact absurd ((td_minmax_exact sc hsc tun h).1.1 hh) hne
  exact ⟨td_quantile_mono_partial sc hsc tun h hne,
    fun r1 r2 q1 q2 h0 h12 h1 e1 e2 => getQuantile_mono sc hsc tun hq _ i he r1 r2 h0 h12 h1 q1 q2 e1 e2⟩

/-- the header constants AND the argument order of the interpolation call as the header has them now -/
def tunCurrent : Tun :=
  { bufMul := DSGen.tdigest_BUFFER_MULTIPLIER, fudgeThr := DSGen.tdigest_FUDGE_THRESHOLD,
    fudgeSmall := DSGen.tdigest_FUDGE_SMALL_K, fudgeLarge := DSGen.tdigest_FUDGE_LARGE_K,
    capMul := DSGen.tdigest_CAPACITY_K_MULT, comprMul := DSGen.tdigest_COMPRESSION_K_MULT,
    minK := DSGen.tdigest_MIN_K, caddSafe := DSGen.tdigest_CENTROID_ADD_OVERFLOW_SAFE,
    quantW1W2 := DSGen.tdigest_QUANTILE_WEIGHTS_AS_W1_W2 }

/-- FULL STATEMENT (range, q(0) = min, q(1) = max, monotone in the rank) for the code as it is now -/
theorem td_quantile_mono_current : td_quantile_mono_full tunCurrent :=
  td_quantile_mono_fixed tunCurrent (by decide)

/-- the header constants in force, with the interpolation call as the PINNED (pre-fix) code had it:
`weighted_average(mean[i], w1, mean[i+1], w2)` -/
def tunAsCoded : Tun :=
  { bufMul := DSGen.tdigest_BUFFER_MULTIPLIER, fudgeThr := DSGen.tdigest_FUDGE_THRESHOLD,
    fudgeSmall := DSGen.tdigest_FUDGE_SMALL_K, fudgeLarge := DSGen.tdigest_FUDGE_LARGE_K,
    capMul := DSGen.tdigest_CAPACITY_K_MULT, comprMul := DSGen.tdigest_COMPRESSION_K_MULT,
    minK := DSGen.tdigest_MIN_K, caddSafe := DSGen.tdigest_CENTROID_ADD_OVERFLOW_SAFE, quantW1W2 := true }

/-- witness: scale limit 4·q·(1−q) (k2 shape, constant normalizer 1/4), k = 10, values 1..6, one compress:
centroids (1,1) (3,3) (5,1) (6,1). -/
def witnessScale : Scale Rat := { normalizer := fun _ _ => 1 / 4, max := fun q nrm => q * (1 - q) / nrm }
def witnessHist : Hist Rat :=
  .compress (.update (.update (.update (.update (.update (.update (.new 10) 1) 2) 3) 4) 5) 6)

/-- get_quantile of the pinned (pre-fix) code is NOT non-decreasing: q(5/12) = 5 > 11/3 = q(7/12). -/
theorem td_quantile_mono_full_false : ¬ td_quantile_mono_full tunAsCoded := by
  intro hfull
  have hsc : ScaleOK witnessScale := (scaleHyp_k2_shape _).ok
  have hq := (hfull witnessScale hsc witnessHist (by decide)).2 (5 / 12) (7 / 12) 5 (11 / 3)
    (by norm_num) (by norm_num) (by norm_num) (by decide +kernel) (by decide +kernel)
  norm_num at hq

/-! ## CDF / PMF -/

/-- get_CDF (when it does not throw) returns the ranks of the split points ON THE DIGEST IT WAS CALLED ON (the
compress side effect of the first get_rank does not change any later rank) followed by 1; get_PMF returns the
successive differences of that CDF and sums to exactly 1. -/
theorem td_cdf_pmf (sc : Scale Rat) (hsc : ScaleOK sc) (tun : Tun) (h : Hist Rat) (pts : List Rat) :
    (∀ c s', getCDF sc tun (h.eval sc tun) pts = (some c, s') →
      c = pts.filterMap (fun x => (getRank sc tun (h.eval sc tun) x).1) ++ [1] ∧ c.length = pts.length + 1) ∧
    (∀ p s', getPMF sc tun (h.eval sc tun) pts = (some p, s') →
      p.sum = 1 ∧ ∃ c, (getCDF sc tun (h.eval sc tun) pts).1 = some c ∧ p = pmfOfCdf c) :=
  ⟨fun c s' hc => getCDF_spec sc hsc tun _ (inv_eval sc hsc tun h) pts c s' hc,
   fun p s' hp => getPMF_sum sc hsc tun _ (inv_eval sc hsc tun h) pts p s' hp⟩

/-- get_CDF / get_PMF validate the split points: NaN-free (vacuous over Rat) and strictly increasing, else throw. -/
theorem td_cdf_validates (sc : Scale Rat) (tun : Tun) (s : St Rat) (pts : List Rat)
    (hbad : ¬ pts.Pairwise (· < ·)) : (getCDF sc tun s pts).1 = none ∧ (getPMF sc tun s pts).1 = none := by
  have hc : checkSplit pts = false := by
    induction pts with
    | nil => simp at hbad
    | cons a t ih =>
      cases t with
      | nil => simp at hbad
      | cons b t' =>
        simp only [checkSplit, rat_isNaN, Bool.not_false, Bool.true_and]
        by_cases hab : a < b
        · have : ¬ (b :: t').Pairwise (· < ·) := by
            intro hp
            apply hbad
            rw [List.pairwise_cons]
            refine ⟨?_, hp⟩
            intro c hc
            rcases List.mem_cons.1 hc with rfl | hc
            · exact hab
            · exact lt_trans hab ((List.pairwise_cons.1 hp).1 c hc)
          simp [ih this]
        · simp [hab]
  have h1 : (getCDF sc tun s pts).1 = none := by unfold getCDF; simp [hc]
  refine ⟨h1, ?_⟩
  unfold getPMF
  cases hg : getCDF sc tun s pts with
  | mk c s' => rw [hg] at h1; simp at h1; subst h1; rfl

/-! ## non-vacuity: concrete instances -/

/-- the witness history satisfies the hypotheses, and its digest is what the comment says -/
example : witnessHist.accepted = [1, 2, 3, 4, 5, 6] ∧
    (witnessHist.eval witnessScale tunAsCoded).cs.map (fun c => (c.mean, c.weight)) = [(1, 1), (3, 3), (5, 1), (6, 1)] ∧
    (witnessHist.eval witnessScale tunAsCoded).totalWeight = 6 := by decide +kernel

/-- a merge tree with ties and operands of different k: centroids (1,1) (2,1) (11/3,3) (9,1); ranks and quantiles on it -/
def exHist : Hist Rat :=
  .merge (.compress (.update (.update (.update (.new 10) 2) 2) 7)) (.update (.update (.compress (.update (.new 20) 9)) 1) 2)

example : exHist.accepted = [2, 2, 7, 9, 1, 2] ∧
    ((exHist.eval witnessScale tunAsCoded).min, (exHist.eval witnessScale tunAsCoded).max) = (1, 9) ∧
    (exHist.eval witnessScale tunAsCoded).buf = [] ∧
    (getRank witnessScale tunAsCoded (exHist.eval witnessScale tunAsCoded) 2).1 = some (1 / 4) ∧
    (getRank witnessScale tunAsCoded (exHist.eval witnessScale tunAsCoded) 0).1 = some 0 ∧
    (getQuantile witnessScale tunAsCoded (exHist.eval witnessScale tunAsCoded) 1).1 = some 9 := by decide +kernel

example : ScaleOK witnessScale := (scaleHyp_k2_shape _).ok

/-- the same witness with the reference argument order is monotone at the two ranks: q(5/12) = 3 ≤ 13/3 = q(7/12) -/
example : (getQuantile witnessScale { tunAsCoded with quantW1W2 := false } (witnessHist.eval witnessScale tunAsCoded) (5 / 12)).1 = some 3 ∧
    (getQuantile witnessScale { tunAsCoded with quantW1W2 := false } (witnessHist.eval witnessScale tunAsCoded) (7 / 12)).1 = some (13 / 3) := by
  decide +kernel

/-- CDF/PMF on the example: three split points, four buckets summing to 1 -/
example : (getCDF witnessScale tunAsCoded (exHist.eval witnessScale tunAsCoded) [1, 2, 8]).1 = some [1 / 12, 1 / 4, 41 / 48, 1] ∧
    (getPMF witnessScale tunAsCoded (exHist.eval witnessScale tunAsCoded) [1, 2, 8]).1 = some [1 / 12, 1 / 6, 29 / 48, 7 / 48] ∧
    (getCDF witnessScale tunAsCoded (exHist.eval witnessScale tunAsCoded) [2, 1]).1 = none := by decide +kernel

end DS.TDigest

import DSModel.TDigest.Model
namespace DS.TDigest
theorem stub_placeholder : True := trivial
end DS.TDigest

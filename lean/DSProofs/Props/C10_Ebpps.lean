/-
C10 (EBPPS part) — the wire constants extracted from the CURRENT headers equal the documented values.

Documented contract ("Serialized sketch layout" comment in ebpps_sketch_impl.hpp; Java EbppsItemsSketch): family id 19,
serial version 1, preamble longs 1 (empty) / 5 (non-empty; C follows as the first field of the sample), flags
4 = empty, 8 = has partial item, k ≤ 2^31 − 2.  Field order (k, n, cumulative weight, max weight, rho, c, full items,
partial item) is part of `encode`/`decode`, tied to the code by the two-phase check and the baseline corpus
(corpus/baseline/ebpps).
-/
import DSModel.Wire.EbppsGen
namespace DS.Wire.Ebpps

/-- every wire constant of the current headers has its documented value -/
theorem wire_consts_documented : generated = documented := by decide

/-- the number of full items and the presence of the partial item as a function of the bits of c -/
example : f64FloorFrac 0x4005555555555555 = some (2, true) := by decide    -- 2.666…
example : f64FloorFrac 0x4008000000000000 = some (3, false) := by decide   -- 3.0
example : f64FloorFrac 0x3fe0000000000000 = some (0, true) := by decide    -- 0.5
example : f64FloorFrac 0xbff0000000000000 = none := by decide              -- −1.0 is rejected
example : f64FloorFrac 0x7ff8000000000000 = none := by decide              -- NaN is rejected

end DS.Wire.Ebpps

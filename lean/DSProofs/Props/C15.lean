/-
C15 — Bloom filter: no false negatives in any representation; bitwise set algebra.

ONLY property theorems and their non-vacuity examples live here (helper lemmas: Lemmas/Bloom*.lean).
Model: DSModel/Bloom/Model.lean (one function per public operation of bloom_filter_impl.hpp, with an explicit
store of caller-memory blocks), histories + ghost book-keeping: DSModel/Bloom/Spec.lean, Promise.lean.  The
model is tied to the real headers by `./check C15` (correspondence on generated histories).

All statements hold for EVERY layout `P` with the count at byte 24 and the bit array at byte 32 (`P.Layout`;
the constants come from the current headers through DSGen/Bloom.lean, `genParams_layout` below), for EVERY
hash function `hf` (item, seed) ↦ (h0, h1) — in particular XXHash64 —, and for every history: any number of
filters and memory blocks, any sizes / hash counts / seeds, owned and caller-memory filters, any interleaving of
new / initialize / update / query_and_update / get_bits_used / reset / union / intersect / invert / copy /
serialize / deserialize / wrap / writable_wrap, including refused operations and raw byte blocks.

`Fix.asCoded` is the code as it is; `Fix.fixed` is the code with the three repairs of proposed_fixes/C15-*.patch.
Statements that the CURRENT code violates are kept as `def …_full`, refuted for `Fix.asCoded` by a concrete
witness history evaluated by the kernel with the real XXHash64 (`…_full_false`; the same histories are replayed on
the real code by the check, corpus/regress/C15), and the part that does hold is `…_partial`.
-/
import DSProofs.Lemmas.BloomHist
import DSProofs.Lemmas.BloomLocal
import DSProofs.Lemmas.BloomWitness
import DSProofs.Lemmas.BloomFixed19
import DSProofs.Lemmas.BloomReaders
import DSModel.Bloom.Hash
import DSGen.Bloom
namespace DS.Bloom

/-- the parameters regenerated from the current headers -/
def genParams : Params :=
  { dirty := DSGen.bloom_DIRTY_BITS_VALUE, preEmpty := DSGen.bloom_PREAMBLE_LONGS_EMPTY,
    preStd := DSGen.bloom_PREAMBLE_LONGS_STANDARD, family := DSGen.bloom_FAMILY_ID, serVer := DSGen.bloom_SER_VER,
    emptyMask := DSGen.bloom_EMPTY_FLAG_MASK, nbsOff := DSGen.bloom_NUM_BITS_SET_OFFSET_BYTES,
    bitsOff := DSGen.bloom_BIT_ARRAY_OFFSET_BYTES, maxBits := DSGen.bloom_MAX_FILTER_SIZE_BITS,
    strict := DSGen.bloom_READER_STRICT }

/-- side conditions of the theorems, discharged on the CURRENT header constants: the count sits at byte 24, the
bit array at byte 32 (where the sequential readers/writers put them), the dirty marker is 2^64-1 ≠ any count. -/
theorem genParams_layout : genParams.Layout ∧ genParams.dirty = 2 ^ 64 - 1 ∧ { genParams with strict := false } = refParams :=
  ⟨⟨by decide, by decide⟩, by decide, by decide⟩

/-- … and the wire constants the readers rely on (side condition `Params.Wire` of the repaired-model theorems). -/
theorem genParams_wire : genParams.Wire :=
  ⟨⟨by decide, by decide⟩, by decide, by decide, by decide, by decide, by decide, by decide⟩

/-- the real hashing of the `uint64_t` overload: h0 = XXH64(8 LE bytes, seed), h1 = XXH64(8 LE bytes, h0) -/
def hfU64 (x : Nat) (seed : Nat) : Option (Nat × Nat) := hashPair XXH.refPrimes (.u64 x) seed

/-! ## XXHash64: published known answers of the transcription -/

theorem xxh64_known_answers :
    XXH.hash XXH.refPrimes ByteArray.empty 0 = 0xEF46DB3751D8E999 ∧
    XXH.hash XXH.refPrimes ⟨#[0x61]⟩ 0 = 0xD24EC4F1A98C6E5B ∧
    XXH.hash XXH.refPrimes ⟨#[0x61, 0x62, 0x63]⟩ 0 = 0x44BC2CF5AD770999 ∧
    XXH.hash XXH.refPrimes ByteArray.empty 2654435761 = 0xAC75FDA2929B17EF := by decide +kernel

/-! ## bloom_no_false_negative -/

section
variable {ι : Type} [DecidableEq ι]

/-- FULL statement.  After any history, every live view that still carries a promise reports every item of its
must-set `M` present.  (`M`, see Promise.lean: what the bit state held when the view was created by copy /
deserialize(serialize) / wrap / writable_wrap of the same memory at that later time, plus what was inserted or
unioned through the view since; promises are void for blocks written through a stale view or supplied as raw bytes.) -/
def bloom_no_false_negative_full (P : Params) (fx : Fix) (hf : ι → Nat → Option (Nat × Nat)) : Prop :=
  NoFalseNegFull P fx hf

/-- PARTIAL (all layouts, code as it is and repaired, every hash function, every history): every item recorded
for a bit state (`Ghost.S`, Spec.lean: inserted through a filter of the same configuration since the last
reset / invert, carried along by copy, union, non-empty serialize, deserialize) has ALL its index bits set in
that bit state as seen by every live filter on it — owned, copied, deserialized, or any wrap / writable_wrap of the
same memory —, hence `query` answers true unless the `is_empty()` short-circuit fires, and `query_and_update`
answers true.  What is NOT proved (and false for the code as it is): that the short-circuit never fires. -/
theorem bloom_no_false_negative_partial (P : Params) (hP : P.Layout) (fx : Fix) (hf : ι → Nat → Option (Nat × Nat))
    (ops : List (Op ι)) (v : Nat) (f : Filter)
    (hv : (grun P fx hf ⟨World.empty, Ghost.empty⟩ ops).w.filters v = some f)
    (x : ι) (hx : x ∈ (grun P fx hf ⟨World.empty, Ghost.empty⟩ ops).g.under (keyOf v f) f.cfg)
    (h : Nat × Nat) (hh : hf x f.seed = some h) :
    allSet ((grun P fx hf ⟨World.empty, Ghost.empty⟩ ops).w.val f) (f.off P) (indices h.1 h.2 f.capBits f.numHashes) = true ∧
    query P (grun P fx hf ⟨World.empty, Ghost.empty⟩ ops).w f (hf x f.seed) = !f.isEmpty ∧
    (f.readOnly = false → (opQau P fx (grun P fx hf ⟨World.empty, Ghost.empty⟩ ops).w v (hf x f.seed)).2 = .bool true) ∧
    0 < f.capBits ∧ f.capBits % 64 = 0 := by
  have hi := inv_grun P fx hf hP ⟨World.empty, Ghost.empty⟩ (inv_empty P hf) ops
  have hc := covers_under_of_inv P hf _ _ hi v f hv f.cfg x hx h hh
  simp only [Filter.cfg] at hc
  refine ⟨hc, ?_, ?_, hi.2 v f hv⟩
  · simp [query, hh, hc]
  · intro hro
    rw [hh, opQau_answer P fx _ v f hv hro h, hc]

end

/-- the D13 witness: a filter initialised on caller memory, one update, then a writable wrap of the same memory -/
def witnessRewrap : List (Op Nat) := [.blk 0 40 0, .init 0 0 64 1 7, .upd 0 5, .wrap .wwrap 0 1]

/-- the witness on owned filters only: update then query_and_update of the same item -/
def witnessQauDirty : List (Op Nat) := [.new 0 64 3 7, .upd 0 5, .qau 0 5]

/-- the CURRENT code violates the full statement: `internal_update` on a memory-backed filter sets bits in the
caller's memory but leaves the stored count 0 (only the object is marked dirty), so a later
`writable_wrap` / `wrap` / `deserialize` of that memory believes the filter is empty and answers "absent". -/
theorem bloom_no_false_negative_full_false : ¬ bloom_no_false_negative_full refParams Fix.asCoded hfU64 :=
  not_noFalseNeg_of_witness refParams Fix.asCoded hfU64 witnessRewrap 1 5 (by decide +kernel)

/-- … and it is violated on a single owned filter too: `query_and_update` on a dirty filter stores
`num_bits_set_ + (new bits)` computed from the stale count and clears the dirty flag; after `update(x)`,
`query_and_update(x)` the filter has count 0, is "empty", and `query(x)` is false (`fnWitness`: promised view 0 must
report item 5 and answers absent). -/
theorem bloom_no_false_negative_full_false_owned : fnWitness refParams Fix.asCoded hfU64 witnessQauDirty 0 5 = true := by
  decide +kernel

/-- REPAIRED MODEL (`Fix.fixed` = the three patches of proposed_fixes/C15-*.patch): the FULL statement holds for every
wire-compatible layout, every hash function and every history whose filters stay below 2^32 bits (`Op.small`: above that the
32-bit `num_longs << 6` of the readers wraps — a separate limitation of the code, see the report).  Proof: the invariant
`Good` (Lemmas/BloomGood.lean: every promised view covers its must-set and is not "empty" while the must-set is not; an
in-sync view's cached count is exact or the view is dirty; the stored count of a block that carries promises is exact or
the dirty marker; …) is preserved by every operation (Lemmas/BloomFixed*.lean). -/
theorem bloom_no_false_negative_fixed {ι : Type} [DecidableEq ι] (P : Params) (hP : P.Wire) (hf : ι → Nat → Option (Nat × Nat))
    (ops : List (Op ι)) (hs : ∀ op, op ∈ ops → Op.small op) (v : Nat) (f : Filter) (i : VInfo ι)
    (hv : (prun P Fix.fixed hf PWorld.start ops).w.filters v = some f)
    (hi : (prun P Fix.fixed hf PWorld.start ops).p.vi v = some i) (_hp : i.promised = true) (x : ι) (hx : x ∈ i.M) :
    query P (prun P Fix.fixed hf PWorld.start ops).w f (hf x f.seed) = true :=
  query_of_viewOK P hf _ v f hv _ i ((good_prun P hf hP PWorld.start (good_empty P hf) ops hs).view v f i hv hi) x hx

/-- the two witness histories keep their promises in the repaired model (instances of the theorem above, evaluated). -/
example : (let s := prun refParams Fix.fixed hfU64 PWorld.start witnessRewrap
           (s.w.filters 1).map (fun f => query refParams s.w f (hfU64 5 f.seed))) = some true ∧
          (let s := prun refParams Fix.fixed hfU64 PWorld.start witnessQauDirty
           (s.w.filters 0).map (fun f => query refParams s.w f (hfU64 5 f.seed))) = some true := by decide +kernel

example : (∀ op, op ∈ witnessRewrap → Op.small op) ∧ (∀ op, op ∈ witnessQauDirty → Op.small op) := by
  constructor <;> intro op hop <;> simp [witnessRewrap, witnessQauDirty] at hop <;> rcases hop with rfl | rfl | rfl | rfl <;> simp [Op.small]

/-- non-vacuity of the partial theorem: in the D13 history the ghost does record item 5 for the re-wrapped view
(so the theorem says its bits ARE set in view 1 — only the empty short-circuit makes `query` false), and in a
longer history (update, serialize, deserialize, copy, union into a compatible filter) every derived filter is covered. -/
example : 5 ∈ (grun refParams Fix.asCoded hfU64 ⟨World.empty, Ghost.empty⟩ witnessRewrap).g.under (.mem 0) ⟨64, 1, 7⟩ := by decide +kernel
example :
    let ops : List (Op Nat) := [.new 0 100 3 7, .upd 0 5, .qau 0 6, .ser 0 0, .wrap .deser 0 1, .copy 1 2, .new 3 128 3 7, .upd 3 9,
                                .setop .union 3 2, .wrap .wrap 0 4]
    let s := grun refParams Fix.asCoded hfU64 ⟨World.empty, Ghost.empty⟩ ops
    (5 ∈ s.g.under (.own 1) ⟨128, 3, 7⟩ ∧ 6 ∈ s.g.under (.own 2) ⟨128, 3, 7⟩ ∧ 5 ∈ s.g.under (.own 3) ⟨128, 3, 7⟩ ∧
     9 ∈ s.g.under (.own 3) ⟨128, 3, 7⟩ ∧ 6 ∈ s.g.under (.mem 0) ⟨128, 3, 7⟩) ∧
    (s.w.filters 4).map (fun f => (f.ref, f.readOnly, query refParams s.w f (hfU64 6 f.seed))) = some (.mem 0, true, true) := by
  decide +kernel

/-! ## bloom_qau_prior -/

section
variable {ι : Type} [DecidableEq ι]

/-- FULL statement: on every promised, in-sync view, `query_and_update x` returns exactly `query x` evaluated before the call. -/
def bloom_qau_prior_full (P : Params) (fx : Fix) (hf : ι → Nat → Option (Nat × Nat)) : Prop :=
  QauPriorFull P fx hf

end

/-- PARTIAL (every world, code as it is and repaired): `query_and_update` returns the bit-level answer from before
the call (all index bits set); that is `query` before the call whenever the filter does not believe it is empty,
and also when it is empty and its bits really are all clear.  NOT proved (false as coded): equality when `is_empty()`
is stale (count 0 with bits set). -/
theorem bloom_qau_prior_partial (P : Params) (fx : Fix) (w : World) (v : Nat) (f : Filter) (hv : w.filters v = some f)
    (hro : f.readOnly = false) (h : Nat × Nat) :
    (opQau P fx w v (some h)).2 = .bool (allSet (w.val f) (f.off P) (indices h.1 h.2 f.capBits f.numHashes)) ∧
    (f.isEmpty = false → (opQau P fx w v (some h)).2 = .bool (query P w f (some h))) ∧
    ((∀ j, j < f.capBits → w.bit P f j = false) → 0 < f.numHashes → 0 < f.capBits → f.isEmpty = true →
        (opQau P fx w v (some h)).2 = .bool (query P w f (some h))) := by
  have ha := opQau_answer P fx w v f hv hro h
  refine ⟨ha, ?_, ?_⟩
  · intro he; rw [ha]; simp [query, he]
  · intro hz hk hc he
    rw [ha]
    have hf : allSet (w.val f) (f.off P) (indices h.1 h.2 f.capBits f.numHashes) = false := by
      cases hall : allSet (w.val f) (f.off P) (indices h.1 h.2 f.capBits f.numHashes) with
      | false => rfl
      | true =>
        have := (allSet_iff _ _ _).mp hall _ (idx1_mem_indices h.1 h.2 f.capBits f.numHashes hk)
        have hz' := hz _ (idx_lt h.1 h.2 f.capBits 1 hc)
        simp only [World.bit] at hz'
        rw [hz'] at this; cases this
    simp [query, he, hf]

/-- the CURRENT code violates the full statement (consequence of the stale count): in the D13 state the fresh
writable wrap answers `query(5) = false` but `query_and_update(5) = true`. -/
theorem bloom_qau_prior_full_false : ¬ bloom_qau_prior_full refParams Fix.asCoded hfU64 :=
  not_qauPrior_of_witness refParams Fix.asCoded hfU64 witnessRewrap 1 5 true (by decide +kernel)

/-- REPAIRED MODEL: the FULL statement holds (same side conditions as `bloom_no_false_negative_fixed`): on every promised
in-sync view `query_and_update x` returns exactly `query x` evaluated before the call. -/
theorem bloom_qau_prior_fixed {ι : Type} [DecidableEq ι] (P : Params) (hP : P.Wire) (hf : ι → Nat → Option (Nat × Nat))
    (ops : List (Op ι)) (hs : ∀ op, op ∈ ops → Op.small op) (v : Nat) (f : Filter) (i : VInfo ι) (x : ι) (b : Bool)
    (hv : (prun P Fix.fixed hf PWorld.start ops).w.filters v = some f)
    (hi : (prun P Fix.fixed hf PWorld.start ops).p.vi v = some i) (hp : i.promised = true)
    (hin : inSync (prun P Fix.fixed hf PWorld.start ops).p v f i = true)
    (hq : (step P Fix.fixed hf (prun P Fix.fixed hf PWorld.start ops).w (.qau v x)).2 = .bool b) :
    b = query P (prun P Fix.fixed hf PWorld.start ops).w f (hf x f.seed) := by
  have hg := good_prun P hf hP PWorld.start (good_empty P hf) ops hs
  simp only [step, hashFor, hv] at hq
  by_cases hro : f.readOnly = true
  · cases hh : hf x f.seed with
    | none => rw [hh] at hq; simp [opQau, hv] at hq; simp [query, hq]
    | some h => rw [hh] at hq; simp [opQau, hv, hro] at hq
  · have hro' : f.readOnly = false := by simpa using hro
    rw [inSync_eq] at hin
    rw [qau_eq_query_of_viewOK P hf Fix.fixed _ v f hv _ i (hg.view v f i hv hi) (hg.fwf v f hv) hp hin hro' (hf x f.seed)] at hq
    injection hq with hq; exact hq.symm

example : (opQau refParams Fix.asCoded (run refParams Fix.asCoded hfU64 World.empty [.new 0 64 3 7, .upd 0 5]) 0 (hfU64 5 7)).2 = .bool true ∧
          (opQau refParams Fix.asCoded (run refParams Fix.asCoded hfU64 World.empty [.new 0 64 3 7, .upd 0 5]) 0 (hfU64 6 7)).2 = .bool false := by
  decide +kernel

/-! ## the readers (deserialize / wrap / writable_wrap)

`Params.strict` (DSGen `bloom_READER_STRICT`, read from the CURRENT bloom_filter_impl.hpp by tools/trules/bloom.py) selects the
reader shape the model follows: `false` = the pinned readers (no consistency check between preamble longs and the empty flag,
zero counts accepted, 32-bit `num_longs << 6`, bit-array length unchecked for wraps — the model marks those inputs `.oob`,
"outside the modelled domain", C11's subject), `true` = the validated readers.  Every theorem of this file is for BOTH
shapes (they are parametric in `P`); the witnesses use `refParams` (pinned shape). -/

/-- VALIDATED READERS (`P.strict = true`): deserialize / wrap / writable_wrap of ANY existing block either throws or returns a
filter — never the model's "outside the modelled domain" outcome (no count read past a short buffer, no bit array outside the
block, no zero capacity) —, and a returned filter has at least one hash function, a positive capacity, and, when it wraps the
block, a bit array that lies inside it.  (For the pinned readers these were the `.oob` cases.) -/
theorem bloom_readers_current (P : Params) (hs : P.strict = true) (hstd : P.preStd = 4) (w : World) (k : WrapKind) (m v : Nat) (b : Block)
    (hm : w.blocks m = some b) :
    (opWrap P w k m v).2 ≠ .oob ∧
    (∀ f, (opWrap P w k m v).2 = .ok → (opWrap P w k m v).1.filters v = some f →
        1 ≤ f.numHashes ∧ 0 < f.capBits ∧ (isMem f = true → 32 + f.capBits / 8 ≤ b.len)) :=
  opWrap_strict P hs hstd w k m v b hm

/-- instances: an image with zero hash functions and a wrap of a block shorter than its declared bit array are refused by the
validated readers; the pinned readers accept the first and are outside the modelled domain on the second. -/
example :
    let img0 : Block := ⟨40, (image refParams World.empty { (mkOwned 64 3 7) with numHashes := 0, nbs := 1 }).val⟩
    let short : Block := ⟨39, (image refParams World.empty { (mkOwned 64 3 7) with nbs := 1 }).val⟩
    let w : World := (World.empty.setBlock 0 img0).setBlock 1 short
    (opWrap { refParams with strict := true } w .deser 0 5).2 = .thrw ∧ (opWrap refParams w .deser 0 5).2 = .ok ∧
    (opWrap { refParams with strict := true } w .wrap 1 5).2 = .thrw ∧ (opWrap refParams w .wrap 1 5).2 = .oob := by decide +kernel

/-! ## bloom_setops_bitwise -/

/-- union_with / intersect / invert, on every world (owned or caller-memory target, any source incl. the target
itself or another view of the same memory), whenever the call is not refused and returns: bit `j` of the target for
every `j` below the capacity is OR / AND / NOT of the operands' bits before the call; the returned `get_bits_used()`
is the population count of the capacity bits afterwards and the filter is not dirty; for a writable memory-backed
target that count is written to byte 24 of the block; no other bit state changes.  Capacities are multiples of 64
in every reachable world (`bloom_no_false_negative_partial`), so there are no array bits beyond the capacity. -/
theorem bloom_setops_bitwise (P : Params) (hP : P.Layout) (fx : Fix) (w : World) (op : SetOp) (v u : Nat) (f g' : Filter)
    (hv : w.filters v = some f) (hu : w.filters u = some g') (w' : World) (n : Nat)
    (hres : opSet P fx w op v u = (w', .nat n)) :
    ∃ f', w'.filters v = some f' ∧ f'.capBits = f.capBits ∧
      (∀ j, j < f.capBits → w'.bit P f' j = combineBit op (w.bit P f j) (w.bit P g' j)) ∧
      n = popCount (w'.val f') (f'.off P) f.capBits ∧ f'.nbs = n ∧ f'.dirty = false ∧
      (opBitsUsed P w' v).2 = .nat n ∧
      (∀ m, f.ref = .mem m → f.readOnly = false → getField (w'.blockVal m) (8 * P.nbsOff) 64 = n % 2 ^ 64) ∧
      (∀ key, key ≠ keyOf v f → keyVal w' key = keyVal w key) := by
  obtain ⟨_, hcomp, hn, hw'⟩ := opSet_result P fx w op v u f g' hv hu w' n hres
  have hcc : op = .invert ∨ g'.capBits = f.capBits := hcomp.imp id compatible_cap
  subst hw'
  refine ⟨committed f _ n false, commit_filter _ _ _ _ _ _ _ _, (committed_fields _ _ _ _).1, ?_, ?_, (committed_fields _ _ _ _).2.2.2.1,
    (committed_fields _ _ _ _).2.2.2.2.1, ?_, ?_, fun key hk => keyVal_commit_ne P w v f _ _ _ _ hv key hk⟩
  · intro j hj
    simp only [World.bit]
    rw [commit_bit P hP, setop_bit P w f g' op j hj hcc]
  · rw [hn]
    apply popCount_congr
    intro j _
    rw [commit_bit P hP]
  · simp [opBitsUsed, commit_filter, (committed_fields f _ n false).2.2.2.1, (committed_fields f _ n false).2.2.2.2.1]
  · intro m hr hro
    exact commit_header P w v f m hr hro _ _ _ _

example :
    let w := run refParams Fix.asCoded hfU64 World.empty [.new 0 100 3 7, .upd 0 5, .new 1 128 3 7, .upd 1 6, .upd 1 5]
    (opSet refParams Fix.asCoded w .union 0 1).2 = .nat 6 ∧ (opSet refParams Fix.asCoded w .inter 0 1).2 = .nat 3 ∧
    (opSet refParams Fix.asCoded w .invert 0 0).2 = .nat 125 := by decide +kernel

/-! ## bloom_refusals -/

/-- what has to be refused (the operation throws and nothing changes) -/
structure Refusals (P : Params) (fx : Fix) : Prop where
  /-- constructors: zero hashes, zero bits, more than MAX_FILTER_SIZE_BITS -/
  ctor : ∀ w v nb nh seed, (nh = 0 ∨ nb = 0 ∨ P.maxBits < nb) → opNew P w v nb nh seed = (w, .thrw)
  /-- initialize on caller memory: same argument checks, and a block that is too small -/
  init : ∀ w v m nb nh seed, (nh = 0 ∨ nb = 0 ∨ P.maxBits < nb ∨ w.blockLen m < 8 * (P.preStd + roundUp64 nb / 64)) →
      opInit P w v m nb nh seed = (w, .thrw)
  /-- writes through a read-only view -/
  roUpdate : ∀ w v f h, w.filters v = some f → f.readOnly = true → opUpdate P fx w v (some h) = (w, .thrw)
  roQau : ∀ w v f h, w.filters v = some f → f.readOnly = true → opQau P fx w v (some h) = (w, .thrw)
  roReset : ∀ w v f, w.filters v = some f → f.readOnly = true → opReset P w v = (w, .thrw)
  roSetop : ∀ w op v u f g', w.filters v = some f → w.filters u = some g' → f.readOnly = true → opSet P fx w op v u = (w, .thrw)
  /-- incompatible operands (seed, number of hashes or capacity differ) -/
  incompatible : ∀ w op v u f g', w.filters v = some f → w.filters u = some g' → op ≠ .invert →
      (f.seed ≠ g'.seed ∨ f.numHashes ≠ g'.numHashes ∨ f.capBits ≠ g'.capBits) → opSet P fx w op v u = (w, .thrw)
  /-- an empty image wrapped for writing -/
  wwrapEmpty : ∀ w m v b nb nh seed, w.blocks m = some b → parseImage P b = .emptyImg nb nh seed → opWrap P w .wwrap m v = (w, .thrw)

def bloom_refusals_full (P : Params) (fx : Fix) : Prop := Refusals P fx

/-- PARTIAL / repaired: everything is refused as stated provided set operations check `is_read_only_` like
`update`, `query_and_update` and `reset` do — i.e. all clauses for every `fx` except `roSetop`, which needs the repair. -/
theorem bloom_refusals_partial (P : Params) (fx : Fix) :
    (fx.roSetopsRefused = true → bloom_refusals_full P fx) ∧
    (∀ w v nb nh seed, (nh = 0 ∨ nb = 0 ∨ P.maxBits < nb) → opNew P w v nb nh seed = (w, .thrw)) ∧
    (∀ w v m nb nh seed, (nh = 0 ∨ nb = 0 ∨ P.maxBits < nb ∨ w.blockLen m < 8 * (P.preStd + roundUp64 nb / 64)) →
      opInit P w v m nb nh seed = (w, .thrw)) ∧
    (∀ w v f h, w.filters v = some f → f.readOnly = true → opUpdate P fx w v (some h) = (w, .thrw)) ∧
    (∀ w v f h, w.filters v = some f → f.readOnly = true → opQau P fx w v (some h) = (w, .thrw)) ∧
    (∀ w v f, w.filters v = some f → f.readOnly = true → opReset P w v = (w, .thrw)) ∧
    (∀ w op v u f g', w.filters v = some f → w.filters u = some g' → op ≠ .invert → f.readOnly = false →
      (f.seed ≠ g'.seed ∨ f.numHashes ≠ g'.numHashes ∨ f.capBits ≠ g'.capBits) → opSet P fx w op v u = (w, .thrw)) ∧
    (∀ w m v b nb nh seed, w.blocks m = some b → parseImage P b = .emptyImg nb nh seed → opWrap P w .wwrap m v = (w, .thrw)) := by
  have hctor : ∀ w v nb nh seed, (nh = 0 ∨ nb = 0 ∨ P.maxBits < nb) → opNew P w v nb nh seed = (w, .thrw) := by
    intro w v nb nh seed h
    have : badSize P nb nh = true := by
      simp only [badSize, Bool.or_eq_true, beq_iff_eq, decide_eq_true_eq]
      rcases h with h | h | h
      · exact Or.inl (Or.inl h)
      · exact Or.inl (Or.inr h)
      · exact Or.inr h
    simp [opNew, this]
  have hinit : ∀ w v m nb nh seed, (nh = 0 ∨ nb = 0 ∨ P.maxBits < nb ∨ w.blockLen m < 8 * (P.preStd + roundUp64 nb / 64)) →
      opInit P w v m nb nh seed = (w, .thrw) := by
    intro w v m nb nh seed h
    by_cases hb : badSize P nb nh = true
    · simp [opInit, hb]
    · have hl : w.blockLen m < serializedSize P (roundUp64 nb) := by
        simp only [badSize, Bool.or_eq_true, beq_iff_eq, decide_eq_true_eq] at hb
        rcases h with h | h | h | h
        · exact absurd (Or.inl (Or.inl h)) hb
        · exact absurd (Or.inl (Or.inr h)) hb
        · exact absurd (Or.inr h) hb
        · exact h
      simp [opInit, hb, hl]
  have hupd : ∀ w v f h, w.filters v = some f → f.readOnly = true → opUpdate P fx w v (some h) = (w, .thrw) := by
    intro w v f h hv hro; simp [opUpdate, hv, hro]
  have hqau : ∀ w v f h, w.filters v = some f → f.readOnly = true → opQau P fx w v (some h) = (w, .thrw) := by
    intro w v f h hv hro; simp [opQau, hv, hro]
  have hreset : ∀ w v f, w.filters v = some f → f.readOnly = true → opReset P w v = (w, .thrw) := by
    intro w v f hv hro; simp [opReset, hv, hro]
  have hincomp : ∀ w op v u f g', w.filters v = some f → w.filters u = some g' → op ≠ .invert →
      (f.seed ≠ g'.seed ∨ f.numHashes ≠ g'.numHashes ∨ f.capBits ≠ g'.capBits) → opSet P fx w op v u = (w, .thrw) := by
    intro w op v u f g' hv hu hop hne
    have hc : compatible f g' = false := by
      simp only [compatible, Bool.and_eq_false_iff, beq_eq_false_iff_ne]
      rcases hne with h | h | h
      · exact Or.inl (Or.inl h)
      · exact Or.inl (Or.inr h)
      · exact Or.inr h
    have hop' : (op != SetOp.invert) = true := by simpa using hop
    simp only [opSet, hv, hu, hc, hop']
    by_cases h1 : (fx.roSetopsRefused && f.readOnly) = true <;> simp [h1]
  have hww : ∀ w m v b nb nh seed, w.blocks m = some b → parseImage P b = .emptyImg nb nh seed → opWrap P w .wwrap m v = (w, .thrw) := by
    intro w m v b nb nh seed hm hp; simp [opWrap, hm, hp]
  refine ⟨?_, hctor, hinit, hupd, hqau, hreset, fun w op v u f g' hv hu hop _ hne => hincomp w op v u f g' hv hu hop hne, hww⟩
  intro hfx
  exact ⟨hctor, hinit, hupd, hqau, hreset, fun w op v u f g' hv hu hro => by simp [opSet, hv, hu, hfx, hro], hincomp, hww⟩

/-- the three repairs switched on: the full refusal statement holds -/
theorem bloom_refusals_fixed (P : Params) : bloom_refusals_full P Fix.fixed := (bloom_refusals_partial P Fix.fixed).1 rfl

/-- the CURRENT code violates the full statement: `union_with` (likewise `intersect`, `invert`) through a read-only
wrap is not refused — it writes into the wrapped (const) memory and leaves the stored count stale. -/
theorem bloom_refusals_full_false : ¬ bloom_refusals_full refParams Fix.asCoded := by
  intro h
  have hw : roSetopWitness refParams Fix.asCoded
      (run refParams Fix.asCoded hfU64 World.empty [.blk 0 40 0, .init 0 0 64 1 7, .wrap .wrap 0 1, .new 2 64 1 7, .upd 2 5]) .union 1 2 = true := by
    decide +kernel
  unfold roSetopWitness at hw
  split at hw
  · rename_i f g' hf' hg'
    simp only [Bool.and_eq_true, decide_eq_true_eq] at hw
    have := h.roSetop _ .union 1 2 f g' hf' hg' hw.1
    exact hw.2 (by rw [this])
  · cases hw

example : parseImage refParams (image refParams World.empty (mkOwned 100 3 7)) = .emptyImg 128 3 7 := by decide +kernel

end DS.Bloom

/-
C02 (Jaccard) — in exact mode the Jaccard index is the true set ratio.

`theta_jaccard_similarity::jaccard(A, B)` evaluates a union U of A and B (nominal size the next power of two ≥ the two
retained counts, at least 2^5) and the intersection I of A, B and U, and returns |I| / |U| three times when the
intersection's theta fraction is 1.  This file proves the set part: for exact-mode, non-empty, well-formed A and B,
U retains exactly the hashes of A ∪ B, I exactly those of A ∩ B, both duplicate-free and both with theta = MAX —
so the ratio the driver computes (and the harness compares bit-for-bit with the code) is |A ∩ B| / |A ∪ B|.
-/
import DSProofs.Lemmas.ThetaJaccard
namespace DS.Theta

theorem C02_jaccard_exact_sets (c : Cfg) (sh : Nat) (a b : Compact Unit) (ha : WFop a) (hb : WFop b)
    (hae : a.isEmpty = false) (hbe : b.isEmpty = false) (hat : a.theta = MAX_THETA) (hbt : b.theta = MAX_THETA)
    (has : a.seedHash = sh) (hbs : b.seedHash = sh) (hc0 : c.theta0 = MAX_THETA)
    (hk : a.ents.length + b.ents.length ≤ 2^c.lgNom) :
    ∃ u r, jaccardParts c sh a b = some (u, r) ∧
      u.theta = MAX_THETA ∧ (∀ x, x ∈ keys u.ents ↔ (x ∈ keys a.ents ∨ x ∈ keys b.ents)) ∧ (keys u.ents).Nodup ∧
      (∀ x, x ∈ keys r.ents ↔ (x ∈ keys a.ents ∧ x ∈ keys b.ents)) ∧ (keys r.ents).Nodup ∧
      (r.isEmpty = false → r.theta = MAX_THETA) :=
  jaccard_exact_sets c sh a b ha hb hae hbe hat hbt has hbs hc0 hk

/-- non-vacuity: two exact sketches sharing one of three distinct hashes: U = {10,20,30}, I = {20} -/
def jA : Compact Unit := { theta := MAX_THETA, ents := [(10, ()), (20, ())], isEmpty := false, ordered := true, seedHash := 7 }
def jB : Compact Unit := { theta := MAX_THETA, ents := [(30, ()), (20, ())], isEmpty := false, ordered := false, seedHash := 7 }
def jC : Cfg := { lgNom := 5, lgRf := 3, theta0 := MAX_THETA, lgStart := 6 }
example : (jaccardParts jC 7 jA jB).map (fun p => (keys p.1.ents, keys p.2.ents)) = some ([10, 20, 30], [20]) := by decide

end DS.Theta

/-
C09 (compact tuple sketch images, any summary serde) — serialization round trip.

ONLY property theorems and their non-vacuity examples (helper lemmas: Lemmas/WireTuple.lean).
Model: DSModel/Wire/Tuple.lean, generic in the summary serde `cd` (writer, reader, representable values) which must
satisfy `Laws cd` (its reader inverts its writer, is prefix-safe, never lengthens the input); the three serdes used
with the real sketches — raw 8 bytes for double / int64, 4-byte-length strings (`serde<std::string>`), 1-byte-length
strings (custom serde of the harness) — are shown to satisfy the laws.
-/
import DSProofs.Lemmas.WireTuple
namespace DS.Wire.Tuple
open DS.Wire

variable {σ : Type}

/-- the reader inverts the writer and consumes exactly the image: for all constants with `c.ok`, every lawful serde,
every well-formed image, every tail. -/
theorem decode_encode (c : Consts) (hc : c.ok = true) (cd : Codec σ) (hl : Laws cd) (s : Image σ) (hwf : WF cd s) (exp : Nat)
    (hseed : s.isEmpty = true ∨ s.seedHash = exp) (tail : Bytes) :
    decode c cd exp (encode c cd s ++ tail) = some (s, tail) :=
  decode_encodeWith (COk.of_ok hc) cd hl _ _ (Or.inl rfl) (Or.inl rfl) s hwf exp hseed tail

/-- the image size is `8·preamble_longs + Σ (8 + size_of_item(summary))`. -/
theorem size_eq (c : Consts) (cd : Codec σ) (s : Image σ) : (encode c cd s).length = serializedSize cd s :=
  length_encodeWith c cd _ _ s

/-- re-serialization of what was read gives the same bytes. -/
theorem encode_decode (c : Consts) (hc : c.ok = true) (cd : Codec σ) (hl : Laws cd) (s : Image σ) (hwf : WF cd s) (exp : Nat)
    (hseed : s.isEmpty = true ∨ s.seedHash = exp) (tail : Bytes) :
    (decode c cd exp (encode c cd s ++ tail)).map (fun p => encode c cd p.1) = some (encode c cd s) := by
  rw [decode_encode c hc cd hl s hwf exp hseed tail]; rfl

/-- the serdes of the tied sketch types are lawful. -/
theorem serde_u64_lawful : Laws u64Codec := u64Codec_laws
theorem serde_string_lawful (lenBytes : Nat) : Laws (strCodec lenBytes) := strCodec_laws lenBytes

example : WF u64Codec ⟨false, false, 37836, maxTheta, [(2206043092153046979, 0x4000000000000000), (405753591161026837, 0x3ff0000000000000)]⟩ := by decide
example : WF (strCodec 4) ⟨false, true, 1462, 4611686018427387904, [(5, [0x61, 0x62]), (9, [])]⟩ := by decide

end DS.Wire.Tuple

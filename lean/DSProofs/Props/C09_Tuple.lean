import DSModel.Wire.Tuple
namespace DS.Wire.Tuple
theorem placeholder : True := trivial
end DS.Wire.Tuple

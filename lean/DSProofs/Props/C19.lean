import DSModel.Life.World
namespace DS.Life

theorem placeholder_run_nil (C : Cfg) (w : World) : run C w [] = .ok w := rfl

end DS.Life

/- C19 — value semantics and allocator discipline (DESIGN.md §3 C19): the property theorems.
   Only statements and non-vacuity examples live here; the proofs are in DSProofs/Lemmas/Life*.lean.

   Setting.  `DSModel/Life/Heap.lean` is a heap calculus (blocks of cells; a cell is raw storage, a live object or a
   moved-from object, plus one plain machine word) whose primitives check their PRECONDITIONS (`Err.pre`).
   `DSModel/Life/{Theta,Kll,Fi}.lean` are the special members and mutators of the hand-managed classes written as
   programs over those primitives; `DSModel/Life/World.lean` runs lifecycle histories over several live objects in
   one heap.  `run C World.init ops` = the outcome of a history: `.ok w`, `.error (.pre _)` (a primitive was applied
   outside its precondition: double destroy, construct over a live object, read of a raw or moved-from slot, release
   with a wrong size or with live objects inside, null / dangling dereference …), `.error (.exc _)` (the modelled C++
   throws; the history ends there and nothing more is claimed), `.error (.bad _)` (ill-formed history).

   The theorems quantify over ALL histories, over any number of live objects of the three modelled classes mixed in
   one heap (theta / tuple hash table, KLL sketch, frequent-items reverse purge hash map + sketch), over all
   parameters, item values, coin sequences, hash functions and summary policies.  Two things are NOT claimed:
   (i) what happens after the modelled code throws (`Err.exc`: the C++ `std::logic_error`/`invalid_argument` throws,
   the fuel bound of probe loops, `n_` beyond 2^64) – exception safety is outside the calculus; that the internal
   `logic_error`s are unreachable is not proved (the correspondence runs never observed one);
   (ii) classes without a program model (monitored only by the harness: see vlib/props/c19.py). -/
import DSProofs.Lemmas.LifeSpecAll
import DSGen.Life
namespace DS.Life

/-- the configuration built from the constants generated from the current headers (`hashOf`, `strideOf`, `comb`
    are free: the theorems hold for every hash function, iterator stride and summary policy) -/
def genCfg (hashOf strideOf : Nat → Nat) (comb : Nat → Nat → Nat) : Cfg :=
  { theta := { rszNum := DSGen.life_theta_RESIZE_THRESHOLD_num, rszDen := DSGen.life_theta_RESIZE_THRESHOLD_den,
               rbdNum := DSGen.life_theta_REBUILD_THRESHOLD_num, rbdDen := DSGen.life_theta_REBUILD_THRESHOLD_den,
               strideBits := DSGen.life_theta_STRIDE_HASH_BITS, minLgK := DSGen.life_theta_MIN_LG_K },
    thetaMaxLgK := DSGen.life_theta_MAX_LG_K,
    kll := { defaultM := DSGen.life_kll_DEFAULT_M, minK := DSGen.life_kll_MIN_K, maxK := DSGen.life_kll_MAX_K,
             moveAssignResetsSource := DSGen.life_kll_MOVE_ASSIGN_SHAPE == 2 },
    fi := { loadNum := DSGen.life_fi_LOAD_FACTOR_num, loadDen := DSGen.life_fi_LOAD_FACTOR_den,
            driftLimit := DSGen.life_fi_DRIFT_LIMIT, maxSample := DSGen.life_fi_MAX_SAMPLE_SIZE,
            lgMinMap := DSGen.life_fi_LG_MIN_MAP_SIZE, hashOf := hashOf, strideOf := strideOf },
    comb := comb }

/-- the side conditions on the tunables hold for the values in the current headers (re-checked on every run
    against the regenerated DSGen/Life.lean) -/
theorem life_generated_tunables_ok (hashOf strideRaw : Nat → Nat) (comb : Nat → Nat → Nat) :
    (genCfg hashOf (fun lg => strideRaw lg ||| 1) comb).OK := by
  refine ⟨?_, ?_, fun lg => Fi.or_one_odd _, ?_⟩
  · unfold Theta.Params.OK genCfg
    simp only
    decide
  · unfold Fi.Params.OK genCfg
    simp only
    decide
  · unfold Kll.Params.OK genCfg
    simp only
    decide

/-- every operation is covered: contracts are proved for all three modelled classes -/
theorem allowed_all (ops : List Op) : ∀ op, op ∈ ops → Allowed coverage op := by
  intro op _
  cases op <;> trivial

/-- every history keeps the world invariant (helper for the statements below) -/
theorem world_inv_of_run (C : Cfg) (hC : C.OK) (ops : List Op) (w : World) (hr : run C World.init ops = .ok w) :
    WorldInv (spec C) w := by
  have := run_safe (contracts C hC) ops (WorldInv.init (spec C)) (allowed_all ops)
  rw [hr] at this
  exact this

/-- NO PRECONDITION FAILURE: in every lifecycle history over any number of live objects no primitive is ever applied
    outside its precondition (no double destroy, no construct over a live object, no read of a moved-from / raw slot,
    no release with a wrong size or with live objects inside, no use of a released or foreign block).
    (An `Err.exc` outcome – the modelled C++ throws – ends a history; nothing is claimed after it.) -/
theorem life_no_precondition_failure (C : Cfg) (hC : C.OK) (ops : List Op) (msg : String) :
    run C World.init ops ≠ .error (.pre msg) := by
  have := run_safe (contracts C hC) ops (WorldInv.init (spec C)) (allowed_all ops)
  intro e
  rw [e] at this
  exact this

/-- non-vacuity: the hypothesis `C.OK` holds for the generated configuration (any hash, any `… | 1` stride, any policy), and
    the conclusion applies to a history that mixes the three classes -/
example (msg : String) : run (genCfg (fun v => v * 2654435761) (fun lg => (2 ^ lg * 5 / 8) ||| 1) (fun a b => a + b)) World.init
    [.newTable 0 5 0 (2 ^ 63 - 1), .newFi 3 4 3, .newKll 6 8, .update 0 11 1 [], .update 3 7 2 [], .update 6 5 0 [true], .copy 0 1,
     .move 0 2, .copyAssign 0 1, .moveAssign 1 2, .copy 3 4, .merge 3 4 true [], .copy 6 7, .merge 6 7 false [], .trim 1, .reset 0,
     .serialize 1, .roundTrip 3 5, .query 6 1, .destroy 2, .destroy 0, .destroy 1, .destroy 3, .destroy 4, .destroy 5, .destroy 6,
     .destroy 7] ≠ .error (.pre msg) :=
  life_no_precondition_failure _ (life_generated_tunables_ok _ _ _) _ msg

/-- SLOTS = COUNTERS: after every operation of every history, for every live table object the set of non-raw slots of its
    block is exactly the set of slots with a non-zero key, the block has `2^lg_cur_size` cells, `num_entries_` is the
    number of non-zero keys, and a moved-from object owns nothing. -/
theorem life_slots_inv (C : Cfg) (hC : C.OK) (ops : List Op) (w : World)
    (hr : run C World.init ops = .ok w) (e : Entry) (he : e ∈ w.objs) (t : Theta.Table) (ht : e.obj = .table t) :
    match t.entries with
    | none => True
    | some b =>
      w.heap.count? b = some (2 ^ t.lgCur) ∧
      (∀ i, i < 2 ^ t.lgCur → (stAt w.heap b i ≠ .raw ↔ wordAt w.heap b i ≠ 0)) ∧
      (∀ i, i < 2 ^ t.lgCur → stAt w.heap b i ≠ .moved) ∧
      t.num = cnt (fun i => wordAt w.heap b i != 0) (2 ^ t.lgCur) := by
  have := world_inv_of_run C hC ops w hr
  have hi := (this.inv e he).1
  rw [ht] at hi
  change Theta.TableInv C.theta w.heap t at hi
  unfold Theta.TableInv at hi
  cases hb : t.entries with
  | none => trivial
  | some b =>
    simp only [hb] at hi ⊢
    refine ⟨hi.slots.cells, ?_, ?_, hi.count⟩
    · intro i hlt
      rcases hi.slots.ok i hlt with ⟨hz, hr'⟩ | ⟨hnz, v, hv⟩
      · simp [hz, hr']
      · simp [hnz, hv]
    · intro i hlt
      rcases hi.slots.ok i hlt with ⟨_, hr'⟩ | ⟨_, v, hv⟩
      · simp [hr']
      · simp [hv]

/-- SLOTS = COUNTERS for the frequent-items map: the three blocks have `2^lg_cur_size` cells, slot `i` of `keys_` holds an
    object exactly when `states_[i] > 0`, `values_` / `states_` never hold objects, and `num_active_` is the number of
    active states. -/
theorem life_slots_inv_fi (C : Cfg) (hC : C.OK) (ops : List Op) (w : World)
    (hr : run C World.init ops = .ok w) (e : Entry) (he : e ∈ w.objs) (s : Fi.Sketch) (hs : e.obj = .fi s) :
    (∃ k v st, s.map.keys = some k ∧ s.map.values = some v ∧ s.map.states = some st ∧
      w.heap.count? k = some (2 ^ s.map.lgCur) ∧ w.heap.count? v = some (2 ^ s.map.lgCur) ∧
      w.heap.count? st = some (2 ^ s.map.lgCur) ∧
      (∀ i, i < 2 ^ s.map.lgCur → (stAt w.heap k i ≠ .raw ↔ 0 < wordAt w.heap st i)) ∧
      (∀ i, stAt w.heap v i = .raw ∧ stAt w.heap st i = .raw) ∧
      s.map.numActive = cnt (fun i => decide (0 < wordAt w.heap st i)) (2 ^ s.map.lgCur)) ∨
    (s.map.keys = none ∧ s.map.values = none ∧ s.map.states = none ∧ s.map.numActive = 0) := by
  have := world_inv_of_run C hC ops w hr
  have hi := (this.inv e he).1
  rw [hs] at hi
  change Fi.Inv C.fi w.heap s.map at hi
  rcases Fi.InvG.ptrs hi with ⟨k, v, st, hk, hv, hst, _, T, hc⟩ | ⟨hk, hv, hst, _, _, hc⟩
  · refine Or.inl ⟨k, v, st, hk, hv, hst, T.ck, T.cv, T.cs, ?_, fun i => ⟨T.rawv i, T.raws i⟩, hc⟩
    intro i hlt
    rcases T.slot i hlt (by simp) with ⟨hz, hr'⟩ | ⟨hp, hnr, _⟩
    · simp [hz, hr']
    · simp [hp, hnr]
  · exact Or.inr ⟨hk, hv, hst, hc⟩

/-- SLOTS = COUNTERS for KLL: the items buffer has `items_size_` cells, the non-raw cells are exactly the index range
    `[levels_[0], levels_[num_levels_])` (= `[levels_[0], items_size_)`), `levels_` is non-decreasing with
    `num_levels_ + 1` entries, and for an object that is not moved-from every retained item is live. -/
theorem life_slots_inv_kll (C : Cfg) (hC : C.OK) (ops : List Op) (w : World)
    (hr : run C World.init ops = .ok w) (e : Entry) (he : e ∈ w.objs) (s : Kll.Sketch) (hs : e.obj = .kll s)
    (b : Nat) (hb : s.items = some b) :
    w.heap.count? b = some s.itemsSize ∧
    s.levels.length = s.numLevels + 1 ∧ s.levels.getD s.numLevels 0 = s.itemsSize ∧
    (∀ i, i < s.numLevels → s.levels.getD i 0 ≤ s.levels.getD (i + 1) 0) ∧
    (∀ i, i < s.itemsSize → (stAt w.heap b i ≠ .raw ↔ s.levels.getD 0 0 ≤ i)) ∧
    (e.usable = true → ∀ i, s.levels.getD 0 0 ≤ i → i < s.itemsSize → ∃ v, stAt w.heap b i = .live v) := by
  have := world_inv_of_run C hC ops w hr
  obtain ⟨hi, hu⟩ := this.inv e he
  rw [hs] at hi hu
  change Kll.Inv C.kll w.heap s at hi
  obtain ⟨lv, ia, _, _, _⟩ := hi.items_ok b hb
  refine ⟨ia.cells, lv.len, lv.top, lv.mono, ?_, ?_⟩
  · intro i hlt
    by_cases hle : s.levels.getD 0 0 ≤ i
    · exact ⟨fun _ => hle, fun _ => ia.nonraw i hle hlt⟩
    · exact ⟨fun hnr => absurd (ia.raw i (by omega)) hnr, fun h2 => absurd h2 hle⟩
  · intro hus i h1 h2
    have u : Kll.Usable C.kll w.heap s := hu hus
    obtain ⟨b', hb', hl⟩ := u.items
    rw [hb] at hb'
    cases hb'
    exact hl i h1 h2

/-- OWNERSHIP: live objects own pairwise disjoint blocks, every block of the heap is owned by some live object, and
    every owned block exists.  (Copy: `life_copy_fresh_equal`; move: `life_move_transfers`.) -/
theorem life_ownership (C : Cfg) (hC : C.OK) (ops : List Op) (w : World)
    (hr : run C World.init ops = .ok w) :
    (∀ e1 e2, e1 ∈ w.objs → e2 ∈ w.objs → e1.id ≠ e2.id → ∀ b, b ∈ (spec C).owned e1.obj → b ∉ (spec C).owned e2.obj) ∧
    (∀ b, b ∈ w.heap.ids → ∃ e, e ∈ w.objs ∧ b ∈ (spec C).owned e.obj) ∧
    (∀ e, e ∈ w.objs → ∀ b, b ∈ (spec C).owned e.obj → b ∈ w.heap.ids) ∧
    w.heap.ids.Nodup := by
  have := world_inv_of_run C hC ops w hr
  exact ⟨this.disj, this.owner, fun e he b hb => ((spec C).owned_ids (this.inv e he).1 b hb).1, this.wf.1⟩

/-- COPY yields a fresh block and an equal abstraction: the copy constructor of a usable table allocates a new block
    (id not below the old `next`), gives it the same keys slot by slot with a live entry exactly where the source has
    one, leaves the source and every other block untouched, and both satisfy the invariant afterwards. -/
theorem life_copy_fresh_equal (P : Theta.Params) (n0 : Nat) (o : Theta.Table) (ob : Nat) (hb : o.entries = some ob)
    (h : Heap) (hn : n0 ≤ h.next) (ht : Theta.TableAt P h ob o.lgCur o.num) :
    SafeX (Theta.copyCtor o h) (fun t' h' => ∃ nb, n0 ≤ nb ∧ nb ≠ ob ∧ t' = { o with entries := some nb } ∧
      Theta.TableAt P h' nb o.lgCur o.num ∧ Theta.TableAt P h' ob o.lgCur o.num ∧ h'.ids = nb :: h.ids ∧
      (∀ i, i < 2 ^ o.lgCur → wordAt h' nb i = wordAt h ob i ∧
        ((∃ v, stAt h ob i = .live v ∧ stAt h' nb i = .live v) ∨ (stAt h ob i = .raw ∧ stAt h' nb i = .raw)))) := by
  have := Theta.copyCtor_spec P n0 (foot [] n0) o ob hb (fun x hx => foot_new hx) h.ids h h hn ⟨rfl, ht, rfl⟩
  refine SafeX.mono this ?_
  intro t' h' ⟨⟨nb, a, b, c, d, e, f, _, g⟩, _⟩
  exact ⟨nb, a, b, c, d, e, f, g⟩

/-- MOVE transfers the block and leaves a source whose destructor and assignment are safe: the move constructor is a
    pointer hand-over (the heap is untouched), the new object is usable and owns exactly what the source owned, the
    source owns nothing and satisfies the invariant that the destructor and both assignments require. -/
theorem life_move_transfers (P : Theta.Params) (h : Heap) (t : Theta.Table) (u : Theta.Usable P h t) :
    Theta.Usable P h (Theta.moveCtor t).1 ∧ Theta.Inv P h (Theta.moveCtor t).2 ∧
    Theta.owned (Theta.moveCtor t).1 = Theta.owned t ∧ Theta.owned (Theta.moveCtor t).2 = [] :=
  Theta.moveCtor_spec' P h t u

/-- DESTRUCTORS RETURN EVERYTHING: when a history has destroyed all its objects the heap is empty. -/
theorem life_dtor_returns_all (C : Cfg) (hC : C.OK) (ops : List Op) (w : World)
    (hr : run C World.init ops = .ok w) (hnone : w.objs = []) : w.heap.blocks = [] := by
  have := world_inv_of_run C hC ops w hr
  have hids : w.heap.ids = [] := by
    cases hi : w.heap.ids with
    | nil => rfl
    | cons b bs =>
      obtain ⟨e, he, _⟩ := this.owner b (by simp [hi])
      rw [hnone] at he
      cases he
  unfold Heap.ids at hids
  exact List.map_eq_nil_iff.mp hids

/-- non-vacuity of the hypothesis `run … = .ok w` (and of `w.objs = []`): a history over the three classes – copies,
    moves, both assignments incl. self-assignment, merges by reference and by move, round trip – runs to a normal end
    in which every object was destroyed, and the heap is indeed empty (evaluated by the kernel) -/
def exampleCfg : Cfg := genCfg (fun v => v * 2654435761) (fun lg => (2 ^ lg * 5 / 8) ||| 1) (fun a b => a + b)

def exampleHistory : List Op :=
  [.newTable 0 5 0 (2 ^ 63 - 1), .newFi 3 4 3, .newKll 6 8, .update 0 11 1 [], .update 0 12 1 [], .update 3 7 2 [], .update 3 9 1 [],
   .update 6 5 0 [true], .update 6 2 0 [], .copy 0 1, .move 0 2, .copyAssign 0 1, .moveAssign 1 2, .copy 3 4, .merge 3 4 true [],
   .copy 6 7, .merge 6 7 false [], .trim 1, .reset 0, .serialize 1, .roundTrip 3 5, .query 3 7, .moveAssign 6 6, .copyAssign 7 7,
   .destroy 2, .destroy 0, .destroy 1, .destroy 3, .destroy 4, .destroy 5, .destroy 6, .destroy 7]

example : (match run exampleCfg World.init exampleHistory with
    | .ok w => w.objs.length == 0 && w.heap.blocks.length == 0
    | .error _ => false) = true := by
  decide +kernel

end DS.Life

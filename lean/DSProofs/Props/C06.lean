/-
C06 — Distinct-count estimates and their confidence bounds (decided part).

ONLY property theorems and their non-vacuity examples live here (helper lemmas: Lemmas/Bounds*.lean; obligations over
the regenerated tables: Gen/BoundsBits.lean, Gen/BoundsTables.lean).

Models: DSModel/Bounds/{Binomial,HllEst,CpcEst}.lean, written once over the ops-only class `BNum`; `none` = the C++ throws.
  * the `Float` instance is compared bit for bit with binomial_bounds.hpp / the HLL / CPC headers by `./check C06`;
  * the theorems below are about the SAME definitions instantiated by `fieldNum F` over an ARBITRARY linearly ordered
    field `K`, with `sqrt / log / floor / ceil / pow` supplied as functions `F` that satisfy `F.OK` (real-analysis facts:
    √x ≥ 0, √x·√x = x for x ≥ 0, log strictly increasing with log 1 = 0, floor/ceil monotone, x ≤ ceil x).  Every
    example instantiates K := ℝ with the real functions (`realFns_ok`).  Floating-point rounding is NOT modelled.
  * `binomT / hllT / cpcT` are the tables regenerated from the current headers (DSGen); what the proofs use of them are
    the kernel-decided facts of Gen/BoundsTables.lean.

NOT decided here and NOT claimed (DESIGN.md §5): negligible bias, spread ≤ published RSE, interval coverage ≥ nominal.
-/
import DSProofs.Lemmas.BoundsExamples
import DSProofs.Lemmas.BoundsReal
import DSProofs.Lemmas.BoundsHip
import DSProofs.Gen.BoundsBits
namespace DS.Bounds
set_option linter.unusedSectionVars false
set_option linter.unusedVariables false

variable {K : Type} [Field K] [LinearOrder K] [IsStrictOrderedRing K] (F : MathFns K)

/-! ## binomial_bounds.hpp (shared by Theta and Tuple) -/

/-- For ALL tables, sample counts n, sampling probabilities 0 < θ ≤ 1 and std-dev arguments: whenever the functions
    return, `n ≤ lb ≤ n/θ ≤ ub`.  True whatever the inner approximation computes, because of the `std::min/std::max`
    clamps in get_lower_bound / get_upper_bound (removing a clamp breaks this theorem's model, hence the tie). -/
theorem binomial_bounds_order (T : BinomTables) (n k : Nat) (θ lb ub : K) (h0 : 0 < θ) (h1 : θ ≤ 1)
    (hl : @getLowerBound K (fieldNum F) T n θ k = some lb) (hu : @getUpperBound K (fieldNum F) T n θ k = some ub) :
    (n : K) ≤ lb ∧ lb ≤ (n : K) / θ ∧ (n : K) / θ ≤ ub :=
  ⟨(getLowerBound_order F T n k θ lb h0 h1 hl).1, (getLowerBound_order F T n k θ lb h0 h1 hl).2,
   getUpperBound_order F T n k θ ub hu⟩

example : ∃ lb ub : ℝ, @getLowerBound ℝ (fieldNum realFns) binomT 200 (1 / 2) 2 = some lb ∧
    @getUpperBound ℝ (fieldNum realFns) binomT 200 (1 / 2) 2 = some ub ∧ (200 : ℝ) ≤ lb ∧ lb ≤ 200 / (1 / 2) ∧ 200 / (1 / 2) ≤ ub := by
  obtain ⟨lb, ub, hl, hu⟩ := gauss_defined realFns binomT 200 (by norm_num) (1 / 2 : ℝ) (by norm_num) (by norm_num) 2 (by norm_num) (by norm_num)
  have := binomial_bounds_order realFns binomT 200 2 (1 / 2 : ℝ) lb ub (by norm_num) (by norm_num) hl hu
  exact ⟨lb, ub, hl, hu, by simpa using this⟩

/-- The interval widens monotonically with the number of standard deviations κ ∈ {1,2} → κ+1, in EVERY branch of
    compute_approx_binomial_{lower,upper}_bound, for the tables of the current header:
    θ = 1 and θ > 1−10⁻⁵ (constant), n = 0 / n = 1 (log formulas: log strictly increasing, delta table decreasing),
    n > 120 (Gaussian with continuity correction: lb = ((√(b²+4n̂) − b)/2)², ub = ((√(b²+4n̂) + b)/2)²),
    θ < n/360 (Gaussian with the equivalence tables: rows increasing in the std-dev index),
    otherwise the exact tails (the partial-sum loops stop later for a smaller δ). -/
theorem binomial_bounds_mono_kappa (hF : F.OK) (n k : Nat) (θ : K) (h0 : 0 < θ) (h1 : θ ≤ 1) (hk1 : 1 ≤ k) (hk3 : k < 3)
    (lb ub lb' ub' : K)
    (hl : @getLowerBound K (fieldNum F) binomT n θ k = some lb) (hu : @getUpperBound K (fieldNum F) binomT n θ k = some ub)
    (hl' : @getLowerBound K (fieldNum F) binomT n θ (k + 1) = some lb') (hu' : @getUpperBound K (fieldNum F) binomT n θ (k + 1) = some ub') :
    lb' ≤ lb ∧ ub ≤ ub' := by
  unfold getLowerBound at hl hl'
  unfold getUpperBound at hu hu'
  have a1 : @argsOk K (fieldNum F) θ k = true := (argsOk_iff F θ k).mpr ⟨⟨le_of_lt h0, h1⟩, hk1, by omega⟩
  have a2 : @argsOk K (fieldNum F) θ (k + 1) = true := (argsOk_iff F θ (k + 1)).mpr ⟨⟨le_of_lt h0, h1⟩, by omega, by omega⟩
  simp only [a1, a2, if_true, Option.map_eq_some_iff] at hl hl' hu hu'
  obtain ⟨a, ha, rfl⟩ := hl
  obtain ⟨a', ha', rfl⟩ := hl'
  obtain ⟨b, hb, rfl⟩ := hu
  obtain ⟨b', hb', rfl⟩ := hu'
  have g1 := approxLb_antitone F hF binomT binomT_ok n θ h0 h1 k hk1 hk3 a a' ha ha'
  have g2 := approxUb_monotone F hF binomT binomT_ok n θ h0 h1 k hk1 hk3 b b' hb hb'
  simp only [stdMin_eq, stdMax_eq]
  exact ⟨min_le_min (le_refl _) (max_le_max (le_refl _) g1), max_le_max (le_refl _) g2⟩

example : ∃ lb ub lb' ub' : ℝ,
    @getLowerBound ℝ (fieldNum realFns) binomT 200 (1 / 2) 1 = some lb ∧ @getUpperBound ℝ (fieldNum realFns) binomT 200 (1 / 2) 1 = some ub ∧
    @getLowerBound ℝ (fieldNum realFns) binomT 200 (1 / 2) 2 = some lb' ∧ @getUpperBound ℝ (fieldNum realFns) binomT 200 (1 / 2) 2 = some ub' ∧
    lb' ≤ lb ∧ ub ≤ ub' := by
  obtain ⟨lb, ub, hl, hu⟩ := gauss_defined realFns binomT 200 (by norm_num) (1 / 2 : ℝ) (by norm_num) (by norm_num) 1 (by norm_num) (by norm_num)
  obtain ⟨lb', ub', hl', hu'⟩ := gauss_defined realFns binomT 200 (by norm_num) (1 / 2 : ℝ) (by norm_num) (by norm_num) 2 (by norm_num) (by norm_num)
  exact ⟨lb, ub, lb', ub', hl, hu, hl', hu',
    binomial_bounds_mono_kappa realFns realFns_ok 200 1 (1 / 2 : ℝ) (by norm_num) (by norm_num) (by norm_num) (by norm_num) lb ub lb' ub' hl hu hl' hu'⟩

/-- Whether the bound functions throw does not depend on the number of standard deviations (so the previous theorem
    compares two values whenever one of them exists). -/
theorem binomial_bounds_throw_indep_kappa (T : BinomTables) (n k k' : Nat) (θ : K) (hk : 1 ≤ k ∧ k ≤ 3) (hk' : 1 ≤ k' ∧ k' ≤ 3) :
    (@getLowerBound K (fieldNum F) T n θ k).isSome = (@getLowerBound K (fieldNum F) T n θ k').isSome ∧
    (@getUpperBound K (fieldNum F) T n θ k).isSome = (@getUpperBound K (fieldNum F) T n θ k').isSome := by
  unfold getLowerBound getUpperBound
  by_cases hθ : 0 ≤ θ ∧ θ ≤ 1
  · have a1 : @argsOk K (fieldNum F) θ k = true := (argsOk_iff F θ k).mpr ⟨hθ, hk⟩
    have a2 : @argsOk K (fieldNum F) θ k' = true := (argsOk_iff F θ k').mpr ⟨hθ, hk'⟩
    simp only [a1, a2, if_true, Option.isSome_map]
    exact ⟨approxLb_isSome F T n θ k k', approxUb_isSome F T n θ k k'⟩
  · have a1 : ¬ @argsOk K (fieldNum F) θ k = true := fun h => hθ ((argsOk_iff F θ k).mp h).1
    have a2 : ¬ @argsOk K (fieldNum F) θ k' = true := fun h => hθ ((argsOk_iff F θ k').mp h).1
    simp only [a1, a2, Bool.false_eq_true, if_false, and_self]

example : (@getLowerBound ℝ (fieldNum realFns) binomT 5 (1 / 4) 1).isSome = (@getLowerBound ℝ (fieldNum realFns) binomT 5 (1 / 4) 3).isSome :=
  (binomial_bounds_throw_indep_kappa realFns binomT 5 1 3 (1 / 4 : ℝ) (by norm_num) (by norm_num)).1

/-! ## Theta / Tuple wrappers -/

/-- theta = MAX_THETA (or an empty sketch) ⇒ lower bound = estimate = upper bound = number of retained entries,
    for every std-dev argument (Theta sketches, compact sketches and set-operation results share this code). -/
theorem theta_exact_mode (T : BinomTables) (maxTheta : Nat) (hM : 0 < maxTheta) (s : ThetaState) (k : Nat)
    (h : s.theta64 = maxTheta ∨ (s.empty = true ∧ s.retained = 0 ∧ 0 < s.theta64)) :
    @thetaLowerBound K (fieldNum F) T maxTheta s k = some (s.retained : K) ∧
    @thetaUpperBound K (fieldNum F) T maxTheta s k = some (s.retained : K) ∧
    @thetaEstimate K (fieldNum F) maxTheta s = (s.retained : K) := by
  have hne : @estimationMode maxTheta s = false := by
    unfold estimationMode
    rcases h with h | ⟨h, _, _⟩
    · simp [h]
    · simp [h]
  unfold thetaLowerBound thetaUpperBound thetaEstimate thetaFrac
  simp only [hne, Bool.false_eq_true, if_false, nat_eq, true_and]
  rcases h with h | ⟨_, h0, hpos⟩
  · rw [h]
    have : (maxTheta : K) ≠ 0 := by exact_mod_cast (Nat.pos_iff_ne_zero.mp hM)
    rw [div_self this, div_one]
  · rw [h0]; simp

example : @thetaLowerBound ℝ (fieldNum realFns) binomT maxTheta ⟨maxTheta, 7, false⟩ 2 = some 7 ∧
    @thetaUpperBound ℝ (fieldNum realFns) binomT maxTheta ⟨maxTheta, 7, false⟩ 2 = some 7 ∧
    @thetaEstimate ℝ (fieldNum realFns) maxTheta ⟨maxTheta, 7, false⟩ = 7 := by
  simpa using theta_exact_mode realFns binomT maxTheta (by decide) ⟨maxTheta, 7, false⟩ 2 (Or.inl rfl)

/-- same for Tuple sketches (bounds for a subset of at most the retained entries) -/
theorem tuple_exact_mode (T : BinomTables) (maxTheta : Nat) (s : ThetaState) (k subset : Nat)
    (h : s.theta64 = maxTheta ∨ s.empty = true) :
    @tupleLowerBound K (fieldNum F) T maxTheta s k subset = some ((min subset s.retained : Nat) : K) ∧
    @tupleUpperBound K (fieldNum F) T maxTheta s k subset = some ((min subset s.retained : Nat) : K) := by
  have hne : @estimationMode maxTheta s = false := by
    unfold estimationMode
    rcases h with h | h <;> simp [h]
  have hm : (if s.retained < subset then s.retained else subset) = min subset s.retained := by
    split <;> omega
  unfold tupleLowerBound tupleUpperBound
  simp only [hne, Bool.false_eq_true, if_false, nat_eq, hm, and_self]

example : @tupleLowerBound ℝ (fieldNum realFns) binomT maxTheta ⟨maxTheta, 7, false⟩ 2 5 = some ((5 : Nat) : ℝ) :=
  (tuple_exact_mode realFns binomT maxTheta ⟨maxTheta, 7, false⟩ 2 5 (Or.inl rfl)).1

/-- in estimation mode the wrappers are binomial_bounds at (retained, theta64/MAX): ordered around the estimate -/
theorem theta_bounds_order (T : BinomTables) (maxTheta : Nat) (s : ThetaState) (k : Nat) (lb ub : K)
    (hpos : 0 < s.theta64) (hle : s.theta64 ≤ maxTheta)
    (hl : @thetaLowerBound K (fieldNum F) T maxTheta s k = some lb) (hu : @thetaUpperBound K (fieldNum F) T maxTheta s k = some ub)
    (hempty : s.empty = true → s.retained = 0) :
    lb ≤ @thetaEstimate K (fieldNum F) maxTheta s ∧ @thetaEstimate K (fieldNum F) maxTheta s ≤ ub := by
  have hM : 0 < maxTheta := lt_of_lt_of_le hpos hle
  by_cases hm : @estimationMode maxTheta s = true
  · unfold thetaLowerBound at hl
    unfold thetaUpperBound at hu
    simp only [hm, if_true] at hl hu
    have hMK : (0 : K) < (maxTheta : K) := by exact_mod_cast hM
    have t0 : (0 : K) < @thetaFrac K (fieldNum F) maxTheta s := by
      unfold thetaFrac; simp only [nat_eq]; exact div_pos (by exact_mod_cast hpos) hMK
    have t1 : @thetaFrac K (fieldNum F) maxTheta s ≤ 1 := by
      unfold thetaFrac; simp only [nat_eq]; rw [div_le_one hMK]; exact_mod_cast hle
    obtain ⟨_, g1, g2⟩ := binomial_bounds_order F T s.retained k _ lb ub t0 t1 hl hu
    unfold thetaEstimate
    exact ⟨g1, g2⟩
  · have hm' : @estimationMode maxTheta s = false := by simpa using hm
    have hcase : s.theta64 = maxTheta ∨ (s.empty = true ∧ s.retained = 0 ∧ 0 < s.theta64) := by
      unfold estimationMode at hm'
      simp only [Bool.and_eq_false_imp, decide_eq_true_eq, Bool.not_eq_eq_eq_not, Bool.not_false] at hm'
      by_cases h : s.theta64 < maxTheta
      · exact Or.inr ⟨hm' h, hempty (hm' h), hpos⟩
      · exact Or.inl (by omega)
    obtain ⟨e1, e2, e3⟩ := theta_exact_mode F T maxTheta hM s k hcase
    rw [e1] at hl; rw [e2] at hu
    simp only [Option.some.injEq] at hl hu
    rw [e3, ← hl, ← hu]
    exact ⟨le_refl _, le_refl _⟩

/-! ## HLL -/

/-- HLL-mode sketch state: lb ≤ estimate ≤ ub for every lgK 4..21, std-dev 1..3, HIP or composite estimator, GIVEN the
    state invariant `number of non-zero registers ≤ estimate` (and estimate ≥ 0).  Uses the generated rel-err tables
    (lower-bound entries ≥ 0, upper-bound entries in (−1, 0]) and, above lgK 12, (3·RSE)² < 2¹³.
    PARTIAL: the invariant is a hypothesis here.  It holds for the HIP estimator because every register change adds
    k/(kxq0+kxq1) ≥ 1 (`hll_hip_ge_nonzero_registers` below, on an abstract register model); for the composite estimator it is
    only observed by the oracle of `./check C06` on real sketches. -/
theorem hll_bounds_order_partial (hF : F.OK) (s : HllReg K) (sd : Nat) (e lb ub : K)
    (he : @hllEstimate K (fieldNum F) hllT s = some e) (h0 : 0 ≤ e) (hnz : ((numNonZeros s : Nat) : K) ≤ e)
    (hl : @hllLowerBound K (fieldNum F) hllT s sd = some lb) (hu : @hllUpperBound K (fieldNum F) hllT s sd = some ub) :
    lb ≤ e ∧ e ≤ ub :=
  hll_order F hF s sd e lb ub he h0 hnz hl hu

example : ∃ lb ub : ℝ,
    @hllLowerBound ℝ (fieldNum realFns) hllT ⟨10, 0, 1000, 1012, 0, 100, false⟩ 2 = some lb ∧
    @hllUpperBound ℝ (fieldNum realFns) hllT ⟨10, 0, 1000, 1012, 0, 100, false⟩ 2 = some ub ∧ lb ≤ 100 ∧ 100 ≤ ub := by
  obtain ⟨he, lb, ub, hl, hu⟩ := hll_hip_defined realFns (⟨10, 0, 1000, 1012, 0, 100, false⟩ : HllReg ℝ) rfl (by norm_num) (by norm_num) 2
    (by norm_num) (by norm_num)
  refine ⟨lb, ub, hl, hu, hll_bounds_order_partial realFns realFns_ok _ 2 100 lb ub he (by norm_num) ?_ hl hu⟩
  simp [numNonZeros]; norm_num

/-- The invariant assumed by `hll_bounds_order_partial`, for the HIP estimator: on an ABSTRACT register model of
    hipAndKxQIncrementalUpdate (k registers, a register change adds k/Σ2^-value to the accumulator before the change) the
    number of non-zero registers never exceeds the accumulator, for every k and every update sequence.  (This small model
    is not part of the differential tie of this check -- the HLL update path is C03's -- it documents why the hypothesis is
    the right one; the same argument gives `coupons ≤ HIP` for CPC, where each new coupon adds k/kxp ≥ 1.) -/
theorem hll_hip_ge_nonzero_registers (k : Nat) (ups : List (Nat × Nat)) :
    ((nonZeroCount (hipRun (K := K) (List.replicate k 0, 0) ups).1 : Nat) : K) ≤ (hipRun (K := K) (List.replicate k 0, 0) ups).2 :=
  hip_ge_nonzero_registers k ups

example : (hipRun (K := ℚ) (List.replicate 4 0, 0) [(0, 3), (1, 1), (0, 5), (7, 2)]).1 = [5, 1, 0, 0] := by
  simp [hipRun, hipStep, List.replicate]

/-- HLL-mode: lb antitone and ub monotone in the number of standard deviations, for EVERY register state with a
    non-negative estimate (no invariant needed). -/
theorem hll_bounds_mono_kappa (hF : F.OK) (s : HllReg K) (sd : Nat) (hsd : sd < 3) (e lb ub lb' ub' : K)
    (he : @hllEstimate K (fieldNum F) hllT s = some e) (h0 : 0 ≤ e)
    (hl : @hllLowerBound K (fieldNum F) hllT s sd = some lb) (hu : @hllUpperBound K (fieldNum F) hllT s sd = some ub)
    (hl' : @hllLowerBound K (fieldNum F) hllT s (sd + 1) = some lb') (hu' : @hllUpperBound K (fieldNum F) hllT s (sd + 1) = some ub') :
    lb' ≤ lb ∧ ub ≤ ub' :=
  hll_mono F hF s sd hsd e lb ub lb' ub' he h0 hl hu hl' hu'

example : ∃ lb ub lb' ub' : ℝ,
    @hllLowerBound ℝ (fieldNum realFns) hllT ⟨10, 0, 1000, 1012, 0, 100, false⟩ 1 = some lb ∧
    @hllUpperBound ℝ (fieldNum realFns) hllT ⟨10, 0, 1000, 1012, 0, 100, false⟩ 1 = some ub ∧
    @hllLowerBound ℝ (fieldNum realFns) hllT ⟨10, 0, 1000, 1012, 0, 100, false⟩ 2 = some lb' ∧
    @hllUpperBound ℝ (fieldNum realFns) hllT ⟨10, 0, 1000, 1012, 0, 100, false⟩ 2 = some ub' ∧ lb' ≤ lb ∧ ub ≤ ub' := by
  obtain ⟨he, lb, ub, hl, hu⟩ := hll_hip_defined realFns (⟨10, 0, 1000, 1012, 0, 100, false⟩ : HllReg ℝ) rfl (by norm_num) (by norm_num) 1
    (by norm_num) (by norm_num)
  obtain ⟨_, lb', ub', hl', hu'⟩ := hll_hip_defined realFns (⟨10, 0, 1000, 1012, 0, 100, false⟩ : HllReg ℝ) rfl (by norm_num) (by norm_num) 2
    (by norm_num) (by norm_num)
  exact ⟨lb, ub, lb', ub', hl, hu, hl', hu', hll_bounds_mono_kappa realFns realFns_ok _ 1 (by norm_num) 100 lb ub lb' ub' he (by norm_num) hl hu hl' hu'⟩

/-- LIST / SET mode (documented small-range behaviour): coupon count ≤ lb ≤ estimate ≤ ub, unconditionally -- the
    interpolated value is clamped from below by the coupon count in all three functions and 0 < κ·COUPON_RSE < 1. -/
theorem hll_coupon_bounds_order (count sd : Nat) (e lb ub : K)
    (he : @couponEstimate K (fieldNum F) hllT count = some e)
    (hl : @couponLowerBound K (fieldNum F) hllT count sd = some lb) (hu : @couponUpperBound K (fieldNum F) hllT count sd = some ub) :
    (count : K) ≤ lb ∧ lb ≤ e ∧ e ≤ ub :=
  coupon_order F count sd e lb ub he hl hu

/-- LIST / SET mode: lb antitone, ub monotone in the number of standard deviations -/
theorem hll_coupon_bounds_mono_kappa (count sd : Nat) (hsd : sd < 3) (lb ub lb' ub' : K)
    (hl : @couponLowerBound K (fieldNum F) hllT count sd = some lb) (hu : @couponUpperBound K (fieldNum F) hllT count sd = some ub)
    (hl' : @couponLowerBound K (fieldNum F) hllT count (sd + 1) = some lb')
    (hu' : @couponUpperBound K (fieldNum F) hllT count (sd + 1) = some ub') :
    lb' ≤ lb ∧ ub ≤ ub' :=
  coupon_mono F count sd hsd lb ub lb' ub' hl hu hl' hu'

/-! ## CPC -/

/-- compute_icon_estimate returns at least the coupon count for EVERY lg_k and coupon count, and exactly the count for
    0 or 1 coupons (documented small-range behaviour): polynomial branch by the clamp `result >= C ? result : C`,
    exponential branch (C > 5.6k / 5.7k) from `r ≤ 0.7940236163830469·2^r` for r ≥ 5 (`F.ExpOK`, true of the real power
    function: `realFns_expOK`).  With `cpc_bounds_order_partial` this discharges its hypothesis for merged sketches. -/
theorem cpc_icon_ge_coupons (hexp : F.ExpOK) (T : CpcTables) (lgK c : Nat) (e : K) (h : @iconEstimate K (fieldNum F) T lgK c = some e) :
    (c : K) ≤ e ∧ (c < 2 → e = c) :=
  iconEstimate_ge_all F hexp T lgK c e h

example : realFns.ExpOK := realFns_expOK
example : @iconEstimate ℝ (fieldNum realFns) cpcT 10 1 = some 1 := by
  unfold iconEstimate; simp [cpcT, DSGen.Bounds.iconMinLgK, DSGen.Bounds.iconMaxLgK, litK, c1]

/-- CPC (HIP estimator when not merged, ICON after a merge): lb ≤ estimate ≤ ub for every lg_k ≥ 4 and κ ∈ 1..3, GIVEN the
    state invariant `coupons ≤ estimate`, estimate ≥ 0, and estimate = 0 for the empty sketch.  Uses the generated
    confidence tables: κ·x_κ/√k ∈ [0,1).
    PARTIAL: the invariant is a hypothesis (ICON: discharged by `cpc_icon_ge_coupons`; HIP: each new coupon adds k/kxp ≥ 1,
    same argument as `hll_hip_ge_nonzero_registers`, not modelled here). -/
theorem cpc_bounds_order_partial (hF : F.OK) (s : CpcState K) (k : Nat) (e lb ub : K)
    (he : @cpcEstimate K (fieldNum F) cpcT s = some e) (h0 : 0 ≤ e) (hc : (s.numCoupons : K) ≤ e) (hz : s.numCoupons = 0 → e = 0)
    (hl : @cpcLowerBound K (fieldNum F) cpcT s k = some lb) (hu : @cpcUpperBound K (fieldNum F) cpcT s k = some ub) :
    lb ≤ e ∧ e ≤ ub := by
  obtain ⟨⟨k1, k3⟩, sl⟩ := cpc_lb_shape F s k e lb he hl
  obtain ⟨_, su⟩ := cpc_ub_shape F s k e ub he hu
  constructor
  · rcases sl with ⟨c0', rfl⟩ | ⟨_, h4, rfl⟩
    · exact h0
    · exact lbClamp_le e _ _ h0 hc (cpcEps_facts F hF (lbPair s.merged) s.lgK h4 k k1 k3).1
  · rcases su with ⟨c0', rfl⟩ | ⟨_, h4, rfl⟩
    · rw [hz c0']
    · obtain ⟨g0, g1, _⟩ := cpcEps_facts F hF (ubPair s.merged) s.lgK h4 k k1 k3
      exact ubForm_ge F hF e _ h0 g0 g1

example : ∃ lb ub : ℝ, @cpcLowerBound ℝ (fieldNum realFns) cpcT ⟨10, 5, 6, false⟩ 2 = some lb ∧
    @cpcUpperBound ℝ (fieldNum realFns) cpcT ⟨10, 5, 6, false⟩ 2 = some ub ∧ lb ≤ 6 ∧ 6 ≤ ub := by
  obtain ⟨he, lb, ub, hl, hu⟩ := cpc_hip_defined realFns (⟨10, 5, 6, false⟩ : CpcState ℝ) rfl (by norm_num) (by norm_num) 2 (by norm_num) (by norm_num)
  exact ⟨lb, ub, hl, hu, cpc_bounds_order_partial realFns realFns_ok _ 2 6 lb ub he (by norm_num) (by norm_num) (by norm_num) hl hu⟩

/-- CPC: lb antitone and ub monotone in κ for every state with a non-negative estimate (κ·x_κ increasing in κ in all
    four generated tables and for the asymptotic constants). -/
theorem cpc_bounds_mono_kappa (hF : F.OK) (s : CpcState K) (k : Nat) (hk : k < 3) (e lb ub lb' ub' : K)
    (he : @cpcEstimate K (fieldNum F) cpcT s = some e) (h0 : 0 ≤ e)
    (hl : @cpcLowerBound K (fieldNum F) cpcT s k = some lb) (hu : @cpcUpperBound K (fieldNum F) cpcT s k = some ub)
    (hl' : @cpcLowerBound K (fieldNum F) cpcT s (k + 1) = some lb') (hu' : @cpcUpperBound K (fieldNum F) cpcT s (k + 1) = some ub') :
    lb' ≤ lb ∧ ub ≤ ub' := by
  obtain ⟨⟨k1, k3⟩, sl⟩ := cpc_lb_shape F s k e lb he hl
  obtain ⟨_, su⟩ := cpc_ub_shape F s k e ub he hu
  obtain ⟨_, sl'⟩ := cpc_lb_shape F s (k + 1) e lb' he hl'
  obtain ⟨_, su'⟩ := cpc_ub_shape F s (k + 1) e ub' he hu'
  constructor
  · rcases sl with ⟨c0', rfl⟩ | ⟨cn, h4, rfl⟩
    · rcases sl' with ⟨_, rfl⟩ | ⟨cn', _⟩
      · exact le_refl _
      · exact absurd c0' cn'
    · rcases sl' with ⟨c0', _⟩ | ⟨_, _, rfl⟩
      · exact absurd c0' cn
      · obtain ⟨g0, _, g2⟩ := cpcEps_facts F hF (lbPair s.merged) s.lgK h4 k k1 k3
        exact lbClamp_anti e _ _ _ h0 g0 (g2 hk)
  · rcases su with ⟨c0', rfl⟩ | ⟨cn, h4, rfl⟩
    · rcases su' with ⟨_, rfl⟩ | ⟨cn', _⟩
      · exact le_refl _
      · exact absurd c0' cn'
    · rcases su' with ⟨c0', _⟩ | ⟨_, _, rfl⟩
      · exact absurd c0' cn
      · obtain ⟨_, _, g2⟩ := cpcEps_facts F hF (ubPair s.merged) s.lgK h4 k k1 k3
        obtain ⟨_, g1', _⟩ := cpcEps_facts F hF (ubPair s.merged) s.lgK h4 (k + 1) (by omega) (by omega)
        exact ubForm_mono F hF e _ _ h0 (g2 hk) g1'

example : ∃ lb ub lb' ub' : ℝ, @cpcLowerBound ℝ (fieldNum realFns) cpcT ⟨10, 5, 6, false⟩ 1 = some lb ∧
    @cpcUpperBound ℝ (fieldNum realFns) cpcT ⟨10, 5, 6, false⟩ 1 = some ub ∧
    @cpcLowerBound ℝ (fieldNum realFns) cpcT ⟨10, 5, 6, false⟩ 2 = some lb' ∧
    @cpcUpperBound ℝ (fieldNum realFns) cpcT ⟨10, 5, 6, false⟩ 2 = some ub' ∧ lb' ≤ lb ∧ ub ≤ ub' := by
  obtain ⟨he, lb, ub, hl, hu⟩ := cpc_hip_defined realFns (⟨10, 5, 6, false⟩ : CpcState ℝ) rfl (by norm_num) (by norm_num) 1 (by norm_num) (by norm_num)
  obtain ⟨_, lb', ub', hl', hu'⟩ := cpc_hip_defined realFns (⟨10, 5, 6, false⟩ : CpcState ℝ) rfl (by norm_num) (by norm_num) 2 (by norm_num) (by norm_num)
  exact ⟨lb, ub, lb', ub', hl, hu, hl', hu', cpc_bounds_mono_kappa realFns realFns_ok _ 1 (by norm_num) 6 lb ub lb' ub' he (by norm_num) hl hu hl' hu'⟩

end DS.Bounds

/-
C11 (EBPPS part) — truncated images are rejected; the item count derived from `c` cannot make the specification
reader materialise more than the input holds.

ONLY property theorems + non-vacuity examples.  Model: DSModel/Wire/Ebpps.lean; every constant set, every lawful serde,
every well-formed image, EVERY prefix length; no padding disjunct.
-/
import DSProofs.Props.C09_Ebpps
namespace DS.Wire.Ebpps
open DS.Wire

variable {ι : Type}

theorem decPartial_PS (sd : Serde ι) (hsd : sd.Lawful) (p : Bool) : PS (decPartial sd p) := by
  unfold decPartial
  split
  · exact PS_bind _ _ hsd.ps (fun _ => PS_pure _)
  · exact PS_pure _

theorem decodeBody_PS (c : EbConsts) (sd : Serde ι) (hsd : sd.Lawful) (flags : Nat) : PS (decodeBody c sd flags) := by
  unfold decodeBody
  refine PS_bind _ _ (PS_leNat 8) (fun _ => PS_bind _ _ (PS_leNat 8) (fun _ => PS_bind _ _ (PS_leNat 8) (fun _ =>
    PS_bind _ _ (PS_leNat 8) (fun _ => PS_bind _ _ (PS_leNat 8) (fun cc => ?_)))))
  split
  · exact PS_fail
  · exact PS_bind _ _ (PS_guard _) (fun _ => PS_bind _ _ (PS_decItems sd hsd _) (fun _ => PS_bind _ _ (decPartial_PS sd hsd _) (fun _ =>
      PS_bind _ _ (PS_guard _) (fun _ => PS_pure _))))

/-- the documented reader is prefix-safe -/
theorem decode_PS (c : EbConsts) (sd : Serde ι) (hsd : sd.Lawful) : PS (decode c sd) := by
  unfold decode
  refine PS_bind _ _ (PS_leNat 1) (fun _ => PS_bind _ _ (PS_leNat 1) (fun _ => PS_bind _ _ (PS_leNat 1) (fun _ =>
    PS_bind _ _ (PS_leNat 1) (fun _ => PS_bind _ _ (PS_leNat 4) (fun _ => PS_bind _ _ (PS_guard _) (fun _ =>
    PS_bind _ _ (PS_guard _) (fun _ => PS_bind _ _ (PS_guard _) (fun _ => PS_bind _ _ ?_ (fun _ => PS_pure _)))))))))
  split
  · exact PS_pure _
  · exact decodeBody_PS c sd hsd _

/-- **every strict prefix of every valid image is rejected** -/
theorem prefix_rejected (c : EbConsts) (hc : c.ok) (sd : Serde ι) (hsd : sd.Lawful) (s : Image ι) (hs : WF c sd s)
    (n : Nat) (hn : n < (encode c sd s).length) : decode c sd ((encode c sd s).take n) = none :=
  prefix_rejected' (decode c sd) (decode_PS c sd hsd) (encode c sd s) s (decode_encode c hc sd hsd s hs) n hn

theorem decodeBody_bounded (c : EbConsts) (sd : Serde ι) (hsd : sd.Lawful) (flags : Nat) (b r : Bytes)
    (body : Option (Body ι)) (h : decodeBody c sd flags b = some (body, r)) :
    (match body with | none => 0 | some x => x.items.length) ≤ b.length := by
  unfold decodeBody at h
  obtain ⟨n, r1, h1, h⟩ := bind_some h
  obtain ⟨cw, r2, h2, h⟩ := bind_some h
  obtain ⟨wm, r3, h3, h⟩ := bind_some h
  obtain ⟨rho, r4, h4, h⟩ := bind_some h
  obtain ⟨cc, r5, h5, h⟩ := bind_some h
  have l1 := (PS_leNat 8).rem_le h1
  have l2 := (PS_leNat 8).rem_le h2
  have l3 := (PS_leNat 8).rem_le h3
  have l4 := (PS_leNat 8).rem_le h4
  have l5 := (PS_leNat 8).rem_le h5
  cases hff : f64FloorFrac cc with
  | none => simp [hff, Reader.fail] at h
  | some pq =>
    obtain ⟨nfull, frac⟩ := pq
    simp only [hff] at h
    obtain ⟨_, r6, g1, h⟩ := bind_some h
    obtain ⟨its, r7, h7, h⟩ := bind_some h
    obtain ⟨p, r8, h8, h⟩ := bind_some h
    obtain ⟨_, r9, g2, h⟩ := bind_some h
    obtain ⟨hb, _⟩ := pure_some h
    subst hb
    have l6 : r6.length ≤ r5.length := by rw [(guard_some g1).2]; exact Nat.le_refl _
    have l7 := decItems_count sd hsd _ _ _ _ h7
    simp only
    omega

/-- **bounded**: the number of items of an accepted image (⌊c⌋, whatever `c` says) is at most the input length -/
theorem decode_bounded (c : EbConsts) (sd : Serde ι) (hsd : sd.Lawful) (b r : Bytes) (s : Image ι)
    (h : decode c sd b = some (s, r)) : count s ≤ b.length := by
  simp only [decode] at h
  obtain ⟨pre, r1, h1, h⟩ := bind_some h
  obtain ⟨sv, r2, h2, h⟩ := bind_some h
  obtain ⟨fam, r3, h3, h⟩ := bind_some h
  obtain ⟨flags, r4, h4, h⟩ := bind_some h
  obtain ⟨k, r5, h5, h⟩ := bind_some h
  obtain ⟨_, r6, g1, h⟩ := bind_some h
  obtain ⟨_, r7, g2, h⟩ := bind_some h
  obtain ⟨_, r8, g3, h⟩ := bind_some h
  obtain ⟨body, r9, hbody, h⟩ := bind_some h
  obtain ⟨hs, _⟩ := pure_some h
  have l1 := (PS_leNat 1).rem_le h1
  have l2 := (PS_leNat 1).rem_le h2
  have l3 := (PS_leNat 1).rem_le h3
  have l4 := (PS_leNat 1).rem_le h4
  have l5 := (PS_leNat 4).rem_le h5
  have l6 : r6.length ≤ r5.length := by rw [(guard_some g1).2]; exact Nat.le_refl _
  have l7 : r7.length ≤ r6.length := by rw [(guard_some g2).2]; exact Nat.le_refl _
  have l8 : r8.length ≤ r7.length := by rw [(guard_some g3).2]; exact Nat.le_refl _
  subst hs
  simp only [count]
  split at hbody
  · obtain ⟨hb, _⟩ := pure_some hbody; subst hb; simp
  · have := decodeBody_bounded c sd hsd _ _ _ _ hbody
    cases body with
    | none => simp
    | some x => simp only at this ⊢; omega

/-- non-vacuity: the 60-byte image with a partial item; the executable reader rejects the prefix that lacks its last byte
and the prefix that ends right before the partial item -/
example : (encode generated serdeStr exPartial).length = 66 := by decide
example : (decode generated serdeStr ((encode generated serdeStr exPartial).take 65)).isNone = true := by decide
example : (decode generated serdeStr ((encode generated serdeStr exPartial).take 60)).isNone = true := by decide
example : (decode generated serdeStr (encode generated serdeStr exPartial)).isSome = true := by decide

end DS.Wire.Ebpps

/-
C11 (compact theta sketch images) — truncated images are rejected, counts cannot outrun the input.

ONLY property theorems and their non-vacuity examples.  The specification reader `decode` is built from the
combinators of DSModel/Wire/Reader.lean only (it cannot read out of bounds by construction and is total); the real
readers are held to it by the exhaustive-prefix runs of `./check c11_theta` under ASan/UBSan.
-/
import DSProofs.Lemmas.WireThetaLegacy
import DSProofs.Lemmas.WireThetaBounded
namespace DS.Wire.Theta
open DS.Wire

/-- the reader of all four serial versions is prefix-safe. -/
theorem decode_PS (c : Consts) (exp : Nat) : PS (decode c exp) := PS_decode c exp

/-- every strict prefix of an uncompressed image is rejected (no padding in this family). -/
theorem prefix_rejected (c : Consts) (hc : c.ok = true) (s : Image) (hwf : WF s) (exp : Nat)
    (hseed : s.isEmpty = true ∨ s.seedHash = exp) (n : Nat) (hn : n < (encode c s).length) :
    decode c exp ((encode c s).take n) = none := by
  have h := decode_encode_v3 (COk.of_ok hc) s hwf exp hseed []
  rw [List.append_nil] at h
  exact DS.Wire.prefix_rejected (decode c exp) (PS_decode c exp) (encode c s) s h n hn

/-- every strict prefix of a compressed image is rejected. -/
theorem prefix_rejected_v4 (c : Consts) (hc : c.ok = true) (s : Image) (h4 : WFv4 s) (exp : Nat) (hseed : s.seedHash = exp)
    (n : Nat) (hn : n < (encodeV4 c s).length) : decode c exp ((encodeV4 c s).take n) = none := by
  have h := decodeV4_encode (COk.of_ok hc) s h4 exp hseed []
  rw [List.append_nil] at h
  exact DS.Wire.prefix_rejected (decode c exp) (PS_decode c exp) (encodeV4 c s) s h n hn

/-- every strict prefix of a legacy image is rejected. -/
theorem prefix_rejected_legacy (c : Consts) (hc : c.ok = true) (s : Image) (hwf : WFLegacy s) (exp : Nat) (hseed : s.seedHash = exp) (n : Nat) :
    (n < (encodeV1 c s).length → decode c exp ((encodeV1 c s).take n) = none) ∧
    (n < (encodeV2 c s).length → decode c exp ((encodeV2 c s).take n) = none) := by
  constructor
  · intro hn
    have h := decode_encodeV1 (COk.of_ok hc) s hwf exp hseed []
    rw [List.append_nil] at h
    exact DS.Wire.prefix_rejected (decode c exp) (PS_decode c exp) (encodeV1 c s) s h n hn
  · intro hn
    have h := decode_encodeV2 (COk.of_ok hc) s hwf exp hseed []
    rw [List.append_nil] at h
    exact DS.Wire.prefix_rejected (decode c exp) (PS_decode c exp) (encodeV2 c s) s h n hn

/-- whatever the bytes are (any serial version, any corruption): a successful decode returns at most 8 entries per
input byte actually consumed — no count field can make the specification reader allocate beyond that. -/
theorem decode_bounded (c : Consts) (exp : Nat) (b : Bytes) (s : Image) (r : Bytes) (h : decode c exp b = some (s, r)) :
    s.entries.length + 8 * r.length ≤ 8 * b.length :=
  bounded_decode c exp b s r h

example : decode documented 37836 [2, 3, 3, 0, 0, 0x1a, 0xcc, 0x93, 0xff, 0xff, 0xff, 0xff, 0, 0, 0, 0] = none := by decide

end DS.Wire.Theta

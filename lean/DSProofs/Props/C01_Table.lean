/-
C01 (layer 2) — the open-addressing hash table of `theta_update_sketch_base` refines the abstract sketch.

ONLY property theorems and non-vacuity examples (helper lemmas: Lemmas/ThetaTable*.lean).
Model: DSModel/Theta/Table.lean — slots, `find` with odd-stride probing, insert, `resize` (re-insertion in slot
order), `rebuild` (re-insertion of the k smallest).  It is tied to the real table by the advisory part `l2table`
of `./check C01`, which compares the model's SLOT ORDER with the real sketch's iteration order.
Together with Props/C01.lean this moves the trusted gap of C01 (and C13: the theorems are payload-generic) from
"the abstract algorithm" down to "the concrete data structure".
-/
import DSProofs.Lemmas.ThetaTable5
import DSProofs.Props.C01
namespace DS.Theta.L2
open DS.Theta

variable {σ : Type}

/-- **Probing is complete**: with an odd stride the probe sequence visits every slot of a power-of-two table, so
`find` of an absent key reaches an empty slot whenever one exists (the code's `logic_error` is unreachable). -/
theorem C01_probe_visits_every_slot (lg stride idx : Nat) (hodd : stride % 2 = 1) (e : Nat) (he : e < 2^lg) :
    ∃ j, j < 2^lg ∧ pos (2^lg) stride idx j = e :=
  pos_surjective lg stride idx hodd e he

/-- the stride the code computes is always odd -/
theorem C01_stride_odd (bits key lg : Nat) : strideOf bits key lg % 2 = 1 := strideOf_odd bits key lg

/-- **One update refines**: on a table satisfying the representation invariant with room for one more entry, the
concrete update succeeds, its abstraction is the abstract update, and the invariant is kept. -/
theorem C01_table_update_refines (bits : Nat) (c : Cfg) (t : TSt σ) (hash : Nat) (f : Option σ → σ)
    (h : PInv bits t.lg t.slots) (hroom : (entries t.slots).length + 1 < 2^t.lg) :
    ∃ t', offerT bits c t hash f = some t' ∧ abs t' = offer c (abs t) hash f ∧ PInv bits t'.lg t'.slots :=
  offerT_refines bits c t hash f h hroom

/-- **Whole histories refine**: for every configuration whose sizing parameters are sane (`CfgOkT`, decidable) and
every history of updates / trims / resets, the concrete table never fails and abstracts to the abstract sketch —
so every theorem of Props/C01.lean holds of the key-sorted content of the concrete table. -/
theorem C01_table_run_refines (bits : Nat) (c : Cfg) (ok : CfgOkT c) (ops : List (Op σ)) :
    ∃ t, runT bits c (initT c) ops = some t ∧ abs t = run c ops := by
  obtain ⟨t, ht, habs, _⟩ := run_refines bits c ok ops (initT c) (tinvT_init bits c ok)
  exact ⟨t, ht, by rw [habs, abs_init]; rfl⟩

/-- corollary: the entries stored in the concrete table are exactly the distinct nonzero hashes below theta -/
theorem C01_table_retained_exact (bits : Nat) (c : Cfg) (ok : CfgOkT c) (ops : List (Op σ)) :
    ∃ t, runT bits c (initT c) ops = some t ∧
      ∀ x, (∃ v, (x, v) ∈ entries t.slots) ↔ (x ∈ seenOf ops ∧ 0 < x ∧ x < t.theta) := by
  obtain ⟨t, ht, habs, hT⟩ := run_refines bits c ok ops (initT c) (tinvT_init bits c ok)
  refine ⟨t, ht, ?_⟩
  have habs' : abs t = run c ops := by rw [habs, abs_init]; rfl
  have hmem := (C01_retained_exact c ops).2
  rw [← habs'] at hmem
  have s0 := absE_spec bits t.lg t.slots hT.pinv
  intro x
  have hth : (abs t).theta = t.theta := rfl
  rw [← hth, ← hmem x, abs_ents]
  constructor
  · rintro ⟨v, hv⟩; exact mem_keys_of_mem _ (x, v) ((s0.2 _).2 hv)
  · intro hx
    obtain ⟨v, hv⟩ := exists_of_mem_keys _ _ hx
    exact ⟨v, (s0.2 _).1 hv⟩

/-! ### Non-vacuity: the default configuration (lg_k = 12, resize X8, p = 1) and a small one are sane; a concrete run. -/
def cfgDefault : Cfg := { lgNom := 12, lgRf := 3, theta0 := MAX_THETA, lgStart := 7 }
def cfgSmall : Cfg := { lgNom := 5, lgRf := 1, theta0 := MAX_THETA, lgStart := 5 }

theorem cfgSmall_ok : CfgOkT cfgSmall := by
  refine ⟨by decide, ?_, ?_, by decide⟩
  · intro lg h1 h2
    have : lg = 5 ∨ lg = 6 := by simp only [cfgSmall] at h1 h2; omega
    rcases this with rfl | rfl <;> decide
  · intro lg h1 h2
    have : lg = 5 := by simp only [cfgSmall] at h1 h2; omega
    subst this; decide

theorem cfgDefault_ok : CfgOkT cfgDefault := by
  refine ⟨by decide, ?_, ?_, by decide⟩
  · intro lg h1 h2
    have : lg = 7 ∨ lg = 8 ∨ lg = 9 ∨ lg = 10 ∨ lg = 11 ∨ lg = 12 ∨ lg = 13 := by simp only [cfgDefault] at h1 h2; omega
    rcases this with rfl | rfl | rfl | rfl | rfl | rfl | rfl <;> decide
  · intro lg h1 h2
    have : lg = 7 ∨ lg = 8 ∨ lg = 9 ∨ lg = 10 ∨ lg = 11 ∨ lg = 12 := by simp only [cfgDefault] at h1 h2; omega
    rcases this with rfl | rfl | rfl | rfl | rfl | rfl <;> decide

def cfgTiny : Cfg := { lgNom := 2, lgRf := 1, theta0 := 1000, lgStart := 3, rbdNum := 3, rbdDen := 4 }
example : (runT 7 cfgTiny (initT cfgTiny)
    [.upd 50 (fun _ => ()), .upd 21 (fun _ => ()), .upd 50 (fun _ => ()), .upd 13 (fun _ => ()), .upd 5 (fun _ => ()),
     .upd 29 (fun _ => ()), .upd 37 (fun _ => ()), .upd 45 (fun _ => ())]).map (fun t => (t.theta, keys (abs t).ents))
    = some (37, [5, 13, 21, 29]) := by decide

end DS.Theta.L2

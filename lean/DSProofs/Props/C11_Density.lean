/-
C11 (density sketch part) — truncated images are rejected; the specification reader is bounded.

ONLY property theorems and non-vacuity examples.  The theorems are about the specification reader
`DS.Wire.Density.decode`; the exhaustive-prefix / corruption runs of `./check c11_misc` hold
`density_sketch::deserialize(bytes)` and `deserialize(istream)` (float and double) to it under sanitizers.
-/
import DSProofs.Lemmas.WireMiscDensity
import DSModel.Wire.DensityGen
namespace DS.Wire.Density
open DS.Wire

/-- the reader (including the level loop, for every fuel) is prefix-safe -/
theorem decode_PS (c : Consts) (tsz : Nat) : PS (decode c tsz) := decode_PS_lem c tsz

/-- every strict prefix of a valid image is rejected (a density image has no information-free padding) -/
theorem prefix_rejected (c : Consts) (hc : c.Valid) (tsz : Nat) (s : Img) (hs : WF tsz s) (n : Nat)
    (hn : n < (encode c tsz s).length) : decode c tsz ((encode c tsz s).take n) = none := by
  have h := decode_encode_lem c hc tsz s hs []
  simp only [List.append_nil] at h
  exact DS.Wire.prefix_rejected (decode c tsz) (decode_PS c tsz) (encode c tsz s) s h n hn

/-- a successful decode of ANY byte string consumed exactly `serializedSize` bytes and produced a
well-formed image (counts consistent, every value in range, at most 64 levels); if a point occupies at
least one byte (dim ≥ 1, value width ≥ 1) the number of decoded points is at most the input length.
(For dim = 0 a point occupies no bytes and a level-size field alone determines the number of — empty —
points: the layout itself gives no linear bound there.) -/
theorem decode_bounded (c : Consts) (tsz : Nat) (b r : Bytes) (s : Img) (h : decode c tsz b = some (s, r)) :
    b.length = serializedSize tsz s + r.length ∧ WF tsz s ∧
    (∀ bd, s.body = some bd → bd.levels.length ≤ 64 ∧ 4 * bd.levels.length + 24 ≤ b.length ∧
      (0 < s.dim → 0 < tsz → totalPoints bd.levels + 24 ≤ b.length)) := by
  obtain ⟨h1, h2⟩ := decode_consumes_lem c tsz b r s h
  refine ⟨h1, h2, ?_⟩
  intro bd hb
  obtain ⟨_, _, h4⟩ := h2
  simp only [hb] at h4
  obtain ⟨_, _, _, _, _, g6, _⟩ := h4
  simp only [serializedSize, hb] at h1
  refine ⟨g6, ?_, ?_⟩
  · have : 4 * bd.levels.length ≤ levelsSize tsz s.dim bd.levels := by
      generalize bd.levels = ls
      induction ls with
      | nil => simp
      | cons l t ih => simp only [List.length_cons, levelsSize]; omega
    omega
  · intro hd ht
    have := totalPoints_le_size tsz s.dim hd ht bd.levels
    omega

def exImgT : Img :=
  { k := 4, dim := 2,
    body := some { numRetained := 3, n := 4, levels := [[[0x3f800000, 0x40000000], [0, 0x80000000]], [[0x7f7fffff, 1]]] } }
example : WF 4 exImgT ∧ (∀ n, n < 56 → decode genConsts 4 ((encode genConsts 4 exImgT).take n) = none) ∧
          (decode genConsts 4 (encode genConsts 4 exImgT)).isSome := by decide

end DS.Wire.Density

/-
C13 — Tuple sketches keep theta-sketch keys and exact per-key summaries.

ONLY property theorems and non-vacuity examples (helper lemmas: Lemmas/Tuple.lean).  The tuple sketch IS the
generic theta table model `St σ` with a payload (tuple_sketch_impl.hpp instantiates theta_update_sketch_base
with Entry = pair<hash, Summary>); the set operations are the generic models of SetOps.lean, so the key
selection theorems of C02 (`C02_union_result_spec`, `C02_union_perm_invariant`, `C02_inter_result_spec`,
`C02_anotb_spec`) — stated there for an arbitrary payload type and policy — are the tuple statements too and
are re-exported below for the record.  Tie: `./check C13`.
-/
import DSProofs.Lemmas.Tuple
import DSProofs.Lemmas.TupleUnion
import DSProofs.Lemmas.TupleInter
import DSProofs.Props.C02
namespace DS.Theta

variable {σ τ V : Type}

/-- **Payload homomorphism.**  Any map `g` of summaries that commutes with the update functions commutes with
the whole sketch: running related histories and then mapping the payloads is the same as mapping first.
Instances: `g = fun _ => ()` (a tuple sketch vs the Theta sketch fed the same keys), `g = column j`
(array-of-doubles = independent columns). -/
theorem C13_payload_hom (c : Cfg) (g : σ → τ) (ops : List (Op σ)) (ops' : List (Op τ)) (h : OpsRel g ops ops') :
    mapSt g (run c ops) = run c ops' := by
  have := mapSt_foldl c g ops ops' (init c) h
  simpa [run, mapSt, init, mapEnts] using this

/-- **Keys.**  A tuple sketch retains exactly the keys, theta, emptiness (and table size) of the Theta sketch with
the same configuration fed the same key hashes — for every history of updates, trims and resets. -/
theorem C13_tuple_keys_eq_theta (c : Cfg) (create : σ) (update : σ → V → σ) (ops : List (TOp V)) :
    let t := run c (ops.map (TOp.toOp create update))
    let th : St Unit := run c (ops.map (TOp.toOp () (fun _ _ => ())))
    keys t.ents = keys th.ents ∧ t.theta = th.theta ∧ t.isEmpty = th.isEmpty ∧ t.lgCur = th.lgCur := by
  have hrel : OpsRel (fun _ : σ => ()) (ops.map (TOp.toOp create update)) (ops.map (TOp.toOp () (fun (_ : Unit) (_ : V) => ()))) := by
    induction ops with
    | nil => exact OpsRel.nil
    | cons op rest ih =>
      simp only [List.map_cons]
      refine OpsRel.cons ?_ ih
      cases op with
      | upd h v => exact OpRel.upd h _ _ (fun _ => rfl)
      | trim => exact OpRel.trim
      | reset => exact OpRel.reset
  have := C13_payload_hom c (fun _ : σ => ()) _ _ hrel
  intro t th
  have h1 : mapSt (fun _ : σ => ()) t = th := this
  refine ⟨?_, ?_, ?_, ?_⟩
  · have := congrArg (fun s => keys s.ents) h1; simpa [mapSt] using this
  · exact congrArg St.theta h1
  · exact congrArg St.isEmpty h1
  · exact congrArg St.lgCur h1

/-- **Summaries.**  The summary stored with every retained key is the update policy folded (from `create()`) over
every value ever offered with that key since the last reset, in arrival order. -/
theorem C13_summary_fold (c : Cfg) (create : σ) (update : σ → V → σ) (ops : List (TOp V)) (k : Nat) (v : σ)
    (h : lookup k (run c (ops.map (TOp.toOp create update))).ents = some v) :
    v = (valsOf ops k).foldl update create := by
  have := fold_foldl c create update ops [] (fun _ => []) (init c) (inv_init c) (fun _ _ => rfl)
    (by intro k v hv; simp [init, lookup] at hv)
  exact this k v h

/-- **filter.**  Keeps precisely the entries whose summary satisfies the predicate (in the same order), keeps theta
and the seed hash, and reports empty iff the source was not in estimation mode and nothing is left. -/
theorem C13_filter_spec (pred : σ → Bool) (a : Compact σ) :
    (filterSk pred a).ents = a.ents.filter (fun e => pred e.2) ∧
    (filterSk pred a).theta = a.theta ∧ (filterSk pred a).seedHash = a.seedHash ∧
    ((filterSk pred a).isEmpty = true ↔ (¬ (a.theta < MAX_THETA ∧ a.isEmpty = false) ∧ (filterSk pred a).ents = [])) := by
  refine ⟨rfl, rfl, rfl, ?_⟩
  simp only [filterSk, Bool.and_eq_true, Bool.not_eq_true', List.isEmpty_iff, decide_eq_true_eq, Bool.not_eq_eq_eq_not,
    Bool.not_true]
  constructor
  · rintro ⟨h1, h2⟩
    refine ⟨?_, h2⟩
    rintro ⟨h3, h4⟩
    simp [h3, h4] at h1
  · rintro ⟨h1, h2⟩
    refine ⟨?_, h2⟩
    cases he : a.isEmpty with
    | true => simp
    | false =>
      have : ¬ a.theta < MAX_THETA := fun h3 => h1 ⟨h3, he⟩
      simp [this]

/-- **Set operations select keys exactly as the Theta operations do** (the C02 theorems hold for any payload and
policy); restated here for the union. -/
theorem C13_tuple_union_keys (c : Cfg) (pol : σ → σ → σ) (sh : Nat) (sks : List (Compact σ))
    (hw : ∀ sk, sk ∈ sks → WFop sk) (u : Union σ) (hu : unionFold c pol sh (unionInit c) sks = some u) (ord : Bool)
    (hne : allEmpty sks = false) :
    ResultSpec (offered sks) (thetaStar c.theta0 sks) (2^c.lgNom)
      (unionResult c u ord sh).theta (keys (unionResult c u ord sh).ents) :=
  ((C02_union_result_spec c pol sh sks hw u hu ord).1 hne).1

/-- **Union summaries.**  The summary a union result attaches to a retained key is the union policy folded, in
presentation order, over the summaries of ALL the (non-empty) inputs that hold the key: the first one is copied,
every later one is merged in as `policy(accumulated, incoming)`. -/
theorem C13_union_summary_fold (c : Cfg) (pol : σ → σ → σ) (sh : Nat) (sks : List (Compact σ))
    (hw : ∀ sk, sk ∈ sks → WFop sk) (u : Union σ) (hu : unionFold c pol sh (unionInit c) sks = some u) (ord : Bool)
    (k : Nat) (v : σ) (h : (k, v) ∈ (unionResult c u ord sh).ents) :
    foldSums pol (sumsOffered k sks) = some v := by
  have h0 : SState c pol [] c.theta0 (fun _ => ([] : List σ)) (unionInit c : Union σ) :=
    ⟨ustate_init c, fun _ _ => rfl, by intro k v _ hv; simp [unionInit, init, lookup] at hv⟩
  have hf := sstate_fold c pol sh sks [] c.theta0 (fun _ => []) (unionInit c) u h0 hw hu
  have hi := hf.us.inv
  have hm := union_result_mem_table c u ord sh hi.sorted (fun x hx => (hi.sub x hx).2) (k, v) h
  have hl := lookup_of_mem u.tbl.ents hi.sorted k v hm.1
  have := hf.sinv k v hm.2 hl
  simpa using this

/-- **Intersection summaries.**  The summary an intersection attaches to a retained key is the policy folded, in
presentation order, over the summaries of ALL inputs (every input holds the key): the first input's summary is
copied, every later one is merged in as `policy(accumulated, incoming)`. -/
theorem C13_inter_summary_fold (pol : σ → σ → σ) (sh : Nat) (sks : List (Compact σ))
    (hw : ∀ sk, sk ∈ sks → WFop sk) (i : Inter σ) (hi : interFold pol sh interInit sks = some i)
    (k : Nat) (v : σ) (h : (k, v) ∈ i.ents) :
    foldSums pol (sumsAll k sks) = some v := by
  have := isum_fold pol sh sks [] interInit i iinv_init
    (by intro k v hv; simp [interInit, lookup] at hv) (fun s hs => by simp at hs) hw hi
  simp only [List.nil_append] at this
  exact this.2 k v (lookup_of_mem i.ents this.1.sorted k v h)

/-- A-not-B keeps A's summaries untouched: every entry of the result is an entry of A. -/
theorem C13_anotb_keeps_a_summaries (sh : Nat) (a b r : Compact σ) (ord : Bool) (h : aNotB sh a b ord = some r) :
    ∀ e, e ∈ r.ents → e ∈ a.ents := by
  unfold aNotB at h
  split at h
  · simp only [Option.some.injEq] at h
    subst h
    intro e he
    simp only [compactOfCompact] at he
    split at he
    · simp at he
    · exact he
  · split at h
    · cases h
    · simp only [Option.some.injEq] at h
      subst h
      intro e he
      exact (List.mem_filter.1 he).1

end DS.Theta

namespace DS.Theta
/-! ### Non-vacuity: a list-append tuple sketch (k = 2) with repeated keys and a rebuild. -/
def exCfgT : Cfg := { lgNom := 1, lgRf := 0, theta0 := 100, lgStart := 2 }
def exT : List (TOp Int) :=
  [.upd 50 1, .upd 20 2, .upd 50 3, .upd 0 9, .upd 70 4, .upd 10 5, .upd 60 6, .upd 20 7, .trim]
example : (run exCfgT (exT.map (TOp.toOp ([] : List Int) (fun (s : List Int) (v : Int) => s ++ [v])))).ents = [(10, [5]), (20, [2, 7])] := by decide
example : valsOf exT 20 = [2, 7] ∧ valsOf exT 50 = [1, 3] := by decide
/-- two inputs holding key 20 with list summaries: the union concatenates them in presentation order -/
def exU1 : Compact (List Int) := { theta := MAX_THETA, ents := [(20, [1, 2]), (30, [3])], isEmpty := false, ordered := true, seedHash := 7 }
def exU2 : Compact (List Int) := { theta := MAX_THETA, ents := [(20, [9])], isEmpty := false, ordered := true, seedHash := 7 }
def exCfgU : Cfg := { lgNom := 2, lgRf := 0, theta0 := MAX_THETA, lgStart := 3 }
example : (unionFold exCfgU (fun (a b : List Int) => a ++ b) 7 (unionInit exCfgU) [exU1, exU2]).map
    (fun u => (unionResult exCfgU u true 7).ents) = some [(20, [1, 2, 9]), (30, [3])] := by decide
example : foldSums (fun (a b : List Int) => a ++ b) (sumsOffered 20 [exU1, exU2]) = some [1, 2, 9] := by decide
example : (interFold (fun (a b : List Int) => a ++ b) 7 interInit [exU1, exU2]).map (fun i => i.ents) = some [(20, [1, 2, 9])] := by decide

end DS.Theta

/-
C11 (count-min part) — truncated images are rejected; no count field can make the specification reader
allocate beyond the input length.

ONLY property theorems + non-vacuity examples.  Model: DSModel/Wire/CountMin.lean.  `decode` is built only
from the bounded combinators, which cannot read out of bounds by construction; `decode_PS` (one line per
combinator) gives prefix safety, and with C09's round trip every strict prefix of every valid image is
rejected (count-min images have no information-free padding, so there is no `isPadding` disjunct).
The real readers are held to this verdict by the exhaustive-prefix runs of `./check c11_count`.
-/
import DSProofs.Props.C09_CountMin
namespace DS.Wire.CountMin
open DS.Wire

theorem decodeBody_PS (n : Nat) (e : Bool) : PS (decodeBody n e) := by
  unfold decodeBody
  split
  · exact PS_pure _
  · exact PS_bind _ _ (PS_leNat 8) (fun _ => PS_bind _ _ (PS_decU64s n) (fun _ => PS_pure _))

/-- the documented reader is prefix-safe (for every constant set) -/
theorem decode_PS (c : CmConsts) : PS (decode c) :=
  PS_bind _ _ (PS_leNat 1) (fun _ => PS_bind _ _ (PS_guard _) (fun _ =>
  PS_bind _ _ (PS_leNat 1) (fun _ => PS_bind _ _ (PS_guard _) (fun _ =>
  PS_bind _ _ (PS_leNat 1) (fun _ => PS_bind _ _ (PS_guard _) (fun _ =>
  PS_bind _ _ (PS_leNat 1) (fun _ =>
  PS_bind _ _ (PS_skip 4) (fun _ =>
  PS_bind _ _ (PS_leNat 4) (fun _ =>
  PS_bind _ _ (PS_leNat 1) (fun _ =>
  PS_bind _ _ (PS_leNat 2) (fun _ =>
  PS_bind _ _ (PS_skip 1) (fun _ =>
  PS_bind _ _ (PS_guard _) (fun _ =>
  PS_bind _ _ (decodeBody_PS _ _) (fun _ => PS_pure _))))))))))))))

/-- **every strict prefix of every valid image is rejected** -/
theorem prefix_rejected (c : CmConsts) (hc : c.ok) (s : Image) (hs : WF c s) (n : Nat) (hn : n < (encode c s).length) :
    decode c ((encode c s).take n) = none :=
  prefix_rejected' (decode c) (decode_PS c) (encode c s) s (decode_encode c hc s hs) n hn

/-- **bounded**: whatever bytes are accepted, the number of cells of the result is at most the input length
(the product `num_hashes · num_buckets` read from the image cannot make the reader materialise more than it was given) -/
theorem decode_bounded (c : CmConsts) (b r : Bytes) (s : Image) (h : decode c b = some (s, r)) :
    count s ≤ b.length := by
  simp only [decode] at h
  obtain ⟨pre, r1, h1, h⟩ := bind_some h
  obtain ⟨_, r2, g1, h⟩ := bind_some h
  obtain ⟨sv, r3, h3, h⟩ := bind_some h
  obtain ⟨_, r4, g2, h⟩ := bind_some h
  obtain ⟨fam, r5, h5, h⟩ := bind_some h
  obtain ⟨_, r6, g3, h⟩ := bind_some h
  obtain ⟨flags, r7, h7, h⟩ := bind_some h
  obtain ⟨_, r8, h8, h⟩ := bind_some h
  obtain ⟨nb, r9, h9, h⟩ := bind_some h
  obtain ⟨nh, r10, h10, h⟩ := bind_some h
  obtain ⟨sh, r11, h11, h⟩ := bind_some h
  obtain ⟨_, r12, h12, h⟩ := bind_some h
  obtain ⟨_, r13, g4, h⟩ := bind_some h
  obtain ⟨body, r14, hbody, h⟩ := bind_some h
  obtain ⟨hs, _⟩ := pure_some h
  have l1 := (PS_leNat 1).rem_le h1
  have l2 : r2.length ≤ r1.length := by rw [(guard_some g1).2]; exact Nat.le_refl _
  have l3 := (PS_leNat 1).rem_le h3
  have l4 : r4.length ≤ r3.length := by rw [(guard_some g2).2]; exact Nat.le_refl _
  have l5 := (PS_leNat 1).rem_le h5
  have l6 : r6.length ≤ r5.length := by rw [(guard_some g3).2]; exact Nat.le_refl _
  have l7 := (PS_leNat 1).rem_le h7
  have l8 := (PS_skip 4).rem_le h8
  have l9 := (PS_leNat 4).rem_le h9
  have l10 := (PS_leNat 1).rem_le h10
  have l11 := (PS_leNat 2).rem_le h11
  have l12 := (PS_skip 1).rem_le h12
  have l13 : r13.length ≤ r12.length := by rw [(guard_some g4).2]; exact Nat.le_refl _
  have hle : r13.length ≤ b.length := by omega
  subst hs
  simp only [count]
  unfold decodeBody at hbody
  split at hbody
  · obtain ⟨hb, _⟩ := pure_some hbody
    subst hb; simp
  · obtain ⟨w, q1, hw, hbody⟩ := bind_some hbody
    obtain ⟨cells, q2, hcells, hbody⟩ := bind_some hbody
    obtain ⟨hb, _⟩ := pure_some hbody
    subst hb
    have := decU64s_count _ _ _ _ hcells
    have := (PS_leNat 8).rem_le hw
    simp only
    omega

/-- non-vacuity: a 64-byte image; its 63-byte prefix is rejected by the executable reader -/
example : (encode generated { numBuckets := 3, numHashes := 1, seedHash := 37836, body := some (5, [1, 0, 4]) }).length = 48 := by decide
example : decode generated ((encode generated { numBuckets := 3, numHashes := 1, seedHash := 37836, body := some (5, [1, 0, 4]) }).take 47) = none := by
  decide

end DS.Wire.CountMin

import DSModel.Hll.Union
namespace DS.Hll
theorem placeholder_c04 : True := trivial
end DS.Hll

/-
C04 — HLL union equals the sketch of the concatenated streams at reduced precision.

ONLY property theorems and their non-vacuity examples live here (helper lemmas: Lemmas/HllUnion.lean).
Model: DSModel/Hll/Union.lean (L1 model of hll_union as coded, tied to HllUnion-internal.hpp by `./check C04`).
A history is a list of `UOp`s (update with an lvalue / rvalue sketch described by its own configuration and coupon
stream, raw coupon, estimate call, reset) applied to a fresh union of `lgMaxK`.

The CURRENT code violates the full-strength statements (two defects, rediscovered by the check and replayed on the real
headers every run, see known_findings.json / proposed_fixes/C04-*):
  D1  a down-sampled gadget still has cur_min = 0, num_at_cur_min = k, reports isEmpty and is replaced by the next input;
  D14 reset() keeps the gadget's reduced lg_k.
So the file carries `…_full : Prop` (the statement), `…_full_false` (kernel-checked refutation of it for the model of the
current code, with the concrete witness) and `…_partial` (what is proved).
-/
import DSProofs.Lemmas.HllUnionInv
import DSProofs.Props.C03
namespace DS.Hll

/-- the tunables of the code -/
def uP : Params := {}

/-! ## Full-strength statements -/

/-- result content = that of ONE sketch of the result's lg_k that saw every item of every input (nothing lost, nothing extra):
coupons exact in LIST/SET mode, every register the per-slot maximum in HLL mode. -/
def union_content_full : Prop :=
  ∀ (lgMaxK : Nat) (ops : List UOp) (tt : TType),
    let r : St Unit := unionResult uP (uRun uP (newUnion uP lgMaxK) ops) tt
    (r.mode = .hll → ∀ slot, slot < 2^r.lgK → IsMaxAt uP r.lgK (fun c => c ∈ offered ops) slot (r.regs.getD slot 0)) ∧
    (r.mode ≠ .hll → ∀ c, c ∈ r.items ↔ (c ∈ offered ops ∧ c ≠ 0))

/-- result lg_k = min(lg_max_k, lg_k of every (non-empty) HLL-mode input since the last reset) -/
def union_lgk_full : Prop :=
  ∀ (lgMaxK : Nat) (ops : List UOp) (tt : TType),
    (unionResult uP (uRun uP (newUnion uP lgMaxK : Un Unit) ops) tt).lgK = expectedLgK uP lgMaxK ops

/-- the result does not depend on the order of presentation -/
def union_perm_invariant_full : Prop :=
  ∀ (lgMaxK : Nat) (ops ops' : List UOp) (tt : TType), ops.Perm ops' →
    (∀ o ∈ ops, match o with | .merge _ _ => True | .coupon _ => True | _ => False) →
    let r : St Unit := unionResult uP (uRun uP (newUnion uP lgMaxK) ops) tt
    let r' : St Unit := unionResult uP (uRun uP (newUnion uP lgMaxK) ops') tt
    r.lgK = r'.lgK ∧ r.mode = r'.mode ∧ r.regs = r'.regs

/-- interleaved estimate calls do not change later results -/
def union_estimate_pure_full : Prop :=
  ∀ (lgMaxK : Nat) (ops₁ ops₂ : List UOp) (tt : TType),
    let r : St Unit := unionResult uP (uRun uP (newUnion uP lgMaxK) (ops₁ ++ ops₂)) tt
    let r' : St Unit := unionResult uP (uRun uP (newUnion uP lgMaxK) (ops₁ ++ [.touch] ++ ops₂)) tt
    r.lgK = r'.lgK ∧ r.mode = r'.mode ∧ r.regs = r'.regs

/-- reset ≙ a fresh union of lg_max_k -/
def union_reset_full : Prop :=
  ∀ (lgMaxK : Nat) (ops : List UOp),
    (uRun uP (newUnion uP lgMaxK : Un Unit) (ops ++ [.reset])).gadget.lgK = lgMaxK

/-! ## Refutations on the model of the current code (witnesses replayed by corpus/regress/C04/*.txt) -/

/-- A: HLL mode (start-full), lg_k 5, one item in slot 3 with value 2 -/
def wA : SkDesc := { lgK := 5, tt := .h8, sf := true, cs := [cPair uP 3 2] }
/-- B: HLL mode (start-full), lg_k 4, one item in slot 1 with value 1 -/
def wB : SkDesc := { lgK := 4, tt := .h8, sf := true, cs := [cPair uP 1 1] }
/-- C: HLL mode (start-full), lg_k 6 -/
def wC : SkDesc := { lgK := 6, tt := .h8, sf := true, cs := [cPair uP 2 3] }

/-- D1: union(4) ← A ← B loses A (slot 3 should hold 2, holds 0). -/
theorem union_content_full_false : ¬ union_content_full := by
  intro h
  have h1 := (h 4 [.merge wA false, .merge wB false] .h8).1 (by decide +kernel) 3 (by decide +kernel)
  have h2 := h1.1 (cPair uP 3 2) (by decide +kernel) (by decide +kernel)
  revert h2
  decide +kernel

/-- D1: A, B and B, A give different registers. -/
theorem union_perm_invariant_full_false : ¬ union_perm_invariant_full := by
  intro h
  have h1 := h 4 [.merge wA false, .merge wB false] [.merge wB false, .merge wA false] .h8
    (List.Perm.swap _ _ _) (by intro o ho; simp at ho; rcases ho with rfl | rfl <;> trivial)
  revert h1
  decide +kernel

/-- D1: an estimate call between the two updates changes the result. -/
theorem union_estimate_pure_full_false : ¬ union_estimate_pure_full := by
  intro h
  have h1 := h 4 [.merge wA false] [.merge wB false] .h8
  revert h1
  decide +kernel

/-- D1: union(6) ← C (lg_k 6) ← B (lg_k 4: gadget down-sampled to 4) ← C again: the gadget is replaced and is back at lg_k 6. -/
theorem union_lgk_full_false : ¬ union_lgk_full := by
  intro h
  have h1 := h 6 [.merge wC false, .merge wB false, .merge wC false] .h8
  revert h1
  decide +kernel

/-- D14: union(6) ← B (lg_k 4), reset(): the union restarts at lg_k 4. -/
theorem union_reset_full_false : ¬ union_reset_full := by
  intro h
  have h1 := h 6 [.merge wB false]
  revert h1
  decide +kernel

/-! ## What is proved (for every tunable set, numeric instance, lg_k, history …) -/

variable {ν : Type} [HNum ν]

/-- Mechanism of `mergeHll` (same-k path and down-sampling path alike): if the gadget's registers are the per-slot maxima of
the coupon set `M` at lg_k and the source's registers the per-slot maxima of `N` at a precision ≥ lg_k, then after the merge
they are the per-slot maxima of `M ∪ N` at lg_k — nothing lost, nothing invented (`slot & mask`, `max`). -/
theorem union_merge_content (p : Params) (dst src : St ν) (M N : Nat → Prop)
    (hle : dst.lgK ≤ src.lgK) (hd : dst.regs.size = 2^dst.lgK) (hs : src.regs.size = 2^src.lgK)
    (hM : ∀ j, j < 2^dst.lgK → IsMaxAt p dst.lgK M j (dst.regs.getD j 0))
    (hN : ∀ i, i < 2^src.lgK → IsMaxAt p src.lgK N i (src.regs.getD i 0)) :
    (mergeHll dst src).lgK = dst.lgK ∧ (mergeHll dst src).regs.size = 2^dst.lgK ∧
    ∀ j, j < 2^dst.lgK → IsMaxAt p dst.lgK (fun c => M c ∨ N c) j ((mergeHll dst src).regs.getD j 0) :=
  ⟨rfl, (mergeRegs_spec dst.regs dst.lgK src.regs hd).1, mergeRegs_content p hle hd hs hM hN⟩

/-- `copy_or_downsample` to a smaller lg_k keeps exactly the source's content, folded. -/
theorem union_downsample_content (p : Params) (src : St ν) (tgt : Nat) (N : Nat → Prop)
    (hlt : tgt < src.lgK) (hs : src.regs.size = 2^src.lgK)
    (hN : ∀ i, i < 2^src.lgK → IsMaxAt p src.lgK N i (src.regs.getD i 0)) :
    (copyOrDownsample p src tgt).lgK = tgt ∧ (copyOrDownsample p src tgt).mode = .hll ∧
    ∀ j, j < 2^tgt → IsMaxAt p tgt N j ((copyOrDownsample p src tgt).regs.getD j 0) := by
  unfold copyOrDownsample
  rw [if_neg (by omega)]
  refine ⟨rfl, rfl, fun j hj => ?_⟩
  have h := mergeRegs_content p (M := fun _ => False) (N := N) (dst := (newHll tgt .h8 false : St ν).regs)
    (Nat.le_of_lt hlt) (by simp [newHll]) hs (by
      intro j hj
      refine ⟨fun c hc => absurd hc (by simp), Or.inl ?_⟩
      simp [newHll, Array.getD_eq_getD_getElem?, hj]) hN j hj
  exact IsMaxAt.congr (by simp) h

/-- `get_result` is pure and type-independent: it does not touch the union, every target type yields the same lg_k, mode and
registers, and so does a result taken after an estimate call (which only rebuilds the derived counters). -/
theorem union_get_result_pure (p : Params) (u : Un ν) (tt₁ tt₂ : TType)
    (hsz : u.gadget.mode = .hll → u.gadget.regs.size = 2^u.gadget.lgK) (hk : u.gadget.lgK ≤ p.keyBits) :
    (unionResult p u tt₁).lgK = (unionResult p u tt₂).lgK ∧ (unionResult p u tt₁).mode = (unionResult p u tt₂).mode ∧
    (unionResult p u tt₁).regs = (unionResult p u tt₂).regs ∧
    (unionResult p (unionTouch u) tt₁).regs = (unionResult p u tt₁).regs ∧
    (unionResult p (unionTouch u) tt₁).lgK = (unionResult p u tt₁).lgK := by
  have a := copyAs_preserves p u.gadget tt₁ hsz hk
  have b := copyAs_preserves p u.gadget tt₂ hsz hk
  have hcr : (checkRebuild u.gadget).regs = u.gadget.regs ∧ (checkRebuild u.gadget).lgK = u.gadget.lgK ∧
      (checkRebuild u.gadget).mode = u.gadget.mode := by
    unfold checkRebuild
    by_cases hc : u.gadget.mode = .hll ∧ u.gadget.rebuild = true
    · rw [if_pos hc]; exact ⟨rfl, rfl, rfl⟩
    · rw [if_neg hc]; exact ⟨rfl, rfl, rfl⟩
  have c := copyAs_preserves p (checkRebuild u.gadget) tt₁ (by rw [hcr.2.2, hcr.1, hcr.2.1]; exact hsz) (by rw [hcr.2.1]; exact hk)
  unfold unionResult unionTouch
  exact ⟨a.2.1.trans b.2.1.symm, a.1.trans b.1.symm, a.2.2.2.1.trans b.2.2.2.1.symm,
    (c.2.2.2.1.trans hcr.1).trans a.2.2.2.1.symm, (c.2.1.trans hcr.2.1).trans a.2.1.symm⟩

/-- `reset()` gives back a fresh union of lg_max_k — PARTIAL: only if the gadget's lg_k has not been reduced
(missing for the full statement: the code re-creates the gadget at its current lg_k, D14). -/
theorem union_reset_partial (p : Params) (u : Un ν) (hk : u.gadget.lgK = u.lgMaxK) (htt : u.gadget.tt = .h8)
    (hsf : u.gadget.startFull = false) : unionReset p u = newUnion p u.lgMaxK := by
  unfold unionReset newUnion reset newSketch
  simp [hk, htt, hsf]

/-! ## Whole histories without precision reduction -/

/-- the gadget invariant after any history without precision reduction -/
theorem union_gadget_inv (p : Params) (hp : p.listFitsSet) (lgMaxK : Nat) (hkb : lgMaxK ≤ p.keyBits) (ops : List UOp)
    (hok : NoReduction ν p lgMaxK ops) :
    GInv p lgMaxK (uRun p (newUnion p lgMaxK : Un ν) ops).gadget (offered ops) :=
  (union_gadget_inv_aux p hp lgMaxK hkb ops (newUnion p lgMaxK) [] rfl (GInv.new p lgMaxK) hok).1

/-- `union_lgk` — PARTIAL (histories without precision reduction; missing: D1 / D14): the result's lg_k is lg_max_k,
whatever the interleaving of updates, raw items, estimate calls and resets, for every result type. -/
theorem union_lgk_partial (p : Params) (hp : p.listFitsSet) (lgMaxK : Nat) (hkb : lgMaxK ≤ p.keyBits) (ops : List UOp)
    (hok : NoReduction ν p lgMaxK ops) (tt : TType) :
    (unionResult p (uRun p (newUnion p lgMaxK : Un ν) ops) tt).lgK = lgMaxK := by
  have hg := union_gadget_inv (ν := ν) p hp lgMaxK hkb ops hok
  have hpre := copyAs_preserves p (uRun p (newUnion p lgMaxK : Un ν) ops).gadget tt
    (fun hm => by rw [(hg.hll hm).size]) (by rw [hg.lgk]; exact hkb)
  exact hpre.2.1.trans hg.lgk

/-- `union_content` — PARTIAL (same histories): the result holds exactly what ONE sketch of lg_max_k fed every item of every
input (the inputs' own coupon streams and the raw items since the last reset) would hold: in HLL mode every register is the
per-slot maximum of all those coupons, in LIST / SET mode the coupon set is exactly the distinct nonzero coupons — nothing
lost, nothing extra, for every result type. -/
theorem union_content_partial (p : Params) (hp : p.listFitsSet) (lgMaxK : Nat) (hkb : lgMaxK ≤ p.keyBits) (ops : List UOp)
    (hok : NoReduction ν p lgMaxK ops) (tt : TType) :
    let r : St ν := unionResult p (uRun p (newUnion p lgMaxK) ops) tt
    (r.mode = .hll → r.regs.size = 2^lgMaxK ∧
      ∀ slot, slot < 2^lgMaxK → IsMaxAt p lgMaxK (fun c => c ∈ offered ops) slot (r.regs.getD slot 0)) ∧
    (r.mode ≠ .hll → r.items.Nodup ∧ ∀ c, c ∈ r.items ↔ (c ∈ offered ops ∧ c ≠ 0)) := by
  intro r
  have hg := union_gadget_inv (ν := ν) p hp lgMaxK hkb ops hok
  have hr : r = copyAs p (uRun p (newUnion p lgMaxK : Un ν) ops).gadget tt := rfl
  generalize (uRun p (newUnion p lgMaxK : Un ν) ops).gadget = g at hg hr
  have hpre := copyAs_preserves p g tt (fun hm => by rw [(hg.hll hm).size]) (by rw [hg.lgk]; exact hkb)
  rw [hr]
  obtain ⟨pm, pk, ptt, pregs, pitems⟩ := hpre
  refine ⟨fun hm => ?_, fun hm => ?_⟩
  · have hgm : g.mode = .hll := pm ▸ hm
    have gh := hg.hll hgm
    rw [pregs]
    refine ⟨by rw [gh.size, hg.lgk], fun slot hs => ?_⟩
    have := gh.regs slot (by rw [hg.lgk]; exact hs)
    rw [hg.lgk] at this
    refine ⟨fun c hc hsl => ?_, ?_⟩
    · by_cases h0 : c = 0
      · subst h0; simp [cValue]
      · exact this.1 c ⟨hc, h0⟩ hsl
    · rcases this.2 with h0 | ⟨c, hc, hsl, hv⟩
      · exact Or.inl h0
      · exact Or.inr ⟨c, hc.1, hsl, hv⟩
  · have hgm : g.mode ≠ .hll := fun e => hm (pm.trans e)
    rw [pitems hgm]
    obtain ⟨cs0, hR, hmem⟩ := hg.nonhll hgm
    refine ⟨(hR.items_perm hgm).nodup_iff.2 (distinct_nodup cs0), fun c => ?_⟩
    rw [hR.mem_items hgm c]
    constructor
    · rintro ⟨h1, h2⟩; exact ⟨(hmem c h2).1 h1, h2⟩
    · rintro ⟨h1, h2⟩; exact ⟨(hmem c h2).2 h1, h2⟩

/-- Two histories without precision reduction that offered the same nonzero coupons give the same result: same lg_k, same
registers when both results are in HLL mode, same coupon set when both are in LIST / SET mode. -/
theorem union_result_determined (p : Params) (hp : p.listFitsSet) (lgMaxK : Nat) (hkb : lgMaxK ≤ p.keyBits) (ops ops' : List UOp)
    (hok : NoReduction ν p lgMaxK ops) (hok' : NoReduction ν p lgMaxK ops') (tt tt' : TType)
    (hsame : ∀ c, c ≠ 0 → (c ∈ offered ops ↔ c ∈ offered ops')) :
    let r : St ν := unionResult p (uRun p (newUnion p lgMaxK) ops) tt
    let r' : St ν := unionResult p (uRun p (newUnion p lgMaxK) ops') tt'
    r.lgK = r'.lgK ∧ (r.mode = .hll → r'.mode = .hll → r.regs = r'.regs) ∧
    (r.mode ≠ .hll → r'.mode ≠ .hll → ∀ c, c ∈ r.items ↔ c ∈ r'.items) := by
  intro r r'
  have a := union_content_partial (ν := ν) p hp lgMaxK hkb ops hok tt
  have b := union_content_partial (ν := ν) p hp lgMaxK hkb ops' hok' tt'
  have la := union_lgk_partial (ν := ν) p hp lgMaxK hkb ops hok tt
  have lb := union_lgk_partial (ν := ν) p hp lgMaxK hkb ops' hok' tt'
  refine ⟨la.trans lb.symm, fun hm hm' => ?_, fun hm hm' c => ?_⟩
  · have a1 := a.1 hm
    have b1 := b.1 hm'
    apply Array.ext
    · rw [a1.1, b1.1]
    · intro i h1 h2
      rw [← getD_eq_getElem (d := 0) h1, ← getD_eq_getElem (d := 0) h2]
      have hi : i < 2^lgMaxK := by rw [← a1.1]; exact h1
      refine IsMaxAt.unique (a1.2 i hi) ?_
      have b2 := b1.2 i hi
      refine ⟨fun x hx hsl => ?_, ?_⟩
      · by_cases h0 : x = 0
        · subst h0; simp [cValue]
        · exact b2.1 x ((hsame x h0).1 hx) hsl
      · rcases b2.2 with h0 | ⟨x, hx, hsl, hv⟩
        · exact Or.inl h0
        · by_cases h0 : x = 0
          · subst h0; left; rw [← hv]; simp [cValue]
          · exact Or.inr ⟨x, (hsame x h0).2 hx, hsl, hv⟩
  · rw [(a.2 hm).2 c, (b.2 hm').2 c]
    constructor
    · rintro ⟨h1, h2⟩; exact ⟨(hsame c h2).1 h1, h2⟩
    · rintro ⟨h1, h2⟩; exact ⟨(hsame c h2).2 h1, h2⟩

/-- `union_perm_invariant` — PARTIAL (histories without precision reduction and without reset): presenting the same
updates in another order gives the same result. -/
theorem union_perm_invariant_partial (p : Params) (hp : p.listFitsSet) (lgMaxK : Nat) (hkb : lgMaxK ≤ p.keyBits)
    (ops ops' : List UOp) (hperm : ops.Perm ops') (hnr : ∀ o, o ∈ ops → o ≠ .reset)
    (hok : NoReduction ν p lgMaxK ops) (tt : TType) :
    let r : St ν := unionResult p (uRun p (newUnion p lgMaxK) ops) tt
    let r' : St ν := unionResult p (uRun p (newUnion p lgMaxK) ops') tt
    r.lgK = r'.lgK ∧ (r.mode = .hll → r'.mode = .hll → r.regs = r'.regs) ∧
    (r.mode ≠ .hll → r'.mode ≠ .hll → ∀ c, c ∈ r.items ↔ c ∈ r'.items) := by
  have hok' : NoReduction ν p lgMaxK ops' := fun o ho => hok o (hperm.mem_iff.2 ho)
  have hnr' : ∀ o, o ∈ ops' → o ≠ .reset := fun o ho => hnr o (hperm.mem_iff.2 ho)
  refine union_result_determined (ν := ν) p hp lgMaxK hkb ops ops' hok hok' tt tt ?_
  intro c _
  unfold offered
  rw [mem_offered_aux ops [] c hnr, mem_offered_aux ops' [] c hnr']
  constructor
  · rintro (h1 | ⟨o, ho, h1⟩)
    · exact Or.inl h1
    · exact Or.inr ⟨o, hperm.mem_iff.1 ho, h1⟩
  · rintro (h1 | ⟨o, ho, h1⟩)
    · exact Or.inl h1
    · exact Or.inr ⟨o, hperm.mem_iff.2 ho, h1⟩

/-- `union_get_result_pure` for estimate calls — PARTIAL (histories without precision reduction): an interleaved
get_estimate / get_composite_estimate / bound call does not change any later result. -/
theorem union_estimate_pure_partial (p : Params) (hp : p.listFitsSet) (lgMaxK : Nat) (hkb : lgMaxK ≤ p.keyBits)
    (ops₁ ops₂ : List UOp) (hok : NoReduction ν p lgMaxK (ops₁ ++ ops₂)) (tt : TType) :
    let r : St ν := unionResult p (uRun p (newUnion p lgMaxK) (ops₁ ++ ops₂)) tt
    let r' : St ν := unionResult p (uRun p (newUnion p lgMaxK) (ops₁ ++ [.touch] ++ ops₂)) tt
    r.lgK = r'.lgK ∧ (r.mode = .hll → r'.mode = .hll → r.regs = r'.regs) ∧
    (r.mode ≠ .hll → r'.mode ≠ .hll → ∀ c, c ∈ r.items ↔ c ∈ r'.items) := by
  have hok' : NoReduction ν p lgMaxK (ops₁ ++ [.touch] ++ ops₂) := by
    intro o ho
    simp only [List.mem_append, List.mem_singleton] at ho
    rcases ho with (ho | ho) | ho
    · exact hok o (List.mem_append_left _ ho)
    · subst ho; trivial
    · exact hok o (List.mem_append_right _ ho)
  refine union_result_determined (ν := ν) p hp lgMaxK hkb _ _ hok hok' tt tt ?_
  intro c _
  have e : offered (ops₁ ++ [.touch] ++ ops₂) = offered (ops₁ ++ ops₂) := by
    simp [offered, List.foldl_append, offeredStep]
  rw [e]

/-- lvalue / rvalue independence — PARTIAL (histories without precision reduction): turning any lvalue update into an
rvalue update (adoption shortcut) or back does not change the result. -/
def flipRv : UOp → UOp
  | .merge d rv => .merge d (!rv)
  | o => o

theorem union_lvalue_eq_rvalue_partial (p : Params) (hp : p.listFitsSet) (lgMaxK : Nat) (hkb : lgMaxK ≤ p.keyBits)
    (ops : List UOp) (flip : UOp → Bool) (hok : NoReduction ν p lgMaxK ops) (tt : TType) :
    let ops' := ops.map (fun o => if flip o then flipRv o else o)
    let r : St ν := unionResult p (uRun p (newUnion p lgMaxK) ops) tt
    let r' : St ν := unionResult p (uRun p (newUnion p lgMaxK) ops') tt
    r.lgK = r'.lgK ∧ (r.mode = .hll → r'.mode = .hll → r.regs = r'.regs) ∧
    (r.mode ≠ .hll → r'.mode ≠ .hll → ∀ c, c ∈ r.items ↔ c ∈ r'.items) := by
  intro ops'
  have hstep : ∀ (acc : List Nat) (o : UOp), offeredStep acc (if flip o then flipRv o else o) = offeredStep acc o := by
    intro acc o
    by_cases hf : flip o = true
    · rw [if_pos hf]; cases o <;> rfl
    · rw [if_neg hf]
  have hoff : ∀ (l : List UOp) (acc : List Nat),
      (l.map (fun o => if flip o then flipRv o else o)).foldl offeredStep acc = l.foldl offeredStep acc := by
    intro l
    induction l with
    | nil => intro acc; rfl
    | cons o t ih => intro acc; simp only [List.map_cons, List.foldl_cons]; rw [hstep, ih]
  have hok' : NoReduction ν p lgMaxK ops' := by
    intro o ho
    rcases List.mem_map.1 ho with ⟨o0, ho0, rfl⟩
    have := hok o0 ho0
    by_cases hf : flip o0 = true
    · rw [if_pos hf]; cases o0 <;> exact this
    · rw [if_neg hf]; exact this
  refine union_result_determined (ν := ν) p hp lgMaxK hkb ops ops' hok hok' tt tt ?_
  intro c _
  unfold offered
  rw [hoff ops []]

/-! Non-vacuity: concrete sketches meet the hypotheses (via C03's `hll_regs_max`), and a concrete union behaves as stated. -/
def exDst : St Unit := run uP (newSketch uP 4 .h8 true) [cPair uP 1 1, cPair uP 5 3]
def exSrc : St Unit := run uP (newSketch uP 6 .h4 true) [cPair uP 3 2, cPair uP 21 4, cPair uP 37 6]
example : exDst.lgK ≤ exSrc.lgK ∧ exDst.regs.size = 2^exDst.lgK ∧ exSrc.regs.size = 2^exSrc.lgK := by decide +kernel
example : ∀ j, j < 2^4 → IsMaxAt uP 4 (fun c => c ∈ [cPair uP 1 1, cPair uP 5 3]) j (exDst.regs.getD j 0) :=
  (hll_regs_max uP (by decide) 4 .h8 true [cPair uP 1 1, cPair uP 5 3] (by decide +kernel)).2
example : ∀ i, i < 2^6 → IsMaxAt uP 6 (fun c => c ∈ [cPair uP 3 2, cPair uP 21 4, cPair uP 37 6]) i (exSrc.regs.getD i 0) :=
  (hll_regs_max uP (by decide) 6 .h4 true [cPair uP 3 2, cPair uP 21 4, cPair uP 37 6] (by decide +kernel)).2
/-- slots 21 and 37 of the lg_k 6 source both fold onto slot 5 of the lg_k 4 gadget: max(3, 4, 6) = 6 -/
example : (mergeHll exDst exSrc).regs.getD 5 0 = 6 ∧ (mergeHll exDst exSrc).regs.getD 3 0 = 2 ∧
    (mergeHll exDst exSrc).regs.getD 1 0 = 1 := by decide +kernel
example : (copyOrDownsample uP exSrc 4).lgK = 4 ∧ (copyOrDownsample uP exSrc 4).regs.getD 5 0 = 6 := by decide +kernel
/-- a healthy history (no precision reduction): union(6) ← C, raw coupon, estimate, result as HLL_4 -/
def wD : SkDesc := { lgK := 6, tt := .h6, sf := false, cs := (List.range 9).map fun i => cPair uP (2 + 3 * i) (3 + i) }
def exU : Un Unit := uRun uP (newUnion uP 6) [.merge wD false, .coupon (cPair uP 9 7), .touch]
example : exU.gadget.lgK = exU.lgMaxK ∧ exU.gadget.tt = .h8 ∧ exU.gadget.startFull = false ∧
    (exU.gadget.mode = .hll → exU.gadget.regs.size = 2^exU.gadget.lgK) ∧ exU.gadget.lgK ≤ uP.keyBits := by decide +kernel
example : (unionResult uP exU .h4).regs.getD 9 0 = 7 ∧ (unionResult uP exU .h4).regs.getD 2 0 = 3 := by decide +kernel

/-- a history without precision reduction: an HLL-mode input of lg_k = lg_max_k = 6, a LIST-mode input of lg_k 9, raw items,
an estimate call and a reset in between -/
def wL : SkDesc := { lgK := 9, tt := .h4, sf := false, cs := [cPair uP 300 2, cPair uP 5 1, cPair uP 300 2] }
def exOps : List UOp :=
  [.merge wL false, .coupon (cPair uP 9 7), .merge wD true, .touch, .coupon (cPair uP 70 3), .reset, .merge wC true, .merge wL false]
example : NoReduction Unit uP 6 exOps := by
  intro op hop
  simp only [exOps, List.mem_cons, List.not_mem_nil, or_false] at hop
  rcases hop with rfl | rfl | rfl | rfl | rfl | rfl | rfl | rfl <;> decide +kernel
example : uP.listFitsSet ∧ 6 ≤ uP.keyBits := by decide
example : (unionResult uP (uRun uP (newUnion uP 6 : Un Unit) exOps) .h6).mode = .hll ∧
    (unionResult uP (uRun uP (newUnion uP 6 : Un Unit) exOps) .h6).regs.getD (300 % 64) 0 = 2 := by decide +kernel

end DS.Hll

/-
C04 — HLL union equals the sketch of the concatenated streams at reduced precision.

ONLY property theorems and their non-vacuity examples live here (helper lemmas: Lemmas/HllUnion.lean).
Model: DSModel/Hll/Union.lean (L1 model of hll_union as coded, tied to HllUnion-internal.hpp by `./check C04`).
A history is a list of `UOp`s (update with an lvalue / rvalue sketch described by its own configuration and coupon
stream, raw coupon, estimate call, reset) applied to a fresh union of `lgMaxK`.

The CURRENT code violates the full-strength statements (two defects, rediscovered by the check and replayed on the real
headers every run, see known_findings.json / proposed_fixes/C04-*):
  D1  a down-sampled gadget still has cur_min = 0, num_at_cur_min = k, reports isEmpty and is replaced by the next input;
  D14 reset() keeps the gadget's reduced lg_k.
So the file carries `…_full : Prop` (the statement), `…_full_false` (kernel-checked refutation of it for the model of the
current code, with the concrete witness) and `…_partial` (what is proved).
-/
import DSProofs.Lemmas.HllUnion
import DSProofs.Props.C03
namespace DS.Hll

/-- the tunables of the code -/
def uP : Params := {}

/-! ## Full-strength statements -/

/-- result content = that of ONE sketch of the result's lg_k that saw every item of every input (nothing lost, nothing extra):
coupons exact in LIST/SET mode, every register the per-slot maximum in HLL mode. -/
def union_content_full : Prop :=
  ∀ (lgMaxK : Nat) (ops : List UOp) (tt : TType),
    let r : St Unit := unionResult uP (uRun uP (newUnion uP lgMaxK) ops) tt
    (r.mode = .hll → ∀ slot, slot < 2^r.lgK → IsMaxAt uP r.lgK (fun c => c ∈ offered ops) slot (r.regs.getD slot 0)) ∧
    (r.mode ≠ .hll → ∀ c, c ∈ r.items ↔ (c ∈ offered ops ∧ c ≠ 0))

/-- result lg_k = min(lg_max_k, lg_k of every (non-empty) HLL-mode input since the last reset) -/
def union_lgk_full : Prop :=
  ∀ (lgMaxK : Nat) (ops : List UOp) (tt : TType),
    (unionResult uP (uRun uP (newUnion uP lgMaxK : Un Unit) ops) tt).lgK = expectedLgK uP lgMaxK ops

/-- the result does not depend on the order of presentation -/
def union_perm_invariant_full : Prop :=
  ∀ (lgMaxK : Nat) (ops ops' : List UOp) (tt : TType), ops.Perm ops' →
    (∀ o ∈ ops, match o with | .merge _ _ => True | .coupon _ => True | _ => False) →
    let r : St Unit := unionResult uP (uRun uP (newUnion uP lgMaxK) ops) tt
    let r' : St Unit := unionResult uP (uRun uP (newUnion uP lgMaxK) ops') tt
    r.lgK = r'.lgK ∧ r.mode = r'.mode ∧ r.regs = r'.regs

/-- interleaved estimate calls do not change later results -/
def union_estimate_pure_full : Prop :=
  ∀ (lgMaxK : Nat) (ops₁ ops₂ : List UOp) (tt : TType),
    let r : St Unit := unionResult uP (uRun uP (newUnion uP lgMaxK) (ops₁ ++ ops₂)) tt
    let r' : St Unit := unionResult uP (uRun uP (newUnion uP lgMaxK) (ops₁ ++ [.touch] ++ ops₂)) tt
    r.lgK = r'.lgK ∧ r.mode = r'.mode ∧ r.regs = r'.regs

/-- reset ≙ a fresh union of lg_max_k -/
def union_reset_full : Prop :=
  ∀ (lgMaxK : Nat) (ops : List UOp),
    (uRun uP (newUnion uP lgMaxK : Un Unit) (ops ++ [.reset])).gadget.lgK = lgMaxK

/-! ## Refutations on the model of the current code (witnesses replayed by corpus/regress/C04/*.txt) -/

/-- A: HLL mode (start-full), lg_k 5, one item in slot 3 with value 2 -/
def wA : SkDesc := { lgK := 5, tt := .h8, sf := true, cs := [cPair uP 3 2] }
/-- B: HLL mode (start-full), lg_k 4, one item in slot 1 with value 1 -/
def wB : SkDesc := { lgK := 4, tt := .h8, sf := true, cs := [cPair uP 1 1] }
/-- C: HLL mode (start-full), lg_k 6 -/
def wC : SkDesc := { lgK := 6, tt := .h8, sf := true, cs := [cPair uP 2 3] }

/-- D1: union(4) ← A ← B loses A (slot 3 should hold 2, holds 0). -/
theorem union_content_full_false : ¬ union_content_full := by
  intro h
  have h1 := (h 4 [.merge wA false, .merge wB false] .h8).1 (by decide +kernel) 3 (by decide +kernel)
  have h2 := h1.1 (cPair uP 3 2) (by decide +kernel) (by decide +kernel)
  revert h2
  decide +kernel

/-- D1: A, B and B, A give different registers. -/
theorem union_perm_invariant_full_false : ¬ union_perm_invariant_full := by
  intro h
  have h1 := h 4 [.merge wA false, .merge wB false] [.merge wB false, .merge wA false] .h8
    (List.Perm.swap _ _ _) (by intro o ho; simp at ho; rcases ho with rfl | rfl <;> trivial)
  revert h1
  decide +kernel

/-- D1: an estimate call between the two updates changes the result. -/
theorem union_estimate_pure_full_false : ¬ union_estimate_pure_full := by
  intro h
  have h1 := h 4 [.merge wA false] [.merge wB false] .h8
  revert h1
  decide +kernel

/-- D1: union(6) ← C (lg_k 6) ← B (lg_k 4: gadget down-sampled to 4) ← C again: the gadget is replaced and is back at lg_k 6. -/
theorem union_lgk_full_false : ¬ union_lgk_full := by
  intro h
  have h1 := h 6 [.merge wC false, .merge wB false, .merge wC false] .h8
  revert h1
  decide +kernel

/-- D14: union(6) ← B (lg_k 4), reset(): the union restarts at lg_k 4. -/
theorem union_reset_full_false : ¬ union_reset_full := by
  intro h
  have h1 := h 6 [.merge wB false]
  revert h1
  decide +kernel

/-! ## What is proved (for every tunable set, numeric instance, lg_k, history …) -/

variable {ν : Type} [HNum ν]

/-- Mechanism of `mergeHll` (same-k path and down-sampling path alike): if the gadget's registers are the per-slot maxima of
the coupon set `M` at lg_k and the source's registers the per-slot maxima of `N` at a precision ≥ lg_k, then after the merge
they are the per-slot maxima of `M ∪ N` at lg_k — nothing lost, nothing invented (`slot & mask`, `max`). -/
theorem union_merge_content (p : Params) (dst src : St ν) (M N : Nat → Prop)
    (hle : dst.lgK ≤ src.lgK) (hd : dst.regs.size = 2^dst.lgK) (hs : src.regs.size = 2^src.lgK)
    (hM : ∀ j, j < 2^dst.lgK → IsMaxAt p dst.lgK M j (dst.regs.getD j 0))
    (hN : ∀ i, i < 2^src.lgK → IsMaxAt p src.lgK N i (src.regs.getD i 0)) :
    (mergeHll dst src).lgK = dst.lgK ∧ (mergeHll dst src).regs.size = 2^dst.lgK ∧
    ∀ j, j < 2^dst.lgK → IsMaxAt p dst.lgK (fun c => M c ∨ N c) j ((mergeHll dst src).regs.getD j 0) :=
  ⟨rfl, (mergeRegs_spec dst.regs dst.lgK src.regs hd).1, mergeRegs_content p hle hd hs hM hN⟩

/-- `copy_or_downsample` to a smaller lg_k keeps exactly the source's content, folded. -/
theorem union_downsample_content (p : Params) (src : St ν) (tgt : Nat) (N : Nat → Prop)
    (hlt : tgt < src.lgK) (hs : src.regs.size = 2^src.lgK)
    (hN : ∀ i, i < 2^src.lgK → IsMaxAt p src.lgK N i (src.regs.getD i 0)) :
    (copyOrDownsample p src tgt).lgK = tgt ∧ (copyOrDownsample p src tgt).mode = .hll ∧
    ∀ j, j < 2^tgt → IsMaxAt p tgt N j ((copyOrDownsample p src tgt).regs.getD j 0) := by
  unfold copyOrDownsample
  rw [if_neg (by omega)]
  refine ⟨rfl, rfl, fun j hj => ?_⟩
  have h := mergeRegs_content p (M := fun _ => False) (N := N) (dst := (newHll tgt .h8 false : St ν).regs)
    (Nat.le_of_lt hlt) (by simp [newHll]) hs (by
      intro j hj
      refine ⟨fun c hc => absurd hc (by simp), Or.inl ?_⟩
      simp [newHll, Array.getD_eq_getD_getElem?, hj]) hN j hj
  exact IsMaxAt.congr (by simp) h

/-- `get_result` is pure and type-independent: it does not touch the union, every target type yields the same lg_k, mode and
registers, and so does a result taken after an estimate call (which only rebuilds the derived counters). -/
theorem union_get_result_pure (p : Params) (u : Un ν) (tt₁ tt₂ : TType)
    (hsz : u.gadget.mode = .hll → u.gadget.regs.size = 2^u.gadget.lgK) (hk : u.gadget.lgK ≤ p.keyBits) :
    (unionResult p u tt₁).lgK = (unionResult p u tt₂).lgK ∧ (unionResult p u tt₁).mode = (unionResult p u tt₂).mode ∧
    (unionResult p u tt₁).regs = (unionResult p u tt₂).regs ∧
    (unionResult p (unionTouch u) tt₁).regs = (unionResult p u tt₁).regs ∧
    (unionResult p (unionTouch u) tt₁).lgK = (unionResult p u tt₁).lgK := by
  have a := copyAs_preserves p u.gadget tt₁ hsz hk
  have b := copyAs_preserves p u.gadget tt₂ hsz hk
  have hcr : (checkRebuild u.gadget).regs = u.gadget.regs ∧ (checkRebuild u.gadget).lgK = u.gadget.lgK ∧
      (checkRebuild u.gadget).mode = u.gadget.mode := by
    unfold checkRebuild
    by_cases hc : u.gadget.mode = .hll ∧ u.gadget.rebuild = true
    · rw [if_pos hc]; exact ⟨rfl, rfl, rfl⟩
    · rw [if_neg hc]; exact ⟨rfl, rfl, rfl⟩
  have c := copyAs_preserves p (checkRebuild u.gadget) tt₁ (by rw [hcr.2.2, hcr.1, hcr.2.1]; exact hsz) (by rw [hcr.2.1]; exact hk)
  unfold unionResult unionTouch
  exact ⟨a.2.1.trans b.2.1.symm, a.1.trans b.1.symm, a.2.2.2.1.trans b.2.2.2.1.symm,
    (c.2.2.2.1.trans hcr.1).trans a.2.2.2.1.symm, (c.2.1.trans hcr.2.1).trans a.2.1.symm⟩

/-- `reset()` gives back a fresh union of lg_max_k — PARTIAL: only if the gadget's lg_k has not been reduced
(missing for the full statement: the code re-creates the gadget at its current lg_k, D14). -/
theorem union_reset_partial (p : Params) (u : Un ν) (hk : u.gadget.lgK = u.lgMaxK) (htt : u.gadget.tt = .h8)
    (hsf : u.gadget.startFull = false) : unionReset p u = newUnion p u.lgMaxK := by
  unfold unionReset newUnion reset newSketch
  simp [hk, htt, hsf]

/-! Non-vacuity: concrete sketches meet the hypotheses (via C03's `hll_regs_max`), and a concrete union behaves as stated. -/
def exDst : St Unit := run uP (newSketch uP 4 .h8 true) [cPair uP 1 1, cPair uP 5 3]
def exSrc : St Unit := run uP (newSketch uP 6 .h4 true) [cPair uP 3 2, cPair uP 21 4, cPair uP 37 6]
example : exDst.lgK ≤ exSrc.lgK ∧ exDst.regs.size = 2^exDst.lgK ∧ exSrc.regs.size = 2^exSrc.lgK := by decide +kernel
example : ∀ j, j < 2^4 → IsMaxAt uP 4 (fun c => c ∈ [cPair uP 1 1, cPair uP 5 3]) j (exDst.regs.getD j 0) :=
  (hll_regs_max uP (by decide) 4 .h8 true [cPair uP 1 1, cPair uP 5 3] (by decide +kernel)).2
example : ∀ i, i < 2^6 → IsMaxAt uP 6 (fun c => c ∈ [cPair uP 3 2, cPair uP 21 4, cPair uP 37 6]) i (exSrc.regs.getD i 0) :=
  (hll_regs_max uP (by decide) 6 .h4 true [cPair uP 3 2, cPair uP 21 4, cPair uP 37 6] (by decide +kernel)).2
/-- slots 21 and 37 of the lg_k 6 source both fold onto slot 5 of the lg_k 4 gadget: max(3, 4, 6) = 6 -/
example : (mergeHll exDst exSrc).regs.getD 5 0 = 6 ∧ (mergeHll exDst exSrc).regs.getD 3 0 = 2 ∧
    (mergeHll exDst exSrc).regs.getD 1 0 = 1 := by decide +kernel
example : (copyOrDownsample uP exSrc 4).lgK = 4 ∧ (copyOrDownsample uP exSrc 4).regs.getD 5 0 = 6 := by decide +kernel
/-- a healthy history (no precision reduction): union(6) ← C, raw coupon, estimate, result as HLL_4 -/
def wD : SkDesc := { lgK := 6, tt := .h6, sf := false, cs := (List.range 9).map fun i => cPair uP (2 + 3 * i) (3 + i) }
def exU : Un Unit := uRun uP (newUnion uP 6) [.merge wD false, .coupon (cPair uP 9 7), .touch]
example : exU.gadget.lgK = exU.lgMaxK ∧ exU.gadget.tt = .h8 ∧ exU.gadget.startFull = false ∧
    (exU.gadget.mode = .hll → exU.gadget.regs.size = 2^exU.gadget.lgK) ∧ exU.gadget.lgK ≤ uP.keyBits := by decide +kernel
example : (unionResult uP exU .h4).regs.getD 9 0 = 7 ∧ (unionResult uP exU .h4).regs.getD 2 0 = 3 := by decide +kernel

end DS.Hll

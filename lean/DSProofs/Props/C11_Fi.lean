/-
C11 (frequent-items part) — truncated images are rejected; `num_items` cannot make the specification reader
materialise more than the input holds.

ONLY property theorems + non-vacuity examples.  Model: DSModel/Wire/Fi.lean; for every constant set, every lawful
item serde, every well-formed image, EVERY prefix length.  No padding disjunct: a frequent-items image has no
information-free tail.  The real readers are held to this verdict by the exhaustive-prefix runs of `./check c11_count`.
-/
import DSProofs.Props.C09_Fi
namespace DS.Wire.Fi
open DS.Wire

variable {ι : Type}

theorem decodeBody_PS (sd : Serde ι) (hsd : sd.Lawful) (e : Bool) : PS (decodeBody sd e) := by
  unfold decodeBody
  split
  · exact PS_pure _
  · exact PS_bind _ _ (PS_leNat 4) (fun n => PS_bind _ _ (PS_skip 4) (fun _ => PS_bind _ _ (PS_leNat 8) (fun _ =>
      PS_bind _ _ (PS_leNat 8) (fun _ => PS_bind _ _ (PS_decU64s n) (fun _ => PS_bind _ _ (PS_decItems sd hsd n) (fun _ => PS_pure _))))))

/-- the documented reader is prefix-safe -/
theorem decode_PS (c : FiConsts) (sd : Serde ι) (hsd : sd.Lawful) : PS (decode c sd) :=
  PS_bind _ _ (PS_leNat 1) (fun _ => PS_bind _ _ (PS_leNat 1) (fun _ => PS_bind _ _ (PS_leNat 1) (fun _ =>
  PS_bind _ _ (PS_leNat 1) (fun _ => PS_bind _ _ (PS_leNat 1) (fun _ => PS_bind _ _ (PS_leNat 1) (fun _ =>
  PS_bind _ _ (PS_skip 2) (fun _ =>
  PS_bind _ _ (PS_guard _) (fun _ => PS_bind _ _ (PS_guard _) (fun _ => PS_bind _ _ (PS_guard _) (fun _ => PS_bind _ _ (PS_guard _) (fun _ =>
  PS_bind _ _ (decodeBody_PS sd hsd _) (fun _ => PS_pure _))))))))))))

/-- **every strict prefix of every valid image is rejected** -/
theorem prefix_rejected (c : FiConsts) (hc : c.ok) (sd : Serde ι) (hsd : sd.Lawful) (s : Image ι) (hs : WF c sd s)
    (n : Nat) (hn : n < (encode c sd s).length) : decode c sd ((encode c sd s).take n) = none :=
  prefix_rejected' (decode c sd) (decode_PS c sd hsd) (encode c sd s) s (decode_encode c hc sd hsd s hs) n hn

theorem decodeBody_bounded (sd : Serde ι) (hsd : sd.Lawful) (e : Bool) (b r : Bytes) (body : Option (Body ι))
    (h : decodeBody sd e b = some (body, r)) :
    (match body with | none => 0 | some x => x.weights.length + x.items.length) ≤ b.length := by
  unfold decodeBody at h
  split at h
  · obtain ⟨hb, _⟩ := pure_some h; subst hb; simp
  · obtain ⟨n, r1, h1, h⟩ := bind_some h
    obtain ⟨_, r2, h2, h⟩ := bind_some h
    obtain ⟨tw, r3, h3, h⟩ := bind_some h
    obtain ⟨off, r4, h4, h⟩ := bind_some h
    obtain ⟨ws, r5, h5, h⟩ := bind_some h
    obtain ⟨its, r6, h6, h⟩ := bind_some h
    obtain ⟨hb, _⟩ := pure_some h
    subst hb
    have l1 := leNat_rem 4 _ _ _ h1
    have l2 := (PS_skip 4).rem_le h2
    have l3 := (PS_leNat 8).rem_le h3
    have l4 := (PS_leNat 8).rem_le h4
    have l5 := decU64s_count _ _ _ _ h5
    have l6 := decItems_count sd hsd _ _ _ _ h6
    simp only
    omega

/-- **bounded**: whatever bytes are accepted, the number of weights plus items of the result is at most the input length -/
theorem decode_bounded (c : FiConsts) (sd : Serde ι) (hsd : sd.Lawful) (b r : Bytes) (s : Image ι)
    (h : decode c sd b = some (s, r)) : count s ≤ b.length := by
  simp only [decode] at h
  obtain ⟨pre, r1, h1, h⟩ := bind_some h
  obtain ⟨sv, r2, h2, h⟩ := bind_some h
  obtain ⟨fam, r3, h3, h⟩ := bind_some h
  obtain ⟨lgMax, r4, h4, h⟩ := bind_some h
  obtain ⟨lgCur, r5, h5, h⟩ := bind_some h
  obtain ⟨flags, r6, h6, h⟩ := bind_some h
  obtain ⟨_, r7, h7, h⟩ := bind_some h
  obtain ⟨_, r8, g1, h⟩ := bind_some h
  obtain ⟨_, r9, g2, h⟩ := bind_some h
  obtain ⟨_, r10, g3, h⟩ := bind_some h
  obtain ⟨_, r11, g4, h⟩ := bind_some h
  obtain ⟨body, r12, hbody, h⟩ := bind_some h
  obtain ⟨hs, _⟩ := pure_some h
  have l1 := (PS_leNat 1).rem_le h1
  have l2 := (PS_leNat 1).rem_le h2
  have l3 := (PS_leNat 1).rem_le h3
  have l4 := (PS_leNat 1).rem_le h4
  have l5 := (PS_leNat 1).rem_le h5
  have l6 := (PS_leNat 1).rem_le h6
  have l7 := (PS_skip 2).rem_le h7
  have l8 : r8.length ≤ r7.length := by rw [(guard_some g1).2]; exact Nat.le_refl _
  have l9 : r9.length ≤ r8.length := by rw [(guard_some g2).2]; exact Nat.le_refl _
  have l10 : r10.length ≤ r9.length := by rw [(guard_some g3).2]; exact Nat.le_refl _
  have l11 : r11.length ≤ r10.length := by rw [(guard_some g4).2]; exact Nat.le_refl _
  have hb := decodeBody_bounded sd hsd _ _ _ _ hbody
  subst hs
  simp only [count]
  cases body with
  | none => simp
  | some x => simp only at hb ⊢; omega

/-- non-vacuity: a 58-byte string-item image; the executable reader rejects its 57-byte prefix and the 33-byte one -/
example : (encode generated serdeStr { lgMax := 3, lgCur := 3, body := some { totalWeight := 5, offset := 0, weights := [4, 1], items := [[0x61, 0x62], []] } }).length = 58 := by
  decide
example : (decode generated serdeStr ((encode generated serdeStr { lgMax := 3, lgCur := 3, body := some { totalWeight := 5, offset := 0, weights := [4, 1], items := [[0x61, 0x62], []] } }).take 57)).isNone = true := by
  decide
example : (decode generated serdeStr ((encode generated serdeStr { lgMax := 3, lgCur := 3, body := some { totalWeight := 5, offset := 0, weights := [4, 1], items := [[0x61, 0x62], []] } }).take 33)).isNone = true := by
  decide

end DS.Wire.Fi

/-
C08 (part "quantiles") — ranks of the classic `quantiles_sketch` are unbiased over the coin flips and stride offsets,
and the number of random choices does not depend on their outcomes.

ONLY property theorems and their non-vacuity examples live here (helper lemmas: Lemmas/Quantiles*.lean).
Model: DSModel/Quantiles/*.lean; a history `ops` (see Props/C07_Quantiles.lean) is a choice tree `runHist c lim ops`
whose nodes are the coins of `zip_buffer` (arity 2) and the offsets of `zip_buffer_with_stride` (arity = the
down-sampling factor).  `arHist c lim ops` is the sequence of arities computed from the operands' `(k, n)` alone,
`truthHist` the accepted items per object.  Sums run over ALL leaves = all coin vectors and stride offsets.
The theorems of this file need NOTHING of the comparator (it may be any Boolean function): unbiasedness does not
depend on levels being sorted.
Not decided here (DESIGN.md §5): "normalized rank error within get_normalized_rank_error as often as claimed".
-/
import DSProofs.Lemmas.QuantilesHist
import DSProofs.Lemmas.QuantilesFacts
import DSProofs.Props.C07_Quantiles
namespace DS.Quantiles

variable {α : Type}

/-- **compaction_balanced (coin)**: the evens and the odds of any buffer together count every item once -/
theorem C08q_compaction_balanced (p : α → Bool) (l : List α) :
    (strided 2 0 l).countP p + (strided 2 1 l).countP p = l.countP p :=
  strided_two_countP p l

example : (strided 2 0 [1, 2, 3, 4, 5, 6]).countP (· ≤ 3) + (strided 2 1 [1, 2, 3, 4, 5, 6]).countP (· ≤ 3) = 3 := by decide

/-- **compaction_balanced (stride)**: for every stride `s > 0`, every list and every predicate (in particular
`· ≤ y` and `· < y`), `Σ_{o<s} cnt(every s-th item from offset o) = cnt(list)` -/
theorem C08q_compaction_balanced_stride (p : α → Bool) (s : Nat) (hs : 0 < s) (l : List α) :
    Tree.sumRange s (fun o => (strided s o l).countP p) = l.countP p :=
  strided_countP_sum p s hs l

example : Tree.sumRange 4 (fun o => (strided 4 o [1, 2, 3, 4, 5, 6, 7, 8]).countP (· ≤ 5)) = 5 := by decide

/-- **flips_shape_only**: every path of the choice tree of a history consumes exactly the arity sequence
`arHist c lim ops`, which is computed from the `(k, n)` of the operands only (never from items or coin values);
and at every leaf the shape of every object is the one predicted: `(k, n)` as in `knHist`, `bit_pattern = n / 2k`,
base buffer of `n mod 2k` items, `bitLen(bit_pattern)` levels, level `i` of `k` or 0 items according to bit `i` -/
theorem C08q_flips_shape_only (c : Cmp α) (lim : Limits) (hlim : 0 < lim.minK) (ops : List (Op α)) :
    (runHist c lim ops).Uniform (arHist c lim ops) ∧
    (runHist c lim ops).All (fun st => ∀ id,
      match st.get? id, aget (knHist c lim ops).1 id with
      | some s, some kn => s.k = kn.1 ∧ s.n = kn.2 ∧ s.bits = s.n / (2 * s.k) ∧ s.bb.length = s.n % (2 * s.k) ∧
          s.levels.length = bitLen s.bits ∧ LevelsShape (fun _ => True) s.k s.levels s.bits
      | none, none => True
      | _, _ => False) := by
  have hsp := hist_spec c lim hlim (fun _ => true) (sortOK_true c.lt) (relC_ok c _) ops 0
  refine ⟨hsp.uni, hsp.all.mono ?_⟩
  intro st hst id
  have hok := hst id
  cases hg : st.get? id with
  | none => rw [hg] at hok; obtain ⟨_, hk⟩ := hok.of_none; simp [hk]
  | some s =>
    rw [hg] at hok
    obtain ⟨items, kk, nn, _, hk, hi, _, hsk, hsn⟩ := hok.of_some
    simp only [hk]
    exact ⟨hsk, hsn, hi.bits_eq, hi.bb_len, hi.lv_len, hi.lv_shape⟩

/-- the same along a recorded stream: the log of arities requested from the source is `arHist`, whatever the values -/
theorem C08q_flips_shape_only_run (c : Cmp α) (lim : Limits) (hlim : 0 < lim.minK) (ops : List (Op α)) (src : Tree.Src) :
    ((runHist c lim ops).run src).2.log = (arHist c lim ops).reverse ++ src.log ∧
    ((runHist c lim ops).run src).2.q = src.q.drop (arHist c lim ops).length :=
  (C08q_flips_shape_only c lim hlim ops).1.run_log src

/-- the hypotheses are met by the demo history of Props/C07 (limits as in the header: MIN_K = 2); its arity
sequence is `[2, 2, 2]` (`#eval arHist intCmp demoLim demoOps`): the coin of the compaction of object 0 (k = 2, n = 4),
the coin of the compaction of object 1 (k = 4, n = 8) and the stride offset (arity 2) of the down-sampling merge -/
example : 0 < demoLim.minK := by decide

/-- **quantiles_unbiased**: for every history, every object `id` and every predicate `p` on items (`· ≤ y`, `· < y`,
any other): the retained weight satisfying `p`, summed over ALL coin vectors and stride offsets, equals
`(∏ arities) · #{accepted items satisfying p}`; the number of leaves is `∏ arities` (= `2^F · ∏ strides`) -/
theorem C08q_quantiles_unbiased (c : Cmp α) (lim : Limits) (hlim : 0 < lim.minK) (ops : List (Op α)) (id : Nat)
    (p : α → Bool) :
    (runHist c lim ops).sum (Wst p id) = prodAr (arHist c lim ops) * Ttr p id (truthHist c lim ops) ∧
    (runHist c lim ops).leafCount = prodAr (arHist c lim ops) := by
  have hsp := hist_spec c lim hlim p (sortOK_true c.lt) (relC_ok c _) ops id
  exact ⟨hsp.sum, hsp.uni.leafCount⟩

/-- the same identity with the leaves enumerated as explicit choice vectors `v` (`v_j < arity_j`) fed through the
random source, exactly what `harness/quantiles_h.cpp` does with `verif_random_source` -/
theorem C08q_quantiles_unbiased_vectors (c : Cmp α) (lim : Limits) (hlim : 0 < lim.minK) (ops : List (Op α)) (id : Nat)
    (p : α → Bool) :
    Tree.sumOver (arHist c lim ops) (fun v => Wst p id ((runHist c lim ops).run { q := v, log := [] }).1) =
      prodAr (arHist c lim ops) * Ttr p id (truthHist c lim ops) := by
  have hsp := hist_spec c lim hlim p (sortOK_true c.lt) (relC_ok c _) ops id
  rw [← hsp.uni.sum_eq_sumOver (Wst p id) []]
  exact hsp.sum

example : Ttr (fun x : Int => decide (x ≤ 9)) 0 (truthHist intCmp demoLim demoOps) = 6 := by decide

/-- the estimated rank itself: for a strict-weak-order comparator, `get_rank(x, inclusive)`'s numerator (read off the
sorted view of object `id`), summed over all coin vectors and stride offsets, is `(∏ arities) · (true number of
accepted items ≤ x resp. < x)`; the denominator is `n` at every leaf.  I.e. the mean of the estimated rank over the
fair coins / uniform offsets is exactly the true rank. -/
theorem C08q_rank_unbiased (c : Cmp α) (hc : SWO c.lt) (lim : Limits) (hlim : 0 < lim.minK) (ops : List (Op α))
    (id : Nat) (x : α) (incl : Bool) :
    (runHist c lim ops).sum (fun st => match st.get? id with
        | some s => SortedView.rankNum c.lt (s.view c) x incl
        | none => 0) =
      prodAr (arHist c lim ops) * Ttr (belowP c.lt x incl) id (truthHist c lim ops) ∧
    (runHist c lim ops).All (fun st => ∀ s, st.get? id = some s →
      (s.view c).total = s.n ∧ ∃ items, aget (truthHist c lim ops) id = some items ∧ s.n = items.length) := by
  have hsp := hist_spec c lim hlim (belowP c.lt x incl) (sortOK_sorted hc) (rel_ok c _ hc) ops id
  constructor
  · rw [← hsp.sum]
    refine (Tree.sum_congr_all hsp.all ?_).symm
    intro st hst
    have hok := hst id
    unfold Wst
    cases hg : st.get? id with
    | none => rfl
    | some s =>
      rw [hg] at hok
      obtain ⟨_, _, _, _, _, hi, _, _, _⟩ := hok.of_some
      simp only
      exact (view_rankNum hc hi x incl).symm
  · refine hsp.all.mono ?_
    intro st hst s hg
    have hok := hst id
    rw [hg] at hok
    obtain ⟨items, _, _, ht, _, hi, hr, _, _⟩ := hok.of_some
    exact ⟨view_total hc hi, items, ht, hr.1.len⟩

example : SWO intCmp.lt ∧ 0 < demoLim.minK := ⟨intCmp_swo, by decide⟩

end DS.Quantiles

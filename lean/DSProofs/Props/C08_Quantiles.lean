import DSModel.Quantiles.History
namespace DS.Quantiles
theorem placeholder_c08 : (1 : Nat) = 1 := rfl
end DS.Quantiles

/-
C04 on the REPAIRED source shape — the full statements, for ALL histories including precision reduction.

`./check C04` found two defects of hll_union in the pinned code (Props/C04.lean: `…_full_false`); they were repaired in /repo
(copy_or_downsample now calls check_rebuild_kxq_cur_min(); reset() re-creates the gadget at lg_max_k).  The translator reads
the two source shapes from the CURRENT headers into `Params.unionDownsampleRebuilds` / `Params.unionResetToMaxK`
(DSGen/Hll.lean); `unionImplF` / `unionResetF` / `uRunF` (DSModel/Hll/Union.lean) follow them and are what the driver
executes against the real headers.  `repaired_current` ties the generated flags to the repaired shape: if either fix is
reverted this obligation breaks (and the oracle reports the failing input).

ONLY property theorems + non-vacuity examples (helper lemmas: Lemmas/HllUnionRep.lean).  Every theorem is for every tunable
set `p` with the two flags on (and the decidable side condition `listFitsSet`), every numeric instance ν, every lg_max_k within
the coupon key width and EVERY history of genuine inputs (`WFops`: input lg_k within the key width, a nonzero coupon has a
positive value — true of every `HllUtil::coupon`): lvalue / rvalue sketch updates of any lg_k, type and mode (with precision
reduction in either direction), raw items, estimate calls and resets in any interleaving.
-/
import DSProofs.Lemmas.HllUnionRep
import DSProofs.Props.C04
namespace DS.Hll

variable {ν : Type} [HNum ν]

/-- the CURRENT headers have the repaired shape (and the side conditions of the theorems hold for the generated constants) -/
theorem repaired_current :
    hllParams.unionDownsampleRebuilds = true ∧ hllParams.unionResetToMaxK = true ∧ hllParams.listFitsSet ∧
    hllParams.keyBits = 26 := by decide

/-- the gadget invariant after ANY history -/
theorem union_inv_repaired (p : Params) (hp : p.listFitsSet) (hf1 : p.unionDownsampleRebuilds = true)
    (hf2 : p.unionResetToMaxK = true) (lgMaxK : Nat) (hkb : lgMaxK ≤ p.keyBits) (ops : List UOp) (hok : WFops p ops) :
    GInvR p lgMaxK (uRunF p (newUnion p lgMaxK : Un ν) ops).gadget (offered ops) (expectedLgKG ν p lgMaxK ops) :=
  union_inv_repaired_aux p hp hf1 hf2 lgMaxK hkb ops (newUnion p lgMaxK) [] lgMaxK rfl (GInvR.new p lgMaxK) hok

/-- `union_lgk` (full): the result's lg_k is min(lg_max_k, lg_k of every non-empty HLL-mode input since the last reset). -/
theorem union_lgk (p : Params) (hp : p.listFitsSet) (hf1 : p.unionDownsampleRebuilds = true) (hf2 : p.unionResetToMaxK = true)
    (lgMaxK : Nat) (hkb : lgMaxK ≤ p.keyBits) (ops : List UOp) (hok : WFops p ops) (tt : TType) :
    (unionResult p (uRunF p (newUnion p lgMaxK : Un ν) ops) tt).lgK = expectedLgKG ν p lgMaxK ops := by
  have hg := union_inv_repaired (ν := ν) p hp hf1 hf2 lgMaxK hkb ops hok
  have hpre := copyAs_preserves p (uRunF p (newUnion p lgMaxK : Un ν) ops).gadget tt
    (fun hm => by rw [((hg.hll hm).1).size]) (by rw [hg.lgk]; exact Nat.le_trans hg.le hkb)
  exact hpre.2.1.trans hg.lgk

/-- `union_content` (full): the result holds exactly what ONE sketch of the result's lg_k fed every item of every input (the
inputs' own coupon streams and the raw items since the last reset) would hold — every register the per-slot maximum in HLL mode,
exactly the distinct nonzero coupons in LIST / SET mode; nothing lost, nothing extra, for every result type. -/
theorem union_content (p : Params) (hp : p.listFitsSet) (hf1 : p.unionDownsampleRebuilds = true) (hf2 : p.unionResetToMaxK = true)
    (lgMaxK : Nat) (hkb : lgMaxK ≤ p.keyBits) (ops : List UOp) (hok : WFops p ops) (tt : TType) :
    let r : St ν := unionResult p (uRunF p (newUnion p lgMaxK) ops) tt
    (r.mode = .hll → r.regs.size = 2^r.lgK ∧
      ∀ slot, slot < 2^r.lgK → IsMaxAt p r.lgK (fun c => c ∈ offered ops) slot (r.regs.getD slot 0)) ∧
    (r.mode ≠ .hll → r.items.Nodup ∧ ∀ c, c ∈ r.items ↔ (c ∈ offered ops ∧ c ≠ 0)) := by
  intro r
  have hg := union_inv_repaired (ν := ν) p hp hf1 hf2 lgMaxK hkb ops hok
  have hr : r = copyAs p (uRunF p (newUnion p lgMaxK : Un ν) ops).gadget tt := rfl
  generalize (uRunF p (newUnion p lgMaxK : Un ν) ops).gadget = g at hg hr
  have hpre := copyAs_preserves p g tt (fun hm => by rw [((hg.hll hm).1).size]) (by rw [hg.lgk]; exact Nat.le_trans hg.le hkb)
  rw [hr]
  obtain ⟨pm, pk, ptt, pregs, pitems⟩ := hpre
  refine ⟨fun hm => ?_, fun hm => ?_⟩
  · have hgm : g.mode = .hll := pm ▸ hm
    have gh := (hg.hll hgm).1
    rw [pregs, pk]
    refine ⟨gh.size, fun slot hs => ?_⟩
    have := gh.regs slot hs
    refine ⟨fun c hc hsl => ?_, ?_⟩
    · by_cases h0 : c = 0
      · subst h0; simp [cValue]
      · exact this.1 c ⟨hc, h0⟩ hsl
    · rcases this.2 with h0 | ⟨c, hc, hsl, hv⟩
      · exact Or.inl h0
      · exact Or.inr ⟨c, hc.1, hsl, hv⟩
  · have hgm : g.mode ≠ .hll := fun e => hm (pm.trans e)
    rw [pitems hgm]
    obtain ⟨_, cs0, hR, hmem⟩ := hg.nonhll hgm
    refine ⟨(hR.items_perm hgm).nodup_iff.2 (distinct_nodup cs0), fun c => ?_⟩
    rw [hR.mem_items hgm c]
    constructor
    · rintro ⟨h1, h2⟩; exact ⟨(hmem c h2).1 h1, h2⟩
    · rintro ⟨h1, h2⟩; exact ⟨(hmem c h2).2 h1, h2⟩

/-- Two histories that offered the same nonzero coupons and have the same expected lg_k give the same result: same lg_k, same
registers when both results are in HLL mode, same coupon set when both are in LIST / SET mode. -/
theorem union_result_determined_repaired (p : Params) (hp : p.listFitsSet) (hf1 : p.unionDownsampleRebuilds = true)
    (hf2 : p.unionResetToMaxK = true) (lgMaxK : Nat) (hkb : lgMaxK ≤ p.keyBits) (ops ops' : List UOp)
    (hok : WFops p ops) (hok' : WFops p ops') (tt tt' : TType)
    (hsame : ∀ c, c ≠ 0 → (c ∈ offered ops ↔ c ∈ offered ops'))
    (hlgk : expectedLgKG ν p lgMaxK ops = expectedLgKG ν p lgMaxK ops') :
    let r : St ν := unionResult p (uRunF p (newUnion p lgMaxK) ops) tt
    let r' : St ν := unionResult p (uRunF p (newUnion p lgMaxK) ops') tt'
    r.lgK = r'.lgK ∧ (r.mode = .hll → r'.mode = .hll → r.regs = r'.regs) ∧
    (r.mode ≠ .hll → r'.mode ≠ .hll → ∀ c, c ∈ r.items ↔ c ∈ r'.items) := by
  intro r r'
  have a := union_content (ν := ν) p hp hf1 hf2 lgMaxK hkb ops hok tt
  have b := union_content (ν := ν) p hp hf1 hf2 lgMaxK hkb ops' hok' tt'
  have la := union_lgk (ν := ν) p hp hf1 hf2 lgMaxK hkb ops hok tt
  have lb := union_lgk (ν := ν) p hp hf1 hf2 lgMaxK hkb ops' hok' tt'
  have hk : r.lgK = r'.lgK := la.trans (hlgk.trans lb.symm)
  refine ⟨hk, fun hm hm' => ?_, fun hm hm' c => ?_⟩
  · have a1 := a.1 hm
    have b1 := b.1 hm'
    apply Array.ext
    · rw [a1.1, b1.1, hk]
    · intro i h1 h2
      rw [← getD_eq_getElem (d := 0) h1, ← getD_eq_getElem (d := 0) h2]
      have hi : i < 2^r.lgK := by rw [← a1.1]; exact h1
      refine IsMaxAt.unique (a1.2 i hi) ?_
      have b2 := b1.2 i (by rw [← hk]; exact hi)
      rw [← hk] at b2
      refine ⟨fun x hx hsl => ?_, ?_⟩
      · by_cases h0 : x = 0
        · subst h0; simp [cValue]
        · exact b2.1 x ((hsame x h0).1 hx) hsl
      · rcases b2.2 with h0 | ⟨x, hx, hsl, hv⟩
        · exact Or.inl h0
        · by_cases h0 : x = 0
          · subst h0; left; rw [← hv]; simp [cValue]
          · exact Or.inr ⟨x, (hsame x h0).2 hx, hsl, hv⟩
  · rw [(a.2 hm).2 c, (b.2 hm').2 c]
    constructor
    · rintro ⟨h1, h2⟩; exact ⟨(hsame c h2).1 h1, h2⟩
    · rintro ⟨h1, h2⟩; exact ⟨(hsame c h2).2 h1, h2⟩

/-- `union_perm_invariant` (full, for histories of updates, raw items and estimate calls): presenting the same operations in
another order gives the same lg_k, the same registers / the same coupon set. -/
theorem union_perm_invariant (p : Params) (hp : p.listFitsSet) (hf1 : p.unionDownsampleRebuilds = true)
    (hf2 : p.unionResetToMaxK = true) (lgMaxK : Nat) (hkb : lgMaxK ≤ p.keyBits) (ops ops' : List UOp) (hperm : ops.Perm ops')
    (hnr : ∀ o, o ∈ ops → o ≠ .reset) (hok : WFops p ops) (tt : TType) :
    let r : St ν := unionResult p (uRunF p (newUnion p lgMaxK) ops) tt
    let r' : St ν := unionResult p (uRunF p (newUnion p lgMaxK) ops') tt
    r.lgK = r'.lgK ∧ (r.mode = .hll → r'.mode = .hll → r.regs = r'.regs) ∧
    (r.mode ≠ .hll → r'.mode ≠ .hll → ∀ c, c ∈ r.items ↔ c ∈ r'.items) := by
  have hok' : WFops p ops' := fun o ho => hok o (hperm.mem_iff.2 ho)
  have hnr' : ∀ o, o ∈ ops' → o ≠ .reset := fun o ho => hnr o (hperm.mem_iff.2 ho)
  refine union_result_determined_repaired (ν := ν) p hp hf1 hf2 lgMaxK hkb ops ops' hok hok' tt tt ?_ ?_
  · intro c _
    unfold offered
    rw [mem_offered_aux ops [] c hnr, mem_offered_aux ops' [] c hnr']
    constructor
    · rintro (h1 | ⟨o, ho, h1⟩)
      · exact Or.inl h1
      · exact Or.inr ⟨o, hperm.mem_iff.1 ho, h1⟩
    · rintro (h1 | ⟨o, ho, h1⟩)
      · exact Or.inl h1
      · exact Or.inr ⟨o, hperm.mem_iff.2 ho, h1⟩
  · -- the expected lg_k is a minimum: order does not matter
    have key : ∀ y, expectedLgKG ν p lgMaxK ops ≤ y ↔ expectedLgKG ν p lgMaxK ops' ≤ y := by
      intro y
      unfold expectedLgKG
      rw [foldl_lgk_le_iff p lgMaxK ops lgMaxK y hnr, foldl_lgk_le_iff p lgMaxK ops' lgMaxK y hnr']
      constructor
      · rintro (h1 | ⟨o, k, ho, h1, h2⟩)
        · exact Or.inl h1
        · exact Or.inr ⟨o, k, hperm.mem_iff.1 ho, h1, h2⟩
      · rintro (h1 | ⟨o, k, ho, h1, h2⟩)
        · exact Or.inl h1
        · exact Or.inr ⟨o, k, hperm.mem_iff.2 ho, h1, h2⟩
    exact Nat.le_antisymm ((key _).2 (Nat.le_refl _)) ((key _).1 (Nat.le_refl _))

/-- `union_estimate_pure` (full): an interleaved get_estimate / get_composite_estimate / bound call does not change any later
result (together with Props/C04 `union_get_result_pure`: get_result itself is pure and type-independent). -/
theorem union_estimate_pure (p : Params) (hp : p.listFitsSet) (hf1 : p.unionDownsampleRebuilds = true)
    (hf2 : p.unionResetToMaxK = true) (lgMaxK : Nat) (hkb : lgMaxK ≤ p.keyBits) (ops₁ ops₂ : List UOp)
    (hok : WFops p (ops₁ ++ ops₂)) (tt : TType) :
    let r : St ν := unionResult p (uRunF p (newUnion p lgMaxK) (ops₁ ++ ops₂)) tt
    let r' : St ν := unionResult p (uRunF p (newUnion p lgMaxK) (ops₁ ++ [.touch] ++ ops₂)) tt
    r.lgK = r'.lgK ∧ (r.mode = .hll → r'.mode = .hll → r.regs = r'.regs) ∧
    (r.mode ≠ .hll → r'.mode ≠ .hll → ∀ c, c ∈ r.items ↔ c ∈ r'.items) := by
  have hok' : WFops p (ops₁ ++ [.touch] ++ ops₂) := by
    intro o ho
    simp only [List.mem_append, List.mem_singleton] at ho
    rcases ho with (ho | ho) | ho
    · exact hok o (List.mem_append_left _ ho)
    · subst ho; trivial
    · exact hok o (List.mem_append_right _ ho)
  refine union_result_determined_repaired (ν := ν) p hp hf1 hf2 lgMaxK hkb _ _ hok hok' tt tt ?_ ?_
  · intro c _
    have e : offered (ops₁ ++ [.touch] ++ ops₂) = offered (ops₁ ++ ops₂) := by
      simp [offered, List.foldl_append, offeredStep]
    rw [e]
  · simp [expectedLgKG, List.foldl_append, lgkStepG]

/-- lvalue / rvalue independence (full): turning lvalue updates into rvalue updates (adoption shortcut) or back does not change
the result. -/
theorem union_lvalue_eq_rvalue (p : Params) (hp : p.listFitsSet) (hf1 : p.unionDownsampleRebuilds = true)
    (hf2 : p.unionResetToMaxK = true) (lgMaxK : Nat) (hkb : lgMaxK ≤ p.keyBits) (ops : List UOp) (flip : UOp → Bool)
    (hok : WFops p ops) (tt : TType) :
    let ops' := ops.map (fun o => if flip o then flipRv o else o)
    let r : St ν := unionResult p (uRunF p (newUnion p lgMaxK) ops) tt
    let r' : St ν := unionResult p (uRunF p (newUnion p lgMaxK) ops') tt
    r.lgK = r'.lgK ∧ (r.mode = .hll → r'.mode = .hll → r.regs = r'.regs) ∧
    (r.mode ≠ .hll → r'.mode ≠ .hll → ∀ c, c ∈ r.items ↔ c ∈ r'.items) := by
  intro ops'
  have hstep : ∀ (acc : List Nat) (o : UOp), offeredStep acc (if flip o then flipRv o else o) = offeredStep acc o := by
    intro acc o
    by_cases hf : flip o = true
    · rw [if_pos hf]; cases o <;> rfl
    · rw [if_neg hf]
  have hstep2 : ∀ (acc : Nat) (o : UOp), lgkStepG ν p lgMaxK acc (if flip o then flipRv o else o) = lgkStepG ν p lgMaxK acc o := by
    intro acc o
    by_cases hf : flip o = true
    · rw [if_pos hf]; cases o <;> rfl
    · rw [if_neg hf]
  have hoff : ∀ (l : List UOp) (acc : List Nat),
      (l.map (fun o => if flip o then flipRv o else o)).foldl offeredStep acc = l.foldl offeredStep acc := by
    intro l
    induction l with
    | nil => intro acc; rfl
    | cons o t ih => intro acc; simp only [List.map_cons, List.foldl_cons]; rw [hstep, ih]
  have hoff2 : ∀ (l : List UOp) (acc : Nat),
      (l.map (fun o => if flip o then flipRv o else o)).foldl (lgkStepG ν p lgMaxK) acc = l.foldl (lgkStepG ν p lgMaxK) acc := by
    intro l
    induction l with
    | nil => intro acc; rfl
    | cons o t ih => intro acc; simp only [List.map_cons, List.foldl_cons]; rw [hstep2, ih]
  have hok' : WFops p ops' := by
    intro o ho
    rcases List.mem_map.1 ho with ⟨o0, ho0, rfl⟩
    have := hok o0 ho0
    by_cases hf : flip o0 = true
    · rw [if_pos hf]; cases o0 <;> exact this
    · rw [if_neg hf]; exact this
  refine union_result_determined_repaired (ν := ν) p hp hf1 hf2 lgMaxK hkb ops ops' hok hok' tt tt ?_ ?_
  · intro c _
    unfold offered
    rw [hoff ops []]
  · unfold expectedLgKG
    rw [hoff2 ops lgMaxK]

/-- `union_reset` (full): after ANY history (no side condition at all), `reset()` leaves exactly a fresh union of lg_max_k. -/
theorem union_reset (p : Params) (hf2 : p.unionResetToMaxK = true) (lgMaxK : Nat) (ops : List UOp) :
    uRunF p (newUnion p lgMaxK : Un ν) (ops ++ [.reset]) = newUnion p lgMaxK := by
  have hk := uRunF_lgMaxK p ops (newUnion p lgMaxK : Un ν)
  simp only [uRunF, List.foldl_append, List.foldl_cons, List.foldl_nil] at hk ⊢
  show unionResetF p _ = _
  unfold unionResetF
  rw [if_pos hf2, hk]
  rfl

/-- with ν = Unit the generic expected lg_k is the `expectedLgK` of the statements in Props/C04.lean -/
theorem expectedLgKG_unit (p : Params) (hp : p.listFitsSet) (lgMaxK : Nat) (ops : List UOp) :
    expectedLgKG Unit p lgMaxK ops = expectedLgK p lgMaxK ops := by
  unfold expectedLgKG expectedLgK
  have hs : ∀ (acc : Nat) (o : UOp), lgkStepG Unit p lgMaxK acc o = lgkStep p lgMaxK acc o := by
    intro acc o
    cases o with
    | merge d rv =>
      simp only [lgkStepG, lgkStep, lgkUpd, build_lgK p hp d]
      by_cases h1 : (d.build p : St Unit).mode = .hll
      · cases h2 : isEmpty (d.build p : St Unit) <;> simp [h1]
      · simp [h1]
    | coupon c => rfl
    | touch => rfl
    | reset => rfl
  have hfun : lgkStepG Unit p lgMaxK = lgkStep p lgMaxK := funext (fun acc => funext (hs acc))
  rw [hfun]

/-! ## The statements refuted for the pinned shape (Props/C04.lean), now proved for the repaired shape (ν = Unit, tunables of the code) -/

/-- the tunables of the code with the two repaired source shapes -/
def rP : Params := { unionDownsampleRebuilds := true, unionResetToMaxK := true }

theorem union_lgk_full_repaired (lgMaxK : Nat) (hkb : lgMaxK ≤ 26) (ops : List UOp) (hok : WFops rP ops) (tt : TType) :
    (unionResult rP (uRunF rP (newUnion rP lgMaxK : Un Unit) ops) tt).lgK = expectedLgK rP lgMaxK ops := by
  rw [← expectedLgKG_unit rP (by decide) lgMaxK ops]
  exact union_lgk (ν := Unit) rP (by decide) rfl rfl lgMaxK hkb ops hok tt

theorem union_content_full_repaired (lgMaxK : Nat) (hkb : lgMaxK ≤ 26) (ops : List UOp) (hok : WFops rP ops) (tt : TType) :
    let r : St Unit := unionResult rP (uRunF rP (newUnion rP lgMaxK) ops) tt
    (r.mode = .hll → ∀ slot, slot < 2^r.lgK → IsMaxAt rP r.lgK (fun c => c ∈ offered ops) slot (r.regs.getD slot 0)) ∧
    (r.mode ≠ .hll → ∀ c, c ∈ r.items ↔ (c ∈ offered ops ∧ c ≠ 0)) := by
  intro r
  have h := union_content (ν := Unit) rP (by decide) rfl rfl lgMaxK hkb ops hok tt
  exact ⟨fun hm => (h.1 hm).2, fun hm => (h.2 hm).2⟩

theorem union_reset_full_repaired (lgMaxK : Nat) (ops : List UOp) :
    (uRunF rP (newUnion rP lgMaxK : Un Unit) (ops ++ [.reset])).gadget.lgK = lgMaxK := by
  rw [union_reset rP rfl lgMaxK ops]; rfl

/-! Non-vacuity: the witnesses that refute the pinned shape (wA lg_k 5, wB lg_k 4, wC lg_k 6, all HLL mode) are genuine
histories, and on the repaired shape they give the right answer. -/
example : WFops rP [.merge wA false, .merge wB false] ∧ WFops rP [.merge wC false, .merge wB false, .merge wC true, .reset, .coupon (cPair rP 9 7)] := by
  constructor <;> (intro op hop; simp only [List.mem_cons, List.not_mem_nil, or_false] at hop;
                   rcases hop with rfl | rfl | rfl | rfl | rfl <;> decide +kernel)
/-- D1 witness: union(4) ← A (lg_k 5, down-sampled) ← B: slot 3 keeps A's value 2, slot 1 gets B's value 1 -/
example : (unionResult rP (uRunF rP (newUnion rP 4 : Un Unit) [.merge wA false, .merge wB false]) .h8).regs.getD 3 0 = 2 ∧
    (unionResult rP (uRunF rP (newUnion rP 4 : Un Unit) [.merge wA false, .merge wB false]) .h8).regs.getD 1 0 = 1 ∧
    isEmpty (uRunF rP (newUnion rP 4 : Un Unit) [.merge wA false]).gadget = false := by decide +kernel
/-- union(6) ← C (6) ← B (4: gadget down-sampled) ← C: lg_k stays 4; after reset() it is 6 again -/
example : (uRunF rP (newUnion rP 6 : Un Unit) [.merge wC false, .merge wB false, .merge wC false]).gadget.lgK = 4 ∧
    (uRunF rP (newUnion rP 6 : Un Unit) [.merge wC false, .merge wB false, .merge wC false, .reset]).gadget.lgK = 6 := by decide +kernel

end DS.Hll

/-
C07 (KLL part), the statements that become true with the two repairs of the KLL code:
  * the const_iterator constructor skips empty levels (proposed_fixes/C07-kll-iterator-level0-empty.patch),
  * get_quantile rejects a NaN rank (proposed_fixes/C07-nan-rank-answered-kll.patch).
The source shapes are read from the CURRENT headers by tools/trules/kll.py into `DSGen.kll_ITER_SKIPS_EMPTY_LEVELS` /
`DSGen.kll_NAN_RANK_REJECTED` (`genFlags`; any third shape is a translation failure); the executed model (`Sketch.iterF`,
`getQuantileF`, used by the driver) follows these flags.  `C07_Kll.lean` keeps the statements about the pinned shapes
(`weight_conserved_full_false` is about the pinned iterator `Sketch.iter`).  The `…_current` theorems hold for whichever shape
the headers have: they select the repaired statement when the flag is true and the pinned witness when it is false.
Quantification as in C07_Kll.lean: every `ParamsOk` parameter set, item type, strict weak order, history, coin sequence, sketch.
-/
import DSProofs.Props.C07_Kll
namespace DS.Kll
open DS DS.SortedView

variable {α : Type}

/-- with the flag off, the flag-following iterator is the pinned one of C07_Kll.lean -/
theorem kll_iterF_pinned (fl : Flags) (hfl : fl.iterSkipsEmpty = false) (s : Sketch α) : s.iterF fl = s.iter :=
  iterF_pinned fl hfl s

/-- weight_conserved, FULL statement, repaired iterator: for EVERY sketch of every history (level 0 empty after a merge included,
the empty sketch included) the iteration yields exactly `num_retained` pairs, level by level with weight 2^level, and the
weights sum to n -/
theorem weight_conserved_repaired {P : Params} (ok : ParamsOk P) {c : Cmp α} (sw : StrictWeak c.lt) (ops : List (Op α))
    (coins : Coins) {i : Nat} {s : Sketch α} (h : (reach P c ops coins)[i]? = some s) (fl : Flags) (hfl : fl.iterSkipsEmpty = true) :
    (s.iterF fl).length = s.retained ∧ ((s.iterF fl).map Prod.snd).sum = s.n ∧ s.iterF fl = weightedW 1 s.levels := by
  obtain ⟨hi, _⟩ := reach_get ok sw ops coins h
  have e := iterF_repaired fl hfl s
  refine ⟨by rw [e, weightedW_length]; rfl, ?_, e⟩
  rw [e, weightedW_sum, hi.weight]; omega

/-- the FULL statement for the iterator the current headers have -/
def weight_conserved_current_full : Prop :=
  ∀ (α : Type) (P : Params), ParamsOk P → ∀ (c : Cmp α), StrictWeak c.lt → ∀ (ops : List (Op α)) (coins : Coins) (i : Nat) (s : Sketch α),
    (reach P c ops coins)[i]? = some s → (s.iterF genFlags).length = s.retained ∧ ((s.iterF genFlags).map Prod.snd).sum = s.n

/-- … it holds exactly when the headers have the repaired constructor: with the flag true by `weight_conserved_repaired`, with the
flag false it is refuted by the witness of `weight_conserved_full_false` -/
theorem weight_conserved_current : weight_conserved_current_full ↔ DSGen.kll_ITER_SKIPS_EMPTY_LEVELS = true := by
  constructor
  · intro h
    cases hf : DSGen.kll_ITER_SKIPS_EMPTY_LEVELS with
    | true => rfl
    | false =>
      exfalso
      apply weight_conserved_full_false
      intro α P ok c sw ops coins i s hs
      have := h α P ok c sw ops coins i s hs
      rw [iterF_pinned genFlags (by simp [genFlags, hf]) s] at this
      exact this
  · intro hf α P ok c sw ops coins i s hs
    have := weight_conserved_repaired ok sw ops coins hs genFlags (by simp [genFlags, hf])
    exact ⟨this.1, this.2.1⟩

/-- the former witness under the repaired constructor: 12 items of weight 2, sum 24 = n -/
example : ((reach genParams intCmp exOps noCoins)[0]?.map (fun s => (((s.iterF ⟨true, true⟩).map Prod.snd).sum, s.n, (s.iterF ⟨true, true⟩).length))) =
    some (24, 24, 12) := by decide +kernel

/-- … and an empty sketch iterates to nothing -/
example : (init 8 : Sketch Int).iterF ⟨true, true⟩ = [] := by decide

/-- invalid_rejected (`get_quantile`), repaired range check: a query is answered only for a non-empty sketch and a rank with
`rank >= 0 && rank <= 1` — both IEEE comparisons are false for NaN, so a NaN rank is rejected (the model executes the check with
Lean `Float`; that `NaN >= 0` is false is IEEE semantics, exercised on the real code and on the model by every run, not a kernel
fact) — and an empty sketch rejects every query -/
theorem invalid_rank_rejected_repaired (fl : Flags) (hfl : fl.nanRankRejected = true) (c : Cmp α) (s : Sketch α) (rank : Float) (incl : Bool) :
    (∀ q, getQuantileF fl c s rank incl = some q → s.n ≠ 0 ∧ rank ≥ 0.0 ∧ rank ≤ 1.0) ∧
    (s.n = 0 → getQuantileF fl c s rank incl = none) := by
  refine ⟨?_, fun hn => by simp [getQuantileF, hn]⟩
  intro q hq
  simp only [getQuantileF, rankAccepted, hfl, if_true] at hq
  split at hq
  · exact absurd hq (by simp)
  · rename_i hn
    split at hq
    · exact absurd hq (by simp)
    · rename_i hr
      simp only [Bool.not_eq_true', Bool.not_eq_false, Bool.and_eq_true, decide_eq_true_eq] at hr
      exact ⟨by simpa using hn, hr.1, hr.2⟩

/-- with the flag off the flag-following `get_quantile` is the pinned one -/
theorem kll_getQuantileF_pinned (fl : Flags) (hfl : fl.nanRankRejected = false) (c : Cmp α) (s : Sketch α) (rank : Float) (incl : Bool) :
    getQuantileF fl c s rank incl = getQuantile c s rank incl := by
  simp only [getQuantileF, getQuantile, rankAccepted, hfl, Bool.false_eq_true, if_false, Bool.not_not]

/-- … for the check the current headers have: whenever the header has the repaired shape, an answered query had
`rank >= 0 && rank <= 1` -/
theorem invalid_rank_rejected_current (hf : DSGen.kll_NAN_RANK_REJECTED = true) (c : Cmp α) (s : Sketch α) (rank : Float) (incl : Bool) (q : α)
    (h : getQuantileF genFlags c s rank incl = some q) : s.n ≠ 0 ∧ rank ≥ 0.0 ∧ rank ≤ 1.0 :=
  (invalid_rank_rejected_repaired genFlags (by simp [genFlags, hf]) c s rank incl).1 q h

end DS.Kll

/-
C10 (Bloom filter part) — the image follows the documented layout.

ONLY property theorems and non-vacuity examples.  `documented` is written by hand from the layout
comment of bloom_filter_impl.hpp ("Preamble_Longs | SerVer | FamID | Flags | Num Hashes | Unused /
Hash Seed / BitArray Length (in longs) | Unused / NumBitsSet; the raw BitArray bits start at byte 32");
`genConsts` and the DSGen offsets are regenerated from the CURRENT headers on every run, so a consistent
writer+reader change of a constant breaks `wire_consts_documented` although round trips still pass.
-/
import DSProofs.Lemmas.WireMiscBloom
import DSModel.Wire.BloomGen
namespace DS.Wire.Bloom
open DS.Wire

/-- the documented contract -/
def documented : Consts :=
  { preEmpty := 3, preStd := 4, serVer := 1, familyId := 21, emptyMask := 4, dirty := 2^64 - 1 }

/-- every wire constant extracted from the current headers equals its documented value -/
theorem wire_consts_documented :
    genConsts = documented ∧
    DSGen.bloom_BIT_ARRAY_LENGTH_OFFSET_BYTES = 16 ∧ DSGen.bloom_NUM_BITS_SET_OFFSET_BYTES = 24 ∧
    DSGen.bloom_BIT_ARRAY_OFFSET_BYTES = 32 ∧ DSGen.bloom_MAX_HEADER_SIZE_BYTES = 32 := by decide

/-- the documented byte offsets are facts about the layout: bytes 0..3 are preamble longs, serial
version, family id, flags; num_hashes at 4, seed at 8, num_longs at 16 -/
theorem header_offsets (c : Consts) (s : Img) :
    (encode c s).take 4 = w8 (if s.body.isNone then c.preEmpty else c.preStd) ++ w8 c.serVer ++ w8 c.familyId ++
                          w8 (if s.body.isNone then c.emptyMask else 0) ∧
    ((encode c s).drop 4).take 2 = w16 s.numHashes ∧ ((encode c s).drop 8).take 8 = w64 s.seed ∧
    ((encode c s).drop 16).take 4 = w32 s.numLongs := by
  simp [encode, w8, w16, w32, w64, wLe, wZeros]

/-- num_bits_set sits at byte 24 and the bit array starts at byte 32 (what `wrap`/`writable_wrap` rely on) -/
theorem body_offsets (c : Consts) (s : Img) (nbs : Nat) (bits : Bytes) (hb : s.body = some (nbs, bits)) :
    ((encode c s).drop 24).take 8 = w64 nbs ∧ (encode c s).drop 32 = bits := by
  simp [encode, hb, encodeBody, w8, w16, w32, w64, wLe, wZeros]

/-- the dirty marker is the all-ones 64-bit value: eight 0xFF bytes at offset 24 -/
theorem dirty_marker_bytes : w64 documented.dirty = [0xFF, 0xFF, 0xFF, 0xFF, 0xFF, 0xFF, 0xFF, 0xFF] := by decide

example : encode documented { numHashes := 5, seed := 0x0102030405060708, numLongs := 1, body := none } =
    [3, 1, 21, 4, 5, 0, 0, 0, 8, 7, 6, 5, 4, 3, 2, 1, 1, 0, 0, 0, 0, 0, 0, 0] := by decide

end DS.Wire.Bloom

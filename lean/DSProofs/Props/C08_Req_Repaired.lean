/-
C08 (REQ part), the statement that becomes true with the repair of D9: the regular `req_compactor` constructor draws its initial coin
(`coin_(random_utils::random_bit())`, under DATASKETCHES_VERIF from the harness-installable source: hook H3) instead of starting with
the constant `coin_(false)`.  The shape is read from the CURRENT headers by tools/trules/req.py into `DSGen.req_INITIAL_COIN_RANDOM`
(= `genTun.initCoinRandom`); the executed model follows it: one coin is consumed at every compactor creation (sketch construction,
new levels in `grow()` during compress and merge), copies draw nothing.  `C08_Req.lean` keeps the statements about the pinned shape
(`req_unbiased_full_false`).  All theorems of C07_Req.lean / C08_Req.lean are parametric in the shape flag and hold for both shapes.
-/
import DSProofs.Props.C08_Req
namespace DS.Req

variable {ρ : Type}

/-- in the repaired shape every coin a compaction flips derives from a draw: the ghost flag never fires, for EVERY history -/
theorem req_no_constant_coin_repaired {T : Tun} (F : SecFns ρ) (hf : T.initCoinRandom = true) (ops : List Op) (coins : List Bool) :
    (run T F ops coins).2.oddConst = false :=
  runOps_oddR T F hf ops ([] : Store ρ) (Acc.init coins) (fun _ _ hg => by simp [Store.get, AL.get] at hg) rfl

/-- req_unbiased, the FULL statement, repaired shape: for every admissible tunable set with a random initial coin, every section
schedule, every history of new / update / merge / copy / query operations over any number of live sketches (every merge tree), every
object and every predicate on items (in particular `≤ y` and `< y`): the weight of the retained items satisfying the predicate, summed
over ALL 2^F coin vectors, is 2^F times the true count — no hypothesis on coin provenance -/
theorem req_unbiased_repaired {T : Tun} (hT : TunOK T) (hf : T.initCoinRandom = true) (F : SecFns ρ) (ops : List Op) (id : Nat)
    (items : List Int) (hin : inputOf ops id = some items) (p : Int → Bool) :
    sumOverCoins T F ops id p = 2 ^ (run T F ops []).2.used * (items.filter p).length :=
  req_unbiased_partial hT F ops id items hin (req_no_constant_coin_repaired F hf ops []) p

/-- … for the rank numerator, both criteria -/
theorem req_unbiased_rank_repaired {T : Tun} (hT : TunOK T) (hf : T.initCoinRandom = true) (F : SecFns ρ) (ops : List Op) (id : Nat)
    (items : List Int) (hin : inputOf ops id = some items) (y : Int) (inclusive : Bool) :
    ((allVecs (run T F ops []).2.used).map (fun v =>
        match (run T F ops v).1.get id with
        | some s => s.weightBelow y inclusive
        | none => 0)).sum
      = 2 ^ (run T F ops []).2.used * (items.filter (fun x => if inclusive then decide (x ≤ y) else decide (x < y))).length :=
  req_unbiased_repaired hT hf F ops id items hin _

/-- … over the generated flag: whenever the CURRENT headers have the repaired shape, the full statement holds for the current tunables
(on a tree with the pinned shape the hypothesis is false and `req_unbiased_full_false` applies) -/
theorem req_unbiased_current (hcur : DSGen.req_INITIAL_COIN_RANDOM = true) (F : SecFns ρ) (ops : List Op) (id : Nat)
    (items : List Int) (hin : inputOf ops id = some items) (p : Int → Bool) :
    sumOverCoins genTun F ops id p = 2 ^ (run genTun F ops []).2.used * (items.filter p).length :=
  req_unbiased_repaired req_genTun_ok hcur F ops id items hin p

/-- the tunables with the repaired shape -/
def repTun : Tun := { genTun with initCoinRandom := true }
theorem req_repTun_ok : TunOK repTun := by constructor <;> decide

/-- the former witness in the repaired shape: five coins are drawn (three constructors, two compactions), the ghost flag stays off,
and over all 32 coin vectors the weight of the items ≤ 16 in sketch 0 sums to 32 · 17 -/
example : (run repTun (⟨fun _ => (), id, fun _ => 0⟩ : SecFns Unit) d9Ops []).2.used = 5
    ∧ (run repTun (⟨fun _ => (), id, fun _ => 0⟩ : SecFns Unit) d9Ops []).2.oddConst = false
    ∧ sumOverCoins repTun (⟨fun _ => (), id, fun _ => 0⟩ : SecFns Unit) d9Ops 0 (fun x => decide (x ≤ 16)) = 32 * 17 := by
  decide +kernel

end DS.Req

/-
C07 (part "quantiles") — the classic `quantiles_sketch` conserves weight, keeps exact extremes and answers coherently.

ONLY property theorems and their non-vacuity examples live here (helper lemmas: Lemmas/Quantiles*.lean).
Model: DSModel/Quantiles/{Tree,Sketch,Query,History}.lean, tied to quantiles/include/quantiles_sketch_impl.hpp and
common/include/quantiles_sorted_view_impl.hpp by `./check c07quant`.

Quantification.  `ops` ranges over ALL finite histories of `new id k | upd id x | merge dst src | copy src dst | sortq id`
over any number of live sketches (any k accepted by `check_k`, equal / unequal k, exact / estimating / empty operands,
arbitrary merge graphs – an object may be merged into several others; lvalue and rvalue `merge` are the same function
of the operands).  A history is a choice tree (`runHist`): every coin of `zip_buffer` and every stride offset of
`zip_buffer_with_stride` is a branching node.  `Reach c lim ops id s items` says: `s` is the state of object `id`
at SOME leaf of that tree (i.e. for some outcome of all random choices) and `items` is the list of items object `id`
has accepted (own updates and merged-in ones; NaN updates are not accepted).  Every theorem holds for every
reachable `s`, hence for every coin/draw sequence.  `c.lt` is the comparator (a strict weak order), `lim` the
limits `MIN_K ≥ 1`, `MAX_K` read from the header.
Self-merge `a.merge(a)` is excluded (`stepOp` treats it as a no-op; the code iterates a vector it is pushing to).
-/
import DSProofs.Lemmas.QuantilesHist
import DSProofs.Lemmas.QuantilesFacts
namespace DS.Quantiles

variable {α : Type}

/-- `s` is the state of object `id` at some leaf of the choice tree of `ops`; `items` = what that object accepted -/
def Reach (c : Cmp α) (lim : Limits) (ops : List (Op α)) (id : Nat) (s : Sketch α) (items : List α) : Prop :=
  ∃ st, Tree.IsLeaf st (runHist c lim ops) ∧ st.get? id = some s ∧ aget (truthHist c lim ops) id = some items

/-- the comparator `<` on `Int` (the harness' `int64_t` instantiation) -/
def intCmp : Cmp Int := { lt := fun a b => decide (a < b), nan := fun _ => false }

theorem intCmp_swo : SWO intCmp.lt where
  irrefl := by intro a; simp [intCmp]
  trans := by intro a b c; simp only [intCmp, decide_eq_true_eq]; omega
  ntrans := by intro a b c; simp only [intCmp, decide_eq_false_iff_not]; omega

/-- a history with two compactions, a down-sampling merge (k = 4 into k = 2) and a view query -/
def demoOps : List (Op Int) :=
  [.new 0 2, .upd 0 5, .upd 0 3, .upd 0 9, .upd 0 1, .upd 0 7, .new 1 4] ++
  ([10, 11, 12, 13, 14, 15, 16, 17, 18] : List Int).map (fun x => Op.upd 1 x) ++ [.merge 0 1, .sortq 0, .upd 0 2]

def demoLim : Limits := { minK := 2, maxK := 32768 }

/-- every live object of a history is reachable (non-vacuity of `Reach`), for every outcome of the random choices -/
theorem C07q_reach_exists (c : Cmp α) (lim : Limits) (hlim : 0 < lim.minK) (ops : List (Op α)) (id : Nat)
    (items : List α) (ht : aget (truthHist c lim ops) id = some items) (src : Tree.Src) :
    ∃ s, ((runHist c lim ops).run src).1.get? id = some s ∧ Reach c lim ops id s items := by
  have hsp := hist_spec c lim hlim (fun _ => true) (sortOK_true c.lt) (relC_ok c _) ops id
  have hleaf := Tree.run_isLeaf hsp.all src
  have hok := (hsp.all.of_leaf hleaf) id
  rw [ht] at hok
  cases hg : ((runHist c lim ops).run src).1.get? id with
  | none => rw [hg] at hok; cases hk : aget (knHist c lim ops).1 id <;> simp [hk, ObjOK] at hok
  | some s => exact ⟨s, rfl, _, hleaf, hg, ht⟩

def demoItems : List Int := [5, 3, 9, 1, 7, 10, 11, 12, 13, 14, 15, 16, 17, 18, 2]

theorem demo_truth : aget (truthHist intCmp demoLim demoOps) 0 = some demoItems := by decide

theorem demo3_truth : aget (truthHist intCmp demoLim [.new 0 2, .upd 0 5, .upd 0 3, .upd 0 9]) 0 = some [5, 3, 9] := by
  decide

example : ∃ s, Reach intCmp demoLim demoOps 0 s demoItems := by
  obtain ⟨s, _, h⟩ := C07q_reach_exists intCmp demoLim (by decide) demoOps 0 _ demo_truth { q := [1, 0, 1] }
  exact ⟨s, h⟩

/-- the invariant and the relation to the accepted items hold at every leaf (the lemma behind all statements below) -/
theorem C07q_reach_inv (c : Cmp α) (hc : SWO c.lt) (lim : Limits) (hlim : 0 < lim.minK) {ops : List (Op α)} {id : Nat}
    {s : Sketch α} {items : List α} (h : Reach c lim ops id s items) : Inv c (Sorted c.lt) s ∧ Rel c s items := by
  obtain ⟨st, hleaf, hg, ht⟩ := h
  have hsp := hist_spec c lim hlim (fun _ => true) (sortOK_sorted hc) (rel_ok c _ hc) ops id
  have hok := (hsp.all.of_leaf hleaf) id
  rw [hg, ht] at hok
  cases hk : aget (knHist c lim ops).1 id with
  | none => simp [hk, ObjOK] at hok
  | some kn => rw [hk] at hok; exact ⟨hok.1, hok.2.1⟩

example : SWO intCmp.lt := intCmp_swo

/-- **n_exact**: `n` is the number of accepted items (merged ones included); none of them is NaN -/
theorem C07q_n_exact (c : Cmp α) (hc : SWO c.lt) (lim : Limits) (hlim : 0 < lim.minK) {ops : List (Op α)} {id : Nat}
    {s : Sketch α} {items : List α} (h : Reach c lim ops id s items) :
    s.n = items.length ∧ ∀ x ∈ items, c.nan x = false :=
  let r := (C07q_reach_inv c hc lim hlim h).2.1
  ⟨r.len, r.ok⟩

example : ∃ s, Reach intCmp demoLim demoOps 0 s demoItems ∧ s.n = 15 := by
  obtain ⟨s, _, h⟩ := C07q_reach_exists intCmp demoLim (by decide) demoOps 0 _ demo_truth { q := [] }
  exact ⟨s, h, (C07q_n_exact intCmp intCmp_swo demoLim (by decide) h).1⟩

/-- **NaN updates are ignored**: the sketch is returned unchanged and no random choice is made -/
theorem C07q_nan_update_ignored (c : Cmp α) (s : Sketch α) (x : α) (hx : c.nan x = true) :
    s.update c x = Tree.done s := by
  simp [Sketch.update, hx]

/-- a comparator on `Int` that treats 0 as "NaN" -/
def nanAtZero : Cmp Int := { lt := fun a b => decide (a < b), nan := fun x => x == 0 }

example : ({ k := 2 } : Sketch Int).update nanAtZero 0 = Tree.done { k := 2 } :=
  C07q_nan_update_ignored nanAtZero _ 0 rfl

/-- **minmax_exact**: `min_item_` / `max_item_` are elements of the accepted items that no accepted item is
smaller / larger than; they are absent exactly when nothing was accepted -/
theorem C07q_minmax_exact (c : Cmp α) (hc : SWO c.lt) (lim : Limits) (hlim : 0 < lim.minK) {ops : List (Op α)}
    {id : Nat} {s : Sketch α} {items : List α} (h : Reach c lim ops id s items) :
    (match s.minItem with
      | none => items = []
      | some m => m ∈ items ∧ ∀ x ∈ items, c.lt x m = false) ∧
    (match s.maxItem with
      | none => items = []
      | some m => m ∈ items ∧ ∀ x ∈ items, c.lt m x = false) := by
  have r := (C07q_reach_inv c hc lim hlim h).2.2
  constructor
  · have := r.mn; cases hm : s.minItem <;> simpa [hm, MinRel] using this
  · have := r.mx; cases hm : s.maxItem <;> simpa [hm, MaxRel] using this

example : ∃ s, Reach intCmp demoLim demoOps 0 s demoItems := by
  obtain ⟨s, _, h⟩ := C07q_reach_exists intCmp demoLim (by decide) demoOps 0 _ demo_truth { q := [0, 0, 1, 1] }
  exact ⟨s, h⟩

/-- **weight_conserved**: the `const_iterator` exactly as coded (constructor, `operator++`, `operator==`,
`operator*`) yields the base buffer with weight 1 followed by the valid levels with weights `2^(i+1)`;
that is exactly `num_retained` pairs, and their weights sum to `n` -/
theorem C07q_weight_conserved (c : Cmp α) (hc : SWO c.lt) (lim : Limits) (hlim : 0 < lim.minK) {ops : List (Op α)}
    {id : Nat} {s : Sketch α} {items : List α} (h : Reach c lim ops id s items) :
    s.iterate = s.bb.map (fun x => (x, 1)) ++ pairsLevels 2 s.levels ∧
    s.iterate.length = s.numRetained ∧ (s.iterate.map (·.2)).sum = s.n := by
  have hi := (C07q_reach_inv c hc lim hlim h).1
  have he := iterate_eq s hi
  have hf := expectedIter_facts hi
  rw [he]
  exact ⟨rfl, hf.1, hf.2⟩

/-- **retained_bound**: `bit_pattern = n / 2k`, the base buffer holds `n mod 2k` items, level `i` holds `k` items if
bit `i` is set and none otherwise (and there are no levels beyond the highest set bit), so the number of stored items
is `get_num_retained() = |base buffer| + k·popcount(bit_pattern)` -/
theorem C07q_retained_bound (c : Cmp α) (hc : SWO c.lt) (lim : Limits) (hlim : 0 < lim.minK) {ops : List (Op α)}
    {id : Nat} {s : Sketch α} {items : List α} (h : Reach c lim ops id s items) :
    s.bits = s.n / (2 * s.k) ∧ s.bb.length = s.n % (2 * s.k) ∧
    s.numRetained = s.bb.length + s.k * popcount s.bits ∧
    s.bb.length + totalLen s.levels = s.numRetained ∧
    s.levels.length = bitLen s.bits ∧ LevelsShape (Sorted c.lt) s.k s.levels s.bits ∧ (∃ e, s.k = 2 ^ e) := by
  have hi := (C07q_reach_inv c hc lim hlim h).1
  have hr := retained_formula hi
  exact ⟨hi.bits_eq, hi.bb_len, hr.1, hr.2.2, hi.lv_len, hi.lv_shape, hi.kpow⟩

/-- **levels_sorted**: every level is ascending w.r.t. the comparator, and so is the base buffer whenever
`is_base_buffer_sorted_` is set (the precondition of `get_sorted_view` and of the merges) -/
theorem C07q_levels_sorted (c : Cmp α) (hc : SWO c.lt) (lim : Limits) (hlim : 0 < lim.minK) {ops : List (Op α)}
    {id : Nat} {s : Sketch α} {items : List α} (h : Reach c lim ops id s items) :
    (∀ l ∈ s.levels, Sorted c.lt l) ∧ (s.bbSorted = true → Sorted c.lt s.bb) := by
  have hi := (C07q_reach_inv c hc lim hlim h).1
  exact ⟨hi.lv_shape.sorted, hi.bb_sorted⟩

/-- **the sorted view** has total weight `n`, `num_retained` entries in ascending order, and `get_rank`'s numerator
is the total weight of the retained items `≤ x` (inclusive) resp. `< x` (exclusive) -/
theorem C07q_view (c : Cmp α) (hc : SWO c.lt) (lim : Limits) (hlim : 0 < lim.minK) {ops : List (Op α)}
    {id : Nat} {s : Sketch α} {items : List α} (h : Reach c lim ops id s items) :
    (s.view c).total = s.n ∧ (s.view c).ents.length = s.numRetained ∧ Sorted c.lt ((s.view c).ents.map (·.1)) ∧
    ∀ x incl, SortedView.rankNum c.lt (s.view c) x incl = wSketch (belowP c.lt x incl) s := by
  have hi := (C07q_reach_inv c hc lim hlim h).1
  exact ⟨view_total hc hi, view_length hc hi, view_sorted hc hi, fun x incl => view_rankNum hc hi x incl⟩

/-- **rank_mono, rank_incl_ge_excl, rank ≤ 1**: the rank numerator is monotone in the query point, the inclusive one is
at least the exclusive one, and none exceeds the total `n` -/
theorem C07q_rank_monotone (c : Cmp α) (hc : SWO c.lt) (lim : Limits) (hlim : 0 < lim.minK) {ops : List (Op α)}
    {id : Nat} {s : Sketch α} {items : List α} (h : Reach c lim ops id s items) :
    (∀ x y incl, c.lt y x = false →
      SortedView.rankNum c.lt (s.view c) x incl ≤ SortedView.rankNum c.lt (s.view c) y incl) ∧
    (∀ x, SortedView.rankNum c.lt (s.view c) x false ≤ SortedView.rankNum c.lt (s.view c) x true) ∧
    (∀ x incl, SortedView.rankNum c.lt (s.view c) x incl ≤ (s.view c).total) := by
  have hi := (C07q_reach_inv c hc lim hlim h).1
  refine ⟨?_, ?_, ?_⟩
  · intro x y incl hxy
    rw [view_rankNum hc hi, view_rankNum hc hi]
    exact wSketch_mono (belowP_mono hc hxy incl) s
  · intro x
    rw [view_rankNum hc hi, view_rankNum hc hi]
    exact wSketch_mono (belowP_excl_incl hc x) s
  · intro x incl
    rw [view_rankNum hc hi, view_total hc hi]
    have h1 := wSketch_mono (p := belowP c.lt x incl) (q := fun _ => true) (fun _ _ => rfl) s
    have h2 : wSketch (fun _ => true) s = s.n := by
      have := (expectedIter_facts hi).2
      rw [← this, ← selW_expectedIter]
      generalize expectedIter s = l
      induction l with
      | nil => rfl
      | cons e t ih => simp [selW, ih]
    omega

/-- **exact_mode_exact**: while `n < 2k` (nothing compacted) the rank numerator of every `x` is the number of
accepted items `≤ x` (resp. `< x`) over the denominator `n = |items|`, and for every integer weight threshold `w`
(the code computes `⌈r·n⌉` inclusive / `⌊r·n⌋` exclusive from the rank `r` in doubles) the quantile is the element of
index `w - 1` (inclusive) / `w` (exclusive) of the ascending arrangement of the accepted items, clamped to the last -/
theorem C07q_exact_mode_exact (c : Cmp α) (hc : SWO c.lt) (lim : Limits) (hlim : 0 < lim.minK) {ops : List (Op α)}
    {id : Nat} {s : Sketch α} {items : List α} (h : Reach c lim ops id s items) (hex : s.n < 2 * s.k) :
    (∀ x incl, SortedView.rankNum c.lt (s.view c) x incl = items.countP (belowP c.lt x incl)) ∧
    (s.view c).total = items.length ∧
    ∀ w incl, ∃ sorted : List α, sorted.Perm items ∧ Sorted c.lt sorted ∧
      SortedView.quantileAt (s.view c) w incl =
        match sorted[(if incl then w - 1 else w)]? with
        | some x => some x
        | none => sorted.getLast? := by
  obtain ⟨hi, hr⟩ := C07q_reach_inv c hc lim hlim h
  exact ⟨fun x incl => (exact_rank hc hi hr.1 hex x incl).1, by rw [view_total hc hi, hr.1.len],
    fun w incl => exact_quantile hc hi hr.1 hex w incl⟩

/-- a sketch still in exact mode is reachable: three updates into k = 2 -/
example : ∃ s, Reach intCmp demoLim [.new 0 2, .upd 0 5, .upd 0 3, .upd 0 9] 0 s [5, 3, 9] ∧ s.n < 2 * s.k := by
  obtain ⟨s, _, h⟩ := C07q_reach_exists intCmp demoLim (by decide) [.new 0 2, .upd 0 5, .upd 0 3, .upd 0 9] 0 _
    demo3_truth { q := [] }
  have hn := (C07q_n_exact intCmp intCmp_swo demoLim (by decide) h).1
  obtain ⟨st, hleaf, hg, _⟩ := id h
  have hsp := hist_spec intCmp demoLim (by decide) (fun _ => true) (sortOK_true _) (relC_ok intCmp _)
    [.new 0 2, .upd 0 5, .upd 0 3, .upd 0 9] 0
  have hok := (hsp.all.of_leaf hleaf) 0
  rw [hg] at hok
  obtain ⟨items, kk, nn, _, hk, _, _, hsk, _⟩ := hok.of_some
  have hkk : aget (knHist intCmp demoLim [.new 0 2, .upd 0 5, .upd 0 3, .upd 0 9]).1 0 = some (2, 3) := by decide
  rw [hkk] at hk
  have : kk = 2 := by injection hk with h1; injection h1 with h2 _; exact h2.symm
  refine ⟨s, h, ?_⟩
  rw [hn, hsk, this]; decide

/-! ### invalid queries -/

/-- the full statement: every rank that is not in `[0, 1]` – negative, above one, or NaN – is rejected -/
def C07q_invalid_rejected_full : Prop :=
  ∀ (c : Cmp Int) (s : Sketch Int) (cls : RankClass) (wOf : Nat → Nat) (incl : Bool),
    cls ≠ RankClass.ok → (s.getQuantileCore c cls wOf incl).2 = QOut.rejected

/-- as coded the guard is `(rank < 0.0) || (rank > 1.0)`, which is false for NaN: `get_quantile(NaN)` on a non-empty
sketch is answered (through an undefined double→uint64 conversion).  Witness: one item, rank NaN.
(finding `nan-rank-answered`, proposed_fixes/C07-nan-rank-answered.patch; replayed on the real code by `./check c07quant`) -/
theorem C07q_invalid_rejected_full_false : ¬ C07q_invalid_rejected_full := by
  intro h
  have := h intCmp { k := 4, n := 1, bb := [5], minItem := some 5, maxItem := some 5 } RankClass.nan (fun t => t) true
    (by decide)
  simp [Sketch.getQuantileCore, rankRejected] at this

/-- what does hold: queries on an empty sketch (rank, quantile, CDF/PMF), ranks below 0 or above 1, split points
containing a NaN or not strictly increasing are all rejected (the code throws) -/
theorem C07q_invalid_rejected_partial (c : Cmp α) (s : Sketch α) :
    (s.n = 0 → ∀ x incl cls wOf sp, s.getRankNum c x incl = (s, .rejected) ∧
        s.getQuantileCore c cls wOf incl = (s, .rejected) ∧ s.getCDFNum c sp incl = (s, .rejected)) ∧
    (∀ cls wOf incl, cls = RankClass.neg ∨ cls = RankClass.big → s.getQuantileCore c cls wOf incl = (s, .rejected)) ∧
    (∀ sp incl x, x ∈ sp → c.nan x = true → (s.getCDFNum c sp incl).2 = .rejected) ∧
    (∀ pre post a b incl, c.lt a b = false → (s.getCDFNum c (pre ++ a :: b :: post) incl).2 = .rejected) :=
  ⟨fun hn x incl cls wOf sp => empty_rejected c hn x incl cls wOf sp,
   fun cls wOf incl hc => rank_out_of_range_rejected c s cls hc wOf incl,
   fun sp incl x hx hn => bad_splits_rejected c s sp incl (checkSplitPoints_nan c sp x hx hn),
   fun pre post a b incl hab => bad_splits_rejected c s _ incl (checkSplitPoints_order c pre post a b hab)⟩

example : (({ k := 4 } : Sketch Int).getQuantileCore intCmp RankClass.ok (fun t => t) true).2 = QOut.rejected := by
  simp [Sketch.getQuantileCore]

/-- all of the above holds along every recorded stream of random choices (what the harness feeds through
`random_utils::verif_source`): the result of `Tree.run` is a leaf -/
theorem C07q_every_run (c : Cmp α) (lim : Limits) (hlim : 0 < lim.minK) (ops : List (Op α)) (src : Tree.Src) :
    Tree.IsLeaf ((runHist c lim ops).run src).1 (runHist c lim ops) :=
  Tree.run_isLeaf (hist_spec c lim hlim (fun _ => true) (sortOK_true c.lt) (relC_ok c _) ops 0).all src

example : Tree.IsLeaf ((runHist intCmp demoLim demoOps).run { q := [1, 1, 0, 1] }).1 (runHist intCmp demoLim demoOps) :=
  C07q_every_run intCmp demoLim (by decide) demoOps _

end DS.Quantiles

import DSModel.Quantiles.History
namespace DS.Quantiles
theorem placeholder_c07 : (1 : Nat) = 1 := rfl
end DS.Quantiles

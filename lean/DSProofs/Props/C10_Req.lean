/-
C10 (REQ) — the image follows the documented layout.

ONLY property theorems and their non-vacuity examples.  `docCfg` (Props/C09_Req.lean) is the documented contract
(family 17; serial version 1; preamble ints 2, or 4 with more than one level; flags bit 2 empty, bit 3 high-rank-accuracy,
bit 4 raw-items, bit 5 level-zero-sorted; 8-byte preamble; raw-items format for n <= 4).  `codeCfg` is what the translator
extracted from the CURRENT headers in this run.  REQ has a single serial version: there is no legacy format.
-/
import DSModel.Wire.ReqCode
import DSProofs.Props.C09_Req
namespace DS.Wire.Req
open Reader

/-- every wire constant in the current headers equals its documented value -/
theorem wire_consts_documented : codeCfg = docCfg := by decide


/-- the documented reader recovers the documented content from the documented bytes: the example image in hex -/
example : encode (Serde.fixed 8) docCfg d6Witness =
    [0x02, 0x01, 0x11, 0x18, 0x04, 0x00, 0x01, 0x02, 1,0,0,0,0,0,0,0, 2,0,0,0,0,0,0,0] := by decide

end DS.Wire.Req

/-
C18 — EBPPS sampling sketch: bookkeeping exact, c = rho·cumWt = min(k, cumWt/wtMax), sample size ⌊c⌋ / ⌈c⌉.

ONLY property theorems and their non-vacuity examples live here (helper lemmas: Lemmas/Ebpps*.lean).
Model: DSModel/Ebpps/{Num,Sample,Sketch,Run}.lean — ONE generic definition over an ops-only numeric class; the `Float`
instance is what `dsmodel_ebpps` executes and what the correspondence check `./check C18` compares bit for bit with
ebpps_sketch_impl.hpp / ebpps_sample_impl.hpp (all random draws supplied through the DATASKETCHES_VERIF hook);
the theorems below are about the `Rat` instance of the SAME definitions (exact arithmetic; binary64 rounding is not
modelled).  Every statement is for every `k ≥ 1`, every finite stream of positive rational weights, every sequence of
draws (`Draws`: the values returned by `next_double()` and by `random_idx`), and every model variant `v`
(`Variant`: which of the five proposed repairs the current source contains; the pinned tree is `{}`; the two binary64
repairs are no-ops in exact arithmetic).

Admissible unit draws (`UnitOK`): values of `next_double()` lie in `[0,1)`; for the PINNED code the theorems need the
draw to be nonzero, `(0,1)`: a draw of exactly `0.0` loses the partial item (`eb_structure_full_false`).

NOT formalised (DESIGN.md §5): "over the sampling randomness each item's inclusion probability is proportional to its
weight" as a statement about the joint distribution of all draws.  Only the one-step identities are proved
(`eb_one_step_pps_downsample`, `eb_one_step_pps_new_item`, `eb_one_step_pps_merge`).
-/
import DSProofs.Lemmas.EbppsPpsDown
namespace DS.Ebpps

/-- the items offered by a stream -/
def itemsOf (ops : List (Upd Rat)) : List Nat := ops.map (·.item)

/-- a valid update stream: positive weights and admissible draws -/
def ValidStream (v : Variant) (ops : List (Upd Rat)) : Prop := ∀ u ∈ ops, 0 < u.w ∧ UnitOK v.geDraw u.d

lemma streamOK_of_valid {v : Variant} {ops : List (Upd Rat)} (h : ValidStream v ops) :
    StreamOK v (· ∈ itemsOf ops) ops := fun u hu =>
  ⟨(h u hu).1, List.mem_map.2 ⟨u, hu, rfl⟩, (h u hu).2⟩

/-- n and the cumulative weight are exact (and `k`, the maximum weight are what they should be). -/
theorem eb_counts (v : Variant) (k : Nat) (hk : 1 ≤ k) (ops : List (Upd Rat)) (h : ValidStream v ops) :
    (runUpdates v (Sketch.fresh k) ops).n = ops.length ∧
    (runUpdates v (Sketch.fresh k) ops).cumWt = wsum ops ∧
    (runUpdates v (Sketch.fresh k) ops).k = k ∧
    (runUpdates v (Sketch.fresh k) ops).wtMax = wmaxFrom 0 ops := by
  obtain ⟨-, h2, h3, h4, h5⟩ := runUpdates_wf v ops _ (wf_fresh hk) (streamOK_of_valid h)
  refine ⟨by simpa [Sketch.fresh] using h2, by simpa [Sketch.fresh] using h3, by simpa [Sketch.fresh] using h5, ?_⟩
  simpa [Sketch.fresh] using h4

example : ValidStream {} [⟨1, 3, ⟨[1/2], [7]⟩⟩, ⟨2, 1/4, ⟨[1/3, 2/3], []⟩⟩] := by
  intro u hu; simp at hu; rcases hu with rfl | rfl <;> simp [UnitOK] <;> norm_num

/-- after every update `c = rho·cumWt = min(k, cumWt / wtMax)` with `rho = min(1/wtMax, k/cumWt)`. -/
theorem eb_c_closed_form (v : Variant) (k : Nat) (hk : 1 ≤ k) (ops : List (Upd Rat)) (hne : ops ≠ [])
    (h : ValidStream v ops) :
    (runUpdates v (Sketch.fresh k) ops).sample.c =
        (runUpdates v (Sketch.fresh k) ops).rho * (runUpdates v (Sketch.fresh k) ops).cumWt ∧
    (runUpdates v (Sketch.fresh k) ops).rho = min (1 / wmaxFrom 0 ops) ((k : Rat) / wsum ops) ∧
    (runUpdates v (Sketch.fresh k) ops).sample.c = min (k : Rat) (wsum ops / wmaxFrom 0 ops) := by
  have hc := runUpdates_core v ops hne _ (wf_fresh hk) (streamOK_of_valid h)
  obtain ⟨_, e2, e3, e4⟩ := eb_counts v k hk ops h
  have h1 := hc.c
  have h2 := hc.rho
  have h3 := hc.closed
  rw [e3, e4, e2] at h2 h3
  exact ⟨h1, h2, h3⟩

example : wsum [⟨1, 3, ⟨[], []⟩⟩, ⟨2, 1/4, ⟨[], []⟩⟩] = 13/4 ∧ wmaxFrom 0 [⟨1, 3, ⟨[], []⟩⟩, ⟨2, 1/4, ⟨[], []⟩⟩] = 3 := by
  constructor <;> simp [wsum, wmaxFrom] <;> norm_num

/-- `|data| = ⌊c⌋`, the partial item is present iff `frac c > 0`, every stored item is an input item; hence every
`get_result()` (whatever the draw) has `⌊c⌋` items, or `⌊c⌋ + 1 = ⌈c⌉` items when `c` is not integral, all of them
input items. -/
theorem eb_structure (v : Variant) (k : Nat) (hk : 1 ≤ k) (ops : List (Upd Rat)) (h : ValidStream v ops) :
    ((runUpdates v (Sketch.fresh k) ops).sample.data.length : Int) = (runUpdates v (Sketch.fresh k) ops).sample.c.floor ∧
    ((runUpdates v (Sketch.fresh k) ops).sample.part.isSome ↔
      (((runUpdates v (Sketch.fresh k) ops).sample.c.floor : Int) : Rat) < (runUpdates v (Sketch.fresh k) ops).sample.c) ∧
    (∀ x ∈ (runUpdates v (Sketch.fresh k) ops).sample.items, x ∈ itemsOf ops) ∧
    ∀ d : Draws Rat,
      (((getSample (runUpdates v (Sketch.fresh k) ops).sample d).1.length : Int)
          = (runUpdates v (Sketch.fresh k) ops).sample.c.floor ∨
        ((((runUpdates v (Sketch.fresh k) ops).sample.c.floor : Int) : Rat) < (runUpdates v (Sketch.fresh k) ops).sample.c ∧
         ((getSample (runUpdates v (Sketch.fresh k) ops).sample d).1.length : Int)
          = (runUpdates v (Sketch.fresh k) ops).sample.c.floor + 1)) ∧
      ∀ x ∈ (getSample (runUpdates v (Sketch.fresh k) ops).sample d).1, x ∈ itemsOf ops := by
  have hs := (runUpdates_wf v ops _ (wf_fresh hk) (streamOK_of_valid h)).1.sinv
  refine ⟨hs.len, hs.part, ?_, fun d => getSample_spec hs d⟩
  intro x hx
  unfold Sample.items at hx
  rcases List.mem_append.1 hx with hx | hx
  · exact hs.dataP x hx
  · exact hs.partP x (by simpa using hx)

/-- equal weights and `n ≤ k`: `c = n`, nothing is ever dropped, every `get_result()` returns every item (for ANY draws). -/
theorem eb_equal_weights_keep_all (v : Variant) (k : Nat) (w : Rat) (hw : 0 < w) (ops : List (Upd Rat))
    (hall : ∀ u ∈ ops, u.w = w) (hnk : ops.length ≤ k) :
    (runUpdates v (Sketch.fresh k) ops).sample.c = (ops.length : Rat) ∧
    (runUpdates v (Sketch.fresh k) ops).sample.data = itemsOf ops ∧
    (runUpdates v (Sketch.fresh k) ops).sample.part = none ∧
    ∀ d : Draws Rat, (getSample (runUpdates v (Sketch.fresh k) ops).sample d).1 = itemsOf ops := by
  have h0 : EqState (Sketch.fresh k : Sketch Rat) 0 [] w :=
    ⟨by simp [Sketch.fresh, Sample.empty], by simp [Sketch.fresh], by simp [Sketch.fresh], fun h => absurd h (lt_irrefl 0)⟩
  obtain ⟨hst, -⟩ := runUpdates_equal v w hw ops (Sketch.fresh k) 0 [] h0 hall (by simpa [Sketch.fresh] using hnk)
  have hsm := hst.sample
  simp only [Nat.zero_add, List.nil_append] at hsm
  refine ⟨by rw [hsm], by rw [hsm]; rfl, by rw [hsm], fun d => ?_⟩
  rw [hsm]
  unfold getSample
  simp only [Option.toList_none, List.append_nil, ite_self]
  rfl

example : (∀ u ∈ [(⟨1, 5, ⟨[], []⟩⟩ : Upd Rat), ⟨2, 5, ⟨[], []⟩⟩], u.w = 5) ∧ [(⟨1, 5, ⟨[], []⟩⟩ : Upd Rat), ⟨2, 5, ⟨[], []⟩⟩].length ≤ 2 := by
  simp

/-- merging two non-empty sketches, in BOTH directions (`a.merge(b)` and `b.merge(a)`; the lvalue and the rvalue overload
compute the same `*this`): n and the cumulative weight add, `k := min`, the sample keeps its structure with every stored
item an input item of one of the two streams, and `c = min(k, cumWt / wtMax)` for the merged totals. -/
theorem eb_merge (v : Variant) (ka kb : Nat) (hka : 1 ≤ ka) (hkb : 1 ≤ kb) (A B : List (Upd Rat))
    (hA : A ≠ []) (hB : B ≠ []) (hvA : ValidStream v A) (hvB : ValidStream v B)
    (d : Draws Rat) (hd : UnitOK v.geDraw d) :
    let a := runUpdates v (Sketch.fresh ka) A
    let b := runUpdates v (Sketch.fresh kb) B
    ∀ m, (m = (mergeSk v a b d).1 ∨ m = (mergeSk v b a d).1) →
      m.n = A.length + B.length ∧ m.cumWt = wsum A + wsum B ∧ m.k = min ka kb ∧
      m.sample.c = min ((min ka kb : Nat) : Rat) ((wsum A + wsum B) / max (wmaxFrom 0 A) (wmaxFrom 0 B)) ∧
      (m.sample.data.length : Int) = m.sample.c.floor ∧
      (m.sample.part.isSome ↔ ((m.sample.c.floor : Int) : Rat) < m.sample.c) ∧
      ∀ x ∈ m.sample.items, x ∈ itemsOf A ∨ x ∈ itemsOf B := by
  intro a b m hm
  obtain ⟨an, aw, ak, am⟩ := eb_counts v ka hka A hvA
  obtain ⟨bn, bw, bk, bm⟩ := eb_counts v kb hkb B hvB
  have ca := (runUpdates_core v A hA _ (wf_fresh hka) (streamOK_of_valid hvA)).mono
    (Q := fun x => x ∈ itemsOf A ∨ x ∈ itemsOf B) (fun x hx => Or.inl hx)
  have cb := (runUpdates_core v B hB _ (wf_fresh hkb) (streamOK_of_valid hvB)).mono
    (Q := fun x => x ∈ itemsOf A ∨ x ∈ itemsOf B) (fun x hx => Or.inr hx)
  have ka1 : 1 ≤ a.k := by show 1 ≤ (runUpdates v (Sketch.fresh ka) A).k; rw [ak]; exact hka
  have kb1 : 1 ≤ b.k := by show 1 ≤ (runUpdates v (Sketch.fresh kb) B).k; rw [bk]; exact hkb
  have fin : ∀ (m : Sketch Rat) (K : Nat) (M W : Rat),
      Core (fun x => x ∈ itemsOf A ∨ x ∈ itemsOf B) m M K → m.cumWt = W →
      m.sample.c = min (K : Rat) (W / M) ∧ (m.sample.data.length : Int) = m.sample.c.floor ∧
      (m.sample.part.isSome ↔ ((m.sample.c.floor : Int) : Rat) < m.sample.c) ∧
      ∀ x ∈ m.sample.items, x ∈ itemsOf A ∨ x ∈ itemsOf B := by
    intro m K M W hc hW
    refine ⟨by rw [← hW]; exact hc.closed, hc.sinv.len, hc.sinv.part, ?_⟩
    intro x hx
    unfold Sample.items at hx
    rcases List.mem_append.1 hx with hx | hx
    · exact hc.sinv.dataP x hx
    · exact hc.sinv.partP x (by simpa using hx)
  rcases hm with rfl | rfl
  · obtain ⟨m1, m2, m3, m4, -, -⟩ := mergeSk_live (v := v) (d := d) ca ka1 cb kb1 hd
    have e2 : (mergeSk v a b d).1.cumWt = wsum A + wsum B := by rw [m2]; show (runUpdates v _ A).cumWt + (runUpdates v _ B).cumWt = _; rw [aw, bw]
    have e4 : (mergeSk v a b d).1.k = min ka kb := by rw [m4]; show min (runUpdates v _ A).k (runUpdates v _ B).k = _; rw [ak, bk]
    have e3 : (mergeSk v a b d).1.n = A.length + B.length := by rw [m3]; show (runUpdates v _ A).n + (runUpdates v _ B).n = _; rw [an, bn]
    have hcore : Core (fun x => x ∈ itemsOf A ∨ x ∈ itemsOf B) (mergeSk v a b d).1 (max (wmaxFrom 0 A) (wmaxFrom 0 B)) (min ka kb) := by
      have := m1
      show Core _ _ _ _
      rw [show a.wtMax = wmaxFrom 0 A from am, show b.wtMax = wmaxFrom 0 B from bm, show a.k = ka from ak, show b.k = kb from bk] at this
      exact this
    exact ⟨e3, e2, e4, fin _ _ _ _ hcore e2⟩
  · obtain ⟨m1, m2, m3, m4, -, -⟩ := mergeSk_live (v := v) (d := d) cb kb1 ca ka1 hd
    have e2 : (mergeSk v b a d).1.cumWt = wsum A + wsum B := by
      rw [m2]; show (runUpdates v _ B).cumWt + (runUpdates v _ A).cumWt = _; rw [aw, bw]; ring
    have e4 : (mergeSk v b a d).1.k = min ka kb := by
      rw [m4]; show min (runUpdates v _ B).k (runUpdates v _ A).k = _; rw [ak, bk]; exact min_comm _ _
    have e3 : (mergeSk v b a d).1.n = A.length + B.length := by
      rw [m3]; show (runUpdates v _ B).n + (runUpdates v _ A).n = _; rw [an, bn]; omega
    have hcore : Core (fun x => x ∈ itemsOf A ∨ x ∈ itemsOf B) (mergeSk v b a d).1 (max (wmaxFrom 0 A) (wmaxFrom 0 B)) (min ka kb) := by
      have := m1
      rw [show b.wtMax = wmaxFrom 0 B from bm, show a.wtMax = wmaxFrom 0 A from am, show b.k = kb from bk, show a.k = ka from ak,
        max_comm, min_comm] at this
      exact this
    exact ⟨e3, e2, e4, fin _ _ _ _ hcore e2⟩

/-! ## One-step PPS identities (interval lengths of the draw regions)

`incl s x` is the probability that `get_result()` returns `x` given the sample `s`: 1 per full occurrence, `frac c` for the
partial item (`{u : u < frac c}` has length `frac c`).  One update first down-samples the resident sample by `rho'/rho`
and then merges the one-item sample of the new item, `theta = rho'·w` (`eb_update_is_downsample_then_merge`). -/

/-- the sample after `update` is `mergeSample (downsample old (rho'/rho)) (replaceContent item (rho'·w))` with
`rho' = min(1/max(wtMax, w), k/(cumWt + w))`, for every model variant. -/
theorem eb_update_is_downsample_then_merge (v : Variant) (s : Sketch Rat) (item : Nat) (w : Rat) (d : Draws Rat)
    (hpos : 0 < s.cumWt) (hw : 0 < w) (hk : 1 ≤ s.k)
    (rho' : Rat) (hr : rho' = min (1 / max s.wtMax w) ((s.k : Rat) / (s.cumWt + w))) :
    (absorb v s item w (fun r => r * w) (max s.wtMax w) d).1.sample =
      (mergeSample v.geDraw (downsample v.geDraw s.sample (rho' / s.rho) d).1 (replaceContent item (rho' * w))
        (downsample v.geDraw s.sample (rho' / s.rho) d).2).1 ∧
    (absorb v s item w (fun r => r * w) (max s.wtMax w) d).1.rho = rho' ∧ 0 < rho' * w ∧ rho' * w ≤ 1 := by
  have hmx : 0 < max s.wtMax w := lt_max_of_lt_right hw
  have hkq : (0 : Rat) < s.k := by exact_mod_cast hk
  have hrp : 0 < rho' := by rw [hr]; exact lt_min (div_pos one_pos hmx) (div_pos hkq (by linarith))
  have hth1 : rho' * w ≤ 1 := by
    calc rho' * w ≤ 1 / max s.wtMax w * w := by
          rw [hr]; exact mul_le_mul_of_nonneg_right (min_le_left _ _) (le_of_lt hw)
      _ = w / max s.wtMax w := by ring
      _ ≤ 1 := (div_le_one hmx).2 (le_max_right _ _)
  have hcond : (Num.lt (zero : Rat) s.cumWt) = true := by simp [hpos]
  refine ⟨?_, ?_, mul_pos hrp hw, hth1⟩
  · unfold absorb
    simp only [hcond, if_true, rat_newRho, mergeSampleV_eq_rat, ← hr]
    rw [replaceContentV_eq_rat _ _ hth1]
  · unfold absorb
    simp only [rat_newRho, ← hr]

/-- downsample half of the one-step PPS property: for the resident sample `s` and `0 < theta < 1` (`theta = rho'/rho`) there is
a threshold `t ∈ [0,1]` for the unit draw — draws below `t` give the outcome `FA js`, draws above `t` give `FB js`
(regions of lengths `t`, `1 - t`), `js` being the values of `random_idx`, independent and uniform with the bounds `bA`
resp. `bB` (`expIdx`: exact average over all index vectors; the partial Fisher–Yates shuffle is proved uniform in
`exp_count_subAt`) — and for EVERY item `x` the expected inclusion probability after the step is `theta · incl s x`:
every resident item's inclusion probability is scaled by exactly `rho'/rho`.
(`⟨[u], js⟩`: `downsample` consults one unit draw; further unit draws are left untouched.) -/
theorem eb_one_step_pps_downsample (ge : Bool) (P : Nat → Prop) (s : Sample Rat) (hs : SInv P s) (hc : 0 < s.c)
    (theta : Rat) (h0 : 0 < theta) (h1 : theta < 1) :
    ∃ (t : Rat) (bA bB : List Nat) (FA FB : List Nat → Sample Rat), 0 ≤ t ∧ t ≤ 1 ∧
      (∀ u js, u < t → (downsample ge s theta ⟨[u], js⟩).1 = FA js) ∧
      (∀ u js, t < u → (downsample ge s theta ⟨[u], js⟩).1 = FB js) ∧
      ∀ x, t * expIdx bA (fun js => incl (FA js) x) + (1 - t) * expIdx bB (fun js => incl (FB js) x) = theta * incl s x :=
  downsample_pps hs hc h0 h1

example : expIdx [2, 3] (fun js => (js.sum : Rat)) = 3 / 2 := by
  simp [expIdx, avg, sumTo]; norm_num

/-- merge half of the one-step PPS property: there is a threshold `t ∈ [0,1]` such that every draw below `t` produces the
sample `A` and every draw above `t` produces `B` (regions of lengths `t` and `1 - t`), and for EVERY item `x`
`t·incl A x + (1-t)·incl B x = incl s x + (theta if x is the new item else 0)`: the new item is included with probability
`theta = rho'·w`, and the merge leaves every resident item's inclusion probability unchanged. -/
theorem eb_one_step_pps_new_item (ge : Bool) (P : Nat → Prop) (s : Sample Rat) (hs : SInv P s) (item : Nat) (hP : P item)
    (theta : Rat) (h0 : 0 < theta) (h1 : theta ≤ 1) :
    ∃ (t : Rat) (A B : Sample Rat), 0 ≤ t ∧ t ≤ 1 ∧
      (∀ d : Draws Rat, d.unit.1 < t → (mergeSample ge s (replaceContent item theta) d).1 = A) ∧
      (∀ d : Draws Rat, t < d.unit.1 → (mergeSample ge s (replaceContent item theta) d).1 = B) ∧
      ∀ x, t * incl A x + (1 - t) * incl B x = incl s x + (if x = item then theta else 0) := by
  obtain ⟨t, A, B, t0, t1, hA, hB, hx⟩ := merge_pps (ge := ge) hs (replaceContent_spec (P := P) hP h0 h1).1
  exact ⟨t, A, B, t0, t1, hA, hB, fun x => by rw [hx x, incl_replaceContent item h0 h1 x]⟩

/-- the same identity for the merge of ANY two well-structured samples (used when sketches are merged): expected inclusion
after = inclusion in the first + inclusion in the second. -/
theorem eb_one_step_pps_merge (ge : Bool) (P : Nat → Prop) (s o : Sample Rat) (hs : SInv P s) (ho : SInv P o) :
    ∃ (t : Rat) (A B : Sample Rat), 0 ≤ t ∧ t ≤ 1 ∧
      (∀ d : Draws Rat, d.unit.1 < t → (mergeSample ge s o d).1 = A) ∧
      (∀ d : Draws Rat, t < d.unit.1 → (mergeSample ge s o d).1 = B) ∧
      ∀ x, t * incl A x + (1 - t) * incl B x = incl s x + incl o x :=
  merge_pps hs ho

example : SInv (fun _ => True) (⟨5/2, [1, 2], some 3⟩ : Sample Rat) := by
  refine ⟨by norm_num, ?_, ?_, fun _ _ => trivial, fun _ _ => trivial⟩
  · have : (5/2 : Rat).floor = 2 := by decide +kernel
    simp [this]
  · have : (5/2 : Rat).floor = 2 := by decide +kernel
    simp [this]; norm_num

/-! ## Arbitrary histories (merge trees) -/

/-- With the repaired merge (`wt_max_` stored, empty operands handled: proposed_fixes/C18-merge-wt-max.patch and
C18-merge-empty-k.patch) EVERY history — any tree of updates, merges in either direction, resets and serialization
points, any draws — keeps all the invariants: counters exact, `k` the smallest merged `k`, `c = rho·cumWt = min(k, cumWt/wtMax)`,
sample structure, stored items ⊆ offered items. -/
theorem eb_all_histories_repaired (v : Variant) (hv1 : v.mergeSetsWtMax = true) (hv2 : v.mergeEmptyShrinks = true)
    (h : Hist Rat) (hok : h.OK v) :
    (h.eval v).n = h.cnt ∧ (h.eval v).cumWt = h.wt ∧ (h.eval v).k = h.kmin ∧ (h.eval v).wtMax = h.wmax ∧
    (0 < h.wt → (h.eval v).sample.c = (h.eval v).rho * (h.eval v).cumWt ∧
                (h.eval v).sample.c = min (h.kmin : Rat) (h.wt / h.wmax)) ∧
    ((h.eval v).sample.data.length : Int) = (h.eval v).sample.c.floor ∧
    ((h.eval v).sample.part.isSome ↔ (((h.eval v).sample.c.floor : Int) : Rat) < (h.eval v).sample.c) ∧
    ∀ x ∈ (h.eval v).sample.items, x ∈ h.items := by
  have a := hist_agrees hv1 hv2 h hok
  have hs := a.wf.sinv
  refine ⟨a.n, a.w, a.k, a.m, ?_, hs.len, hs.part, ?_⟩
  · intro hpos
    rcases a.wf.fresh_or_live with ⟨hw, -, -, -⟩ | ⟨hc, -, -⟩
    · rw [a.w] at hw; rw [hw] at hpos; exact absurd hpos (lt_irrefl 0)
    · have h3 := hc.closed
      rw [a.w, a.m, a.k] at h3
      exact ⟨hc.c, h3⟩
  · intro x hx
    unfold Sample.items at hx
    rcases List.mem_append.1 hx with hx | hx
    · exact hs.dataP x hx
    · exact hs.partP x (by simpa using hx)

example : (Hist.merge (.upd (.fresh 3) ⟨1, 2, ⟨[], []⟩⟩) (.reset (.upd (.fresh 5) ⟨2, 7, ⟨[1/2], [3]⟩⟩)) ⟨[1/4], []⟩ : Hist Rat).OK
    { mergeSetsWtMax := true, mergeEmptyShrinks := true } := by
  simp [Hist.OK, UnitOK]; norm_num

/-! ### What the CURRENT code violates (witnesses; each is replayed on the real headers by corpus/regress/C18/) -/

/-- FULL closed form over arbitrary histories of the pinned code (`Variant` `{}`): false. -/
def eb_c_closed_form_full : Prop :=
  ∀ h : Hist Rat, h.OK {} → 0 < h.wt → (h.eval {}).sample.c = min (h.kmin : Rat) (h.wt / h.wmax)

/-- `{1,1}` (k=4) merges `{2}`, then one more update of weight 1 (corpus/regress/C18/f1-wt-max-stale.txt) -/
def witnessStaleMax : Hist Rat :=
  .upd (.merge (.upd (.upd (.fresh 4) ⟨1, 1, ⟨[], []⟩⟩) ⟨2, 1, ⟨[], []⟩⟩) (.upd (.fresh 4) ⟨3, 2, ⟨[], []⟩⟩) ⟨[], []⟩)
    ⟨4, 1, ⟨[], []⟩⟩

/-- `internal_merge` never stores the new maximum weight: after the merge the next update computes `rho` from the stale
`wt_max_` and `c` leaves the closed form (`14/5` instead of `min(4, 5/2)`). -/
theorem eb_c_closed_form_full_false : ¬ eb_c_closed_form_full := by
  intro h
  have h1 := h witnessStaleMax (by simp [witnessStaleMax, Hist.OK, UnitOK]) (by simp [witnessStaleMax, Hist.wt]; norm_num)
  have h2 : (witnessStaleMax.eval {}).sample.c = 14 / 5 := by decide +kernel
  have h3 : min ((witnessStaleMax.kmin : Nat) : Rat) (witnessStaleMax.wt / witnessStaleMax.wmax) = 5 / 2 := by
    simp [witnessStaleMax, Hist.kmin, Hist.wt, Hist.wmax]; norm_num
  rw [h2, h3] at h1
  norm_num at h1

/-- what IS proved of the closed form for the pinned code: update streams (`eb_c_closed_form`), one merge of two streams in
either direction (`eb_merge`); and for every history once `wt_max_` is stored and empty operands are handled. -/
theorem eb_c_closed_form_partial (v : Variant) (hv1 : v.mergeSetsWtMax = true) (hv2 : v.mergeEmptyShrinks = true)
    (h : Hist Rat) (hok : h.OK v) (hpos : 0 < h.wt) :
    (h.eval v).sample.c = min (h.kmin : Rat) (h.wt / h.wmax) :=
  ((eb_all_histories_repaired v hv1 hv2 h hok).2.2.2.2.1 hpos).2

/-- unit draws as the library produces them: `[0, 1)` -/
def HalfOpen (d : Draws Rat) : Prop := ∀ u ∈ d.us, 0 ≤ u ∧ u < 1

/-- FULL structure statement for the pinned code with draws in `[0,1)`: false. -/
def eb_structure_full : Prop :=
  ∀ (k : Nat), 1 ≤ k → ∀ ops : List (Upd Rat), (∀ u ∈ ops, 0 < u.w ∧ HalfOpen u.d) →
    ((runUpdates {} (Sketch.fresh k) ops).sample.data.length : Int) = (runUpdates {} (Sketch.fresh k) ops).sample.c.floor

/-- k = 1, two unit weights, every `next_double()` equal to 0.0 (corpus/regress/C18/f2-unit-draw-zero.txt) -/
def witnessZeroDraw : List (Upd Rat) := [⟨1, 1, ⟨[0], []⟩⟩, ⟨2, 1, ⟨[0, 0], []⟩⟩]

/-- `next_double() > c_frac / c_` with `c_frac = 0` and a draw of exactly 0 does not move a full item to the partial slot:
the sample is emptied while `c = 1/2`, and the following merge has no item to promote: `c = 1`, no item. -/
theorem eb_structure_full_false : ¬ eb_structure_full := by
  intro h
  have h1 := h 1 (le_refl 1) witnessZeroDraw (by
    intro u hu
    simp [witnessZeroDraw] at hu
    rcases hu with rfl | rfl <;> simp [HalfOpen])
  revert h1
  decide +kernel

/-- the structure statement as proved for the pinned code: draws in the open interval `(0,1)`. -/
theorem eb_structure_partial (k : Nat) (hk : 1 ≤ k) (ops : List (Upd Rat))
    (h : ∀ u ∈ ops, 0 < u.w ∧ ∀ x ∈ u.d.us, 0 < x ∧ x < 1) :
    ((runUpdates {} (Sketch.fresh k) ops).sample.data.length : Int) = (runUpdates {} (Sketch.fresh k) ops).sample.c.floor :=
  (eb_structure {} k hk ops (fun u hu => ⟨(h u hu).1, fun x hx => by simpa using (h u hu).2 x hx⟩)).1

/-- FULL merge statement over arbitrary histories of the pinned code: `k` is the smallest merged `k` and `c ≤ k`: false. -/
def eb_merge_full : Prop :=
  ∀ h : Hist Rat, h.OK {} → (h.eval {}).k = h.kmin ∧ (h.eval {}).sample.c ≤ (h.eval {}).k

/-- an empty sketch of size 2 merges a sketch of size 4 holding four unit weights (corpus/regress/C18/f3-merge-empty-k.txt) -/
def witnessEmptyOperand : Hist Rat :=
  .merge (.fresh 2)
    (.upd (.upd (.upd (.upd (.fresh 4) ⟨1, 1, ⟨[], []⟩⟩) ⟨2, 1, ⟨[], []⟩⟩) ⟨3, 1, ⟨[], []⟩⟩) ⟨4, 1, ⟨[], []⟩⟩) ⟨[], []⟩

/-- `k` is lowered to 2 but nothing is replayed, so the sample keeps `c = 4 > k` (and in the other direction the early
return keeps `k = 4`). -/
theorem eb_merge_full_false : ¬ eb_merge_full := by
  intro h
  have h1 := (h witnessEmptyOperand (by simp [witnessEmptyOperand, Hist.OK, UnitOK])).2
  revert h1
  decide +kernel

/-- the merge statement as proved for the pinned code: non-empty operands, either direction (`eb_merge`). -/
theorem eb_merge_partial (ka kb : Nat) (hka : 1 ≤ ka) (hkb : 1 ≤ kb) (A B : List (Upd Rat))
    (hA : A ≠ []) (hB : B ≠ []) (hvA : ValidStream {} A) (hvB : ValidStream {} B) (d : Draws Rat) (hd : UnitOK false d) :
    (mergeSk {} (runUpdates {} (Sketch.fresh ka) A) (runUpdates {} (Sketch.fresh kb) B) d).1.k = min ka kb ∧
    (mergeSk {} (runUpdates {} (Sketch.fresh ka) A) (runUpdates {} (Sketch.fresh kb) B) d).1.sample.c ≤ (min ka kb : Nat) := by
  obtain ⟨-, -, h3, h4, -⟩ := eb_merge {} ka kb hka hkb A B hA hB hvA hvB d hd _ (Or.inl rfl)
  exact ⟨h3, by rw [h4]; exact min_le_left _ _⟩

end DS.Ebpps

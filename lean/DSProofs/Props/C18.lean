import DSModel.Ebpps.Sketch
namespace DS.Ebpps
theorem placeholder : True := trivial
end DS.Ebpps

/-
C01 — Theta update sketch is an exact hash-threshold sample of the distinct inputs.

ONLY property theorems and their non-vacuity examples live here (helper lemmas: Lemmas/Theta*.lean).
Model: DSModel/Theta/Update.lean (tied to theta_update_sketch_base_impl.hpp by the correspondence
check `./check C01`).  All statements are for every configuration `c` (any lg_k, resize factor,
starting theta, thresholds) and every finite operation history `ops` (update / trim / reset, any
order, any duplicates); `seenOf ops` = the hashes offered since the last reset.

Literal-statement carve-out: the 63-bit hash value 0 is reserved by the code for empty table
slots and is dropped by design; the statements say "nonzero hashes".
-/
import DSProofs.Lemmas.ThetaInv
import Batteries.Data.List.Perm
namespace DS.Theta

variable {σ : Type}

/-- none missing, none extra, none twice: the retained keys are strictly increasing (hence distinct)
and are exactly the nonzero offered hashes strictly below the current theta. -/
theorem C01_retained_exact (c : Cfg) (ops : List (Op σ)) :
    (keys (run c ops).ents).Pairwise (· < ·) ∧
    ∀ x, x ∈ keys (run c ops).ents ↔ (x ∈ seenOf ops ∧ 0 < x ∧ x < (run c ops).theta) :=
  ⟨(inv_run c ops).sorted, (inv_run c ops).mem⟩

/-- theta never increases (except by an explicit reset). -/
theorem C01_theta_antitone (c : Cfg) (ops : List (Op σ)) (op : Op σ)
    (hop : match op with | .reset => False | _ => True) :
    (run c (ops ++ [op])).theta ≤ (run c ops).theta := by
  rw [run_snoc]
  have h := inv_run c ops
  cases op with
  | upd hash f => exact offer_theta_le c _ _ hash f h
  | trim => exact trim_theta_le c _ _ h
  | reset => exact absurd hop (by simp)

/-- theta is the configured starting value or one of the (nonzero) hashes seen. -/
theorem C01_theta_mem (c : Cfg) (ops : List (Op σ)) :
    (run c ops).theta = c.theta0 ∨ ((run c ops).theta ∈ seenOf ops ∧ 0 < (run c ops).theta) :=
  (inv_run c ops).theta_mem

/-- theta is below the starting value only while at least k = 2^lgNom hashes are retained. -/
theorem C01_theta_lt_k (c : Cfg) (ops : List (Op σ)) :
    (run c ops).theta < c.theta0 → 2^c.lgNom ≤ (run c ops).ents.length :=
  (inv_run c ops).klen

/-- exact while the stream fits: if the distinct nonzero hashes seen are covered by a
list `D` of at most k elements (duplicates in `D` only weaken the hypothesis) then theta is still the starting value, so (with `C01_retained_exact`)
the retained keys are exactly the distinct nonzero hashes below theta0 and `get_estimate` = their count
when p = 1. -/
theorem C01_exact_when_fits (c : Cfg) (ops : List (Op σ)) (D : List Nat)
    (hcov : ∀ x, x ∈ seenOf ops → 0 < x → x ∈ D) (hk : D.length ≤ 2^c.lgNom) :
    (run c ops).theta = c.theta0 := by
  have h := inv_run (σ := σ) c ops
  rcases Nat.lt_or_ge (run c ops).theta c.theta0 with hlt | hge
  · exfalso
    have hlen := h.klen hlt
    rcases h.theta_mem with h1 | ⟨h1, h2⟩
    · omega
    · -- keys ++ [theta] is duplicate-free and inside D
      have hnd : (keys (run c ops).ents ++ [(run c ops).theta]).Nodup := by
        rw [List.nodup_append]
        refine ⟨h.sorted.imp (fun hab => Nat.ne_of_lt hab), by simp, ?_⟩
        intro a ha b hb
        simp only [List.mem_singleton] at hb
        subst hb
        have := ((h.mem a).1 ha).2.2
        omega
      have hsub : (keys (run c ops).ents ++ [(run c ops).theta]) ⊆ D := by
        intro x hx
        simp only [List.mem_append, List.mem_singleton] at hx
        rcases hx with hx | rfl
        · have := (h.mem x).1 hx; exact hcov x this.1 this.2.1
        · exact hcov _ h1 h2
      have := (List.subperm_of_subset hnd hsub).length_le
      simp only [List.length_append, keys_length, List.length_singleton] at this
      omega
  · exact Nat.le_antisymm h.theta_le hge

/-- trim() leaves at most k entries. -/
theorem C01_trim_le_k (c : Cfg) (ops : List (Op σ)) :
    (run c (ops ++ [Op.trim])).ents.length ≤ 2^c.lgNom := by
  rw [run_snoc]; exact trim_length_le c _ _ (inv_run c ops)

/-- compact() / compact(ordered) expose the same theta64, emptiness and entry set; the model's entry
order is ascending (what the ordered form promises). -/
theorem C01_compact_same (c : Cfg) (ops : List (Op σ)) (ordered : Bool) (sh : Nat) :
    let s := run c ops
    (compact s ordered sh).theta = theta64 s ∧ (compact s ordered sh).isEmpty = s.isEmpty ∧
    (s.isEmpty = false → (compact s ordered sh).ents = s.ents) ∧
    (keys (compact s ordered sh).ents).Pairwise (· < ·) := by
  have h := inv_run (σ := σ) c ops
  refine ⟨rfl, rfl, ?_, ?_⟩
  · intro he; simp [compact, he]
  · simp only [compact]; split
    · simp
    · exact h.sorted

/-- an update sketch is empty exactly while nothing was offered since the last reset (a screened-out
hash still makes it non-empty, as in the code). -/
theorem C01_empty_iff (c : Cfg) (ops : List (Op σ)) :
    (run c ops).isEmpty = true → seenOf ops = [] :=
  (inv_run c ops).empty_nil

/-! Non-vacuity: a concrete history with duplicates, a zero hash, a rebuild and a trim. -/
def exCfg : Cfg := { lgNom := 1, lgRf := 0, theta0 := 100, lgStart := 2 }
def exOps : List (Op Unit) :=
  [.upd 50 (fun _ => ()), .upd 20 (fun _ => ()), .upd 50 (fun _ => ()), .upd 0 (fun _ => ()),
   .upd 70 (fun _ => ()), .upd 10 (fun _ => ()), .upd 60 (fun _ => ()), .trim]
example : (run exCfg exOps).theta = 50 ∧ keys (run exCfg exOps).ents = [10, 20] := by decide
example : (run exCfg (exOps.take 3)).theta = exCfg.theta0 ∧ keys (run exCfg (exOps.take 3)).ents = [20, 50] := by decide

end DS.Theta

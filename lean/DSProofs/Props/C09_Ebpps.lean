/-
C09 (EBPPS part) — the serialized image round-trips.

ONLY property theorems + non-vacuity examples (helper lemmas: Lemmas/WireCount.lean).  Model: DSModel/Wire/Ebpps.lean.
Statements are for EVERY constant set with the decidable side condition `c.ok` (`generated_ok`), EVERY lawful item serde,
every well-formed image state (with and without partial item) and every tail.  Well-formedness contains the one
non-obvious coupling of this format: the item count is not stored, it is ⌊c⌋, and the partial item is present exactly
when c has a fractional part (`f64FloorFrac c = (items.length, partialItem.isSome)`).
-/
import DSProofs.Lemmas.WireCount
import DSModel.Wire.EbppsGen
namespace DS.Wire.Ebpps
open DS.Wire

variable {ι : Type}

theorem generated_ok : generated.ok := by decide

/-- **round trip**: the documented reader recovers exactly the image state and consumes exactly the image -/
theorem decode_encode (c : EbConsts) (hc : c.ok) (sd : Serde ι) (hsd : sd.Lawful) (s : Image ι) (hs : WF c sd s) (tail : Bytes) :
    decode c sd (encode c sd s ++ tail) = some (s, tail) := by
  obtain ⟨hk, hk1, hkm, hbody⟩ := hs
  obtain ⟨hf, hv, hpe, hpf, f10, f00, f01⟩ := hc
  cases hb : s.body with
  | none =>
    simp only [decode, encode, hb, hasPartial, encodeBody, Option.isNone_none, if_true, List.append_assoc, List.append_nil]
    rw [bind_u8 _ hpe, bind_u8 _ hv, bind_u8 _ hf, bind_u8 _ f10.1, bind_u32 _ hk, f10.2.1, f10.2.2,
      bind_guard _ (by simp [hk1, hkm]), bind_guard _ (by simp), bind_guard _ (by simp)]
    cases s; simp_all [Reader.bind, Reader.pure]
  | some b =>
    rw [hb] at hbody
    obtain ⟨hn, hcw, hwm, hrho, hcc, hlen, hfloor, hits, hpart⟩ := hbody
    have hfl : flagsRT c false b.partialItem.isSome := by cases b.partialItem.isSome <;> assumption
    simp only [decode, encode, hb, hasPartial, encodeBody, Option.isNone_some, Bool.false_eq_true, if_false, List.append_assoc]
    rw [bind_u8 _ hpf, bind_u8 _ hv, bind_u8 _ hf, bind_u8 _ hfl.1, bind_u32 _ hk, hfl.2.1, hfl.2.2,
      bind_guard _ (by simp [hk1, hkm]), bind_guard _ (by simp), bind_guard _ (by simp)]
    simp only [Bool.false_eq_true, if_false, decodeBody]
    rw [bind_assoc, bind_u64 _ hn, bind_assoc, bind_u64 _ hcw, bind_assoc, bind_u64 _ hwm, bind_assoc, bind_u64 _ hrho,
      bind_assoc, bind_u64 _ hcc]
    simp only [hfloor]
    rw [bind_assoc, bind_guard _ (by simp [hlen]), bind_assoc, bind_decItems sd hsd b.items _ rfl hits, bind_assoc]
    cases hp : b.partialItem with
    | none =>
      simp only [decPartial, encPartial, Option.isSome_none, Bool.false_eq_true, if_false, List.nil_append]
      rw [bind_pure, bind_assoc, bind_guard _ (by simp [f00.2.2])]
      cases s; cases b; simp_all [Reader.bind, Reader.pure]
    | some x =>
      simp only [decPartial, encPartial, Option.isSome_some, if_true]
      rw [bind_assoc, bind_ok _ _ _ _ _ (hsd.rt x tail (hpart x hp)), bind_pure, bind_assoc, bind_guard _ (by simp [f01.2.2])]
      cases s; cases b; simp_all [Reader.bind, Reader.pure]

/-- the image has exactly the advertised size (`get_serialized_size_bytes`: 8, or 40 + 8 + Σ size_of_item) -/
theorem size_eq (c : EbConsts) (h1 : c.preEmpty = 1) (h5 : c.preFull = 5) (sd : Serde ι) (s : Image ι) :
    (encode c sd s).length = serializedSize c sd s := by
  simp only [encode, serializedSize, List.length_append, length_w8, length_w32, h1, h5]
  cases hb : s.body with
  | none => simp [encodeBody]
  | some b =>
    simp only [encodeBody, List.length_append, length_w64, length_encItems]
    cases b.partialItem <;> simp [encPartial] <;> omega

/-! ### non-vacuity -/

/-- c = 2.666… (0x4005555555555555): two full items and a partial item (string items "ad", "ae", "ac") -/
def exPartial : Image Bytes :=
  { k := 3,
    body := some
      { n := 4, cumWt := 0x4020000000000000, wtMax := 0x4008000000000000, rho := 0x3fd5555555555555,
        c := 0x4005555555555555, items := [[0x61, 0x64], [0x61, 0x65]], partialItem := some [0x61, 0x63] } }
/-- c = 2.0: two full items, no partial item -/
def exWhole : Image Nat :=
  { k := 5,
    body := some
      { n := 2, cumWt := 0x4000000000000000, wtMax := 0x3ff0000000000000, rho := 0x3ff0000000000000,
        c := 0x4000000000000000, items := [7, 9], partialItem := none } }

example : WF generated serdeStr exPartial := by
  refine ⟨by decide, by decide, by decide, by decide, by decide, by decide, by decide, by decide, by decide, by decide, ?_, ?_⟩
  · simp [exPartial, serdeStr]
  · simp [exPartial, serdeStr]
example : WF generated serdeU64 exWhole := by
  refine ⟨by decide, by decide, by decide, by decide, by decide, by decide, by decide, by decide, by decide, by decide, ?_, ?_⟩
  · simp [exWhole, serdeU64]
  · simp [exWhole]
example : generated.preEmpty = 1 ∧ generated.preFull = 5 := by decide

end DS.Wire.Ebpps

/-
C11 (HLL group) — truncated images are rejected by the specification reader; no count field makes it allocate beyond
the input length.  `decode` is the strict reader (consumes exactly the image), `decodeCore` the reader that does not
insist on the reserved, information-free tail being present (what `deserialize(bytes, n)` implements for the unused
aux area of an updatable HLL_4 image and `deserialize(istream)` for an empty updatable list image).
`isPadding c s n` ⇔ `coreSize c s ≤ n < serializedSize c s`: only zero bytes of reserved area are missing.
The tie to the C++ readers (every prefix length of every generated image, both paths, under ASan/UBSan with an
allocation cap and allocation balance) is in vlib/props/c11_hll.py.
-/
import DSProofs.Lemmas.WireHllPad
import DSModel.Wire.HllGen
import DSProofs.Props.C09_Hll

namespace DS.Wire.Hll
open DS.Wire

/-- Both readers are built from prefix-safe combinators only: a successful read consumed exactly k bytes, every
shorter prefix is rejected, every longer prefix gives the same value. -/
theorem decode_PS (c : Consts) : PS (decode c) := PS_decodeG c false
theorem decodeCore_PS (c : Consts) : PS (decodeCore c) := PS_decodeG c true

/-- Every strict prefix of a well-formed image is rejected by the strict reader. -/
theorem prefix_rejected (c : Consts) (hc : c.ok = true) (s : Img) (hw : s.WF c) (n : Nat) (hn : n < (encode c s).length) :
    decode c ((encode c s).take n) = none :=
  DS.Wire.prefix_rejected (decode c) (decode_PS c) (encode c s) s
    (by simpa using decode_encode c hc s hw []) n hn

/-- The lenient reader rejects every strict prefix too — except where only reserved zero padding is missing, and
there it yields the very same image state (with only zero bytes left over). -/
theorem prefix_rejected_or_padding (c : Consts) (hc : c.ok = true) (s : Img) (hw : s.WF c) (n : Nat)
    (hn : n < (encode c s).length) :
    (n < coreSize c s ∧ decodeCore c ((encode c s).take n) = none) ∨
    (isPadding c s n = true ∧ ∃ r, decodeCore c ((encode c s).take n) = some (s, r) ∧ ∀ x ∈ r, x = 0) :=
  core_prefix_of_WF c hc s hw n hn

/-- Whatever the strict reader accepts (well-formed or not, e.g. a corrupted image): the tables and registers it
returns are no larger than the input — header bytes plus 4 bytes per table entry plus one byte per register byte
were actually present. -/
theorem decode_bounded (c : Consts) (b : Bytes) (s : Img) (r : Bytes) (hd : decode c b = some (s, r)) :
    dataStart s + footprint s + r.length = b.length := by
  have h := decode_inv c b s r hd
  rw [h, List.length_append, length_encode]

/-! ### non-vacuity -/

example : (encode genConsts exHll4Upd).length = 64 ∧ coreSize genConsts exHll4Upd = 48 ∧
    isPadding genConsts exHll4Upd 50 = true ∧ isPadding genConsts exHll4Upd 47 = false := by
  refine ⟨?_, by decide, by decide, by decide⟩
  rw [size_eq _ _ (by decide)]; decide
example : decode genConsts ((encode genConsts exHll4).take 55) = none :=
  prefix_rejected genConsts (by decide) exHll4 (by decide) 55 (by rw [size_eq _ _ (by decide)]; decide)
example : coreSize genConsts exListEmptyUpd = 8 ∧ serializedSize genConsts exListEmptyUpd = 40 := by decide

end DS.Wire.Hll

/-
C10 (count-min part) — the constants that define the wire contract, as extracted from the CURRENT headers by the
translator (tools/trules/wire_count.py → DSGen/WireCount.lean), equal the documented values.

The documented contract (count_min.hpp "The serialized sketch binary form ...", DataSketches family table):
family id 18, serial version 1, two preamble longs (empty and non-empty), flag bit 0 = empty; a sketch needs at
least 3 buckets and fewer than 2^30 cells.  A consistent change of writer AND reader (every round trip still
passes) is caught here, and by the committed baseline corpus (corpus/baseline/countmin).
`encode`/`decode` of DSModel/Wire/CountMin.lean are the documented layout itself (C09 proves they are mutually
inverse); the two-phase check ties them to the code: the documented reader recovers the API content from the
code's bytes and re-encodes them to the same bytes.
-/
import DSModel.Wire.CountMinGen
namespace DS.Wire.CountMin

/-- every wire constant of the current headers has its documented value -/
theorem wire_consts_documented : generated = documented := by decide

/-- the documented image of the empty 1×3 sketch with the default seed (seed hash 0x93cc), byte for byte -/
example : encode documented { numBuckets := 3, numHashes := 1, seedHash := 0x93cc, body := none }
    = [2, 1, 18, 1, 0, 0, 0, 0, 3, 0, 0, 0, 1, 0xcc, 0x93, 0] := by decide

end DS.Wire.CountMin

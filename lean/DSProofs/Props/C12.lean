/-
C12 — Frequent-items bounds always bracket the true frequency.

ONLY property theorems and their non-vacuity examples live here (helper lemmas: Lemmas/Fi*.lean).
Model: DSModel/Fi/Abstract.lean (L1; tied to frequent_items_sketch_impl.hpp / reverse_purge_hash_map_impl.hpp by the
correspondence check `./check C12`, with the L2 table model DSModel/Fi/Table.lean resolving the free choices).

Quantifiers.  `Reach T strict s f N` (Lemmas/FiReach.lean) ranges over EVERY history: any constructor arguments
(lg_start ≤ lg_max, both raised to LG_MIN_MAP_SIZE), any weighted update stream (zero weights included), any merge tree
(every replay order of the operand's counters), any serialisation round trips, and EVERY choice of the purge amount at
every purge (the code's choice, the median of a sample, is one of them).  `f x` is the true total weight of item `x`
in that history and `N` the sum of all update weights.  `T` are the tunables read from the headers (LOAD_FACTOR,
MAX_SAMPLE_SIZE, EPSILON_FACTOR, LG_MIN_MAP_SIZE): every theorem holds for all of them, `fi_epsilon` under a decidable
side condition that is discharged on the generated values (`fi_epsilon_gen`, Props/C12Gen.lean).  Weights are natural numbers (the double
instantiation is modelled with exact dyadic arithmetic; floating-point rounding and uint64 overflow are not modelled).

`strict = true` excludes two operations that the CURRENT code gets wrong: merging an operand, or round-tripping a
sketch, that has no active item but a non-zero total weight / maximum error (every counter was purged; `is_empty()`
is then true).  The full statements are kept as `…_full` and refuted by concrete witnesses (`…_full_false`), which are
replayed on the real code by the check (corpus/regress/C12, open entries of known_findings.json).
-/
import DSProofs.Lemmas.FiCap
import DSProofs.Lemmas.FiTable
namespace DS.Fi

variable {ι : Type} [DecidableEq ι]

/-- tunables of the non-vacuity examples and witnesses: LOAD_FACTOR 3/4, EPSILON_FACTOR 7/2, LG_MIN_MAP_SIZE 3 (fixed
here so that a harmless retuning of the headers does not touch them; the theorems are for every `T`, and the instance
for the constants generated from the CURRENT headers is `fi_epsilon_gen` in Props/C12Gen.lean) -/
def exTun : Tun := {}

/-- a stream of 7 items into a map of 8 slots (capacity 6): the 7th insertion purges with the median 3 -/
def exStream : List (Ent Nat) := [(1, 5, 0), (2, 3, 0), (3, 1, 0), (4, 9, 0), (5, 2, 0), (6, 2, 0), (7, 4, 3)]
/-- seven distinct items of weight 1: the purge (median 1) deletes every counter -/
def onesStream : List (Ent Nat) := [(1, 1, 1), (2, 1, 1), (3, 1, 1), (4, 1, 1), (5, 1, 1), (6, 1, 1), (7, 1, 1)]

/-! ## bracketing -/

/-- For EVERY item `x` (tracked or not): lower bound ≤ true weight ≤ upper bound, the estimate lies between the bounds,
upper minus lower bound is the reported maximum error, and an untracked item has estimate 0. -/
theorem fi_bracket (T : Tun) {s : St ι} {f : ι → Nat} {N : Nat} (h : Reach T true s f N) (x : ι) :
    lowerBound s x ≤ f x ∧ f x ≤ upperBound s x ∧
    lowerBound s x ≤ estimate s x ∧ estimate s x ≤ upperBound s x ∧
    upperBound s x - lowerBound s x = maximumError s ∧
    (lowerBound s x = 0 → estimate s x = 0) := by
  have hb := ((reach_inv T h).1.2 x)
  unfold lowerBound upperBound estimate maximumError
  refine ⟨hb.1, hb.2, ?_, ?_, by omega, ?_⟩
  · split <;> omega
  · split <;> omega
  · intro h0; simp [h0]

example : ∃ (s : St Nat) (f : Nat → Nat) (N : Nat), Reach exTun true s f N ∧ s.offset = 3 ∧ s.map.length = 3 ∧ f 3 = 1 ∧
    lowerBound s 3 = 0 ∧ upperBound s 3 = 3 :=
  ⟨_, _, _, reach_replay exTun true exStream (Reach.new 3 3 (by decide)), by decide, by decide, by decide, by decide, by decide⟩

/-- The total weight is the exact sum of all update weights (through merges and round trips). -/
theorem fi_total_exact (T : Tun) {s : St ι} {f : ι → Nat} {N : Nat} (h : Reach T true s f N) : s.total = N :=
  (reach_inv T h).2

example : ∃ (s : St Nat) (f : Nat → Nat), Reach exTun true s f 26 ∧ s.offset = 3 :=
  ⟨_, _, reach_replay exTun true exStream (Reach.new 3 3 (by decide)), by decide⟩

/-- Merge: the merged sketch brackets the true weights of the concatenated streams, for every replay order of the
operand's counters and every purge amount used during the replay – provided the operand is not fully purged. -/
theorem fi_merge_bracket (T : Tun) {s o : St ι} {f g : ι → Nat} {N M : Nat}
    (hs : Reach T true s f N) (ho : Reach T true o g M) (ents : List (Ent ι))
    (hp : (entPairs ents).Perm o.map) (hnd : ¬ FullyPurged o) (x : ι) :
    lowerBound (merge T s o ents) x ≤ f x + g x ∧ f x + g x ≤ upperBound (merge T s o ents) x ∧
    (merge T s o ents).total = N + M := by
  have hr : Reach T true (merge T s o ents) (fun y => f y + g y) (N + M) := Reach.merge ents hs ho hp (fun _ => hnd)
  have hb := fi_bracket T hr x
  exact ⟨hb.1, hb.2.1, fi_total_exact T hr⟩

example : ∃ (s o : St Nat) (ents : List (Ent Nat)), (entPairs ents).Perm o.map ∧ ¬ FullyPurged o ∧
    (merge exTun s o ents).offset = 6 ∧ (merge exTun s o ents).map.length = 3 :=
  ⟨replay exTun (init exTun 3 3) exStream, replay exTun (init exTun 3 3) exStream,
   [(7, 1, 0), (1, 2, 0), (4, 6, 0)], by decide, by intro h; exact absurd h.1 (by decide), by decide, by decide⟩

/-- The property's statement for merge without the carve-out. -/
def fi_merge_bracket_full : Prop :=
  ∀ (T : Tun) (s o : St Nat) (f g : Nat → Nat) (N M : Nat) (ents : List (Ent Nat)),
    Reach T true s f N → Reach T true o g M → (entPairs ents).Perm o.map →
    ∀ x, f x + g x ≤ upperBound (merge T s o ents) x ∧ (merge T s o ents).total = N + M

/-- FALSE of the current code: `merge` returns early when `other.is_empty()`, i.e. when the operand has no active item –
also when its total weight and maximum error are not zero. Witness: seven distinct items of weight 1 into lg_max = 3
(all purged: total 7, max error 1) merged into a sketch that saw item 100 with weight 5: the result reports
total weight 5 (true 12) and upper bound 0 for item 1 (true weight 1).
Known finding `merge-ignores-fully-purged-operand`. -/
theorem fi_merge_bracket_full_false : ¬ fi_merge_bracket_full := by
  intro h
  have hs := reach_replay exTun true [((100 : Nat), 5, 0)] (Reach.new 3 3 (by decide))
  have ho := reach_replay exTun true onesStream (Reach.new 3 3 (by decide))
  have := (h _ _ _ _ _ _ _ [] hs ho (by decide) 1).2
  revert this
  decide

/-- Round trip of a sketch that is not fully purged: nothing observable changes. -/
theorem fi_roundtrip_bracket (T : Tun) {s : St ι} {f : ι → Nat} {N : Nat} (h : Reach T true s f N)
    (hnd : ¬ FullyPurged s) (x : ι) :
    lowerBound (roundtrip T s) x ≤ f x ∧ f x ≤ upperBound (roundtrip T s) x ∧ (roundtrip T s).total = N ∧
    (roundtrip T s).offset = s.offset ∧ lowerBound (roundtrip T s) x = lowerBound s x := by
  have hr : Reach T true (roundtrip T s) f N := Reach.roundtrip h (fun _ => hnd)
  have hb := fi_bracket T hr x
  obtain ⟨hm, ho, _⟩ := roundtrip_eq T s hnd
  exact ⟨hb.1, hb.2.1, fi_total_exact T hr, ho, by unfold lowerBound; rw [hm]⟩

example : ¬ FullyPurged (replay exTun (init exTun 3 3) exStream) := by
  intro h; exact absurd h.1 (by decide)

def fi_roundtrip_bracket_full : Prop :=
  ∀ (T : Tun) (s : St Nat) (f : Nat → Nat) (N : Nat), Reach T true s f N →
    ∀ x, f x ≤ upperBound (roundtrip T s) x ∧ (roundtrip T s).total = N

/-- FALSE of the current code: a sketch without active items is serialised as the 8-byte EMPTY image, which has no
total weight and no offset field. Witness: the fully purged sketch above deserialises with total weight 0 and upper
bound 0 for item 1 (true weight 1). Known finding `roundtrip-drops-fully-purged-sketch`. -/
theorem fi_roundtrip_bracket_full_false : ¬ fi_roundtrip_bracket_full := by
  intro h
  have ho := reach_replay exTun true onesStream (Reach.new 3 3 (by decide))
  have := (h _ _ _ _ ho 1).1
  revert this
  decide

/-! ## frequent items -/

/-- `get_frequent_items` returns exactly the selected counters (`ub > threshold` resp. `lb > threshold`), each row
carrying the values the getters report for its item; only tracked items are returned. -/
theorem fi_frequent_rows (T : Tun) {s : St ι} {f : ι → Nat} {N : Nat} (h : Reach T true s f N)
    (et : ErrType) (thr : Nat) (r : Row ι) (hr : r ∈ frequentItems s et thr) :
    r.lb = lowerBound s r.item ∧ r.ub = upperBound s r.item ∧ r.est = estimate s r.item ∧ 0 < r.lb ∧
    (match et with | .noFalseNegatives => thr < r.ub | .noFalsePositives => thr < r.lb) := by
  obtain ⟨p, hp, hsel, rfl⟩ := (mem_frequentItems s et thr r).mp hr
  obtain ⟨k, v⟩ := p
  have hc := cnt_of_mem s.map (reach_inv T h).1.1 k v hp
  have hpos : 0 < v := reach_pos T h (k, v) hp
  unfold lowerBound upperBound estimate rowOf
  simp only [hc]
  refine ⟨trivial, trivial, by rw [if_pos hpos], hpos, ?_⟩
  cases et <;> simpa [selects] using hsel

example : (frequentItems (replay exTun (init exTun 3 3) exStream) .noFalseNegatives 3).map (·.item) = [4, 1, 7] := by decide

/-- NO_FALSE_POSITIVES returns only items whose true weight exceeds the threshold – for ALL thresholds. -/
theorem fi_no_false_pos (T : Tun) {s : St ι} {f : ι → Nat} {N : Nat} (h : Reach T true s f N)
    (thr : Nat) (r : Row ι) (hr : r ∈ frequentItems s .noFalsePositives thr) : thr < f r.item := by
  have h1 := fi_frequent_rows T h .noFalsePositives thr r hr
  have h2 := (fi_bracket T h r.item).1
  have h3 : thr < r.lb := h1.2.2.2.2
  rw [h1.1] at h3
  omega

example : (frequentItems (replay exTun (init exTun 3 3) exStream) .noFalsePositives 1).map (·.item) = [4, 1] := by decide

/-- NO_FALSE_NEGATIVES returns every item whose true weight exceeds the threshold, provided the threshold is at least
the maximum error (`get_frequent_items(err_type)` uses exactly the maximum error). -/
theorem fi_no_false_neg (T : Tun) {s : St ι} {f : ι → Nat} {N : Nat} (h : Reach T true s f N)
    (thr : Nat) (hthr : s.offset ≤ thr) (x : ι) (hx : thr < f x) :
    ∃ r ∈ frequentItems s .noFalseNegatives thr, r.item = x := by
  have hb := (reach_inv T h).1
  have h2 := hb.2 x
  have hpos : 0 < cnt s.map x := by omega
  have hmem : (x, cnt s.map x) ∈ s.map := by
    rcases mem_of_cnt_pos s.map x hpos with h3 | h3
    · exact h3
    · exact absurd hb.1 h3
  refine ⟨rowOf s (x, cnt s.map x), (mem_frequentItems s _ thr _).mpr ⟨_, hmem, ?_, rfl⟩, rfl⟩
  simp only [selects, decide_eq_true_eq]
  omega

example : ∃ (s : St Nat) (f : Nat → Nat) (N : Nat), Reach exTun true s f N ∧ s.offset ≤ 3 ∧ 3 < f 7 ∧ lowerBound s 7 = 1 :=
  ⟨_, _, _, reach_replay exTun true exStream (Reach.new 3 3 (by decide)), by decide, by decide, by decide⟩

/-- The property's statement: NO_FALSE_NEGATIVES for ALL thresholds. -/
def fi_no_false_neg_full : Prop :=
  ∀ (T : Tun) (s : St Nat) (f : Nat → Nat) (N : Nat), Reach T true s f N →
    ∀ thr x, thr < f x → ∃ r ∈ frequentItems s .noFalseNegatives thr, r.item = x

/-- FALSE of the current code (and of any summary of this kind): with a threshold below the maximum error an item
that was purged is not in the table any more, although its true weight can be as large as the maximum error.
Witness: seven distinct items of weight 1 into lg_max = 3; all are purged (maximum error 1) and
`get_frequent_items(NO_FALSE_NEGATIVES, 0)` is empty although item 1 has true weight 1 > 0.
Known finding `nfn-threshold-below-max-error` (DESIGN.md §4 D10). -/
theorem fi_no_false_neg_full_false : ¬ fi_no_false_neg_full := by
  intro h
  have ho := reach_replay exTun true onesStream (Reach.new 3 3 (by decide))
  obtain ⟨r, hr, _⟩ := h _ _ _ _ ho 0 1 (by decide)
  have he : frequentItems (replay exTun (init exTun 3 3) onesStream) .noFalseNegatives 0 = [] := by decide
  rw [he] at hr
  exact absurd hr (by simp)

/-- Rows come in descending estimate order. -/
theorem fi_frequent_sorted (s : St ι) (et : ErrType) (thr : Nat) :
    (frequentItems s et thr).Pairwise (fun a b => b.est ≤ a.est) :=
  sorted_sortRows _

example : (frequentItems (replay exTun (init exTun 3 3) exStream) .noFalseNegatives 0).map (·.est) = [9, 5, 4] := by decide

/-! ## epsilon -/

/-- If every purge amount is at most the median of the counters present at that purge (`AmtOK`; the code's amount IS
the median whenever the whole table fits the purge sample, `fi_median_ok`) and merged operands have at least the
target's `lg_max`, then  maximum error ≤ EPSILON_FACTOR / 2^lg_max · total weight
(written without division: `offset · (epsDen · 2^lgMax) ≤ epsNum · total`), provided
`EPSILON_FACTOR · LOAD_FACTOR ≥ 2` (each such purge takes the amount off at least ⌈(capacity+1)/2⌉ counters). -/
theorem fi_epsilon (T : Tun) {s : St ι} (h : ReachMed T s) (hden : 0 < T.lfDen)
    (hside : 2 * T.lfDen * T.epsDen ≤ T.epsNum * T.lfNum) :
    s.offset * (T.epsDen * 2 ^ s.lgMax) ≤ T.epsNum * s.total :=
  eps_bound T s (reachMed_inv T h) hden hside

/-- the code's purge amount – the element of rank n/2 of ALL counters – and every smaller amount is acceptable -/
theorem fi_median_ok (T : Tun) (s : St ι) (x : ι) (w a : Nat) (h : a ≤ purgeAmountAll (adjust s.map x w)) :
    AmtOK T s x w a :=
  amtOK_of_le_median T s x w a h

example : ∃ s : St Nat, ReachMed exTun s ∧ s.offset = 3 ∧ s.total = 26 ∧ s.lgMax = 3 := by
  refine ⟨updateMed exTun (replay exTun (init exTun 3 3) (exStream.take 6)) 7 4, ?_, by decide, by decide, by decide⟩
  refine ReachP.upd 7 4 _ ?_ (fi_median_ok _ _ _ _ _ (Nat.le_refl _))
  have hnew : ReachMed exTun (init exTun 3 3 : St Nat) := ReachP.new 3 3 (by decide)
  exact ReachP.upd 6 2 0 (ReachP.upd 5 2 0 (ReachP.upd 4 9 0 (ReachP.upd 3 1 0 (ReachP.upd 2 3 0
    (ReachP.upd 1 5 0 hnew (by intro h; exact absurd h (by decide))) (by intro h; exact absurd h (by decide)))
    (by intro h; exact absurd h (by decide))) (by intro h; exact absurd h (by decide)))
    (by intro h; exact absurd h (by decide))) (by intro h; exact absurd h (by decide))

/-! ## load invariant -/

/-- If every purge deletes at least one counter (`AmtDel`; true of the code's median and of every other order statistic
of the counters, `fi_median_deletes`) the number of active items never exceeds `get_capacity()` of the current table
size, for every stream, merge tree and round trip. Hence `purge did not reduce number of active items` and
`num_active > capacity` are unreachable, and re-inserting a serialised sketch's items into a table of the same lgCur
neither grows nor purges (which is why `roundtrip` is the identity on non-empty sketches).
Side condition: the smallest table has capacity ≥ 1 (`⌊2^LG_MIN_MAP_SIZE · LOAD_FACTOR⌋ ≥ 1`). -/
theorem fi_capacity (T : Tun) (hmin : 1 ≤ capacity T T.lgMin) {b : Bool} {s : St ι} (h : ReachP T b (AmtDel T) s) :
    numActive s ≤ capacity T s.lgCur ∧ s.lgCur ≤ s.lgMax ∧ T.lgMin ≤ s.lgCur := by
  have := reachP_cap T hmin h
  exact this

theorem fi_median_deletes (T : Tun) (s : St ι) (x : ι) (w : Nat) :
    AmtDel T s x w (purgeAmountAll (adjust s.map x w)) :=
  amtDel_median T s x w

example : ∃ s : St Nat, ReachP exTun false (AmtDel exTun) s ∧ numActive s = 3 ∧ capacity exTun s.lgCur = 6 := by
  refine ⟨updateMed exTun (replay exTun (init exTun 3 3) (exStream.take 6)) 7 4, ?_, by decide, by decide⟩
  refine ReachP.upd 7 4 _ ?_ (fi_median_deletes _ _ _ _)
  have hnew : ReachP exTun false (AmtDel exTun) (init exTun 3 3 : St Nat) := ReachP.new 3 3 (by decide)
  exact ReachP.upd 6 2 0 (ReachP.upd 5 2 0 (ReachP.upd 4 9 0 (ReachP.upd 3 1 0 (ReachP.upd 2 3 0
    (ReachP.upd 1 5 0 hnew (by intro h; exact absurd h (by decide))) (by intro h; exact absurd h (by decide)))
    (by intro h; exact absurd h (by decide))) (by intro h; exact absurd h (by decide)))
    (by intro h; exact absurd h (by decide))) (by intro h; exact absurd h (by decide))

/-! ## L2 (reverse-purge table model) – partial

The full refinement `abs2 (update2 …) = update (abs2 …) …` of DSModel/Fi/Table.lean (probe chains, `hash_delete`
back-shift, scan order) is NOT proved; the table model is tied to the code by the correspondence check only and serves
to resolve L1's free choices.  What is proved: the choice it makes for the purge amount is the one `fi_epsilon` and
`fi_capacity` accept whenever the table fits the purge sample. -/

/-- If all active slots are counted (`activeIdx.length = numActive`) and `numActive ≤ MAX_SAMPLE_SIZE`, the amount computed
by the table model's `purge()` (rank n/2 of the first n active values in index order) is the median of ALL counters of
any abstract map listing the same entries – i.e. `purgeAmountAll`, which satisfies `AmtOK` and `AmtDel`. -/
theorem fi_l2_purge_amount (T : Tun) (t : Tab) (h1 : t.activeIdx.length = t.numActive)
    (h2 : t.numActive ≤ T.maxSample) (m : Map Nat) (hp : m.Perm t.entries) :
    t.sampleMedian T = purgeAmountAll m :=
  Tab.sampleMedian_eq_all T t h1 h2 m hp

example : let t := (replay2 exTun id medianOf (init2 exTun 3 3) [(1, 5), (2, 3), (3, 1), (12, 9), (5, 2), (6, 2), (20, 4)] []).1.tab
    t.activeIdx.length = t.numActive ∧ t.numActive ≤ exTun.maxSample ∧ t.numActive = 3 ∧ t.sampleMedian exTun = 2 := by
  decide

end DS.Fi

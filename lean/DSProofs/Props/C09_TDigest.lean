/-
C09 (t-digest part) — serialization round trip of the t-digest image: empty, single value, general
(with and without buffered values), for double (`tsz` = `wsz` = 8) and float (4, 4) — the theorems hold
for every value/weight width.

ONLY property theorems and non-vacuity examples (helper lemmas: Lemmas/WireMisc*.lean).
Model: DSModel/Wire/TDigest.lean.  `c : Consts` are the wire constants; statements hold for every `c`
with the decidable side conditions `c.Valid`, in particular for the values generated from the current
headers (`genConsts_valid`).
-/
import DSProofs.Lemmas.WireMiscTDigest
import DSModel.Wire.TDigestGen
namespace DS.Wire.TDigest
open DS.Wire

/-- the constants extracted from the current headers satisfy the side conditions of the theorems below -/
theorem genConsts_valid : genConsts.Valid := by decide

/-- decoding an encoded well-formed image gives back the image (k, reverse-merge flag, empty / single
value / min, max, centroids, buffer) and leaves exactly the bytes that followed it -/
theorem decode_encode (c : Consts) (hc : c.Valid) (tsz wsz : Nat) (s : Img) (hs : WF tsz wsz s) (tail : Bytes) :
    decode c tsz wsz (encode c tsz wsz s ++ tail) = some (s, tail) := decode_encode_lem c hc tsz wsz s hs tail

/-- the image has exactly the advertised size (`get_serialized_size_bytes(with_buffer)`): 8 (empty),
8 + sizeof(T) (single value), else 16 + 2·sizeof(T) + n_centroids·sizeof(centroid) + n_buffered·sizeof(T) -/
theorem size_eq (c : Consts) (tsz wsz : Nat) (s : Img) :
    (encode c tsz wsz s).length = serializedSize tsz wsz s := size_eq_lem c tsz wsz s

/-- re-serialisation of a restored image is byte-identical -/
theorem encode_decode_encode (c : Consts) (hc : c.Valid) (tsz wsz : Nat) (s : Img) (hs : WF tsz wsz s) :
    (decode c tsz wsz (encode c tsz wsz s)).map (fun p => encode c tsz wsz p.1) = some (encode c tsz wsz s) := by
  have := decode_encode c hc tsz wsz s hs []
  simp only [List.append_nil] at this
  simp [this]

/-- double image: k = 100, reverse-merge set, 2 centroids (1.0, w 1) (2.0, w 3) and one buffered value 0.5 -/
def exMulti : Img :=
  { k := 100, reverse := true,
    body := .multi 0x3fe0000000000000 0x4000000000000000 [(0x3ff0000000000000, 1), (0x4000000000000000, 3)] [0x3fe0000000000000] }
def exSingleF : Img := { k := 10, reverse := false, body := .single 0x3f800000 }
def exEmpty : Img := { k := 200, reverse := false, body := .empty }

example : WF 8 8 exMulti ∧ WF 4 4 exSingleF ∧ WF 8 8 exEmpty := by decide
example : decode genConsts 8 8 (encode genConsts 8 8 exMulti ++ [1, 2]) = some (exMulti, [1, 2]) := by decide
example : (encode genConsts 8 8 exMulti).length = 72 ∧ (encode genConsts 4 4 exSingleF).length = 12 ∧
          (encode genConsts 8 8 exEmpty).length = 8 := by decide

end DS.Wire.TDigest

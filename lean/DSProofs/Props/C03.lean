/-
C03 — HLL content is the per-slot max of coupons in every mode and register width.

ONLY property theorems and their non-vacuity examples live here (helper lemmas: Lemmas/Hll*.lean).
Model: DSModel/Hll/Sketch.lean (L1; tied to hll/include/* by the correspondence check `./check C03`) and
DSModel/Hll/Array4.lean, Array6.lean (L2 concrete register arrays).  All statements are for every tunable set `p`
(coupon key width, list/set sizes, resize fraction, promotion thresholds — under the decidable side condition
`p.listFitsSet`, discharged below for the constants of the CURRENT headers), every lg_k, every target type, every
numeric instance `ν` (so in particular for the doubles of the code) and every finite stream of coupons
`cs` (any order, any duplicates; coupon 0 = EMPTY is ignored by the code and by the statements).

`IsMaxAt p lgK M slot m`: m is the maximum coupon value among the coupons in `M` falling into `slot`, 0 if none.
Floating-point estimates and bounds (`hll_bounds_order`, C06) are executed and compared, not proved.
-/
import DSProofs.Lemmas.HllConvert
import DSProofs.Lemmas.HllArraysRun
import DSProofs.Lemmas.HllKxq
import DSProofs.Lemmas.HllArray6b
import DSModel.Hll.GenParams
namespace DS.Hll

variable {ν : Type} [HNum ν]

/-- the side condition on the tunables holds for the constants regenerated from the current headers -/
theorem gen_params_ok : hllParams.listFitsSet ∧ hllParams.keyBits = 26 := by decide

/-- semantic obligation on the regenerated `INVERSE_POWERS_OF_2` table (entries 0..63, the ones HLL uses): entry i is the IEEE
double 2^-i exactly (biased exponent 1023 - i, zero mantissa) — so the doubles kxq0 / kxq1 are sums of exact powers of two
(`hll_kxq_exact` is about that sum). -/
theorem gen_invPow2_exact : ∀ i, i < 64 → DSGen.hll_invPow2.getD i 0 = UInt64.ofNat ((1023 - i) * 2^52) := by
  decide +kernel

/-- HLL mode: every register is the maximum value of the coupons offered to its slot (0 if none) —
for every target type and whether or not the sketch was started full-size. -/
theorem hll_regs_max (p : Params) (hp : p.listFitsSet) (lgK : Nat) (tt : TType) (sf : Bool) (cs : List Nat)
    (hm : (run p (newSketch p lgK tt sf : St ν) cs).mode = .hll) :
    (run p (newSketch p lgK tt sf : St ν) cs).regs.size = 2^lgK ∧
      ∀ slot, slot < 2^lgK → IsMaxAt p lgK (fun c => c ∈ cs) slot ((run p (newSketch p lgK tt sf : St ν) cs).regs.getD slot 0) := by
  generalize hs : run p (newSketch p lgK tt sf : St ν) cs = s at hm ⊢
  have key : s.lgK = lgK ∧ HInv p s (fun c => c ∈ [] ++ cs ∧ c ≠ 0) := by
    subst hs
    cases sf with
    | false =>
      have h := RInv.run hp cs (RInv.init (ν := ν) p lgK tt)
      exact ⟨h.lgK_eq, h.hll hm⟩
    | true =>
      have h := run_startFull p cs (s := (newHll lgK tt true : St ν)) (cs := []) rfl
        (by have := HInv.newHll (ν := ν) p lgK tt true
            exact ⟨this.size, fun slot hs => IsMaxAt.congr (by simp) (this.regs slot hs), this.cm_le, this.cnt4, this.cnt68⟩)
      exact ⟨h.2.1, h.2.2.2⟩
  obtain ⟨hk, hH⟩ := key
  refine ⟨by rw [hH.size, hk], fun slot hs => ?_⟩
  have := hH.regs slot (by rw [hk]; exact hs)
  rw [hk] at this
  refine ⟨fun c hc hsl => ?_, ?_⟩
  · by_cases h0 : c = 0
    · subst h0; simp [cValue]
    · exact this.1 c ⟨by simpa using hc, h0⟩ hsl
  · rcases this.2 with h0 | ⟨c, hc, hsl, hv⟩
    · exact Or.inl h0
    · exact Or.inr ⟨c, by simpa using hc.1, hsl, hv⟩

/-- LIST / SET mode: the sketch holds exactly the distinct nonzero coupons offered — none missing, none extra, none twice. -/
theorem hll_coupons_exact (p : Params) (hp : p.listFitsSet) (lgK : Nat) (tt : TType) (cs : List Nat)
    (hm : (run p (newSketch p lgK tt false : St ν) cs).mode ≠ .hll) :
    (run p (newSketch p lgK tt false : St ν) cs).items.Nodup ∧
    ∀ c, c ∈ (run p (newSketch p lgK tt false : St ν) cs).items ↔ (c ∈ cs ∧ c ≠ 0) := by
  have h := RInv.run hp cs (RInv.init (ν := ν) p lgK tt)
  change RInv p lgK (run p (newSketch p lgK tt false) cs) _ at h
  have hperm := h.items_perm hm
  simp only [List.nil_append] at hperm
  exact ⟨hperm.nodup_iff.2 (distinct_nodup cs), fun c => by rw [hperm.mem_iff, mem_distinct]⟩

/-- The logical content is a function of the SET of distinct coupons only: two streams with the same nonzero coupons
(any order, any multiplicities), fed to sketches of possibly different target types, end in the same mode, hold the
same coupon set (same count) while in LIST / SET mode and identical registers once in HLL mode. -/
theorem hll_content_fun_of_set (p : Params) (hp : p.listFitsSet) (lgK : Nat) (tt₁ tt₂ : TType) (cs₁ cs₂ : List Nat)
    (hsame : ∀ c, c ≠ 0 → (c ∈ cs₁ ↔ c ∈ cs₂)) :
    (run p (newSketch p lgK tt₁ false : St ν) cs₁).mode = (run p (newSketch p lgK tt₂ false : St ν) cs₂).mode ∧
    ((run p (newSketch p lgK tt₁ false : St ν) cs₁).mode ≠ .hll →
      (∀ c, c ∈ (run p (newSketch p lgK tt₁ false : St ν) cs₁).items ↔ c ∈ (run p (newSketch p lgK tt₂ false : St ν) cs₂).items) ∧
      (run p (newSketch p lgK tt₁ false : St ν) cs₁).items.length = (run p (newSketch p lgK tt₂ false : St ν) cs₂).items.length) ∧
    ((run p (newSketch p lgK tt₁ false : St ν) cs₁).mode = .hll →
      (run p (newSketch p lgK tt₁ false : St ν) cs₁).regs = (run p (newSketch p lgK tt₂ false : St ν) cs₂).regs) := by
  have h1 := RInv.run hp cs₁ (RInv.init (ν := ν) p lgK tt₁)
  have h2 := RInv.run hp cs₂ (RInv.init (ν := ν) p lgK tt₂)
  simp only [List.nil_append] at h1 h2
  change RInv p lgK (run p (newSketch p lgK tt₁ false) cs₁) cs₁ at h1
  change RInv p lgK (run p (newSketch p lgK tt₂ false) cs₂) cs₂ at h2
  generalize run p (newSketch p lgK tt₁ false : St ν) cs₁ = s₁ at h1 ⊢
  generalize run p (newSketch p lgK tt₂ false : St ν) cs₂ = s₂ at h2 ⊢
  have hd := distinct_perm hsame
  have hph : (s₁.mode, s₁.lgArr) = (s₂.mode, s₂.lgArr) := by rw [h1.ph, h2.ph, hd.length_eq]
  have hmode : s₁.mode = s₂.mode := congrArg Prod.fst hph
  refine ⟨hmode, fun hm => ?_, fun hm => ?_⟩
  · have hm2 : s₂.mode ≠ .hll := hmode ▸ hm
    have pp := ((h1.items_perm hm).trans hd).trans (h2.items_perm hm2).symm
    exact ⟨fun c => pp.mem_iff, pp.length_eq⟩
  · have hm2 : s₂.mode = .hll := hmode ▸ hm
    have H1 := h1.hll hm
    have H2 := h2.hll hm2
    apply Array.ext
    · rw [H1.size, H2.size, h1.lgK_eq, h2.lgK_eq]
    · intro i hi1 hi2
      rw [← getD_eq_getElem (d := 0) hi1, ← getD_eq_getElem (d := 0) hi2]
      have a1 := H1.regs i (by rw [← H1.size]; exact hi1)
      have a2 := H2.regs i (by rw [← H2.size]; exact hi2)
      rw [h1.lgK_eq] at a1
      rw [h2.lgK_eq] at a2
      refine IsMaxAt.unique a1 (IsMaxAt.congr ?_ a2)
      intro c
      constructor
      · rintro ⟨x, y⟩; exact ⟨(hsame c y).2 x, y⟩
      · rintro ⟨x, y⟩; exact ⟨(hsame c y).1 x, y⟩

/-- The 4-, 6- and 8-bit target types agree on one and the same stream (mode, coupons, registers). -/
theorem hll_types_agree (p : Params) (hp : p.listFitsSet) (lgK : Nat) (tt₁ tt₂ : TType) (cs : List Nat) :
    (run p (newSketch p lgK tt₁ false : St ν) cs).mode = (run p (newSketch p lgK tt₂ false : St ν) cs).mode ∧
    ((run p (newSketch p lgK tt₁ false : St ν) cs).mode ≠ .hll →
      ∀ c, c ∈ (run p (newSketch p lgK tt₁ false : St ν) cs).items ↔ c ∈ (run p (newSketch p lgK tt₂ false : St ν) cs).items) ∧
    ((run p (newSketch p lgK tt₁ false : St ν) cs).mode = .hll →
      (run p (newSketch p lgK tt₁ false : St ν) cs).regs = (run p (newSketch p lgK tt₂ false : St ν) cs).regs) := by
  have h := hll_content_fun_of_set (ν := ν) p hp lgK tt₁ tt₂ cs cs (fun _ _ => Iff.rfl)
  exact ⟨h.1, fun hm => (h.2.1 hm).1, h.2.2⟩

/-- A sketch started full-size holds the same registers as a sketch that went through LIST / SET mode, whatever
the two target types and the orders of presentation. -/
theorem hll_start_full_agrees (p : Params) (hp : p.listFitsSet) (lgK : Nat) (tt₁ tt₂ : TType) (cs₁ cs₂ : List Nat)
    (hsame : ∀ c, c ≠ 0 → (c ∈ cs₁ ↔ c ∈ cs₂))
    (hm : (run p (newSketch p lgK tt₂ false : St ν) cs₂).mode = .hll) :
    (run p (newSketch p lgK tt₁ true : St ν) cs₁).mode = .hll ∧
    (run p (newSketch p lgK tt₁ true : St ν) cs₁).regs = (run p (newSketch p lgK tt₂ false : St ν) cs₂).regs := by
  have hfm : (run p (newSketch p lgK tt₁ true : St ν) cs₁).mode = .hll :=
    (run_startFull p cs₁ (s := (newHll lgK tt₁ true : St ν)) (cs := []) rfl
      (by have := HInv.newHll (ν := ν) p lgK tt₁ true
          exact ⟨this.size, fun slot hs => IsMaxAt.congr (by simp) (this.regs slot hs), this.cm_le, this.cnt4, this.cnt68⟩)).1
  have a := hll_regs_max (ν := ν) p hp lgK tt₁ true cs₁ hfm
  have b := hll_regs_max (ν := ν) p hp lgK tt₂ false cs₂ hm
  refine ⟨hfm, ?_⟩
  apply Array.ext
  · rw [a.1, b.1]
  · intro i hi1 hi2
    rw [← getD_eq_getElem (d := 0) hi1, ← getD_eq_getElem (d := 0) hi2]
    have hi : i < 2^lgK := by rw [← a.1]; exact hi1
    refine IsMaxAt.unique (a.2 i hi) ?_
    have b2 := b.2 i hi
    refine ⟨fun c hc hsl => ?_, ?_⟩
    · by_cases h0 : c = 0
      · subst h0; simp [cValue]
      · exact b2.1 c ((hsame c h0).1 hc) hsl
    · rcases b2.2 with h0 | ⟨c, hc, hsl, hv⟩
      · exact Or.inl h0
      · by_cases h0 : c = 0
        · subst h0; left; rw [← hv]; simp [cValue]
        · exact Or.inr ⟨c, (hsame c h0).2 hc, hsl, hv⟩

/-- Converting a copy to another target type (`hll_sketch(const hll_sketch&, target_hll_type)`) keeps mode, lg_k and the
content: the coupon array in LIST / SET mode, every register in HLL mode. -/
theorem hll_convert_preserves (p : Params) (s : St ν) (tt : TType)
    (hsz : s.mode = .hll → s.regs.size = 2^s.lgK) (hk : s.lgK ≤ p.keyBits) :
    (copyAs p s tt).mode = s.mode ∧ (copyAs p s tt).lgK = s.lgK ∧ (copyAs p s tt).tt = tt ∧
    (copyAs p s tt).regs = s.regs ∧ (s.mode ≠ .hll → (copyAs p s tt).items = s.items) :=
  copyAs_preserves p s tt hsz hk

/-- Emptiness is reported exactly: `is_empty()` holds iff no (nonzero) coupon was ever offered. -/
theorem hll_empty_iff (p : Params) (hp : p.listFitsSet) (lgK : Nat) (tt : TType) (sf : Bool) (cs : List Nat)
    (hv : ∀ c ∈ cs, c ≠ 0 → 0 < cValue p c) :
    isEmpty (run p (newSketch p lgK tt sf : St ν) cs) = true ↔ ∀ c ∈ cs, c = 0 :=
  isEmpty_run_iff p hp lgK tt sf cs hv

/-! ## L2: the concrete register arrays refine the per-slot-max abstraction -/

/-- HLL_4 (two nibbles per byte holding `register - curMin`, AUX_TOKEN + aux map for exceptions, `internalHll4Update` with its
four cases, `shiftToBiggerCurMin`): under the representation invariant `Inv4` (established by the constructor, kept by every
update — so none of the code's `throw` branches is reachable) one coupon update is exactly the abstract
`slot := max(slot, value)`, and (curMin, numAtCurMin) move exactly as in the L1 model. -/
theorem hll4_refines (p : Params) (ht : p.auxToken = 15) (lgK : Nat) (hk : 1 ≤ lgK) :
    Inv4 p (H4.new lgK) ∧
    ∀ (h : H4) (c : Nat), Inv4 p h →
      Inv4 p (h.update p c) ∧ (h.update p c).bad = false ∧ (h.update p c).lgK = h.lgK ∧
      (h.update p c).regs p = maxUpdate p h.lgK (h.regs p) c ∧
      ((h.update p c).curMin, (h.update p c).numAtCurMin) =
        (if (h.regs p).getD (cSlot p h.lgK c) 0 < cValue p c then
          bumpPair .h4 ((h.regs p).setIfInBounds (cSlot p h.lgK c) (cValue p c)) h.curMin h.numAtCurMin
            ((h.regs p).getD (cSlot p h.lgK c) 0)
         else (h.curMin, h.numAtCurMin)) :=
  ⟨Inv4.new p lgK hk, fun h c hi =>
    let r := h4_refines ht hi c
    ⟨r.1, r.1.notbad, r.2.1, r.2.2.1, r.2.2.2⟩⟩

/-- On every stream the concrete HLL_4 array and the L1 register model (target type HLL_4, started full-size or not) hold
the same registers, curMin and numAtCurMin — hence, with `hll_regs_max`, the nibbles + aux map encode the per-slot maxima. -/
theorem hll4_stream_agrees (p : Params) (ht : p.auxToken = 15) (lgK : Nat) (hk : 1 ≤ lgK) (sf : Bool) (cs : List Nat) :
    let h := cs.foldl (H4.update p) (H4.new lgK)
    let s : St ν := cs.foldl (hllUpdate p) (newHll lgK .h4 sf)
    h.bad = false ∧ h.regs p = s.regs ∧ h.curMin = s.curMin ∧ h.numAtCurMin = s.numAtCurMin := by
  intro h s
  have r := Sim4.foldl (ν := ν) ht cs (Inv4.new p lgK hk) (HInv.newHll (ν := ν) p lgK .h4 sf) (Sim4.init p lgK sf)
  exact ⟨r.1.notbad, r.2.regs.symm, r.2.curMin.symm, r.2.num.symm⟩

/-- HLL_6 (6-bit fields packed little-endian over byte pairs, `getSlot` / `putSlot` through a 16-bit window): under the
representation invariant `Inv6` (array size, bytes < 256; established by the constructor and kept by every update) one coupon
update is exactly the abstract `slot := max(slot, value)` — writing one 6-bit field changes no other field — and `numAtCurMin`
keeps counting the zero registers. The value must fit in 6 bits, as every coupon value (≤ 63) does. -/
theorem hll6_refines (p : Params) (lgK : Nat) (hk : 2 ≤ lgK) :
    Inv6 (H6.new lgK) ∧
    ∀ (h : H6) (c : Nat), Inv6 h → cValue p c < 64 →
      Inv6 (h.update p c) ∧ (h.update p c).lgK = h.lgK ∧ (h.update p c).regs = maxUpdate p h.lgK h.regs c ∧
      (h.numAtCurMin = h.regs.count 0 → (h.update p c).numAtCurMin = (h.update p c).regs.count 0) :=
  ⟨Inv6.new lgK hk, fun _ c hi hv => h6_refines p hi c hv⟩

/-- HLL_8: the byte array is the register array; an update is the abstract `slot := max(slot, value)` and `numAtCurMin`
keeps counting the zero registers. -/
theorem hll8_refines (p : Params) (h : H8) (c : Nat) (hsz : h.bytes.size = 2^h.lgK) :
    (h.update p c).regs = maxUpdate p h.lgK h.regs c ∧ (h.update p c).lgK = h.lgK ∧
    (h.update p c).bytes.size = 2^h.lgK ∧
    (h.numAtCurMin = h.regs.count 0 → (h.update p c).numAtCurMin = (h.update p c).regs.count 0) :=
  h8_refines p h c hsz

/-! ## Estimator registers in exact arithmetic -/

/-- `hll_kxq_exact`: in exact arithmetic (instance `exactNum`: numbers scaled by 2^63) the incrementally maintained estimator
registers satisfy kxq0 + kxq1 = Σ_slots 2^(-register) after ANY stream of coupons into an HLL array of any target type
(start-full, or the array a LIST/SET promotion replays into) — so the raw HLL estimate, and with (curMin, numAtCurMin)
the composite estimate, is a function of the registers only and therefore agrees across target types and presentation
orders. (The code's doubles realise this sum exactly for values ≤ 63: all summands are powers of two spanning < 53 bits;
that part is executed and compared bit for bit, not proved.) -/
theorem hll_kxq_exact (p : Params) (lgK : Nat) (tt : TType) (sf : Bool) (cs : List Nat) :
    letI := exactNum
    let s : St Int := cs.foldl (hllUpdate p) (newHll lgK tt sf)
    s.kxq0 + s.kxq1 = sumPow s.regs.toList := by
  letI := exactNum
  exact kxq_exact_foldl p cs _ (KxqOk.newHll lgK tt sf) (by simp [newHll])

/-- two HLL arrays with the same registers (whatever the types and the orders of their streams) have the same kxq0 + kxq1 -/
theorem hll_kxq_fun_of_regs (p : Params) (lgK : Nat) (tt₁ tt₂ : TType) (sf₁ sf₂ : Bool) (cs₁ cs₂ : List Nat) :
    letI := exactNum
    let s₁ : St Int := cs₁.foldl (hllUpdate p) (newHll lgK tt₁ sf₁)
    let s₂ : St Int := cs₂.foldl (hllUpdate p) (newHll lgK tt₂ sf₂)
    s₁.regs = s₂.regs → s₁.kxq0 + s₁.kxq1 = s₂.kxq0 + s₂.kxq1 := by
  letI := exactNum
  intro s₁ s₂ h
  have a := hll_kxq_exact p lgK tt₁ sf₁ cs₁
  have b := hll_kxq_exact p lgK tt₂ sf₂ cs₂
  simp only at a b
  rw [a, b, h]

/-! Non-vacuity: concrete streams (tunables of the code: 26-bit keys, LIST of 8, promotion to HLL below lg_k 8). -/
def exP : Params := {}
/-- lg_k = 4: ten distinct coupons (slots 3,3,1,... with values up to 17) plus duplicates and an EMPTY coupon -/
def exStream : List Nat :=
  [cPair exP 3 2, cPair exP 3 5, cPair exP 1 1, 0, cPair exP 3 2, cPair exP 7 17, cPair exP 9 1, cPair exP 10 3,
   cPair exP 11 1, cPair exP 12 2, cPair exP 13 1, cPair exP 14 4, cPair exP 3 5]
example : exP.listFitsSet := by decide
example : (run exP (newSketch exP 4 .h4 false : St Unit) exStream).mode = .hll ∧
    (run exP (newSketch exP 4 .h4 false : St Unit) exStream).regs.getD 3 0 = 5 ∧
    (run exP (newSketch exP 4 .h4 false : St Unit) exStream).regs.getD 7 0 = 17 := by decide +kernel
example : (run exP (newSketch exP 4 .h8 false : St Unit) (exStream.take 5)).mode = .list ∧
    (run exP (newSketch exP 4 .h8 false : St Unit) (exStream.take 5)).items.length = 3 := by decide +kernel
example : (run exP (newSketch exP 9 .h6 false : St Unit) exStream).mode = .set := by decide +kernel
example : isEmpty (run exP (newSketch exP 4 .h4 true : St Unit) [0, 0]) = true ∧
    isEmpty (run exP (newSketch exP 4 .h4 true : St Unit) exStream) = false := by decide +kernel
example : ∀ c ∈ exStream, c ≠ 0 → 0 < cValue exP c := by decide
/-- L2: the stream creates aux exceptions (value 17 at curMin 0) and a curMin shift on the concrete HLL_4 array -/
def exH4 : H4 := ((List.range 16).map (fun i => cPair exP i (1 + i % 3)) ++ [cPair exP 7 17, cPair exP 2 20]).foldl (H4.update exP) (H4.new 4)
example : (letI := exactNum; ((exStream.foldl (hllUpdate exP) (newHll 4 .h6 true : St Int)).kxq0 +
    (exStream.foldl (hllUpdate exP) (newHll 4 .h6 true : St Int)).kxq1)) = 7 * 2^63 + 2^58 + 4 * 2^62 + 2^46 + 2^60 + 2^61 + 2^59 := by
  decide +kernel
/-- L2 HLL_6: fields straddling byte boundaries -/
def exH6 : H6 := [cPair exP 1 63, cPair exP 2 42, cPair exP 3 21, cPair exP 1 7].foldl (H6.update exP) (H6.new 4)
example : get6 exH6.bytes 1 = 63 ∧ get6 exH6.bytes 2 = 42 ∧ get6 exH6.bytes 3 = 21 ∧ get6 exH6.bytes 0 = 0 ∧
    exH6.numAtCurMin = 13 := by decide +kernel
example : exP.auxToken = 15 ∧ exH4.curMin = 1 ∧ exH4.bad = false ∧ exH4.ents.length = 2 ∧ exH4.reg exP 7 = 17 := by decide +kernel

end DS.Hll

import DSModel.Hll.Sketch
namespace DS.Hll
theorem placeholder_c03 : True := trivial
end DS.Hll

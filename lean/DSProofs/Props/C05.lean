/-
C05 — CPC sketch is an exact coupon bit-matrix; union ORs row-folded matrices.

ONLY property theorems and their non-vacuity examples live here (helper lemmas: Lemmas/Cpc*.lean).
Models: DSModel/Cpc/Sketch.lean, Input.lean, Estimator.lean (tied to cpc_sketch_impl.hpp, icon_estimator.hpp,
cpc_confidence.hpp by the correspondence check `./check C05`).  All statements are for every lg_k, every
table contents `T`/`E` (they only drive the floating-point HIP/ICON numbers) and every finite stream.

A coupon is the code `row * 64 + col` (`row_col` in the code).  `rowCol` is the code's
`row_col_from_two_hashes`: row = low lg_k bits of the first MurmurHash3 word, col = min(clz(second word), 63).

Literal-statement carve-outs, stated here:
* for lg_k = 26 the code maps the pair (row 2^26-1, col 63) to row 2^26-2 (it would collide with the hash
  table's empty marker); `rowCol` models this, so "distinct (row, col) pairs" means distinct `rowCol` values;
* `move_window` past offset 56 is an internal `logic_error` in the code; it needs more than 59.375·K distinct
  coupons (coupons in columns 57..63: probability below 2^-57 per update).  The model keeps the window at 56 there;
  `cpc_offset_inv` therefore says `min 56 …`, and `cpc_no_saturation` gives the exact form below that bound.
-/
import DSProofs.Lemmas.CpcCount
import DSProofs.Lemmas.CpcUnionPerm
import DSProofs.Lemmas.CpcLossless
import DSProofs.Lemmas.CpcTablesOK
import DSProofs.Lemmas.CpcImage
import DSModel.Cpc.Wire
import DSModel.Cpc.Input
import DSModel.Cpc.Estimator
namespace DS.Cpc

/-- **Exact coupon matrix, every flavor.**  After any stream of coupons the matrix rebuilt from the
representation (`build_bit_matrix`: window + surprising values, sparse / hybrid / pinned / sliding alike)
has bit (r, c) set iff coupon (r, c) occurred, no bits at positions ≥ 64, `num_coupons` is the number of
distinct coupons, and `validate()` holds. -/
theorem cpc_matrix_exact (T : HipTables) (lgK : Nat) (rcs : List Nat) (h : ∀ rc ∈ rcs, rc < 64 * 2^lgK) :
    let s := run T lgK rcs
    (∀ r c, r < 2^lgK → c < 64 → (((buildBitMatrix s).getD r 0).testBit c = true ↔ r * 64 + c ∈ rcs)) ∧
    (∀ r c, r < 2^lgK → 64 ≤ c → ((buildBitMatrix s).getD r 0).testBit c = false) ∧
    s.numCoupons = (distinct rcs).length ∧
    validate s = true := by
  intro s
  have hi : Inv s rcs := inv_run T lgK rcs h
  have hl : s.lgK = lgK := run_lgK T lgK rcs
  refine ⟨?_, ?_, hi.count, ?_⟩
  · intro r c hr hc
    rw [buildBitMatrix_getD s r (by rw [hl]; exact hr), testBit_rowPattern s hi.rep r c hc]
    exact hi.bits r c (by rw [hl]; exact hr) hc
  · intro r c hr hc
    rw [buildBitMatrix_getD s r (by rw [hl]; exact hr)]
    exact rowPattern_high s hi.rep r c hc
  · have := validate_of_inv s rcs hi (by rw [hl]; exact h)
    simp [validate, this]

/-- `row_col_from_two_hashes` always yields a valid code for lg_k ≤ 26 -/
theorem rowCol_lt (h0 h1 : UInt64) (lgK : Nat) (hk : lgK ≤ 26) : rowCol h0 h1 lgK < 64 * 2^lgK := by
  unfold rowCol
  have hrow : h0.toNat % 2^lgK < 2^lgK := Nat.mod_lt _ (Nat.two_pow_pos lgK)
  have hcol : min (clz64 h1) 63 ≤ 63 := Nat.min_le_right _ _
  have hpow : 2^lgK ≤ 2^26 := Nat.pow_le_pow_right (by decide) hk
  simp only
  split
  · rename_i he
    -- row * 64 + col = 2^32 - 1 forces K = 2^26
    omega
  · omega

/-- **The property at input level**: for any inputs of any of the twelve update types, any seed and any
lg_k ≤ 26, the sketch holds exactly the distinct `rowCol` codes of the MurmurHash3 words of the inputs. -/
theorem cpc_matrix_exact_inputs (T : HipTables) (lgK : Nat) (hk : lgK ≤ 26) (seed : UInt64) (inputs : List Input) :
    let s := runInputs T lgK seed inputs
    let rcs := inputs.filterMap (rowColOfInput lgK seed)
    (∀ r c, r < 2^lgK → c < 64 → (((buildBitMatrix s).getD r 0).testBit c = true ↔ r * 64 + c ∈ rcs)) ∧
    s.numCoupons = (distinct rcs).length ∧ validate s = true := by
  intro s rcs
  have hrun : s = run T lgK rcs := by
    show runInputs T lgK seed inputs = run T lgK (inputs.filterMap (rowColOfInput lgK seed))
    unfold runInputs run
    have : ∀ (l : List Input) (s0 : Sketch), s0.lgK = lgK →
        l.foldl (updateInput T seed) s0 = (l.filterMap (rowColOfInput lgK seed)).foldl (rowColUpdate T) s0 := by
      intro l
      induction l with
      | nil => intro s0 _; rfl
      | cons x t ih =>
        intro s0 hs0
        simp only [List.foldl_cons, List.filterMap_cons]
        unfold updateInput
        rw [hs0]
        cases hx : rowColOfInput lgK seed x with
        | none => simp only; exact ih s0 hs0
        | some rc => simp only [List.foldl_cons]; exact ih _ (by rw [rowColUpdate_lgK]; exact hs0)
    exact this inputs (fresh lgK) rfl
  have hvalid : ∀ rc ∈ rcs, rc < 64 * 2^lgK := by
    intro rc hrc
    obtain ⟨i, _, hi⟩ := List.mem_filterMap.1 hrc
    unfold rowColOfInput at hi
    cases hh : hashInput i seed with
    | none => simp [hh] at hi
    | some p => simp [hh] at hi; rw [← hi]; exact rowCol_lt _ _ _ hk
  have := cpc_matrix_exact T lgK rcs hvalid
  rw [← hrun] at this
  exact ⟨this.1, this.2.2.1, this.2.2.2⟩

/-- **Window / offset invariant**: the sliding window exists iff `32·C ≥ 3·K` (flavor beyond SPARSE), has K
bytes, and its offset is `determine_correct_offset(lg_k, C)` (capped at 56, see the header), so flavor and
offset are functions of `(lg_k, C)` only. -/
theorem cpc_offset_inv (T : HipTables) (lgK : Nat) (rcs : List Nat) (h : ∀ rc ∈ rcs, rc < 64 * 2^lgK) :
    let s := run T lgK rcs
    (s.window ≠ [] ↔ 3 * 2^lgK ≤ 32 * s.numCoupons) ∧
    (s.window ≠ [] → s.window.length = 2^lgK) ∧
    s.offset = min 56 (determineCorrectOffset lgK s.numCoupons) ∧
    s.fic ≤ s.offset := by
  intro s
  have hi : Inv s rcs := inv_run T lgK rcs h
  have hl : s.lgK = lgK := run_lgK T lgK rcs
  have hkpos := Nat.two_pow_pos lgK
  refine ⟨?_, ?_, ?_, hi.ficLe⟩
  · constructor
    · intro hw; have := hi.winC hw; rwa [hl] at this
    · intro hge hw; have := hi.sparseC hw; rw [hl] at this; omega
  · intro hw; have := hi.rep.win_len hw; rwa [hl] at this
  · unfold determineCorrectOffset
    have hoff := hi.rep.offLe
    by_cases hw : s.window = []
    · have h0 := hi.rep.sparse hw
      have hc := hi.sparseC hw
      rw [hl] at hc
      have : 8 * s.numCoupons < 19 * 2^lgK := by omega
      simp [this, h0]
    · have hhi := hi.offHi hw
      have hlo := hi.offLo
      rw [hl] at hhi hlo
      by_cases h1 : 1 ≤ s.offset
      · have hlo' := hlo h1
        have e : (19 + 8 * s.offset) * 2^lgK = 19 * 2^lgK + s.offset * (8 * 2^lgK) := by
          rw [Nat.add_mul, Nat.mul_comm 8 s.offset, Nat.mul_assoc]
        have hnlt : ¬ 8 * s.numCoupons < 19 * 2^lgK := by
          rw [e] at hlo'
          have : 0 < s.offset * (8 * 2^lgK) := Nat.mul_pos h1 (by omega)
          omega
        simp only [hnlt, if_false]
        have hge : s.offset ≤ (8 * s.numCoupons - 19 * 2^lgK) / (8 * 2^lgK) := by
          rw [Nat.le_div_iff_mul_le (by omega)]; rw [e] at hlo'; omega
        rcases hhi with hhi | hhi
        · have e2 : (27 + 8 * s.offset) * 2^lgK = 19 * 2^lgK + (s.offset + 1) * (8 * 2^lgK) := by
            rw [Nat.add_mul, Nat.add_mul s.offset 1, Nat.one_mul, Nat.mul_comm 8 s.offset, Nat.mul_assoc]; omega
          have hlt : (8 * s.numCoupons - 19 * 2^lgK) / (8 * 2^lgK) < s.offset + 1 := by
            rw [Nat.div_lt_iff_lt_mul (by omega)]; rw [e2] at hhi; omega
          omega
        · omega
      · have h0 : s.offset = 0 := by omega
        rcases hhi with hhi | hhi
        · rw [h0] at hhi
          split
          · simp [h0]
          · have hlt : (8 * s.numCoupons - 19 * 2^lgK) / (8 * 2^lgK) < 1 := by
              rw [Nat.div_lt_iff_lt_mul (by omega)]; omega
            have hd : (8 * s.numCoupons - 19 * 2^lgK) / (8 * 2^lgK) = 0 := Nat.lt_one_iff.1 hlt
            rw [h0, hd]; rfl
        · omega

/-- below the saturation bound the offset is exactly `determine_correct_offset` and at most 56, i.e. the code's
`logic_error` guards on the offset are not reached -/
theorem cpc_no_saturation (T : HipTables) (lgK : Nat) (rcs : List Nat) (h : ∀ rc ∈ rcs, rc < 64 * 2^lgK)
    (hb : 8 * (run T lgK rcs).numCoupons < 475 * 2^lgK) :
    (run T lgK rcs).offset = determineCorrectOffset lgK (run T lgK rcs).numCoupons := by
  have := (cpc_offset_inv T lgK rcs h).2.2.1
  rw [this]
  apply Nat.min_eq_right
  unfold determineCorrectOffset
  split
  · omega
  · have hkpos := Nat.two_pow_pos lgK
    have : (8 * (run T lgK rcs).numCoupons - 19 * 2^lgK) / (8 * 2^lgK) < 57 := by
      rw [Nat.div_lt_iff_lt_mul (by omega)]; omega
    omega

/-- **The merged-form estimate is a function of (lg_k, C) only** (definitional for the model; kept so that a
future extra dependency of `get_estimate` on other state is caught by the correspondence tie), and so are
the confidence bounds. -/
theorem icon_fun_of_lgk_c (E : EstTables) (s₁ s₂ : Sketch) (h₁ : s₁.merged = true) (h₂ : s₂.merged = true)
    (hk : s₁.lgK = s₂.lgK) (hc : s₁.numCoupons = s₂.numCoupons) :
    estimate E s₁ = iconEstimate E s₁.lgK s₁.numCoupons ∧
    estimate E s₁ = estimate E s₂ ∧
    (∀ kappa, lowerBound E s₁ kappa = lowerBound E s₂ kappa ∧ upperBound E s₁ kappa = upperBound E s₂ kappa) := by
  refine ⟨by simp [estimate, h₁], by simp [estimate, h₁, h₂, hk, hc], ?_⟩
  intro kappa
  simp [lowerBound, upperBound, estimate, h₁, h₂, hk, hc]

/-! ## Union

Inputs of a union are *valid sketches*: `ValidInput (s, xs)` says `s` is a correct representation (`Inv`) of the
coupon stream `xs` of codes on `2^s.lgK` rows.  Every sketch reachable by updates is one (`valid_of_run`), and so is
every result of `get_result` (`cpc_union_spec`), so unions of unions are covered. -/

def ValidInput (p : Sketch × List Nat) : Prop := Inv p.1 p.2 ∧ ∀ x ∈ p.2, x < 64 * 2^p.1.lgK

theorem valid_of_run (T : HipTables) (lgK : Nat) (rcs : List Nat) (h : ∀ rc ∈ rcs, rc < 64 * 2^lgK) :
    ValidInput (run T lgK rcs, rcs) :=
  ⟨inv_run T lgK rcs h, by rw [run_lgK]; exact h⟩

/-- **Union specification.**  For any initial lg_k and any list of valid input sketches with any lg_k values:
(1) the union's lg_k is `unionLgK` = the minimum over the initial lg_k and the lg_k of the non-empty inputs;
(2) provided the result's offset is at most 56 (see header), `get_result` is a valid sketch (`Inv`: exact matrix,
exact count, window/offset/fic consistent with its coupon count, every internal check passes) of the concatenation
of the inputs' streams with rows folded to that lg_k (`row &&& (k-1)`), and has that lg_k. -/
theorem cpc_union_spec (T : HipTables) (lgK0 : Nat) (inputs : List (Sketch × List Nat)) (hin : ∀ p ∈ inputs, ValidInput p) :
    let u := unionRun T lgK0 (inputs.map Prod.fst)
    let L := unionLgK lgK0 (inputs.map Prod.fst)
    let ys := inputs.flatMap (fun p => p.2.map (foldRc L))
    u.lgK = L ∧
    (L ≤ lgK0 ∧ (∀ p ∈ inputs, p.1.numCoupons ≠ 0 → L ≤ p.1.lgK) ∧
      (L = lgK0 ∨ ∃ p ∈ inputs, p.1.numCoupons ≠ 0 ∧ L = p.1.lgK)) ∧
    (determineCorrectOffset L (distinct ys).length ≤ 56 → Inv (getResult u) ys ∧ (getResult u).lgK = L) := by
  intro u L ys
  have h := uinv_foldl T inputs hin (unionNew lgK0) [] (uinv_new lgK0)
  simp only [List.map_nil, List.nil_append] at h
  obtain ⟨hl, hu⟩ := h
  have hl' : u.lgK = L := hl
  have hu' : UInv u ys := hu
  have hspec := foldl_lgKAfter_spec lgK0 (inputs.map Prod.fst)
  refine ⟨hl', ⟨foldl_lgKAfter_le _ _, ?_, ?_⟩, ?_⟩
  · intro p hp hne
    exact hspec.1 p.1 (List.mem_map_of_mem hp) hne
  · rcases hspec.2 with h1 | ⟨s, hs, hne, he⟩
    · exact Or.inl h1
    · obtain ⟨p, hp, rfl⟩ := List.mem_map.1 hs
      exact Or.inr ⟨p, hp, hne, he⟩
  · intro h56
    have := inv_getResult u ys hu' (by rw [hl']; exact h56)
    exact ⟨this.1, by rw [this.2, hl']⟩

/-- **The result matrix is the OR of the row-folded input matrices**: bit (r, c) of the result is set iff some
input has bit (r', c) set in a row r' that folds onto r. -/
theorem cpc_union_matrix_or (T : HipTables) (lgK0 : Nat) (inputs : List (Sketch × List Nat)) (hin : ∀ p ∈ inputs, ValidInput p)
    (h56 : determineCorrectOffset (unionLgK lgK0 (inputs.map Prod.fst))
      (distinct (inputs.flatMap (fun p => p.2.map (foldRc (unionLgK lgK0 (inputs.map Prod.fst)))))).length ≤ 56)
    (r c : Nat) (hr : r < 2^(unionLgK lgK0 (inputs.map Prod.fst))) (hc : c < 64) :
    ((buildBitMatrix (getResult (unionRun T lgK0 (inputs.map Prod.fst)))).getD r 0).testBit c = true ↔
      ∃ p ∈ inputs, ∃ r', r' < 2^p.1.lgK ∧ r' % 2^(unionLgK lgK0 (inputs.map Prod.fst)) = r ∧
        ((buildBitMatrix p.1).getD r' 0).testBit c = true := by
  obtain ⟨_, _, hres⟩ := cpc_union_spec T lgK0 inputs hin
  obtain ⟨hinv, hlg⟩ := hres h56
  rw [buildBitMatrix_getD _ r (by rw [hlg]; exact hr), testBit_rowPattern _ hinv.rep r c hc,
    hinv.bits r c (by rw [hlg]; exact hr) hc, List.mem_flatMap]
  constructor
  · rintro ⟨p, hp, hm⟩
    obtain ⟨x, hx, h1, h2⟩ := (mem_map_foldRc _ _ r c hc).1 hm
    have hv := (hin p hp).2 x hx
    refine ⟨p, hp, x / 64, by omega, h1, ?_⟩
    rw [buildBitMatrix_getD _ _ (by omega), testBit_rowPattern _ (hin p hp).1.rep _ c hc,
      (hin p hp).1.bits _ c (by omega) hc]
    rw [show x / 64 * 64 + c = x by omega]; exact hx
  · rintro ⟨p, hp, r', hr', hmod, hb⟩
    rw [buildBitMatrix_getD _ _ hr', testBit_rowPattern _ (hin p hp).1.rep _ c hc,
      (hin p hp).1.bits _ c hr' hc] at hb
    refine ⟨p, hp, (mem_map_foldRc _ _ r c hc).2 ⟨r' * 64 + c, hb, ?_, ?_⟩⟩
    · rw [rc_div r' c hc]; exact hmod
    · exact rc_mod r' c hc

/-- **Order independence**: any permutation of the inputs gives a result with the same lg_k, coupon count, table,
window, offset, first interesting column and merged flag (everything but the unobserved HIP registers). -/
theorem cpc_union_perm_invariant (T : HipTables) (lgK0 : Nat) (inputs inputs' : List (Sketch × List Nat))
    (hp : inputs.Perm inputs') (hin : ∀ p ∈ inputs, ValidInput p) :
    sameContent (getResult (unionRun T lgK0 (inputs.map Prod.fst))) (getResult (unionRun T lgK0 (inputs'.map Prod.fst))) := by
  have hin' : ∀ p ∈ inputs', ValidInput p := fun p hp' => hin p (hp.mem_iff.2 hp')
  have h := uinv_foldl T inputs hin (unionNew lgK0) [] (uinv_new lgK0)
  have h' := uinv_foldl T inputs' hin' (unionNew lgK0) [] (uinv_new lgK0)
  simp only [List.map_nil, List.nil_append] at h h'
  have hL : (inputs.map Prod.fst).foldl lgKAfter (unionNew lgK0).lgK = (inputs'.map Prod.fst).foldl lgKAfter (unionNew lgK0).lgK := by
    apply List.Perm.foldl_eq' (hp.map Prod.fst)
    intro x _ y _ z
    unfold lgKAfter
    by_cases hx : x.numCoupons = 0 <;> by_cases hy : y.numCoupons = 0 <;> simp [hx, hy] <;> omega
  apply getResult_congr _ _ _ _ h.2 h'.2
  · show (unionRun T lgK0 (inputs.map Prod.fst)).lgK = (unionRun T lgK0 (inputs'.map Prod.fst)).lgK
    unfold unionRun
    rw [h.1, h'.1, hL]
  · intro a
    rw [hL]
    exact (hp.flatMap_right _).mem_iff

/-! ## Compression

`compress` / `uncompress` are the code's `cpc_compressor::compress` / `uncompress` (window bytes by 22 Huffman
tables with 12-bit look-ahead; surprising values as sorted pairs: x-delta by the 65-symbol code, y-delta by Golomb
coding; SLIDING rotates and permutes columns; HYBRID merges window bits into the pair list).  `TablesOK` is what the
tables must satisfy; `gen_tables_ok` (Lemmas/CpcTablesOK.lean) discharges it for the tables generated from the
current `compression_data.hpp` by kernel evaluation. -/

/-- **Huffman byte code round trip** for any table that is a prefix code with lengths 1..12: decoding `n` symbols
from the encoded stream followed by arbitrary bits returns the bytes. -/
theorem cpc_byte_code_roundtrip (enc : Nat → Nat) (h : CodeOK enc 256) (bytes : List Nat) (hb : ∀ b ∈ bytes, b < 256)
    (rest : Bits) :
    decBytes (fun x => (decTable enc 256).getD x 0) bytes.length (encBytes enc bytes ++ rest) = bytes :=
  decBytes_encBytes enc _ h (fun x hx => decTable_getD enc 256 x hx) bytes hb rest

/-- **Pair code round trip** (x-delta symbol + unary/Golomb y-delta with any number of base bits) for every strictly
increasing pair array, followed by arbitrary bits. -/
theorem cpc_pair_code_roundtrip (enc65 : Nat → Nat) (h : CodeOK enc65 65) (B : Nat) (pairs : List Nat)
    (hs : pairs.Pairwise (· < ·)) (rest : Bits) :
    decPairs (fun x => (decTable enc65 65).getD x 0) B pairs.length 0 0 (encPairs enc65 B 0 0 pairs ++ rest) = pairs :=
  decPairs_encPairs enc65 _ B h (fun x hx => decTable_getD enc65 65 x hx) pairs 0 0 (pairsOK_sorted pairs hs) rest

/-- **Compression is lossless** (all four flavors and the empty sketch): for every valid sketch (`Inv`, e.g. any
`run`, any union result) whose offset is `determine_correct_offset` (always, below the saturation bound of the
header), `uncompress (compress s)` returns exactly the surprising-value table and the window; together with
`lg_k`, `C`, `first_interesting_column` and the HIP registers, which the image stores verbatim, and the offset,
which `deserialize` recomputes as `determine_correct_offset(lg_k, C)`, this is the whole state. -/
theorem cpc_compress_lossless (C : CompTables) (hC : TablesOK C) (s : Sketch) (xs : List Nat) (h : Inv s xs)
    (hv : ∀ x ∈ xs, x < 64 * 2^s.lgK) (hoff : s.offset = determineCorrectOffset s.lgK s.numCoupons) :
    uncompress C (compress C s) s.lgK s.numCoupons = (s.table, s.window) :=
  compress_lossless C hC s xs h hv hoff

/-- the same for the tables of the current headers and every update history, unconditionally below saturation -/
theorem cpc_compress_lossless_run (T : HipTables) (lgK : Nat) (rcs : List Nat) (h : ∀ rc ∈ rcs, rc < 64 * 2^lgK)
    (hb : 8 * (run T lgK rcs).numCoupons < 475 * 2^lgK) :
    uncompress genComp (compress genComp (run T lgK rcs)) lgK (run T lgK rcs).numCoupons
      = ((run T lgK rcs).table, (run T lgK rcs).window) := by
  have hi := inv_run T lgK rcs h
  have hl := run_lgK T lgK rcs
  have := cpc_compress_lossless genComp gen_tables_ok (run T lgK rcs) rcs hi (by rw [hl]; exact h)
    (by rw [hl]; exact cpc_no_saturation T lgK rcs h hb)
  rwa [hl] at this

/-! ### The serialized image

`serializeCore` / `deserializeCore` (DSModel/Cpc/Wire.lean) put the preamble around `compress` / `uncompress`; the two
HIP registers travel as their 64-bit patterns.  `wireOf r` = the wire constants generated from cpc_sketch.hpp together
with the SHAPE of `deserialize` on an empty image, which the translator reads from the current source
(`DSGen.cpc_DESER_EMPTY_KXP_IS_K`): `pinnedWire` (r = false) is the code before fix de90ce5 — the rebuilt empty sketch
keeps the declaration value `kxp = 0`; `repairedWire` (r = true) starts it with `kxp = 2^lg_k` like a new sketch;
`genWire` is whatever the headers say now.

`cpc_image_lossless_full W`: for every valid sketch — whose registers, when it is EMPTY, are those of every reachable
empty sketch (`kxp = 2^lg_k`, `hip = 0`: new, empty union result, or deserialized by the repaired code) — the image gives
back lg_k, C, table, window, offset, first interesting column, merged flag and, if not merged, both HIP registers.
* `cpc_image_lossless_full_false`: FALSE for the pinned shape (the finding `deserialized-empty-sketch-estimator-state-lost`);
* `cpc_image_lossless_partial`: true for every NON-EMPTY sketch in either shape;
* `cpc_image_lossless_repaired`: TRUE in full for the repaired shape, and
* `cpc_image_lossless_current`: hence for the current source (this obligation breaks if the fix is reverted). -/

/-- sizes that fit the 32/64-bit fields of the image (always true for lg_k ≤ 26) -/
def SizesOK (s : Sketch) (hb : HipBits) : Prop :=
  s.numCoupons < 256^4 ∧ hb.kxp < 256^8 ∧ hb.hip < 256^8 ∧ s.table.length < 256^4 ∧
  (compress genComp s).tableWords.length < 256^4 ∧ (compress genComp s).windowWords.length < 256^4

/-- the registers of an empty sketch are those of a new one -/
def RegsOK (s : Sketch) (hb : HipBits) : Prop := s.numCoupons = 0 → hb = ⟨pow2Bits s.lgK, 0⟩

def cpc_image_lossless_full (W : WireConsts) : Prop :=
  ∀ (seedHash : Nat) (s : Sketch) (xs : List Nat) (hb : HipBits) (ofBits : Nat → Float),
    seedHash < 65536 → Inv s xs → (∀ x ∈ xs, x < 64 * 2^s.lgK) →
    s.offset = determineCorrectOffset s.lgK s.numCoupons → SizesOK s hb → RegsOK s hb →
    ∃ s' hb', deserializeCore W genComp seedHash (serializeCore W genComp seedHash s hb) ofBits = some (s', hb') ∧
      sameContent s' s ∧ (s.merged = false → hb' = hb)

/-- pinned shape: the image of a new (empty, not merged) lg_k = 4 sketch with `kxp = 16.0` comes back with `kxp = 0` -/
theorem cpc_image_lossless_full_false : ¬ cpc_image_lossless_full pinnedWire := by
  intro h
  obtain ⟨s', hb', h1, _, h3⟩ := h 37836 (fresh 4) [] ⟨0x4030000000000000, 0⟩ (fun _ => 0.0) (by decide) (inv_fresh 4) (by simp)
    rfl (by unfold SizesOK; decide +kernel) (by intro _; decide)
  have h2 : (deserializeCore pinnedWire genComp 37836 (serializeCore pinnedWire genComp 37836 (fresh 4) ⟨0x4030000000000000, 0⟩)
      (fun _ => 0.0)).map Prod.snd = some ⟨0, 0⟩ := by decide +kernel
  rw [h1] at h2
  have := h3 rfl
  rw [this] at h2
  simp at h2

/-- every NON-EMPTY valid sketch is reproduced by its image, in either shape -/
theorem cpc_image_lossless_partial (r : Bool) (seedHash : Nat) (s : Sketch) (xs : List Nat) (hb : HipBits) (ofBits : Nat → Float)
    (hsh : seedHash < 65536) (h : Inv s xs) (hv : ∀ x ∈ xs, x < 64 * 2^s.lgK)
    (hoff : s.offset = determineCorrectOffset s.lgK s.numCoupons) (hsz : SizesOK s hb) (hne : s.numCoupons ≠ 0) :
    ∃ s', deserializeCore (wireOf r) genComp seedHash (serializeCore (wireOf r) genComp seedHash s hb) ofBits
        = some (s', if s.merged then ⟨0, 0⟩ else hb) ∧ sameContent s' s := by
  obtain ⟨h1, h2, h3, h4, h5, h6⟩ := hsz
  obtain ⟨s', he, e1, e2, e3, e4, e5, e6, e7⟩ :=
    image_roundtrip r genComp gen_tables_ok seedHash s xs hb ofBits hsh h hv hoff hne h1 h2 h3 h4 h5 h6
  exact ⟨s', he, e1, e2, e3, e4, e5, e6, e7⟩

/-- **the full statement holds for the repaired shape**, the empty sketch included -/
theorem cpc_image_lossless_repaired : cpc_image_lossless_full repairedWire := by
  intro seedHash s xs hb ofBits hsh h hv hoff hsz hregs
  by_cases hc0 : s.numCoupons = 0
  · obtain ⟨s', he, e1, e2, e3, e4, e5, e6, e7⟩ :=
      image_roundtrip_empty true genComp seedHash s xs hb ofBits hsh h hv hoff hc0
    refine ⟨s', _, he, ⟨e1, e2, e3, e4, e5, e6, e7⟩, ?_⟩
    intro _; rw [hregs hc0]; rfl
  · obtain ⟨s', he, hs⟩ := cpc_image_lossless_partial true seedHash s xs hb ofBits hsh h hv hoff hsz hc0
    refine ⟨s', _, he, hs, ?_⟩
    intro hm; rw [hm]; rfl

/-- the current source has the repaired shape (regenerated from cpc_sketch_impl.hpp on every run) -/
theorem cpc_source_is_repaired : genWire = repairedWire := by
  have h : DSGen.cpc_DESER_EMPTY_KXP_IS_K = true := by decide
  unfold genWire repairedWire; rw [h]

/-- **the full image statement for the CURRENT source** -/
theorem cpc_image_lossless_current : cpc_image_lossless_full genWire := by
  rw [cpc_source_is_repaired]; exact cpc_image_lossless_repaired

/-! Non-vacuity: a concrete stream on lg_k = 4 that passes through SPARSE → HYBRID (promotion at C = 2) with
duplicates, coupons below / inside / above the window. -/
def exT : HipTables := { invPow2 := fun _ => 0.0, kxpByte := fun _ => 0.0 }
def exStream : List Nat := [5 * 64 + 0, 5 * 64 + 0, 3 * 64 + 9, 15 * 64 + 1, 3 * 64 + 9, 0 * 64 + 20, 5 * 64 + 7]
example : ∀ rc ∈ exStream, rc < 64 * 2^4 := by decide
example : (run exT 4 exStream).numCoupons = 5 ∧ (run exT 4 exStream).window ≠ [] ∧ (run exT 4 exStream).offset = 0
    ∧ (run exT 4 exStream).table = [0 * 64 + 20, 3 * 64 + 9] := by decide
example : (run exT 4 (exStream.take 2)).numCoupons = 1 ∧ (run exT 4 (exStream.take 2)).window = [] := by decide

/-! Non-vacuity for the union: three inputs of lg_k 6, 4, 5 (empty, sparse and hybrid ones), union lg_k 7. -/
def exIn1 : List Nat := [40 * 64 + 3, 41 * 64 + 9, 63 * 64 + 0]       -- lg_k 6
def exIn2 : List Nat := [2 * 64 + 1, 2 * 64 + 1, 9 * 64 + 12, 8 * 64 + 3]  -- lg_k 4: 3 coupons -> HYBRID; (8,3) also is the fold of (40,3)
def exInputs : List (Sketch × List Nat) := [(run exT 6 exIn1, exIn1), (run exT 5 [], []), (run exT 4 exIn2, exIn2)]
example : ∀ p ∈ exInputs, ValidInput p := by
  intro p hp
  simp only [exInputs, List.mem_cons, List.mem_nil_iff, or_false] at hp
  rcases hp with rfl | rfl | rfl
  · exact valid_of_run exT 6 exIn1 (by decide)
  · exact valid_of_run exT 5 [] (by decide)
  · exact valid_of_run exT 4 exIn2 (by decide)
example : unionLgK 7 (exInputs.map Prod.fst) = 4 ∧
    (getResult (unionRun exT 7 (exInputs.map Prod.fst))).numCoupons = 5 ∧
    (getResult (unionRun exT 7 (exInputs.map Prod.fst))).window ≠ [] ∧
    (getResult (unionRun exT 7 (exInputs.reverse.map Prod.fst))).table = (getResult (unionRun exT 7 (exInputs.map Prod.fst))).table := by
  decide +kernel

/-! Non-vacuity for compression: the HYBRID example sketch above, and a SLIDING sketch (66 coupons on lg_k 4:
columns 0..3 of every row plus two surprising values, offset 1) meet the hypotheses of `cpc_compress_lossless_run`. -/
def exSliding : List Nat := (List.range 64).map (fun i => (i / 4) * 64 + i % 4) ++ [5 * 64 + 17, 9 * 64 + 40]
example : determineFlavor 4 (run exT 4 exStream).numCoupons = .hybrid ∧ 8 * (run exT 4 exStream).numCoupons < 475 * 2^4 := by
  decide +kernel
example : (∀ rc ∈ exSliding, rc < 64 * 2^4) ∧ determineFlavor 4 (run exT 4 exSliding).numCoupons = .sliding ∧
    (run exT 4 exSliding).offset = 1 ∧ (run exT 4 exSliding).table = [5 * 64 + 17, 9 * 64 + 40] ∧
    8 * (run exT 4 exSliding).numCoupons < 475 * 2^4 := by
  decide +kernel
example : uncompress genComp (compress genComp (run exT 4 exSliding)) 4 (run exT 4 exSliding).numCoupons
    = ((run exT 4 exSliding).table, (run exT 4 exSliding).window) :=
  cpc_compress_lossless_run exT 4 exSliding (by decide +kernel) (by decide +kernel)

/-! Non-vacuity for the image theorem: a SPARSE sketch (one coupon, fed twice) with arbitrary register patterns meets
`SizesOK` and the other hypotheses (`Inv` and validity by `valid_of_run`). -/
def exSparse : List Nat := [5 * 64 + 0, 5 * 64 + 0]
example : SizesOK (run exT 4 exSparse) ⟨0x4030000000000000, 0x3ff0000000000000⟩ := by
  have hf : determineFlavor (run exT 4 exSparse).lgK (run exT 4 exSparse).numCoupons = .sparse := by decide +kernel
  refine ⟨by decide +kernel, by decide, by decide, by decide +kernel, ?_, ?_⟩
  · unfold compress
    simp only [hf]
    unfold compressPairs
    exact Nat.lt_of_le_of_lt (length_packWords_le _) (by decide +kernel)
  · unfold compress
    simp only [hf]
    decide
example : (run exT 4 exSparse).numCoupons ≠ 0 ∧ (run exT 4 exSparse).merged = false ∧
    (run exT 4 exSparse).offset = determineCorrectOffset (run exT 4 exSparse).lgK (run exT 4 exSparse).numCoupons := by
  decide +kernel

end DS.Cpc

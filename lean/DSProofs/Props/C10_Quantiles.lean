/-
C10 (classic quantiles) — the image follows the documented layout; images of serial versions 1 and 2 stay readable.

ONLY property theorems and their non-vacuity examples.  `docCfg` (Props/C09_Quantiles.lean) is the documented contract
(family 8; serial version 3 written, 1 and 2 readable; preamble longs 1 empty / 2 (5 in version 1); flags bit 2 empty,
bit 3 compact, bit 4 sorted; k a power of two in [2, 32768]; data at byte 16; the ten valid header combinations).
`codeCfg` is what the translator extracted from the CURRENT headers in this run.
-/
import DSModel.Wire.QuantilesCode
import DSProofs.Props.C09_Quantiles
namespace DS.Wire.Quantiles
open Reader

/-- every wire constant in the current headers (incl. the table of valid header combinations) equals its documented value -/
theorem wire_consts_documented : codeCfg = docCfg := by decide


/-- what the current writer would emit for the same logical content -/
def currentImage (c : Cfg) (k : Nat) (b : Body) : Image :=
  { pre := c.preFull, ver := c.ver3, flags := 2 ^ c.bitCompact + 2 ^ c.bitSorted, k := k, unused := 0,
    body := some { b with v1pad := 0, extra := [] } }

/-- legacy images (serial version 1: preamble longs 5, never compact; serial version 2: always compact) decode to the
state they were built from, with the reader that is used for current images -/
theorem legacy_decode_encode (sd : Serde) (hs : sd.Lawful) (c : Cfg) (hc : CfgOK c) (s : Image) (tail : Bytes)
    (hw : WF sd c s = true) (_hv : s.ver = c.ver1 ∨ s.ver = c.ver2) :
    decodeLegacy sd c (encodeLegacy sd c s ++ tail) = some (s, tail) :=
  decode_encode sd hs c hc s tail hw

/-- ... and present the same API content as the current image of that content (the surplus base-buffer slots of a
version-1 image and its unused 8 bytes carry no content) -/
theorem legacy_same_content (c : Cfg) (k u1 u2 : Nat) (b : Body) :
    project (legacyV1 c k u1 b) = project (currentImage c k b) ∧
    project (legacyV2 c k u2 b) = project (currentImage c k b) := by
  constructor <;> simp [project, legacyV1, legacyV2, currentImage]

/-- non-vacuity: k = 2, n = 5 in serial version 1 (3 surplus base-buffer slots, unused long = 4) and in serial version 2 -/
def exBody : Body :=
  { n := 5, min := [1,0,0,0,0,0,0,0], max := [5,0,0,0,0,0,0,0], v1pad := 4, bb := [[5,0,0,0,0,0,0,0]],
    extra := [[0,0,0,0,0,0,0,0], [0,0,0,0,0,0,0,0], [9,9,9,9,9,9,9,9]], levels := [[[2,0,0,0,0,0,0,0], [4,0,0,0,0,0,0,0]]] }

example : WF (Serde.fixed 8) docCfg (legacyV1 docCfg 2 0 exBody) = true := by decide
example : WF (Serde.fixed 8) docCfg (legacyV2 docCfg 2 1 exBody) = true := by decide
example : (encodeLegacy (Serde.fixed 8) docCfg (legacyV1 docCfg 2 0 exBody)).length = 88 := by decide

end DS.Wire.Quantiles

/-
C10 (compact theta sketch images) — documented layout, legacy serial versions 1 and 2.

ONLY property theorems and their non-vacuity examples.  `Theta.documented` (DSModel/Wire/Theta.lean) and the literals
below are the hand-written documented contract (DESIGN.md Appendix A); `DSGen.*` are the values translated from the
CURRENT headers on this run.  A consistent change of writer and reader still round-trips but breaks
`wire_consts_documented`.
-/
import DSProofs.Lemmas.WireThetaLegacy
import DSModel.Wire.GenConsts
namespace DS.Wire.Theta
open DS.Wire

/-- every wire constant of the compact theta sketch in the current headers has its documented value: serial versions
3 / 4, sketch type 3, flag bits (read-only 1, empty 2, compact 3, ordered 4), the parser's own copies and byte
offsets, the preamble-longs literals of the three writers, MAX_THETA = 2^63 − 1. -/
theorem wire_consts_documented :
    genThetaConsts = documented ∧
    DSGen.wth_flag_IS_BIG_ENDIAN = 0 ∧
    DSGen.wthp_TYPE = 3 ∧ DSGen.wthp_IS_EMPTY_FLAG = 2 ∧ DSGen.wthp_IS_ORDERED_FLAG = 4 ∧
    DSGen.wthp_PRE_LONGS_BYTE = 0 ∧ DSGen.wthp_SERIAL_VERSION_BYTE = 1 ∧ DSGen.wthp_TYPE_BYTE = 2 ∧ DSGen.wthp_FLAGS_BYTE = 5 ∧
    DSGen.wthp_SEED_HASH_U16 = 3 ∧ DSGen.wthp_SINGLE_ENTRY_U64 = 1 ∧ DSGen.wthp_NUM_ENTRIES_U32 = 2 ∧
    DSGen.wthp_ENTRIES_EXACT_U64 = 2 ∧ DSGen.wthp_ENTRIES_ESTIMATION_U64 = 3 ∧ DSGen.wthp_THETA_U64 = 2 ∧
    DSGen.wthp_V4_ENTRY_BITS_BYTE = 3 ∧ DSGen.wthp_V4_NUM_ENTRIES_BYTES_BYTE = 4 ∧ DSGen.wthp_V4_THETA_U64 = 1 ∧
    DSGen.wthp_V4_PACKED_DATA_EXACT_BYTE = 8 ∧ DSGen.wthp_V4_PACKED_DATA_ESTIMATION_BYTE = 16 ∧
    DSGen.wth_MAX_THETA = maxTheta ∧ maxTheta = 2 ^ 63 - 1 ∧
    DSGen.wth_pre_stream = [3, 1, 2] ∧ DSGen.wth_pre_bytes = [2, 1, 3, 1, 2] ∧ DSGen.wth_pre_v4_stream = [2, 1] := by
  decide

/-- the documented constants satisfy the side condition of all round-trip theorems. -/
theorem documented_ok : documented.ok = true := by decide

/-- legacy serial version 1 (no flags, no seed hash, always 3 preamble longs): the reader inverts the legacy writer. -/
theorem legacy_v1_decode_encode (c : Consts) (hc : c.ok = true) (s : Image) (hwf : WFLegacy s) (exp : Nat) (hseed : s.seedHash = exp) (tail : Bytes) :
    decode c exp (encodeV1 c s ++ tail) = some (s, tail) :=
  decode_encodeV1 (COk.of_ok hc) s hwf exp hseed tail

/-- legacy serial version 2 (1 / 2 / 3 preamble longs, seed hash, always ordered). -/
theorem legacy_v2_decode_encode (c : Consts) (hc : c.ok = true) (s : Image) (hwf : WFLegacy s) (exp : Nat) (hseed : s.seedHash = exp) (tail : Bytes) :
    decode c exp (encodeV2 c s ++ tail) = some (s, tail) :=
  decode_encodeV2 (COk.of_ok hc) s hwf exp hseed tail

example : WFLegacy ⟨false, true, 37836, 4611686018427387904, [5, 7, 11]⟩ := by decide
example : WFLegacy ⟨true, true, 37836, maxTheta, []⟩ := by decide

/-- the two shipped version-1 / version-2 "empty" images decode to the empty sketch (the estimation-mode files are
decoded by the driver and compared with the real reader in `./check c10_theta`). -/
theorem shipped_empty_images_decode :
    decode documented 37836 [3, 1, 3, 0, 0, 0x1e, 0, 0, 0, 0, 0, 0, 0, 0, 0, 0, 0xff, 0xff, 0xff, 0xff, 0xff, 0xff, 0xff, 0x7f]
      = some (⟨true, true, 37836, maxTheta, []⟩, []) ∧
    decode documented 37836 [1, 2, 3, 0, 0, 0x1e, 0xcc, 0x93] = some (⟨true, true, 37836, maxTheta, []⟩, []) := by
  decide

end DS.Wire.Theta

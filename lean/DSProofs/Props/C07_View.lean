/-
C07 (shared part) — the sorted view of the quantile sketches answers coherently.

Model: DSModel/SortedView.lean = `quantiles_sorted_view` (common/include/quantiles_sorted_view_impl.hpp), used by the
KLL, REQ and classic quantiles models.  Items are of an arbitrary type with a Boolean comparator `lt` that is a
strict weak order (`StrictWeak`, the C++ *Compare* requirement).  `raw` is the list of (item, weight) entries
before `convert_to_cummulative`, `build raw` the finished view.  All statements hold for every item type, every
comparator, every list of runs/weights and every query point; ONLY property theorems and non-vacuity examples
live here (helper lemmas: Lemmas/SortedView*.lean).

Ranks are stated on the integer numerators (`rankNum`, the cumulative weight the code divides by the total
weight) and, for CDF/PMF, over `Rat` (`ratOps`); the `Float` instance (`floatOps`, `getRank`, `quantileWeight`)
is what the correspondence check executes and compares bit for bit with the C++ — floating-point rounding is
not part of these theorems.  The linear scans `rankGo`/`quantGo` are the specification of the binary searches
(`std::lower_bound/upper_bound`) on a view that is sorted, which `view_sorted_*` establishes.
-/
import DSProofs.Lemmas.SortedView2
namespace DS.SortedView

variable {α : Type}

/-- comparator used in the examples -/
def ltInt : Int → Int → Bool := fun a b => decide (a < b)

theorem ltInt_sw : StrictWeak ltInt :=
  ⟨by intro a b h; simp only [ltInt, decide_eq_true_eq, decide_eq_false_iff_not] at h ⊢; omega,
   by intro a b c h1 h2; simp only [ltInt, decide_eq_false_iff_not] at h1 h2 ⊢; omega⟩

/-- example view: level runs [2,5,9] (weight 1), [3,5] (weight 2), [4] (weight 4) -/
def exRaw : List (Int × Nat) := add ltInt (add ltInt (add ltInt [] [2, 5, 9] 1) [3, 5] 2) [4] 4

example : exRaw = [(2, 1), (3, 2), (4, 4), (5, 1), (5, 2), (9, 1)] := by decide
example : (build exRaw).ents = [(2, 1), (3, 3), (4, 7), (5, 8), (5, 10), (9, 11)] ∧ (build exRaw).total = 11 := by decide

/-- merging a sorted run into a sorted view keeps it sorted -/
theorem view_sorted_add {lt : α → α → Bool} (sw : StrictWeak lt) {view : List (α × Nat)} {items : List α} (w : Nat)
    (hv : SortedE lt view) (hi : Sorted lt items) : SortedE lt (add lt view items w) :=
  add_sorted sw w hv hi

/-- `convert_to_cummulative` does not touch the items: the finished view is sorted when the raw one is -/
theorem view_sorted_build {lt : α → α → Bool} {raw : List (α × Nat)} (h : SortedE lt raw) :
    SortedE lt (build raw).ents := by
  unfold SortedE build; simp only; rw [cumulate_fst]; exact h

example : SortedE ltInt (build exRaw).ents := view_sorted_build (by unfold SortedE Sorted; decide)

/-- `add` neither loses nor invents entries, and the total weight is the sum of the weights of all runs -/
theorem view_total_add (lt : α → α → Bool) (view : List (α × Nat)) (items : List α) (w : Nat) :
    (add lt view items w).Perm (view ++ items.map (fun x => (x, w))) ∧
    total (add lt view items w) = total view + w * items.length := by
  refine ⟨add_perm lt view items w, ?_⟩
  rw [total_eq_sumW, total_eq_sumW, sumW_add]

/-- the total weight of the finished view is the sum of the weights; the last cumulative weight equals it;
cumulative weights never decrease, and strictly increase when every weight is positive -/
theorem view_total (raw : List (α × Nat)) :
    (build raw).total = sumW raw ∧
    (raw ≠ [] → (build raw).ents.getLast?.map Prod.snd = some (build raw).total) ∧
    (build raw).ents.Pairwise (fun a b => a.2 ≤ b.2) ∧
    ((∀ e ∈ raw, 0 < e.2) → (build raw).ents.Pairwise (fun a b => a.2 < b.2)) := by
  refine ⟨total_eq_sumW raw, ?_, cumulate_pairwise 0 raw, cumulate_pairwise_lt 0 raw⟩
  intro h
  have := cumulate_getLast? 0 raw h
  simp only [build, total_eq_sumW]; rw [this]; simp

example : (build exRaw).total = 1 * 3 + 2 * 2 + 4 * 1 := by decide

/-- KEY characterisation: on a sorted view the rank numerator is the total weight of the entries `≤ x`
(inclusive) resp. `< x` (exclusive); hence it depends only on the weighted multiset of retained items -/
theorem rank_eq_weight_below {lt : α → α → Bool} (sw : StrictWeak lt) (raw : List (α × Nat)) (hs : SortedE lt raw)
    (x : α) (incl : Bool) : rankNum lt (build raw) x incl = weightBelow lt x incl raw :=
  rankNum_eq sw raw hs x incl

theorem weight_below_perm (lt : α → α → Bool) (x : α) (incl : Bool) {a b : List (α × Nat)} (h : a.Perm b) :
    weightBelow lt x incl a = weightBelow lt x incl b := weightBelow_perm lt x incl h

example : rankNum ltInt (build exRaw) 5 true = 10 ∧ rankNum ltInt (build exRaw) 5 false = 7 ∧
    weightBelow ltInt 5 true exRaw = 10 ∧ weightBelow ltInt 5 false exRaw = 7 := by decide

/-- rank is monotone in the query point (both criteria) -/
theorem rank_mono {lt : α → α → Bool} (sw : StrictWeak lt) (raw : List (α × Nat)) (hs : SortedE lt raw)
    {x y : α} (hxy : lt y x = false) (incl : Bool) :
    rankNum lt (build raw) x incl ≤ rankNum lt (build raw) y incl := by
  rw [rankNum_eq sw raw hs, rankNum_eq sw raw hs]; exact weightBelow_mono sw hxy incl raw

example : rankNum ltInt (build exRaw) 3 true ≤ rankNum ltInt (build exRaw) 4 true :=
  rank_mono ltInt_sw exRaw (by unfold SortedE Sorted; decide) (by decide) true

/-- inclusive rank ≥ exclusive rank -/
theorem rank_incl_ge_excl {lt : α → α → Bool} (sw : StrictWeak lt) (raw : List (α × Nat)) (hs : SortedE lt raw) (x : α) :
    rankNum lt (build raw) x false ≤ rankNum lt (build raw) x true := by
  rw [rankNum_eq sw raw hs, rankNum_eq sw raw hs]; exact weightBelow_excl_le_incl sw x raw

/-- ranks never exceed the total weight, and reach it at (or above) the largest item -/
theorem rank_le_total {lt : α → α → Bool} (sw : StrictWeak lt) (raw : List (α × Nat)) (hs : SortedE lt raw) (x : α) (incl : Bool) :
    rankNum lt (build raw) x incl ≤ (build raw).total ∧
    ((∀ e ∈ raw, lt x e.1 = false) → rankNum lt (build raw) x true = (build raw).total) := by
  rw [rankNum_eq sw raw hs, rankNum_eq sw raw hs]
  refine ⟨by simp only [build, total_eq_sumW]; exact weightBelow_le_sumW lt x incl raw, ?_⟩
  intro h
  simp only [build, total_eq_sumW]
  exact weightBelow_all x true raw (fun e he => by simp [isBelow, h e he])

example : rankNum ltInt (build exRaw) 9 true = (build exRaw).total := by decide

/-- a non-empty view always answers a quantile query with one of its items -/
theorem quantile_mem (raw : List (α × Nat)) (h : raw ≠ []) (w : Nat) (incl : Bool) :
    ∃ q, quantileAt (build raw) w incl = some q ∧ q ∈ raw.map Prod.fst := by
  have hne : cumulate 0 raw ≠ [] := by
    intro h0; have := congrArg List.length h0; rw [cumulate_length] at this
    exact h (List.eq_nil_of_length_eq_zero (by simpa using this))
  obtain ⟨q, hq, hm⟩ := quantGo_ne_nil w incl (cumulate 0 raw) none hne
  exact ⟨q, hq, by rw [cumulate_fst] at hm; exact hm⟩

/-- quantile is monotone in the weight threshold (hence in the rank, `quantile_weight_mono`) -/
theorem quantile_mono {lt : α → α → Bool} (sw : StrictWeak lt) (raw : List (α × Nat)) (hs : SortedE lt raw)
    {w1 w2 : Nat} (hw : w1 ≤ w2) (incl : Bool) {q1 q2 : α}
    (h1 : quantileAt (build raw) w1 incl = some q1) (h2 : quantileAt (build raw) w2 incl = some q2) :
    lt q2 q1 = false := by
  unfold quantileAt build at h1 h2
  simp only at h1 h2
  cases raw with
  | nil => simp [cumulate, quantGo] at h1
  | cons e t =>
    obtain ⟨a, wa⟩ := e
    simp only [cumulate] at h1 h2
    rw [quantGo_cons] at h1 h2
    unfold SortedE at hs
    have hs' : Sorted lt (a :: (cumulate (0 + wa) t).map Prod.fst) := by rw [cumulate_fst]; simpa using hs
    cases hh2 : qhit w2 incl (0 + wa)
    · rw [hh2] at h2
      simp only [Bool.false_eq_true, if_false] at h2
      cases hh1 : qhit w1 incl (0 + wa)
      · rw [hh1] at h1
        simp only [Bool.false_eq_true, if_false] at h1
        exact quantGo_mono sw hw incl _ a hs' q1 q2 h1 h2
      · rw [hh1] at h1
        simp only [if_true, Option.some.injEq] at h1; subst h1
        obtain ⟨q, hq, hm⟩ := quantGo_mem w2 incl (cumulate (0 + wa) t) a
        rw [hq] at h2; simp only [Option.some.injEq] at h2; subst h2
        rcases hm with rfl | hm
        · exact sw_irrefl sw _
        · exact (List.pairwise_cons.mp hs').1 q hm
    · rw [hh2] at h2
      rw [qhit_mono hw incl _ hh2] at h1
      simp only [if_true, Option.some.injEq] at h1 h2; subst h1; subst h2; exact sw_irrefl sw _

example : quantileAt (build exRaw) 3 true = some 3 ∧ quantileAt (build exRaw) 8 true = some 5 ∧
    quantileAt (build exRaw) 3 false = some 4 ∧ quantileAt (build exRaw) 11 false = some 9 := by decide

/-- quantile and rank are dual.  Inclusive (1 ≤ w ≤ total): the answer q is the smallest item whose inclusive
rank reaches w, i.e. `rank_excl(q) < w ≤ rank_incl(q)`.  Exclusive (w < total): `rank_excl(q) ≤ w < rank_incl(q)`. -/
theorem quantile_rank_dual {lt : α → α → Bool} (sw : StrictWeak lt) (raw : List (α × Nat)) (hs : SortedE lt raw) (w : Nat) (q : α) :
    (1 ≤ w → w ≤ (build raw).total → quantileAt (build raw) w true = some q →
      w ≤ rankNum lt (build raw) q true ∧ rankNum lt (build raw) q false < w) ∧
    (w < (build raw).total → quantileAt (build raw) w false = some q →
      w < rankNum lt (build raw) q true ∧ rankNum lt (build raw) q false ≤ w) := by
  rw [rankNum_eq sw raw hs, rankNum_eq sw raw hs]
  simp only [build, total_eq_sumW, quantileAt]
  refine ⟨?_, ?_⟩
  · intro h1 h2 hq
    have := quantGo_dual_incl sw w raw 0 none q hs (by omega) (by omega) hq
    omega
  · intro h2 hq
    have := quantGo_dual_excl sw w raw 0 none q hs (by omega) (by omega) hq
    omega

example : 8 ≤ rankNum ltInt (build exRaw) 5 true ∧ rankNum ltInt (build exRaw) 5 false < 8 := by decide

/-- the weight threshold `⌈r·N⌉` / `⌊r·N⌋` is monotone in the normalized rank and stays within the total
(exact arithmetic; the C++/`Float` computation `quantileWeight` is executed and compared, not proved) -/
theorem quantile_weight_mono (total : Nat) {r1 r2 : Rat} (h : r1 ≤ r2) (incl : Bool) :
    quantileWeightQ total r1 incl ≤ quantileWeightQ total r2 incl ∧
    (r2 ≤ 1 → quantileWeightQ total r2 incl ≤ total) :=
  ⟨quantileWeightQ_mono total h incl, fun h1 => quantileWeightQ_le_total total h1 incl⟩

example : quantileWeightQ 11 (1 / 2) true = 6 ∧ quantileWeightQ 11 (1 / 2) false = 5 := by
  unfold quantileWeightQ; constructor <;> norm_num [Int.ceil_eq_iff, Int.floor_eq_iff] <;> rfl

/-- CDF: one entry per split point, equal to its normalized rank, followed by exactly 1 -/
theorem cdf_eq_rank (lt : α → α → Bool) (v : View α) (sps : List α) (incl : Bool) :
    (getCDF ratOps lt v sps incl).length = sps.length + 1 ∧
    (∀ i (h : i < sps.length), (getCDF ratOps lt v sps incl)[i]? = some (getRankG ratOps lt v sps[i] incl)) ∧
    (getCDF ratOps lt v sps incl).getLast? = some 1 ∧
    (∀ x, getRankG ratOps lt v x incl = (rankNum lt v x incl : Rat) / (v.total : Rat)) := by
  refine ⟨by simp [getCDF], ?_, by simp [getCDF, ratOps], fun x => rfl⟩
  intro i h
  simp only [getCDF]
  rw [List.getElem?_append_left (by simpa using h)]
  simp [h]

/-- valid split points are strictly increasing, so the CDF is non-decreasing and bounded by 1 -/
theorem cdf_mono {lt : α → α → Bool} (sw : StrictWeak lt) (raw : List (α × Nat)) (hs : SortedE lt raw)
    (isNaN : α → Bool) (sps : List α) (hv : checkSplitPoints lt isNaN sps = true) (incl : Bool) :
    (getCDF ratOps lt (build raw) sps incl).Pairwise (· ≤ ·) := by
  have hle1 : ∀ x, getRankG ratOps lt (build raw) x incl ≤ 1 := fun x =>
    ratio_le_one (rank_le_total sw raw hs x incl).1
  unfold getCDF
  rw [List.pairwise_append]
  refine ⟨?_, by simp, ?_⟩
  · induction sps with
    | nil => simp
    | cons a t ih =>
      cases t with
      | nil => simp
      | cons b t' =>
        simp only [checkSplitPoints, Bool.and_eq_true] at hv
        have ih' := ih hv.2
        simp only [List.map_cons] at ih' ⊢
        refine List.pairwise_cons.mpr ⟨?_, ih'⟩
        intro y hy
        have hab : getRankG ratOps lt (build raw) a incl ≤ getRankG ratOps lt (build raw) b incl :=
          ratio_mono (rank_mono sw raw hs (sw.asymm a b hv.1.2) incl)
        rcases List.mem_cons.mp hy with rfl | hy
        · exact hab
        · exact le_trans hab ((List.pairwise_cons.mp ih').1 y hy)
  · intro a ha b hb
    simp only [List.mem_singleton] at hb; subst hb
    rcases List.mem_map.mp ha with ⟨x, _, rfl⟩
    exact hle1 x

/-- the PMF sums to exactly one (telescoping; no sortedness needed) -/
theorem pmf_sum (lt : α → α → Bool) (v : View α) (sps : List α) (incl : Bool) :
    (getPMF ratOps lt v sps incl).sum = 1 := by
  unfold getPMF
  have hl : (getCDF ratOps lt v sps incl).getLast? = some 1 := (cdf_eq_rank lt v sps incl).2.2.1
  cases h : getCDF ratOps lt v sps incl with
  | nil => rw [h] at hl; simp at hl
  | cons c t =>
    rw [h] at hl
    simp only [List.sum_cons, diffs_sum]
    cases t with
    | nil => simp only [List.getLast?_singleton, Option.some.injEq] at hl; subst hl; simp
    | cons y t' =>
      rw [List.getLast?_cons_cons] at hl
      rw [hl]; simp

/-- every PMF bucket is non-negative -/
theorem pmf_nonneg {lt : α → α → Bool} (sw : StrictWeak lt) (raw : List (α × Nat)) (hs : SortedE lt raw)
    (isNaN : α → Bool) (sps : List α) (hv : checkSplitPoints lt isNaN sps = true) (incl : Bool) :
    ∀ d ∈ getPMF ratOps lt (build raw) sps incl, 0 ≤ d := by
  have hm := cdf_mono sw raw hs isNaN sps hv incl
  unfold getPMF
  cases h : getCDF ratOps lt (build raw) sps incl with
  | nil => simp
  | cons c t =>
    rw [h] at hm
    intro d hd
    rcases List.mem_cons.mp hd with rfl | hd
    · have hc : d ∈ getCDF ratOps lt (build raw) sps incl := by rw [h]; simp
      unfold getCDF at hc
      rcases List.mem_append.mp hc with h1 | h1
      · rcases List.mem_map.mp h1 with ⟨x, _, rfl⟩; exact ratio_nonneg _ _
      · simp only [List.mem_singleton] at h1; subst h1; simp [ratOps]
    · exact diffs_nonneg c t hm d hd

example : getCDF ratOps ltInt (build exRaw) [3, 5] true = [3 / 11, 10 / 11, 1] ∧
    (getPMF ratOps ltInt (build exRaw) [3, 5] true).sum = 1 := by
  refine ⟨?_, pmf_sum _ _ _ _⟩
  have h1 : rankNum ltInt (build exRaw) 3 true = 3 := by decide
  have h2 : rankNum ltInt (build exRaw) 5 true = 10 := by decide
  have h3 : (build exRaw).total = 11 := by decide
  simp [getCDF, getRankG, ratOps, h1, h2, h3]

/-- invalid split points are rejected: a NaN anywhere, or a pair that is not strictly increasing -/
theorem invalid_split_points_rejected {lt : α → α → Bool} (sw : StrictWeak lt) (isNaN : α → Bool) (sps : List α) :
    (∀ a ∈ sps, isNaN a = true → checkSplitPoints lt isNaN sps = false) ∧
    (checkSplitPoints lt isNaN sps = true → sps.Pairwise (fun a b => lt a b = true)) := by
  refine ⟨?_, ?_⟩
  · induction sps with
    | nil => intro a ha; simp at ha
    | cons x t ih =>
      intro a ha hn
      cases t with
      | nil => simp only [List.mem_singleton] at ha; subst ha; simp [checkSplitPoints, hn]
      | cons y t' =>
        rcases List.mem_cons.mp ha with rfl | ha
        · simp [checkSplitPoints, hn]
        · have := ih a ha hn
          simp only [checkSplitPoints, this, Bool.and_false]
  · induction sps with
    | nil => intro _; exact List.Pairwise.nil
    | cons x t ih =>
      intro hv
      cases t with
      | nil => exact List.pairwise_singleton _ _
      | cons y t' =>
        simp only [checkSplitPoints, Bool.and_eq_true] at hv
        have ih' := ih hv.2
        refine List.pairwise_cons.mpr ⟨?_, ih'⟩
        intro z hz
        rcases List.mem_cons.mp hz with rfl | hz
        · exact hv.1.2
        · exact sw_trans sw hv.1.2 ((List.pairwise_cons.mp ih').1 z hz)

example : checkSplitPoints ltInt (fun _ => false) [3, 5, 5] = false ∧ checkSplitPoints ltInt (fun _ => false) [3, 5, 9] = true := by
  decide

end DS.SortedView

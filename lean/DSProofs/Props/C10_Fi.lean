/-
C10 (frequent-items part) — the wire constants extracted from the CURRENT headers equal the documented values.

Documented contract (DataSketches family table; Java LongsSketch/ItemsSketch "Serialized sketch layout"): family id 10,
serial version 1, preamble longs 1 (empty) / 4 (non-empty), smallest map 2^3, flag bits 0 and 2 both set for an empty
sketch, epsilon factor 3.5.  Field order in the non-empty image (what a cross-language reader relies on):
num_items u32 @8 · total weight @16 · offset @24 · weights @32 · items — this order is part of `encode`/`decode`
(DSModel/Wire/Fi.lean) and is pinned against the code by the two-phase check (the documented reader must recover the
API's total weight and maximum error from the code's bytes) and by the committed baseline corpus (corpus/baseline/fi).
-/
import DSModel.Wire.FiGen
namespace DS.Wire.Fi

/-- every wire constant of the current headers has its documented value -/
theorem wire_consts_documented : generated = documented := by decide

/-- the documented bytes of a one-entry sketch (item 7 with weight 5, total weight 9, offset 4): total weight BEFORE offset -/
example : encode documented serdeU64 { lgMax := 4, lgCur := 3, body := some { totalWeight := 9, offset := 4, weights := [5], items := [7] } }
    = [4, 1, 10, 4, 3, 0, 0, 0,  1, 0, 0, 0, 0, 0, 0, 0,  9, 0, 0, 0, 0, 0, 0, 0,  4, 0, 0, 0, 0, 0, 0, 0,
       5, 0, 0, 0, 0, 0, 0, 0,  7, 0, 0, 0, 0, 0, 0, 0] := by decide
/-- the documented empty image: both empty bits set -/
example : encode documented serdeU64 { lgMax := 10, lgCur := 3, body := none } = [1, 1, 10, 10, 3, 5, 0, 0] := by decide

end DS.Wire.Fi

/-
C12 — instance of the parametric theorems for the tunables generated from the CURRENT headers (DSGen/Fi.lean).
Kept apart from Props/C12.lean so that a retuning that violates a side condition breaks exactly this obligation.
-/
import DSProofs.Props.C12
import DSGen.Fi
namespace DS.Fi

variable {ι : Type} [DecidableEq ι]

/-- the tunables as generated from the current headers (the model driver uses the same values) -/
def genTun : Tun :=
  { lfNum := DSGen.fi_LOAD_FACTOR_num, lfDen := DSGen.fi_LOAD_FACTOR_den, maxSample := DSGen.fi_MAX_SAMPLE_SIZE,
    epsNum := DSGen.fi_EPSILON_FACTOR_num, epsDen := DSGen.fi_EPSILON_FACTOR_den, lgMin := DSGen.fi_LG_MIN_MAP_SIZE,
    goldNum := DSGen.fi_GOLDEN_RATIO_RECIPROCAL_num, goldDen := DSGen.fi_GOLDEN_RATIO_RECIPROCAL_den,
    driftLimit := DSGen.fi_DRIFT_LIMIT }

/-- With the LOAD_FACTOR and EPSILON_FACTOR of the current headers (side condition EPSILON_FACTOR · LOAD_FACTOR ≥ 2 by
`decide`): maximum error ≤ EPSILON_FACTOR / 2^lg_max · total weight whenever every purge amount is at most the median. -/
theorem fi_epsilon_gen {s : St ι} (h : ReachMed genTun s) :
    s.offset * (genTun.epsDen * 2 ^ s.lgMax) ≤ genTun.epsNum * s.total :=
  fi_epsilon genTun h (by decide) (by decide)

example : ∃ s : St Nat, ReachMed genTun s ∧ s.total = 5 :=
  ⟨_, ReachP.upd 1 5 0 (ReachP.new 3 3 (by decide)) (by intro h; exact absurd h (by decide)), by decide⟩

/-- load invariant for the constants of the current headers (side condition `capacity(LG_MIN_MAP_SIZE) ≥ 1` by `decide`) -/
theorem fi_capacity_gen {b : Bool} {s : St ι} (h : ReachP genTun b (AmtDel genTun) s) :
    numActive s ≤ capacity genTun s.lgCur :=
  (fi_capacity genTun (by decide) h).1

example : ∃ s : St Nat, ReachP genTun false (AmtDel genTun) s ∧ s.total = 5 :=
  ⟨_, ReachP.upd 1 5 0 (ReachP.new 3 3 (by decide)) (by intro h; exact absurd h (by decide)), by decide⟩

end DS.Fi

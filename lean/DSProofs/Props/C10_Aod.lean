/-
C10 (array-of-doubles compact sketch images) — documented layout.  ONLY property theorems.
-/
import DSProofs.Lemmas.WireAod
import DSModel.Wire.GenConsts
namespace DS.Wire.Aod
open DS.Wire

/-- serial version 1, family 9, sketch type 3, flag bits (empty 2, has-entries 3, ordered 4), preamble-longs byte 1. -/
theorem wire_consts_documented :
    genAodConsts = documented ∧ DSGen.wao_flag_UNUSED1 = 0 ∧ DSGen.wao_flag_UNUSED2 = 1 ∧
    DSGen.wao_pre_stream = [1] ∧ DSGen.wao_pre_bytes = [1] := by decide

theorem documented_ok : documented.ok = true := by decide

end DS.Wire.Aod

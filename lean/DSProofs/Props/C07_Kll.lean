/-
C07, KLL part — the KLL sketch conserves weight, keeps exact extremes, stays within its space bound and answers
coherently.

Model: DSModel/Kll/Sketch.lean (= kll_sketch_impl.hpp / kll_helper_impl.hpp; tied to the headers by `./check c07kll`),
histories: DSModel/Kll/History.lean.  Every theorem is for
  * every parameter set `P` satisfying the decidable side conditions `ParamsOk` (discharged for the constants the
    translator takes from the current headers: `gen_params_ok`, `pow3_table_ok`),
  * every item type `α` and comparator `c.lt` that is a strict weak order (`StrictWeak`),
  * every history `ops` of constructions (any k), updates, merges (any tree, any operand states, unequal k), copies
    and `get_sorted_view` calls over any number of sketches,
  * every coin sequence `coins` (the model's `random_bit`),
and talks about every sketch `s` of the reached state `reach P c ops coins`; `truth P c ops []` is the list of
items each sketch has accepted (directly or through merges).  ONLY property theorems and examples live here
(helper lemmas: Lemmas/Kll*.lean).

Findings kept as witnesses: `weight_conserved_full_false` (the const_iterator as coded, D2).
Not a theorem here: `get_quantile(NaN)` is answered (finding `nan-rank-answered`); Lean cannot evaluate `Float`
comparisons in the kernel, the witness is replayed on the real code by the check's oracle instead.
-/
import DSProofs.Lemmas.KllView
import DSProofs.Props.C07_View
namespace DS.Kll
open DS DS.SortedView

variable {α : Type}

/-! ### the constants of the current headers satisfy the side conditions -/

theorem gen_params_side_conditions : ParamsOk genParams := gen_params_ok

/-- `powers_of_three[i] = 3^i` for the whole table (an edit of the table breaks this obligation) -/
theorem pow3_table_ok : genParams.pow3 = (List.range 31).map (3 ^ ·) ∧ genParams.m = 8 ∧ genParams.splitDepth = 30 := by
  decide

/-! ### example history used for non-vacuity: two k=8 sketches, 4 and 20 updates, then a merge (3 flips) -/

def exOps : List (Op Int) :=
  [.new 8, .new 8] ++ (List.range 4).map (fun (i : Nat) => Op.upd 0 (100 - (i : Int))) ++
  (List.range 20).map (fun (i : Nat) => Op.upd 1 (200 - (i : Int))) ++ [.merge 0 1]

/-- the same history followed by one more update of sketch 0 -/
def exOps2 : List (Op Int) := exOps ++ [.upd 0 150]

def noCoins : Coins := { bits := [] }

example : ((reach genParams intCmp exOps noCoins)[0]?.map (fun s => (s.n, s.retained, s.levels))) =
    some (24, 12, [[], [98, 100, 182, 184, 185, 187, 189, 191, 194, 196, 198, 200]]) := by decide +kernel

/-! ### n and the extremes -/

/-- n is the number of accepted items (NaN updates are not accepted; merged items count) -/
theorem n_exact {P : Params} (ok : ParamsOk P) {c : Cmp α} (sw : StrictWeak c.lt) (ops : List (Op α)) (coins : Coins)
    {i : Nat} {s : Sketch α} (h : (reach P c ops coins)[i]? = some s) :
    ∃ inp, (truth P c ops [])[i]? = some inp ∧ s.n = inp.length := by
  obtain ⟨_, inp, hi, ht⟩ := reach_get ok sw ops coins h
  exact ⟨inp, hi, ht.n_eq⟩

/-- min and max are exactly the extremes of the accepted items (absent iff nothing was accepted) -/
theorem minmax_exact {P : Params} (ok : ParamsOk P) {c : Cmp α} (sw : StrictWeak c.lt) (ops : List (Op α)) (coins : Coins)
    {i : Nat} {s : Sketch α} (h : (reach P c ops coins)[i]? = some s) :
    ∃ inp, (truth P c ops [])[i]? = some inp ∧ IsMin c.lt s.minItem inp ∧ IsMax c.lt s.maxItem inp := by
  obtain ⟨_, inp, hi, ht⟩ := reach_get ok sw ops coins h
  exact ⟨inp, hi, ht.min_ok, ht.max_ok⟩

example : ((reach genParams intCmp exOps noCoins)[0]?.map (fun s => (s.n, s.minItem, s.maxItem))) = some (24, some 97, some 200) ∧
    ((truth genParams intCmp exOps [])[0]?.map List.length) = some 24 := by decide +kernel

/-! ### weight conservation -/

/-- the levels conserve weight: Σ 2^h·|level h| = n (so `assert_correct_total_weight` never fires), every retained
item is an accepted item, and the iterator yields exactly `num_retained` pairs -/
theorem weight_conserved_levels {P : Params} (ok : ParamsOk P) {c : Cmp α} (sw : StrictWeak c.lt) (ops : List (Op α))
    (coins : Coins) {i : Nat} {s : Sketch α} (h : (reach P c ops coins)[i]? = some s) :
    weightSum 0 s.levels = s.n ∧ s.weightOk = true ∧ s.iter.length = s.retained ∧
    ∃ inp, (truth P c ops [])[i]? = some inp ∧ ∀ x ∈ s.levels.flatten, x ∈ inp := by
  obtain ⟨hi, inp, hti, ht⟩ := reach_get ok sw ops coins h
  exact ⟨hi.weight, by simp [Sketch.weightOk, hi.weight], iter_length s, inp, hti, ht.mem⟩

/-- the FULL statement of the property for the iterator: it yields num_retained pairs whose weights sum to n -/
def weight_conserved_full : Prop :=
  ∀ (α : Type) (P : Params), ParamsOk P → ∀ (c : Cmp α), StrictWeak c.lt → ∀ (ops : List (Op α)) (coins : Coins) (i : Nat) (s : Sketch α),
    (reach P c ops coins)[i]? = some s → s.iter.length = s.retained ∧ (s.iter.map Prod.snd).sum = s.n

/-- FALSE for the current code (defect D2): after the merge of `exOps` level 0 of sketch 0 is empty, the
const_iterator starts there with weight 1 and never advances its level: 12 items of weight 1 for n = 24.
The check replays this history on the real headers. -/
theorem weight_conserved_full_false : ¬ weight_conserved_full := by
  intro h
  have hs : ∃ s, (reach genParams intCmp exOps noCoins)[0]? = some s ∧ (s.iter.map Prod.snd).sum = 12 ∧ s.n = 24 := by
    decide +kernel
  obtain ⟨s, h1, h2, h3⟩ := hs
  have := (h Int genParams gen_params_ok intCmp intCmp_sw exOps noCoins 0 s h1).2
  omega

/-- what holds for the iterator as coded: the sum is n whenever level 0 is non-empty (in particular right after
any update) or the sketch is empty; with an empty level 0 every item is reported with weight 1 -/
theorem weight_conserved_partial {P : Params} (ok : ParamsOk P) {c : Cmp α} (sw : StrictWeak c.lt) (ops : List (Op α))
    (coins : Coins) {i : Nat} {s : Sketch α} (h : (reach P c ops coins)[i]? = some s) :
    s.iter.length = s.retained ∧
    (s.levels.headD [] ≠ [] → s.iter = weightedW 1 s.levels ∧ (s.iter.map Prod.snd).sum = s.n) ∧
    (s.levels.headD [] = [] → s.iter = s.levels.flatten.map (fun x => (x, 1))) := by
  obtain ⟨hi, _⟩ := reach_get ok sw ops coins h
  refine ⟨iter_length s, ?_, iter_of_level0_empty s⟩
  intro h0
  have := iter_of_level0_ne s h0
  refine ⟨this, ?_⟩
  rw [this, weightedW_sum, hi.weight]; omega

/-- right after an update of sketch i the iterator of sketch i is correct -/
theorem weight_conserved_after_update {P : Params} (ok : ParamsOk P) {c : Cmp α} (sw : StrictWeak c.lt) (ops : List (Op α))
    (coins : Coins) (i : Nat) (x : α) (hx : c.isNaN x = false) {s : Sketch α}
    (h : (reach P c (ops ++ [.upd i x]) coins)[i]? = some s) :
    (s.iter.map Prod.snd).sum = s.n := by
  have hlv : s.levels.headD [] ≠ [] := by
    -- the last step is an `internal_update`, which leaves level 0 non-empty
    have key : CT.All (fun st' => ∀ s', st'[i]? = some s' → s'.levels.headD [] ≠ []) (runT P c (ops ++ [.upd i x]) []) := by
      have hsplit : ∀ (o1 : List (Op α)) (st : List (Sketch α)), (∀ s ∈ st, InvS P c.lt s) →
          CT.All (fun st' => ∀ s', st'[i]? = some s' → s'.levels.headD [] ≠ []) (runT P c (o1 ++ [.upd i x]) st) := by
        intro o1
        induction o1 with
        | nil =>
          intro st hst
          simp only [List.nil_append, runT, stepT]
          cases hs : st[i]? with
          | none =>
            simp only [CT.bind_ret, runT, CT.All_ret]
            intro s' hs'; rw [hs] at hs'; exact absurd hs' (by simp)
          | some s0 =>
            simp only
            rw [CT.bind_ret_right]
            refine CT.All_map (P := fun s' => s'.levels.headD [] ≠ []) ?_ ?_
            · unfold updateT
              simp only [hx, Bool.false_eq_true, if_false]
              have h0 := hst s0 (List.mem_of_getElem? hs)
              refine CT.All.imp ?_ (internalUpdateT_inv ok sw (updateMinMax_inv h0 x) x)
              intro s' hs'
              have := hs'.2.2.2
              have hne := hs'.1.ne
              cases hl : s'.levels with
              | nil => exact absurd hl hne
              | cons a b => rw [hl] at this; simpa using this
            · intro s' hs' t ht
              have hlt : i < st.length := (List.getElem?_eq_some_iff.mp hs).1
              rw [List.getElem?_set_self hlt] at ht
              simp only [Option.some.injEq] at ht; subst ht; exact hs'
        | cons op o1 ih =>
          intro st hst
          simp only [List.cons_append, runT]
          exact CT.All_bind (stepT_inv ok sw hst op) (fun st' hst' => ih st' hst')
      exact hsplit ops [] (by simp)
    exact CT.All.run key coins s h
  exact ((weight_conserved_partial ok sw _ coins h).2.1 hlv).2

example : ((reach genParams intCmp exOps2 noCoins)[0]?.map (fun s => ((s.iter.map Prod.snd).sum, s.n))) = some (25, 25) := by
  decide +kernel

/-! ### space bound -/

/-- retained ≤ compute_total_capacity(k, m, numLevels) = items_size_, and numLevels ≤ ub_on_num_levels(n);
`find_level_to_compact` always finds a level on a full sketch ("capacity calculation error" is unreachable) -/
theorem retained_bound {P : Params} (ok : ParamsOk P) {c : Cmp α} (sw : StrictWeak c.lt) (ops : List (Op α)) (coins : Coins)
    {i : Nat} {s : Sketch α} (h : (reach P c ops coins)[i]? = some s) :
    s.retained ≤ computeTotalCapacity P s.k s.numLevels ∧ s.itemsSize = computeTotalCapacity P s.k s.numLevels ∧
    s.numLevels ≤ ubOnNumLevels s.n ∧ 1 ≤ s.numLevels ∧
    (s.full = true → findLevel P s.k s.numLevels s.levels 0 < s.numLevels) := by
  obtain ⟨hi, _⟩ := reach_get ok sw ops coins h
  refine ⟨by show sizeSum s.levels ≤ computeTotalCapacity P s.k s.levels.length; rw [← hi.cap]; exact hi.ret_le, hi.cap,
    numLevels_le_ub hi, List.length_pos_iff.mpr hi.ne, ?_⟩
  intro hf
  have hfull : sizeSum s.levels = s.itemsSize := by simpa [Sketch.full, Sketch.retained] using hf
  rcases Nat.lt_or_ge (findLevel P s.k s.levels.length s.levels 0) s.levels.length with h1 | h1
  · exact h1
  · exfalso
    have hle := findLevel_le P s.k s.levels.length s.levels 0
    have := findLevel_none P s.k s.levels.length s.levels 0 (by omega) hi.ne
    rw [← computeTotalCapacity_eq_capsFrom, ← hi.cap] at this
    omega

example : ((reach genParams intCmp exOps noCoins)[0]?.map (fun s => (s.retained, computeTotalCapacity genParams s.k s.numLevels,
    s.numLevels, ubOnNumLevels s.n))) = some (12, 16, 2, 5) := by decide +kernel

/-! ### sortedness -/

/-- every level above 0 is sorted (precondition of the view and of merges); level 0 is sorted when flagged so -/
theorem levels_sorted {P : Params} (ok : ParamsOk P) {c : Cmp α} (sw : StrictWeak c.lt) (ops : List (Op α)) (coins : Coins)
    {i : Nat} {s : Sketch α} (h : (reach P c ops coins)[i]? = some s) :
    (∀ j, 0 < j → Sorted c.lt (s.levels.getD j [])) ∧ (s.sorted0 = true → Sorted c.lt (s.levels.getD 0 [])) := by
  obtain ⟨hi, _⟩ := reach_get ok sw ops coins h
  exact ⟨hi.sorted, hi.sorted0⟩

/-! ### the sorted view of a sketch -/

/-- `get_sorted_view`: sorted, total weight n, and rank(x) = weight of the retained items below x -/
theorem view_of_sketch {P : Params} (ok : ParamsOk P) {c : Cmp α} (sw : StrictWeak c.lt) (ops : List (Op α)) (coins : Coins)
    {i : Nat} {s : Sketch α} (h : (reach P c ops coins)[i]? = some s) :
    SortedE c.lt (viewRaw c.lt (sortLevelZero c s).levels 0 []) ∧ (getSortedView c s).2.total = s.n ∧
    ∀ x incl, rankNum c.lt (getSortedView c s).2 x incl = Mech.wb (isBelow c.lt x incl) 0 s.levels := by
  obtain ⟨hi, _⟩ := reach_get ok sw ops coins h
  exact view_props sw hi

example : ((reach genParams intCmp exOps noCoins)[0]?.map (fun s => ((getSortedView intCmp s).2.total,
    rankNum intCmp.lt (getSortedView intCmp s).2 150 true))) = some (24, 4) := by decide +kernel

/-! ### exact mode -/

/-- while nothing has been compacted (one level) the retained items are exactly the accepted items, so every rank
numerator is the true count of accepted items `≤ x` resp. `< x`, and (by `quantile_rank_dual`) every quantile is
the true quantile: for the inclusive criterion `#{a < q} < w ≤ #{a ≤ q}`, for the exclusive `#{a < q} ≤ w < #{a ≤ q}` -/
theorem exact_mode_exact {P : Params} (ok : ParamsOk P) {c : Cmp α} (sw : StrictWeak c.lt) (ops : List (Op α)) (coins : Coins)
    {i : Nat} {s : Sketch α} (h : (reach P c ops coins)[i]? = some s) (hex : s.numLevels = 1) :
    ∃ inp, (truth P c ops [])[i]? = some inp ∧ (s.levels.headD []).Perm inp ∧
    (∀ x incl, rankNum c.lt (getSortedView c s).2 x incl = (inp.filter (isBelow c.lt x incl)).length) ∧
    (∀ w q, 1 ≤ w → w ≤ inp.length → quantileAt (getSortedView c s).2 w true = some q →
        w ≤ (inp.filter (isBelow c.lt q true)).length ∧ (inp.filter (isBelow c.lt q false)).length < w) ∧
    (∀ w q, w < inp.length → quantileAt (getSortedView c s).2 w false = some q →
        w < (inp.filter (isBelow c.lt q true)).length ∧ (inp.filter (isBelow c.lt q false)).length ≤ w) := by
  obtain ⟨hi, inp, hti, ht⟩ := reach_get ok sw ops coins h
  obtain ⟨hsrt, htot, hrank⟩ := view_props sw hi
  have hr : ∀ x incl, rankNum c.lt (getSortedView c s).2 x incl = (inp.filter (isBelow c.lt x incl)).length := by
    intro x incl; rw [hrank, exact_wb ht hex]
  have htot' : (getSortedView c s).2.total = inp.length := by rw [htot, ht.n_eq]
  refine ⟨inp, hti, ht.exact hex, hr, ?_, ?_⟩
  · intro w q h1 h2 hq
    have := (quantile_rank_dual sw _ hsrt w q).1 h1 (by
      have : (build (viewRaw c.lt (sortLevelZero c s).levels 0 [])).total = inp.length := htot'
      omega) hq
    have e1 := hr q true; have e2 := hr q false
    simp only [getSortedView, viewOf] at e1 e2
    omega
  · intro w q h2 hq
    have := (quantile_rank_dual sw _ hsrt w q).2 (by
      have : (build (viewRaw c.lt (sortLevelZero c s).levels 0 [])).total = inp.length := htot'
      omega) hq
    have e1 := hr q true; have e2 := hr q false
    simp only [getSortedView, viewOf] at e1 e2
    omega

/-- instance: 7 updates into a k=8 sketch: exact; rank(4) inclusive = 4 of 7, median = 4 -/
example : let ops : List (Op Int) := .new 8 :: (List.range 7).map (fun (i : Nat) => Op.upd 0 ((7 - i : Nat) : Int))
    ((reach genParams intCmp ops noCoins)[0]?.map (fun s => (s.numLevels, rankNum intCmp.lt (getSortedView intCmp s).2 4 true,
      quantileAt (getSortedView intCmp s).2 4 true))) = some (1, 4, some 4) := by decide +kernel

/-! ### invalid queries and inputs -/

/-- empty-sketch queries, ranks outside [0,1] and invalid split points are rejected (`none` = the C++ throws);
NaN updates are ignored -/
theorem invalid_rejected (P : Params) (c : Cmp α) (s : Sketch α) :
    (s.n = 0 → (∀ x incl, getRank c s x incl = none) ∧ (∀ r incl, getQuantile c s r incl = none) ∧
                (∀ sps incl, getCDF c s sps incl = none ∧ getPMF c s sps incl = none)) ∧
    (∀ r incl, (r < 0.0 || r > 1.0) = true → getQuantile c s r incl = none) ∧
    (∀ sps incl, checkSplitPoints c.lt c.isNaN sps = false → getCDF c s sps incl = none ∧ getPMF c s sps incl = none) ∧
    (∀ x, c.isNaN x = true → updateT P c s x = CT.ret s) := by
  refine ⟨?_, ?_, ?_, ?_⟩
  · intro h0
    refine ⟨fun x incl => by simp [getRank, h0], fun r incl => by simp [getQuantile, h0], fun sps incl => by simp [getCDF, getPMF, h0]⟩
  · intro r incl hr
    unfold getQuantile
    split
    · rfl
    · simp only [hr, if_true]
  · intro sps incl hv
    unfold getCDF getPMF
    constructor <;> (split; rfl; simp [hv])
  · intro x hx; simp [updateT, hx]

end DS.Kll

/-
C09 (compact theta sketch images) — serialization round trip.

ONLY property theorems and their non-vacuity examples (helper lemmas: Lemmas/WireTheta*.lean, Lemmas/BitPack*.lean).
Model: DSModel/Wire/Theta.lean — specification writer `encode` / `encodeV4` and reader `decode` of the documented
layouts, parametric in the wire constants `c` (instantiated from the CURRENT headers by the driver; pinned to the
documented values by C10).  Tied to theta_sketch_impl.hpp / compact_theta_sketch_parser_impl.hpp by `./check c09_theta`
(every image the real sketches write is decoded by `decode`, re-encoded, compared).

All statements are for every set of constants satisfying the decidable side condition `c.ok`, every well-formed image
state `s` (any number of entries, any theta, any seed hash), every expected seed hash and every byte tail.
-/
import DSProofs.Lemmas.WireThetaLegacy
import DSProofs.Lemmas.WireThetaBounded
import DSProofs.Gen.BitPack
import DSProofs.Lemmas.WireThetaV4IR
namespace DS.Wire.Theta
open DS.Wire

/-- uncompressed (serial version 3): the reader inverts the writer and consumes exactly the image. -/
theorem decode_encode (c : Consts) (hc : c.ok = true) (s : Image) (hwf : WF s) (exp : Nat)
    (hseed : s.isEmpty = true ∨ s.seedHash = exp) (tail : Bytes) :
    decode c exp (encode c s ++ tail) = some (s, tail) :=
  decode_encode_v3 (COk.of_ok hc) s hwf exp hseed tail

example : WF ⟨false, false, 37836, 4611686018427387904, [2206043092153046979, 405753591161026837, 3]⟩ := by decide
example : WF ⟨true, true, 0, maxTheta, []⟩ := by decide

/-- the image has exactly the advertised size `8·preamble_longs + 8·entries` (`get_serialized_size_bytes`). -/
theorem size_eq (c : Consts) (s : Image) : (encode c s).length = serializedSize s := length_encode c s

/-- `get_max_serialized_size_bytes(lg_k)` bounds every image with at most `capacity(lg_k)` entries. -/
theorem size_le_max (s : Image) (rbdNum rbdDen lgK : Nat) (hn : s.entries.length ≤ 2 ^ (lgK + 1) * rbdNum / rbdDen) :
    serializedSize s ≤ maxSerializedSize rbdNum rbdDen lgK := by
  unfold serializedSize maxSerializedSize
  have := preLongs_le3 s
  omega

/-- re-serialization of what was read gives the same bytes (well-formed images are in bijection with their encodings). -/
theorem encode_decode (c : Consts) (hc : c.ok = true) (s : Image) (hwf : WF s) (exp : Nat)
    (hseed : s.isEmpty = true ∨ s.seedHash = exp) (tail : Bytes) :
    (decode c exp (encode c s ++ tail)).map (fun p => encode c p.1) = some (encode c s) := by
  rw [decode_encode c hc s hwf exp hseed tail]; rfl

/-- **compressed format** (serial version 4): bit packing (`unpackFields_packFields`, whose block-of-8 instances are the
translated routines by `bitpack_layouts_ok` + `Lemmas/BitPackSound.lean`) + the delta-sum lemma + entry-width adequacy. -/
theorem theta_v4_roundtrip (c : Consts) (hc : c.ok = true) (s : Image) (h4 : WFv4 s) (exp : Nat) (hseed : s.seedHash = exp) (tail : Bytes) :
    decode c exp (encodeV4 c s ++ tail) = some (s, tail) :=
  decodeV4_encode (COk.of_ok hc) s h4 exp hseed tail

example : WFv4 ⟨false, true, 37836, maxTheta, [405753591161026837, 2206043092153046979, 6730918654704304314]⟩ := by decide
example : entryBits [405753591161026837, 2206043092153046979, 6730918654704304314] = 62 := by decide

theorem size_eq_v4 (c : Consts) (s : Image) : (encodeV4 c s).length = serializedSizeV4 s := length_encodeV4 c s

/-- the compressed image is never larger than the uncompressed one (so `get_max_serialized_size_bytes` bounds both). -/
theorem size_v4_le (s : Image) (h4 : WFv4 s) : serializedSizeV4 s ≤ serializedSize s := by
  obtain ⟨hwf, hsuit, hasc, h63⟩ := h4
  obtain ⟨_, hemp, hne⟩ := suitable_facts s hwf hsuit
  have heb := entryBits_le_63 s.entries h63
  have hneb := numEntriesBytes_le_4 _ hwf.2.2.2.1
  have hn : 1 ≤ s.entries.length := by
    cases h : s.entries with
    | nil => exact absurd h hne
    | cons a t => simp
  have hmul : entryBits s.entries * s.entries.length ≤ 63 * s.entries.length := Nat.mul_le_mul_right _ heb
  have hbytes : BitPack.bytesForBits (entryBits s.entries * s.entries.length) ≤ 8 * s.entries.length := by
    unfold BitPack.bytesForBits; omega
  unfold serializedSizeV4 serializedSize preLongs
  by_cases hest : s.estMode = true
  · simp only [hest, ↓reduceIte]; omega
  · have hest' : s.estMode = false := by simpa using hest
    simp only [suitable, Bool.and_eq_true, bne_iff_ne, ne_eq, Bool.not_eq_true', Bool.and_eq_false_imp, beq_iff_eq, hest', Bool.not_false] at hsuit
    have h1 : s.entries.length ≠ 1 := by
      intro h; have := hsuit.2 h; simp at this
    simp only [hest', Bool.false_eq_true, ↓reduceIte, hemp, Bool.false_or, beq_iff_eq, h1]
    omega

/-- the delta-sum lemma. -/
theorem delta_sum (es : List Nat) (hasc : ascFrom 0 es) (hlt : ∀ e ∈ es, e < 2 ^ 64) : undelta 0 (deltas 0 es) = es :=
  undelta_deltas 0 es hasc hlt

/-- entry-bits adequacy: every delta fits into `compute_entry_bits` bits, and that width is in 1..63. -/
theorem entry_bits_adequate (es : List Nat) (hne : es ≠ []) (hasc : ascFrom 0 es) (h63 : ∀ e ∈ es, e < 2 ^ 63) :
    (∀ d ∈ deltas 0 es, d < 2 ^ entryBits es) ∧ 1 ≤ entryBits es ∧ entryBits es ≤ 63 :=
  ⟨deltas_lt_entryBits es, entryBits_pos es hne hasc, entryBits_le_63 es h63⟩

/-- `serialize_compressed`: compressed when suitable, uncompressed otherwise; either way the reader inverts it. -/
theorem compressed_roundtrip (c : Consts) (hc : c.ok = true) (s : Image) (hwf : WF s) (h4 : suitable s = true → WFv4 s) (exp : Nat)
    (hseed : s.isEmpty = true ∨ s.seedHash = exp) (tail : Bytes) :
    decode c exp (encodeCompressed c s ++ tail) = some (s, tail) := by
  unfold encodeCompressed
  by_cases hs : suitable s = true
  · have hne := (suitable_facts s hwf hs).2.1
    have : s.seedHash = exp := by
      rcases hseed with h | h
      · rw [hne] at h; exact absurd h (by simp)
      · exact h
    simp only [hs, ↓reduceIte]
    exact theta_v4_roundtrip c hc s (h4 hs) exp this tail
  · simp only [hs, Bool.false_eq_true, ↓reduceIte]
    exact decode_encode c hc s hwf exp hseed tail

/-! ### the compressed format over the routines translated from bit_packing.hpp -/

/-- every translated block routine pair (through the translated `switch` dispatchers) round-trips all inputs: for every
width n = 1..63 and all 8 values below 2^n, `pack_bits_block8` into a zero-filled block followed by
`unpack_bits_block8` returns the values, and the bytes in between are the documented MSB-first layout.
(Lifted from the kernel-evaluated `bitpack_layouts_ok` by the soundness lemma of the symbolic evaluator.) -/
theorem bitpack_roundtrip (n : Nat) (h1 : 1 ≤ n) (h63 : n ≤ 63) (vals : List Nat) (h8 : vals.length = 8) (hv : ∀ v ∈ vals, v < 2 ^ n) :
    BitPack.irPack8 n vals = BitPack.packFields n vals ∧ BitPack.irUnpack8 n (BitPack.irPack8 n vals) = vals := by
  have hp := BitPack.irPack8_eq n h1 h63 vals h8 hv
  refine ⟨hp, ?_⟩
  rw [hp, BitPack.irUnpack8_eq n h1 h63 _ (by rw [BitPack.length_packFields, h8]; unfold BitPack.bytesForBits; omega)]
  have := BitPack.unpackFields_packFields n vals hv
  rw [h8] at this
  exact this

example : BitPack.irPack8 3 [1, 2, 3, 4, 5, 6, 7, 0] = [0x29, 0xcb, 0xb8] := by decide

/-- the writer that packs whole blocks of 8 deltas with the TRANSLATED routines (and the tail as a bit stream, as the scalar
`pack_bits` does) produces exactly the specification image, so `theta_v4_roundtrip` holds for it. -/
theorem encodeV4_over_translated_routines (c : Consts) (s : Image) (h4 : WFv4 s) : encodeV4IR c s = encodeV4 c s :=
  encodeV4IR_eq c s h4

/-- wrapped read-only access and `deserialize(bytes)`: both decode the packed area block by block with
`unpack_bits_block8` and finish with the scalar tail, undoing the deltas as they go; on EVERY input that is the same
function as the whole-stream specification reader (hence wrapped iteration = deserialization = `decode`). -/
theorem wrapped_iter_eq_deserialize (exp pre : Nat) (b : Bytes) : decodeV4IR exp pre b = decodeV4 exp pre b :=
  decodeV4IR_eq exp pre b

end DS.Wire.Theta

import DSModel.Wire.Theta
namespace DS.Wire.Theta
theorem placeholder : True := trivial
end DS.Wire.Theta

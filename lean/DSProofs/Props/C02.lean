/-
C02 — Theta set operations return the exact set expression over the hash samples.

ONLY property theorems and non-vacuity examples (helper lemmas: Lemmas/ThetaUnion*.lean, ThetaInter.lean,
ThetaSetOps.lean).  Model: DSModel/Theta/SetOps.lean, tied to theta_union_base_impl.hpp,
theta_intersection_base_impl.hpp, theta_set_difference_base_impl.hpp by `./check C02`.

Operands are arbitrary well-formed sketches `WFop` (entries distinct and below the sketch's theta, ordered ⇒
sorted, empty ⇒ no entries) in ANY physical form — every form abstracts to `Compact σ`.  All statements hold
for every configuration (lg_k, resize factor, p, thresholds), every payload type `σ` with any combining policy
(σ = Unit is the Theta sketch; C13 reuses them for Tuple) and every finite sequence of operands.
-/
import DSProofs.Lemmas.ThetaSetOps
namespace DS.Theta

variable {σ : Type}

/-- **Union result.**  After feeding any sequence of well-formed sketches to a union (from its initial state),
`get_result` is characterised by: entries strictly sorted (hence distinct); an entry is retained iff it was
retained by some non-empty input and is below the result theta; at most k = 2^lgNom entries; the result theta
is at most θ* = min(starting theta, thetas of the non-empty inputs), and it is strictly below θ* only when
exactly k entries are kept and the theta itself is one of the offered hashes — i.e. the (k+1)-th smallest
surviving hash (see `C02_union_result_unique`: these facts determine the result).  The result is empty iff
every input was empty. -/
theorem C02_union_result_spec (c : Cfg) (pol : σ → σ → σ) (sh : Nat) (sks : List (Compact σ))
    (hw : ∀ sk, sk ∈ sks → WFop sk) (u : Union σ) (hu : unionFold c pol sh (unionInit c) sks = some u)
    (ord : Bool) :
    (allEmpty sks = false →
      ResultSpec (offered sks) (thetaStar c.theta0 sks) (2^c.lgNom)
        (unionResult c u ord sh).theta (keys (unionResult c u ord sh).ents) ∧
      (unionResult c u ord sh).isEmpty = false) ∧
    (allEmpty sks = true → (unionResult c u ord sh).isEmpty = true ∧ (unionResult c u ord sh).ents = []) := by
  have hf := ustate_fold c pol sh sks [] c.theta0 (unionInit c) u (ustate_init c) hw hu
  have hemp : u.tbl.isEmpty = allEmpty sks := by rw [hf.2]; simp [unionInit, init]
  constructor
  · intro hne
    have := union_result_char c (offered sks) (thetaStar c.theta0 sks) u ord sh (by simpa using hf.1) (by rw [hemp, hne])
    exact this
  · intro he
    unfold unionResult
    simp [hemp, he]

/-- The characterisation determines the result: it depends only on the SET of offered hashes, θ* and k. -/
theorem C02_union_result_unique (S1 S2 : List Nat) (θs k t1 t2 : Nat) (l1 l2 : List Nat)
    (hS : ∀ x, x ∈ S1 ↔ x ∈ S2) (h1 : ResultSpec S1 θs k t1 l1) (h2 : ResultSpec S2 θs k t2 l2) :
    t1 = t2 ∧ l1 = l2 :=
  resultSpec_unique S1 S2 θs k t1 t2 l1 l2 hS h1 h2

/-- **Order independence.**  Presenting the same sketches in any other order gives the same theta, the same
retained hashes and the same emptiness (and the union accepts one order iff it accepts the other). -/
theorem C02_union_perm_invariant (c : Cfg) (pol : σ → σ → σ) (sh : Nat) (sks sks' : List (Compact σ))
    (hp : sks.Perm sks') (hw : ∀ sk, sk ∈ sks → WFop sk) (u : Union σ)
    (hu : unionFold c pol sh (unionInit c) sks = some u) (ord : Bool) :
    ∃ u', unionFold c pol sh (unionInit c) sks' = some u' ∧
      (unionResult c u' ord sh).theta = (unionResult c u ord sh).theta ∧
      keys (unionResult c u' ord sh).ents = keys (unionResult c u ord sh).ents ∧
      (unionResult c u' ord sh).isEmpty = (unionResult c u ord sh).isEmpty := by
  have hw' : ∀ sk, sk ∈ sks' → WFop sk := fun sk hs => hw sk (hp.mem_iff.2 hs)
  have hok : ∀ sk, sk ∈ sks' → sk.isEmpty = true ∨ sk.seedHash = sh := by
    have := (unionFold_isSome c pol sh sks (unionInit c)).1 ⟨u, hu⟩
    intro sk hs; exact this sk (hp.mem_iff.2 hs)
  obtain ⟨u', hu'⟩ := (unionFold_isSome c pol sh sks' (unionInit c)).2 hok
  refine ⟨u', hu', ?_⟩
  have r1 := C02_union_result_spec c pol sh sks hw u hu ord
  have r2 := C02_union_result_spec c pol sh sks' hw' u' hu' ord
  have hae := allEmpty_perm sks sks' hp
  cases hb : allEmpty sks with
  | true =>
    have a := r1.2 hb
    have b := r2.2 (by rw [← hae]; exact hb)
    -- both results are the empty result of an untouched union
    have e1 : u.tbl.isEmpty = true := by
      have := (ustate_fold c pol sh sks [] c.theta0 (unionInit c) u (ustate_init c) hw hu).2
      rw [this, hb]; simp [unionInit, init]
    have e2 : u'.tbl.isEmpty = true := by
      have := (ustate_fold c pol sh sks' [] c.theta0 (unionInit c) u' (ustate_init c) hw' hu').2
      rw [this, ← hae, hb]; simp [unionInit, init]
    have t1 := (ustate_fold c pol sh sks [] c.theta0 (unionInit c) u (ustate_init c) hw hu).1
    have t2 := (ustate_fold c pol sh sks' [] c.theta0 (unionInit c) u' (ustate_init c) hw' hu').1
    refine ⟨?_, by rw [a.2, b.2], by rw [a.1, b.1]⟩
    -- theta of an empty result is union_theta_ = min θ* T with T = theta0 (nothing inserted) ... both equal θ*
    unfold unionResult
    simp only [e1, e2, if_true]
    have hs1 := thetaStar_perm c.theta0 sks sks' hp
    have u1 := t1.uth; have u2 := t2.uth
    have i1 := t1.inv.t_mem; have i2 := t2.inv.t_mem
    -- no non-empty input: nothing was offered, so the table theta is still the starting theta
    have o1 : offered sks = [] := by
      apply List.eq_nil_iff_forall_not_mem.2
      intro x hx
      obtain ⟨sk, h1, h2, _⟩ := (mem_offered sks x).1 hx
      have := (allEmpty_iff sks).1 hb sk h1
      rw [this] at h2; cases h2
    have o2 : offered sks' = [] := by
      apply List.eq_nil_iff_forall_not_mem.2
      intro x hx
      obtain ⟨sk, h1, h2, _⟩ := (mem_offered sks' x).1 hx
      have := (allEmpty_iff sks').1 (by rw [← hae]; exact hb) sk h1
      rw [this] at h2; cases h2
    simp only [List.nil_append, o1, List.not_mem_nil, or_false] at i1
    simp only [List.nil_append, o2, List.not_mem_nil, or_false] at i2
    have l1 := t1.ths; have l2 := t2.ths
    omega
  | false =>
    have a := r1.1 hb
    have b := r2.1 (by rw [← hae]; exact hb)
    have hS : ∀ x, x ∈ offered sks' ↔ x ∈ offered sks := by
      intro x
      rw [mem_offered, mem_offered]
      constructor
      · rintro ⟨sk, h1, h2⟩; exact ⟨sk, hp.mem_iff.2 h1, h2⟩
      · rintro ⟨sk, h1, h2⟩; exact ⟨sk, hp.mem_iff.1 h1, h2⟩
    have hb1 := b.1
    rw [← thetaStar_perm c.theta0 sks sks' hp] at hb1
    have := resultSpec_unique _ _ _ _ _ _ _ _ hS hb1 a.1
    exact ⟨this.1, this.2, by rw [a.2, b.2]⟩

/-- A non-empty operand built with another seed is refused (and an empty one is skipped without a check). -/
theorem C02_union_seed_mismatch_refused (c : Cfg) (pol : σ → σ → σ) (sh : Nat) (u : Union σ) (sk : Compact σ) :
    (sk.isEmpty = false → sk.seedHash ≠ sh → unionUpdate c pol sh u sk = none) ∧
    (sk.isEmpty = true → unionUpdate c pol sh u sk = some u) :=
  ⟨unionUpdate_mismatch c pol sh u sk, unionUpdate_empty c pol sh u sk⟩

/-- **Intersection result.**  After any non-empty sequence of well-formed sketches, the intersection has a
result; if it is not flagged empty, its theta is the minimum input theta and it retains exactly the hashes
retained by EVERY input that are below that theta; if it is flagged empty, it has no entries, theta is the
maximum, and indeed no hash is retained by every input (the empty set is exact).  Before the first update
`get_result` is refused. -/
theorem C02_inter_result_spec (pol : σ → σ → σ) (sh : Nat) (sks : List (Compact σ))
    (hw : ∀ sk, sk ∈ sks → WFop sk) (i : Inter σ) (hi : interFold pol sh interInit sks = some i) :
    (i.valid = true ↔ sks ≠ []) ∧
    (keys i.ents).Pairwise (· < ·) ∧
    (sks ≠ [] → i.isEmpty = false →
      i.theta = minTheta sks ∧ ∀ x, x ∈ keys i.ents ↔ ((∀ sk, sk ∈ sks → x ∈ keys sk.ents) ∧ x < i.theta)) ∧
    (i.isEmpty = true → i.ents = [] ∧ i.theta = MAX_THETA ∧ ∀ x, ¬ (∀ sk, sk ∈ sks → x ∈ keys sk.ents)) ∧
    (sks = [] → ∀ ord, interResult i ord sh = none) := by
  have h := iinv_fold pol sh sks [] interInit i iinv_init (fun s hs => by simp at hs) hw hi
  simp only [List.nil_append] at h
  refine ⟨h.valid_iff, h.sorted, h.ne, ?_, ?_⟩
  · intro he
    have := h.em he
    exact ⟨this.1, this.2.1, this.2.2.2⟩
  · intro hnil ord
    have hv : i.valid = false := by
      cases hv : i.valid with
      | false => rfl
      | true => exact absurd hnil ((h.valid_iff).1 hv)
    simp [interResult, hv]

/-- An input that is empty makes the intersection exactly empty, whatever else is presented. -/
theorem C02_inter_empty_input (pol : σ → σ → σ) (sh : Nat) (sks : List (Compact σ))
    (hw : ∀ sk, sk ∈ sks → WFop sk) (i : Inter σ) (hi : interFold pol sh interInit sks = some i)
    (sk : Compact σ) (hm : sk ∈ sks) (he : sk.isEmpty = true) : i.isEmpty = true := by
  have h := iinv_fold pol sh sks [] interInit i iinv_init (fun s hs => by simp at hs) hw hi
  simp only [List.nil_append] at h
  cases hb : i.isEmpty with
  | true => rfl
  | false =>
    have hne : sks ≠ [] := by intro hc; rw [hc] at hm; simp at hm
    have := (h.ne hne hb)
    -- a non-empty intersection would have theta = min ≤ ... and every member in sk.ents = []
    -- contradiction is not forced by entries alone, so use the model directly: the empty input flips the flag
    exfalso
    -- replay: prove by induction that once an empty operand is processed the flag is set and stays set
    have key : ∀ (l : List (Compact σ)) (j j' : Inter σ), interFold pol sh j l = some j' → j.isEmpty = true → j'.isEmpty = true := by
      intro l
      induction l with
      | nil => intro j j' hf hj; simp only [interFold, Option.some.injEq] at hf; subst hf; exact hj
      | cons a t ih =>
        intro j j' hf hj
        simp only [interFold] at hf
        have : interUpdate pol sh j a = some j := by simp [interUpdate, hj]
        rw [this] at hf
        exact ih j j' hf hj
    have key2 : ∀ (l : List (Compact σ)) (j j' : Inter σ), interFold pol sh j l = some j' → sk ∈ l → j'.isEmpty = true := by
      intro l
      induction l with
      | nil => intro j j' _ hm'; simp at hm'
      | cons a t ih =>
        intro j j' hf hm'
        simp only [interFold] at hf
        cases hup : interUpdate pol sh j a with
        | none => simp [hup] at hf
        | some j1 =>
          simp only [hup] at hf
          simp only [List.mem_cons] at hm'
          rcases hm' with rfl | hm'
          · -- processing the empty operand sets the flag (or it was set already)
            have hj1 : j1.isEmpty = true := by
              unfold interUpdate at hup
              by_cases hj : j.isEmpty = true
              · simp only [hj, if_true, Option.some.injEq] at hup; subst hup; exact hj
              · have hj' : j.isEmpty = false := by simpa using hj
                have hnil := (hw sk hm).empty_nil he
                simp only [hj', Bool.false_eq_true, if_false, he, Bool.not_true, Bool.false_and, if_true, hnil,
                  List.isEmpty_nil] at hup
                split at hup
                · simp only [Option.some.injEq] at hup; subst hup; rfl
                · simp only [if_true, Option.some.injEq] at hup; subst hup; rfl
            exact key t j1 j' hf hj1
          · exact ih j1 j' hf hm'
    have := key2 sks interInit i hi hm
    rw [hb] at this; cases this

/-- **A-not-B.**  The two documented short-circuits return A itself; otherwise theta is the minimum of the two
thetas, the entries are exactly A's entries below that theta that B does not retain (with A's payloads),
the result is empty iff nothing is left and theta is the maximum, and mismatching seeds are refused. -/
theorem C02_anotb_spec (sh : Nat) (a b : Compact σ) (ord : Bool) :
    ((a.isEmpty = true ∨ (a.ents ≠ [] ∧ b.isEmpty = true)) → aNotB sh a b ord = some (compactOfCompact a ord)) ∧
    (¬ (a.isEmpty = true ∨ (a.ents ≠ [] ∧ b.isEmpty = true)) →
      ((a.seedHash ≠ sh ∨ b.seedHash ≠ sh) → aNotB sh a b ord = none) ∧
      (a.seedHash = sh → b.seedHash = sh → ∃ r, aNotB sh a b ord = some r ∧
        r.theta = min a.theta b.theta ∧
        r.ents = a.ents.filter (fun e => decide (e.1 < min a.theta b.theta) && !((keys b.ents).contains e.1)) ∧
        (r.isEmpty = true ↔ (r.ents = [] ∧ min a.theta b.theta = MAX_THETA)) ∧
        (r.ordered = true ↔ (a.ordered = true ∨ ord = true ∨ r.ents.length ≤ 1)))) := by
  constructor
  · intro h
    unfold aNotB
    have : (a.isEmpty || (!a.ents.isEmpty && b.isEmpty)) = true := by
      rcases h with h | ⟨h1, h2⟩
      · simp [h]
      · have : a.ents.isEmpty = false := by cases hh : a.ents with | nil => exact absurd hh h1 | cons _ _ => rfl
        simp [this, h2]
    simp [this]
  · intro h
    have hcond : (a.isEmpty || (!a.ents.isEmpty && b.isEmpty)) = false := by
      cases ha : a.isEmpty with
      | true => exact absurd (Or.inl ha) h
      | false =>
        cases hb : b.isEmpty with
        | false => simp
        | true =>
          cases he : a.ents with
          | nil => simp
          | cons x t => exact absurd (Or.inr ⟨by simp [he], hb⟩) h
    constructor
    · intro hs
      unfold aNotB
      simp only [hcond, Bool.false_eq_true, if_false]
      rcases hs with hs | hs <;> simp [hs]
    · intro h1 h2
      have hsd : (decide (a.seedHash ≠ sh) || decide (b.seedHash ≠ sh)) = false := by simp [h1, h2]
      unfold aNotB
      simp only [hcond, hsd, Bool.false_eq_true, if_false]
      refine ⟨_, rfl, rfl, rfl, ?_, ?_⟩
      · simp [List.isEmpty_iff]
      · simp [Bool.or_eq_true, or_assoc]

/-! ### Non-vacuity: concrete operands (one in estimation mode, overlapping) through a k = 2 union,
an intersection and A-not-B. -/
def exA : Compact Unit := { theta := 90, ents := [(10, ()), (30, ()), (50, ())], isEmpty := false, ordered := true, seedHash := 7 }
def exB : Compact Unit := { theta := MAX_THETA, ents := [(50, ()), (20, ()), (95, ())], isEmpty := false, ordered := false, seedHash := 7 }
def exE : Compact Unit := { theta := MAX_THETA, ents := [], isEmpty := true, ordered := true, seedHash := 9 }
def exC : Cfg := { lgNom := 1, lgRf := 0, theta0 := MAX_THETA, lgStart := 2 }
def exPol : Unit → Unit → Unit := fun _ _ => ()

example : (unionFold exC exPol 7 (unionInit exC) [exA, exE, exB]).map (fun u => ((unionResult exC u true 7).theta, keys (unionResult exC u true 7).ents))
    = some (30, [10, 20]) := by decide
example : (unionFold exC exPol 7 (unionInit exC) [exB, exA, exE]).map (fun u => ((unionResult exC u true 7).theta, keys (unionResult exC u true 7).ents))
    = some (30, [10, 20]) := by decide
example : (interFold exPol 7 interInit [exA, exB]).map (fun i => (i.theta, keys i.ents, i.isEmpty)) = some (90, [50], false) := by decide
example : (aNotB 7 exA exB true).map (fun r => (r.theta, keys r.ents)) = some (90, [10, 30]) := by decide
example : WFop exA ∧ WFop exB := by
  refine ⟨⟨by decide, by decide, by decide, by decide, by decide⟩, ⟨by decide, by decide, by decide, by decide, by decide⟩⟩

end DS.Theta

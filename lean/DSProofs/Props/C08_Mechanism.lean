/-
C08 (mechanism part) — the compaction mechanism of the coin-driven quantile sketches is unbiased.

ONLY property theorems and their non-vacuity examples live here (helper lemmas: Lemmas/KllBasic.lean,
Lemmas/KllMech.lean).  Model: DSModel/Kll/Mech.lean — a list of levels `L` (index = height, an item in
level `h` has weight 2^h) is driven by a schedule `ops` of micro-operations:
  `add x`            puts an item into level 0,
  `compact i srt up` compacts level `i` with one fresh fair coin: the odd leftover (first item) stays at
                     level `i`, the even-length rest is optionally sorted (`srt`), one half of it
                     (`up`: randomly_halve_up, else randomly_halve_down; the coin picks evens or odds)
                     is merged into level `i+1` (created when `i` is the top level), the other half is
                     discarded.
The schedule (WHICH level is compacted WHEN) is arbitrary here, so the statements cover
`compress_while_updating`, `general_compress` (merge) and any interleaving of them; `validAll` only asks
that every compacted level exists and that level 0 exists when an item is added.

`p : α → Bool` is any predicate on items ("x ≤ y" or "x < y" in the applications); `cnt p l` = number of
items of `l` satisfying `p`; `wb p 0 L` = Σ_h 2^h · cnt p (level h) = the weight the sketch attributes to
`p`, i.e. the un-normalised rank estimate.

  a. `compaction_balanced`: for ONE compaction the two coin outcomes together carry exactly twice the
     weight: wb(coin = false) + wb(coin = true) = 2 · wb(before).  Needs neither sortedness nor an even
     level size nor any property of the comparator.
  b. `compaction_shape`: the level sizes after a compaction do not depend on the coin, hence (by
     induction) the level sizes along a schedule are coin independent and a schedule that is valid for
     one coin sequence is valid for all of them.
  c. `sumAll_unbiased`: `sumAll` = (Σ over all coin outcomes of wb, number of outcomes)
       = (2^flips · (wb(initial) + number of added items satisfying p), 2^flips),
     i.e. the average of the rank estimate over all equally likely coin vectors is the true count.
  d. `sumAll_eq_sum_over_vectors`, `allVecs_spec`, `mech_unbiased`: `sumAll` really is the sum, over the
     2^flips distinct coin vectors `cs` of length `flips ops`, of `wb p 0 (mrun lt L ops cs)` where `mrun`
     executes the schedule against the explicit coin sequence `cs`.
  e. `sumAll_unbiased_int`, `mech_unbiased_int`: the same for α = Int with the usual order and
     p = `below y incl` (inclusive: x ≤ y, exclusive: x < y).
All statements are for every item type, every comparator `lt : α → α → Bool` (no order assumptions), every
predicate, every level list and every schedule.
-/
import DSProofs.Lemmas.KllMech
namespace DS.Mech
open DS DS.Kll

variable {α : Type}

/-! ### concrete data for the non-vacuity examples -/

/-- the comparator of `kll_sketch<int>` -/
def ltInt : Int → Int → Bool := fun a b => decide (a < b)

/-- "below y": inclusive `x ≤ y`, exclusive `x < y` -/
def below (y : Int) (incl : Bool) : Int → Bool := fun x => if incl then decide (x ≤ y) else decide (x < y)

/-- two levels: five unsorted items of weight 1, two items of weight 2 -/
def exL : List (List Int) := [[3, 7, 1, 2, 4], [2, 8]]

/-- compact level 0 (sorting, halve up), add 5, compact level 1 (it is the top level: a new level is
created; halve down) -/
def exOps : List (MOp Int) := [.compact 0 true true, .add 5, .compact 1 false false]

/-! ### a. one compaction -/

/-- The two coin outcomes of one compaction carry together exactly twice the weight below. -/
theorem compaction_balanced (lt : α → α → Bool) (p : α → Bool) (L : List (List α)) (i : Nat)
    (srt up : Bool) (hi : i < L.length) :
    wb p 0 (compactCore lt L i srt up false) + wb p 0 (compactCore lt L i srt up true) = 2 * wb p 0 L :=
  compactCore_balanced lt p 0 L i srt up hi

/-- instance: weight ≤ 5 is 6 before; 5 with coin false ([[3],[2,2,7,8]]), 7 with coin true ([[3],[1,2,4,8]]) -/
example :
    compactCore ltInt exL 0 true true false = [[3], [2, 2, 7, 8]] ∧
    compactCore ltInt exL 0 true true true = [[3], [1, 2, 4, 8]] ∧
    wb (below 5 true) 0 exL = 6 ∧
    wb (below 5 true) 0 (compactCore ltInt exL 0 true true false) = 5 ∧
    wb (below 5 true) 0 (compactCore ltInt exL 0 true true true) = 7 := by
  decide

example : wb (below 5 true) 0 (compactCore ltInt exL 0 true true false)
    + wb (below 5 true) 0 (compactCore ltInt exL 0 true true true) = 2 * wb (below 5 true) 0 exL :=
  compaction_balanced ltInt (below 5 true) exL 0 true true (by decide)

/-! ### b. level sizes are coin independent -/

/-- The level sizes after a compaction do not depend on the coin, and the number of levels is `lenAfter`. -/
theorem compaction_shape (lt : α → α → Bool) (L : List (List α)) (i : Nat) (srt up : Bool)
    (_hi : i < L.length) :
    (compactCore lt L i srt up false).map List.length = (compactCore lt L i srt up true).map List.length ∧
    ∀ c, (compactCore lt L i srt up c).length = lenAfter L.length (MOp.compact i srt up : MOp α) :=
  ⟨by rw [compactCore_map_length, compactCore_map_length], fun c => compactCore_length lt L i srt up c⟩

/-- instance: compacting the top level (1) of `exL` creates level 2; sizes [5, 0, 1] for either coin -/
example :
    compactCore ltInt exL 1 false false false = [[3, 7, 1, 2, 4], [], [2]] ∧
    compactCore ltInt exL 1 false false true = [[3, 7, 1, 2, 4], [], [8]] ∧
    (compactCore ltInt exL 1 false false true).map List.length = [5, 0, 1] ∧
    lenAfter exL.length (MOp.compact 1 false false : MOp Int) = 3 := by
  decide

/-! ### c. all coin outcomes of a schedule -/

/-- Σ over all coin outcomes of the weight below = 2^flips · (initial weight below + items added below),
and there are 2^flips outcomes: the mechanism is unbiased for every schedule. -/
theorem sumAll_unbiased (lt : α → α → Bool) (p : α → Bool) (ops : List (MOp α)) :
    ∀ L : List (List α), validAll L.length ops = true →
      (sumAll lt p L ops).1 = 2 ^ flips ops * (wb p 0 L + addedBelow p ops) ∧
      (sumAll lt p L ops).2 = 2 ^ flips ops :=
  fun L hv => ⟨sumAll_fst lt p ops L hv, sumAll_snd lt p ops L⟩

/-- instance: 2 flips, initial weight 6, one added item ≤ 5: 28 = 4 · (6 + 1) -/
example :
    validAll exL.length exOps = true ∧ flips exOps = 2 ∧ addedBelow (below 5 true) exOps = 1 ∧
    sumAll ltInt (below 5 true) exL exOps = (28, 4) := by
  decide

/-! ### d. `sumAll` is the sum over all coin vectors -/

/-- `allVecs n` lists exactly the coin vectors of length `n`, each once; there are 2^n of them. -/
theorem allVecs_spec (n : Nat) :
    (∀ cs : List Bool, cs ∈ allVecs n ↔ cs.length = n) ∧
    (allVecs n).Pairwise (fun a b => a ≠ b) ∧ (allVecs n).length = 2 ^ n :=
  ⟨fun cs => ⟨mem_allVecs_length n cs, mem_allVecs_of_length n cs⟩, allVecs_nodup n, allVecs_length n⟩

example : allVecs 2 = [[false, false], [false, true], [true, false], [true, true]] := by decide

/-- `sumAll` is the sum of the weight below over the runs against all coin vectors. -/
theorem sumAll_eq_sum_over_vectors (lt : α → α → Bool) (p : α → Bool) (L : List (List α))
    (ops : List (MOp α)) :
    (sumAll lt p L ops).1 = ((allVecs (flips ops)).map (fun cs => wb p 0 (mrun lt L ops cs))).sum ∧
    (sumAll lt p L ops).2 = (allVecs (flips ops)).length ∧
    (allVecs (flips ops)).length = 2 ^ flips ops :=
  ⟨sumAll_fst_eq_sum lt p ops L, by rw [sumAll_snd, allVecs_length], allVecs_length _⟩

/-- Σ over all coin vectors of the weight below after the run = 2^flips · (initial + added below). -/
theorem mech_unbiased (lt : α → α → Bool) (p : α → Bool) (L : List (List α)) (ops : List (MOp α))
    (hv : validAll L.length ops = true) :
    ((allVecs (flips ops)).map (fun cs => wb p 0 (mrun lt L ops cs))).sum
      = 2 ^ flips ops * (wb p 0 L + addedBelow p ops) := by
  rw [← sumAll_fst_eq_sum lt p ops L]
  exact sumAll_fst lt p ops L hv

/-- instance: the four runs give 6, 6, 10, 6 (sum 28); e.g. coins [true, false] end in [[5,3],[],[1,4]] -/
example :
    mrun ltInt exL exOps [true, false] = [[5, 3], [], [1, 4]] ∧
    (allVecs (flips exOps)).map (fun cs => wb (below 5 true) 0 (mrun ltInt exL exOps cs)) = [6, 6, 10, 6] := by
  decide

/-! ### e. Int items, rank predicates -/

/-- `sumAll_unbiased` for `kll_sketch<int>`-like items and the rank predicate "below y" (incl/excl). -/
theorem sumAll_unbiased_int (y : Int) (incl : Bool) (ops : List (MOp Int)) (L : List (List Int))
    (hv : validAll L.length ops = true) :
    (sumAll ltInt (below y incl) L ops).1
      = 2 ^ flips ops * (wb (below y incl) 0 L + addedBelow (below y incl) ops) ∧
    (sumAll ltInt (below y incl) L ops).2 = 2 ^ flips ops :=
  sumAll_unbiased ltInt (below y incl) ops L hv

/-- `mech_unbiased` for Int items and the rank predicate "below y". -/
theorem mech_unbiased_int (y : Int) (incl : Bool) (ops : List (MOp Int)) (L : List (List Int))
    (hv : validAll L.length ops = true) :
    ((allVecs (flips ops)).map (fun cs => wb (below y incl) 0 (mrun ltInt L ops cs))).sum
      = 2 ^ flips ops * (wb (below y incl) 0 L + addedBelow (below y incl) ops) :=
  mech_unbiased ltInt (below y incl) L ops hv

/-- instance: exclusive rank of 2 (items < 2: only the 1 in level 0, weight 1; nothing added below) -/
example :
    wb (below 2 false) 0 exL = 1 ∧ addedBelow (below 2 false) exOps = 0 ∧
    sumAll ltInt (below 2 false) exL exOps = (4, 4) := by
  decide

example : sumAll ltInt (below 5 true) exL exOps = (2 ^ 2 * (6 + 1), 2 ^ 2) := by
  have h := sumAll_unbiased_int 5 true exOps exL (by decide)
  have e1 : flips exOps = 2 := by decide
  have e2 : wb (below 5 true) 0 exL = 6 := by decide
  have e3 : addedBelow (below 5 true) exOps = 1 := by decide
  rw [e1, e2, e3] at h
  exact Prod.ext h.1 h.2

end DS.Mech

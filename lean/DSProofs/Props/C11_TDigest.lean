/-
C11 (t-digest part) — truncated images (current format and both reference formats) are rejected; the
specification readers are bounded.

ONLY property theorems and non-vacuity examples.  The theorems are about the specification readers
`DS.Wire.TDigest.decode` / `decodeLegacy`; the exhaustive-prefix / corruption runs of `./check c11_misc`
hold `tdigest<T>::deserialize(bytes)` and `deserialize(istream)` to them under sanitizers.
-/
import DSProofs.Lemmas.WireMiscTDigest
import DSModel.Wire.TDigestGen
namespace DS.Wire.TDigest
open DS.Wire

theorem decode_PS (c : Consts) (tsz wsz : Nat) : PS (decode c tsz wsz) := decode_PS_lem c tsz wsz

theorem decodeLegacy_PS (c : Consts) : PS (decodeLegacy c) := decodeLegacy_PS_lem c

/-- every strict prefix of a valid image is rejected (a t-digest image has no information-free padding) -/
theorem prefix_rejected (c : Consts) (hc : c.Valid) (tsz wsz : Nat) (s : Img) (hs : WF tsz wsz s) (n : Nat)
    (hn : n < (encode c tsz wsz s).length) : decode c tsz wsz ((encode c tsz wsz s).take n) = none := by
  have h := decode_encode_lem c hc tsz wsz s hs []
  simp only [List.append_nil] at h
  exact DS.Wire.prefix_rejected (decode c tsz wsz) (decode_PS c tsz wsz) (encode c tsz wsz s) s h n hn

/-- every strict prefix of a valid reference-format image is rejected -/
theorem legacy_prefix_rejected (c : Consts) (hc : c.Valid) (s : Legacy) (hs : WFLegacy s) (n : Nat)
    (hn : n < (encodeLegacy c s).length) : decodeLegacy c ((encodeLegacy c s).take n) = none := by
  have h := legacy_decode_encode_lem c hc s hs []
  simp only [List.append_nil] at h
  exact DS.Wire.prefix_rejected (decodeLegacy c) (decodeLegacy_PS c) (encodeLegacy c s) s h n hn

/-- a successful decode of ANY byte string consumed exactly `serializedSize` bytes and every decoded
field is in range; hence (value width ≥ 1) centroids + buffered values ≤ input length: no count field
makes the specification reader produce more elements than the input has bytes -/
theorem decode_bounded (c : Consts) (tsz wsz : Nat) (b r : Bytes) (s : Img) (h : decode c tsz wsz b = some (s, r)) :
    b.length = serializedSize tsz wsz s + r.length ∧ WF tsz wsz s ∧
    (∀ mn mx cents buf, s.body = .multi mn mx cents buf → 0 < tsz → cents.length + buf.length + 16 ≤ b.length) := by
  obtain ⟨h1, h2⟩ := decode_consumes_lem c tsz wsz b r s h
  refine ⟨h1, h2, ?_⟩
  intro mn mx cents buf hb ht
  simp only [serializedSize, hb] at h1
  have a1 : cents.length ≤ cents.length * (tsz + wsz) := Nat.le_mul_of_pos_right _ (by omega)
  have a2 : buf.length ≤ buf.length * tsz := Nat.le_mul_of_pos_right _ ht
  omega

/-- same for the reference formats: the centroid count never exceeds the input length -/
theorem legacy_decode_bounded (c : Consts) (b r : Bytes) (s : Legacy) (h : decodeLegacy c b = some (s, r)) :
    b.length = legacySize s + r.length ∧ WFLegacy s ∧
    (match s with | .big _ _ _ cents => cents.length + 32 ≤ b.length | .small _ _ _ _ _ cents => cents.length + 30 ≤ b.length) := by
  obtain ⟨h1, h2⟩ := decodeLegacy_consumes_lem c b r s h
  refine ⟨h1, h2, ?_⟩
  cases s <;> simp only [legacySize] at h1 ⊢ <;> omega

def exMultiT : Img :=
  { k := 100, reverse := true,
    body := .multi 0x3fe0000000000000 0x4000000000000000 [(0x3ff0000000000000, 1), (0x4000000000000000, 3)] [0x3fe0000000000000] }
example : WF 8 8 exMultiT ∧ (∀ n, n < 72 → decode genConsts 8 8 ((encode genConsts 8 8 exMultiT).take n) = none) ∧
          (decode genConsts 8 8 (encode genConsts 8 8 exMultiT)).isSome := by decide

end DS.Wire.TDigest

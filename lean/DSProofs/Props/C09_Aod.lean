/-
C09 (array-of-doubles compact sketch images) — serialization round trip.
ONLY property theorems and their non-vacuity examples (helper lemmas: Lemmas/WireAod.lean).  Model: DSModel/Wire/Aod.lean.
-/
import DSProofs.Lemmas.WireAod
namespace DS.Wire.Aod
open DS.Wire

/-- the reader inverts the writer and consumes exactly the image (seed hash only checked when there are entries). -/
theorem decode_encode (c : Consts) (hc : c.ok = true) (s : Image) (hwf : WF s) (exp : Nat)
    (hseed : s.entries = [] ∨ s.seedHash = exp) (tail : Bytes) :
    decode c exp (encode c s ++ tail) = some (s, tail) :=
  decode_encode' (COk.of_ok hc) s hwf exp hseed tail

/-- re-serialization of what was read gives the same bytes. -/
theorem encode_decode (c : Consts) (hc : c.ok = true) (s : Image) (hwf : WF s) (exp : Nat)
    (hseed : s.entries = [] ∨ s.seedHash = exp) (tail : Bytes) :
    (decode c exp (encode c s ++ tail)).map (fun p => encode c p.1) = some (encode c s) := by
  rw [decode_encode c hc s hwf exp hseed tail]; rfl

/-- size = 16 + (8 if entries) + (8 + 8·num_values)·entries. -/
theorem size_eq (c : Consts) (s : Image) (hwf : WF s) : (encode c s).length = serializedSize s :=
  length_encode c s (fun e he => (hwf.2.2.2.2.1 e he).2.1)

example : WF ⟨false, true, 37836, maxTheta, 2, [(405753591161026837, [0x3ff0000000000000, 0x4000000000000000]), (2206043092153046979, [0, 1])]⟩ := by decide
example : WF ⟨true, true, 37836, maxTheta, 3, []⟩ := by decide

end DS.Wire.Aod

import DSModel.Wire.Aod
namespace DS.Wire.Aod
theorem placeholder : True := trivial
end DS.Wire.Aod

/-
C09 (KLL) — serialization round trip of the KLL image.

ONLY property theorems and their non-vacuity examples (helper lemmas: Lemmas/WireQuant*.lean).
Model: DSModel/Wire/Kll.lean (image state, `encode`, `decode`, `serializedSize`, `project`), tied to
kll_sketch_impl.hpp by `./check c09_quant` (the model decodes what the implementation wrote and must
recover the API content; the implementation's bytes must equal `encode (decode bytes)`).
All statements: every lawful item serde `sd` (instances: raw 4/8-byte arithmetic items, u32-length-prefixed
strings — `ItemType.serde_lawful`), every constant set `c` with `CfgOK c`, every well-formed image, every tail.
-/
import DSModel.Wire.KllCode
import DSProofs.Lemmas.WireQuantKll
namespace DS.Wire.Kll
open Reader

/-- the reader recovers exactly the image state and consumes exactly the image (any tail is left untouched) -/
theorem decode_encode (sd : Serde) (hs : sd.Lawful) (c : Cfg) (hc : CfgOK c) (s : Image) (tail : Bytes)
    (hw : WF sd c s = true) : decode sd c (encode sd c s ++ tail) = some (s, tail) := by
  have hc' := hc
  obtain ⟨_, _, _, _, hps, hpf, hv1, hv2, _, _⟩ := hc'
  cases s with
  | empty k lz =>
    have hk : k < 2 ^ 16 := by simpa [WF] using hw
    simp only [encode]
    rw [decode_header sd c hc _ _ k true lz false hps hv1 hk]
    obtain ⟨fe, fl, fs, _⟩ := flags_rt c hc true lz false
    simp only [decodeBody, fe, fl, fs, if_true]
    rw [guard_true_step (by simp)]
    rfl
  | single k lz it =>
    simp only [WF, Bool.and_eq_true, decide_eq_true_eq] at hw
    obtain ⟨hk, hit⟩ := hw
    simp only [encode, List.append_assoc]
    rw [decode_header sd c hc _ _ k false lz true hps hv2 hk]
    obtain ⟨fe, fl, fs, _⟩ := flags_rt c hc false lz true
    simp only [decodeBody, fe, fl, fs, if_true, Bool.false_eq_true, if_false]
    rw [guard_true_step (by simp), bind_step (hs.rt it _ hit)]
    rfl
  | full k lz n minK levels mn mx items =>
    simp only [WF, Bool.and_eq_true, decide_eq_true_eq, beq_iff_eq] at hw
    obtain ⟨⟨⟨⟨⟨⟨⟨⟨⟨⟨hk, hn⟩, hmk⟩, hl1⟩, hl2⟩, hlv⟩, hok⟩, hmn⟩, hmx⟩, hit⟩, hcnt⟩ := hw
    simp only [encode, List.append_assoc]
    rw [decode_header sd c hc _ _ k false lz false hpf hv1 hk]
    obtain ⟨fe, fl, fs, _⟩ := flags_rt c hc false lz false
    simp only [decodeBody, fe, fl, fs, Bool.false_eq_true, if_false]
    rw [guard_true_step (by simp)]
    exact decodeFull_encode sd hs c k lz n minK levels mn mx items tail hn hmk hl1 hl2
      ((levels_all_iff levels).1 hlv) hok hmn hmx hit hcnt

/-- the image has exactly the advertised size (`get_serialized_size_bytes`) -/
theorem size_eq (sd : Serde) (c : Cfg) (hc : CfgOK c) (s : Image) :
    (encode sd c s).length = serializedSize sd c s := by
  obtain ⟨_, _, _, _, _, _, _, _, _, he, hs1, hd⟩ := hc
  cases s with
  | empty k lz => simp [encode, serializedSize, length_header, he]
  | single k lz it => simp [encode, serializedSize, length_header, hs1]
  | full k lz n minK levels mn mx items =>
    simp only [encode, serializedSize, List.length_append, length_header, length_w64, length_w16, length_w8,
      length_encList_w32, sizeItems, hd]
    omega

/-- the published bound `get_max_serialized_size_bytes(k, n)` (fixed-size items of `w` bytes) holds for every
well-formed image whose level count is within `ub_on_num_levels(n)` (an invariant of the algorithm: the top level
is never empty and carries weight 2^(levels-1) ≤ n; checked on every implementation image by the harness). -/
theorem size_le_max (w : Nat) (c : Cfg) (hc : CfgOK c) (k : Nat) (lz : Bool) (n minK : Nat) (levels : List Nat)
    (mn mx : Item) (items : List Item)
    (hw : WF (Serde.fixed w) c (.full k lz n minK levels mn mx items) = true)
    (hub : levels.length ≤ ubLevels n) :
    serializedSize (Serde.fixed w) c (.full k lz n minK levels mn mx items) ≤ maxSerializedSize c k n w := by
  simp only [WF, Bool.and_eq_true, decide_eq_true_eq, beq_iff_eq] at hw
  obtain ⟨⟨⟨⟨⟨⟨⟨⟨⟨⟨_, _⟩, _⟩, _⟩, _⟩, _⟩, _⟩, hmn⟩, hmx⟩, hit⟩, hcnt⟩ := hw
  have h1 : ((Serde.fixed w).enc mn).length = w := by simpa [Serde.fixed] using hmn
  have h2 : ((Serde.fixed w).enc mx).length = w := by simpa [Serde.fixed] using hmx
  have h3 := length_encItems_fixed w items hit
  have hmono := totalCapacity_mono k c.m _ _ hub
  have hle : items.length ≤ totalCapacity k c.m (ubLevels n) := by omega
  have hmul : items.length * w ≤ totalCapacity k c.m (ubLevels n) * w := Nat.mul_le_mul_right w hle
  simp only [serializedSize, maxSerializedSize, sizeItems, h1, h2, h3, Nat.add_mul]
  omega

/-- the documented constant set satisfies the side conditions -/
def docCfg : Cfg :=
  { family := 15, preShort := 2, preFull := 5, ver1 := 1, ver2 := 2, m := 8,
    bitEmpty := 0, bitLz := 1, bitSingle := 2, emptySize := 8, dataStartSingle := 8, dataStart := 20 }

example : CfgOK docCfg := by decide

/-- non-vacuity: a two-level image (k = 8: capacity 16, level 0 = [13,15), level 1 = [15,16)) of 8-byte items is well formed -/
example : WF (Serde.fixed 8) docCfg
    (.full 8 true 4 8 [13, 15] [1,0,0,0,0,0,0,0] [4,0,0,0,0,0,0,0]
      [[1,0,0,0,0,0,0,0], [4,0,0,0,0,0,0,0], [3,0,0,0,0,0,0,0]]) = true := by decide

example : WF Serde.lpString docCfg (.single 200 false [104, 105]) = true := by decide

/-- the constants the CURRENT headers define satisfy the side conditions, so the theorems above apply to the model the
correspondence check runs (`codeCfg` = DSGen values; a changed flag position / size constant breaks this obligation) -/
theorem codeCfg_ok : CfgOK codeCfg := by decide

/-- round trip at the constants of the current headers -/
theorem decode_encode_code (sd : Serde) (hs : sd.Lawful) (s : Image) (tail : Bytes) (hw : WF sd codeCfg s = true) :
    decode sd codeCfg (encode sd codeCfg s ++ tail) = some (s, tail) :=
  decode_encode sd hs codeCfg codeCfg_ok s tail hw

end DS.Wire.Kll

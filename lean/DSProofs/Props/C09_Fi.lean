/-
C09 (frequent-items part) — the serialized image round-trips; the entry order is the only freedom.

ONLY property theorems + non-vacuity examples (helper lemmas: Lemmas/WireCount.lean).
Model: DSModel/Wire/Fi.lean.  Statements are for EVERY constant set `c` with the decidable side condition `c.ok`
(`generated_ok`: the current headers satisfy it), EVERY lawful item serde `sd` (`serdeU64_lawful`: 8-byte arithmetic
items, `serdeStr_lawful`: u32-length-prefixed strings — any other serde satisfying `Serde.Lawful` is covered too),
every well-formed image state and every tail.

Table-order freedom, stated precisely: the image lists the active (weight, item) pairs in hash-map iteration order.
A restored sketch re-inserts them into a fresh table, so its re-serialization may list the same pairs in another
order.  `Equiv s t` = same lg sizes, same total weight and offset, and `entries t` a permutation of `entries s`
(the SAME permutation on the weights array and the items array).  Equivalent images have the same size
(`size_equiv`) and the same multiset of rows, hence the same API content once rows are sorted.
The C++ side of the check (`reserialize-*`) demands byte equality or exactly this equivalence.
-/
import DSProofs.Lemmas.WireCount
import DSModel.Wire.FiGen
import Batteries.Data.List.Perm
namespace DS.Wire.Fi
open DS.Wire

variable {ι : Type}

theorem generated_ok : generated.ok := by decide

/-- **round trip**: the documented reader recovers exactly the image state and consumes exactly the image -/
theorem decode_encode (c : FiConsts) (hc : c.ok) (sd : Serde ι) (hsd : sd.Lawful) (s : Image ι) (hs : WF c sd s) (tail : Bytes) :
    decode c sd (encode c sd s ++ tail) = some (s, tail) := by
  obtain ⟨hlm, hcm, hmin, hbody⟩ := hs
  obtain ⟨hf, hv, hpe, hpn, hfl, hft, hff⟩ := hc
  have hlc : s.lgCur < 256 := by omega
  have hflags : flagsOf c s.body.isNone < 256 ∧ isEmptyFlags c (flagsOf c s.body.isNone) = s.body.isNone := by
    cases s.body.isNone
    · exact ⟨by simp [flagsOf], hff⟩
    · exact ⟨hfl, hft⟩
  have hpre : (if s.body.isNone then c.preEmpty else c.preNonEmpty) < 256 := by split <;> assumption
  simp only [decode, encode, List.append_assoc]
  rw [bind_u8 _ hpre, bind_u8 _ hv, bind_u8 _ hf, bind_u8 _ hlm, bind_u8 _ hlc, bind_u8 _ hflags.1, bind_skip, hflags.2,
    bind_guard _ (by simp), bind_guard _ (by simp), bind_guard _ (by simp), bind_guard _ (by simp [hcm, hmin])]
  cases hb : s.body with
  | none => cases s; simp_all [decodeBody, encodeBody, Reader.bind, Reader.pure]
  | some b =>
    rw [hb] at hbody
    obtain ⟨htw, hoff, hn, hlen, hws, hits⟩ := hbody
    simp only [decodeBody, encodeBody, Option.isNone_some, Bool.false_eq_true, if_false, List.append_assoc]
    rw [bind_assoc, bind_u32 _ hn, bind_assoc, bind_skip, bind_assoc, bind_u64 _ htw, bind_assoc, bind_u64 _ hoff,
      bind_assoc, bind_decU64s b.weights _ rfl hws, bind_assoc, bind_decItems sd hsd b.items _ hlen.symm hits]
    cases s; cases b; simp_all [Reader.bind, Reader.pure]

/-- the image has exactly the advertised size (`get_serialized_size_bytes`: 8, or 32 + 8·n + Σ size_of_item) -/
theorem size_eq (c : FiConsts) (h1 : c.preEmpty = 1) (h4 : c.preNonEmpty = 4) (sd : Serde ι) (s : Image ι) (hs : WF c sd s) :
    (encode c sd s).length = serializedSize c sd s := by
  obtain ⟨_, _, _, hbody⟩ := hs
  simp only [encode, serializedSize, List.length_append, length_w8, length_wZeros, h1, h4]
  cases hb : s.body with
  | none => simp [encodeBody]
  | some b =>
    simp only [encodeBody, List.length_append, length_w64, length_w32, length_wZeros, length_encU64s, length_encItems]
    omega

/-! ### the table-order freedom -/

/-- same logical sketch, entries listed in another order -/
def Equiv (s t : Image ι) : Prop :=
  s.lgMax = t.lgMax ∧ s.lgCur = t.lgCur ∧
  match s.body, t.body with
  | none, none => True
  | some a, some b => a.totalWeight = b.totalWeight ∧ a.offset = b.offset ∧ a.weights.length = a.items.length ∧
      b.weights.length = b.items.length ∧ (a.weights.zip a.items).Perm (b.weights.zip b.items)
  | _, _ => False

theorem itemsBytes_perm (sd : Serde ι) {l1 l2 : List ι} (h : l1.Perm l2) : itemsBytes sd l1 = itemsBytes sd l2 := by
  induction h with
  | nil => rfl
  | cons x _ ih => simp [itemsBytes, ih]
  | swap x y l => simp only [itemsBytes]; omega
  | trans _ _ ih1 ih2 => exact ih1.trans ih2

/-- images that differ only by the entry order have the same size -/
theorem size_equiv (c : FiConsts) (sd : Serde ι) (s t : Image ι) (h : Equiv s t) :
    serializedSize c sd s = serializedSize c sd t := by
  obtain ⟨_, _, hb⟩ := h
  simp only [serializedSize]
  cases hs : s.body with
  | none => cases ht : t.body with
    | none => rfl
    | some b => simp [hs, ht] at hb
  | some a => cases ht : t.body with
    | none => simp [hs, ht] at hb
    | some b =>
      simp only [hs, ht] at hb
      obtain ⟨_, _, hla, hlb, hp⟩ := hb
      have h1 : a.weights.Perm b.weights := by
        have := hp.map Prod.fst
        rwa [List.map_fst_zip (by omega), List.map_fst_zip (by omega)] at this
      have h2 : a.items.Perm b.items := by
        have := hp.map Prod.snd
        rwa [List.map_snd_zip (by omega), List.map_snd_zip (by omega)] at this
      simp only [h1.length_eq, itemsBytes_perm sd h2]

/-- non-vacuity: two-entry images (8-byte items; string items) are well formed; swapping both arrays is an `Equiv` -/
example : WF generated serdeU64 { lgMax := 4, lgCur := 3, body := some { totalWeight := 9, offset := 1, weights := [5, 3], items := [7, 2^64 - 1] } } := by
  refine ⟨by decide, by decide, by decide, ?_⟩
  simp [serdeU64]
example : WF generated serdeStr { lgMax := 3, lgCur := 3, body := some { totalWeight := 2, offset := 0, weights := [2], items := [[0x61, 0x62]] } } := by
  refine ⟨by decide, by decide, by decide, ?_⟩
  simp [serdeStr]
example : Equiv (ι := Nat) { lgMax := 4, lgCur := 3, body := some { totalWeight := 9, offset := 1, weights := [5, 3], items := [7, 8] } }
    { lgMax := 4, lgCur := 3, body := some { totalWeight := 9, offset := 1, weights := [3, 5], items := [8, 7] } } := by
  refine ⟨rfl, rfl, rfl, rfl, rfl, rfl, ?_⟩
  exact List.Perm.swap _ _ _

end DS.Wire.Fi

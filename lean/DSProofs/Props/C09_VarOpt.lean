/-
C09 (VarOpt sketch and VarOpt union part) — the serialized images round-trip.

ONLY property theorems + non-vacuity examples (helper lemmas: Lemmas/WireCount.lean, Lemmas/WireCountVarOpt.lean).
Model: DSModel/Wire/VarOpt.lean.  Statements are for EVERY constant set with the decidable side conditions `c.ok` /
`cu.ok` (`generated_ok`, `generatedU_ok`), EVERY lawful item serde, every well-formed image state (empty, warm-up = no R
region, full = with R region; gadget images with marks; any resize factor) and every tail.
-/
import DSProofs.Lemmas.WireCountVarOpt
import DSModel.Wire.VarOptGen
namespace DS.Wire.VarOpt
open DS.Wire

variable {ι : Type}

theorem generated_ok : generated.ok := by decide
theorem generatedU_ok : generatedU.ok := by decide

theorem flagsRT_all (c : VoConsts) (hc : c.ok) (e g : Bool) : flagsRT c e g := by
  obtain ⟨_, _, _, _, f00, f01, f10, f11, _⟩ := hc
  cases e <;> cases g <;> assumption

/-- **round trip (sketch)**: the documented reader recovers exactly the image state and consumes exactly the image -/
theorem decode_encode (c : VoConsts) (hc : c.ok) (sd : Serde ι) (hsd : sd.Lawful) (s : Image ι) (hs : WF c sd s) (tail : Bytes) :
    decode c sd (encode c sd s ++ tail) = some (s, tail) := by
  obtain ⟨hrf, hk, hk1, hkm, hbody⟩ := hs
  have hfl := flagsRT_all c hc s.body.isNone s.gadget
  obtain ⟨hf, hv, hne, _, _, _, _, _, hfirst⟩ := hc
  obtain ⟨hfe, hfw, hff⟩ := hfirst s.rf hrf
  cases hb : s.body with
  | none =>
    rw [hb] at hfl
    simp only [Option.isNone_none] at hfl
    simp only [decode, encode, preOf, hb, encodeBody, Option.isNone_none, List.append_assoc, List.nil_append]
    rw [bind_u8 _ hfe.1, bind_u8 _ hv, bind_u8 _ hf, bind_u8 _ hfl.1, bind_u32 _ hk]
    rw [hfl.2.1, hfe.2.1, hfe.2.2, hfl.2.2]
    rw [bind_guard _ (by simp), bind_guard _ (by simp), bind_guard _ (by simp [hk1, hkm])]
    cases s; simp_all [Reader.bind, Reader.pure]
  | some b =>
    rw [hb] at hfl hbody
    simp only [Option.isNone_some] at hfl
    obtain ⟨hn, hh, hr, htw, hhl, hml, hws, hhi, hri, hmode⟩ := hbody
    have hall := all_posF64 b.weights hws
    have hws' : ∀ w ∈ b.weights, w < 2 ^ 64 := fun w hw => (hws w hw).1
    by_cases hr0 : b.rItems.length = 0
    · -- warm-up: no R region
      simp only [hr0, if_true] at hmode
      obtain ⟨hnh, hnk, htw0⟩ := hmode
      simp only [decode, encode, preOf, hb, encodeBody, hr0, if_true, Option.isNone_some, List.append_assoc, List.nil_append]
      rw [bind_u8 _ hfw.1, bind_u8 _ hv, bind_u8 _ hf, bind_u8 _ hfl.1, bind_u32 _ hk]
      rw [hfl.2.1, hfw.2.1, hfw.2.2, hfl.2.2]
      rw [bind_guard _ (by simp), bind_guard _ (by simp), bind_guard _ (by simp [hk1, hkm])]
      simp only [Bool.false_eq_true, if_false, decodeBody]
      rw [bind_assoc, bind_u64 _ hn, bind_assoc, bind_u32 _ hh, bind_assoc, bind_u32 _ (by omega),
        bind_assoc, bind_guard _ (by rw [if_pos hnk]; simp [hnh]), bind_assoc]
      have hpf : (c.preWarmup == c.preFull) = false := by simp [hne]
      simp only [hpf, Bool.false_eq_true, if_false]
      rw [bind_pure, bind_assoc, bind_decU64s b.weights _ rfl hws', bind_assoc, bind_guard _ hall, bind_assoc]
      cases hg : s.gadget with
      | false =>
        simp only [hg, Bool.false_eq_true, if_false, List.nil_append] at hml ⊢
        have hm : b.marks = [] := List.eq_nil_of_length_eq_zero hml
        rw [bind_pure, bind_assoc, bind_decItems sd hsd b.hItems _ hhl.symm hhi, bind_assoc]
        have hrn : b.rItems = [] := List.eq_nil_of_length_eq_zero hr0
        simp only [hrn, encItems, List.nil_append, decItems, repeatN]
        cases s; cases b; simp_all [Reader.bind, Reader.pure]
      | true =>
        simp only [hg, if_true, List.append_assoc] at hml ⊢
        rw [bind_marksRd b.marks _ _ hml.symm (by rw [hml]), bind_assoc, bind_decItems sd hsd b.hItems _ hhl.symm hhi, bind_assoc]
        have hrn : b.rItems = [] := List.eq_nil_of_length_eq_zero hr0
        simp only [hrn, encItems, List.nil_append, decItems, repeatN]
        cases s; cases b; simp_all [Reader.bind, Reader.pure]
    · -- full: R region present
      simp only [hr0, if_false] at hmode
      obtain ⟨hkn, hhr, htwp⟩ := hmode
      simp only [decode, encode, preOf, hb, encodeBody, hr0, if_false, Option.isNone_some, List.append_assoc]
      rw [bind_u8 _ hff.1, bind_u8 _ hv, bind_u8 _ hf, bind_u8 _ hfl.1, bind_u32 _ hk]
      rw [hfl.2.1, hff.2.1, hff.2.2, hfl.2.2]
      rw [bind_guard _ (by simp), bind_guard _ (by simp), bind_guard _ (by simp [hk1, hkm])]
      simp only [Bool.false_eq_true, if_false, decodeBody]
      have hnk : ¬ b.n ≤ s.k := by omega
      rw [bind_assoc, bind_u64 _ hn, bind_assoc, bind_u32 _ hh, bind_assoc, bind_u32 _ hr,
        bind_assoc, bind_guard _ (by rw [if_neg hnk]; simp [hhr]), bind_assoc]
      simp only [beq_self_eq_true, if_true]
      rw [bind_assoc, bind_u64 _ htw, bind_assoc, bind_guard _ (by simp [htwp, hr0]), bind_pure,
        bind_assoc, bind_decU64s b.weights _ rfl hws', bind_assoc, bind_guard _ hall, bind_assoc]
      cases hg : s.gadget with
      | false =>
        simp only [hg, Bool.false_eq_true, if_false, List.nil_append] at hml ⊢
        have hm : b.marks = [] := List.eq_nil_of_length_eq_zero hml
        rw [bind_pure, bind_assoc, bind_decItems sd hsd b.hItems _ hhl.symm hhi, bind_assoc, bind_decItems sd hsd b.rItems _ rfl hri]
        cases s; cases b; simp_all [Reader.bind, Reader.pure]
      | true =>
        simp only [hg, if_true, List.append_assoc] at hml ⊢
        rw [bind_marksRd b.marks _ _ hml.symm (by rw [hml]), bind_assoc, bind_decItems sd hsd b.hItems _ hhl.symm hhi, bind_assoc,
          bind_decItems sd hsd b.rItems _ rfl hri]
        cases s; cases b; simp_all [Reader.bind, Reader.pure]

/-- the sketch image has exactly the advertised size (`get_serialized_size_bytes`) -/
theorem size_eq (c : VoConsts) (h1 : c.preEmpty = 1) (h3 : c.preWarmup = 3) (h4 : c.preFull = 4) (sd : Serde ι) (s : Image ι)
    (hs : WF c sd s) : (encode c sd s).length = serializedSize c sd s := by
  obtain ⟨_, _, _, _, hbody⟩ := hs
  simp only [encode, serializedSize, List.length_append, length_w8, length_w32, h1, h3, h4]
  cases hb : s.body with
  | none => simp [encodeBody]
  | some b =>
    rw [hb] at hbody
    obtain ⟨_, _, _, _, _, hml, _⟩ := hbody
    simp only [encodeBody, List.length_append, length_w64, length_w32, length_encU64s, length_encItems]
    cases hg : s.gadget with
    | false => by_cases hr0 : b.rItems.length = 0 <;> simp [hr0, length_w64] <;> omega
    | true =>
      have hm : b.marks.length = b.weights.length := by simpa [hg] using hml
      by_cases hr0 : b.rItems.length = 0 <;> simp [hr0, length_packMarks, length_w64, hm] <;> omega

/-- **round trip (union)**: preamble, outer tau and the embedded gadget image -/
theorem union_decode_encode (cu : VuConsts) (hcu : cu.ok) (c : VoConsts) (hc : c.ok) (sd : Serde ι) (hsd : sd.Lawful)
    (s : UImage ι) (hs : UWF cu c sd s) (tail : Bytes) :
    uDecode cu c sd (uEncode cu c sd s ++ tail) = some (s, tail) := by
  obtain ⟨hk, hk1, hkm, hbody⟩ := hs
  obtain ⟨hf, hv, hpe, hpn, hfl, hft, hff⟩ := hcu
  have hflags : uFlagsOf cu s.body.isNone < 256 ∧ uIsEmptyFlags cu (uFlagsOf cu s.body.isNone) = s.body.isNone := by
    cases s.body.isNone
    · exact ⟨by simp [uFlagsOf], hff⟩
    · exact ⟨hfl, hft⟩
  have hpre : (if s.body.isNone then cu.preEmpty else cu.preNonEmpty) < 256 := by split <;> assumption
  simp only [uDecode, uEncode, List.append_assoc]
  rw [bind_u8 _ hpre, bind_u8 _ hv, bind_u8 _ hf, bind_u8 _ hflags.1, bind_u32 _ hk, hflags.2,
    bind_guard _ (by simp), bind_guard _ (by simp), bind_guard _ (by simp [hk1, hkm])]
  cases hb : s.body with
  | none => cases s; simp_all [uDecodeBody, uEncodeBody, Reader.bind, Reader.pure]
  | some b =>
    rw [hb] at hbody
    obtain ⟨hn, hnum, hden, hg⟩ := hbody
    simp only [uDecodeBody, uEncodeBody, Option.isNone_some, Bool.false_eq_true, if_false, List.append_assoc]
    rw [bind_assoc, bind_u64 _ hn, bind_assoc, bind_u64 _ hnum, bind_assoc, bind_u64 _ hden, bind_assoc,
      bind_ok _ _ _ _ _ (decode_encode c hc sd hsd b.gadget hg tail)]
    cases s; cases b; simp_all [Reader.bind, Reader.pure]

/-- the union image has exactly the advertised size -/
theorem union_size_eq (cu : VuConsts) (hu1 : cu.preEmpty = 1) (hu4 : cu.preNonEmpty = 4) (c : VoConsts)
    (h1 : c.preEmpty = 1) (h3 : c.preWarmup = 3) (h4 : c.preFull = 4) (sd : Serde ι) (s : UImage ι) (hs : UWF cu c sd s) :
    (uEncode cu c sd s).length = uSerializedSize cu c sd s := by
  obtain ⟨_, _, _, hbody⟩ := hs
  simp only [uEncode, uSerializedSize, List.length_append, length_w8, length_w32, hu1, hu4]
  cases hb : s.body with
  | none => simp [uEncodeBody]
  | some b =>
    rw [hb] at hbody
    simp only [uEncodeBody, List.length_append, length_w64, size_eq c h1 h3 h4 sd b.gadget hbody.2.2.2]
    omega

/-! ### non-vacuity -/

/-- a full-mode gadget image with k = 3: one heavy (marked) item, two reservoir items; weight 2.0, total_wt_r = 3.0 -/
def exGadget : Image Nat :=
  { rf := 3, k := 3, gadget := true,
    body := some { n := 7, totalWtR := 0x4008000000000000, weights := [0x4000000000000000], marks := [true], hItems := [11], rItems := [12, 13] } }

example : WF generated serdeU64 exGadget := by
  refine ⟨by decide, by decide, by decide, by decide, ?_⟩
  simp [exGadget, WFBody, serdeU64, posF64]
def exUnion : UImage Nat :=
  { maxK := 3, body := some { n := 7, outerTauNum := 0, outerTauDen := 0, gadget := exGadget } }
example : UWF generatedU generated serdeU64 exUnion := by
  refine ⟨by decide, by decide, by decide, by decide, by decide, by decide, by decide, by decide, by decide, by decide, ?_⟩
  simp [exGadget, WFBody, serdeU64, posF64]
/-- a warm-up sketch with string items -/
def exWarm : Image Bytes :=
  { rf := 0, k := 8, gadget := false,
    body := some { n := 2, totalWtR := 0, weights := [0x3ff0000000000000, 0x4000000000000000], marks := [], hItems := [[0x61], []], rItems := [] } }
example : WF generated serdeStr exWarm := by
  refine ⟨by decide, by decide, by decide, by decide, ?_⟩
  simp [exWarm, WFBody, serdeStr, posF64]
example : generated.preEmpty = 1 ∧ generated.preWarmup = 3 ∧ generated.preFull = 4 ∧ generatedU.preEmpty = 1 ∧ generatedU.preNonEmpty = 4 := by decide

end DS.Wire.VarOpt

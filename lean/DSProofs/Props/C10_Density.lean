/-
C10 (density sketch part) — the image follows the documented layout.

ONLY property theorems and non-vacuity examples.  `documented` is written by hand from the "Serialized
sketch layout" comment of density_sketch_impl.hpp; `genConsts` is regenerated from the CURRENT headers on
every run.  (The density sketch writes family id 19, the id EBPPS also uses — as coded.)
-/
import DSProofs.Lemmas.WireMiscDensity
import DSModel.Wire.DensityGen
namespace DS.Wire.Density
open DS.Wire

/-- the documented contract: 3 preamble ints when empty else 6, serial version 1, family 19, flag bit 2 = empty -/
def documented : Consts := { preShort := 3, preLong := 6, serVer := 1, familyId := 19, emptyBit := 2 }

/-- every wire constant extracted from the current headers equals its documented value -/
theorem wire_consts_documented : genConsts = documented := by decide

/-- documented offsets: k at byte 4, num dimensions at byte 8 -/
theorem header_offsets (c : Consts) (tsz : Nat) (s : Img) :
    (encode c tsz s).take 4 = w8 (if s.body.isNone then c.preShort else c.preLong) ++ w8 c.serVer ++ w8 c.familyId ++
                              w8 (if s.body.isNone then 2 ^ c.emptyBit else 0) ∧
    ((encode c tsz s).drop 4).take 2 = w16 s.k ∧ ((encode c tsz s).drop 8).take 4 = w32 s.dim := by
  simp [encode, w8, w16, w32, wLe, wZeros]

/-- documented offsets of a non-empty image: num retained at byte 12, n at byte 16, level data from byte 24
("Int 5 is the start of level data"), each level = u32 size followed by its points -/
theorem body_offsets (c : Consts) (tsz : Nat) (s : Img) (b : Body) (hb : s.body = some b) :
    ((encode c tsz s).drop 12).take 4 = w32 b.numRetained ∧ ((encode c tsz s).drop 16).take 8 = w64 b.n ∧
    (encode c tsz s).drop 24 = encodeLevels tsz b.levels := by
  simp [encode, hb, encodeBody, w8, w16, w32, w64, wLe, wZeros]

example : encode documented 4 { k := 4, dim := 1, body := some { numRetained := 1, n := 9, levels := [[], [[0x3f800000]]] } } =
    [6, 1, 19, 0, 4, 0, 0, 0, 1, 0, 0, 0,  1, 0, 0, 0,  9, 0, 0, 0, 0, 0, 0, 0,  0, 0, 0, 0,  1, 0, 0, 0, 0, 0, 0x80, 0x3f] := by decide
example : encode documented 8 { k := 300, dim := 7, body := none } = [3, 1, 19, 4, 44, 1, 0, 0, 7, 0, 0, 0] := by decide

end DS.Wire.Density

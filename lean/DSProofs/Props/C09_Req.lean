/-
C09 (REQ) — serialization round trip of the REQ image.

ONLY property theorems and their non-vacuity examples (helper lemmas: Lemmas/WireQuant*.lean).
Model: DSModel/Wire/Req.lean, tied to req_sketch_impl.hpp / req_compactor_impl.hpp by `./check c09_quant`.
All statements: every lawful item serde, every constant set with `CfgOK`, every well-formed image, every tail.

FINDING (D6): the advertised size `get_serialized_size_bytes` does not equal the image size for the raw-items
format with 2..4 items (`size_eq_advertised_full_false`); the byte-vector form is therefore longer than the
stream form and zero padded.  The witness is replayed on the real code by every run of the check.
-/
import DSModel.Wire.ReqCode
import DSProofs.Lemmas.WireQuantReq
namespace DS.Wire.Req
open Reader

/-- the reader recovers exactly the image state and consumes exactly the image -/
theorem decode_encode (sd : Serde) (hs : sd.Lawful) (c : Cfg) (hc : CfgOK c) (s : Image) (tail : Bytes)
    (hw : WF sd c s = true) : decode sd c (encode sd c s ++ tail) = some (s, tail) := by
  have hc' := hc
  obtain ⟨_, _, _, _, hfam, hver, hpe, hpx, _⟩ := hc'
  obtain ⟨k, empty, hra, raw, lz, nl, nr, est, ri, cs⟩ := s
  simp only [WF, Bool.and_eq_true, decide_eq_true_eq] at hw
  obtain ⟨⟨⟨hk, hnl⟩, hnr⟩, hb⟩ := hw
  obtain ⟨fe, fh, fr, fl, ff⟩ := flags_rt c hc empty hra raw lz
  have hpre : preOf c nl < 256 := by unfold preOf; split <;> omega
  simp only [decode, encode, header, List.append_assoc]
  rw [bind_step (u8_w8 _ (by omega) _), bind_step (u8_w8 c.ver (by omega) _), bind_step (u8_w8 c.family (by omega) _),
    bind_step (u8_w8 _ (by omega) _), bind_step (u16_w16 k hk _), bind_step (u8_w8 nl (by omega) _),
    bind_step (u8_w8 nr (by omega) _)]
  rw [guard_true_step (by simp [fe, fh, fr, fl])]
  simp only [fe, fh, fr, fl]
  cases empty with
  | true =>
    simp only [if_true, Bool.and_eq_true, Option.isNone_iff_eq_none, List.isEmpty_iff] at hb
    obtain ⟨⟨h1, h2⟩, h3⟩ := hb
    subst h1; subst h2; subst h3
    simp [encEst, encItems, encList, Reader.pure]
  | false =>
    simp only [Bool.false_eq_true, if_false, Bool.and_eq_true, beq_iff_eq] at hb
    obtain ⟨⟨⟨hshape, hsome⟩, hest⟩, hrest⟩ := hb
    simp only [decodeBody, Bool.false_eq_true, if_false]
    rw [guard_true_step hshape, bind_step (decEst_enc sd hs nl est _ hsome hest)]
    cases raw with
    | true =>
      simp only [if_true, Bool.and_eq_true, beq_iff_eq, List.isEmpty_iff] at hrest
      obtain ⟨⟨hlen, hwf⟩, hcs⟩ := hrest
      subst hcs
      simp only [if_true, encList, List.nil_append]
      rw [← hlen, bind_step (repeatN_items sd hs ri tail hwf)]
      rfl
    | false =>
      simp only [Bool.false_eq_true, if_false, Bool.and_eq_true, beq_iff_eq, List.isEmpty_iff] at hrest
      obtain ⟨⟨⟨hri, hlen⟩, hall⟩, hfirst⟩ := hrest
      subst hri
      simp only [Bool.false_eq_true, if_false, encItems, encList, List.nil_append]
      rw [← hlen, bind_step (repeatN_compactors sd hs cs tail ((compactors_all_iff sd cs).1 hall))]
      rw [guard_true_step (by rw [hlen]; exact hfirst)]
      rfl

/-- the image has exactly `serializedSize` bytes (this is the size of the stream form) -/
theorem size_eq (sd : Serde) (c : Cfg) (hc : CfgOK c) (s : Image) :
    (encode sd c s).length = serializedSize sd c s := by
  obtain ⟨_, _, _, _, _, _, _, _, hp⟩ := hc
  simp only [encode, serializedSize, List.length_append, length_header, length_encCompactors, sizeItems, hp]
  omega

/-- FULL statement (what C09 demands): the advertised size is the image size, for every well-formed image -/
def size_eq_advertised_full : Prop :=
  ∀ (sd : Serde) (c : Cfg) (s : Image), sd.Lawful → CfgOK c → WF sd c s = true →
    (encode sd c s).length = advertisedSize sd c s

/-- the documented constant set -/
def docCfg : Cfg :=
  { family := 17, ver := 1, preEst := 4, preExact := 2, bitEmpty := 2, bitHra := 3, bitRaw := 4, bitLz := 5,
    preambleSize := 8, rawMax := 4 }

example : CfgOK docCfg := by decide

/-- D6 witness: two 8-byte items in the raw-items format: 24 bytes are written, 44 are advertised -/
def d6Witness : Image :=
  { k := 4, empty := false, hra := true, raw := true, lz := false, numLevels := 1, numRaw := 2, est := none,
    rawItems := [[1,0,0,0,0,0,0,0], [2,0,0,0,0,0,0,0]], compactors := [] }

/-- the CURRENT code violates the full statement (defect D6; replayed on the implementation by `./check c09_quant`) -/
theorem size_eq_advertised_full_false : ¬ size_eq_advertised_full := by
  intro h
  have := h (Serde.fixed 8) docCfg d6Witness (fixed_lawful 8 (by decide)) (by decide) (by decide)
  revert this
  decide

/-- PARTIAL: outside the raw-items format with 2..4 items the advertised size is the image size.
Missing for the full statement: exactly those images (n = 2, 3, 4), where the code reports 20 bytes too many. -/
theorem size_eq_advertised_partial (sd : Serde) (c : Cfg) (hc : CfgOK c) (s : Image) (hw : WF sd c s = true)
    (hnot : ¬ (s.empty = false ∧ s.raw = true ∧ s.numRaw ≠ 1)) :
    (encode sd c s).length = advertisedSize sd c s := by
  rw [size_eq sd c hc s]
  obtain ⟨k, empty, hra, raw, lz, nl, nr, est, ri, cs⟩ := s
  simp only [WF, Bool.and_eq_true, decide_eq_true_eq] at hw
  obtain ⟨_, hb⟩ := hw
  cases empty with
  | true =>
    simp only [if_true, Bool.and_eq_true, Option.isNone_iff_eq_none, List.isEmpty_iff] at hb
    obtain ⟨⟨h1, h2⟩, h3⟩ := hb
    subst h1; subst h2; subst h3
    simp [serializedSize, advertisedSize, encEst, sizeItems, encItems, encList]
  | false =>
    simp only [Bool.false_eq_true, if_false, Bool.and_eq_true, beq_iff_eq] at hb
    obtain ⟨_, hrest⟩ := hb
    cases raw with
    | true =>
      simp only [if_true, Bool.and_eq_true, beq_iff_eq, List.isEmpty_iff] at hrest
      obtain ⟨_, hcs⟩ := hrest
      subst hcs
      have h1 : nr = 1 := by
        by_cases h : nr = 1
        · exact h
        · exact absurd ⟨rfl, rfl, h⟩ hnot
      simp [serializedSize, advertisedSize, h1]
    | false =>
      simp only [Bool.false_eq_true, if_false, Bool.and_eq_true, beq_iff_eq, List.isEmpty_iff] at hrest
      obtain ⟨⟨⟨hri, _⟩, _⟩, _⟩ := hrest
      subst hri
      simp [serializedSize, advertisedSize, sizeItems, encItems, encList]

/-- non-vacuity: an estimation-mode image with two levels -/
def exImage : Image :=
  { k := 4, empty := false, hra := false, raw := false, lz := true, numLevels := 2, numRaw := 0,
    est := some (7, [1,0,0,0,0,0,0,0], [9,0,0,0,0,0,0,0]), rawItems := [],
    compactors := [{ state := 1, ssr := 0x40800000, lgWeight := 0, numSections := 3, items := [[1,0,0,0,0,0,0,0], [9,0,0,0,0,0,0,0], [5,0,0,0,0,0,0,0]] },
                   { state := 0, ssr := 0x40800000, lgWeight := 1, numSections := 3, items := [[2,0,0,0,0,0,0,0], [7,0,0,0,0,0,0,0]] }] }

example : WF (Serde.fixed 8) docCfg exImage = true := by decide
example : WF (Serde.fixed 8) docCfg d6Witness = true := by decide

/-- the constants the CURRENT headers define satisfy the side conditions, so the theorems above apply to the model the
correspondence check runs (`codeCfg` = DSGen values; a changed flag position / size constant breaks this obligation) -/
theorem codeCfg_ok : CfgOK codeCfg := by decide

/-- round trip at the constants of the current headers -/
theorem decode_encode_code (sd : Serde) (hs : sd.Lawful) (s : Image) (tail : Bytes) (hw : WF sd codeCfg s = true) :
    decode sd codeCfg (encode sd codeCfg s ++ tail) = some (s, tail) :=
  decode_encode sd hs codeCfg codeCfg_ok s tail hw

end DS.Wire.Req

/-
C09 (density sketch part) — serialization round trip of the density sketch image, float (`tsz` = 4)
and double (`tsz` = 8) — the theorems hold for every value width.

ONLY property theorems and non-vacuity examples (helper lemmas: Lemmas/WireMisc*.lean).
Model: DSModel/Wire/Density.lean = the documented layout.  The image does not store the number of
levels; a reader takes levels until `num retained` points are read.  Hence well-formedness (`WF`)
requires the LAST level to be non-empty: an image whose last level is empty is not recovered by any
reader of this layout (`decode_encode_full_false` — the correspondence check replays that case on
the real code, see `./check c09_misc`).
-/
import DSProofs.Lemmas.WireMiscDensity
import DSModel.Wire.DensityGen
namespace DS.Wire.Density
open DS.Wire

/-- the constants extracted from the current headers satisfy the side conditions of the theorems below -/
theorem genConsts_valid : genConsts.Valid := by decide

/-- decoding an encoded well-formed image gives back the image and leaves exactly the bytes that followed it -/
theorem decode_encode (c : Consts) (hc : c.Valid) (tsz : Nat) (s : Img) (hs : WF tsz s) (tail : Bytes) :
    decode c tsz (encode c tsz s ++ tail) = some (s, tail) := decode_encode_lem c hc tsz s hs tail

/-- the image size is 12 bytes when empty, else 24 + Σ_levels (4 + size·dim·sizeof(T)) -/
theorem size_eq (c : Consts) (tsz : Nat) (s : Img) (hs : WF tsz s) :
    (encode c tsz s).length = serializedSize tsz s := size_eq_lem c tsz s hs

/-- re-serialisation of a restored image is byte-identical -/
theorem encode_decode_encode (c : Consts) (hc : c.Valid) (tsz : Nat) (s : Img) (hs : WF tsz s) :
    (decode c tsz (encode c tsz s)).map (fun p => encode c tsz p.1) = some (encode c tsz s) := by
  have := decode_encode c hc tsz s hs []
  simp only [List.append_nil] at this
  simp [this]

/-- The full C09 statement for the layout AS DOCUMENTED would be: every image the writer can produce
(levels of any sizes summing to num_retained > 0) decodes to itself. -/
def decode_encode_full : Prop :=
  ∀ (c : Consts), c.Valid → ∀ (tsz : Nat) (s : Img),
    (s.k < 2^16 ∧ s.dim < 2^32 ∧ ∀ b, s.body = some b →
      b.numRetained < 2^32 ∧ b.n < 2^64 ∧ 0 < b.numRetained ∧ totalPoints b.levels = b.numRetained ∧
      b.levels.length ≤ maxLevels ∧ ∀ l ∈ b.levels, ∀ p ∈ l, p.length = s.dim ∧ ∀ v ∈ p, v < 256 ^ tsz) →
    decode c tsz (encode c tsz s) = some (s, [])

/-- It is false: the layout does not record the number of levels, so a trailing EMPTY level (written as a
4-byte zero size) is not read back — the reader stops 4 bytes early and reports one level fewer
(`is_estimation_mode` can flip).  `decode_encode` above is the statement with the hypothesis
"last level non-empty" (part of `WF`), which is what holds. -/
theorem decode_encode_full_false : ¬ decode_encode_full := by
  intro h
  have := h { preShort := 3, preLong := 6, serVer := 1, familyId := 19, emptyBit := 2 } (by decide) 4
    { k := 4, dim := 1, body := some { numRetained := 1, n := 4, levels := [[[0x3f800000]], []] } } (by decide)
  revert this
  decide

/-- a 2-level float image: 2 points of dimension 2 at level 0 (weight 1), 1 point at level 1 (weight 2) -/
def exImg : Img :=
  { k := 4, dim := 2,
    body := some { numRetained := 3, n := 4, levels := [[[0x3f800000, 0x40000000], [0, 0x80000000]], [[0x7f7fffff, 1]]] } }
/-- a level-0-empty image (right after a compaction): both points at level 1 -/
def exGap : Img := { k := 2, dim := 1, body := some { numRetained := 2, n := 4, levels := [[], [[5], [6]]] } }
def exEmpty : Img := { k := 10, dim := 3, body := none }

example : WF 4 exImg ∧ WF 4 exGap ∧ WF 8 exGap ∧ WF 4 exEmpty := by decide
example : decode genConsts 4 (encode genConsts 4 exImg ++ [7]) = some (exImg, [7]) := by decide
example : (encode genConsts 4 exImg).length = 24 + (4 + 16) + (4 + 8) ∧ (encode genConsts 8 exEmpty).length = 12 := by decide

end DS.Wire.Density

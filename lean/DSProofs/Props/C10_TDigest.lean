/-
C10 (t-digest part) — the image follows the documented layout; the two big-endian formats of the
reference implementation (`asBytes` = type 1, `asSmallBytes` = type 2) that the reader claims to accept
have their own decoder AND encoder with a round-trip theorem (so legacy images can be generated and fed
to the real reader, `./check c10_misc`).

ONLY property theorems and non-vacuity examples.  `documented` is written by hand from
tdigest_impl.hpp / tdigest.hpp; `genConsts`, `genWsz*` are regenerated from the CURRENT headers every run.
-/
import DSProofs.Lemmas.WireMiscTDigest
import DSModel.Wire.TDigestGen
namespace DS.Wire.TDigest
open DS.Wire

/-- the documented contract: 1 preamble long for empty / single value else 2, serial version 1, sketch
type 20, flag bits 0 empty, 1 single value, 2 reverse merge; reference formats type 1 (doubles) / 2 (floats) -/
def documented : Consts :=
  { preSingle := 1, preMulti := 2, serVer := 1, sketchType := 20, emptyBit := 0, singleBit := 1, reverseBit := 2,
    compatDouble := 1, compatFloat := 2 }

/-- every wire constant extracted from the current headers equals its documented value; centroid weights
are 64-bit for tdigest<double> and 32-bit for tdigest<float> -/
theorem wire_consts_documented : genConsts = documented ∧ genWszDouble = 8 ∧ genWszFloat = 4 := by decide

/-- documented offsets: k at byte 3 (u16), flags at byte 5, payload from byte 8 -/
theorem header_offsets (c : Consts) (tsz wsz : Nat) (s : Img) :
    (encode c tsz wsz s).take 3 = w8 (if s.body.isEmpty || s.body.isSingle then c.preSingle else c.preMulti) ++
                                  w8 c.serVer ++ w8 c.sketchType ∧
    ((encode c tsz wsz s).drop 3).take 2 = w16 s.k ∧
    ((encode c tsz wsz s).drop 5).take 1 = w8 (flagsOf c s.body.isEmpty s.body.isSingle s.reverse) ∧
    (encode c tsz wsz s).drop 8 = encodeBody tsz wsz s.body := by
  simp [encode, w8, w16, wLe, wZeros]

/-- general image: num_centroids at byte 8, num_buffered at byte 12, then min, max, centroids, buffer -/
theorem body_offsets (tsz wsz mn mx : Nat) (cents : List (Nat × Nat)) (buf : List Nat) :
    (encodeBody tsz wsz (.multi mn mx cents buf)).take 4 = w32 cents.length ∧
    ((encodeBody tsz wsz (.multi mn mx cents buf)).drop 4).take 4 = w32 buf.length ∧
    (encodeBody tsz wsz (.multi mn mx cents buf)).drop 8 =
      wLe tsz mn ++ (wLe tsz mx ++ (cents.flatMap (encodeCent tsz wsz) ++ buf.flatMap (wLe tsz))) := by
  simp [encodeBody, w32, wLe]

/-- reference formats: decode ∘ encode = id, consuming exactly the image -/
theorem legacy_decode_encode (c : Consts) (hc : c.Valid) (s : Legacy) (hs : WFLegacy s) (tail : Bytes) :
    decodeLegacy c (encodeLegacy c s ++ tail) = some (s, tail) := legacy_decode_encode_lem c hc s hs tail

theorem legacy_size_eq (c : Consts) (s : Legacy) : (encodeLegacy c s).length = legacySize s :=
  legacy_size_eq_lem c s

/-- the current-format reader and the reference-format reader never both accept: an image is dispatched
by its first three bytes (all zero = reference format; the current format has serial version ≥ 1 there) -/
theorem formats_disjoint (c : Consts) (hv : c.serVer ≠ 0) (tsz wsz : Nat) (b : Bytes) :
    decodeLegacy c b = none ∨ decode c tsz wsz b = none := by
  cases hl : decodeLegacy c b with
  | none => exact Or.inl rfl
  | some p =>
    refine Or.inr ?_
    obtain ⟨s, r⟩ := p
    simp only [decodeLegacy] at hl
    obtain ⟨z0, r1, e1, k1⟩ := bind_eq_some hl
    obtain ⟨z1, r2, e2, k2⟩ := bind_eq_some k1
    obtain ⟨z2, r3, e3, k3⟩ := bind_eq_some k2
    obtain ⟨_, r4, e4, _⟩ := bind_eq_some k3
    have hz := (guard_eq_some e4).1
    simp only [Bool.and_eq_true, beq_iff_eq] at hz
    obtain ⟨⟨_, hz1⟩, _⟩ := hz
    subst hz1
    cases hd : decode c tsz wsz b with
    | none => rfl
    | some q =>
      obtain ⟨s', r'⟩ := q
      simp only [decode] at hd
      obtain ⟨pre, q1, f1, m1⟩ := bind_eq_some hd
      obtain ⟨ver, q2, f2, m2⟩ := bind_eq_some m1
      obtain ⟨typ, q3, f3, m3⟩ := bind_eq_some m2
      obtain ⟨_, q4, f4, m4⟩ := bind_eq_some m3
      obtain ⟨_, q5, f5, _⟩ := bind_eq_some m4
      have hver := (guard_eq_some f5).1
      simp only [beq_iff_eq] at hver
      rw [e1] at f1
      simp only [Option.some.injEq, Prod.mk.injEq] at f1
      rw [← f1.2, e2] at f2
      simp only [Option.some.injEq, Prod.mk.injEq] at f2
      exact absurd (f2.1.trans hver).symm hv

/-- an `asBytes` image: min 1.0, max 3.0, compression 100.0, centroids (weight 1.0, mean 1.0), (weight 2.0, mean 3.0) -/
def exBig : Legacy := .big 0x3ff0000000000000 0x4008000000000000 0x4059000000000000
  [(0x3ff0000000000000, 0x3ff0000000000000), (0x4000000000000000, 0x4008000000000000)]
/-- an `asSmallBytes` image with float centroids -/
def exSmall : Legacy := .small 0x3ff0000000000000 0x4008000000000000 0x42c80000 210 1050
  [(0x3f800000, 0x3f800000), (0x40000000, 0x40400000)]

example : WFLegacy exBig ∧ WFLegacy exSmall := by decide
example : decodeLegacy genConsts (encodeLegacy genConsts exBig ++ [9]) = some (exBig, [9]) := by decide
example : (encodeLegacy documented exSmall).take 30 =
    [0, 0, 0, 2,  0x3f, 0xf0, 0, 0, 0, 0, 0, 0,  0x40, 0x08, 0, 0, 0, 0, 0, 0,  0x42, 0xc8, 0, 0,  0, 210, 4, 26,  0, 2] := by decide
example : encode documented 4 4 { k := 300, reverse := true, body := .single 0x3f800000 } =
    [1, 1, 20, 44, 1, 6, 0, 0, 0, 0, 0x80, 0x3f] := by decide

end DS.Wire.TDigest

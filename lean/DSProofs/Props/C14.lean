/-
C14 — Count-min never under-estimates and is linear under merge.

ONLY property theorems and their non-vacuity examples live here (helper lemmas: Lemmas/CountMin*.lean).
Model: DSModel/CountMin/Basic.lean (tied to count/include/count_min_impl.hpp by `./check C14`); the
specification functions `trueWeight`, `totalAbs`, `cellSum`, `negOther`, `posOther` are in DSModel/CountMin/Spec.lean.

Quantifiers.  Every statement holds for
  * every row-hash function `h : ι → Nat → Nat` (in the code: MurmurHash3 under the per-row seeds; nothing about
    the hash is used) and every item type `ι`,
  * every configuration `c` (any numHashes ≥ 1 where an estimate is involved, any numBuckets ≥ 1 — in particular
    every numBuckets ≥ 3 the constructor admits — any seed),
  * every finite stream `ops : List (ι × W)` and every merge tree `t : MTree ι W` (leaves = streams, inner nodes =
    merge of the two subtrees followed by further updates),
  * every weight type `W` satisfying `WeightLaws` = exact arithmetic of an ordered commutative monoid with the code's
    `|w| = (w >= 0 ? w : -w)`; instances: `Int` (int64_t / uint64_t without overflow) and `Rat` (double without
    rounding).  Overflow and floating-point rounding are NOT modelled.

Negative weights (what the code does: cells get the signed weight, total gets |w|, the estimate is still the row
minimum): `cm_bounds_order`, `cm_total_abs`, `cm_merge_linear`, `cm_merge_refuses`, `cm_roundtrip` hold unchanged;
never-under does NOT (`cm_negative_can_under`); what holds instead is `cm_signed_range` (−total ≤ estimate ≤ total)
and the two-sided `cm_signed_bracket`, of which `cm_never_under` is the special case without negative weights.

Constructor: `cm_ctor_sound` / `cm_ctor_full_false` (the current 32-bit size product accepts some configurations
with a too-small array; open known finding `ctor-size-product-overflow`, witness replayed by the check).
-/
import DSProofs.Lemmas.CountMinRat
import DSGen.CountMin
namespace DS.CountMin
set_option linter.unusedSectionVars false

variable {W : Type} [Weight W] [WeightLaws W] {ι : Type} [DecidableEq ι]
open WeightLaws

/-- the estimate is the minimum over the rows of the EXACT count of the item's cell in that row
(`cellSum` = sum of the weights of all updates whose item falls into that cell) -/
theorem cm_estimate_is_row_min (c : Cfg) (h : ι → Nat → Nat) (hnh : 1 ≤ c.numHashes) (hnb : 1 ≤ c.numBuckets)
    (ops : List (ι × W)) (x : ι) :
    (∃ r, r < c.numHashes ∧ estimate h (run c h ops) x = cellSum c h (cellIdx c h x r) ops) ∧
    ∀ r, r < c.numHashes → estimate h (run c h ops) x ≤ʷ cellSum c h (cellIdx c h x r) ops := by
  constructor
  · obtain ⟨r, hr, he⟩ := estimate_mem h (run c h ops) x (by rw [run_cfg]; exact hnh)
    rw [run_cfg] at hr
    exact ⟨r, hr, by rw [he, run_cellAt c h ops hnb x hr]⟩
  · intro r hr
    have := estimate_le_row h (run c h ops) x (r := r) (by rw [run_cfg]; exact hr)
    rwa [run_cellAt c h ops hnb x hr] at this

/-- NEVER UNDER: for a stream of non-negative weights, true weight ≤ estimate ≤ total weight, for every item
(present or absent). -/
theorem cm_never_under (c : Cfg) (h : ι → Nat → Nat) (hnh : 1 ≤ c.numHashes) (hnb : 1 ≤ c.numBuckets)
    (ops : List (ι × W)) (hpos : ∀ o ∈ ops, (𝟘 : W) ≤ʷ o.2) (x : ι) :
    trueWeight x ops ≤ʷ estimate h (run c h ops) x ∧ estimate h (run c h ops) x ≤ʷ (run c h ops).total := by
  obtain ⟨⟨r, hr, he⟩, _⟩ := cm_estimate_is_row_min c h hnh hnb ops x
  rw [he, run_total]
  exact ⟨trueAcc_le_cellAcc c h x _ (hits_cellIdx c h x hr hnb) ops _ _ hpos (le_refl _),
         cellAcc_le_totalAcc c h _ ops _ _ (le_refl _)⟩

/-- BOUNDS ORDER: lb ≤ estimate ≤ ub, for every stream (signed weights included).  The upper bound's arithmetic
`u numBuckets estimate total` (= `static_cast<W>(estimate + e/numBuckets * total)`) enters only through
`0 ≤ total → estimate ≤ u nb estimate total`; `ubExactInt` / `ubExactRat` (the coded formula in exact arithmetic,
with truncation toward zero for integer `W`) satisfy it, see the examples below. -/
theorem cm_bounds_order (c : Cfg) (h : ι → Nat → Nat) (ops : List (ι × W)) (x : ι) (u : Nat → W → W → W)
    (hu : ∀ nb e t, (𝟘 : W) ≤ʷ t → e ≤ʷ u nb e t) :
    lowerBound h (run c h ops) x ≤ʷ estimate h (run c h ops) x ∧
    estimate h (run c h ops) x ≤ʷ upperBound u h (run c h ops) x := by
  refine ⟨le_refl _, ?_⟩
  unfold upperBound
  apply hu
  rw [run_total]
  exact totalAcc_nonneg ops _ (le_refl _)

/-- TOTAL: total weight = Σ |w| (holds for every `Weight W`, no laws needed). -/
theorem cm_total_abs (c : Cfg) (h : ι → Nat → Nat) (ops : List (ι × W)) :
    (run c h ops).total = totalAbs ops := run_total c h ops

/-- every cell holds exactly the sum of the weights of the updates that hit it; nothing outside the array -/
theorem cm_cells_exact (c : Cfg) (h : ι → Nat → Nat) (hnb : 1 ≤ c.numBuckets) (ops : List (ι × W)) (i : Nat) :
    (run c h ops).cells[i]? = if i < c.numHashes * c.numBuckets then some (cellSum c h i ops) else none :=
  run_cells c h ops hnb i

/-- MERGE LINEARITY: for every merge tree over sketches of one configuration, no merge is refused and the result
is EXACTLY (configuration, all cells, total) the single sketch fed the concatenated streams ... -/
theorem cm_merge_linear (c : Cfg) (h : ι → Nat → Nat) (hnb : 1 ≤ c.numBuckets) (t : MTree ι W) :
    t.evalO c h = some (run c h t.stream) := by
  induction t with
  | leaf ops => rfl
  | node l r more ihl ihr =>
    simp only [MTree.evalO, ihl, ihr]
    have hc : compatible (run c h l.stream).cfg (run c h r.stream).cfg = true := by simp [compatible]
    simp only [merge, hc, if_true, Option.map_some]
    rw [runFrom_mergeCore_run c h hnb]; rfl

/-- ... hence so are all estimates and bounds. -/
theorem cm_merge_linear_estimates (c : Cfg) (h : ι → Nat → Nat) (hnb : 1 ≤ c.numBuckets) (t : MTree ι W) (x : ι)
    (u : Nat → W → W → W) :
    ∃ s, t.evalO c h = some s ∧ estimate h s x = estimate h (run c h t.stream) x ∧
      lowerBound h s x = lowerBound h (run c h t.stream) x ∧
      upperBound u h s x = upperBound u h (run c h t.stream) x ∧ s.total = totalAbs t.stream :=
  ⟨_, cm_merge_linear c h hnb t, rfl, rfl, rfl, run_total c h _⟩

/-- one merge step, cell by cell: cells add, totals add -/
theorem cm_merge_cellwise (a b : St W) (hc : a.cfg = b.cfg) (i : Nat) :
    ∃ m, merge a b = some m ∧ m.cfg = a.cfg ∧ m.total = a.total +ʷ b.total ∧
      m.cells[i]? = (a.cells[i]?).bind (fun u => (b.cells[i]?).map (fun v => u +ʷ v)) := by
  have : compatible a.cfg b.cfg = true := by rw [hc]; simp [compatible]
  exact ⟨mergeCore a b, by simp [merge, this], rfl, rfl, mergeCore_cells a b i⟩

/-- MERGE REFUSES: a sketch is not merged with itself, nor with a sketch of different numHashes, numBuckets or
seed; every other merge is accepted. -/
theorem cm_merge_refuses (i j : Nat) (a b : St W) :
    (i = j → mergeObj i j a b = none) ∧
    (a.cfg ≠ b.cfg → merge a b = none ∧ mergeObj i j a b = none) ∧
    (i ≠ j → a.cfg = b.cfg → mergeObj i j a b = some (mergeCore a b)) := by
  refine ⟨fun hij => by simp [mergeObj, hij], fun hne => ?_, fun hij hc => ?_⟩
  · have : compatible a.cfg b.cfg = false := by
      cases hc : compatible a.cfg b.cfg
      · rfl
      · exfalso; apply hne
        simp only [compatible, Bool.and_eq_true, beq_iff_eq] at hc
        cases ha : a.cfg; cases hb : b.cfg
        rw [ha, hb] at hc; simp only at hc
        obtain ⟨⟨h1, h2⟩, h3⟩ := hc
        rw [h1, h2, h3]
    simp [mergeObj, merge, this]
  · have : compatible a.cfg b.cfg = true := by rw [hc]; simp [compatible]
    simp [mergeObj, merge, this, hij]

/-- ROUND TRIP: deserialize(serialize(s)) = s for every reachable state (an "empty" image carries no cells, and a
reachable state with total 0 has only zero cells); with the writer's seed the reader accepts. -/
theorem cm_roundtrip (c : Cfg) (h : ι → Nat → Nat) (hnb : 1 ≤ c.numBuckets) (ops : List (ι × W)) (sh : Nat → Nat) :
    roundTrip (run c h ops) = run c h ops ∧
    roundTripSeed sh (run c h ops) c.seed = some (run c h ops) := by
  have h1 := roundTrip_run c h hnb ops
  refine ⟨h1, ?_⟩
  unfold roundTripSeed
  rw [h1]
  have hcfg := run_cfg c h ops
  generalize run c h ops = s at hcfg ⊢
  cases s with | mk cfg cells total => cases cfg; cases hcfg; simp

/-- SIGNED WEIGHTS, range: every estimate lies in [−total, total] (second part stated as 0 ≤ estimate + total). -/
theorem cm_signed_range (c : Cfg) (h : ι → Nat → Nat) (hnh : 1 ≤ c.numHashes) (hnb : 1 ≤ c.numBuckets)
    (ops : List (ι × W)) (x : ι) :
    estimate h (run c h ops) x ≤ʷ (run c h ops).total ∧
    (𝟘 : W) ≤ʷ (estimate h (run c h ops) x +ʷ (run c h ops).total) := by
  obtain ⟨⟨r, _, he⟩, _⟩ := cm_estimate_is_row_min c h hnh hnb ops x
  rw [he, run_total]
  refine ⟨cellAcc_le_totalAcc c h _ ops _ _ (le_refl _), cellAcc_add_totalAcc_nonneg c h _ ops _ _ ?_⟩
  rw [WeightLaws.zero_add]; exact le_refl _

/-- SIGNED WEIGHTS, bracket: true(x) − N ≤ estimate(x) ≤ true(x) + P where N = Σ|w| over the negative updates of
OTHER items and P = Σ w over the non-negative updates of other items (stated without subtraction).
With no negative weights N = 0: this is never-under. -/
theorem cm_signed_bracket (c : Cfg) (h : ι → Nat → Nat) (hnh : 1 ≤ c.numHashes) (hnb : 1 ≤ c.numBuckets)
    (ops : List (ι × W)) (x : ι) :
    trueWeight x ops ≤ʷ (estimate h (run c h ops) x +ʷ negOther x ops) ∧
    estimate h (run c h ops) x ≤ʷ (trueWeight x ops +ʷ posOther x ops) := by
  obtain ⟨⟨r, hr, he⟩, _⟩ := cm_estimate_is_row_min c h hnh hnb ops x
  rw [he]
  have hx := hits_cellIdx c h x hr hnb
  exact ⟨trueAcc_le_cellAcc_add_negAcc c h x _ hx ops _ _ _ (by rw [add_zero]; exact le_refl _),
         cellAcc_le_trueAcc_add_posAcc c h x _ hx ops _ _ _ (by rw [add_zero]; exact le_refl _)⟩

/-- never-under is FALSE once a negative weight occurs: two items sharing every cell, weights +5 and −3. -/
theorem cm_negative_can_under :
    ∃ (c : Cfg) (h : Nat → Nat → Nat) (ops : List (Nat × Int)) (x : Nat),
      1 ≤ c.numHashes ∧ 3 ≤ c.numBuckets ∧ estimate h (run c h ops) x < trueWeight x ops :=
  ⟨⟨2, 3, 0⟩, fun _ _ => 0, [(0, 5), (1, -3)], 0, by decide, by decide, by decide⟩

/-! ### constructor argument checks -/

/-- the constructor refuses fewer than `minBuckets` buckets, and what it accepts WITHOUT wrap-around of the size
product is a sketch with the full numHashes × numBuckets zero array and numHashes·numBuckets < maxCells. -/
theorem cm_ctor_sound (p : CtorParams) (nh nb seed : Nat) :
    (nb < p.minBuckets → (construct p nh nb seed : Option (St W)) = none) ∧
    (∀ s : St W, construct p nh nb seed = some s → nh * nb < 2 ^ p.arithBits →
      s = init ⟨nh, nb, seed⟩ ∧ p.minBuckets ≤ nb ∧ nh * nb < p.maxCells) := by
  refine ⟨fun hlt => ?_, fun s hs hw => construct_some p nh nb seed s hs hw⟩
  simp [construct, ctorOk, hlt]

/-- FULL statement about the constructor: every (uint8_t, uint32_t) argument pair it accepts yields a sketch
with the full array (so that all theorems above apply to it). -/
def cm_ctor_full (p : CtorParams) : Prop :=
  ∀ (nh nb seed : Nat) (s : St Int), nh < 2 ^ 8 → nb < 2 ^ 32 → construct p nh nb seed = some s →
    s = init ⟨nh, nb, seed⟩

/-- it holds when the size product cannot wrap (≥ 40-bit arithmetic) ... -/
theorem cm_ctor_full_of_wide (p : CtorParams) (hw : 40 ≤ p.arithBits) : cm_ctor_full p := by
  intro nh nb seed s hnh hnb hs
  have h1 : nh * nb < 2 ^ 8 * 2 ^ 32 := Nat.mul_lt_mul'' hnh hnb
  have h2 : 2 ^ 8 * 2 ^ 32 ≤ 2 ^ p.arithBits := by
    rw [← Nat.pow_add]; exact Nat.pow_le_pow_right (by decide) hw
  exact (construct_some p nh nb seed s hs (by omega)).1

/-- ... in particular for the constructor guard as the header has it NOW (limits and arithmetic width regenerated from
count_min_impl.hpp on every run) -/
theorem cm_ctor_full_current :
    cm_ctor_full ⟨DSGen.countmin_MIN_BUCKETS, DSGen.countmin_MAX_CELLS, DSGen.countmin_SIZE_ARITH_BITS⟩ :=
  cm_ctor_full_of_wide _ (by decide)

/-- ... and was FALSE for the pinned code (minBuckets 3, maxCells 2^30, 32-bit product): 4 hashes × 2^30 buckets
is accepted with an empty array.  Replayed on the real code by the fixed history of vlib/props/c14.py. -/
theorem cm_ctor_full_false : ¬ cm_ctor_full ⟨3, 2 ^ 30, 32⟩ := by
  intro hf
  have h := hf 4 (2 ^ 30) 0 ⟨⟨4, 2 ^ 30, 0⟩, #[], 0⟩ (by decide) (by decide) (by rfl)
  have h2 := congrArg (fun s => s.cells.size) h
  simp [init] at h2

/-! ### non-vacuity: a concrete stream with collisions -/

def exCfg : Cfg := ⟨2, 3, 9001⟩
def exHash : Nat → Nat → Nat := fun x r => x + r * (x / 2)
def exOps : List (Nat × Int) := [(0, 2), (1, 3), (0, 1), (4, 5), (3, 0), (7, 4)]
example : (∀ o ∈ exOps, (𝟘 : Int) ≤ʷ o.2) := by show ∀ o ∈ exOps, (0 : Int) ≤ o.2; decide
example : trueWeight 1 exOps = 3 ∧ estimate exHash (run exCfg exHash exOps) 1 = 7 ∧
    (run exCfg exHash exOps).total = 15 ∧ trueWeight 3 exOps = 0 ∧ estimate exHash (run exCfg exHash exOps) 3 = 3 := by decide
example : (run exCfg exHash exOps).cells = #[3, 12, 0, 8, 7, 0] := by decide
/-- the coded upper-bound formulas satisfy the hypothesis of `cm_bounds_order` for every constant E ≥ 0 -/
example (E : ℚ) (hE : 0 ≤ E) : ∀ nb e t, (𝟘 : Int) ≤ʷ t → e ≤ʷ ubExactInt E nb e t := ubExactInt_ge E hE
example (E : ℚ) (hE : 0 ≤ E) : ∀ nb e t, (𝟘 : ℚ) ≤ʷ t → e ≤ʷ ubExactRat E nb e t := ubExactRat_ge E hE
example : ubExactInt (2718281828 / 1000000000) 3 7 15 = 20 := by
  unfold ubExactInt truncQ; norm_num
/-- a merge tree with updates at the inner node -/
def exTree : MTree Nat Int := .node (.leaf [(0, 2), (1, 3)]) (.node (.leaf [(0, 1)]) (.leaf [(4, 5)]) [(3, 0)]) [(7, 4)]
example : exTree.stream = exOps ∧ exTree.evalO exCfg exHash = some (run exCfg exHash exOps) :=
  ⟨by decide, cm_merge_linear exCfg exHash (by decide) exTree⟩
/-- signed stream: the bracket is tight here (true 5, estimate 2, N = 3) -/
example : trueWeight 0 [(0, (5 : Int)), (1, -3)] = 5 ∧ negOther 0 [(0, (5 : Int)), (1, -3)] = 3 ∧
    estimate (fun _ _ => 0) (run ⟨2, 3, 0⟩ (fun _ _ => 0) [(0, (5 : Int)), (1, -3)]) 0 = 2 := by decide

end DS.CountMin

import DSModel.CountMin.Basic
namespace DS.CountMin
theorem placeholder : True := trivial
end DS.CountMin

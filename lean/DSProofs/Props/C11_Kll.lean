/-
C11 (KLL) — truncated images are rejected by the specification reader; no count field makes it read or
allocate beyond the input.

ONLY property theorems and their non-vacuity examples.  The specification reader `Kll.decode` is built only
from bounds-checked combinators; `./check c11_quant` holds the real `kll_sketch::deserialize` (bytes and
stream) to its verdict on EVERY strict prefix of every generated image under ASan/UBSan.
-/
import DSProofs.Props.C09_Kll
namespace DS.Wire.Kll
open Reader

theorem decodeFull_PS (sd : Serde) (hs : sd.Lawful) (c : Cfg) (k : Nat) (lz : Bool) : PS (decodeFull sd c k lz) :=
  PS_bind _ _ PS_u64 fun _ => PS_bind _ _ PS_u16 fun _ => PS_bind _ _ PS_u8 fun _ => PS_bind _ _ PS_u8 fun _ =>
  PS_bind _ _ (PS_guard _) fun _ => PS_bind _ _ (PS_repeatN _ PS_u32 _) fun _ => PS_bind _ _ (PS_guard _) fun _ =>
  PS_bind _ _ hs.ps fun _ => PS_bind _ _ hs.ps fun _ => PS_bind _ _ (PS_repeatN _ hs.ps _) fun _ => PS_pure _

theorem decodeBody_PS (sd : Serde) (hs : sd.Lawful) (c : Cfg) (pre ver flags k : Nat) :
    PS (decodeBody sd c pre ver flags k) := by
  unfold decodeBody
  split
  · exact PS_bind _ _ (PS_guard _) fun _ => PS_pure _
  · split
    · exact PS_bind _ _ (PS_guard _) fun _ => PS_bind _ _ hs.ps fun _ => PS_pure _
    · exact PS_bind _ _ (PS_guard _) fun _ => decodeFull_PS sd hs c k _

/-- the specification reader is prefix-safe (one line per combinator) -/
theorem decode_PS (sd : Serde) (hs : sd.Lawful) (c : Cfg) : PS (decode sd c) :=
  PS_bind _ _ PS_u8 fun _ => PS_bind _ _ PS_u8 fun _ => PS_bind _ _ PS_u8 fun _ => PS_bind _ _ PS_u8 fun _ =>
  PS_bind _ _ PS_u16 fun _ => PS_bind _ _ PS_u8 fun _ => PS_bind _ _ PS_u8 fun _ => PS_bind _ _ (PS_guard _) fun _ =>
  decodeBody_PS sd hs c _ _ _ _

/-- EVERY strict prefix of a well-formed image is rejected (the KLL image has no information-free padding) -/
theorem prefix_rejected (sd : Serde) (hs : sd.Lawful) (c : Cfg) (hc : CfgOK c) (s : Image) (hw : WF sd c s = true)
    (n : Nat) (hn : n < (encode sd c s).length) : decode sd c ((encode sd c s).take n) = none := by
  have hd := decode_encode sd hs c hc s [] hw
  rw [List.append_nil] at hd
  exact DS.Wire.prefix_rejected (decode sd c) (decode_PS sd hs c) _ s hd n hn

theorem decodeFull_bounded (sd : Serde) (hs : sd.Lawful) (c : Cfg) (k : Nat) (lz : Bool) (b r : Bytes) (s : Image)
    (h : decodeFull sd c k lz b = some (s, r)) : s.count ≤ b.length := by
  simp only [decodeFull] at h
  obtain ⟨n, r1, h1, h⟩ := bind_inv h
  obtain ⟨mk, r2, h2, h⟩ := bind_inv h
  obtain ⟨nl, r3, h3, h⟩ := bind_inv h
  obtain ⟨un, r4, h4, h⟩ := bind_inv h
  obtain ⟨u5, r5, h5, h⟩ := bind_inv h
  obtain ⟨lv, r6, h6, h⟩ := bind_inv h
  obtain ⟨u7, r7, h7, h⟩ := bind_inv h
  obtain ⟨mn, r8, h8, h⟩ := bind_inv h
  obtain ⟨mx, r9, h9, h⟩ := bind_inv h
  obtain ⟨its, r10, h10, h⟩ := bind_inv h
  obtain ⟨hs1, _⟩ := pure_inv h
  subst hs1
  have l1 := PS_len PS_u64 h1
  have l2 := PS_len PS_u16 h2
  have l3 := PS_len PS_u8 h3
  have l4 := PS_len PS_u8 h4
  have l5 := (guard_inv h5).2
  have l6 := PS_len (PS_repeatN _ PS_u32 _) h6
  have l7 := (guard_inv h7).2
  have l8 := PS_len hs.ps h8
  have l9 := PS_len hs.ps h9
  obtain ⟨hl, hb⟩ := repeatN_bound sd.dec hs.progress _ _ _ _ h10
  subst l5; subst l7
  simp only [Image.count, hl]
  omega

/-- a successful decode of `b` yields an image holding at most `|b|` retained items: the item count
(derived from k, num_levels and levels[0]) cannot make the specification reader produce more than the input holds -/
theorem decode_bounded (sd : Serde) (hs : sd.Lawful) (c : Cfg) (b r : Bytes) (s : Image)
    (h : decode sd c b = some (s, r)) : s.count ≤ b.length := by
  simp only [decode] at h
  obtain ⟨pre, r1, h1, h⟩ := bind_inv h
  obtain ⟨ver, r2, h2, h⟩ := bind_inv h
  obtain ⟨fam, r3, h3, h⟩ := bind_inv h
  obtain ⟨fl, r4, h4, h⟩ := bind_inv h
  obtain ⟨k, r5, h5, h⟩ := bind_inv h
  obtain ⟨m, r6, h6, h⟩ := bind_inv h
  obtain ⟨un, r7, h7, h⟩ := bind_inv h
  obtain ⟨u8', r8, h8, h⟩ := bind_inv h
  have l1 := PS_len PS_u8 h1
  have l2 := PS_len PS_u8 h2
  have l3 := PS_len PS_u8 h3
  have l4 := PS_len PS_u8 h4
  have l5 := PS_len PS_u16 h5
  have l6 := PS_len PS_u8 h6
  have l7 := leNat_len 1 _ _ _ h7
  have l8 := congrArg List.length (guard_inv h8).2
  unfold decodeBody at h
  split at h
  · obtain ⟨u9, r9, _, h⟩ := bind_inv h
    obtain ⟨hs1, _⟩ := pure_inv h
    subst hs1; simp [Image.count]
  · split at h
    · obtain ⟨u9, r9, _, h⟩ := bind_inv h
      obtain ⟨it, r10, _, h⟩ := bind_inv h
      obtain ⟨hs1, _⟩ := pure_inv h
      subst hs1; simp only [Image.count]; omega
    · obtain ⟨u9, r9, h9, h⟩ := bind_inv h
      have l9 := congrArg List.length (guard_inv h9).2
      have := decodeFull_bounded sd hs c k _ _ _ _ h
      omega

/-- non-vacuity: truncating the two-level example image after 30 of its 68 bytes is rejected -/
example : decode (Serde.fixed 8) docCfg
    ((encode (Serde.fixed 8) docCfg (.full 8 true 4 8 [13, 15] [1,0,0,0,0,0,0,0] [4,0,0,0,0,0,0,0]
      [[1,0,0,0,0,0,0,0], [4,0,0,0,0,0,0,0], [3,0,0,0,0,0,0,0]])).take 30) = none := by decide

/-- prefix rejection at the constants of the current headers (what `./check c11_quant` compares the real readers with) -/
theorem prefix_rejected_code (sd : Serde) (hs : sd.Lawful) (s : Image) (hw : WF sd codeCfg s = true)
    (n : Nat) (hn : n < (encode sd codeCfg s).length) : decode sd codeCfg ((encode sd codeCfg s).take n) = none :=
  prefix_rejected sd hs codeCfg codeCfg_ok s hw n hn

end DS.Wire.Kll

/-
C10 (VarOpt sketch and union part) — the wire constants extracted from the CURRENT headers equal the documented values.

Documented contract ("Serialized sketch layout" comments in var_opt_sketch_impl.hpp:255-292 and var_opt_union_impl.hpp; Java
VarOptItemsSketch / VarOptItemsUnion): sketch family 13, union family 14, serial version 2 for both; sketch preamble
longs 1 / 3 / 4 in the low 6 bits of byte 0 with the resize factor in the high 2 bits; flags 4 = empty, 128 = gadget;
union preamble longs 1 / 4, flag 4 = empty; k ≤ 2^31 − 2; marks packed 8 per byte, item i in bit (i mod 8).
Also pinned: the reader-side literals agree with the writer-side ones.  Field order (n, h, r, total_wt_r, weights, marks,
H items, R items; union: max_k, n, outer tau numerator, denominator, gadget) is part of `encode`/`decode`, tied to
the code by the two-phase check and the committed baseline corpus (corpus/baseline/varopt).
-/
import DSModel.Wire.VarOptGen
namespace DS.Wire.VarOpt

/-- every wire constant of the current headers has its documented value (sketch, union, reader = writer literals) -/
theorem wire_consts_documented : generated = documented ∧ generatedU = documentedU ∧ readerWriterAgree := by decide

/-- documented byte 0 of a full-mode image written with resize factor X8: 4 | (3 << 6) = 0xC4; marks LSB-first -/
example : firstByte documented 4 3 = 0xC4 := by decide
example : packMarks [true, false, false, true, false, false, false, false, true] = [0x09, 0x01] := by decide

end DS.Wire.VarOpt

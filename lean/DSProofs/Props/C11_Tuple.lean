/-
C11 (compact tuple sketch images) — truncated images are rejected, counts cannot outrun the input.
ONLY property theorems and their non-vacuity examples.
-/
import DSProofs.Lemmas.WireTuple
namespace DS.Wire.Tuple
open DS.Wire

variable {σ : Type}

theorem decode_PS (c : Consts) (cd : Codec σ) (hl : Laws cd) (exp : Nat) : PS (decode c cd exp) := PS_decode c cd hl exp

/-- every strict prefix of an image (current or legacy version bytes) is rejected. -/
theorem prefix_rejected (c : Consts) (hc : c.ok = true) (cd : Codec σ) (hl : Laws cd) (s : Image σ) (hwf : WF cd s) (exp : Nat)
    (hseed : s.isEmpty = true ∨ s.seedHash = exp) (n : Nat) :
    (n < (encode c cd s).length → decode c cd exp ((encode c cd s).take n) = none) ∧
    (n < (encodeLegacy c cd s).length → decode c cd exp ((encodeLegacy c cd s).take n) = none) := by
  constructor
  · intro hn
    have h := decode_encodeWith (COk.of_ok hc) cd hl _ _ (Or.inl rfl) (Or.inl rfl) s hwf exp hseed []
    rw [List.append_nil] at h
    exact DS.Wire.prefix_rejected _ (PS_decode c cd hl exp) _ s h n hn
  · intro hn
    have h := decode_encodeWith (COk.of_ok hc) cd hl _ _ (Or.inr rfl) (Or.inr rfl) s hwf exp hseed []
    rw [List.append_nil] at h
    exact DS.Wire.prefix_rejected _ (PS_decode c cd hl exp) _ s h n hn

/-- a successful decode of any bytes returns at most one entry per 8 consumed bytes (stated with factor 8 as for theta). -/
theorem decode_bounded (c : Consts) (cd : Codec σ) (hl : Laws cd) (exp : Nat) (b : Bytes) (s : Image σ) (r : Bytes)
    (h : decode c cd exp b = some (s, r)) : s.entries.length + 8 * r.length ≤ 8 * b.length :=
  bounded_decode c cd hl exp b s r h

example : decode documented u64Codec 37836 [2, 3, 9, 1, 0, 0x1a, 0xcc, 0x93, 0xff, 0xff, 0xff, 0xff, 0, 0, 0, 0] = none := by decide

end DS.Wire.Tuple

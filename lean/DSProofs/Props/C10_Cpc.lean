/-
C10 (CPC part) — the documented cross-language layout.

ONLY property theorems + non-vacuity examples.  `DSModel/Wire/Cpc.lean` `encode` / `decode` ARE the documented layout
(field order and widths transcribed from cpc_sketch_impl.hpp `serialize` / `deserialize` and the Java/C++ format
description: family 16, serial version 1, flags byte, preamble ints per flavor).  Every wire constant the translator
(tools/trules/wire_cpc.py) re-extracts from the CURRENT headers must equal the documented value written here by hand:
a consistent writer+reader change (another family id, another flag bit, another field order) still round-trips, and
is caught here.  CPC has one serial version and no legacy formats.
-/
import DSModel.Wire.CpcGen
import DSGen.Cpc
namespace DS.Wire.Cpc
open DS.Wire

/-- field codes of the documented order: 0 preamble ints · 1 serial version · 2 family · 3 lg_k · 4 first interesting column ·
5 flags · 6 seed hash · 7 num coupons · 8 table num entries · 9 HIP registers (kxp, hip accumulator) · 10 table data words ·
11 window data words · (9 HIP registers in their second position) · 12 window data · 13 table data -/
def documentedOrder : List Nat := [0, 1, 2, 3, 4, 5, 6, 7, 8, 9, 10, 11, 9, 12, 13]

/-- widths of the seven fixed header fields, hence the documented byte offsets 0,1,2,3,4,5,6 and the 8-byte fixed part -/
def documentedHeaderWidths : List Nat := [1, 1, 1, 1, 1, 1, 2]

def offsetsOf (ws : List Nat) : List Nat := (ws.foldl (fun (acc : List Nat × Nat) w => (acc.1 ++ [acc.2], acc.2 + w)) ([], 0)).1

/-- **every wire constant of the current headers equals the documented value** -/
theorem wire_consts_documented :
    generated = documented ∧
    DSGen.wirecpc_ORDER_SER_STREAM = documentedOrder ∧ DSGen.wirecpc_ORDER_SER_BYTES = documentedOrder ∧
    DSGen.wirecpc_ORDER_DES_STREAM = documentedOrder ∧ DSGen.wirecpc_ORDER_DES_BYTES = documentedOrder ∧
    DSGen.wirecpc_HEADER_WIDTHS = documentedHeaderWidths ∧
    offsetsOf DSGen.wirecpc_HEADER_WIDTHS = [0, 1, 2, 3, 4, 5, 6] ∧ DSGen.wirecpc_HEADER_WIDTHS.sum = 8 := by
  decide

/-- preamble ints per flavor under the documented constants: empty 2; sparse/hybrid (table only) 4 merged, 8 with HIP;
pinned/sliding without surprising values (window only) 4 / 8; with both 6 / 10 -/
theorem preamble_ints_documented :
    preInts documented 0 true false false = 2 ∧ preInts documented 0 false false false = 2 ∧
    preInts documented 1 false true false = 4 ∧ preInts documented 1 true true false = 8 ∧
    preInts documented 1 false false true = 4 ∧ preInts documented 1 true false true = 8 ∧
    preInts documented 1 false true true = 6 ∧ preInts documented 1 true true true = 10 := by
  decide

/-- the flags byte per combination under the documented constants (compressed bit always set, big-endian bit never) -/
theorem flags_documented :
    flagsByte documented false false false = 0x02 ∧ flagsByte documented true false false = 0x06 ∧
    flagsByte documented true true false = 0x0e ∧ flagsByte documented false true false = 0x0a ∧
    flagsByte documented true false true = 0x16 ∧ flagsByte documented true true true = 0x1e ∧
    flagsByte documented false true true = 0x1a ∧ flagsByte documented false false true = 0x12 := by
  decide

/-- order-sensitive digest of a table (polynomial hash modulo 2^61 - 1) -/
def digest (l : List Nat) : Nat := l.foldl (fun a x => (a * 1000003 + x + 1) % 2305843009213693951) 7

/-- **the compression tables are part of the cross-language format**: the 22 Huffman tables, the 65-symbol x-delta table and the
16 column permutations regenerated from compression_data.hpp have the documented digests (a consistent change of a table
keeps every round trip and is caught here) -/
theorem compression_tables_documented :
    digest DSGen.cpc_ENC_TABLES.flatten = 410311389540784090 ∧ digest DSGen.cpc_UNARY65 = 2069375777614789736 ∧
    digest DSGen.cpc_COL_PERMS.flatten = 500374105028208345 := by
  decide +kernel

/-! Non-vacuity: the first bytes of an empty lg_k = 11 image with the default seed are the documented ones. -/
def exEmpty : Image :=
  { lgK := 11, fic := 0, seedHash := 37836, hasHip := true, hasTable := false, hasWindow := false,
    coupons := 0, numEntries := 0, kxp := 0, hip := 0, windowWords := [], tableWords := [] }
example : encode documented exEmpty = [2, 1, 16, 11, 0, 6, 0xcc, 0x93] := by decide

end DS.Wire.Cpc

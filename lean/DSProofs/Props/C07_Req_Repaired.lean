/-
C07 (REQ part), the statements that became true with the repairs f746338 (const_iterator skips empty compactors) and e01cb97
(get_quantile rejects a NaN rank).  The source shapes are read from the CURRENT headers by tools/trules/req.py into
`DSGen.req_ITER_SKIPS_EMPTY` / `DSGen.req_NAN_RANK_REJECTED`; the executed model (`Sketch.iterateF`, `Sketch.getQuantileF`) follows
these flags.  `C07_Req.lean` keeps the statements about the pinned shapes (`req_weight_conserved_full_false` is about the pinned
iterator `Sketch.iterate`).  Quantification as in C07_Req.lean: every admissible tunable set, every section schedule, every history,
every coin supply, every live object.
-/
import DSProofs.Lemmas.ReqIterF
import DSProofs.Props.C07_Req
namespace DS.Req

variable {ρ : Type}

/-- the flags as regenerated from the current headers -/
def genFlags : Flags := { iterSkipsEmpty := DSGen.req_ITER_SKIPS_EMPTY, nanRankRejected := DSGen.req_NAN_RANK_REJECTED }

/-- the source shapes in the headers NOW are the repaired ones -/
theorem req_iter_skips_empty_current : DSGen.req_ITER_SKIPS_EMPTY = true := by decide
theorem req_nan_rank_rejected_current : DSGen.req_NAN_RANK_REJECTED = true := by decide

/-- with the flag off, the flag-following iterator is the pinned one of C07_Req.lean -/
theorem req_iterateF_pinned (fl : Flags) (hfl : fl.iterSkipsEmpty = false) (s : Sketch ρ) : s.iterateF fl = s.iterate := by
  have hw : ∀ n a, itWalkF fl s.compactors n a = itWalk s.compactors n a := by
    intro n
    induction n with
    | zero => intro a; rfl
    | succ n ih => intro a; simp only [itWalkF, itWalk, itNextF, hfl, Bool.false_eq_true, if_false, ih]
  simp only [Sketch.iterateF, Sketch.iterate, itBeginF, hfl, Bool.false_eq_true, if_false, hw]

/-- weight_conserved, FULL statement, repaired iterator: for EVERY object of every history — the empty sketch included — iterating
`begin() … end()` reaches `end()` after exactly `num_retained` valid reads, yields the retained items level by level with weight
`2^lg_weight`, and the weights sum to n -/
theorem req_weight_conserved_repaired {T : Tun} (hT : TunOK T) (F : SecFns ρ) (ops : List Op) (coins : List Bool) (id : Nat) (s : Sketch ρ)
    (h : (run T F ops coins).1.get id = some s) (fl : Flags) (hfl : fl.iterSkipsEmpty = true) :
    ∃ l, s.iterateF fl = some l ∧ l.length = s.numRetained ∧ (l.map (·.2)).sum = s.n ∧
      l = s.compactors.flatMap (fun c => c.items.map (fun x => (x, 2 ^ c.lgWeight))) := by
  obtain ⟨_, h2⟩ := req_input_refines hT F ops coins id s h
  refine ⟨allPairs s.compactors, iterateF_repaired fl hfl s h2.ret, ?_, ?_, rfl⟩
  · rw [length_allPairs, h2.ret]
  · rw [sum_weights_allPairs, h2.tw]

/-- … and this is the iterator the current headers have -/
theorem req_weight_conserved_current {T : Tun} (hT : TunOK T) (F : SecFns ρ) (ops : List Op) (coins : List Bool) (id : Nat) (s : Sketch ρ)
    (h : (run T F ops coins).1.get id = some s) :
    ∃ l, s.iterateF genFlags = some l ∧ l.length = s.numRetained ∧ (l.map (·.2)).sum = s.n :=
  let ⟨l, a, b, c, _⟩ := req_weight_conserved_repaired hT F ops coins id s h genFlags req_iter_skips_empty_current
  ⟨l, a, b, c⟩

/-- the former witness: on the empty sketch the repaired iteration is empty (begin() == end()) -/
example : (Sketch.new pinTun (⟨fun _ => (), id, fun _ => 0⟩ : SecFns Unit) 4 false false).iterateF ⟨true, true⟩ = some [] := by decide +kernel

example : ∃ s : Sketch Unit, (run pinTun ⟨fun _ => (), id, fun _ => 0⟩ ([.new 0 4 false] ++ (List.range 30).map (fun i => Op.upd 0 (Int.ofNat i))) [true]).1.get 0 = some s
    ∧ (s.iterateF ⟨true, true⟩).map List.length = some 28 := ⟨_, rfl, by decide +kernel⟩

/-- invalid_rejected (REQ's `get_quantile`), repaired range check: a query is answered only for a non-empty sketch and a rank with
`rank >= 0 && rank <= 1` — both IEEE comparisons are false for NaN, so a NaN rank is rejected (the model executes the check with
Lean `Float`; that `NaN >= 0` is false is IEEE semantics, exercised on the real code and on the model by every run, not a kernel
fact) — and every such query IS answered; an empty sketch rejects every query -/
theorem req_invalid_rank_rejected_repaired (fl : Flags) (hfl : fl.nanRankRejected = true) (s : Sketch ρ) (rank : Float) (inclusive : Bool) :
    (∀ q, s.getQuantileF fl rank inclusive = some q → s.n ≠ 0 ∧ rank ≥ 0.0 ∧ rank ≤ 1.0) ∧
    (s.n ≠ 0 → rank ≥ 0.0 → rank ≤ 1.0 → ∃ q, s.getQuantileF fl rank inclusive = some q) ∧
    (s.n = 0 → s.getQuantileF fl rank inclusive = none) := by
  refine ⟨?_, ?_, ?_⟩
  · intro q hq
    simp only [Sketch.getQuantileF, rankAccepted, hfl, if_true] at hq
    split at hq
    · exact absurd hq (by simp)
    · rename_i hn
      split at hq
      · exact absurd hq (by simp)
      · rename_i hr
        simp only [Bool.not_eq_true', Bool.not_eq_false, Bool.and_eq_true, decide_eq_true_eq] at hr
        exact ⟨hn, hr.1, hr.2⟩
  · intro hn h1 h2
    refine ⟨SortedView.getQuantile s.sortedView rank inclusive, ?_⟩
    simp only [Sketch.getQuantileF, rankAccepted, hfl, if_true, hn, if_false]
    have : (decide (rank ≥ 0.0) && decide (rank ≤ 1.0)) = true := by simp [h1, h2]
    simp [this]
  · intro hn; simp [Sketch.getQuantileF, hn]

/-- … and this is the check the current headers have -/
theorem req_invalid_rank_rejected_current (s : Sketch ρ) (rank : Float) (inclusive : Bool) (q : Option Int)
    (h : s.getQuantileF genFlags rank inclusive = some q) : s.n ≠ 0 ∧ rank ≥ 0.0 ∧ rank ≤ 1.0 :=
  (req_invalid_rank_rejected_repaired genFlags req_nan_rank_rejected_current s rank inclusive).1 q h

end DS.Req

/-
C08, KLL part — KLL ranks are unbiased over the coin flips, and the number of flips does not depend on their outcomes.

Model: DSModel/Kll/Sketch.lean + History.lean (the same model as C07; every `random_bit` is a `flip` node of a coin
tree `CT`, executed by `CT.run` against an explicit coin sequence).  `W p s` is the total weight of the retained items
of sketch `s` satisfying a predicate `p`; with `p = isBelow lt y incl` ("≤ y" resp. "< y") it is the numerator of the
rank the sorted view reports (`view_of_sketch`, C07).  Every theorem is for every parameter set with `ParamsOk`,
every item type and strict weak order, every history of constructions / updates / merges (any tree, shared operands,
unequal k) / copies / view calls over any number of sketches, every sketch index, every predicate.
ONLY property theorems and examples live here (helper lemmas: Lemmas/KllShape.lean, KllFair.lean, KllFairHist.lean).
The generic mechanism theorem `sumAll_unbiased` is in Props/C08_Mechanism.lean.

Not decided here (stated in the claim): that the normalized rank error stays within `get_normalized_rank_error`
"at least as often as claimed" — the constants 2.296/k^0.9723, 2.446/k^0.9433 are empirical fits; only the formula
itself is tied to the code (correspondence check, `q err`).
-/
import DSProofs.Lemmas.KllFairHist
import DSProofs.Props.C08_Mechanism
namespace DS.Kll
open DS DS.SortedView DS.Mech

variable {α : Type}

/-! ### the number of flips and all shapes are functions of shapes only -/

/-- one operation: operands of the same shape (k, n, items_size, level sizes — contents and coins arbitrary) give coin
trees of the same structure (so the same number of flips on every path) whose results again have the same shape -/
theorem flips_shape_only_op (P : Params) (c : Cmp α) {s s' o o' : Sketch α} (hs : SS s s') (ho : SS o o') (x : α) :
    CT.Rel SS (updateT P c s x) (updateT P c s' x) ∧ CT.Rel SS (mergeT P c s o) (mergeT P c s' o') :=
  ⟨updateT_SS P c hs x, mergeT_SS P c hs ho⟩

/-- whole histories: every coin outcome consumes the same number `F` of flips, and all reachable states have the same
shapes (number of sketches, and per sketch k, n, capacity and level sizes) -/
theorem flips_shape_only (P : Params) (c : Cmp α) (ops : List (Op α)) :
    CT.Uniform (CT.depthLeft (runT P c ops [])) (runT P c ops []) ∧
    CT.leaves (runT P c ops []) = 2 ^ CT.depthLeft (runT P c ops []) ∧
    (∀ coins coins' : Coins, SSL (reach P c ops coins) (reach P c ops coins')) ∧
    (∀ coins : Coins, ((runT P c ops []).run coins).2.used = coins.used + CT.depthLeft (runT P c ops [])) := by
  have hrel := runT_SSL P c ops (SSL.refl ([] : List (Sketch α)))
  have hu := CT.Rel.uniform hrel
  refine ⟨hu, CT.Uniform.leaves hu, ?_, ?_⟩
  · intro coins coins'
    have h1 := CT.Rel.all hrel
    have h2 := CT.All.run h1 coins
    exact CT.All.run h2 coins'
  · intro coins
    have key : ∀ {σ : Type} (d : Nat) (t : CT σ), CT.Uniform d t → ∀ c : Coins, (t.run c).2.used = c.used + d := by
      intro σ d t
      induction t generalizing d with
      | ret s => intro h c; cases d with
        | zero => rfl
        | succ n => exact absurd h (by simp [CT.Uniform])
      | flip f ih => intro h c; cases d with
        | zero => exact absurd h (by simp [CT.Uniform])
        | succ n =>
          have := ih c.next.1 n (h c.next.1) c.next.2
          simp only [CT.run]
          rw [this]; simp only [Coins.next]; omega
    exact key _ _ hu coins

/-! ### one compaction is balanced -/

/-- `compress_while_updating` / one `general_compress` step: the two coin outcomes together carry exactly twice the
weight below (odd leftover stays; evens and odds of the rest partition it; each half goes up with doubled weight) -/
theorem compaction_balanced_kll (P : Params) (c : Cmp α) (p : α → Bool) (s : Sketch α) (lvl : Nat) (srt : Bool)
    (h : lvl + 1 < s.levels.length) :
    W p (compress P c s false) + W p (compress P c s true) = 2 * W p s ∧
    wb p 0 (compactAt c.lt srt false lvl s.levels) + wb p 0 (compactAt c.lt srt true lvl s.levels) = 2 * wb p 0 s.levels :=
  ⟨W_compress P c p s, wb_compactAt c.lt p srt lvl s.levels h⟩

/-! ### policy: a KLL update is a run of the generic mechanism -/

/-- the compaction done by `compress_while_updating` IS the micro-operation `compact lvl srt up` of the mechanism
(C08_Mechanism), with `lvl`, `srt`, `up` determined by the shape (and the level-0-sorted flag) only -/
theorem kll_schedule (P : Params) (c : Cmp α) (s : Sketch α) (coin : Bool)
    (hl : findLevel P s.k s.levels.length s.levels 0 < s.levels.length) (x : α) :
    let lvl := findLevel P s.k s.levels.length s.levels 0
    let up := ((extTop s.levels lvl).getD (lvl + 1) []).isEmpty
    (push (compress P c s coin) x).levels =
      mrun c.lt s.levels [.compact lvl (lvl == 0 && !s.sorted0) up, .add x] [coin] := by
  intro lvl up
  have hc : (compress P c s coin).levels = compactCore c.lt s.levels lvl (lvl == 0 && !s.sorted0) up coin := by
    rw [compress_eq]
    rw [if_neg (Nat.not_le.mpr hl)]
    rw [compactCore_eq]
    unfold compactAt extTop newAbove halfOf halfUpDown
    split
    · rename_i h1
      simp only [h1, BEq.rfl, if_true, up, lvl, extTop, getD_append_nil_nil]
    · rename_i h1
      have : (findLevel P s.k s.levels.length s.levels 0 + 1 == s.levels.length) = false := by simpa using h1
      simp only [this, Bool.false_eq_true, if_false, up, lvl, extTop]
  simp only [mrun, mstep, List.headD_cons, push, hc]

/-! ### unbiasedness for every history -/

/-- MAIN THEOREM.  Let `F` be the (outcome independent) number of flips of the history.  For every sketch `i` and
every predicate `p`, the weight of the retained items satisfying `p`, summed over ALL 2^F coin vectors, equals 2^F times
the number of accepted items satisfying `p`: the estimated rank numerator is unbiased, for every merge tree. -/
theorem kll_unbiased {P : Params} (ok : ParamsOk P) {c : Cmp α} (sw : StrictWeak c.lt) (p : α → Bool) (ops : List (Op α)) (i : Nat) :
    ((allVecs (CT.depthLeft (runT P c ops []))).map
        (fun v => valAt p i (reach P c ops { bits := v, used := 0 }))).sum
      = 2 ^ CT.depthLeft (runT P c ops []) * cntAt p i (truth P c ops []) := by
  have hu := (flips_shape_only P c ops).1
  have hs := CT.Uniform.sum_eq_allVecs (valAt p i) hu
  rw [← CT.Uniform.leaves hu, ← runT_fair ok sw p ops i, hs]
  rfl

/-- the same for ranks: `p` = "≤ y" (inclusive) resp. "< y" (exclusive); the left side is the sum over all coin vectors
of the rank numerator reported by `get_sorted_view` / `get_rank` (C07 `view_of_sketch`) -/
theorem kll_rank_unbiased {P : Params} (ok : ParamsOk P) {c : Cmp α} (sw : StrictWeak c.lt) (ops : List (Op α)) (i : Nat)
    (y : α) (incl : Bool) :
    ((allVecs (CT.depthLeft (runT P c ops []))).map (fun v =>
        match (reach P c ops { bits := v, used := 0 })[i]? with
        | some s => rankNum c.lt (getSortedView c s).2 y incl
        | none => 0)).sum
      = 2 ^ CT.depthLeft (runT P c ops []) * cntAt (isBelow c.lt y incl) i (truth P c ops []) := by
  rw [← kll_unbiased ok sw (isBelow c.lt y incl) ops i]
  congr 1
  apply List.map_congr_left
  intro v _
  unfold valAt
  cases h : (reach P c ops { bits := v, used := 0 })[i]? with
  | none => rfl
  | some s =>
    obtain ⟨hi, _⟩ := reach_get ok sw ops _ h
    exact ((view_props sw hi).2.2 y incl)

/-! ### a concrete instance: two k=8 sketches, 4 and 20 updates, merge (3 flips, 8 coin vectors) -/

def exOps : List (Op Int) :=
  [.new 8, .new 8] ++ (List.range 4).map (fun (i : Nat) => Op.upd 0 (100 - (i : Int))) ++
  (List.range 20).map (fun (i : Nat) => Op.upd 1 (200 - (i : Int))) ++ [.merge 0 1]

example : CT.depthLeft (runT genParams intCmp exOps []) = 3 ∧ CT.leaves (runT genParams intCmp exOps []) = 8 := by
  decide +kernel

/-- the eight outcomes give weights below 190 of 16,16,14,14,14,14,12,12 (in some order): sum 112 = 8 · 14 -/
example : ((allVecs 3).map (fun v => valAt (isBelow intCmp.lt 190 true) 0 (reach genParams intCmp exOps { bits := v, used := 0 }))).sum = 112 ∧
    cntAt (isBelow intCmp.lt 190 true) 0 (truth genParams intCmp exOps []) = 14 := by
  decide +kernel

end DS.Kll

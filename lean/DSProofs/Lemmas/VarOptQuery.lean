/- Queries on a state satisfying the invariant: iterator sum, estimate_subset_sum.  Rat instance. -/
import DSProofs.Lemmas.VarOptStream
namespace DS.VarOpt
open DS

def sumR : List Rat → Rat
  | [] => 0
  | x :: t => x + sumR t

theorem sumR_append (a b : List Rat) : sumR (a ++ b) = sumR a + sumR b := by
  induction a with
  | nil => simp [sumR]
  | cons x t ih => simp [sumR, ih]; ring

/-- total weight of a list of updates -/
def totalW (items : List (Int × Rat)) : Rat := sumR (items.map (·.2))

theorem sumW_eq_sumR (l : List E) : sumW l = sumR (l.map (·.wt)) := by
  induction l with
  | nil => rfl
  | cons e t ih => simp [sumW, sumR, ih]

theorem sumW_entriesOf (g mark : Bool) (items : List (Int × Rat)) : sumW (entriesOf g mark items) = totalW items := by
  unfold entriesOf
  rw [sumW_perm (List.reverse_perm _)]
  induction items with
  | nil => rfl
  | cons p t ih => simp [sumW, totalW, sumR] at ih ⊢; rw [ih]

theorem mem_entriesOf {g mark : Bool} {items : List (Int × Rat)} {e : E} :
    e ∈ entriesOf g mark items ↔ (e.item, e.wt) ∈ items ∧ e.mark = (g && mark) := by
  unfold entriesOf
  simp only [List.mem_reverse, List.mem_map]
  constructor
  · rintro ⟨p, hp, rfl⟩; exact ⟨hp, rfl⟩
  · rintro ⟨hp, hm⟩
    refine ⟨(e.item, e.wt), hp, ?_⟩
    cases e; simp_all

theorem length_entriesOf (g mark : Bool) (items : List (Int × Rat)) : (entriesOf g mark items).length = items.length := by
  simp [entriesOf]

theorem sumAll_eq (l : List E) (acc : Rat) : sumAll l acc = acc + sumW l := by
  induction l generalizing acc with
  | nil => simp [sumAll, sumW]
  | cons e t ih => simp [sumAll, sumW, ih]; ring

theorem sumWhere_true (l : List E) (acc : Rat) : sumWhere (fun _ => true) l acc = acc + sumW l := by
  induction l generalizing acc with
  | nil => simp [sumWhere, sumW]
  | cons e t ih => simp [sumWhere, sumW, ih]; ring

theorem sumR_replicate_map (R : List Int) (c : Rat) : sumR (R.map (fun _ => c)) = (R.length : Rat) * c := by
  induction R with
  | nil => simp [sumR]
  | cons x t ih =>
    simp only [List.map_cons, sumR, List.length_cons]
    rw [ih]; push_cast; ring

/-- weight conservation in the form used everywhere: `ΣH + totalWtR = Σ inputs` (no R part while in warm-up) -/
theorem Inv.weight {s : Sk Rat} {ins L : List E} (h : Inv s ins L) :
    (s.R = [] → sumW s.H = sumW ins) ∧ (s.R ≠ [] → sumW s.H + s.totalWtR = sumW ins) := by
  have hp := sumW_perm h.perm
  rw [sumW_append] at hp
  constructor
  · intro hr
    rw [(h.warm hr).1] at hp
    simpa [sumW] using hp.symm
  · intro hr
    rw [(h.est hr).wtR]; exact hp.symm

/-- the adjusted weights handed out by the public iterator sum to the total input weight -/
theorem Inv.samples_sum {s : Sk Rat} {ins L : List E} (h : Inv s ins L) :
    sumR (s.samples.map (·.2)) = sumW ins := by
  unfold Sk.samples
  simp only [List.map_append, List.map_map, sumR_append]
  have e1 : sumR (List.map ((fun x => x.2) ∘ fun e => (e.item, e.wt)) s.H) = sumW s.H := by
    rw [sumW_eq_sumR]; rfl
  rw [e1]
  by_cases hr : s.R = []
  · rw [hr]; simp [sumR]; exact h.weight.1 hr
  · have hr0 : (0 : Rat) < (s.R.length : Rat) := by exact_mod_cast length_pos_of_ne_nil hr
    have e2 : sumR (List.map ((fun x => x.2) ∘ fun x => (x, Num.div s.totalWtR (Num.ofNat s.R.length))) s.R)
        = (s.R.length : Rat) * (s.totalWtR / (s.R.length : Rat)) := by
      rw [← sumR_replicate_map]; rfl
    rw [e2, mul_div_cancel₀ _ (ne_of_gt hr0)]
    exact h.weight.2 hr

/-- `estimate_subset_sum` never throws on a state satisfying the invariant, and for the always-true predicate the
    estimate is the total input weight -/
theorem Inv.estimate_all {s : Sk Rat} {ins L : List E} (h : Inv s ins L) (B : FracBounds Rat) :
    ∃ r, estimateSubsetSum B s (fun _ => true) = some r ∧ r.estimate = sumW ins := by
  unfold estimateSubsetSum
  by_cases hn : s.n = 0
  · have : ins = [] := List.eq_nil_of_length_eq_zero (by rw [← h.n_eq]; exact hn)
    subst this
    simp [hn, sumW]
  · simp only [hn, beq_iff_eq, if_false]
    by_cases hr : s.R = []
    · simp only [hr, List.length_nil, if_true]
      refine ⟨_, rfl, ?_⟩
      simp only [sumWhere_true, Num.zero_rat, zero_add]
      exact h.weight.1 hr
    · have hrpos : 0 < s.R.length := length_pos_of_ne_nil hr
      have hr0 : (0 : Rat) < (s.R.length : Rat) := by exact_mod_cast hrpos
      have hrl : (s.R.length == 0) = false := by simp; omega
      have hest := h.est hr
      -- the sampling rate r / (n - h) lies in [0, 1]
      have hlen : ins.length = s.H.length + L.length := by rw [h.perm.length_eq]; simp
      have hnh : s.n - s.H.length = L.length := by rw [h.n_eq, hlen]; omega
      have hL0 : (0 : Rat) < (L.length : Rat) := by
        have := hest.rLen; exact_mod_cast (by omega : 0 < L.length)
      have hrate : (Num.lt (Num.div (Num.ofNat s.R.length : Rat) (Num.ofNat (s.n - s.H.length))) (Num.zero : Rat) ||
          Num.lt (Num.one : Rat) (Num.div (Num.ofNat s.R.length : Rat) (Num.ofNat (s.n - s.H.length)))) = false := by
        rw [hnh]
        have h1 : (0 : Rat) ≤ (s.R.length : Rat) / (L.length : Rat) := by positivity
        have h2 : (s.R.length : Rat) / (L.length : Rat) ≤ 1 := by
          rw [div_le_one hL0]; exact_mod_cast le_of_lt hest.rLen
        simp [not_lt.mpr h1, not_lt.mpr h2]
      rw [if_neg (by omega : ¬ s.R.length = 0), if_neg (by rw [hrate]; simp)]
      refine ⟨_, rfl, ?_⟩
      simp only [sumWhere_true, Num.zero_rat, zero_add, Num.add_rat, Num.mul_rat, Num.div_rat, Num.one_rat,
        Num.ofNat_rat, List.filter_true, one_mul]
      rw [div_self (ne_of_gt hr0), mul_one]
      exact h.weight.2 hr

/-- `estimate_subset_sum` never throws on a state satisfying the invariant (any predicate) -/
theorem Inv.estimate_some {s : Sk Rat} {ins L : List E} (h : Inv s ins L) (B : FracBounds Rat) (p : Int → Bool) :
    ∃ r, estimateSubsetSum B s p = some r := by
  unfold estimateSubsetSum
  by_cases hn : s.n = 0
  · simp [hn]
  · simp only [hn, beq_iff_eq, if_false]
    by_cases hr : s.R = []
    · simp only [hr, List.length_nil, if_true]
      exact ⟨_, rfl⟩
    · have hrpos : 0 < s.R.length := length_pos_of_ne_nil hr
      have hest := h.est hr
      have hlen : ins.length = s.H.length + L.length := by rw [h.perm.length_eq]; simp
      have hnh : s.n - s.H.length = L.length := by rw [h.n_eq, hlen]; omega
      have hL0 : (0 : Rat) < (L.length : Rat) := by
        have := hest.rLen; exact_mod_cast (by omega : 0 < L.length)
      have hrate : (Num.lt (Num.div (Num.ofNat s.R.length : Rat) (Num.ofNat (s.n - s.H.length))) (Num.zero : Rat) ||
          Num.lt (Num.one : Rat) (Num.div (Num.ofNat s.R.length : Rat) (Num.ofNat (s.n - s.H.length)))) = false := by
        rw [hnh]
        have h1 : (0 : Rat) ≤ (s.R.length : Rat) / (L.length : Rat) := by positivity
        have h2 : (s.R.length : Rat) / (L.length : Rat) ≤ 1 := by
          rw [div_le_one hL0]; exact_mod_cast le_of_lt hest.rLen
        simp [not_lt.mpr h1, not_lt.mpr h2]
      rw [if_neg (by omega : ¬ s.R.length = 0), if_neg (by rw [hrate]; simp)]
      exact ⟨_, rfl⟩

/-- lb ≤ estimate ≤ ub for every predicate, given that the two fraction bounds bracket r_true / r -/
theorem estimate_bounds (B : FracBounds Rat) (s : Sk Rat) (p : Int → Bool) (hW' : s.R.length ≠ 0 → 0 ≤ s.totalWtR)
    (hB : ∀ (r c : Nat) (rate : Rat), 0 < r → c ≤ r → B.lb r c rate ≤ (c : Rat) / (r : Rat) ∧ (c : Rat) / (r : Rat) ≤ B.ub r c rate)
    (res : SubsetSummary Rat) (h : estimateSubsetSum B s p = some res) :
    res.lowerBound ≤ res.estimate ∧ res.estimate ≤ res.upperBound := by
  unfold estimateSubsetSum at h
  by_cases hn : s.n = 0
  · simp [hn] at h; subst h; simp
  · simp only [hn, beq_iff_eq, if_false] at h
    by_cases hr : s.R.length = 0
    · simp [hr] at h; subst h; simp
    · rw [if_neg hr] at h
      have hW := hW' hr
      split at h
      · exact absurd h (by simp)
      · injection h with h
        subst h
        have hb := hB s.R.length (s.R.filter p).length
          (Num.div (Num.ofNat s.R.length : Rat) (Num.ofNat (s.n - s.H.length))) (by omega) (List.length_filter_le _ _)
        simp only [Num.add_rat, Num.mul_rat, Num.div_rat, Num.one_rat, Num.ofNat_rat, one_mul] at hb ⊢
        constructor
        · have := mul_le_mul_of_nonneg_left hb.1 hW
          linarith
        · have := mul_le_mul_of_nonneg_left hb.2 hW
          linarith

end DS.VarOpt

/- C19, KLL sketch: the weight bookkeeping `n = Σ 2^l · |level l|` (needed for the bound on the number of levels). -/
import DSProofs.Lemmas.LifeKllA
namespace DS.Life.Kll
open DS.Life

/-- `Σ_{l < n} 2^l · f l` -/
def wsum (f : Nat → Nat) : Nat → Nat
  | 0 => 0
  | n + 1 => wsum f n + 2 ^ n * f n

/-- population of level `l` -/
def pop (ls : List Nat) (l : Nat) : Nat := ls.getD (l + 1) 0 - ls.getD l 0

theorem sumSampleWeights_eq (nl : Nat) (ls : List Nat) : sumSampleWeights nl ls = wsum (pop ls) nl := by
  unfold sumSampleWeights
  induction nl with
  | zero => rfl
  | succ n ih =>
    rw [List.range_succ, List.map_append, List.foldl_append, ih]
    simp [wsum, pop]

theorem wsum_congr {f g : Nat → Nat} {n : Nat} (h : ∀ l, l < n → f l = g l) : wsum f n = wsum g n := by
  induction n with
  | zero => rfl
  | succ n ih =>
    simp only [wsum]
    rw [ih (fun l hl => h l (by omega)), h n (by omega)]

/-- level 0 gains one item -/
theorem wsum_bump0 {f g : Nat → Nat} {n : Nat} (hn : 0 < n) (h0 : g 0 = f 0 + 1) (h : ∀ l, l ≠ 0 → g l = f l) :
    wsum g n = wsum f n + 1 := by
  induction n with
  | zero => omega
  | succ n ih =>
    simp only [wsum]
    by_cases e : n = 0
    · subst e; simp [wsum, h0]
    · rw [ih (by omega), h n e]; omega

/-- `2h` items leave level `i`, `h` items arrive at level `i + 1` -/
theorem wsum_move {f g : Nat → Nat} {n i hh : Nat} (hi : i + 1 < n) (h1 : g i + 2 * hh = f i)
    (h2 : g (i + 1) = f (i + 1) + hh) (h : ∀ l, l ≠ i → l ≠ i + 1 → g l = f l) : wsum g n = wsum f n := by
  have key : ∀ m, (m ≤ i → wsum g m = wsum f m) ∧ (m = i + 1 → wsum g m + 2 ^ i * (2 * hh) = wsum f m) ∧
      (i + 2 ≤ m → wsum g m = wsum f m) := by
    intro m
    induction m with
    | zero => exact ⟨fun _ => rfl, fun e => by omega, fun e => by omega⟩
    | succ m ih =>
      obtain ⟨a, b, c⟩ := ih
      refine ⟨fun hm => ?_, fun hm => ?_, fun hm => ?_⟩
      · simp only [wsum]; rw [a (by omega), h m (by omega) (by omega)]
      · have e : m = i := by omega
        subst e
        simp only [wsum]
        rw [a (Nat.le_refl _), ← h1, Nat.mul_add]
        omega
      · simp only [wsum]
        by_cases e : m = i + 1
        · subst e
          have hb := b rfl
          rw [h2, Nat.mul_add]
          have : 2 ^ (i + 1) * hh = 2 ^ i * (2 * hh) := by
            rw [Nat.pow_succ, Nat.mul_assoc]
          omega
        · rw [c (by omega), h m (by omega) e]
  exact (key n).2.2 (by omega)

theorem wsum_top_le (f : Nat → Nat) (n : Nat) : 2 ^ n * f n ≤ wsum f (n + 1) := by
  simp only [wsum]; omega

/-- the sum only looks at `levels_[0 .. numLevels]` -/
theorem sumSampleWeights_congr {nl : Nat} {ls ls' : List Nat} (h : ∀ i, i ≤ nl → ls'.getD i 0 = ls.getD i 0) :
    sumSampleWeights nl ls' = sumSampleWeights nl ls := by
  rw [sumSampleWeights_eq, sumSampleWeights_eq]
  apply wsum_congr
  intro l hl
  simp only [pop]
  rw [h l (by omega), h (l + 1) (by omega)]

end DS.Life.Kll

/- Helper lemmas for C20 (density sketch): counting, the compaction measure, loop termination. Core tactics only. -/
import DSModel.Density.Sketch
namespace DS.Density

variable {α ρ β : Type}

/-! ### kept points: never more than the level -/

theorem keepMask_length_le (m : List Bool) (l : List β) : (keepMask m l).length ≤ l.length := by
  induction l generalizing m with
  | nil => cases m with
    | nil => simp [keepMask]
    | cons b m => cases b <;> simp [keepMask]
  | cons p l ih =>
    cases m with
    | nil => simp [keepMask]
    | cons b m =>
      cases b
      · simp only [keepMask, List.length_cons]; have := ih m; omega
      · simp only [keepMask, List.length_cons]; have := ih m; omega

theorem swapAt_length (l : List β) (i j : Nat) : (swapAt l i j).length = l.length := by
  unfold swapAt
  split <;> simp

theorem fyLoop_length (i : Nat) (ds : List Nat) (l : List β) : (fyLoop i ds l).length = l.length := by
  induction i generalizing ds l with
  | zero => simp [fyLoop]
  | succ i ih =>
    cases i with
    | zero => simp [fyLoop]
    | succ i =>
      cases ds with
      | nil => simp [fyLoop]
      | cons d ds => simp only [fyLoop]; rw [ih]; exact swapAt_length _ _ _

theorem pickKept_length_le (c : Choice) (lvl : Level α) : (pickKept c lvl).length ≤ lvl.length := by
  unfold pickKept
  have := keepMask_length_le c.2 (fyLoop lvl.length c.1 lvl)
  rw [fyLoop_length] at this
  exact this

/-! ### firstFull / compactLevels -/

theorem firstFull_some_le {k : Nat} {ls : List (Level α)} {lvl : Level α} (h : firstFull k ls = some lvl) :
    k ≤ lvl.length := by
  induction ls with
  | nil => simp [firstFull] at h
  | cons l r ih =>
    simp only [firstFull] at h
    split at h
    · cases h; assumption
    · exact ih h

/-- pigeonhole: `k·|levels| ≤ Σ sizes` on a non-empty level vector ⇒ some level holds ≥ k points -/
theorem firstFull_ne_none {k : Nat} {ls : List (Level α)} (hne : ls ≠ [])
    (h : k * ls.length ≤ sumLen ls) : firstFull k ls ≠ none := by
  induction ls with
  | nil => exact absurd rfl hne
  | cons l r ih =>
    simp only [firstFull]
    split
    · simp
    · rename_i hlt
      cases r with
      | nil =>
        simp only [List.length_cons, List.length_nil, sumLen] at h
        omega
      | cons l2 r2 =>
        apply ih (by simp)
        simp only [List.length_cons, sumLen] at h ⊢
        have : k * (r2.length + 1 + 1) = k * (r2.length + 1) + k := by rw [Nat.mul_succ]
        omega

theorem sumLen_compactLevels {k : Nat} (c : Choice) {ls : List (Level α)} {lvl : Level α}
    (h : firstFull k ls = some lvl) :
    sumLen (compactLevels k c ls) + (lvl.length - (pickKept c lvl).length) = sumLen ls := by
  induction ls with
  | nil => simp [firstFull] at h
  | cons l r ih =>
    simp only [firstFull] at h
    simp only [compactLevels]
    split at h
    · rename_i hk
      have hl : l = lvl := Option.some.inj h
      rw [← hl]
      have hle := pickKept_length_le c l
      simp only [hk, if_true]
      cases r with
      | nil => simp only [sumLen, List.length_nil]; omega
      | cons nxt rest => simp only [sumLen, List.length_nil, List.length_append]; omega
    · rename_i hk
      simp only [hk, if_false, sumLen]
      have := ih h
      omega

theorem compactLevels_length_ge (k : Nat) (c : Choice) (ls : List (Level α)) :
    ls.length ≤ (compactLevels k c ls).length := by
  induction ls with
  | nil => simp [compactLevels]
  | cons l r ih =>
    simp only [compactLevels]
    split
    · cases r <;> simp
    · simp only [List.length_cons]; omega

theorem compactLevels_length_le (k : Nat) (c : Choice) (ls : List (Level α)) :
    (compactLevels k c ls).length ≤ ls.length + 1 := by
  induction ls with
  | nil => simp [compactLevels]
  | cons l r ih =>
    simp only [compactLevels]
    split
    · cases r <;> simp
    · simp only [List.length_cons]; omega

/-- a compaction that happens leaves at least two levels -/
theorem compactLevels_length_two {k : Nat} (c : Choice) {ls : List (Level α)} {lvl : Level α}
    (h : firstFull k ls = some lvl) : 2 ≤ (compactLevels k c ls).length := by
  induction ls with
  | nil => simp [firstFull] at h
  | cons l r ih =>
    simp only [firstFull] at h
    simp only [compactLevels]
    split at h
    · rename_i hk
      simp only [hk, if_true]
      cases r <;> simp
    · rename_i hk
      simp only [hk, if_false, List.length_cons]
      have := ih h
      omega

/-! ### the termination measure  μ_B = Σ_h |level_h| · (B − h) -/

def mu (B : Nat) : Nat → List (Level α) → Nat
  | _, [] => 0
  | h, l :: r => l.length * (B - h) + mu B (h + 1) r

theorem mu_le (B h : Nat) (ls : List (Level α)) : mu B h ls ≤ sumLen ls * B := by
  induction ls generalizing h with
  | nil => simp [mu, sumLen]
  | cons l r ih =>
    simp only [mu, sumLen]
    have h1 : l.length * (B - h) ≤ l.length * B := Nat.mul_le_mul_left _ (Nat.sub_le _ _)
    have h2 := ih (h + 1)
    rw [Nat.add_mul]
    omega

private theorem mu_step_arith (a c x : Nat) (hc : c ≤ a) (ha : 1 ≤ a) : c * x + 1 ≤ a * (x + 1) := by
  have : c * x ≤ a * x := Nat.mul_le_mul_right _ hc
  rw [Nat.mul_succ]
  omega

/-- one compaction strictly lowers μ_B, provided every height stays below B -/
theorem mu_compactLevels {k : Nat} (hk : 1 ≤ k) (c : Choice) (B : Nat) {ls : List (Level α)} {lvl : Level α}
    (hoff : Nat) (h : firstFull k ls = some lvl) (hB : hoff + ls.length ≤ B) :
    mu B hoff (compactLevels k c ls) + 1 ≤ mu B hoff ls := by
  induction ls generalizing hoff with
  | nil => simp [firstFull] at h
  | cons l r ih =>
    simp only [firstFull] at h
    simp only [compactLevels]
    simp only [List.length_cons] at hB
    split at h
    · rename_i hkl
      simp only [hkl, if_true]
      have hle := pickKept_length_le c l
      have hx : B - hoff = (B - (hoff + 1)) + 1 := by omega
      have ar := mu_step_arith l.length (pickKept c l).length (B - (hoff + 1)) hle (by omega)
      cases r with
      | nil =>
        simp only [mu, List.length_nil, Nat.zero_mul, Nat.zero_add, Nat.add_zero]
        rw [hx]; exact ar
      | cons nxt rest =>
        simp only [mu, List.length_nil, Nat.zero_mul, Nat.zero_add, List.length_append, Nat.add_mul]
        rw [hx]; omega
    · rename_i hkl
      simp only [hkl, if_false, mu]
      have := ih (hoff + 1) h (by omega)
      omega

/-! ### invariant of every reachable state and the loop -/

/-- `num_retained_` is the number of stored points and there is at least one level -/
structure Inv (s : Sketch α) : Prop where
  cnt : s.numRetained = sumLen s.levels
  ne : s.levels ≠ []

theorem compact_fst_k (P : Picker ρ α) (r : ρ) (s : Sketch α) : (compact P r s).1.k = s.k := by
  unfold compact; split <;> rfl
theorem compact_fst_dim (P : Picker ρ α) (r : ρ) (s : Sketch α) : (compact P r s).1.dim = s.dim := by
  unfold compact; split <;> rfl
theorem compact_fst_n (P : Picker ρ α) (r : ρ) (s : Sketch α) : (compact P r s).1.n = s.n := by
  unfold compact; split <;> rfl

theorem compact_inv (P : Picker ρ α) (r : ρ) {s : Sketch α} (hi : Inv s) : Inv (compact P r s).1 := by
  unfold compact
  split
  · exact hi
  · rename_i lvl hf
    refine ⟨?_, ?_⟩
    · simp only
      have := sumLen_compactLevels (P r lvl).1 hf
      have := hi.cnt
      omega
    · simp only
      have := compactLevels_length_two (P r lvl).1 hf
      intro h0; rw [h0] at this; simp at this

theorem compact_numRetained_le (P : Picker ρ α) (r : ρ) (s : Sketch α) :
    (compact P r s).1.numRetained ≤ s.numRetained := by
  unfold compact; split
  · exact Nat.le_refl _
  · simp only; omega

theorem compact_length_ge (P : Picker ρ α) (r : ρ) (s : Sketch α) :
    s.levels.length ≤ (compact P r s).1.levels.length := by
  unfold compact; split
  · exact Nat.le_refl _
  · exact compactLevels_length_ge _ _ _

/-- with the loop guard true, a compaction really happens: μ drops and there are ≥ 2 levels afterwards -/
theorem compact_progress (P : Picker ρ α) (r : ρ) {s : Sketch α} (hi : Inv s) (hk : 1 ≤ s.k)
    (hc : loopCond s = true) (B : Nat) (hB : s.numRetained ≤ B) :
    mu B 0 (compact P r s).1.levels + 1 ≤ mu B 0 s.levels ∧ 2 ≤ (compact P r s).1.levels.length := by
  have hc' : s.k * s.levels.length ≤ s.numRetained := by simpa [loopCond] using hc
  have hne : firstFull s.k s.levels ≠ none := firstFull_ne_none hi.ne (by rw [← hi.cnt]; exact hc')
  have hL : s.levels.length ≤ B := by
    have : 1 * s.levels.length ≤ s.k * s.levels.length := Nat.mul_le_mul_right _ hk
    omega
  unfold compact
  split
  · rename_i hf; exact absurd hf hne
  · rename_i lvl hf
    exact ⟨mu_compactLevels hk _ B 0 hf (by omega), compactLevels_length_two _ hf⟩

theorem drain_inv (P : Picker ρ α) (f : Nat) (r : ρ) {s : Sketch α} (hi : Inv s) : Inv (drain P f r s).1 := by
  induction f generalizing r s with
  | zero => exact hi
  | succ f ih =>
    simp only [drain]
    split
    · exact ih _ (compact_inv P r hi)
    · exact hi

theorem drain_fst_k (P : Picker ρ α) (f : Nat) (r : ρ) (s : Sketch α) : (drain P f r s).1.k = s.k := by
  induction f generalizing r s with
  | zero => rfl
  | succ f ih =>
    simp only [drain]; split
    · rw [ih, compact_fst_k]
    · rfl
theorem drain_fst_dim (P : Picker ρ α) (f : Nat) (r : ρ) (s : Sketch α) : (drain P f r s).1.dim = s.dim := by
  induction f generalizing r s with
  | zero => rfl
  | succ f ih =>
    simp only [drain]; split
    · rw [ih, compact_fst_dim]
    · rfl
theorem drain_fst_n (P : Picker ρ α) (f : Nat) (r : ρ) (s : Sketch α) : (drain P f r s).1.n = s.n := by
  induction f generalizing r s with
  | zero => rfl
  | succ f ih =>
    simp only [drain]; split
    · rw [ih, compact_fst_n]
    · rfl

theorem drain_numRetained_le (P : Picker ρ α) (f : Nat) (r : ρ) (s : Sketch α) :
    (drain P f r s).1.numRetained ≤ s.numRetained := by
  induction f generalizing r s with
  | zero => exact Nat.le_refl _
  | succ f ih =>
    simp only [drain]; split
    · exact Nat.le_trans (ih _ _) (compact_numRetained_le P r s)
    · exact Nat.le_refl _

theorem drain_length_ge (P : Picker ρ α) (f : Nat) (r : ρ) (s : Sketch α) :
    s.levels.length ≤ (drain P f r s).1.levels.length := by
  induction f generalizing r s with
  | zero => exact Nat.le_refl _
  | succ f ih =>
    simp only [drain]; split
    · exact Nat.le_trans (compact_length_ge P r s) (ih _ _)
    · exact Nat.le_refl _

/-- the loop exits by its own guard as soon as the budget exceeds μ_B -/
theorem drain_exits (P : Picker ρ α) (B : Nat) (f : Nat) (r : ρ) {s : Sketch α} (hi : Inv s) (hk : 1 ≤ s.k)
    (hB : s.numRetained ≤ B) (hf : mu B 0 s.levels < f) : loopCond (drain P f r s).1 = false := by
  induction f generalizing r s with
  | zero => omega
  | succ f ih =>
    simp only [drain]
    split
    · rename_i hc
      have hp := (compact_progress P r hi hk hc B hB).1
      apply ih _ (compact_inv P r hi)
      · rw [compact_fst_k]; exact hk
      · exact Nat.le_trans (compact_numRetained_le P r s) hB
      · omega
    · rename_i hc; simpa using hc

/-- more budget than needed changes nothing -/
theorem drain_stable (P : Picker ρ α) (f g : Nat) (r : ρ) (s : Sketch α)
    (hx : loopCond (drain P f r s).1 = false) (hg : f ≤ g) : drain P g r s = drain P f r s := by
  induction f generalizing g r s with
  | zero =>
    simp only [drain] at hx ⊢
    cases g with
    | zero => rfl
    | succ g => simp [drain, hx]
  | succ f ih =>
    cases g with
    | zero => omega
    | succ g =>
      simp only [drain] at hx ⊢
      split
      · rename_i hc
        simp only [hc, if_true] at hx
        exact ih g _ _ hx (by omega)
      · rfl

theorem fuelOf_enough {s : Sketch α} (hi : Inv s) : mu s.numRetained 0 s.levels < fuelOf s := by
  have := mu_le s.numRetained 0 s.levels
  rw [← hi.cnt] at this
  unfold fuelOf; omega

theorem compactLoop_exits (P : Picker ρ α) (r : ρ) {s : Sketch α} (hi : Inv s) (hk : 1 ≤ s.k) :
    loopCond (compactLoop P r s).1 = false :=
  drain_exits P s.numRetained _ r hi hk (Nat.le_refl _) (fuelOf_enough hi)

/-- if the loop leaves a single level it did nothing at all -/
theorem drain_one_level (P : Picker ρ α) (f : Nat) (r : ρ) {s : Sketch α} (hi : Inv s) (hk : 1 ≤ s.k)
    (h1 : (drain P f r s).1.levels.length = 1) : drain P f r s = (s, r) := by
  cases f with
  | zero => rfl
  | succ f =>
    simp only [drain] at h1 ⊢
    split
    · rename_i hc
      simp only [hc, if_true] at h1
      have h2 := (compact_progress P r hi hk hc s.numRetained (Nat.le_refl _)).2
      have h3 := drain_length_ge P f (compact P r s).2 (compact P r s).1
      omega
    · rfl

end DS.Density

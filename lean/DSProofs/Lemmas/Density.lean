/- Helper lemmas for C20 (density sketch): counting, the compaction measure, loop termination. Core tactics only. -/
import DSModel.Density.Sketch
namespace DS.Density

variable {α ρ β : Type}

/-! ### kept points: never more than the level -/

theorem keepMask_length_le (m : List Bool) (l : List β) : (keepMask m l).length ≤ l.length := by
  induction l generalizing m with
  | nil => cases m with
    | nil => simp [keepMask]
    | cons b m => cases b <;> simp [keepMask]
  | cons p l ih =>
    cases m with
    | nil => simp [keepMask]
    | cons b m =>
      cases b
      · simp only [keepMask, List.length_cons]; have := ih m; omega
      · simp only [keepMask, List.length_cons]; have := ih m; omega

theorem swapAt_length (l : List β) (i j : Nat) : (swapAt l i j).length = l.length := by
  unfold swapAt
  split <;> simp

theorem fyLoop_length (i : Nat) (ds : List Nat) (l : List β) : (fyLoop i ds l).length = l.length := by
  induction i generalizing ds l with
  | zero => simp [fyLoop]
  | succ i ih =>
    cases i with
    | zero => simp [fyLoop]
    | succ i =>
      cases ds with
      | nil => simp [fyLoop]
      | cons d ds => simp only [fyLoop]; rw [ih]; exact swapAt_length _ _ _

theorem pickKept_length_le (c : Choice) (lvl : Level α) : (pickKept c lvl).length ≤ lvl.length := by
  unfold pickKept
  have := keepMask_length_le c.2 (fyLoop lvl.length c.1 lvl)
  rw [fyLoop_length] at this
  exact this

/-! ### firstFull / compactLevels -/

theorem firstFull_some_le {k : Nat} {ls : List (Level α)} {lvl : Level α} (h : firstFull k ls = some lvl) :
    k ≤ lvl.length := by
  induction ls with
  | nil => simp [firstFull] at h
  | cons l r ih =>
    simp only [firstFull] at h
    split at h
    · cases h; assumption
    · exact ih h

/-- pigeonhole: `k·|levels| ≤ Σ sizes` on a non-empty level vector ⇒ some level holds ≥ k points -/
theorem firstFull_ne_none {k : Nat} {ls : List (Level α)} (hne : ls ≠ [])
    (h : k * ls.length ≤ sumLen ls) : firstFull k ls ≠ none := by
  induction ls with
  | nil => exact absurd rfl hne
  | cons l r ih =>
    simp only [firstFull]
    split
    · simp
    · rename_i hlt
      cases r with
      | nil =>
        simp only [List.length_cons, List.length_nil, sumLen] at h
        omega
      | cons l2 r2 =>
        apply ih (by simp)
        simp only [List.length_cons, sumLen] at h ⊢
        have : k * (r2.length + 1 + 1) = k * (r2.length + 1) + k := by rw [Nat.mul_succ]
        omega

theorem sumLen_compactLevels {k : Nat} (c : Choice) {ls : List (Level α)} {lvl : Level α}
    (h : firstFull k ls = some lvl) :
    sumLen (compactLevels k c ls) + (lvl.length - (pickKept c lvl).length) = sumLen ls := by
  induction ls with
  | nil => simp [firstFull] at h
  | cons l r ih =>
    simp only [firstFull] at h
    simp only [compactLevels]
    split at h
    · rename_i hk
      have hl : l = lvl := Option.some.inj h
      rw [← hl]
      have hle := pickKept_length_le c l
      simp only [hk, if_true]
      cases r with
      | nil => simp only [sumLen, List.length_nil]; omega
      | cons nxt rest => simp only [sumLen, List.length_nil, List.length_append]; omega
    · rename_i hk
      simp only [hk, if_false, sumLen]
      have := ih h
      omega

theorem compactLevels_length_ge (k : Nat) (c : Choice) (ls : List (Level α)) :
    ls.length ≤ (compactLevels k c ls).length := by
  induction ls with
  | nil => simp [compactLevels]
  | cons l r ih =>
    simp only [compactLevels]
    split
    · cases r <;> simp
    · simp only [List.length_cons]; omega

theorem compactLevels_length_le (k : Nat) (c : Choice) (ls : List (Level α)) :
    (compactLevels k c ls).length ≤ ls.length + 1 := by
  induction ls with
  | nil => simp [compactLevels]
  | cons l r ih =>
    simp only [compactLevels]
    split
    · cases r <;> simp
    · simp only [List.length_cons]; omega

/-- a compaction that happens leaves at least two levels -/
theorem compactLevels_length_two {k : Nat} (c : Choice) {ls : List (Level α)} {lvl : Level α}
    (h : firstFull k ls = some lvl) : 2 ≤ (compactLevels k c ls).length := by
  induction ls with
  | nil => simp [firstFull] at h
  | cons l r ih =>
    simp only [firstFull] at h
    simp only [compactLevels]
    split at h
    · rename_i hk
      simp only [hk, if_true]
      cases r <;> simp
    · rename_i hk
      simp only [hk, if_false, List.length_cons]
      have := ih h
      omega

/-! ### the termination measure  μ_B = Σ_h |level_h| · (B − h) -/

def mu (B : Nat) : Nat → List (Level α) → Nat
  | _, [] => 0
  | h, l :: r => l.length * (B - h) + mu B (h + 1) r

theorem mu_le (B h : Nat) (ls : List (Level α)) : mu B h ls ≤ sumLen ls * B := by
  induction ls generalizing h with
  | nil => simp [mu, sumLen]
  | cons l r ih =>
    simp only [mu, sumLen]
    have h1 : l.length * (B - h) ≤ l.length * B := Nat.mul_le_mul_left _ (Nat.sub_le _ _)
    have h2 := ih (h + 1)
    rw [Nat.add_mul]
    omega

private theorem mu_step_arith (a c x : Nat) (hc : c ≤ a) (ha : 1 ≤ a) : c * x + 1 ≤ a * (x + 1) := by
  have : c * x ≤ a * x := Nat.mul_le_mul_right _ hc
  rw [Nat.mul_succ]
  omega

/-- one compaction strictly lowers μ_B, provided every height stays below B -/
theorem mu_compactLevels {k : Nat} (hk : 1 ≤ k) (c : Choice) (B : Nat) {ls : List (Level α)} {lvl : Level α}
    (hoff : Nat) (h : firstFull k ls = some lvl) (hB : hoff + ls.length ≤ B) :
    mu B hoff (compactLevels k c ls) + 1 ≤ mu B hoff ls := by
  induction ls generalizing hoff with
  | nil => simp [firstFull] at h
  | cons l r ih =>
    simp only [firstFull] at h
    simp only [compactLevels]
    simp only [List.length_cons] at hB
    split at h
    · rename_i hkl
      simp only [hkl, if_true]
      have hle := pickKept_length_le c l
      have hx : B - hoff = (B - (hoff + 1)) + 1 := by omega
      have ar := mu_step_arith l.length (pickKept c l).length (B - (hoff + 1)) hle (by omega)
      cases r with
      | nil =>
        simp only [mu, List.length_nil, Nat.zero_mul, Nat.zero_add, Nat.add_zero]
        rw [hx]; exact ar
      | cons nxt rest =>
        simp only [mu, List.length_nil, Nat.zero_mul, Nat.zero_add, List.length_append, Nat.add_mul]
        rw [hx]; omega
    · rename_i hkl
      simp only [hkl, if_false, mu]
      have := ih (hoff + 1) h (by omega)
      omega

/-! ### dropping empty levels from the top (repaired shape of `compact()`) -/

theorem dte_cons (x : Level α) (xs : List (Level α)) :
    dropTrailingEmpty (x :: xs) =
      match dropTrailingEmpty xs with
      | [] => if x.isEmpty then [] else [x]
      | ys => x :: ys := rfl

theorem dte_cons_nil {x : Level α} {xs : List (Level α)} (h : dropTrailingEmpty xs = []) :
    dropTrailingEmpty (x :: xs) = if x.isEmpty then [] else [x] := by rw [dte_cons, h]

theorem dte_cons_cons {x y : Level α} {xs ys : List (Level α)} (h : dropTrailingEmpty xs = y :: ys) :
    dropTrailingEmpty (x :: xs) = x :: y :: ys := by rw [dte_cons, h]

theorem sumLen_dte (r : List (Level α)) : sumLen (dropTrailingEmpty r) = sumLen r := by
  induction r with
  | nil => rfl
  | cons x xs ih =>
    cases hd : dropTrailingEmpty xs with
    | nil =>
      rw [hd] at ih
      rw [dte_cons_nil hd]
      simp only [sumLen] at ih ⊢
      split
      · rename_i hx
        have : x.length = 0 := by simpa [List.isEmpty_iff] using hx
        simp only [sumLen]; omega
      · simp only [sumLen]; omega
    | cons y ys =>
      rw [hd] at ih
      rw [dte_cons_cons hd]
      simp only [sumLen] at ih ⊢; omega

theorem mu_dte (B h : Nat) (r : List (Level α)) : mu B h (dropTrailingEmpty r) = mu B h r := by
  induction r generalizing h with
  | nil => rfl
  | cons x xs ih =>
    have ih' := ih (h + 1)
    cases hd : dropTrailingEmpty xs with
    | nil =>
      rw [hd] at ih'
      rw [dte_cons_nil hd]
      simp only [mu] at ih' ⊢
      split
      · rename_i hx
        have : x.length = 0 := by simpa [List.isEmpty_iff] using hx
        simp only [mu, this, Nat.zero_mul]; omega
      · simp only [mu]; omega
    | cons y ys =>
      rw [hd] at ih'
      rw [dte_cons_cons hd]
      simp only [mu] at ih' ⊢; omega

theorem length_dte_le (r : List (Level α)) : (dropTrailingEmpty r).length ≤ r.length := by
  induction r with
  | nil => simp [dropTrailingEmpty]
  | cons x xs ih =>
    cases hd : dropTrailingEmpty xs with
    | nil => rw [dte_cons_nil hd]; split <;> simp
    | cons y ys =>
      rw [hd] at ih
      rw [dte_cons_cons hd]
      simp only [List.length_cons] at ih ⊢; omega

theorem lastNonempty_cons (x : Level α) {l : List (Level α)} (h : l ≠ []) : lastNonempty (x :: l) = lastNonempty l := by
  cases l with
  | nil => exact absurd rfl h
  | cons y ys => rfl

theorem lastNonempty_dte (r : List (Level α)) : lastNonempty (dropTrailingEmpty r) = true := by
  induction r with
  | nil => rfl
  | cons x xs ih =>
    cases hd : dropTrailingEmpty xs with
    | nil =>
      rw [dte_cons_nil hd]
      split
      · rfl
      · rename_i hx; simp [lastNonempty, hx]
    | cons y ys =>
      rw [hd] at ih
      rw [dte_cons_cons hd, lastNonempty_cons x (by simp)]
      exact ih

theorem dte_of_lastNonempty (r : List (Level α)) (h : lastNonempty r = true) : dropTrailingEmpty r = r := by
  induction r with
  | nil => rfl
  | cons x xs ih =>
    cases xs with
    | nil =>
      have hx : x.isEmpty = false := by simpa [lastNonempty] using h
      simp [dropTrailingEmpty, hx]
    | cons y ys =>
      have := ih (by simpa [lastNonempty] using h)
      rw [dte_cons, this]

theorem sumLen_popTop (c : Cfg) (ls : List (Level α)) : sumLen (popTop c ls) = sumLen ls := by
  cases ls with
  | nil => rfl
  | cons l r =>
    simp only [popTop]; split
    · simp only [sumLen, sumLen_dte]
    · rfl

theorem mu_popTop (c : Cfg) (B : Nat) (ls : List (Level α)) : mu B 0 (popTop c ls) = mu B 0 ls := by
  cases ls with
  | nil => rfl
  | cons l r =>
    simp only [popTop]; split
    · simp only [mu, mu_dte]
    · rfl

theorem popTop_ne (c : Cfg) {ls : List (Level α)} (h : ls ≠ []) : popTop c ls ≠ [] := by
  cases ls with
  | nil => exact absurd rfl h
  | cons l r => simp only [popTop]; split <;> simp

theorem length_popTop_le (c : Cfg) (ls : List (Level α)) : (popTop c ls).length ≤ ls.length := by
  cases ls with
  | nil => simp [popTop]
  | cons l r =>
    simp only [popTop]; split
    · have := length_dte_le r; simp only [List.length_cons]; omega
    · exact Nat.le_refl _

theorem popTop_pinned (c : Cfg) (hc : c.popsEmptyTop = false) (ls : List (Level α)) : popTop c ls = ls := by
  cases ls <;> simp [popTop, hc]

/-- the repaired shape always leaves a non-empty top level (or a single level) -/
theorem topNonempty_popTop (c : Cfg) (hc : c.popsEmptyTop = true) (ls : List (Level α)) : topNonempty (popTop c ls) = true := by
  cases ls with
  | nil => rfl
  | cons l r => simp only [popTop, hc, if_true, topNonempty]; exact lastNonempty_dte r

theorem popTop_of_topNonempty (c : Cfg) (ls : List (Level α)) (h : topNonempty ls = true) : popTop c ls = ls := by
  cases ls with
  | nil => rfl
  | cons l r =>
    simp only [popTop]; split
    · rw [dte_of_lastNonempty r (by simpa [topNonempty] using h)]
    · rfl

theorem lastNonempty_getLast (r : List (Level α)) (h : lastNonempty r = true) (top : Level α) (hl : r.getLast? = some top) :
    top ≠ [] := by
  induction r with
  | nil => simp at hl
  | cons x xs ih =>
    cases xs with
    | nil =>
      simp only [List.getLast?_singleton, Option.some.injEq] at hl
      subst hl
      intro h0; rw [h0] at h; simp [lastNonempty] at h
    | cons y ys =>
      rw [List.getLast?_cons_cons] at hl
      exact ih (by simpa [lastNonempty] using h) hl

/-- `topNonempty` spelled out: with more than one level the last one holds a point -/
theorem top_ne_of_topNonempty (ls : List (Level α)) (h : topNonempty ls = true) (top : Level α) (hL : 1 < ls.length)
    (hl : ls.getLast? = some top) : top ≠ [] := by
  cases ls with
  | nil => simp at hL
  | cons l r =>
    cases r with
    | nil => simp at hL
    | cons y ys =>
      rw [List.getLast?_cons_cons] at hl
      exact lastNonempty_getLast (y :: ys) (by simpa [topNonempty] using h) top hl

theorem compactLevels_ne (k : Nat) (c : Choice) {ls : List (Level α)} (h : ls ≠ []) : compactLevels k c ls ≠ [] := by
  cases ls with
  | nil => exact absurd rfl h
  | cons l r =>
    simp only [compactLevels]; split
    · cases r <;> simp
    · simp

/-- a compaction that keeps at least one point keeps "the last level is non-empty" -/
theorem lastNonempty_compactLevels {k : Nat} (c : Choice) {ls : List (Level α)} {lvl : Level α}
    (h : firstFull k ls = some lvl) (hk : pickKept c lvl ≠ []) (hl : lastNonempty ls = true) :
    lastNonempty (compactLevels k c ls) = true := by
  induction ls with
  | nil => simp [firstFull] at h
  | cons l r ih =>
    simp only [firstFull] at h
    simp only [compactLevels]
    split at h
    · rename_i hkl
      have hl' : l = lvl := Option.some.inj h
      rw [← hl'] at hk
      simp only [hkl, if_true]
      cases r with
      | nil => simpa [lastNonempty, List.isEmpty_iff] using hk
      | cons nxt rest =>
        cases rest with
        | nil => simp [lastNonempty, List.isEmpty_iff, hk]
        | cons y ys => simpa [lastNonempty] using hl
    · rename_i hkl
      simp only [hkl, if_false]
      have hr : r ≠ [] := by intro h0; rw [h0] at h; simp [firstFull] at h
      rw [lastNonempty_cons l (compactLevels_ne k c hr)]
      exact ih h (by rw [lastNonempty_cons l hr] at hl; exact hl)

theorem topNonempty_compactLevels {k : Nat} (c : Choice) {ls : List (Level α)} {lvl : Level α}
    (h : firstFull k ls = some lvl) (hk : pickKept c lvl ≠ []) (hl : topNonempty ls = true) :
    topNonempty (compactLevels k c ls) = true := by
  cases ls with
  | nil => simp [firstFull] at h
  | cons l r =>
    simp only [firstFull] at h
    simp only [compactLevels]
    split at h
    · rename_i hkl
      have hl' : l = lvl := Option.some.inj h
      rw [← hl'] at hk
      simp only [hkl, if_true]
      cases r with
      | nil => simpa [topNonempty, lastNonempty, List.isEmpty_iff] using hk
      | cons nxt rest =>
        cases rest with
        | nil => simp [topNonempty, lastNonempty, List.isEmpty_iff, hk]
        | cons y ys => simpa [topNonempty, lastNonempty] using hl
    · rename_i hkl
      simp only [hkl, if_false, topNonempty]
      exact lastNonempty_compactLevels c h hk (by simpa [topNonempty] using hl)

/-! ### invariant of every reachable state and the loop -/

/-- `num_retained_` is the number of stored points and there is at least one level -/
structure Inv (s : Sketch α) : Prop where
  cnt : s.numRetained = sumLen s.levels
  ne : s.levels ≠ []

theorem compact_fst_k (c : Cfg) (P : Picker ρ α) (r : ρ) (s : Sketch α) : (compact c P r s).1.k = s.k := by
  unfold compact; split <;> rfl
theorem compact_fst_dim (c : Cfg) (P : Picker ρ α) (r : ρ) (s : Sketch α) : (compact c P r s).1.dim = s.dim := by
  unfold compact; split <;> rfl
theorem compact_fst_n (c : Cfg) (P : Picker ρ α) (r : ρ) (s : Sketch α) : (compact c P r s).1.n = s.n := by
  unfold compact; split <;> rfl

theorem compact_inv (c : Cfg) (P : Picker ρ α) (r : ρ) {s : Sketch α} (hi : Inv s) : Inv (compact c P r s).1 := by
  unfold compact
  split
  · exact hi
  · rename_i lvl hf
    refine ⟨?_, ?_⟩
    · simp only [sumLen_popTop]
      have := sumLen_compactLevels (P r lvl).1 hf
      have := hi.cnt
      omega
    · simp only
      exact popTop_ne c (compactLevels_ne _ _ hi.ne)

theorem compact_numRetained_le (c : Cfg) (P : Picker ρ α) (r : ρ) (s : Sketch α) :
    (compact c P r s).1.numRetained ≤ s.numRetained := by
  unfold compact; split
  · exact Nat.le_refl _
  · simp only; omega

/-- pinned shape only: `compact()` never removes a level -/
theorem compact_length_ge (c : Cfg) (hp : c.popsEmptyTop = false) (P : Picker ρ α) (r : ρ) (s : Sketch α) :
    s.levels.length ≤ (compact c P r s).1.levels.length := by
  unfold compact; split
  · exact Nat.le_refl _
  · simp only [popTop_pinned c hp]; exact compactLevels_length_ge _ _ _

/-- repaired shape: after `compact()` the top level is non-empty (or there is one level) -/
theorem compact_topNonempty (c : Cfg) (hp : c.popsEmptyTop = true) (P : Picker ρ α) (r : ρ) (s : Sketch α)
    (ht : topNonempty s.levels = true) : topNonempty (compact c P r s).1.levels = true := by
  unfold compact; split
  · exact ht
  · exact topNonempty_popTop c hp _

/-- with the loop guard true a compaction really happens and μ drops – for BOTH shapes: removing empty levels does not change μ -/
theorem compact_progress (c : Cfg) (P : Picker ρ α) (r : ρ) {s : Sketch α} (hi : Inv s) (hk : 1 ≤ s.k)
    (hc : loopCond s = true) (B : Nat) (hB : s.numRetained ≤ B) :
    mu B 0 (compact c P r s).1.levels + 1 ≤ mu B 0 s.levels := by
  have hc' : s.k * s.levels.length ≤ s.numRetained := by simpa [loopCond] using hc
  have hne : firstFull s.k s.levels ≠ none := firstFull_ne_none hi.ne (by rw [← hi.cnt]; exact hc')
  have hL : s.levels.length ≤ B := by
    have : 1 * s.levels.length ≤ s.k * s.levels.length := Nat.mul_le_mul_right _ hk
    omega
  unfold compact
  split
  · rename_i hf; exact absurd hf hne
  · rename_i lvl hf
    simp only [mu_popTop]
    exact mu_compactLevels hk _ B 0 hf (by omega)

/-- a compaction (guard true) that does not lower `num_retained_` kept every point of the level, so no level disappears and
there are at least two levels afterwards – in the repaired shape provided the top level was non-empty before -/
theorem compact_keepall (c : Cfg) (P : Picker ρ α) (r : ρ) {s : Sketch α} (hi : Inv s) (hk : 1 ≤ s.k)
    (hc : loopCond s = true) (ht : c.popsEmptyTop = true → topNonempty s.levels = true)
    (hnr : (compact c P r s).1.numRetained = s.numRetained) :
    s.levels.length ≤ (compact c P r s).1.levels.length ∧ 2 ≤ (compact c P r s).1.levels.length := by
  have hc' : s.k * s.levels.length ≤ s.numRetained := by simpa [loopCond] using hc
  have hne : firstFull s.k s.levels ≠ none := firstFull_ne_none hi.ne (by rw [← hi.cnt]; exact hc')
  have hL1 : 1 ≤ s.levels.length := by
    have := hi.ne
    cases hl : s.levels with
    | nil => exact absurd hl this
    | cons a b => simp
  have hnr1 : 1 ≤ s.numRetained := by
    have : 1 * 1 ≤ s.k * s.levels.length := Nat.mul_le_mul hk hL1
    omega
  unfold compact at hnr ⊢
  split
  · rename_i hf; exact absurd hf hne
  · rename_i lvl hf
    rw [hf] at hnr
    simp only at hnr ⊢
    have hle := pickKept_length_le (P r lvl).1 lvl
    have hkl := firstFull_some_le hf
    have hkept : pickKept (P r lvl).1 lvl ≠ [] := by
      intro h0
      rw [h0] at hnr
      simp only [List.length_nil] at hnr
      omega
    have hsame : popTop c (compactLevels s.k (P r lvl).1 s.levels) = compactLevels s.k (P r lvl).1 s.levels := by
      cases hp : c.popsEmptyTop with
      | false => exact popTop_pinned c hp _
      | true => exact popTop_of_topNonempty c _ (topNonempty_compactLevels _ hf hkept (ht hp))
    rw [hsame]
    exact ⟨compactLevels_length_ge _ _ _, compactLevels_length_two _ hf⟩

theorem drain_inv (c : Cfg) (P : Picker ρ α) (f : Nat) (r : ρ) {s : Sketch α} (hi : Inv s) : Inv (drain c P f r s).1 := by
  induction f generalizing r s with
  | zero => exact hi
  | succ f ih =>
    simp only [drain]
    split
    · exact ih _ (compact_inv c P r hi)
    · exact hi

theorem drain_topNonempty (c : Cfg) (hp : c.popsEmptyTop = true) (P : Picker ρ α) (f : Nat) (r : ρ) (s : Sketch α)
    (ht : topNonempty s.levels = true) : topNonempty (drain c P f r s).1.levels = true := by
  induction f generalizing r s with
  | zero => exact ht
  | succ f ih =>
    simp only [drain]
    split
    · exact ih _ _ (compact_topNonempty c hp P r s ht)
    · exact ht

theorem drain_fst_k (c : Cfg) (P : Picker ρ α) (f : Nat) (r : ρ) (s : Sketch α) : (drain c P f r s).1.k = s.k := by
  induction f generalizing r s with
  | zero => rfl
  | succ f ih =>
    simp only [drain]; split
    · rw [ih, compact_fst_k]
    · rfl
theorem drain_fst_dim (c : Cfg) (P : Picker ρ α) (f : Nat) (r : ρ) (s : Sketch α) : (drain c P f r s).1.dim = s.dim := by
  induction f generalizing r s with
  | zero => rfl
  | succ f ih =>
    simp only [drain]; split
    · rw [ih, compact_fst_dim]
    · rfl
theorem drain_fst_n (c : Cfg) (P : Picker ρ α) (f : Nat) (r : ρ) (s : Sketch α) : (drain c P f r s).1.n = s.n := by
  induction f generalizing r s with
  | zero => rfl
  | succ f ih =>
    simp only [drain]; split
    · rw [ih, compact_fst_n]
    · rfl

theorem drain_numRetained_le (c : Cfg) (P : Picker ρ α) (f : Nat) (r : ρ) (s : Sketch α) :
    (drain c P f r s).1.numRetained ≤ s.numRetained := by
  induction f generalizing r s with
  | zero => exact Nat.le_refl _
  | succ f ih =>
    simp only [drain]; split
    · exact Nat.le_trans (ih _ _) (compact_numRetained_le c P r s)
    · exact Nat.le_refl _

/-- pinned shape only: the loop never removes a level -/
theorem drain_length_ge (c : Cfg) (hp : c.popsEmptyTop = false) (P : Picker ρ α) (f : Nat) (r : ρ) (s : Sketch α) :
    s.levels.length ≤ (drain c P f r s).1.levels.length := by
  induction f generalizing r s with
  | zero => exact Nat.le_refl _
  | succ f ih =>
    simp only [drain]; split
    · exact Nat.le_trans (compact_length_ge c hp P r s) (ih _ _)
    · exact Nat.le_refl _

/-- both shapes: a loop run that does not lower `num_retained_` removes no level -/
theorem drain_keepall_length_ge (c : Cfg) (P : Picker ρ α) (f : Nat) (r : ρ) {s : Sketch α} (hi : Inv s) (hk : 1 ≤ s.k)
    (ht : c.popsEmptyTop = true → topNonempty s.levels = true)
    (hnr : (drain c P f r s).1.numRetained = s.numRetained) : s.levels.length ≤ (drain c P f r s).1.levels.length := by
  induction f generalizing r s with
  | zero => exact Nat.le_refl _
  | succ f ih =>
    simp only [drain] at hnr ⊢
    split
    · rename_i hc
      simp only [hc, if_true] at hnr
      have h1 := drain_numRetained_le c P f (compact c P r s).2 (compact c P r s).1
      have h2 := compact_numRetained_le c P r s
      have hnr1 : (compact c P r s).1.numRetained = s.numRetained := by omega
      have hk1 := compact_keepall c P r hi hk hc ht hnr1
      have := ih (compact c P r s).2 (compact_inv c P r hi) (by rw [compact_fst_k]; exact hk)
        (fun hp => compact_topNonempty c hp P r s (ht hp)) (by omega)
      omega
    · exact Nat.le_refl _

/-- the loop exits by its own guard as soon as the budget exceeds μ_B -/
theorem drain_exits (c : Cfg) (P : Picker ρ α) (B : Nat) (f : Nat) (r : ρ) {s : Sketch α} (hi : Inv s) (hk : 1 ≤ s.k)
    (hB : s.numRetained ≤ B) (hf : mu B 0 s.levels < f) : loopCond (drain c P f r s).1 = false := by
  induction f generalizing r s with
  | zero => omega
  | succ f ih =>
    simp only [drain]
    split
    · rename_i hc
      have hp := compact_progress c P r hi hk hc B hB
      apply ih _ (compact_inv c P r hi)
      · rw [compact_fst_k]; exact hk
      · exact Nat.le_trans (compact_numRetained_le c P r s) hB
      · omega
    · rename_i hc; simpa using hc

/-- more budget than needed changes nothing -/
theorem drain_stable (c : Cfg) (P : Picker ρ α) (f g : Nat) (r : ρ) (s : Sketch α)
    (hx : loopCond (drain c P f r s).1 = false) (hg : f ≤ g) : drain c P g r s = drain c P f r s := by
  induction f generalizing g r s with
  | zero =>
    simp only [drain] at hx ⊢
    cases g with
    | zero => rfl
    | succ g => simp [drain, hx]
  | succ f ih =>
    cases g with
    | zero => omega
    | succ g =>
      simp only [drain] at hx ⊢
      split
      · rename_i hc
        simp only [hc, if_true] at hx
        exact ih g _ _ hx (by omega)
      · rfl

theorem fuelOf_enough {s : Sketch α} (hi : Inv s) : mu s.numRetained 0 s.levels < fuelOf s := by
  have := mu_le s.numRetained 0 s.levels
  rw [← hi.cnt] at this
  unfold fuelOf; omega

theorem compactLoop_exits (c : Cfg) (P : Picker ρ α) (r : ρ) {s : Sketch α} (hi : Inv s) (hk : 1 ≤ s.k) :
    loopCond (compactLoop c P r s).1 = false :=
  drain_exits c P s.numRetained _ r hi hk (Nat.le_refl _) (fuelOf_enough hi)

/-- both shapes: if the loop leaves a single level and did not lower `num_retained_` it did nothing at all -/
theorem drain_noop (c : Cfg) (P : Picker ρ α) (f : Nat) (r : ρ) {s : Sketch α} (hi : Inv s) (hk : 1 ≤ s.k)
    (ht : c.popsEmptyTop = true → topNonempty s.levels = true)
    (hnr : (drain c P f r s).1.numRetained = s.numRetained)
    (h1 : (drain c P f r s).1.levels.length = 1) : drain c P f r s = (s, r) := by
  cases f with
  | zero => rfl
  | succ f =>
    simp only [drain] at h1 hnr ⊢
    split
    · rename_i hc
      simp only [hc, if_true] at h1 hnr
      have a1 := drain_numRetained_le c P f (compact c P r s).2 (compact c P r s).1
      have a2 := compact_numRetained_le c P r s
      have hnr1 : (compact c P r s).1.numRetained = s.numRetained := by omega
      have h2 := (compact_keepall c P r hi hk hc ht hnr1).2
      have h3 := drain_keepall_length_ge c P f (compact c P r s).2 (compact_inv c P r hi) (by rw [compact_fst_k]; exact hk)
        (fun hp => compact_topNonempty c hp P r s (ht hp)) (by omega)
      omega
    · rfl

/-- pinned shape: if the loop leaves a single level it did nothing at all (a compaction always leaves ≥ 2 levels) -/
theorem drain_one_level (c : Cfg) (hp : c.popsEmptyTop = false) (P : Picker ρ α) (f : Nat) (r : ρ) {s : Sketch α} (hi : Inv s)
    (hk : 1 ≤ s.k) (h1 : (drain c P f r s).1.levels.length = 1) : drain c P f r s = (s, r) := by
  cases f with
  | zero => rfl
  | succ f =>
    simp only [drain] at h1 ⊢
    split
    · rename_i hc
      simp only [hc, if_true] at h1
      have hc' : s.k * s.levels.length ≤ s.numRetained := by simpa [loopCond] using hc
      have hne : firstFull s.k s.levels ≠ none := firstFull_ne_none hi.ne (by rw [← hi.cnt]; exact hc')
      have h2 : 2 ≤ (compact c P r s).1.levels.length := by
        unfold compact; split
        · rename_i hf; exact absurd hf hne
        · rename_i lvl hf; simp only [popTop_pinned c hp]; exact compactLevels_length_two _ hf
      have h3 := drain_length_ge c hp P f (compact c P r s).2 (compact c P r s).1
      omega
    · rfl

end DS.Density
